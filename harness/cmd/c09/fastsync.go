package main

// Fast sync without networking: the storage-touching steps of protocol/fast.go in the order the downloader runs
// them (preConsuming :113-124, applyDeferredBlocks :139-194 per header, postConsuming :327-366), driven with the
// headers / identity diffs / state snapshot of the reference node instead of a peer.  Everything that writes is the
// REAL code (CreatePreliminaryCopy, AddDiff, CommitTree, AddHeaderUnsafe, WriteIdentityStateDiff, WriteSnapshot2 →
// RecoverSnapshot2, SaveForcedVersion, AtomicSwitchToPreliminary incl. its asynchronous ClearDb of the old trees).
// Not driven: certificates (the automine chain has none), the bloom-filter path that indexes own transactions.
import (
	"bytes"
	"fmt"
	"runtime/debug"
	"strings"
	"time"

	"github.com/idena-network/idena-go/blockchain/types"
	"github.com/idena-network/idena-go/core/state"
	"github.com/idena-network/idena-go/core/state/snapshot"
	"github.com/idena-network/idena-go/events"

	"verifharness/internal/chainfx"
	"verifharness/internal/crashdb"
)

type fsPlan struct {
	ref      *chainfx.Node
	headers  []*types.Block // blocks above the victim's head, the last one is the snapshot height
	snap     []byte         // state snapshot at the last header (produced once)
	declared []int          // op indices of the block-by-block alternative
}

func (s *scen) runFastSync(n *chainfx.Node, cdb *crashdb.DB, p *fsPlan) (err error) {
	defer func() {
		if r := recover(); r != nil {
			err = fmt.Errorf("fast sync panic: %v\n%s", r, debug.Stack())
		}
	}()
	last := p.headers[len(p.headers)-1]
	if p.snap == nil {
		buf := new(bytes.Buffer)
		if _, err := p.ref.App.State.WriteSnapshot2(last.Height(), buf); err != nil {
			return fmt.Errorf("reference snapshot: %v", err)
		}
		p.snap = buf.Bytes()
	}
	head := n.Chain.Head
	var idb *state.IdentityStateDB
	if n.Chain.PreliminaryHead == nil {
		// preConsuming, first branch
		n.Chain.PreliminaryHead = head
		if idb, err = n.App.IdentityState.CreatePreliminaryCopy(head.Height()); err != nil {
			return fmt.Errorf("CreatePreliminaryCopy: %v", err)
		}
	} else {
		// preConsuming after a restart in the middle of a fast sync: resume from the stored preliminary head
		if idb, err = n.App.IdentityState.LoadPreliminary(n.Chain.PreliminaryHead.Height()); err != nil {
			n.Chain.RemovePreliminaryHead(nil)
			n.App.IdentityState.DropPreliminary()
			n.Chain.PreliminaryHead = head
			if idb, err = n.App.IdentityState.CreatePreliminaryCopy(head.Height()); err != nil {
				return fmt.Errorf("CreatePreliminaryCopy (after drop): %v", err)
			}
		}
	}
	for _, b := range p.headers {
		if b.Height() <= n.Chain.PreliminaryHead.Height() {
			continue
		}
		diff := p.ref.Chain.GetIdentityDiff(b.Height())
		if diff == nil {
			diff = &state.IdentityStateDiff{}
		}
		// validateIdentityState
		idb.AddDiff(b.Height(), diff)
		if idb.Root() != b.IdentityRoot() {
			idb.Reset()
			return fmt.Errorf("identity root is invalid at %d", b.Height())
		}
		if !diff.Empty() {
			idb.CommitTree(int64(b.Height()))
		}
		if err := n.Chain.AddHeaderUnsafe(b.Header); err != nil {
			return err
		}
		n.Chain.WriteIdentityStateDiff(b.Height(), diff)
	}
	// postConsuming
	if n.Chain.PreliminaryHead.Height() != last.Height() {
		return fmt.Errorf("preliminary head %d is not the manifest height %d", n.Chain.PreliminaryHead.Height(), last.Height())
	}
	if err := n.App.State.RecoverSnapshot2(last.Height(), n.Chain.PreliminaryHead.Root(), bytes.NewReader(p.snap)); err != nil {
		return fmt.Errorf("RecoverSnapshot2: %v", err)
	}
	idb.SaveForcedVersion(n.Chain.PreliminaryHead.Height())
	if err := n.Chain.AtomicSwitchToPreliminary(&snapshot.Manifest{Height: last.Height(), Root: last.Root()}); err != nil {
		return fmt.Errorf("AtomicSwitchToPreliminary: %v", err)
	}
	n.Bus.Publish(events.FastSyncCompletedEvent{})
	// AtomicSwitchToPreliminary clears the two abandoned trees in a goroutine: wait until its writes have stopped
	quiet := 0
	lastTotal := cdb.Total()
	for i := 0; i < 4000 && quiet < 8; i++ {
		time.Sleep(2 * time.Millisecond)
		if t := cdb.Total(); t == lastTotal {
			quiet++
		} else {
			quiet, lastTotal = 0, t
		}
	}
	return nil
}

// fsLine: `fsync <S> <hid> <sroot> <iroot> <found-canon> | per-header diff flags | run-compressed staging classes are
// produced by the model from: copy count, per-header flags, import count, forced flag, clear counts`.
// The observed sequence is printed run-length compressed (`class*n`), so are the model's.
func (s *scen) fsLine(p *fsPlan, ev []crashdb.Event) string {
	last := p.headers[len(p.headers)-1]
	var flags []string
	for _, b := range p.headers {
		d := p.ref.Chain.GetIdentityDiff(b.Height())
		f := "0"
		if d != nil && !d.Empty() {
			f = "1"
		}
		flags = append(flags, fmt.Sprintf("%d:%d:%s", b.Height(), s.hid(b.Hash()), f))
	}
	// bulk counts are parameters of the model (they depend on tree sizes, which the model does not know)
	cnt := map[string]int{}
	forced := 0
	for _, e := range ev {
		switch {
		case e.Class == "id-other-key", e.Class == "st-other-key", e.Class == "id-other-key-del", e.Class == "st-other-key-del":
			cnt[e.Class]++
		case strings.HasPrefix(e.Class, "st-other-"):
			cnt["st-import-batch"]++
		}
	}
	for i, e := range ev {
		if strings.HasPrefix(e.Class, "id-prelim-save:") && i+1 < len(ev) && strings.HasPrefix(ev[i+1].Class, "batch[") {
			forced = 1
		}
	}
	return fmt.Sprintf("fsync %d %d %d %d copy=%d import=%d importb=%d forced=%d clearid=%d clearst=%d hdrs=%s", last.Height(), s.hid(last.Hash()), s.hid(last.Root()), s.hid(last.IdentityRoot()),
		cnt["id-other-key"], cnt["st-other-key"], cnt["st-import-batch"], forced, cnt["id-other-key-del"], cnt["st-other-key-del"], strings.Join(flags, ","))
}

// rle compresses consecutive equal tokens: a a a b -> a*3 b
func rle(a []string) []string {
	var r []string
	for i := 0; i < len(a); {
		j := i
		for j < len(a) && a[j] == a[i] {
			j++
		}
		if j-i > 1 {
			r = append(r, fmt.Sprintf("%s*%d", a[i], j-i))
		} else {
			r = append(r, a[i])
		}
		i = j
	}
	return r
}
