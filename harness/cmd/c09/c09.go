package main

// C09: a crash at any point leaves a node that restarts into a consistent chain.
//
// A reference node produces a block stream once (chainfx histories: all ordinary tx kinds, identity-update /
// snapshot-flag blocks, validation ceremonies on a shrunk timeline, >100 blocks for tree-version retention, a fork,
// a fast-sync hand-over).  A victim replica follows the stream over a crashdb-wrapped MemDB: every storage write of
// every operation (AddBlock, ResetTo, the fast-sync sequence ending in AtomicSwitchToPreliminary) is recorded
// with its key class.
//
//   - (G) tie: the observed class sequence of every operation is written next to the op line; the Lean model
//     (Model/Crash.lean: insertOp / resetOp / fastSyncOp) must print the same sequence.
//   - (D) crash sweep: for every cut point k of the swept operations (thorough: all; quick: all class boundaries +
//     a sample) the store as of k writes is rebuilt in a fresh MemDB, the REAL start-up (chainfx.Start =
//     InitializeChain; Initialize(head) else Initialize(0); EnsureIntegrity; txPool.Initialize) runs on it, and the
//     result (head, loaded tree versions, repair writes) is compared with the model's `recover (crashAt k ws s)`;
//     then the same next blocks are fed and the end state is compared with the model's continuation.
//   - independent Go oracle (no Lean involved): start-up succeeds; head roots = loaded state roots; head is a
//     block of the history at the interrupted height or a retained height below; continuing with the same next
//     blocks is accepted and ends at the never-crashed replica's head hash and roots; a clean restart at a block
//     boundary changes no observable.
import (
	"encoding/binary"
	"encoding/json"
	"fmt"
	"math/rand"
	"os"
	"sort"
	"strings"
	"time"

	"github.com/idena-network/idena-go/blockchain/types"
	"github.com/idena-network/idena-go/common"
	"github.com/idena-network/idena-go/config"
	dbm "github.com/tendermint/tm-db"

	"verifharness/internal/chainfx"
	"verifharness/internal/crashdb"
	"verifharness/internal/hx"
)

type c09case struct {
	Seed  int64  `json:"seed"`
	Kind  string `json:"kind"`            // mixed | epoch | retention | fork | fastsync
	Op    int    `json:"op"`              // -1: every swept operation
	Cut   int    `json:"cut"`             // -1: cut points per tier policy
	All   bool   `json:"all,omitempty"`   // every cut point of every swept operation
	Hole  int    `json:"hole,omitempty"`  // 0: plain cut; 1 / 2: additionally the canonical hash of the head / of the height below is deleted (a database written before the head batch existed)
	Class string `json:"class,omitempty"` // class of the write at the cut (informational)
	What  string `json:"what,omitempty"`  // operation description (informational)
}

// vop is one operation of the victim replica.
type vop struct {
	kind     string // ins | reset | fsync
	blk      *types.Block
	resetTo  uint64
	fs       *fsPlan
	swept    bool
	declOnly bool         // registered for continuations only, never performed by the victim
	alt      *types.Block // a competing block at the same height on the same parent
	altOps   []int        // op indices of [ResetTo(parent height), AddBlock(alt)], declared lazily
	base     *dbm.MemDB   // store before the operation (swept ops only)
	events   []crashdb.Event
	h0       uint64          // head height before
	allowed  map[uint64]bool // property's allowed restart heights
	post     string          // observables of the live victim after the operation
	line     string
	descr    string
}

type scen struct {
	c           *hx.Ctx
	cs          c09case
	w           *chainfx.World
	attach      bool
	vkey        int
	ops         []*vop
	known       map[common.Hash]*types.Block
	target      []*types.Block // chain of the never-crashed replica (by height order)
	onTgt       map[common.Hash]bool
	ids         map[string]int
	refEnd      string
	failed      bool
	fullSyncAlt bool
	resetIdx    int
	curHole     int
	mainTip     common.Hash
	mainNextIdx int
	ref         *chainfx.Node
}

func (s *scen) id(b []byte) int {
	k := string(b)
	if v, ok := s.ids[k]; ok {
		return v
	}
	v := len(s.ids) + 1
	s.ids[k] = v
	return v
}

func (s *scen) hid(h common.Hash) int { return s.id(h[:]) }

func (s *scen) fail(sig, detail string, op, cut int, class string) {
	s.failed = true
	what := ""
	if op >= 0 && op < len(s.ops) {
		what = s.ops[op].descr
	}
	if s.curHole > 0 && cut >= 0 {
		detail = "[" + sig + " on a database whose canonical hash " + fmt.Sprint(s.curHole-1) + " below the head was deleted] " + detail
		sig = "C09:canon-hole:legacy-db-not-healed"
	}
	s.c.Fail(sig, detail, c09case{Seed: s.cs.Seed, Kind: s.cs.Kind, Op: op, Cut: cut, Class: class, What: what, Hole: s.curHole})
}

// compress maps secondary-index classes to `sec` (the model takes their number as a parameter).
func tieClasses(ev []crashdb.Event) []string {
	r := make([]string, len(ev))
	for i, e := range ev {
		if crashdb.Secondary(e.Class) {
			r[i] = "sec"
		} else {
			r[i] = e.Class
		}
	}
	return r
}

func primaryClasses(ev []crashdb.Event) []string {
	var r []string
	for _, e := range ev {
		if !crashdb.Secondary(e.Class) {
			r = append(r, e.Class)
		}
	}
	return r
}

func joinOrDash(a []string) string {
	if len(a) == 0 {
		return "-"
	}
	return strings.Join(a, ",")
}

// observables of a node that a clean restart must not change
func observe(n *chainfx.Node, w *chainfx.World) string {
	var sb strings.Builder
	fmt.Fprintf(&sb, "head=%x sroot=%x iroot=%x sv=%d iv=%d net=%d online=%d vals=%d epoch=%d period=%d prelim=%v",
		n.Chain.Head.Hash(), n.App.State.Root(), n.App.IdentityState.Root(), n.App.State.Version(), n.App.IdentityState.Version(),
		n.App.ValidatorsCache.NetworkSize(), n.App.ValidatorsCache.OnlineSize(), n.App.ValidatorsCache.ValidatorsSize(),
		n.App.State.Epoch(), n.App.State.ValidationPeriod(), n.Chain.PreliminaryHead != nil)
	for i, a := range w.Addrs {
		fmt.Fprintf(&sb, " %d:%s/%d/%d/%v", i, n.App.State.GetBalance(a), n.App.State.GetNonce(a), n.App.State.GetIdentityState(a), n.App.ValidatorsCache.IsOnlineIdentity(a))
	}
	return sb.String()
}

func endState(n *chainfx.Node) string {
	return fmt.Sprintf("%x/%x/%x", n.Chain.Head.Hash(), n.App.State.Root(), n.App.IdentityState.Root())
}

func retained(n *chainfx.Node, upTo uint64) map[uint64]bool {
	r := map[uint64]bool{}
	for v := uint64(1); v <= upTo; v++ {
		if n.App.State.HasVersion(v) && n.App.IdentityState.HasVersion(v) {
			r[v] = true
		}
	}
	return r
}

func blockKind(b *types.Block) string {
	f := b.Header.Flags()
	var k []string
	if b.IsEmpty() {
		k = append(k, "empty")
	}
	for _, x := range []struct {
		f types.BlockFlag
		n string
	}{{types.IdentityUpdate, "identity-update"}, {types.Snapshot, "snapshot"}, {types.ValidationFinished, "epoch-finishing"},
		{types.FlipLotteryStarted, "lottery"}, {types.ShortSessionStarted, "short"}, {types.LongSessionStarted, "long"}, {types.AfterLongSessionStarted, "afterlong"}} {
		if f.HasFlag(x.f) {
			k = append(k, x.n)
		}
	}
	if len(k) == 0 {
		k = append(k, "plain")
	}
	if len(b.Body.Transactions) > 0 {
		k = append(k, "txs")
	}
	return strings.Join(k, "+")
}

// ---------------------------------------------------------------------------------------------------------------
// scenario construction: the reference stream

type stream struct {
	w      *chainfx.World
	attach bool
	main   []*types.Block
	fork   []*types.Block // kind fork: blocks above `common` of the chain that wins
	common int            // number of main blocks shared with the fork
	window [2]int         // indices into the victim's op list that are swept
	fsAt   int            // kind fastsync: index in main of the snapshot block the victim fast-syncs to
	ref    *chainfx.Node
	// kind fork: the first proposer (stays on the abandoned branch), one more block of that branch (fed to a node that
	// restarts on its tip: the never-switched reference accepts it), and whether the abandoned range changes the identity state
	alt                     map[int]*types.Block // kinds mixed / retention: a competing block on the same parent as main[i] (another proposal)
	mainNode                *chainfx.Node
	mainNext                *types.Block
	abandonedIdentityUpdate bool
}

// altProposer follows the reference stream on a second replica of the proposer and, for the swept indices, proposes a
// COMPETING block on the same parent (its own transaction, a later proposer time) before it adopts the reference block.
type altProposer struct {
	n  *chainfx.Node
	sn *chainfx.Sender
	w  *chainfx.World
}

func newAltProposer(w *chainfx.World) (*altProposer, error) {
	n, err := w.StartNode(nil, 0, false)
	if err != nil {
		return nil, err
	}
	return &altProposer{n: n, sn: chainfx.NewSender(w), w: w}, nil
}

func (a *altProposer) follow(st *stream, idx int, blk *types.Block, want bool) error {
	if want {
		u := 2 + idx%5
		to := a.w.Addrs[0]
		a.sn.Send(a.n, u, &types.Transaction{Type: types.SendTx, To: &to, Amount: chainfx.Dna(int64(1 + idx%7))})
		chainfx.Advance(time.Second)
		if p, err := a.n.Propose(); err == nil && p.Block.Hash() != blk.Hash() && p.Block.Root() != blk.Root() {
			if st.alt == nil {
				st.alt = map[int]*types.Block{}
			}
			st.alt[idx] = p.Block
		}
	}
	cb, _ := chainfx.CloneBlock(blk)
	if err := a.n.Add(cb); err != nil {
		return fmt.Errorf("alt proposer cannot follow block %d: %v", blk.Height(), err)
	}
	return nil
}

func tweakFor(kind string) func(*config.Config) {
	return func(cfg *config.Config) {
		switch kind {
		case "mixed", "fork", "fastsync":
			cfg.Consensus.SnapshotRange = 5
		}
	}
}

func buildStream(cs c09case, quick bool) (*stream, error) {
	r := rand.New(rand.NewSource(cs.Seed))
	w := chainfx.NewWorld(cs.Seed, 8, 0, time.Date(2030, 1, 1, 0, 0, 0, 0, time.UTC))
	w.Opts.Tweak = tweakFor(cs.Kind)
	st := &stream{w: w}
	step := func(h *chainfx.History, b int) (*types.Block, error) {
		blk, err := h.Step(b)
		if err != nil {
			return nil, fmt.Errorf("reference history block %d: %v", b, err)
		}
		return blk, nil
	}
	switch cs.Kind {
	case "mixed":
		h, err := chainfx.Bootstrap(w, chainfx.HistoryOpts{TxPerBlock: 5}, r, false)
		if err != nil {
			return nil, err
		}
		st.ref = h.N
		n := 13 + r.Intn(4)
		st.window = [2]int{n - 7, n - 2}
		ap, err := newAltProposer(w)
		if err != nil {
			return nil, err
		}
		for b := 1; b <= n; b++ {
			blk, err := step(h, b)
			if err != nil {
				return nil, err
			}
			st.main = append(st.main, blk)
			if err := ap.follow(st, b-1, blk, b-1 >= st.window[0] && b-1 < st.window[1]); err != nil {
				return nil, err
			}
		}
	case "retention":
		h, err := chainfx.Bootstrap(w, chainfx.HistoryOpts{TxPerBlock: 2}, r, false)
		if err != nil {
			return nil, err
		}
		st.ref = h.N
		n := 105
		// heights = index+2 (genesis is height 1): versions pass 100 at index 99
		st.window = [2]int{98, 102}
		ap, err := newAltProposer(w)
		if err != nil {
			return nil, err
		}
		for b := 1; b <= n; b++ {
			blk, err := step(h, b)
			if err != nil {
				return nil, err
			}
			st.main = append(st.main, blk)
			if err := ap.follow(st, b-1, blk, b-1 >= st.window[0] && b-1 < st.window[1]); err != nil {
				return nil, err
			}
		}
	case "epoch":
		st.attach = true
		h, err := chainfx.Bootstrap(w, chainfx.HistoryOpts{ShortEpochs: true, TxPerBlock: 3}, r, true)
		if err != nil {
			return nil, err
		}
		st.ref = h.N
		fin := -1
		for b := 1; b <= 90; b++ {
			blk, err := step(h, b)
			if err != nil {
				return nil, err
			}
			st.main = append(st.main, blk)
			if blk.Header.Flags().HasFlag(types.ValidationFinished) && fin < 0 {
				fin = len(st.main) - 1
			}
			if fin >= 0 && len(st.main) >= fin+4 {
				break
			}
		}
		if fin < 0 {
			return nil, fmt.Errorf("no epoch-finishing block within 90 blocks")
		}
		st.window = [2]int{fin - 2, fin + 2}
	case "fork":
		h, err := chainfx.Bootstrap(w, chainfx.HistoryOpts{TxPerBlock: 4}, r, false)
		if err != nil {
			return nil, err
		}
		st.ref = h.N
		pre := 6 + r.Intn(4)
		for b := 1; b <= pre; b++ {
			blk, err := step(h, b)
			if err != nil {
				return nil, err
			}
			st.main = append(st.main, blk)
		}
		st.common = pre
		// second proposer: replica of the prefix, then its own continuation (the fork that wins)
		n2, err := w.StartNode(nil, 0, false)
		if err != nil {
			return nil, err
		}
		for _, b := range st.main {
			cb, _ := chainfx.CloneBlock(b)
			if err := n2.Add(cb); err != nil {
				return nil, fmt.Errorf("fork proposer cannot follow prefix: %v", err)
			}
		}
		h2 := chainfx.NewHistory(w, n2, rand.New(rand.NewSource(cs.Seed+7777)), chainfx.HistoryOpts{TxPerBlock: 4})
		mainLen := 1 + r.Intn(3)
		if r.Intn(2) == 0 {
			// quiet abandoned branch: no transactions, so that (unless a pending status switch fires) the identity root
			// is the same at the reset target and at the abandoned tip
			h.O.TxPerBlock = 0
		} else {
			// an identity update inside the abandoned range: a validated user kills its identity
			for _, i := range []int{3, 5, 1, 7} {
				if h.N.App.ValidatorsCache.IsValidated(w.Addrs[i]) {
					if _, err := h.S.Send(h.N, i, &types.Transaction{Type: types.KillTx}); err == nil {
						break
					}
				}
			}
		}
		for b := 1; b <= mainLen+1; b++ {
			blk, err := step(h, pre+b)
			if err != nil {
				return nil, err
			}
			if b > mainLen {
				st.mainNext = blk
				break
			}
			st.main = append(st.main, blk)
			if d := h.N.Chain.GetIdentityDiff(blk.Height()); d != nil && !d.Empty() {
				st.abandonedIdentityUpdate = true
			}
		}
		st.mainNode = h.N
		forkLen := mainLen + 1 + r.Intn(2)
		for b := 1; b <= forkLen; b++ {
			blk, err := step(h2, pre+100+b)
			if err != nil {
				return nil, err
			}
			st.fork = append(st.fork, blk)
		}
		st.ref = n2
		// ops: main..., reset, fork...; swept: reset + all fork blocks
		// (the last common block and the abandoned branch are swept too: their continuation includes the fork switch)
		st.window = [2]int{st.common - 1, len(st.main) + 1 + len(st.fork)}
	case "fastsync":
		h, err := chainfx.Bootstrap(w, chainfx.HistoryOpts{TxPerBlock: 5}, r, false)
		if err != nil {
			return nil, err
		}
		st.ref = h.N
		n := 16
		for b := 1; b <= n; b++ {
			blk, err := step(h, b)
			if err != nil {
				return nil, err
			}
			st.main = append(st.main, blk)
		}
		st.fsAt = -1
		for i := len(st.main) - 4; i >= 4; i-- {
			if st.main[i].Header.Flags().HasFlag(types.Snapshot) {
				st.fsAt = i
				break
			}
		}
		if st.fsAt < 0 {
			st.fsAt = len(st.main) - 4
		}
	default:
		return nil, fmt.Errorf("unknown scenario kind %q", cs.Kind)
	}
	return st, nil
}

// ---------------------------------------------------------------------------------------------------------------

func (s *scen) insLine(b *types.Block, diff, prelim bool, ev []crashdb.Event) string {
	// number of secondary-index writes before / after the (optional) preliminary-head removal
	sec1, sec2, seenRm := 0, 0, false
	for _, e := range ev {
		if e.Class == "prelim-head-del" {
			seenRm = true
		} else if crashdb.Secondary(e.Class) {
			if seenRm {
				sec2++
			} else {
				sec1++
			}
		}
	}
	if !prelim {
		// without the removal write both groups are adjacent; the model emits sec1+sec2 in one run
		sec1, sec2 = sec1+sec2, 0
	}
	bi := func(x bool) int {
		if x {
			return 1
		}
		return 0
	}
	return fmt.Sprintf("ins %d %d %d %d %d %d %d %d", b.Height(), s.hid(b.Hash()), s.hid(b.Header.ParentHash()), s.hid(b.Root()), s.hid(b.IdentityRoot()),
		bi(diff), sec1, sec2)
}

// runOp executes one operation on a node whose database is wrapped by cdb and returns the recorded events.
func (s *scen) runOp(n *chainfx.Node, cdb *crashdb.DB, o *vop) (ev []crashdb.Event, err error) {
	cdb.StartRecording()
	defer func() {
		ev = cdb.StopRecording()
	}()
	switch o.kind {
	case "ins":
		cb, e := chainfx.CloneBlock(o.blk)
		if e != nil {
			return nil, e
		}
		err = n.Add(cb)
	case "reset":
		func() {
			defer func() {
				if r := recover(); r != nil {
					err = fmt.Errorf("ResetTo panic: %v", r)
				}
			}()
			_, err = n.Chain.ResetTo(o.resetTo)
		}()
	case "fsync":
		err = s.runFastSync(n, cdb, o.fs)
	}
	return
}

func (s *scen) opLine(n *chainfx.Node, o *vop, prelimBefore bool, ev []crashdb.Event) string {
	switch o.kind {
	case "ins":
		diff := n.Chain.FxRepo().ReadIdentityStateDiff(o.blk.Height()) != nil
		return s.insLine(o.blk, diff, prelimBefore, ev)
	case "reset":
		return fmt.Sprintf("reset %d", o.resetTo)
	case "fsync":
		return s.fsLine(o.fs, ev)
	}
	return "?"
}

type restarted struct {
	err    error
	n      *chainfx.Node
	cdb    *crashdb.DB
	repair []crashdb.Event
}

func (s *scen) restart(store *dbm.MemDB) restarted {
	cdb := crashdb.New(store)
	cdb.StartRecording()
	n, err := chainfx.Start(cdb, s.w.Keys[s.vkey], s.w.Cfg(), s.attach)
	ev := cdb.StopRecording()
	if err == nil && s.attach {
		// ceremony.Initialize ends with vc.addBlock(currentBlock): the head block is handled again after a restart
		if hb, ok := s.known[n.Chain.Head.Hash()]; ok {
			func() {
				defer func() {
					if r := recover(); r != nil {
						err = fmt.Errorf("ceremony re-handling of head block panicked: %v", r)
					}
				}()
				n.VC.FxOnBlock(hb)
			}()
		}
	}
	return restarted{err: err, n: n, cdb: cdb, repair: ev}
}

// plan: the operations a restarted node still has to perform to reach the never-crashed replica's end state.
func (s *scen) plan(n *chainfx.Node, i int) []int {
	var p []int
	head := n.Chain.Head
	if s.resetIdx >= 0 && i < s.resetIdx {
		// crashed before the fork switch: the node gets what the never-crashed replica got from here on —
		// the rest of the first branch, then ResetTo + the longer fork
		for j := i; j < len(s.ops); j++ {
			o := s.ops[j]
			if o.declOnly || (j < s.resetIdx && o.kind == "ins" && o.blk.Height() <= head.Height()) {
				continue
			}
			if j == s.resetIdx && s.mainNextIdx >= 0 {
				p = append(p, s.mainNextIdx) // one more block of the first branch before the switch
			}
			p = append(p, j)
		}
		return p
	}
	if s.onTgt[head.Hash()] {
		for j, o := range s.ops {
			switch {
			case o.kind == "fsync" && o.fs.headers[len(o.fs.headers)-1].Height() > head.Height():
				// a node below the snapshot height either resumes the fast sync or (alternate cuts) syncs block by block
				if s.fullSyncAlt {
					p = append(p, o.fs.declared...)
				} else {
					p = append(p, j)
				}
			case o.kind == "ins" && !o.declOnly && s.onTgt[o.blk.Hash()] && o.blk.Height() > head.Height():
				p = append(p, j)
			}
		}
		return p
	}
	// head on the abandoned branch: first the next block of that branch when the node stands on its tip (the node that
	// never switched accepts it), then the fork switch starts over (ResetTo + fork blocks)
	for j, o := range s.ops {
		if o.kind == "reset" {
			if s.mainNextIdx >= 0 && head.Hash() == s.mainTip {
				p = append(p, s.mainNextIdx)
			}
			for k := j; k < len(s.ops); k++ {
				if !s.ops[k].declOnly {
					p = append(p, k)
				}
			}
			return p
		}
	}
	return nil
}

func (s *scen) cutPoints(o *vop, quick bool, r *rand.Rand) []int {
	n := len(o.events)
	if !quick || s.cs.All || n <= 14 {
		p := make([]int, n+1)
		for i := range p {
			p[i] = i
		}
		return p
	}
	set := map[int]bool{0: true, n: true, n - 1: true}
	for k := 1; k < n; k++ {
		if o.events[k].Class != o.events[k-1].Class {
			set[k] = true
			if !crashdb.Secondary(o.events[k].Class) || !crashdb.Secondary(o.events[k-1].Class) {
				set[k+1] = true
			}
		}
	}
	for i := 0; i < 6; i++ {
		set[r.Intn(n+1)] = true
	}
	var p []int
	for k := range set {
		if k >= 0 && k <= n {
			p = append(p, k)
		}
	}
	sort.Ints(p)
	return p
}

func runScenario(c *hx.Ctx, cs c09case) error {
	if cs.Kind == "snapexport" {
		return runSnapExport(c, cs)
	}
	quick := c.Tier != "thorough"
	defer os.RemoveAll("./testdata")
	defer os.RemoveAll("./testdata2")
	st, err := buildStream(cs, quick)
	if err != nil {
		// a history that cannot be generated is a fixture problem, not a verdict; keep it visible
		c.Hit("scenario-skipped:" + cs.Kind)
		c.Rep.Notes = append(c.Rep.Notes, fmt.Sprintf("scenario %v skipped: %v", cs, err))
		return nil
	}
	s := &scen{c: c, cs: cs, w: st.w, attach: st.attach, vkey: 1, known: map[common.Hash]*types.Block{}, onTgt: map[common.Hash]bool{}, ids: map[string]int{}}
	for _, b := range st.main {
		s.known[b.Hash()] = b
	}
	for _, b := range st.fork {
		s.known[b.Hash()] = b
	}
	// the never-crashed replica's chain
	if cs.Kind == "fork" {
		s.target = append(append([]*types.Block{}, st.main[:st.common]...), st.fork...)
	} else {
		s.target = st.main
	}
	for _, b := range s.target {
		s.onTgt[b.Hash()] = true
	}
	s.refEnd = endState(st.ref)
	s.resetIdx = -1
	s.mainNextIdx = -1
	s.ref = st.ref

	// victim replica over a recording database
	under := dbm.NewMemDB()
	cdb := crashdb.New(under)
	V, err := st.w.StartNode(cdb, s.vkey, s.attach)
	if err != nil {
		return fmt.Errorf("victim start: %v", err)
	}
	g := V.Chain.Head
	s.onTgt[g.Hash()] = true
	c.Line("new "+cs.Kind, "ok")
	c.Line(fmt.Sprintf("genesis %d %d %d %d", g.Height(), s.hid(g.Hash()), s.hid(g.Root()), s.hid(g.IdentityRoot())), "ok")

	// operation list
	switch cs.Kind {
	case "fork":
		for _, b := range st.main {
			s.ops = append(s.ops, &vop{kind: "ins", blk: b})
		}
		s.resetIdx = len(s.ops)
		s.ops = append(s.ops, &vop{kind: "reset", resetTo: st.main[st.common-1].Height()})
		for _, b := range st.fork {
			s.ops = append(s.ops, &vop{kind: "ins", blk: b})
		}
		s.mainTip = st.main[len(st.main)-1].Hash()
		s.mainNextIdx = len(s.ops)
		s.ops = append(s.ops, &vop{kind: "ins", blk: st.mainNext, declOnly: true})
		s.known[st.mainNext.Hash()] = st.mainNext
		c.Hit(fmt.Sprintf("fork:abandoned-range-identity-update=%v", st.abandonedIdentityUpdate))
	case "fastsync":
		// the victim follows the first blocks normally, fast-syncs to the snapshot block, then follows again
		pre := 3
		for _, b := range st.main[:pre] {
			s.ops = append(s.ops, &vop{kind: "ins", blk: b})
		}
		s.ops = append(s.ops, &vop{kind: "fsync", fs: &fsPlan{ref: st.ref, headers: st.main[pre : st.fsAt+1]}})
		st.window = [2]int{pre, pre + 1}
		for _, b := range st.main[st.fsAt+1:] {
			s.ops = append(s.ops, &vop{kind: "ins", blk: b})
		}
		// block-by-block alternative for a node that restarts below the snapshot height (continuations only)
		for _, b := range st.main[pre : st.fsAt+1] {
			s.ops[pre].fs.declared = append(s.ops[pre].fs.declared, len(s.ops))
			s.ops = append(s.ops, &vop{kind: "ins", blk: b, declOnly: true})
		}
	default:
		for i, b := range st.main {
			s.ops = append(s.ops, &vop{kind: "ins", blk: b, alt: st.alt[i]})
			if st.alt[i] != nil {
				s.known[st.alt[i].Hash()] = st.alt[i]
			}
		}
	}
	for i, o := range s.ops {
		if o.declOnly {
			o.descr = fmt.Sprintf("AddBlock height %d (%s)", o.blk.Height(), blockKind(o.blk))
			src := st.ref
			if i == s.mainNextIdx && st.mainNode != nil {
				src = st.mainNode
			}
			diff := src.Chain.GetIdentityDiff(o.blk.Height())
			c.Line("decl "+s.insLine(o.blk, diff != nil && !diff.Empty(), false, nil), "ok")
			continue
		}
		o.swept = i >= st.window[0] && i < st.window[1] && (cs.Op < 0 || cs.Op == i)
		o.h0 = V.Chain.Head.Height()
		switch o.kind {
		case "ins":
			o.descr = fmt.Sprintf("AddBlock height %d (%s)", o.blk.Height(), blockKind(o.blk))
		case "reset":
			o.descr = fmt.Sprintf("ResetTo %d from %d", o.resetTo, o.h0)
		case "fsync":
			o.descr = fmt.Sprintf("fast sync from %d to %d", o.h0, o.fs.headers[len(o.fs.headers)-1].Height())
		}
		if o.swept {
			o.base = crashdb.Snapshot(under)
			o.allowed = retained(V, o.h0)
			o.allowed[o.h0] = true
			switch o.kind {
			case "ins":
				o.allowed[o.blk.Height()] = true
			case "fsync":
				o.allowed[o.fs.headers[len(o.fs.headers)-1].Height()] = true
			}
		}
		prelim := V.Chain.PreliminaryHead != nil
		ev, err := s.runOp(V, cdb, o)
		if err != nil {
			s.fail("C09:history-broken", fmt.Sprintf("victim replica could not perform %s: %v", o.descr, err), i, -1, "")
			return nil
		}
		o.events = ev
		o.post = observe(V, s.w)
		o.line = s.opLine(V, o, prelim, ev)
		c.Line(o.line, joinOrDash(tieClasses(ev)))
		for _, e := range ev {
			if strings.HasPrefix(e.Class, "unclassified") || strings.Contains(e.Class, "unclassified") {
				s.fail("C09:unclassified-write", fmt.Sprintf("%s issued a write the classifier does not know: %s", o.descr, e.Class), i, -1, e.Class)
			}
		}
		if o.kind == "ins" {
			c.Hit("block-kind:" + blockKind(o.blk))
		}
		c.Hit("op:" + o.kind)
	}
	if got := endState(V); got != s.refEnd {
		return fmt.Errorf("fixture: victim replica ended at %s, reference at %s", got, s.refEnd)
	}

	// crash sweep
	r := rand.New(rand.NewSource(cs.Seed*31 + 5))
	for i, o := range s.ops {
		if !o.swept {
			continue
		}
		cuts := s.cutPoints(o, quick, r)
		if cs.Cut >= 0 {
			k := cs.Cut
			if k > len(o.events) {
				k = len(o.events) // replay files may name a cut index of a longer (older) write sequence: end of operation
			}
			cuts = []int{k}
		}
		exhaustive := len(cuts) == len(o.events)+1
		c.Hit(fmt.Sprintf("swept-op:%s:exhaustive=%v", o.kind, exhaustive))
		for _, k := range cuts {
			if k > len(o.events) {
				continue
			}
			if cs.Cut < 0 || cs.Hole == 0 {
				s.oneCut(i, o, k, 0)
				c.Rep.Evaluations++
			}
			// legacy databases: at the operation boundary also with a canonical-hash hole at / below the head
			if k == len(o.events) && o.kind == "ins" {
				for hole := 1; hole <= 2; hole++ {
					if cs.Cut < 0 || cs.Hole == hole {
						s.oneCut(i, o, k, hole)
						c.Rep.Evaluations++
					}
				}
			}
		}
		sw, _ := c.Rep.Coverage["swept"].([]interface{})
		c.Rep.Coverage["swept"] = append(sw, map[string]interface{}{"seed": cs.Seed, "kind": cs.Kind, "op": i, "what": o.descr,
			"write_events": len(o.events), "cut_points": len(cuts), "exhaustive": exhaustive})
	}
	// cross-check of the replay mode against in-place write dropping (the probe's mode): a second victim follows the
	// same operations, all writes after the k-th write of one operation are dropped, the surviving stores must be equal
	if cs.Cut < 0 {
		var cand []int
		for i, o := range s.ops {
			if o.swept && o.kind != "fsync" && len(o.events) > 0 {
				cand = append(cand, i)
			}
		}
		if len(cand) > 0 {
			i := cand[r.Intn(len(cand))]
			k := r.Intn(len(s.ops[i].events) + 1)
			if err := s.dropCheck(i, k); err != nil {
				return err
			}
			c.Hit("replay-vs-drop-crosscheck")
		}
	}
	for _, o := range s.ops {
		o.base = nil
	}
	return nil
}

func (s *scen) dropCheck(i, k int) error {
	under := dbm.NewMemDB()
	cdb := crashdb.New(under)
	V, err := s.w.StartNode(cdb, s.vkey, s.attach)
	if err != nil {
		return fmt.Errorf("cross-check victim start: %v", err)
	}
	for j, o := range s.ops {
		if o.declOnly {
			continue
		}
		if j == i {
			cdb.CutAfter(k)
		}
		func() {
			defer func() { recover() }()
			s.runOp(V, cdb, o)
		}()
		if j == i {
			break
		}
	}
	want := crashdb.Snapshot(s.ops[i].base)
	crashdb.Apply(want, s.ops[i].events[:k])
	if ok, where := crashdb.Equal(under, want, crashdb.IsEpochDbKey); !ok {
		return fmt.Errorf("fixture: store after dropping all writes behind write %d of %s differs from the replayed store at key %s", k, s.ops[i].descr, where)
	}
	return nil
}

// deleteCanon removes the canonical-hash record `off` heights below the head record of a store (database/repository.go
// headerHashKey: "h" + height (8 bytes big endian) + "n"); false when there is no such height above genesis.
func deleteCanon(store *dbm.MemDB, off uint64) bool {
	raw, _ := store.Get([]byte("LastBlock"))
	h := new(types.Header)
	if raw == nil || h.FromBytes(raw) != nil || h.Height() < off+2 {
		return false
	}
	key := append([]byte("h"), make([]byte, 8)...)
	binary.BigEndian.PutUint64(key[1:], h.Height()-off)
	key = append(key, 'n')
	if ok, _ := store.Has(key); !ok {
		return false
	}
	store.Delete(key)
	return true
}

func (s *scen) oneCut(i int, o *vop, k int, hole int) {
	c := s.c
	class := "end-of-operation"
	if k < len(o.events) {
		class = o.events[k].Class
	}
	store := crashdb.Snapshot(o.base)
	crashdb.Apply(store, o.events[:k])
	cutOp := fmt.Sprintf("cut %d %d", i, k)
	s.curHole = hole
	defer func() { s.curHole = 0 }()
	if hole > 0 {
		if !deleteCanon(store, uint64(hole-1)) {
			return
		}
		class = fmt.Sprintf("end-of-operation+canonical-hash-of-head-%d-deleted", hole-1)
		cutOp = fmt.Sprintf("cuth %d %d %d", i, k, hole-1)
		c.Hit(fmt.Sprintf("legacy-hole:head-%d", hole-1))
	}
	c.Hit("cut-at:" + strings.SplitN(class, ":", 2)[0])
	c.Distinct(fmt.Sprintf("%d/%s/%d/%d/%d", s.cs.Seed, s.cs.Kind, i, k, hole))
	rs := s.restart(store)
	if rs.err != nil {
		c.Line(cutOp, "err")
		s.fail("C09:startup-failed", fmt.Sprintf("%s cut after %d of %d writes (next write: %s): start-up on the surviving database failed: %v",
			o.descr, k, len(o.events), class, firstLine(rs.err.Error())), i, k, class)
		return
	}
	n := rs.n
	defer n.Chain.C09Release()
	head := n.Chain.Head
	rootsOK := head.Root() == n.App.State.Root() && head.IdentityRoot() == n.App.IdentityState.Root()
	c.Line(cutOp, fmt.Sprintf("ok head=%d:%d sv=%d iv=%d match=%v w=%s", head.Height(), s.hid(head.Hash()), n.App.State.Version(), n.App.IdentityState.Version(),
		rootsOK, joinOrDash(primaryClasses(rs.repair))))
	if !rootsOK {
		s.fail("C09:roots-mismatch", fmt.Sprintf("%s cut after %d of %d writes (next write: %s): restarted head %d has roots %x/%x, loaded state %x/%x",
			o.descr, k, len(o.events), class, head.Height(), head.Root(), head.IdentityRoot(), n.App.State.Root(), n.App.IdentityState.Root()), i, k, class)
		return
	}
	// the state at the head's height must be loadable the way block validation / RPC load it
	for _, ld := range []struct {
		what string
		load func(uint64) error
	}{{"ForCheck", func(h uint64) error { _, e := n.App.ForCheck(h); return e }},
		{"Readonly", func(h uint64) error { _, e := n.App.Readonly(h); return e }}} {
		what, load := ld.what, ld.load
		var lerr error
		func() {
			defer func() {
				if r := recover(); r != nil {
					lerr = fmt.Errorf("panic: %v", r)
				}
			}()
			lerr = load(head.Height())
		}()
		if lerr != nil {
			s.fail("C09:state-at-head-not-loadable", fmt.Sprintf("%s cut after %d of %d writes (next write: %s): the node restarted at height %d with head roots equal to the loaded roots, but AppState.%s(%d) fails: %v (every next block will be refused)",
				o.descr, k, len(o.events), class, head.Height(), what, head.Height(), firstLine(lerr.Error())), i, k, class)
			return
		}
	}
	_, isKnown := s.known[head.Hash()]
	isKnown = isKnown || s.onTgt[head.Hash()]
	if !o.allowed[head.Height()] || !isKnown {
		s.fail("C09:head-not-allowed", fmt.Sprintf("%s cut after %d of %d writes (next write: %s): restarted head height %d (block of the history: %v) is neither the interrupted height nor a retained height below (head before: %d)",
			o.descr, k, len(o.events), class, head.Height(), isKnown, o.h0), i, k, class)
		return
	}
	c.Hit(fmt.Sprintf("restart-head:%+d", int(head.Height())-int(o.h0)))
	if len(rs.repair) > 0 && len(primaryClasses(rs.repair)) > 0 {
		c.Hit("restart-repaired")
	}
	// observations (not violations): secondary indexes of the restarted head
	if head.Height() > 1 {
		if n.Chain.FxRepo().ReadCanonicalHash(head.Height()) != head.Hash() {
			c.Hit("observation:head-without-canonical-hash")
		}
		if d := s.refDiff(head.Height()); d && n.Chain.FxRepo().ReadIdentityStateDiff(head.Height()) == nil {
			c.Hit("observation:head-without-identity-diff")
		}
		if hb, ok := s.known[head.Hash()]; ok {
			for _, tx := range hb.Body.Transactions {
				if n.Chain.GetTxIndex(tx.Hash()) == nil {
					c.Hit("observation:head-tx-without-index")
					break
				}
			}
		}
	}
	// clean restart at the operation boundary changes nothing observable
	if k == len(o.events) && hole == 0 {
		if got := observe(n, s.w); got != o.post {
			s.fail("C09:clean-restart-changed", fmt.Sprintf("%s: restart after the complete operation changed observables:\n live   %s\n restart %s", o.descr, o.post, got), i, k, class)
			return
		}
		c.Hit("clean-restart-checked")
	}
	// continue with the same next blocks
	s.fullSyncAlt = k%2 == 1
	plan := s.plan(n, i)
	var ws []string
	contOp := fmt.Sprintf("cont %d %d", i, k)
	if hole > 0 {
		contOp = fmt.Sprintf("conth %d %d %d", i, k, hole-1)
	}
	modelled := true // the model does not cover the resumption of an interrupted fast sync (oracle only)
	for _, j := range plan {
		contOp += fmt.Sprint(" ", j)
		if s.ops[j].kind == "fsync" {
			modelled = false
		}
	}
	line := func(op, ans string) {
		if modelled {
			c.Line(op, ans)
		} else {
			c.Hit("continuation-not-modelled:fast-sync-resume")
		}
	}
	holeAtResetTarget := false
	for _, j := range plan {
		if s.ops[j].kind == "reset" {
			holeAtResetTarget = n.Chain.FxRepo().ReadCanonicalHash(s.ops[j].resetTo) == (common.Hash{})
		}
		ev, err := s.runOp(n, rs.cdb, s.ops[j])
		if err != nil && holeAtResetTarget {
			line(contOp, fmt.Sprintf("err@%d", j))
			s.fail("C09:canon-hole:fork-switch-fails", fmt.Sprintf("%s cut after %d of %d writes (next write: %s): the node restarted consistently at height %d but without a canonical-hash entry for it; later, when the never-crashed replica switched to the longer fork (ResetTo %d + fork blocks), this node's ResetTo returned no error yet left its head at height %d above the truncated state (SetHead found no canonical hash), and %s failed: %v",
				o.descr, k, len(o.events), class, head.Height(), s.ops[s.resetIdx].resetTo, n.Chain.Head.Height(), s.ops[j].descr, firstLine(err.Error())), i, k, class)
			return
		}
		if err != nil {
			line(contOp, fmt.Sprintf("err@%d", j))
			s.fail("C09:continue-rejected", fmt.Sprintf("%s cut after %d of %d writes (next write: %s): node restarted at height %d, then %s failed: %v",
				o.descr, k, len(o.events), class, head.Height(), s.ops[j].descr, firstLine(err.Error())), i, k, class)
			return
		}
		ws = append(ws, joinOrDash(primaryClasses(ev)))
	}
	eh := n.Chain.Head
	line(contOp, fmt.Sprintf("end head=%d:%d sv=%d iv=%d w=%s", eh.Height(), s.hid(eh.Hash()), n.App.State.Version(), n.App.IdentityState.Version(), strings.Join(ws, "|")))
	if got := endState(n); got != s.refEnd {
		s.fail("C09:end-differs", fmt.Sprintf("%s cut after %d of %d writes (next write: %s): after continuing with the same blocks the node is at %s, the never-crashed replica at %s",
			o.descr, k, len(o.events), class, got, s.refEnd), i, k, class)
		return
	}
	where := fmt.Sprintf("%s cut after %d of %d writes (next write: %s), restart at height %d, continuation with the reference blocks", o.descr, k, len(o.events), class, head.Height())
	if hole == 0 {
		if msg := s.indexCheck(n); msg != "" {
			s.fail("C09:block-index-incomplete", where+": "+msg, i, k, class)
			return
		}
	}
	if msg := s.laterResets(n); msg != "" {
		s.fail("C09:later-reset-fails", where+": "+msg, i, k, class)
		return
	}
	if hole > 0 {
		return
	}
	// a COMPETING block at the interrupted height (another proposal on the same parent) arrives as a one-block fork:
	// ResetTo(parent height) + AddBlock — on a second restart of the same surviving store
	if o.kind == "ins" && o.alt != nil {
		s.competing(i, o, k, class)
	}
	// an interrupted ResetTo, then the node syncs its OWN former branch again (the same blocks), then the fork switch
	if o.kind == "reset" && s.onTgt[head.Hash()] && head.Height() == o.resetTo {
		var p []int
		for j := 0; j < s.resetIdx; j++ {
			if s.ops[j].kind == "ins" && !s.ops[j].declOnly && s.ops[j].blk.Height() > head.Height() {
				p = append(p, j)
			}
		}
		for j := s.resetIdx; j < len(s.ops); j++ {
			if !s.ops[j].declOnly {
				p = append(p, j)
			}
		}
		s.altCont(i, o, k, class, p, "re-sync of the node's own former branch (the same blocks again), then the fork switch", s.refEnd)
	}
}

// expectedChain: hash per height of the chain the node's head is on, following parent hashes through the known blocks.
func (s *scen) expectedChain(n *chainfx.Node) map[uint64]common.Hash {
	exp := map[uint64]common.Hash{}
	cur, ok := s.known[n.Chain.Head.Hash()]
	for ok {
		exp[cur.Height()] = cur.Hash()
		cur, ok = s.known[cur.Header.ParentHash()]
	}
	return exp
}

// indexCheck: every block of the node's chain must be found by height and by hash (header record), as on the reference.
func (s *scen) indexCheck(n *chainfx.Node) string {
	for h, want := range s.expectedChain(n) {
		hdr := n.Chain.GetBlockHeaderByHeight(h)
		if hdr == nil {
			can := n.Chain.FxRepo().ReadCanonicalHash(h)
			return fmt.Sprintf("GetBlockHeaderByHeight(%d) = nil although the head is at %d (canonical hash %x, header record present: %v)", h, n.Chain.Head.Height(), can[:4], n.Chain.FxRepo().ReadBlockHeader(want) != nil)
		}
		if hdr.Hash() != want {
			return fmt.Sprintf("GetBlockHeaderByHeight(%d) is block %x, the chain of the head has %x there", h, hdr.Hash().Bytes()[:4], want.Bytes()[:4])
		}
		if n.Chain.FxRepo().ReadBlockHeader(want) == nil {
			return fmt.Sprintf("the header record of the canonical block of height %d is missing", h)
		}
	}
	return ""
}

// laterResets: a later ResetTo to retained heights below the head must work (descending, up to three of them).
func (s *scen) laterResets(n *chainfx.Node) string {
	exp := s.expectedChain(n)
	ret := retained(n, n.Chain.Head.Height())
	done := 0
	for h := n.Chain.Head.Height() - 1; h >= 2 && done < 3; h-- {
		if !ret[h] {
			break
		}
		var err error
		func() {
			defer func() {
				if r := recover(); r != nil {
					err = fmt.Errorf("panic: %v", r)
				}
			}()
			_, err = n.Chain.ResetTo(h)
		}()
		if err != nil {
			return fmt.Sprintf("a later ResetTo(%d) (retained height, head %d) fails: %v", h, n.Chain.Head.Height(), firstLine(err.Error()))
		}
		if want, ok := exp[h]; ok && (n.Chain.Head.Hash() != want || n.Chain.Head.Root() != n.App.State.Root()) {
			return fmt.Sprintf("after a later ResetTo(%d) the head is %x at height %d (expected %x) / roots match: %v", h, n.Chain.Head.Hash().Bytes()[:4], n.Chain.Head.Height(), want.Bytes()[:4], n.Chain.Head.Root() == n.App.State.Root())
		}
		done++
	}
	return ""
}

// altCont: a second restart on the same surviving store followed by another plan; returns the node (nil after a failure).
func (s *scen) altCont(i int, o *vop, k int, class string, plan []int, label, wantEnd string) {
	c := s.c
	store := crashdb.Snapshot(o.base)
	crashdb.Apply(store, o.events[:k])
	rs := s.restart(store)
	if rs.err != nil {
		return // reported by the first restart
	}
	n := rs.n
	defer n.Chain.C09Release()
	h0 := n.Chain.Head.Height()
	where := fmt.Sprintf("%s cut after %d of %d writes (next write: %s), restart at height %d, then %s", o.descr, k, len(o.events), class, h0, label)
	contOp := fmt.Sprintf("cont %d %d", i, k)
	for _, j := range plan {
		contOp += fmt.Sprint(" ", j)
	}
	var ws []string
	for _, j := range plan {
		if s.ops[j].kind == "reset" {
			if msg := s.indexCheck(n); msg != "" {
				c.Line(contOp, "index-incomplete")
				s.fail("C09:block-index-incomplete", where+": before "+s.ops[j].descr+": "+msg, i, k, class)
				return
			}
		}
		ev, err := s.runOp(n, rs.cdb, s.ops[j])
		if err != nil {
			c.Line(contOp, fmt.Sprintf("err@%d", j))
			s.fail("C09:continue-rejected", fmt.Sprintf("%s: %s failed: %v", where, s.ops[j].descr, firstLine(err.Error())), i, k, class)
			return
		}
		ws = append(ws, joinOrDash(primaryClasses(ev)))
	}
	eh := n.Chain.Head
	c.Line(contOp, fmt.Sprintf("end head=%d:%d sv=%d iv=%d w=%s", eh.Height(), s.hid(eh.Hash()), n.App.State.Version(), n.App.IdentityState.Version(), strings.Join(ws, "|")))
	if got := endState(n); got != wantEnd {
		s.fail("C09:end-differs", fmt.Sprintf("%s: the node is at %s, a clean node at %s", where, got, wantEnd), i, k, class)
		return
	}
	if msg := s.indexCheck(n); msg != "" {
		s.fail("C09:block-index-incomplete", where+": "+msg, i, k, class)
		return
	}
	if msg := s.laterResets(n); msg != "" {
		s.fail("C09:later-reset-fails", where+": "+msg, i, k, class)
	}
	c.Hit("alt-continuation:" + strings.SplitN(label, " ", 2)[0])
}

// competing: ResetTo(parent height) + AddBlock(competing block) after a restart of the cut store.
func (s *scen) competing(i int, o *vop, k int, class string) {
	c := s.c
	alt := o.alt
	parent := alt.Height() - 1
	store := crashdb.Snapshot(o.base)
	crashdb.Apply(store, o.events[:k])
	rs := s.restart(store)
	if rs.err != nil {
		return
	}
	n := rs.n
	defer n.Chain.C09Release()
	h0 := n.Chain.Head.Height()
	where := fmt.Sprintf("%s cut after %d of %d writes (next write: %s), restart at height %d, then a competing block %x of height %d arrives as a fork (ResetTo(%d) + AddBlock)",
		o.descr, k, len(o.events), class, h0, alt.Hash().Bytes()[:4], alt.Height(), parent)
	ops := []*vop{{kind: "reset", resetTo: parent, descr: fmt.Sprintf("ResetTo %d", parent)}, {kind: "ins", blk: alt, declOnly: true, descr: fmt.Sprintf("AddBlock competing block of height %d", alt.Height())}}
	var ws []string
	var ferr error
	failedAt := -1
	for x, op := range ops {
		ev, err := s.runOp(n, rs.cdb, op)
		if err != nil {
			ferr, failedAt = err, x
			break
		}
		ws = append(ws, joinOrDash(primaryClasses(ev)))
	}
	// declare the two operations to the model once (the identity-diff flag of the competing block is known only now)
	if o.altOps == nil {
		diff := ferr == nil && n.Chain.FxRepo().ReadIdentityStateDiff(alt.Height()) != nil
		o.altOps = []int{len(s.ops), len(s.ops) + 1}
		ops[0].declOnly = true
		s.ops = append(s.ops, ops[0], ops[1])
		c.Line(fmt.Sprintf("decl reset %d", parent), "ok")
		c.Line("decl "+s.insLine(alt, diff, false, nil), "ok")
	}
	contOp := fmt.Sprintf("cont %d %d %d %d", i, k, o.altOps[0], o.altOps[1])
	if ferr != nil {
		c.Line(contOp, fmt.Sprintf("err@%d", o.altOps[failedAt]))
		s.fail("C09:competing-block-refused", fmt.Sprintf("%s: %s failed: %v (a clean node at the same head accepts this block)", where, ops[failedAt].descr, firstLine(ferr.Error())), i, k, class)
		return
	}
	eh := n.Chain.Head
	c.Line(contOp, fmt.Sprintf("end head=%d:%d sv=%d iv=%d w=%s", eh.Height(), s.hid(eh.Hash()), n.App.State.Version(), n.App.IdentityState.Version(), strings.Join(ws, "|")))
	bad := ""
	if eh.Hash() != alt.Hash() || n.App.State.Root() != alt.Root() || n.App.IdentityState.Root() != alt.IdentityRoot() {
		bad = fmt.Sprintf("head %x, state root %x, identity root %x; the block has %x / %x / %x", eh.Hash().Bytes()[:4], n.App.State.Root().Bytes()[:4], n.App.IdentityState.Root().Bytes()[:4], alt.Hash().Bytes()[:4], alt.Root().Bytes()[:4], alt.IdentityRoot().Bytes()[:4])
	} else if cs, err := n.App.ForCheck(alt.Height()); err != nil {
		bad = fmt.Sprintf("the stored state of height %d cannot be loaded: %v", alt.Height(), firstLine(err.Error()))
	} else if cs.State.Root() != alt.Root() || cs.IdentityState.Root() != alt.IdentityRoot() {
		bad = fmt.Sprintf("the STORED state of height %d has roots %x / %x, the accepted block %x / %x (the next block will be refused)", alt.Height(), cs.State.Root().Bytes()[:4], cs.IdentityState.Root().Bytes()[:4], alt.Root().Bytes()[:4], alt.IdentityRoot().Bytes()[:4])
	}
	if bad != "" {
		s.fail("C09:competing-block-wrong-state", where+": accepted, but "+bad, i, k, class)
		return
	}
	c.Hit("alt-continuation:competing-block")
}

// refDiff: does the reference node hold a non-empty identity diff for the height (on the target chain)?
func (s *scen) refDiff(h uint64) bool {
	d := s.ref.Chain.GetIdentityDiff(h)
	return d != nil && !d.Empty()
}

func firstLine(s string) string {
	if i := strings.IndexByte(s, '\n'); i >= 0 {
		return s[:i]
	}
	return s
}

func init() {
	hx.Register("C09", func(c *hx.Ctx) error {
		if c.Replay != "" {
			b, err := os.ReadFile(c.Replay)
			if err != nil {
				return err
			}
			var wrap struct {
				Replay c09case `json:"replay"`
			}
			if err := json.Unmarshal(b, &wrap); err != nil {
				return err
			}
			return runScenario(c, wrap.Replay)
		}
		c.Rep.Rule = "scenarios = real chain histories followed by a victim replica over a crash-injecting database; kinds: mixed (plain / identity-update / snapshot-flag blocks with all ordinary tx kinds), epoch (validation ceremony, the epoch-finishing block and its neighbours), retention (>100 blocks: tree-version pruning batches), fork (ResetTo + re-apply of a longer fork), fastsync (preliminary identity state, header chain, snapshot import, AtomicSwitchToPreliminary, clearing of the old trees); every write event of the swept operations is a cut point (thorough: all; quick: all class boundaries + sample); per cut: real start-up on the surviving store, model comparison, continuation with the same next blocks, end-state comparison; distinct = (scenario, operation, cut index)"
		kinds := []string{"mixed", "fork", "epoch", "retention", "fastsync", "mixed", "fork", "snapexport"}
		n := c.Scale(32, 240)
		if c.Tier == "search" {
			n = 48 // other seeds, same cut policy as quick (a scenario costs ~1 s; ten times quick is not needed to find a cut)
		}
		for i := 0; i < n; i++ {
			cs := c09case{Seed: c.Seed*1000 + int64(i), Kind: kinds[i%len(kinds)], Op: -1, Cut: -1, All: c.Tier == "thorough"}
			if err := runScenario(c, cs); err != nil {
				return err
			}
			c.Sample(cs)
		}
		return nil
	})
}
