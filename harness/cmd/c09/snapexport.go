package main

// Snapshot export behind a running node (the clean-restart clause of C09, no crash involved).
// SnapshotManager.createSnapshot runs `StateDB.WriteSnapshot2(S, file)` in its own goroutine after every Snapshot-flag
// block; for a real state it takes longer than a block interval, so further blocks are committed before / while it runs.
// Route: a follower replica over a recording database follows a real chain with Snapshot-flag blocks (SnapshotRange 5);
// for a snapshot block S the REAL WriteSnapshot2(S) is called after k = 0..3 further blocks were inserted
// (deterministic interleaving) and once concurrently with the insertion of the following blocks.  Then
//   (iii) the export must not have written to the live database (no write event, byte-identical content),
//   (ii)  a clean restart must come up at the same head with the same observables and loadable state,
//   (i)   the running node must accept the next block(s) and end at the reference head / roots.
import (
	"bytes"
	"fmt"
	"os"
	"strings"
	"sync"

	"github.com/idena-network/idena-go/blockchain/types"
	dbm "github.com/tendermint/tm-db"

	"verifharness/internal/chainfx"
	"verifharness/internal/crashdb"
	"verifharness/internal/hx"
)

func runSnapExport(c *hx.Ctx, cs c09case) error {
	defer os.RemoveAll("./testdata")
	defer os.RemoveAll("./testdata2")
	mcs := cs
	mcs.Kind = "mixed"
	st, err := buildStream(mcs, true)
	if err != nil {
		c.Hit("scenario-skipped:snapexport")
		c.Rep.Notes = append(c.Rep.Notes, fmt.Sprintf("scenario %v skipped: %v", cs, err))
		return nil
	}
	c.Line("new snapexport", "ok")
	s := &scen{c: c, cs: cs, w: st.w, vkey: 1, resetIdx: -1, mainNextIdx: -1}
	refEnd := endState(st.ref)
	var snaps []int
	for i, b := range st.main {
		if b.Header.Flags().HasFlag(types.Snapshot) && i+1 < len(st.main) {
			snaps = append(snaps, i)
		}
	}
	if len(snaps) == 0 {
		c.Hit("snapexport:no-snapshot-block")
		return nil
	}
	fail := func(sig, detail string, op, k int) {
		c.Fail(sig, detail, c09case{Seed: cs.Seed, Kind: cs.Kind, Op: op, Cut: k, What: fmt.Sprintf("export of the snapshot of height %d after %d further blocks", st.main[op].Height(), k)})
	}
	run := func(i, k int, concurrent bool) error {
		under := dbm.NewMemDB()
		cdb := crashdb.New(under)
		F, err := st.w.StartNode(cdb, s.vkey, false)
		if err != nil {
			return fmt.Errorf("follower start: %v", err)
		}
		defer F.Chain.C09Release()
		add := func(b *types.Block) error {
			cb, _ := chainfx.CloneBlock(b)
			return F.Add(cb)
		}
		S := st.main[i].Height()
		upto := i + 1 + k
		if concurrent {
			upto = i + 1
		}
		for _, b := range st.main[:upto] {
			if err := add(b); err != nil {
				return fmt.Errorf("fixture: follower refuses block %d: %v", b.Height(), err)
			}
		}
		what := fmt.Sprintf("export of the snapshot of height %d after %d further blocks (head %d)", S, k, F.Chain.Head.Height())
		export := func() (err error) {
			defer func() {
				if r := recover(); r != nil {
					err = fmt.Errorf("panic: %v", r)
				}
			}()
			_, err = F.App.State.WriteSnapshot2(S, new(bytes.Buffer))
			return
		}
		if concurrent {
			// the export runs while the following blocks are inserted; only the consequences are checked
			what = fmt.Sprintf("export of the snapshot of height %d concurrently with the insertion of blocks %d..%d", S, S+1, st.main[len(st.main)-1].Height())
			var wg sync.WaitGroup
			var eerr error
			wg.Add(1)
			go func() { defer wg.Done(); eerr = export() }()
			rest := st.main[upto:]
			for j, b := range rest {
				if j == len(rest)-1 {
					wg.Wait() // the last block is inserted after the export has finished
				}
				if err := add(b); err != nil {
					wg.Wait()
					fail("C09:snapshot-export:next-block-refused", fmt.Sprintf("%s: the running node refuses block %d: %v", what, b.Height(), firstLine(err.Error())), i, -2)
					return nil
				}
			}
			wg.Wait()
			if eerr != nil {
				c.Hit("snapexport:concurrent-export-error")
			}
			c.Hit("snapexport:concurrent")
		} else {
			before := crashdb.Snapshot(under)
			pre := observe(F, st.w)
			cdb.StartRecording()
			eerr := export()
			ev := cdb.StopRecording()
			if eerr != nil {
				fail("C09:snapshot-export-failed", fmt.Sprintf("%s failed: %v", what, firstLine(eerr.Error())), i, k)
				return nil
			}
			same, where := crashdb.Equal(before, under, nil)
			if len(ev) > 0 || !same {
				fail("C09:snapshot-export-changed-live-db", fmt.Sprintf("%s wrote to the live database: %d write events [%s], first differing key %s (an export must only read)",
					what, len(ev), strings.Join(rle(crashdb.Classes(ev)), ","), where), i, k)
			}
			// (ii) clean restart at this block boundary
			rs := s.restart(crashdb.Snapshot(under))
			if rs.err != nil {
				fail("C09:restart-lost-blocks-after-snapshot", fmt.Sprintf("%s: a clean restart afterwards fails: %v", what, firstLine(rs.err.Error())), i, k)
			} else {
				got := observe(rs.n, st.w)
				_, ferr := rs.n.App.ForCheck(rs.n.Chain.Head.Height())
				if got != pre || ferr != nil {
					fail("C09:restart-lost-blocks-after-snapshot", fmt.Sprintf("%s: a clean restart afterwards changed the node: head %d -> %d, ForCheck(head): %v\n before  %s\n restart %s",
						what, F.Chain.Head.Height(), rs.n.Chain.Head.Height(), ferr, pre, got), i, k)
				}
				rs.n.Chain.C09Release()
			}
			// (i) the running node accepts the next blocks
			for _, b := range st.main[upto:] {
				if err := add(b); err != nil {
					fail("C09:snapshot-export:next-block-refused", fmt.Sprintf("%s: the running node refuses block %d: %v", what, b.Height(), firstLine(err.Error())), i, k)
					return nil
				}
			}
			c.Hit(fmt.Sprintf("snapexport:after-%d-blocks", k))
		}
		if got := endState(F); got != refEnd {
			fail("C09:end-differs", fmt.Sprintf("%s: the node ends at %s, the reference at %s", what, got, refEnd), i, k)
		}
		// and a restart at the end comes up at the same head
		rs := s.restart(crashdb.Snapshot(under))
		if rs.err != nil || endState(rs.n) != refEnd {
			fail("C09:restart-lost-blocks-after-snapshot", fmt.Sprintf("%s: a clean restart at the end of the history does not come up at the reference head (err=%v)", what, rs.err), i, k)
		}
		if rs.n != nil {
			rs.n.Chain.C09Release()
		}
		return nil
	}
	for _, i := range snaps {
		if cs.Op >= 0 && cs.Op != i {
			continue
		}
		maxK := len(st.main) - i - 2 // leave at least one next block
		for k := 0; k <= 3 && k <= maxK; k++ {
			if cs.Cut >= 0 && cs.Cut != k {
				continue
			}
			if err := run(i, k, false); err != nil {
				return err
			}
			c.Rep.Evaluations++
			c.Distinct(fmt.Sprintf("%d/snapexport/%d/%d", cs.Seed, i, k))
		}
		if cs.Cut < 0 || cs.Cut == -2 {
			if err := run(i, 0, true); err != nil {
				return err
			}
			c.Rep.Evaluations++
			c.Distinct(fmt.Sprintf("%d/snapexport/%d/conc", cs.Seed, i))
		}
	}
	return nil
}
