package main

// C06: no transaction applied twice; nonces advance strictly per epoch.
// Real chain histories (several epochs incl. validation ceremonies, optional short reorgs); after every block
//   - correspondence: every included tx (sender, epoch, nonce), every epoch change, the accounts' effective nonces and
//     nonce/epoch probes (real ValidateTx(InBlock) + real applyTxOnState on a check state for a funded zero-amount send
//     with chosen epoch/nonce) go to the Lean model of the nonce discipline, which must answer the same;
//   - independent oracle: no tx hash twice on the canonical chain, per-(sender, epoch) nonces = 1..k, and every
//     previously included tx re-offered (three validation modes, applyTxOnState, processTxs) must be refused.
import (
	"encoding/json"
	"fmt"
	"math/big"
	"math/rand"
	"os"
	"strings"
	"time"

	"github.com/idena-network/idena-go/blockchain/fee"
	"github.com/idena-network/idena-go/blockchain/types"
	"github.com/idena-network/idena-go/blockchain/validation"
	"github.com/idena-network/idena-go/common"
	"github.com/idena-network/idena-go/config"
	"github.com/idena-network/idena-go/core/state"
	"github.com/idena-network/idena-go/crypto"

	"verifharness/internal/chainfx"
	"verifharness/internal/hx"
)

type c06case struct {
	Seed   int64 `json:"seed"`
	Blocks int   `json:"blocks"`
	Reorgs bool  `json:"reorgs"`
	Failed bool  `json:"failed_validations"` // nobody takes part in the ceremonies: every validation fails
}

type c06tx struct {
	tx     *types.Transaction
	sender int
	block  int // index in canonical block list (1-based)
}

func c06run(c *hx.Ctx, cs c06case) error {
	r := rand.New(rand.NewSource(cs.Seed))
	w := chainfx.NewWorld(cs.Seed, 8, 0, time.Date(2030, 1, 1, 0, 0, 0, 0, time.UTC))
	// three key holders that own nothing at genesis play the dust accounts: funded, emptied below the dust limit (their
	// account, nonce included, is removed at the next dust clearing), funded again; snapshot blocks every 12 blocks
	w.AddFresh(3)
	// four more key holders play invitation accounts: invited (with coins), they send a transfer or activate ANOTHER address
	// with the invitation key, the inviter terminates the invitation / the activated candidate, the key is invited again,
	// and everything the key ever signed is re-offered after every block
	w.AddFresh(4)
	w.Opts.Tweak = func(cfg *config.Config) { cfg.Consensus.SnapshotRange = 12 }
	ho := chainfx.HistoryOpts{Blocks: cs.Blocks, ShortEpochs: true, TxPerBlock: 4}
	if cs.Failed {
		ho.Participate = -1
	}
	h, err := chainfx.Bootstrap(w, ho, r, true)
	if err != nil {
		return err
	}
	defer os.RemoveAll("./testdata")
	defer os.RemoveAll("./testdata2")
	n := h.N
	c.Line("new", "ok")
	var canon []c06tx        // txs of the canonical chain, in order
	blockTxCount := []int{0} // blockTxCount[k] = number of canonical txs after k blocks
	blockPeriodNone := []bool{true}
	seenHash := map[common.Hash]int{}
	fail := func(sig, detail string) {
		c.Fail(sig, detail, cs)
	}
	senderIdx := func(tx *types.Transaction) int {
		s, _ := types.Sender(tx)
		return w.Index(s)
	}
	effNonce := func(i int) (uint32, uint16) {
		st := n.App.State
		ep := st.Epoch()
		if st.GetEpoch(w.Addrs[i]) < ep {
			return 0, ep
		}
		return st.GetNonce(w.Addrs[i]), ep
	}
	verdicts := func(tx *types.Transaction) (val, app, proc bool, modes [3]bool) {
		height := n.Chain.Head.Height()
		minFpg := fee.GetFeePerGasForNetwork(n.App.ValidatorsCache.NetworkSize())
		for m, mode := range []validation.TxType{validation.InBlockTx, validation.MempoolTx, validation.InboundTx} {
			cs1, err := n.App.ForCheck(height)
			if err != nil {
				panic(err)
			}
			func() {
				defer func() {
					if rec := recover(); rec != nil {
						modes[m] = false
					}
				}()
				modes[m] = validation.ValidateTx(cs1, tx, minFpg, mode) == nil
			}()
		}
		val = modes[0]
		cs2, _ := n.App.ForCheck(height)
		hdr := n.Chain.Head
		func() {
			defer func() { recover() }()
			_, _, e := n.Chain.FxApplyTx(cs2, hdr, tx)
			app = e == nil
		}()
		cs3, _ := n.App.ForCheck(height)
		func() {
			defer func() { recover() }()
			_, _, _, _, e := n.Chain.FxProcessTxs(cs3, hdr, []*types.Transaction{tx})
			proc = e == nil
		}()
		return
	}
	av := func(b bool) string {
		if b {
			return "acc"
		}
		return "rej"
	}
	firstFresh := len(w.Keys) - 7
	invT, invR, invT2, invX := len(w.Keys)-4, len(w.Keys)-3, len(w.Keys)-2, len(w.Keys)-1
	invStep, invStep2 := 0, 0
	dustPhase := make([]int, 3) // 0 to be funded, 1 funded: empty it, 2 emptied: wait for a clearing, 3 fund again, 4 done
	dustWait := make([]int, 3)
	var dustTxs []c06tx
	for b := 1; b <= cs.Blocks; b++ {
		if n.App.State.ValidationPeriod() == 0 {
			for j := 0; j < 3; j++ {
				fi := firstFresh + j
				bal := n.App.State.GetBalance(w.Addrs[fi])
				to := w.Addrs[fi]
				switch dustPhase[j] {
				case 0:
					if b > 3+4*j && len(n.Pool.GetPendingByAddress(w.Addrs[0])) == 0 {
						if _, err := h.S.Send(n, 0, &types.Transaction{Type: types.SendTx, To: &to, Amount: chainfx.Dna(40)}); err == nil {
							dustPhase[j] = 1
						}
					}
				case 1:
					if bal.Sign() > 0 && len(n.Pool.GetPendingByAddress(w.Addrs[fi])) == 0 {
						// everything but a sliver leaves the account: amount = balance - maxFee, maxFee = exact cost + sliver
						god := w.Addrs[0]
						probe := h.S.Sign(n, fi, &types.Transaction{Type: types.SendTx, To: &god, Amount: bal, MaxFee: bal})
						cost := new(big.Int).Mul(big.NewInt(int64(fee.CalculateGas(probe))), n.App.State.FeePerGas())
						maxFee := new(big.Int).Add(cost, big.NewInt(1000))
						amt := new(big.Int).Sub(bal, maxFee)
						if amt.Sign() > 0 {
							if _, err := h.S.Send(n, fi, &types.Transaction{Type: types.SendTx, To: &god, Amount: amt, MaxFee: maxFee}); err == nil {
								dustPhase[j] = 2
								c.Hit("dust:emptying-tx-sent")
							}
						}
					}
				case 2:
					if len(n.Pool.GetPendingByAddress(w.Addrs[fi])) == 0 && n.App.State.GetNonce(w.Addrs[fi]) == 0 && n.App.State.GetEpoch(w.Addrs[fi]) == 0 && bal.Sign() == 0 && dustWait[j] > 0 {
						dustPhase[j] = 3 // the account is gone (cleared)
						c.Hit("dust:account-cleared")
					}
					dustWait[j]++
				case 3:
					if len(n.Pool.GetPendingByAddress(w.Addrs[0])) == 0 {
						if _, err := h.S.Send(n, 0, &types.Transaction{Type: types.SendTx, To: &to, Amount: chainfx.Dna(60)}); err == nil {
							dustPhase[j] = 4
							c.Hit("dust:funded-again")
						}
					}
				}
			}
		}
		hadRecord := make([]bool, len(w.Keys))
		for i := range w.Keys {
			hadRecord[i] = n.App.State.GetNonce(w.Addrs[i]) != 0 || n.App.State.GetEpoch(w.Addrs[i]) != 0
		}
		if os.Getenv("C06_DEBUG") != "" {
			fmt.Fprintf(os.Stderr, "b=%d period=%d godpending=%d\n", b, n.App.State.ValidationPeriod(), len(n.Pool.GetPendingByAddress(w.Addrs[0])))
		}
		if n.App.State.ValidationPeriod() == 0 && b > 6 && len(n.Pool.GetPendingByAddress(w.Addrs[0])) == 0 {
			st := n.App.State
			idle := func(i int) bool { return len(n.Pool.GetPendingByAddress(w.Addrs[i])) == 0 }
			godInvite := func(i int) bool {
				if st.GodAddressInvites() == 0 || st.GetIdentityState(w.Addrs[i]) != state.Undefined {
					c.Hit(fmt.Sprintf("invitation:not-possible:god-invites=%d,state=%d", st.GodAddressInvites(), st.GetIdentityState(w.Addrs[i])))
					return false
				}
				to := w.Addrs[i]
				_, err := h.S.Send(n, 0, &types.Transaction{Type: types.InviteTx, To: &to, Amount: chainfx.Dna(60)})
				if err != nil {
					c.Hit("invitation:invite-refused:" + err.Error())
				}
				return err == nil
			}
			godKill := func(i int) bool {
				to := w.Addrs[i]
				_, err := h.S.Send(n, 0, &types.Transaction{Type: types.KillInviteeTx, To: &to})
				return err == nil
			}
			// flow 1: T is invited, activates R with the invitation key, the inviter terminates R, T is invited again
			switch invStep {
			case 0:
				if godInvite(invT) {
					invStep = 1
				}
			case 1:
				if st.GetIdentityState(w.Addrs[invT]) == state.Invite && idle(invT) {
					to := w.Addrs[invR]
					if _, err := h.S.Send(n, invT, &types.Transaction{Type: types.ActivationTx, To: &to, MaxFee: chainfx.Dna(10), Payload: crypto.FromECDSAPub(&w.Keys[invR].PublicKey)}); err == nil {
						invStep = 2
						c.Hit("invitation:activation-of-another-address-sent")
					} else {
						c.Hit("invitation:activation-refused:" + err.Error())
					}
				}
			case 2:
				if st.GetIdentityState(w.Addrs[invR]) == state.Candidate && godKill(invR) {
					invStep = 3
				}
			case 3:
				if st.GetIdentityState(w.Addrs[invR]) != state.Candidate && godInvite(invT) {
					invStep = 4
					c.Hit("invitation:key-invited-again-after-activation")
				}
			}
			// flow 2: T2 is invited with coins, sends a transfer, the unactivated invitation is terminated, T2 is invited again
			switch invStep2 {
			case 0:
				if invStep >= 1 && godInvite(invT2) {
					invStep2 = 1
				}
			case 1:
				if st.GetIdentityState(w.Addrs[invT2]) == state.Invite && idle(invT2) {
					to := w.Addrs[invX]
					if _, err := h.S.Send(n, invT2, &types.Transaction{Type: types.SendTx, To: &to, Amount: chainfx.Dna(3), MaxFee: chainfx.Dna(20)}); err == nil {
						invStep2 = 2
						c.Hit("invitation:transfer-from-invitation-key-sent")
					} else {
						c.Hit("invitation:transfer-refused:" + err.Error())
					}
				}
			case 2:
				if st.GetNonce(w.Addrs[invT2]) > 0 && st.GetIdentityState(w.Addrs[invT2]) == state.Invite && godKill(invT2) {
					invStep2 = 3
				}
			case 3:
				if st.GetIdentityState(w.Addrs[invT2]) != state.Invite && godInvite(invT2) {
					invStep2 = 4
					c.Hit("invitation:key-invited-again-after-termination")
				}
			}
		}
		blk, err := h.Step(b)
		if err == chainfx.ErrNotEligible {
			c.Hit("history-ended:proposer-not-eligible")
			break
		}
		if err != nil {
			fail("C06:history-broken", err.Error())
			return nil
		}
		for _, tx := range blk.Body.Transactions {
			si := senderIdx(tx)
			c.Line(fmt.Sprintf("tx %d %d %d", si, tx.Epoch, tx.AccountNonce), "ok")
			if os.Getenv("C06_DEBUG") != "" {
				ti := -1
				if tx.To != nil {
					ti = w.Index(*tx.To)
				}
				fmt.Fprintf(os.Stderr, "block %d: tx sender %d type %d to %d nonce %d\n", b, si, tx.Type, ti, tx.AccountNonce)
			}
			c.Hit("included:" + fmt.Sprint(tx.Type))
			if prev, dup := seenHash[tx.Hash()]; dup {
				fail("C06:tx-included-twice", fmt.Sprintf("tx %s in canonical blocks %d and %d", tx.Hash().Hex(), prev, len(blockTxCount)))
			}
			seenHash[tx.Hash()] = len(blockTxCount)
			canon = append(canon, c06tx{tx, si, len(blockTxCount)})
			if si >= firstFresh {
				dustTxs = append(dustTxs, c06tx{tx, si, len(blockTxCount)})
			}
		}
		if blk.Header.Flags().HasFlag(types.ValidationFinished) {
			// accounts whose record (nonce, epoch) vanished at this epoch change: dust clearing
			var cleared []string
			for i := range w.Keys {
				if hadRecord[i] && n.App.State.GetNonce(w.Addrs[i]) == 0 && n.App.State.GetEpoch(w.Addrs[i]) == 0 {
					cleared = append(cleared, fmt.Sprint(i))
				}
			}
			if len(cleared) > 0 {
				c.Line("epochclear "+strings.Join(cleared, "."), "ok")
				c.Hit("epoch-change-with-dust-clearing")
			} else {
				c.Line("epoch", "ok")
			}
			c.Hit("epoch-change")
		}
		c.Line("blk", "ok")
		blockTxCount = append(blockTxCount, len(canon))
		blockPeriodNone = append(blockPeriodNone, n.App.State.ValidationPeriod() == 0 && !blk.Header.Flags().HasFlag(types.ValidationFinished))
		// per-(sender, epoch) nonces on the canonical chain: 1..k
		seq := map[[2]int]uint32{}
		for _, t := range canon {
			k := [2]int{t.sender, int(t.tx.Epoch)}
			if t.tx.AccountNonce != seq[k]+1 {
				fail("C06:nonce-gap-or-repeat", fmt.Sprintf("sender %d epoch %d nonce %d after %d", t.sender, t.tx.Epoch, t.tx.AccountNonce, seq[k]))
			}
			seq[k] = t.tx.AccountNonce
		}
		if b%3 == 0 {
			for i := range w.Keys {
				nn, ep := effNonce(i)
				c.Line(fmt.Sprintf("acct %d", i), fmt.Sprintf("cur %d epoch %d", nn, ep))
			}
		}
		// replays of included transactions (oracle) — sample, biased to recent and to epoch-old ones
		if len(canon) > 0 && b%2 == 0 {
			for k := 0; k < 6; k++ {
				t := canon[r.Intn(len(canon))]
				if k < 2 {
					t = canon[len(canon)-1-r.Intn(min(len(canon), 3))]
				}
				val, app, proc, modes := verdicts(t.tx)
				c.Line(fmt.Sprintf("probe %d %d %d", t.sender, t.tx.Epoch, t.tx.AccountNonce), fmt.Sprintf("val=%s app=%s", av(val), av(app)))
				c.Hit("replay-attempt")
				if modes[0] || modes[1] || modes[2] || app || proc {
					fail("C06:replay-accepted", fmt.Sprintf("included tx %s (sender %d epoch %d nonce %d type %d) accepted again at height %d: validate InBlock/Mempool/Inbound=%v apply=%v processTxs=%v",
						t.tx.Hash().Hex(), t.sender, t.tx.Epoch, t.tx.AccountNonce, t.tx.Type, n.Chain.Head.Height(), modes, app, proc))
				}
			}
		}
		// a replay hidden behind the one transaction that may cross the block gas limit: the strict path must still look at
		// everything behind it (processTxs on [crossing transaction, replayed transaction] is an error; the crossing
		// transaction alone is fine)
		if len(canon) > 0 && b%7 == 3 && n.App.State.ValidationPeriod() == 0 {
			rich, best := -1, new(big.Int)
			for i := range w.Keys {
				if bal := n.App.State.GetBalance(w.Addrs[i]); bal.Cmp(best) > 0 {
					rich, best = i, bal
				}
			}
			capGas := types.MaxBlockSize(n.Cfg.Consensus.EnableUpgrade11)
			fpg := n.App.State.FeePerGas()
			minFpg := fee.GetFeePerGasForNetwork(n.App.ValidatorsCache.NetworkSize())
			if rich >= 0 && fpg != nil && fpg.Sign() > 0 && minFpg.Sign() > 0 {
				// the largest max fee validation admits buys exactly the block's gas at the minimal rate, so one transaction
				// cannot cross the limit on its own: two of 55 % each do, the second one being the crossing transaction
				maxFee := new(big.Int).Mul(minFpg, big.NewInt(int64(capGas)))
				need := new(big.Int).Mul(fpg, big.NewInt(int64(capGas)*2))
				if best.Cmp(need) > 0 {
					to := w.Addrs[0]
					nn, ep := effNonce(rich)
					if ep != n.App.State.Epoch() {
						nn = 0
					}
					mk := func(k uint32) *types.Transaction {
						tx, _ := types.SignTx(&types.Transaction{Type: types.SendTx, To: &to, Amount: chainfx.Dna(1), MaxFee: maxFee,
							Epoch: n.App.State.Epoch(), AccountNonce: nn + k, Payload: make([]byte, int(capGas)*55/1000)}, w.Keys[rich])
						return tx
					}
					big1, big2 := mk(1), mk(2)
					hdr := n.Chain.Head
					alone, pair := false, false
					var usedAlone uint64
					cs1, _ := n.App.ForCheck(hdr.Height())
					func() {
						defer func() { recover() }()
						_, _, _, g, e := n.Chain.FxProcessTxs(cs1, hdr, []*types.Transaction{big1, big2})
						alone, usedAlone = e == nil, g
						if e != nil && os.Getenv("C06_DEBUG") != "" {
							fmt.Fprintln(os.Stderr, "DEBUG big txs alone:", e)
						}
					}()
					if alone && usedAlone >= capGas {
						t := canon[len(canon)-1-r.Intn(min(len(canon), 5))]
						cs2, _ := n.App.ForCheck(hdr.Height())
						func() {
							defer func() { recover() }()
							_, _, _, _, e := n.Chain.FxProcessTxs(cs2, hdr, []*types.Transaction{big1, big2, t.tx})
							pair = e == nil
						}()
						c.Hit("replay-attempt:behind-the-gas-limit-crossing-tx")
						if pair {
							fail("C06:replay-accepted:behind-gas-limit", fmt.Sprintf("height %d: processTxs accepts a body [two %d-byte transactions, the second crossing the block gas limit, then the included tx %s (sender %d epoch %d nonce %d)]: what follows the crossing transaction is not looked at",
								hdr.Height(), len(big1.Payload), t.tx.Hash().Hex(), t.sender, t.tx.Epoch, t.tx.AccountNonce))
						}
					} else {
						c.Hit("gas-limit-crossing-txs-not-applicable")
					}
				} else {
					c.Hit("gas-limit-crossing-txs-unaffordable")
				}
			}
		}
		// every transaction a dust account ever sent, re-offered after every block (its nonce record may have been cleared and
		// the account funded again: the epoch number is the only guard left)
		for _, t := range dustTxs {
			if _, onChain := seenHash[t.tx.Hash()]; !onChain {
				continue
			}
			val, app, proc, modes := verdicts(t.tx)
			c.Hit("dust:replay-attempt")
			if n.App.State.GetBalance(w.Addrs[t.sender]).Cmp(chainfx.Dna(50)) > 0 {
				c.Hit("dust:replay-attempt-on-refunded-account")
			}
			if modes[0] || modes[1] || modes[2] || val || app || proc {
				fail("C06:replay-accepted:dust-account", fmt.Sprintf("tx %s of dust account %d (epoch %d nonce %d) accepted again at height %d (state epoch %d, account nonce %d balance %s): validate=%v apply=%v processTxs=%v",
					t.tx.Hash().Hex(), t.sender, t.tx.Epoch, t.tx.AccountNonce, n.Chain.Head.Height(), n.App.State.Epoch(), n.App.State.GetNonce(w.Addrs[t.sender]), n.App.State.GetBalance(w.Addrs[t.sender]), modes, app, proc))
			}
		}
		// nonce/epoch probes with fresh funded zero-amount sends (correspondence of the rule itself)
		if b%2 == 1 {
			for k := 0; k < 4; k++ {
				i := r.Intn(len(w.Keys))
				if n.App.State.GetBalance(w.Addrs[i]).Cmp(chainfx.Dna(1000)) < 0 {
					continue
				}
				cur, ep := effNonce(i)
				pe := int(ep) + r.Intn(3) - 1
				pn := int(cur) + r.Intn(4) - 1
				if pe < 0 || pn < 0 {
					continue
				}
				to := w.Addrs[i]
				tx, _ := types.SignTx(&types.Transaction{Type: types.SendTx, To: &to, AccountNonce: uint32(pn), Epoch: uint16(pe), MaxFee: chainfx.Dna(200)}, w.Keys[i])
				val, app, proc, _ := verdicts(tx)
				c.Line(fmt.Sprintf("probe %d %d %d", i, pe, pn), fmt.Sprintf("val=%s app=%s", av(val), av(app)))
				// independent reference of the statement itself: a transaction may be applied only when it is signed for
				// the current epoch and carries the sender's next nonce (1 for the first transaction of an epoch)
				if (app || proc) && !(pe == int(ep) && pn == int(cur)+1) {
					fail("C06:nonce-rule-violated", fmt.Sprintf("height %d: a funded send of sender %d signed for epoch %d with nonce %d is applied (applyTxOnState=%v processTxs=%v) while the chain is in epoch %d and the sender's current nonce is %d",
						n.Chain.Head.Height(), i, pe, pn, app, proc, ep, cur))
				}
				c.Hit(fmt.Sprintf("probe:de=%d,dn=%d:%s/%s", pe-int(ep), pn-int(cur), av(val), av(app)))
			}
		}
		// short reorg inside the None period: abandon the last k blocks and continue from there
		if cs.Reorgs && r.Intn(9) == 0 && len(blockTxCount) > 5 {
			k := 1 + r.Intn(3)
			ok := true
			for j := 0; j <= k; j++ {
				ok = ok && blockPeriodNone[len(blockPeriodNone)-1-j]
			}
			if ok {
				target := n.Chain.Head.Height() - uint64(k)
				if _, err := n.Chain.ResetTo(target); err != nil {
					fail("C06:history-broken", "ResetTo: "+err.Error())
					return nil
				}
				keep := len(blockTxCount) - 1 - k
				for _, t := range canon[blockTxCount[keep]:] {
					delete(seenHash, t.tx.Hash())
				}
				canon = canon[:blockTxCount[keep]]
				blockTxCount = blockTxCount[:keep+1]
				blockPeriodNone = blockPeriodNone[:keep+1]
				c.Line(fmt.Sprintf("reset %d", keep), "ok")
				c.Hit("reorg")
				h.S = chainfx.NewSender(w)
			}
		}
	}
	for k, v := range h.Stats {
		for i := 0; i < v; i++ {
			c.Hit(k)
		}
	}
	c.Rep.Coverage["last_height"] = n.Chain.Head.Height()
	c.Rep.Coverage["last_epoch"] = n.App.State.Epoch()
	return nil
}

func init() {
	hx.Register("C06", func(c *hx.Ctx) error {
		if c.Replay != "" {
			b, err := os.ReadFile(c.Replay)
			if err != nil {
				return err
			}
			var wrap struct {
				Replay c06case `json:"replay"`
			}
			if err := json.Unmarshal(b, &wrap); err != nil {
				return err
			}
			c.Rep.Evaluations = 1
			return c06run(c, wrap.Replay)
		}
		c.Rep.Rule = "real chain histories (8 users + god, all ordinary tx kinds, validation ceremonies with shrunk timeline => several epochs, short reorgs in half of them); after every block: included (sender, epoch, nonce) triples, effective nonces, replays of sampled included txs in 3 validation modes + applyTxOnState + processTxs, fresh nonce/epoch probes around the current nonce; distinct = histories (distinct seeds); non-trivial = the history included at least 20 transactions"
		nh := c.Scale(10, 200)
		for i := 0; i < nh; i++ {
			cs := c06case{Seed: c.Seed*1000 + int64(i), Blocks: 130, Reorgs: i%2 == 1, Failed: i%5 == 3}
			before := c.Lines
			if err := c06run(c, cs); err != nil {
				return err
			}
			c.Rep.Evaluations++
			if c.Lines-before > 20 {
				c.Rep.Distinct++
			}
			c.Sample(cs)
		}
		return nil
	})
}

func min(a, b int) int {
	if a < b {
		return a
	}
	return b
}
