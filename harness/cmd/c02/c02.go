package main

// C02: every block built by an honest proposer is accepted by every honest validator.
// Two real replicas with the same head.  Per round:
//   - candidate lists (what A's pool offers, and adversarial lists: shuffled, with stale / future-nonce / duplicate /
//     conflicting / oversized transactions) go through the REAL filterTxs (building path) on a check state and the kept
//     list through the REAL processTxs (validating path) on another check state;
//   - an independent Go reference (sequential ValidateTx + applyTxOnState with skip-on-failure and the gas rule) computes
//     the per-candidate verdict table; the Lean model of filterTxs/processTxs recomputes kept list and totals from the table;
//   - A proposes with the real ProposeBlock, B validates the wire clone with the real ValidateBlock and inserts it, A inserts
//     its own block; heads and roots must agree.
import (
	"encoding/json"
	"fmt"
	"go/ast"
	"go/parser"
	"go/token"
	"math/big"
	"path/filepath"
	"os"
	"strings"
	"time"

	"github.com/idena-network/idena-go/blockchain/fee"
	"github.com/idena-network/idena-go/blockchain/types"
	"github.com/idena-network/idena-go/blockchain/validation"
	"github.com/idena-network/idena-go/common"
	"github.com/idena-network/idena-go/config"
	"github.com/idena-network/idena-go/core/state"
	"github.com/idena-network/idena-go/stats/collector"

	"verifharness/internal/chainfx"
	"verifharness/internal/hx"
	"verifharness/internal/pairfx"
)

type c02case struct {
	Seed   int64 `json:"seed"`
	Blocks int   `json:"blocks"`
	Boot   bool  `json:"bootstrap"` // nobody is validated at genesis (network size 0: god-only bootstrap), contracts from the first block
	V11    bool  `json:"v11,omitempty"` // consensus v11 (upgrade 12 off): the proposer dry-runs wasm transactions (tryExecuteTx) before it applies them
	Shards int   `json:"shards"` // > 1: a genesis of several equally sized shards; key holders without identity get invited and activate
}

type row struct {
	v, a      bool
	fee, tips *big.Int
	gas       uint64
}

func c02run(c *hx.Ctx, cs c02case) error {
	var p *pairfx.Pair
	var err error
	if cs.Boot {
		p, err = pairfx.NewPairWith(cs.Seed, true, 8, func(w *chainfx.World, o *chainfx.HistoryOpts) {
			for a, al := range w.Opts.Alloc {
				al.State = uint8(state.Candidate)
				w.Opts.Alloc[a] = al
			}
			o.Contracts, o.MoreTypes, o.NoOnline = true, true, true
			delete(o.Always, 1)
		})
	} else if cs.Shards > 1 {
		p, err = pairfx.NewPairWith(cs.Seed, true, 11, func(w *chainfx.World, o *chainfx.HistoryOpts) {
			w.AddFresh(6)
			w.Sharded(cs.Shards)
			o.Onboard, o.MoreTypes = true, true
		})
	} else if cs.V11 {
		// the last configuration in which the building path differs from the validating path by more than filtering: wasm
		// transactions (with amounts, also failing ones) are dry-run by the proposer first
		p, err = pairfx.NewPairWith(cs.Seed, true, 8, func(w *chainfx.World, o *chainfx.HistoryOpts) {
			prev := w.Opts.Tweak
			w.Opts.Tweak = func(cfg *config.Config) {
				if prev != nil {
					prev(cfg)
				}
				cfg.Consensus.EnableUpgrade12 = false
			}
			o.Contracts, o.MoreTypes = true, true
		})
	} else {
		// real embedded contracts (deploy / call / terminate through the real VM): gas beyond the size gas, receipts
		p, err = pairfx.NewPairWith(cs.Seed, true, 8, func(w *chainfx.World, o *chainfx.HistoryOpts) { o.Contracts, o.MoreTypes = cs.Seed%2 == 0, true })
	}
	if err != nil {
		return err
	}
	defer os.RemoveAll("./testdata")
	defer os.RemoveAll("./testdata2")
	A, B, r := p.A, p.B, p.R
	fail := func(sig, detail string, extra interface{}) {
		c.Fail(sig, detail, map[string]interface{}{"case": cs, "at": extra})
	}
	// the second replica's identity (key 1) goes online so that it can take turns proposing
	if !cs.Boot {
		p.H.S.Send(A, 1, chainfx.OnlineTx(true))
	}
	var included []*types.Transaction
	capGas := types.MaxBlockSize(A.Cfg.Consensus.EnableUpgrade11)
	u10 := A.Cfg.Consensus.EnableUpgrade10
	for b := 1; b <= cs.Blocks; b++ {
		p.H.OfferTxs(b)
		if r.Intn(2) == 0 {
			p.OfferConflicts(b)
		}
		chainfx.Advance(20 * 1e9)
		if !A.IsEligibleProposer() {
			if !B.IsEligibleProposer() {
				c.Hit("history-ended:no-replica-may-propose")
				break
			}
			// the other replica takes over for good (the generated transactions go to its pool from now on)
			p.A, p.B = p.B, p.A
			A, B = p.A, p.B
			p.H.N = A
			c.Hit("proposer-roles-swapped")
		}
		head := A.Chain.Head
		stub := &types.ProposedHeader{Height: head.Height() + 1, ParentHash: head.Hash(), Time: common.VerifNow().Unix(),
			ProposerPubKey: A.Sec.GetPubKey(), FeePerGas: A.App.State.FeePerGas()}
		hdr := &types.Header{ProposedHeader: stub}
		poolList := A.Pool.BuildBlockTransactions()
		lists := [][]*types.Transaction{poolList}
		// adversarial list: pool list shuffled + stale + future-nonce + duplicates
		adv := append([]*types.Transaction{}, poolList...)
		r.Shuffle(len(adv), func(i, j int) { adv[i], adv[j] = adv[j], adv[i] })
		for k := 0; k < 3 && len(included) > 0; k++ {
			adv = append(adv, included[r.Intn(len(included))])
		}
		if len(adv) > 0 {
			adv = append(adv, adv[r.Intn(len(adv))])
		}
		for k := 0; k < 2; k++ {
			i := r.Intn(len(p.W.Keys))
			to := p.W.Addrs[r.Intn(len(p.W.Addrs))]
			tx, _ := types.SignTx(&types.Transaction{Type: types.SendTx, To: &to, Amount: chainfx.Dna(1), MaxFee: chainfx.Dna(200),
				Epoch: A.App.State.Epoch(), AccountNonce: A.App.State.GetNonce(p.W.Addrs[i]) + uint32(1+r.Intn(3))}, p.W.Keys[i])
			adv = append(adv, tx)
		}
		r.Shuffle(len(adv), func(i, j int) { adv[i], adv[j] = adv[j], adv[i] })
		lists = append(lists, adv)
		// gas boundary list: payload sizes tuned so that the cumulated gas is exactly cap-10 / cap / cap+10 after the second
		// transaction, followed by small ones (both paths must agree on what may still follow a block that is exactly full)
		if bl := boundaryList(p, A, capGas, int64(b%3-1)*10); len(bl) > 0 {
			lists = append(lists, bl)
			c.Hit(fmt.Sprintf("boundary-list:cap%+d", (b%3-1)*10))
		}
		for li, L := range lists {
			if len(L) == 0 {
				continue
			}
			// independent reference: sequential verdicts with skip-on-failure and the gas rule
			cs1, _ := A.App.ForCheck(head.Height())
			minFpg := fee.GetFeePerGasForNetwork(cs1.ValidatorsCache.NetworkSize())
			rows := make([]row, len(L))
			var refKept []int
			refFee, refTips := new(big.Int), new(big.Int)
			var refGas uint64
			stopped := false
			for i, tx := range L {
				rw := row{fee: new(big.Int), tips: new(big.Int)}
				if !stopped {
					func() {
						defer func() {
							if rec := recover(); rec != nil {
								fail("C02:panic-in-building-path", fmt.Sprint(rec), b)
							}
						}()
						rw.v = validation.ValidateTx(cs1, tx, minFpg, validation.InBlockTx) == nil
						if rw.v {
							f, rc, e := A.Chain.FxApplyTx(cs1, hdr, tx)
							rw.a = e == nil
							if rw.a {
								rw.fee, rw.tips = f, tx.TipsOrZero()
								rw.gas = uint64(fee.CalculateGas(tx))
								if rc != nil {
									rw.gas += rc.GasUsed
								}
							}
						}
					}()
					if rw.a {
						if !u10 && refGas+rw.gas > capGas {
							stopped = true
						} else {
							refGas += rw.gas
							refFee.Add(refFee, rw.fee)
							refTips.Add(refTips, rw.tips)
							refKept = append(refKept, i)
							if u10 && refGas > capGas {
								stopped = true
							}
						}
					}
				}
				rows[i] = rw
			}
			// real building path
			cs2, _ := A.App.ForCheck(head.Height())
			kept, tFee, tTips, _, tGas := A.Chain.FxFilterTxs(cs2, L, stub)
			implFilter := fmt.Sprintf("kept %s fee=%s tips=%s gas=%d", dash(strings.Join(keptHashes(kept), ",")), tFee, tTips, tGas)
			refFilter := fmt.Sprintf("kept %s fee=%s tips=%s gas=%d", dash(strings.Join(hashesAt(L, refKept), ",")), refFee, refTips, refGas)
			if implFilter != refFilter {
				fail("C02:filter-differs-from-reference", fmt.Sprintf("block %d list %d: real filterTxs: %s ; reference: %s", b, li, implFilter, refFilter), b)
			}
			// real validating path on what the building path kept
			cs3, _ := A.App.ForCheck(head.Height())
			pFee, pTips, _, pGas, perr := A.Chain.FxProcessTxs(cs3, hdr, kept)
			implProc := "err"
			if perr == nil {
				implProc = fmt.Sprintf("ok fee=%s tips=%s gas=%d", pFee, pTips, pGas)
				if pFee.Cmp(tFee) != 0 || pTips.Cmp(tTips) != 0 || pGas != tGas {
					fail("C02:paths-disagree-on-totals", fmt.Sprintf("block %d: filter fee/tips/gas %s/%s/%d vs process %s/%s/%d", b, tFee, tTips, tGas, pFee, pTips, pGas), b)
				}
			} else {
				fail("C02:kept-txs-rejected-by-validation-path", fmt.Sprintf("block %d list %d: processTxs refuses what filterTxs kept: %v", b, li, perr), b)
			}
			// protocol lines for the Lean model
			u := 0
			if u10 {
				u = 1
			}
			c.Line(fmt.Sprintf("new %d %d", capGas, u), "ok")
			for _, rw := range rows {
				c.Line(fmt.Sprintf("cand %d %d %s %s %d", b2i(rw.v), b2i(rw.a), rw.fee, rw.tips, rw.gas), "ok")
			}
			c.Line("filter", fmt.Sprintf("kept %s fee=%s tips=%s gas=%d", dash(strings.Join(refIdxOrImpl(L, kept, refKept), ",")), tFee, tTips, tGas))
			c.Line("process", implProc)
			c.Hit(fmt.Sprintf("list:%d:len>=%d", li, bucket(len(L))))
			if len(kept) < len(L) {
				c.Hit("list-with-skipped-txs")
			}
			if tGas > capGas {
				c.Hit("gas-cap-crossed")
			}
			c.Rep.Evaluations++
			if len(L) >= 2 && len(kept) < len(L) && c.Distinct(fmt.Sprint(cs.Seed, b, li)) {
				c.Rep.Distinct++
			}
		}
		// split gossip (ceremony sessions): a participant signs two ceremony transactions of one kind with consecutive
		// nonces; the first reaches only A, the second only B (where it waits for its nonce).  After A's block applied the
		// first, B's pool promotes the second; when B proposes next it must not build a block A refuses.
		for i := range p.W.Keys {
			per := A.App.State.ValidationPeriod()
			if per < 2 || per > 3 || r.Intn(3) != 0 {
				continue
			}
			st := A.App.State
			n0 := st.GetNonce(p.W.Addrs[i])
			if st.GetEpoch(p.W.Addrs[i]) < st.Epoch() {
				n0 = 0
			}
			mk := func(k int) *types.Transaction {
				tx := &types.Transaction{Epoch: st.Epoch(), AccountNonce: n0 + uint32(1+k), MaxFee: chainfx.Dna(100)}
				if per == 2 {
					hh := common.Hash{byte(i), byte(k), byte(b)}
					tx.Type, tx.Payload = types.SubmitAnswersHashTx, hh[:]
				} else {
					tx.Type, tx.Payload = types.SubmitLongAnswersTx, chainfx.LongAnswersPayload(A, p.W.Keys[i], []byte{byte(k), byte(b), 7})
				}
				stx, _ := types.SignTx(tx, p.W.Keys[i])
				return stx
			}
			if A.Pool.AddExternalTxs(validation.InboundTx, mk(0)) == nil && B.Pool.AddExternalTxs(validation.InboundTx, mk(1)) == nil {
				c.Hit("split-gossip:ceremony-tx-pair")
			}
		}
		// end to end: the proposer (A, or B when it is eligible and its turn) proposes, the other validates the wire clone
		// and inserts, the proposer inserts
		if b%3 == 2 && B.IsEligibleProposer() {
			A, B = B, A
			c.Hit("proposer:second-replica")
		}
		// the one thing two correct nodes on one head do not share is the clock: sometimes the proposer's runs ahead of the
		// validator's (theorem honest_header_accepted_iff: accepted iff not more than MaxFutureBlockOffset ahead)
		skew := time.Duration(0)
		if r.Intn(4) == 0 {
			// a refused proposal costs the history up to five minutes of clock: only away from the ceremony, whose sessions
			// the participants must not miss
			maxSkew := 121
			if st := A.App.State; st.ValidationPeriod() == 0 && st.NextValidationTime().Unix()-common.VerifNow().Unix() > 1200 {
				maxSkew = 300
			}
			skew = time.Duration(r.Intn(maxSkew)) * time.Second
			if maxSkew == 300 && r.Intn(2) == 0 {
				skew = time.Duration(120+r.Intn(2)) * time.Second // the last accepted and the first refused second
			}
		}
		headTime := A.Chain.Head.Time()
		chainfx.Advance(skew)
		nowP := common.VerifNow().UTC().Unix()
		prop, err := A.Propose()
		chainfx.Advance(-skew)
		nowV := common.VerifNow().UTC().Unix()
		if err != nil {
			fail("C02:propose-failed", err.Error(), b)
			return nil
		}
		clone, err := chainfx.CloneBlock(prop.Block)
		if err != nil {
			fail("C02:own-block-not-decodable", err.Error(), b)
			return nil
		}
		var verr error
		validate := func() {
			defer func() {
				if rec := recover(); rec != nil {
					verr = fmt.Errorf("panic: %v", rec)
				}
			}()
			_, verr = B.Chain.ValidateBlock(clone, nil, collector.NewStatsCollector())
		}
		validate()
		verdict := "acc"
		if verr != nil {
			verdict = "rej-other"
			if strings.Contains(verr.Error(), "block from future") {
				verdict = "rej-time"
			}
		}
		c.Line(fmt.Sprintf("clock %d %d %d", headTime, nowP, nowV), fmt.Sprintf("time=%d %s", clone.Header.Time(), verdict))
		if skew > 0 {
			c.Hit("clock:proposer-ahead:" + verdict)
		}
		if verdict == "rej-time" {
			// refused for the time only: not insertable now, and accepted unchanged once the validator's clock has caught up
			if c2, e := chainfx.CloneBlock(prop.Block); e == nil {
				if err := B.Add(c2); err == nil {
					fail("C02:block-from-future-inserted", fmt.Sprintf("height %d: time %d inserted with the clock at %d", clone.Height(), clone.Header.Time(), nowV), b)
					return nil
				}
			}
			chainfx.Advance(skew)
			validate()
		}
		if verr != nil {
			fail("C02:honest-block-rejected", fmt.Sprintf("height %d (%d txs, flags %v): validator refuses the proposer's block: %v", clone.Height(), len(clone.Body.Transactions), clone.Header.Flags(), verr), b)
			return nil
		}
		if err := B.Add(clone); err != nil {
			fail("C02:honest-block-not-insertable", fmt.Sprintf("height %d: %v", clone.Height(), err), b)
			return nil
		}
		if err := A.Add(prop.Block); err != nil {
			fail("C02:own-block-rejected", fmt.Sprintf("height %d: proposer refuses its own block: %v", prop.Block.Height(), err), b)
			return nil
		}
		if A.Chain.Head.Hash() != B.Chain.Head.Hash() || A.App.State.Root() != B.App.State.Root() || A.App.IdentityState.Root() != B.App.IdentityState.Root() {
			fail("C02:replicas-diverge", fmt.Sprintf("height %d: heads/roots differ after insertion", prop.Block.Height()), b)
			return nil
		}
		included = append(included, prop.Block.Body.Transactions...)
		c.Hit(fmt.Sprintf("block-flags:%d", prop.Block.Header.Flags()))
		c.Hit("blocks")
		A, B = p.A, p.B
	}
	for k, v := range p.H.Stats {
		for i := 0; i < v; i++ {
			c.Hit(k)
		}
	}
	return nil
}

// boundaryList builds [big, fill, small, small]: gas(big) + gas(fill) = cap + delta exactly (gas = 10 x encoded size).
func boundaryList(p *pairfx.Pair, n *chainfx.Node, capGas uint64, delta int64) []*types.Transaction {
	st := n.App.State
	if st.ValidationPeriod() != 0 {
		return nil
	}
	fpg := st.FeePerGas()
	if fpg == nil || fpg.Sign() == 0 {
		return nil
	}
	var senders []int
	for i := 1; i < len(p.W.Keys) && len(senders) < 6; i++ {
		need := new(big.Int).Mul(fpg, big.NewInt(int64(capGas)*2))
		if st.GetBalance(p.W.Addrs[i]).Cmp(need) > 0 {
			senders = append(senders, i)
		}
	}
	if len(senders) < 6 {
		return nil
	}
	mk := func(i int, payload int, gasTarget int) *types.Transaction {
		to := p.W.Addrs[0]
		nonce := uint32(1)
		if st.GetEpoch(p.W.Addrs[i]) == st.Epoch() {
			nonce = st.GetNonce(p.W.Addrs[i]) + 1
		}
		tx := &types.Transaction{Type: types.SendTx, To: &to, Amount: big.NewInt(1), Epoch: st.Epoch(), AccountNonce: nonce, Payload: make([]byte, payload)}
		// the fee the transaction will cost and nothing more (validation refuses a max fee that buys more than a block of gas)
		tx.MaxFee = new(big.Int).Mul(fpg, big.NewInt(int64(gasTarget)))
		stx, _ := types.SignTx(tx, p.W.Keys[i])
		return stx
	}
	// tune a payload length until the transaction's gas is exactly the target (the encoding adds a few varint bytes)
	tune := func(i int, target int) *types.Transaction {
		pl := target/10 - 200
		if pl < 0 {
			return nil
		}
		for try := 0; try < 40; try++ {
			tx := mk(i, pl, target)
			g := fee.CalculateGas(tx)
			if g == target {
				return tx
			}
			pl += (target - g) / 10
			if pl < 0 {
				return nil
			}
		}
		return nil
	}
	total := int64(capGas) + delta
	if total%10 != 0 || len(senders) < 6 {
		return nil
	}
	part := int(total/4) / 10 * 10
	var out []*types.Transaction
	sum := 0
	for k := 0; k < 3; k++ {
		tx := tune(senders[k], part)
		if tx == nil {
			return nil
		}
		out = append(out, tx)
		sum += part
	}
	fill := tune(senders[3], int(total)-sum)
	if fill == nil {
		return nil
	}
	out = append(out, fill, mk(senders[4], 3, 2000), mk(senders[5], 5, 2000))
	if os.Getenv("C02_DEBUG") != "" {
		cs, _ := n.App.ForCheck(n.Chain.Head.Height())
		fmt.Fprintln(os.Stderr, "boundary validate:", validation.ValidateTx(cs, out[0], fee.GetFeePerGasForNetwork(cs.ValidatorsCache.NetworkSize()), validation.InBlockTx), fee.CalculateGas(out[0]), fee.CalculateGas(fill), fpg)
	}
	return out
}

// proposeFact extracts from /repo's current blockchain.go whether ProposeBlock re-applies the kept list to a clean check
// state when filterTxs dropped a candidate: an `if len(<kept>) < len(<candidates>)` after the filterTxs call whose body
// takes a new ForCheck state and calls processTxs.
func proposeFact() (string, error) {
	repo := os.Getenv("VERIF_REPO")
	if repo == "" {
		repo = "/repo"
	}
	fset := token.NewFileSet()
	f, err := parser.ParseFile(fset, filepath.Join(repo, "blockchain/blockchain.go"), nil, 0)
	if err != nil {
		return "", err
	}
	res := "no"
	found := false
	for _, d := range f.Decls {
		fd, ok := d.(*ast.FuncDecl)
		if !ok || fd.Name.Name != "ProposeBlock" || fd.Body == nil {
			continue
		}
		found = true
		sawFilter := false
		ast.Inspect(fd.Body, func(n ast.Node) bool {
			switch x := n.(type) {
			case *ast.CallExpr:
				if se, ok := x.Fun.(*ast.SelectorExpr); ok && se.Sel.Name == "filterTxs" {
					sawFilter = true
				}
			case *ast.IfStmt:
				be, ok := x.Cond.(*ast.BinaryExpr)
				if !ok || be.Op != token.LSS || !sawFilter {
					return true
				}
				isLen := func(e ast.Expr) bool {
					c, ok := e.(*ast.CallExpr)
					if !ok {
						return false
					}
					id, ok := c.Fun.(*ast.Ident)
					return ok && id.Name == "len"
				}
				if !isLen(be.X) || !isLen(be.Y) {
					return true
				}
				forCheck, process := false, false
				ast.Inspect(x.Body, func(m ast.Node) bool {
					if c, ok := m.(*ast.CallExpr); ok {
						if se, ok := c.Fun.(*ast.SelectorExpr); ok {
							forCheck = forCheck || se.Sel.Name == "ForCheck"
							process = process || se.Sel.Name == "processTxs"
						}
					}
					return true
				})
				if forCheck && process {
					res = "yes"
				}
			}
			return true
		})
	}
	if !found {
		return "", fmt.Errorf("ProposeBlock not found in blockchain/blockchain.go")
	}
	return res, nil
}

func keptHashes(l []*types.Transaction) []string {
	r := make([]string, len(l))
	for i, tx := range l {
		r[i] = tx.Hash().Hex()[2:10]
	}
	return r
}

func hashesAt(l []*types.Transaction, idx []int) []string {
	r := make([]string, len(idx))
	for i, k := range idx {
		r[i] = l[k].Hash().Hex()[2:10]
	}
	return r
}

// refIdxOrImpl renders the kept list as candidate indices: when the real kept list equals the reference's (by hash
// sequence) the reference's indices are used (they disambiguate duplicates), otherwise first-occurrence indices.
func refIdxOrImpl(L, kept []*types.Transaction, refKept []int) []string {
	same := len(kept) == len(refKept)
	if same {
		for i, k := range refKept {
			if L[k].Hash() != kept[i].Hash() {
				same = false
			}
		}
	}
	out := make([]string, len(kept))
	if same {
		for i, k := range refKept {
			out[i] = fmt.Sprint(k)
		}
		return out
	}
	for i, tx := range kept {
		for k := range L {
			if L[k].Hash() == tx.Hash() {
				out[i] = fmt.Sprint(k)
				break
			}
		}
	}
	return out
}

func dash(s string) string {
	if s == "" {
		return "-"
	}
	return s
}

func b2i(b bool) int {
	if b {
		return 1
	}
	return 0
}

func bucket(n int) int {
	switch {
	case n >= 20:
		return 20
	case n >= 8:
		return 8
	case n >= 3:
		return 3
	}
	return 1
}

func init() {
	hx.Register("C02", func(c *hx.Ctx) error {
		if c.Replay != "" {
			b, err := os.ReadFile(c.Replay)
			if err != nil {
				return err
			}
			var wrap struct {
				Replay struct {
					Case c02case `json:"case"`
				} `json:"replay"`
			}
			if err := json.Unmarshal(b, &wrap); err != nil {
				return err
			}
			return c02run(c, wrap.Replay.Case)
		}
		pf, err := proposeFact()
		if err != nil {
			return err
		}
		c.Line("new 0 1", "ok")
		impl := "matches-proposeD"
		if pf != "yes" {
			impl = "matches-proposeDAsFound"
		}
		c.Line("fact propose-rederives-on-clean-state "+pf, impl)
		c.Rep.Rule = "two real replicas, histories over >=2 epochs incl. ceremonies; per block: candidate lists = A's pool list and an adversarial list (shuffled, stale, future-nonce, duplicate, conflicting: overspend chains, kill+later txs, double invitations, delegation/online flapping, payloads crossing the gas cap); evaluation = one candidate list through real filterTxs + processTxs + reference; distinct non-trivial = lists with >=2 candidates of which at least one was skipped"
		nh := c.Scale(5, 150)
		for i := 0; i < nh; i++ {
			cs := c02case{Seed: c.Seed*1000 + int64(i), Blocks: 140}
			if i%5 == 4 {
				cs.V11 = true
			} else if i%2 == 1 {
				cs.Shards = 3 + i%4/2
			} else if i%4 == 2 {
				cs.Boot = true
			}
			if err := c02run(c, cs); err != nil {
				return err
			}
			c.Sample(cs)
		}
		return nil
	})
}
