package main

import "verifharness/internal/hx"

func main() { hx.Main() }
