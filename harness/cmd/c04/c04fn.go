package main

// Channel "C04fn": the REAL reward arithmetic (splitReward, calculatePenalty, determineStakeShareToBurn, applyBlockRewards
// with rewardFinalCommittee, the categories of rewards.go, applyOnState's stake moves, clearDustAccounts) called through
// the export shim on generated arguments / check states, answered line by line by the Lean functions of Model/Rewards.lean.
// Independent oracle on the real code: a reward step pays more than it may (block: BlockReward+FinalCommitteeReward+fee
// share+tips; epoch: the pool), creates a negative component, or a split does not add up.
import (
	"crypto/ecdsa"
	"fmt"
	"math"
	"math/big"
	"math/rand"
	"os"
	"sort"
	"strings"
	"time"

	"github.com/idena-network/idena-go/blockchain"
	"github.com/idena-network/idena-go/blockchain/types"
	"github.com/idena-network/idena-go/common"
	"github.com/idena-network/idena-go/config"
	"github.com/idena-network/idena-go/core/appstate"
	"github.com/idena-network/idena-go/core/ceremony"
	"github.com/idena-network/idena-go/core/state"
	"github.com/idena-network/idena-go/crypto"
	"github.com/shopspring/decimal"

	"verifharness/internal/chainfx"
	"verifharness/internal/hx"
)

type c04fnCase struct {
	Seed int64  `json:"seed"`
	Kind string `json:"kind"`
	V9   bool   `json:"v9"`
	N    int    `json:"n"`
	At   *int   `json:"at,omitempty"` // mix: only scenario number At (every scenario has its own PRNG stream)
}

var c04known int

type c04fx struct {
	c    *hx.Ctx
	cs   c04fnCase
	r    *rand.Rand
	w    *chainfx.World
	n    *chainfx.Node
	cc   *config.ConsensusConf
	bc   *blockchain.Blockchain
	full *big.Int
}

func (f *c04fx) fail(sig, detail string) { f.c.Fail(sig, detail, f.cs) }

func (f *c04fx) check() *appstate.AppState {
	chk, err := f.n.App.ForCheck(f.n.Chain.Head.Height())
	if err != nil {
		panic(err)
	}
	return chk
}

var c04bigs = []string{"0", "1", "2", "3", "4", "5", "9", "10", "11", "99", "100", "101", "999999999999999999", "1000000000000000000",
	"1000000000000000001", "5999999999999999999", "6000000000000000000", "6000000000000000001", "123456789012345678901234567890"}

func (f *c04fx) amount() *big.Int {
	r := f.r
	switch r.Intn(6) {
	case 0:
		x, _ := new(big.Int).SetString(c04bigs[r.Intn(len(c04bigs))], 10)
		return x
	case 1:
		return big.NewInt(int64(r.Intn(1000)))
	case 2:
		return new(big.Int).Mul(big.NewInt(r.Int63n(1e9)), big.NewInt(r.Int63n(1e12)))
	case 3:
		x := new(big.Int).Mul(big.NewInt(r.Int63()), big.NewInt(r.Int63()))
		return x.Mul(x, big.NewInt(r.Int63n(1000)))
	default:
		return new(big.Int).Mul(big.NewInt(r.Int63n(20000)), big.NewInt(1e15))
	}
}

type c04pen struct {
	amt  *big.Int // nil = no penalty object
	secs uint16
	ts   int64
}

func (p c04pen) tokens() string {
	a := "0"
	if p.amt != nil {
		a = p.amt.String()
	}
	return fmt.Sprintf("%s %d %d", a, p.secs, p.ts)
}

func (f *c04fx) pen(blockTs int64, ref *big.Int) c04pen {
	r := f.r
	switch r.Intn(8) {
	case 0:
		return c04pen{amt: big.NewInt(0)}
	case 1: // big-int penalty around the reference amount
		x := new(big.Int).Add(ref, big.NewInt(int64(r.Intn(5)-2)))
		if x.Sign() <= 0 {
			x = big.NewInt(1)
		}
		return c04pen{amt: x}
	case 2:
		x := f.amount()
		if x.Sign() == 0 {
			x = big.NewInt(7)
		}
		return c04pen{amt: x}
	case 3, 4: // seconds penalty
		secs := uint16(1 + r.Intn(65535))
		ts := []int64{0, blockTs - int64(r.Intn(70000)), blockTs, blockTs + 5, blockTs - int64(secs), blockTs - int64(secs) + 1, blockTs - int64(secs) - 1}[r.Intn(7)]
		return c04pen{secs: secs, ts: ts}
	default:
		return c04pen{}
	}
}

func (f *c04fx) setPen(chk *appstate.AppState, a common.Address, p c04pen) {
	if p.amt != nil && p.amt.Sign() != 0 {
		chk.State.GetOrNewIdentityObject(a).SetPenalty(new(big.Int).Set(p.amt))
	}
	if p.secs > 0 {
		chk.State.SetPenaltySeconds(a, p.secs)
	}
	if p.ts != 0 {
		chk.State.SetPenaltyTimestamp(a, p.ts)
	}
}

func optBig(x *big.Int) string {
	if x == nil {
		return "-"
	}
	return x.String()
}

// ---------- split / pen / share / cerk / cerv / dust ----------

func (f *c04fx) runSplit(n int) {
	for i := 0; i < n; i++ {
		t := f.amount()
		if f.r.Intn(10) == 0 {
			t.Neg(t)
		}
		nb := f.r.Intn(2) == 0
		var ans string
		func() {
			defer func() {
				if recover() != nil {
					ans = "panic"
				}
			}()
			rw, st := blockchain.VerifC04SplitReward(t, nb, f.cc)
			ans = rw.String() + " " + st.String()
			if new(big.Int).Add(rw, st).Cmp(t) != 0 {
				f.fail("C04:split-does-not-add-up", fmt.Sprintf("splitReward(%s,%v) = %s + %s", t, nb, rw, st))
			}
			if t.Sign() >= 0 && (rw.Sign() < 0 || st.Sign() < 0) {
				f.fail("C04:negative-component:split", fmt.Sprintf("splitReward(%s,%v) = %s, %s", t, nb, rw, st))
			}
		}()
		f.c.Line(fmt.Sprintf("split %s %s", t, b01(nb)), ans)
		f.c.Distinct("split" + t.String() + b01(nb))
	}
}

func (f *c04fx) runPen(n int) {
	for i := 0; i < n; i++ {
		bal, st := f.amount(), f.amount()
		bt := int64(1893456000 + f.r.Intn(100000))
		p := f.pen(bt, []*big.Int{bal, new(big.Int).Add(bal, st)}[f.r.Intn(2)])
		var ans string
		func() {
			defer func() {
				if recover() != nil {
					ans = "panic"
				}
			}()
			ba, sa, ps, ss := blockchain.VerifC04CalculatePenalty(bal, st, p.amt, p.secs, p.ts, bt)
			ans = fmt.Sprintf("%s %s %s %d", ba, sa, optBig(ps), ss)
			if ba.Sign() < 0 || sa.Sign() < 0 || new(big.Int).Add(ba, sa).Cmp(new(big.Int).Add(bal, st)) > 0 {
				f.fail("C04:penalty-mints", fmt.Sprintf("calculatePenalty(%s,%s,%s) = %s", bal, st, p.tokens(), ans))
			}
		}()
		f.c.Line(fmt.Sprintf("pen %s %s %s %d", bal, st, p.tokens(), bt), ans)
		f.c.Hit("pen:" + strings.Join(strings.Fields(ans)[2:3], ""))
		f.c.Distinct("pen" + bal.String() + st.String() + p.tokens())
	}
}

func (f *c04fx) runShare() {
	for st := 0; st <= 8; st++ {
		for _, bd := range []uint16{0, 1, 2, 5, 9, 10, 11, 20, 65535} {
			for _, ep := range []uint16{0, 1, 3, 4, 5, 6, 9, 10, 11, 14, 15, 16, 21, 30, 300, 65535} {
				v := ceremony.VerifC04StakeShareToBurn(state.IdentityState(st), bd, ep)
				f.c.Line(fmt.Sprintf("share %d %d %d", st, bd, ep), fmt.Sprint(v))
				if v < 0 || v > 100 {
					f.fail("C04:burn-share-out-of-range", fmt.Sprintf("determineStakeShareToBurn(%d,%d,%d) = %d", st, bd, ep, v))
				}
				f.c.Distinct(fmt.Sprint("share", st, bd, ep))
			}
		}
	}
}

func (f *c04fx) runCer(n int) {
	a, d := f.w.Addrs[1], f.w.Addrs[2]
	for i := 0; i < n; i++ {
		stake := f.amount()
		part := new(big.Int)
		if stake.Sign() > 0 {
			part.Rand(f.r, new(big.Int).Add(stake, big.NewInt(1)))
		}
		if f.r.Intn(4) == 0 {
			part.Set(stake)
		}
		if f.r.Intn(4) == 0 {
			part.SetInt64(0)
		}
		chk := f.check()
		chk.State.SubStake(a, chk.State.GetStakeBalance(a))
		chk.State.AddStake(a, stake)
		b0, d0 := chk.State.GetBalance(a), chk.State.GetBalance(d)
		lt0 := chainfx.LedgerOf(chk.State).Total
		if i%2 == 0 { // killed with a saved share: locked part = part
			chk.State.AddLockedStake(a, part)
			prev := []state.IdentityState{state.Human, state.Suspended, state.Zombie, state.Verified, state.Newbie}[f.r.Intn(5)]
			bd, ep := uint16(f.r.Intn(12)), uint16(f.r.Intn(20))
			share := ceremony.VerifC04StakeShareToBurn(prev, bd, ep)
			cfg := *f.cc
			cfg.EnableUpgrade12 = true
			ceremony.VerifC04ApplyOnState(&cfg, chk, ep, a, state.Killed, prev, bd, true, nil)
			f.c.Line(fmt.Sprintf("cerk %s %s %d", stake, part, share),
				fmt.Sprintf("%s %s", new(big.Int).Sub(chk.State.GetBalance(a), b0), chk.State.GetStakeBalance(a)))
			f.c.Hit(fmt.Sprintf("cerk:share=%d", share))
		} else { // Newbie -> Verified with a delegatee: replenished part = part
			chk.State.AddReplenishedStake(a, part)
			ceremony.VerifC04ApplyOnState(f.cc, chk, 5, a, state.Verified, state.Newbie, 3, true, &d)
			f.c.Line(fmt.Sprintf("cerv %s %s", stake, part),
				fmt.Sprintf("%s %s", new(big.Int).Sub(chk.State.GetBalance(d), d0), chk.State.GetStakeBalance(a)))
			f.c.Hit("cerv")
		}
		if lt1 := chainfx.LedgerOf(chk.State).Total; lt1.Cmp(lt0) > 0 {
			f.fail("C04:applyOnState-increased-total", fmt.Sprintf("stake %s part %s variant %d: total %s -> %s", stake, part, i%2, lt0, lt1))
		}
		if chk.State.GetStakeBalance(a).Sign() < 0 || chk.State.GetBalance(a).Sign() < 0 || chk.State.GetBalance(d).Sign() < 0 {
			f.fail("C04:negative-component:applyOnState", fmt.Sprintf("stake %s part %s", stake, part))
		}
		f.c.Distinct(fmt.Sprint("cer", i%2, stake, part))
	}
}

func (f *c04fx) runDust(n int) {
	a := f.w.Addrs[3]
	for i := 0; i < n; i++ {
		ns := []int{0, 1, 3, 10, 100, 1000, 100000}[f.r.Intn(7)]
		chk := f.check()
		bal := f.amount()
		if f.r.Intn(2) == 0 {
			bal = new(big.Int).Mul(big.NewInt(int64(f.r.Intn(30))), big.NewInt(1e15))
		}
		chk.State.SetBalance(a, bal)
		before := chainfx.LedgerOf(chk.State).Total
		blockchain.VerifC04ClearDust(chk, ns)
		after := chainfx.LedgerOf(chk.State).Total
		// threshold as the real code computes it: 1000 * minFeePerGas(networkSize)
		thr := new(big.Int).Mul(big.NewInt(1000), feePerGasForNetwork(ns))
		f.c.Line(fmt.Sprintf("dust %s %s", thr, bal), chk.State.GetBalance(a).String())
		if after.Cmp(before) > 0 {
			f.fail("C04:dust-clearing-increased-total", fmt.Sprintf("network %d balance %s: %s -> %s", ns, bal, before, after))
		}
		f.c.Distinct(fmt.Sprint("dust", ns, bal))
	}
}

// ---------- block rewards ----------

func (f *c04fx) block(key *ecdsa.PrivateKey, ts int64) *types.Block {
	return &types.Block{Header: &types.Header{ProposedHeader: &types.ProposedHeader{
		Height: f.n.Chain.Head.Height() + 1, ParentHash: f.n.Chain.Head.Hash(), Time: ts, ProposerPubKey: crypto.FromECDSAPub(&key.PublicKey)}},
		Body: &types.Body{}}
}

var c04states = []state.IdentityState{state.Verified, state.Newbie, state.Human, state.Newbie, state.Suspended, state.Candidate}

type c04snap struct{ bal, stake, locked, repl []*big.Int }

func (f *c04fx) snap(chk *appstate.AppState, extra ...common.Address) c04snap {
	var s c04snap
	for _, a := range append(append([]common.Address{}, f.w.Addrs...), extra...) {
		s.bal = append(s.bal, chk.State.GetBalance(a))
		s.stake = append(s.stake, chk.State.GetStakeBalance(a))
		s.locked = append(s.locked, chk.State.GetLockedStake(a))
		s.repl = append(s.repl, chk.State.GetReplenishedStakeBalance(a))
	}
	return s
}

// deltas answers `d <Δtotal> <id>:<Δbal>:<Δstake>:<Δlocked>:<Δrepl> …` for ids[i] (the model's address numbers)
func deltas(total *big.Int, ids []int, a, b c04snap) string {
	parts := []string{"d " + total.String()}
	sub := func(x, y *big.Int) *big.Int { return new(big.Int).Sub(y, x) }
	for i, id := range ids {
		parts = append(parts, fmt.Sprintf("%d:%s:%s:%s:%s", id, sub(a.bal[i], b.bal[i]), sub(a.stake[i], b.stake[i]), sub(a.locked[i], b.locked[i]), sub(a.repl[i], b.repl[i])))
	}
	return strings.Join(parts, " ")
}

func (f *c04fx) ids(extra ...int) (ids []int, q string) {
	for i := range f.w.Addrs {
		ids = append(ids, i+1)
	}
	ids = append(ids, extra...)
	var s []string
	for _, id := range ids {
		s = append(s, fmt.Sprint(id))
	}
	return ids, strings.Join(s, " ")
}

func (f *c04fx) runBrw(n int) {
	r := f.r
	for i := 0; i < n; i++ {
		chk := f.check()
		ts := int64(1893456000 + r.Intn(100000))
		nk := len(f.w.Keys)
		pi := r.Intn(nk)
		for j, a := range f.w.Addrs {
			_ = j
			chk.State.SetState(a, c04states[r.Intn(len(c04states))])
		}
		fee, tips := f.amount(), f.amount()
		if r.Intn(3) == 0 {
			tips = new(big.Int)
		}
		// committee: distinct addresses, sorted by address like the real context
		perm := r.Perm(nk)
		m := r.Intn(min(nk, 7))
		if r.Intn(8) == 0 {
			m = 0
		}
		sel := append([]int{}, perm[:m]...)
		sort.Slice(sel, func(x, y int) bool {
			return strings.Compare(string(f.w.Addrs[sel[x]][:]), string(f.w.Addrs[sel[y]][:])) < 0
		})
		var members []blockchain.VerifC04Member
		var mtoks []string
		mode := r.Intn(4)
		for _, k := range sel {
			var req *big.Int
			switch mode {
			case 0: // shares that fit
				req = new(big.Int).Div(f.full, big.NewInt(int64(m+1+r.Intn(3))))
			case 1: // overshoot: capping by the remaining reward
				req = new(big.Int).Div(new(big.Int).Mul(f.full, big.NewInt(int64(1+r.Intn(4)))), big.NewInt(int64(1+r.Intn(4))))
			case 2:
				req = f.amount()
			default:
				req = new(big.Int).Add(new(big.Int).Div(f.full, big.NewInt(int64(m))), big.NewInt(int64(r.Intn(3)-1)))
			}
			wgt := new(big.Float).SetPrec(256).SetInt(req)
			if r.Intn(2) == 0 {
				wgt.Add(wgt, new(big.Float).SetPrec(256).SetFloat64(r.Float64())) // fractional part is truncated by Float.Int
			}
			p := c04pen{}
			if k != pi {
				sp, _ := blockchain.VerifC04SplitReward(req, false, f.cc)
				p = f.pen(ts, sp)
			}
			f.setPen(chk, f.w.Addrs[k], p)
			members = append(members, blockchain.VerifC04Member{Addr: f.w.Addrs[k], Weight: wgt})
			mtoks = append(mtoks, fmt.Sprintf("%d %d %s %s %s", k+1, k+1, req, b01(chk.State.GetIdentityState(f.w.Addrs[k]) == state.Newbie), p.tokens()))
		}
		pp := c04pen{}
		inCommittee := false
		for _, k := range sel {
			inCommittee = inCommittee || k == pi
		}
		if !inCommittee {
			pp = f.pen(ts, fee)
			f.setPen(chk, f.w.Addrs[pi], pp)
		}
		ids, q := f.ids()
		before := f.snap(chk)
		lb := chainfx.LedgerOf(chk.State).Total
		var ans string
		func() {
			defer func() {
				if rec := recover(); rec != nil {
					ans = "panic"
				}
			}()
			// total weight = the full reward, so that rewardShare = 1 and a member's request is ⌊its weight⌋
			f.bc.VerifC04ApplyBlockRewards(chk, f.block(f.w.Keys[pi], ts), fee, tips, new(big.Float).SetPrec(256).SetInt(f.full), new(big.Float), members)
			la := chainfx.LedgerOf(chk.State)
			dt := new(big.Int).Sub(la.Total, lb)
			ans = deltas(dt, ids, before, f.snap(chk))
			// oracle: minted ≤ full reward + fee share (≤ fee) + tips, nothing negative
			lim := new(big.Int).Add(f.full, new(big.Int).Add(fee, tips))
			if dt.Cmp(lim) > 0 {
				f.fail("C04:growth-exceeds-bound:block-rewards", fmt.Sprintf("applyBlockRewards minted %s > %s (fee %s tips %s, %d members)", dt, lim, fee, tips, m))
			}
			for _, d := range la.Negative {
				f.fail("C04:negative-component:"+negKind(d), "after applyBlockRewards: "+d)
			}
		}()
		f.c.Line(fmt.Sprintf("brw %s %s %d %d %d %s %s %d %s %s", fee, tips, ts, pi+1, pi+1,
			b01(chk.State.GetIdentityState(f.w.Addrs[pi]) == state.Newbie), pp.tokens(), m, strings.Join(mtoks, " "), q), ans)
		f.c.Hit(fmt.Sprintf("brw:members=%d,mode=%d", m, mode))
		f.c.Distinct(fmt.Sprint("brw", f.cs.Seed, i))
	}
}

// ---------- epoch categories ----------

// decParts brings decimals to a common power-of-ten denominator.
func decParts(ds []decimal.Decimal) (nums []*big.Int, scale *big.Int) {
	var D int32
	for _, d := range ds {
		if -d.Exponent() > D {
			D = -d.Exponent()
		}
	}
	scale = new(big.Int).Exp(big.NewInt(10), big.NewInt(int64(D)), nil)
	for _, d := range ds {
		n := d.Coefficient()
		n.Mul(n, new(big.Int).Exp(big.NewInt(10), big.NewInt(int64(D+d.Exponent())), nil))
		nums = append(nums, n)
	}
	return
}

type c04payee struct {
	addr, dest int
	w          decimal.Decimal
	newbie     bool
	stakeOnly  bool
}

func (f *c04fx) catLine(name string, pool *big.Int, total decimal.Decimal, ps []c04payee, q string) string {
	ds := []decimal.Decimal{total}
	for _, p := range ps {
		ds = append(ds, p.w)
	}
	nums, scale := decParts(ds)
	var toks []string
	for i, p := range ps {
		toks = append(toks, fmt.Sprintf("%d %d %s %s %s", p.addr, p.dest, nums[i+1], b01(p.newbie), b01(p.stakeOnly)))
	}
	return strings.TrimSpace(fmt.Sprintf("cat %s %s %s %s %d %s %s", name, pool, nums[0], scale, len(ps), strings.Join(toks, " "), q))
}

func (f *c04fx) pool() *big.Int {
	el := int64([]int{1, 2, 45, 90, 100, 4320, 50000, 123457}[f.r.Intn(8)])
	return new(big.Int).Mul(f.full, big.NewInt(el))
}

func (f *c04fx) destOf(chk *appstate.AppState, i int) int {
	if d := chk.State.Delegatee(f.w.Addrs[i]); d != nil {
		if k := f.w.Index(*d); k >= 0 {
			return k + 1
		}
	}
	return i + 1
}

func (f *c04fx) prepStates(chk *appstate.AppState) {
	r := f.r
	for i, a := range f.w.Addrs {
		chk.State.SetState(a, []state.IdentityState{state.Verified, state.Newbie, state.Human, state.Newbie, state.Suspended, state.Candidate, state.Verified}[r.Intn(7)])
		if i > 0 && r.Intn(5) == 0 {
			chk.State.SetDelegatee(a, f.w.Addrs[r.Intn(len(f.w.Addrs))])
		}
	}
}

func (f *c04fx) finishCat(line string, chk *appstate.AppState, before c04snap, lb *big.Int, ids []int, catPool *big.Int, what string, run func()) {
	var ans string
	func() {
		defer func() {
			if rec := recover(); rec != nil {
				ans = "panic"
			}
		}()
		run()
		la := chainfx.LedgerOf(chk.State)
		dt := new(big.Int).Sub(la.Total, lb)
		ans = deltas(dt, ids, before, f.snap(chk))
		if dt.Cmp(catPool) > 0 {
			// not a failure by itself (the property bounds the whole epoch distribution, see runEpochMix): measured
			f.c.Hit("category-paid-more-than-its-share:" + what)
			ex := new(big.Int).Sub(dt, catPool)
			if cur, _ := f.c.Rep.Coverage["fn_max_category_payouts_minus_share"].(*big.Int); cur == nil || ex.Cmp(cur) > 0 {
				f.c.Rep.Coverage["fn_max_category_payouts_minus_share"] = ex
			}
			if ex.Cmp(c04roundingSlack(catPool, 256)) > 0 {
				f.fail("C04:growth-exceeds-bound:epoch-category", fmt.Sprintf("%s paid %s > its share of the pool %s by more than float32 rounding explains", what, dt, catPool))
			}
		}
		for _, d := range la.Negative {
			f.fail("C04:negative-component:"+negKind(d), "after "+what+": "+d)
		}
	}()
	f.c.Line(line, ans)
}

func pct(pool *big.Int, p float32) *big.Int {
	d := decimal.NewFromBigInt(pool, 0).Mul(decimal.NewFromFloat32(p))
	return d.Floor().Coefficient()
}

func (f *c04fx) runReports(n int) {
	r := f.r
	for i := 0; i < n; i++ {
		chk := f.check()
		f.prepStates(chk)
		pool := f.pool()
		res := &types.ValidationResults{ReportersToRewardByFlip: map[int]map[common.Address]*types.Candidate{}}
		var ps []c04payee
		for fl := 0; fl < 1+r.Intn(6); fl++ {
			m := map[common.Address]*types.Candidate{}
			for k := 0; k < r.Intn(5); k++ {
				j := r.Intn(len(f.w.Addrs))
				if _, dup := m[f.w.Addrs[j]]; dup {
					continue
				}
				ns := uint8(c04states[r.Intn(len(c04states))])
				m[f.w.Addrs[j]] = &types.Candidate{Address: f.w.Addrs[j], NewIdentityState: ns}
				ps = append(ps, c04payee{addr: j + 1, dest: f.destOf(chk, j), w: decimal.New(1, 0), newbie: ns == uint8(state.Newbie)})
			}
			res.ReportersToRewardByFlip[fl] = m
		}
		ids, q := f.ids()
		before, lb := f.snap(chk), chainfx.LedgerOf(chk.State).Total
		line := f.catLine("reports", pool, decimal.New(int64(len(ps)), 0), ps, q)
		f.finishCat(line, chk, before, lb, ids, pct(pool, f.cc.ReportsRewardPercent), "reports", func() {
			blockchain.VerifC04ReportReward(chk, f.cc, map[common.ShardId]*types.ValidationResults{1: res}, pool)
		})
		f.c.Hit(fmt.Sprintf("cat:reports:n=%d", min(len(ps), 9)))
		f.c.Distinct(fmt.Sprint("rep", f.cs.Seed, i))
	}
}

// staking / candidates: the real function walks the identities of the state; the harness derives the weights with the
// real stakeWeight (float32) and the float32 running total in the same (tree) order.
func (f *c04fx) runStaking(n int) {
	r := f.r
	for i := 0; i < n; i++ {
		chk := f.check()
		f.prepStates(chk)
		pool := f.pool()
		epoch := chk.State.Epoch()
		candidatesOnly := i%3 == 2
		for j, a := range f.w.Addrs {
			chk.State.SubStake(a, chk.State.GetStakeBalance(a))
			if candidatesOnly {
				if r.Intn(2) == 0 {
					chk.State.SetBirthday(a, epoch)
				} else {
					chk.State.SetBirthday(a, epoch+1)
				}
				continue
			}
			chk.State.SetBirthday(a, epoch+1)
			switch r.Intn(5) {
			case 0:
			case 1:
				chk.State.AddStake(a, big.NewInt(int64(1+r.Intn(1000))))
			case 2: // very large next to small ones: float32 accumulation
				chk.State.AddStake(a, chainfx.Dna(int64(100000000+j)))
			default:
				chk.State.AddStake(a, new(big.Int).Mul(big.NewInt(r.Int63n(5000000)), big.NewInt(1e15)))
			}
		}
		bad := map[common.Address]types.BadAuthorReason{}
		if r.Intn(3) == 0 {
			bad[f.w.Addrs[r.Intn(len(f.w.Addrs))]] = 0
		}
		res := map[common.ShardId]*types.ValidationResults{1: {BadAuthors: bad}}
		var ps []c04payee
		var tot32 float32
		cnt := 0
		chk.State.IterateOverIdentities(func(a common.Address, id state.Identity) {
			k := f.w.Index(a)
			if k < 0 || !id.State.NewbieOrBetter() {
				return
			}
			if _, b := bad[a]; b {
				return
			}
			dest := k + 1
			if d := id.Delegatee(); d != nil {
				if x := f.w.Index(*d); x >= 0 {
					dest = x + 1
				}
			}
			if candidatesOnly {
				if id.Birthday == epoch {
					cnt++
					ps = append(ps, c04payee{addr: k + 1, dest: dest, w: decimal.New(1, 0), newbie: id.State == state.Newbie})
				}
				return
			}
			if common.ZeroOrNil(id.Stake) {
				return
			}
			w := blockchain.VerifC04StakeWeight(id.Stake)
			tot32 += w
			ps = append(ps, c04payee{addr: k + 1, dest: dest, w: decimal.NewFromFloat(float64(w)), newbie: id.State == state.Newbie})
		})
		ids, q := f.ids()
		before, lb := f.snap(chk), chainfx.LedgerOf(chk.State).Total
		var line string
		var share *big.Int
		what := "staking"
		if candidatesOnly {
			what = "candidates"
			line = f.catLine("candidates", pool, decimal.New(int64(cnt), 0), ps, q)
			share = pct(pool, f.cc.CandidateRewardPercent)
		} else {
			line = f.catLine("staking", pool, decimal.NewFromFloat(float64(tot32)), ps, q)
			share = pct(pool, f.cc.StakingRewardPercent)
			// how far the float32 running total is from the exact sum of the weights
			ex := decimal.Zero
			for _, p := range ps {
				ex = ex.Add(p.w)
			}
			if ex.Cmp(decimal.NewFromFloat(float64(tot32))) > 0 {
				f.c.Hit("staking:float32-total-below-exact-sum")
			}
		}
		f.finishCat(line, chk, before, lb, ids, share, what, func() {
			blockchain.VerifC04StakingReward(chk, f.cc, res, pool)
		})
		f.c.Hit(fmt.Sprintf("cat:%s:n=%d", what, min(len(ps), 9)))
		f.c.Distinct(fmt.Sprint("stk", f.cs.Seed, i))
	}
}

// flips (basic category only: at most 3 rewarded flips per author, so that `extra` stays empty)
func (f *c04fx) runFlips(n int) {
	r := f.r
	for i := 0; i < n; i++ {
		chk := f.check()
		f.prepStates(chk)
		pool := f.pool()
		good := map[common.Address]*types.ValidationResult{}
		type au struct {
			k  int
			vr *types.ValidationResult
		}
		var aus []au
		for k := range f.w.Addrs {
			if r.Intn(2) == 0 {
				continue
			}
			vr := &types.ValidationResult{NewIdentityState: uint8(c04states[r.Intn(len(c04states))]), Missed: r.Intn(8) == 0}
			for j := 0; j < r.Intn(4); j++ {
				fr := &types.FlipToReward{Cid: []byte{byte(k), byte(j)}, Grade: types.Grade(r.Intn(6))}
				if f.cc.EnableUpgrade11 || r.Intn(3) == 0 {
					fr.GradeScore = decimal.New(int64(r.Intn(60)), -1)
				}
				vr.FlipsToReward = append(vr.FlipsToReward, fr)
			}
			good[f.w.Addrs[k]] = vr
			aus = append(aus, au{k, vr})
		}
		sort.Slice(aus, func(x, y int) bool {
			return strings.Compare(string(f.w.Addrs[aus[x].k][:]), string(f.w.Addrs[aus[y].k][:])) < 0
		})
		var ps []c04payee
		var tot32 float32
		for _, a := range aus {
			if a.vr.Missed || len(a.vr.FlipsToReward) == 0 {
				continue
			}
			var w32 float32
			for _, fr := range a.vr.FlipsToReward {
				c := blockchain.VerifC04FlipBasicCoef(fr.Grade, fr.GradeScore)
				tot32 += c
				w32 += c
			}
			ps = append(ps, c04payee{addr: a.k + 1, dest: f.destOf(chk, a.k), w: decimal.NewFromFloat32(w32), newbie: a.vr.NewIdentityState == uint8(state.Newbie)})
		}
		ids, q := f.ids()
		before, lb := f.snap(chk), chainfx.LedgerOf(chk.State).Total
		line := f.catLine("flipBasic", pool, decimal.NewFromFloat32(tot32), ps, q)
		p := f.cc.FlipRewardBasicPercent
		if !f.cc.EnableUpgrade10 {
			p = f.cc.FlipRewardPercent
		}
		f.finishCat(line, chk, before, lb, ids, pct(pool, p), "flips", func() {
			blockchain.VerifC04FlipReward(chk, f.cc, map[common.ShardId]*types.ValidationResults{1: {GoodAuthors: good}}, pool, map[common.Address]float32{}, nil)
		})
		f.c.Hit(fmt.Sprintf("cat:flipBasic:n=%d", min(len(ps), 9)))
		f.c.Distinct(fmt.Sprint("flp", f.cs.Seed, i))
	}
}

func (f *c04fx) runInvitations(n int) {
	r := f.r
	for i := 0; i < n; i++ {
		chk := f.check()
		f.prepStates(chk)
		pool := f.pool()
		durs := []uint32{uint32(1 + r.Intn(200)), uint32(r.Intn(200)), uint32(1 + r.Intn(200))}[:1+r.Intn(3)]
		weights := map[common.Address]float32{}
		inv := map[common.Address]*types.InviterValidationResult{}
		var ks []int
		for k, a := range f.w.Addrs {
			weights[a] = blockchain.VerifC04StakeWeight(new(big.Int).Mul(big.NewInt(r.Int63n(3000000)), big.NewInt(1e15)))
			if r.Intn(2) == 0 {
				continue
			}
			iv := &types.InviterValidationResult{NewIdentityState: uint8(c04states[r.Intn(len(c04states))]), PayInvitationReward: r.Intn(6) != 0}
			for j := 0; j < 1+r.Intn(3); j++ {
				iv.SuccessfulInvites = append(iv.SuccessfulInvites, &types.SuccessfulInvite{Age: uint16(r.Intn(5)), EpochHeight: uint32(r.Intn(250)),
					Penalized: r.Intn(4) == 0, Address: f.w.Addrs[r.Intn(len(f.w.Addrs))]})
			}
			inv[a] = iv
			ks = append(ks, k)
		}
		sort.Slice(ks, func(x, y int) bool {
			return strings.Compare(string(f.w.Addrs[ks[x]][:]), string(f.w.Addrs[ks[y]][:])) < 0
		})
		var ps []c04payee
		var tot32 float32
		for _, k := range ks {
			iv := inv[f.w.Addrs[k]]
			if !iv.PayInvitationReward {
				continue
			}
			for _, si := range iv.SuccessfulInvites {
				a, b := blockchain.VerifC04InvitationCoef(weights[f.w.Addrs[k]], si.Age, si.Penalized, si.EpochHeight, durs, f.cc)
				tot32 += a
				tot32 += b
				if a > 0 {
					ps = append(ps, c04payee{addr: k + 1, dest: f.destOf(chk, k), w: decimal.NewFromFloat32(a), newbie: iv.NewIdentityState == uint8(state.Newbie)})
					if f.cc.EnableUpgrade10 && b > 0 {
						x := f.w.Index(si.Address) + 1
						ps = append(ps, c04payee{addr: x, dest: x, w: decimal.NewFromFloat32(b), stakeOnly: true})
					}
				}
			}
		}
		ids, q := f.ids()
		before, lb := f.snap(chk), chainfx.LedgerOf(chk.State).Total
		line := f.catLine("invitations", pool, decimal.NewFromFloat32(tot32), ps, q)
		f.finishCat(line, chk, before, lb, ids, pct(pool, f.cc.ValidInvitationRewardPercent), "invitations", func() {
			blockchain.VerifC04InvitationReward(chk, f.cc, map[common.ShardId]*types.ValidationResults{1: {GoodInviters: inv}}, pool, durs, weights)
		})
		f.c.Hit(fmt.Sprintf("cat:invitations:n=%d", min(len(ps), 9)))
		f.c.Distinct(fmt.Sprint("inv", f.cs.Seed, i))
	}
}

func (f *c04fx) runFlat(n int) {
	for i := 0; i < n; i++ {
		chk := f.check()
		pool := f.pool()
		if i%2 == 1 {
			pool = f.amount()
		}
		god := chk.State.GodAddress()
		g0, z0 := chk.State.GetBalance(god), chk.State.GetBalance(common.Address{})
		lt0 := chainfx.LedgerOf(chk.State).Total
		blockchain.VerifC04FoundationAndZeroWallet(chk, f.cc, pool)
		if dt := new(big.Int).Sub(chainfx.LedgerOf(chk.State).Total, lt0); dt.Cmp(new(big.Int).Add(pct(pool, f.cc.FoundationPayoutsPercent), pct(pool, f.cc.ZeroWalletPercent))) > 0 {
			f.fail("C04:growth-exceeds-bound:epoch-category", fmt.Sprintf("foundation + zero wallet paid %s of pool %s", dt, pool))
		}
		f.c.Line(fmt.Sprintf("flat %s", pool), fmt.Sprintf("%s %s", new(big.Int).Sub(chk.State.GetBalance(god), g0), new(big.Int).Sub(chk.State.GetBalance(common.Address{}), z0)))
		f.c.Distinct("flat" + pool.String())
	}
}

// whole epoch distribution with every category active, on the real rewardValidIdentities: Σ payouts vs pool.
// An excess that float32 accumulation of the category totals can explain (rewards.go:86,270,285,498: at most one
// rounding of relative size 2^-24 per addition, plus the float->decimal conversions) is the known finding
// C04:epoch-payouts-exceed-pool; anything above that is C04:growth-exceeds-bound:epoch.
func (f *c04fx) runEpochMix(n int) {
	maxEx, _ := f.c.Rep.Coverage["fn_max_epoch_payouts_minus_pool"].(*big.Int)
	for i := 0; i < n; i++ {
		if f.cs.At != nil && *f.cs.At != i {
			continue
		}
		r := rand.New(rand.NewSource(f.cs.Seed*1000003 + int64(i)))
		f.r = r
		at := i
		rcase := f.cs
		rcase.At = &at
		chk := f.check()
		f.prepStates(chk)
		epoch := chk.State.Epoch()
		el := uint32([]int{1, 45, 90, 100, 4320, 50000}[r.Intn(6)])
		pool := new(big.Int).Mul(f.full, big.NewInt(int64(el)))
		durs := []uint32{uint32(1 + r.Intn(200)), uint32(1 + r.Intn(200)), el}
		adversarial := i%2 == 0
		adds := 0 // float32 additions that enter a category total or a payee weight
		for j, a := range f.w.Addrs {
			chk.State.SubStake(a, chk.State.GetStakeBalance(a))
			chk.State.SetState(a, []state.IdentityState{state.Verified, state.Newbie, state.Human}[r.Intn(3)])
			if r.Intn(3) == 0 {
				chk.State.SetBirthday(a, epoch)
			} else {
				chk.State.SetBirthday(a, epoch+1)
			}
			if adversarial && j == 0 {
				chk.State.AddStake(a, chainfx.Dna(int64(90000000+r.Intn(30000000)))) // weight ≈ 2^24: small weights vanish in the float32 total
			} else if adversarial {
				chk.State.AddStake(a, new(big.Int).Mul(big.NewInt(1+r.Int63n(3000)), big.NewInt(1e15)))
			} else {
				chk.State.AddStake(a, new(big.Int).Mul(big.NewInt(1+r.Int63n(5000000)), big.NewInt(1e15)))
			}
			adds++
		}
		res := &types.ValidationResults{BadAuthors: map[common.Address]types.BadAuthorReason{}, GoodAuthors: map[common.Address]*types.ValidationResult{},
			GoodInviters: map[common.Address]*types.InviterValidationResult{}, ReportersToRewardByFlip: map[int]map[common.Address]*types.Candidate{}}
		for k, a := range f.w.Addrs {
			ns := uint8(chk.State.GetIdentityState(a))
			vr := &types.ValidationResult{NewIdentityState: ns}
			for j := 0; j < 1+r.Intn(6); j++ {
				vr.FlipsToReward = append(vr.FlipsToReward, &types.FlipToReward{Cid: []byte{byte(k), byte(j)}, Grade: types.Grade(2 + r.Intn(4)), GradeScore: decimal.New(int64(10+r.Intn(50)), -1)})
				adds += 4 // category total and author weight, basic and extra
			}
			res.GoodAuthors[a] = vr
			iv := &types.InviterValidationResult{NewIdentityState: ns, PayInvitationReward: true}
			for j := 0; j < 1+r.Intn(3); j++ {
				iv.SuccessfulInvites = append(iv.SuccessfulInvites, &types.SuccessfulInvite{Age: uint16(1 + r.Intn(3)), EpochHeight: uint32(r.Intn(int(el) + 1)),
					Penalized: r.Intn(4) == 0, Address: f.w.Addrs[r.Intn(len(f.w.Addrs))]})
				adds += 2
			}
			res.GoodInviters[a] = iv
			res.ReportersToRewardByFlip[k] = map[common.Address]*types.Candidate{a: {Address: a, NewIdentityState: ns}}
		}
		lb := chainfx.LedgerOf(chk.State).Total
		func() {
			defer func() {
				if rec := recover(); rec != nil {
					f.c.Fail("C04:reward-step-panic", fmt.Sprint(rec), rcase)
				}
			}()
			blockchain.VerifC04RewardValidIdentities(chk, f.cc, map[common.ShardId]*types.ValidationResults{1: res}, durs, nil)
		}()
		la := chainfx.LedgerOf(chk.State)
		ex := new(big.Int).Sub(new(big.Int).Sub(la.Total, lb), pool)
		if maxEx == nil || ex.Cmp(maxEx) > 0 {
			maxEx = ex
		}
		if ex.Sign() > 0 {
			detail := fmt.Sprintf("rewardValidIdentities paid %s > pool %s (epoch length %d, excess %s, %d float32 additions)", new(big.Int).Sub(la.Total, lb), pool, el, ex, adds)
			if ex.Cmp(c04roundingSlack(pool, adds)) <= 0 {
				f.c.Hit("known-finding:epoch-payouts-exceed-pool")
				if c04known < 3 { // the report keeps 50 failures: do not let the known class crowd out others
					c04known++
					f.c.Fail("C04:epoch-payouts-exceed-pool", detail, rcase)
				}
			} else {
				f.c.Fail("C04:growth-exceeds-bound:epoch", detail+" — more than float32 rounding of the category totals explains", rcase)
			}
		}
		for _, d := range la.Negative {
			f.c.Fail("C04:negative-component:"+negKind(d), "after rewardValidIdentities: "+d, rcase)
		}
		f.c.Hit("epoch-mix")
		f.c.Distinct(fmt.Sprint("mix", f.cs.Seed, i))
	}
	if maxEx != nil {
		f.c.Rep.Coverage["fn_max_epoch_payouts_minus_pool"] = maxEx
	}
}

// c04roundingSlack: pool · (adds+8) · 2^-23 — every float32 addition rounds by at most 2^-24 relative (round to nearest),
// the factor 2 and the +8 cover second-order terms and the shortest-decimal conversions of weights and totals.
func c04roundingSlack(pool *big.Int, adds int) *big.Int {
	x := new(big.Int).Mul(pool, big.NewInt(int64(adds+8)))
	return x.Rsh(x, 23)
}

func feePerGasForNetwork(networkSize int) *big.Int {
	// fee.GetFeePerGasForNetwork, restated (the real one is called inside clearDustAccounts): max(10, 0.01 DNA / max(N,1))
	if networkSize == 0 {
		networkSize = 1
	}
	x := new(big.Int).Div(big.NewInt(1e16), big.NewInt(int64(networkSize)))
	if x.Cmp(big.NewInt(10)) < 0 {
		return big.NewInt(10)
	}
	return x
}

func c04fnRun(c *hx.Ctx, cs c04fnCase) error {
	r := rand.New(rand.NewSource(cs.Seed))
	w := chainfx.NewWorld(cs.Seed, 9, 0, time.Date(2030, 1, 1, 0, 0, 0, 0, time.UTC))
	if cs.V9 {
		w.Opts.Tweak = c04v9
	}
	h, err := chainfx.Bootstrap(w, chainfx.HistoryOpts{}, r, false)
	if err != nil {
		return err
	}
	defer os.RemoveAll("./testdata")
	defer os.RemoveAll("./testdata2")
	if _, err := h.Step(1); err != nil {
		return err
	}
	cc := h.N.Cfg.Consensus
	f := &c04fx{c: c, cs: cs, r: r, w: w, n: h.N, cc: cc, bc: blockchain.VerifC04NewChain(h.N.Cfg), full: new(big.Int).Add(cc.BlockReward, cc.FinalCommitteeReward)}
	c.Line("new", "ok")
	c.Line(c04cfgLine(cc), "ok")
	switch cs.Kind {
	case "split":
		f.runSplit(cs.N)
	case "pen":
		f.runPen(cs.N)
	case "share":
		f.runShare()
	case "cer":
		f.runCer(cs.N)
	case "dust":
		f.runDust(cs.N)
	case "brw":
		f.runBrw(cs.N)
	case "reports":
		f.runReports(cs.N)
	case "staking":
		f.runStaking(cs.N)
	case "flips":
		f.runFlips(cs.N)
	case "invitations":
		f.runInvitations(cs.N)
	case "flat":
		f.runFlat(cs.N)
	case "mix":
		f.runEpochMix(cs.N)
	default:
		return fmt.Errorf("unknown kind %q", cs.Kind)
	}
	return nil
}

func init() {
	_ = math.MaxInt32
	hx.Register("C04fn", func(c *hx.Ctx) error {
		if c.Replay != "" {
			var wrap struct {
				Replay c04fnCase `json:"replay"`
			}
			if err := c04replay(c, &wrap); err != nil {
				return err
			}
			c.Rep.Evaluations = 1
			return c04fnRun(c, wrap.Replay)
		}
		c.Rep.Rule = "the real reward functions through the export shim on generated arguments (boundary values 0,1,9,10,11, 1e18±1, 6e18±1, up to 2^190; penalties nil/0/≈amount/seconds with all timestamp relations; committees of 0-6 members with requests that fit / overshoot the remaining reward; epoch categories with delegations, newbies, float32 weights incl. 2^24 next to 1; both consensus configs); distinct = distinct argument tuples"
		k := c.Scale(1, 12)
		seed := c.Seed * 100
		for _, v9 := range []bool{false, true} {
			for _, kc := range []struct {
				kind string
				n    int
			}{{"split", 3000 * k}, {"pen", 3000 * k}, {"share", 1296}, {"cer", 800 * k}, {"dust", 300 * k}, {"brw", 1500 * k}, {"reports", 300 * k},
				{"staking", 400 * k}, {"flips", 300 * k}, {"invitations", 300 * k}, {"flat", 200 * k}, {"mix", 300 * k}} {
				seed++
				cs := c04fnCase{Seed: seed, Kind: kc.kind, V9: v9, N: kc.n}
				if err := c04fnRun(c, cs); err != nil {
					return err
				}
				c.Rep.Evaluations += kc.n
				c.Sample(cs)
			}
		}
		return nil
	})
}

func min(a, b int) int {
	if a < b {
		return a
	}
	return b
}
