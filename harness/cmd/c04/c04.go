package main

// C04 (block / epoch level): no coins from nowhere.
// Channel "C04": real chain histories (chainfx: all ordinary tx kinds, conflicts, kills, delegations, validation
// ceremonies on a shrunk timeline, injected empty blocks, v12 and v9 consensus configs).  For EVERY block the whole real
// ledger is iterated before and after (Node.Ledger), the block's transactions alone are run on a check state with the
// real processTxs (ledger sum after them, totalFee, totalTips) and one op line goes to the Lean model's
// checkBlockBound, which recomputes the issuance bound of the block kind from its own constants.
// Independent Go oracle: negative components, growth above the bound of the kind, growth on an empty non-epoch block,
// a transaction segment that increases the total, epoch payouts above the epoch pool (measured through the stats
// collector hooks of the real code).
import (
	"encoding/json"
	"fmt"
	"math/big"
	"math/rand"
	"os"
	"strings"
	"time"

	"github.com/idena-network/idena-go/blockchain/attachments"
	"github.com/idena-network/idena-go/blockchain/fee"
	"github.com/idena-network/idena-go/blockchain/types"
	"github.com/idena-network/idena-go/common"
	"github.com/idena-network/idena-go/config"
	"github.com/idena-network/idena-go/core/appstate"
	"github.com/idena-network/idena-go/core/state"
	"github.com/idena-network/idena-go/stats/collector"
	"github.com/shopspring/decimal"

	"verifharness/internal/chainfx"
	"verifharness/internal/hx"
	"verifharness/internal/pairfx"
)

type c04case struct {
	Seed        int64   `json:"seed"`
	Blocks      int     `json:"blocks"`
	Users       int     `json:"users"`
	V9          bool    `json:"v9"`          // consensus config without upgrades 10-12
	EmptyEvery  int     `json:"emptyEvery"`  // an empty block instead of a proposal with probability 1/k (0 = never)
	Participate float64 `json:"participate"` // ceremony participation (negative: nobody, the validation fails)
	FailEpochs  int     `json:"failEpochs"`  // nobody takes part in the first k ceremonies (failed validations), then Participate applies
	Seasoned    bool    `json:"seasoned"`    // genesis identities have a validation history (they survive their first ceremonies)
	Contracts   bool    `json:"contracts"`   // real embedded contracts (TimeLock, Multisig: deploy, fund, transfers incl. to itself, terminate)
}

// c04coll observes what the real reward code reports to the stats collector (decomposition only; the verdicts use
// the ledger sums).
type c04coll struct {
	collector.StatsCollector
	phase       int // 0 none, 1 epoch rewards, 2 block rewards
	pool        *big.Int
	epochMinted *big.Int
	blockMinted *big.Int
	killedBurnt *big.Int
	penBurnt    *big.Int
	results     map[common.ShardId]*types.ValidationResults
}

func newC04coll() *c04coll {
	return &c04coll{StatsCollector: collector.NewStatsCollector(), epochMinted: new(big.Int), blockMinted: new(big.Int),
		killedBurnt: new(big.Int), penBurnt: new(big.Int)}
}
func (c *c04coll) SetTotalReward(a *big.Int) { c.pool = new(big.Int).Set(a); c.phase = 1 }
func (c *c04coll) SetValidationResults(r map[common.ShardId]*types.ValidationResults) {
	c.results = r
}
func (c *c04coll) BeginProposerRewardBalanceUpdate(a, b common.Address, p *big.Int, s *appstate.AppState) {
	c.phase = 2
}
func (c *c04coll) BeginCommitteeRewardBalanceUpdate(a, b common.Address, p *big.Int, s *appstate.AppState) {
	c.phase = 2
}
func (c *c04coll) AddMintedCoins(a *big.Int) {
	if a == nil {
		return
	}
	switch c.phase {
	case 1:
		c.epochMinted.Add(c.epochMinted, a)
	default:
		c.blockMinted.Add(c.blockMinted, a)
	}
}
func (c *c04coll) AddKilledBurntCoins(addr common.Address, a *big.Int) {
	if a != nil {
		c.killedBurnt.Add(c.killedBurnt, a)
	}
}
func (c *c04coll) AddPenaltyBurntCoins(addr common.Address, a *big.Int) {
	if a != nil {
		c.penBurnt.Add(c.penBurnt, a)
	}
}

func d32(x float32) string { return decimal.NewFromFloat32(x).String() }

func b01(b bool) string {
	if b {
		return "1"
	}
	return "0"
}

func c04cfgLine(cc *config.ConsensusConf) string {
	return strings.Join([]string{"cfg", cc.BlockReward.String(), cc.FinalCommitteeReward.String(), d32(cc.FeeBurnRate),
		d32(cc.StakeRewardRate), d32(cc.StakeRewardRateForNewbie), d32(cc.StakingRewardPercent), d32(cc.CandidateRewardPercent),
		d32(cc.FlipRewardBasicPercent), d32(cc.FlipRewardExtraPercent), d32(cc.FlipRewardPercent), d32(cc.ValidInvitationRewardPercent),
		d32(cc.ReportsRewardPercent), d32(cc.FoundationPayoutsPercent), d32(cc.ZeroWalletPercent), b01(cc.EnableUpgrade10), b01(cc.EnableUpgrade12)}, " ")
}

func c04v9(cfg *config.Config) {
	c := *config.GetDefaultConsensusConfig()
	c.Automine = true
	c.StatusSwitchRange = cfg.Consensus.StatusSwitchRange
	c.DelegationSwitchRange = cfg.Consensus.DelegationSwitchRange
	cfg.Consensus = &c
}

func negKind(desc string) string {
	if i := strings.IndexByte(desc, ' '); i > 0 {
		return desc[:i]
	}
	return desc
}

func c04run(c *hx.Ctx, cs c04case) error {
	r := rand.New(rand.NewSource(cs.Seed))
	w := chainfx.NewWorld(cs.Seed, cs.Users, 0, time.Date(2030, 1, 1, 0, 0, 0, 0, time.UTC))
	if cs.V9 {
		w.Opts.Tweak = c04v9
	}
	if cs.Seasoned {
		w.Seasoned()
	}
	h, err := chainfx.Bootstrap(w, chainfx.HistoryOpts{Blocks: cs.Blocks, ShortEpochs: true, WithFlips: true, TxPerBlock: 4, Participate: cs.Participate, Contracts: cs.Contracts, OnlineAtOnce: true, Always: map[int]bool{0: true}}, r, true)
	if err != nil {
		return err
	}
	defer os.RemoveAll("./testdata")
	defer os.RemoveAll("./testdata2")
	n := h.N
	pr := &pairfx.Pair{W: w, A: n, H: h, R: r}
	cc := n.Cfg.Consensus
	c.Line("new", "ok")
	c.Line(c04cfgLine(cc), "ok")
	full := new(big.Int).Add(cc.BlockReward, cc.FinalCommitteeReward)
	cur := cs.Blocks
	fail := func(sig, detail string) { // the replay is the history cut right after the failing block
		rc := cs
		rc.Blocks = cur
		c.Fail(sig, detail, rc)
	}
	maxExcess := c.Rep.Coverage["max_epoch_payouts_minus_pool"]
	// the epoch start the ORACLE uses: the height of the last validation-finishing block it saw itself (not the state's
	// EpochBlock / PrevEpochBlocks, which the code under test maintains)
	lastVF := n.App.State.EpochBlock()
	normalPart, normalAlways := h.O.Participate, h.O.Always
	for b := 1; b <= cs.Blocks; b++ {
		cur = b
		if cs.FailEpochs > 0 {
			if int(n.App.State.Epoch()) < cs.FailEpochs {
				h.O.Participate, h.O.Always = -1, map[int]bool{}
			} else {
				h.O.Participate, h.O.Always = normalPart, normalAlways
			}
		}
		h.OfferTxs(b)
		if r.Intn(3) == 0 {
			pr.OfferConflicts(b)
		}
		chainfx.Advance(h.O.BlockStep)
		if !n.IsEligibleProposer() {
			c.Hit("history-ended:proposer-not-eligible")
			break
		}
		before := n.Ledger()
		epochBlock := lastVF
		var blk *types.Block
		kind := "proposed"
		if cs.EmptyEvery > 0 && b > 2 && r.Intn(cs.EmptyEvery) == 0 {
			kind = "empty"
			func() {
				defer func() {
					if rec := recover(); rec != nil {
						err = fmt.Errorf("GenerateEmptyBlock panic: %v", rec)
					}
				}()
				blk = n.Chain.GenerateEmptyBlock()
			}()
		} else {
			var p *types.BlockProposal
			p, err = n.Propose()
			if err == nil {
				blk = p.Block
			}
		}
		if err != nil {
			fail("C04:history-broken", err.Error())
			return nil
		}
		// the block's transactions alone, on a check state, through the real processTxs
		afterTxs, totalFee, totalTips := before.Total, new(big.Int), new(big.Int)
		if !blk.IsEmpty() && len(blk.Body.Transactions) > 0 {
			chk, e := n.App.ForCheck(n.Chain.Head.Height())
			if e != nil {
				return e
			}
			var perr error
			func() {
				defer func() {
					if rec := recover(); rec != nil {
						perr = fmt.Errorf("processTxs panic: %v", rec)
					}
				}()
				totalFee, totalTips, _, _, perr = n.Chain.FxProcessTxs(chk, blk.Header, blk.Body.Transactions)
			}()
			if perr != nil {
				fail("C04:history-broken", "own block's transactions refused by processTxs: "+perr.Error())
				return nil
			}
			chk.Precommit()
			lt := chainfx.LedgerOf(chk.State)
			afterTxs = lt.Total
			for _, d := range lt.Negative {
				fail("C04:negative-component:"+negKind(d), fmt.Sprintf("after the transactions of block %d alone: %s", blk.Height(), d))
			}
		}
		fpgBefore, nsBefore := n.App.State.FeePerGas(), n.App.ValidatorsCache.NetworkSize()
		coll := newC04coll()
		if err := func() (err error) {
			defer func() {
				if rec := recover(); rec != nil {
					err = fmt.Errorf("addblock panic: %v", rec)
				}
			}()
			if err := n.Chain.AddBlock(blk, nil, coll); err != nil {
				return err
			}
			if n.VC != nil {
				n.VC.FxOnBlock(blk)
			}
			return nil
		}(); err != nil {
			fail("C04:history-broken", "own block rejected: "+err.Error())
			return nil
		}
		h.Height = int(blk.Height())
		after := n.Ledger()
		// the ordering the proofs rely on (LInv: locked <= replenished <= stake) on the real state
		n.App.State.IterateOverIdentities(func(a common.Address, id state.Identity) {
			z := func(x *big.Int) *big.Int {
				if x == nil {
					return new(big.Int)
				}
				return x
			}
			st, lk, rp := z(id.Stake), z(id.LockedStake()), z(id.ReplenishedStake())
			if lk.Cmp(rp) > 0 || rp.Cmp(st) > 0 {
				fail("C04:stake-parts-order", fmt.Sprintf("after block %d: identity %s stake %s replenished %s locked %s", blk.Height(), a.Hex(), st, rp, lk))
			}
			if rp.Sign() > 0 {
				c.Hit("identity-with-replenished-stake(block-samples)")
			}
			if lk.Sign() > 0 {
				c.Hit("identity-with-locked-stake(block-samples)")
			}
		})
		vf := blk.Header.Flags().HasFlag(types.ValidationFinished)
		epochLen := "-"
		bound := new(big.Int)
		if kind == "proposed" {
			bound.Add(bound, full)
		}
		if vf {
			el := blk.Height() - epochBlock
			epochLen = fmt.Sprint(el)
			bound.Add(bound, new(big.Int).Mul(full, new(big.Int).SetUint64(el)))
		}
		if vf {
			lastVF = blk.Height()
		}
		growth := new(big.Int).Sub(after.Total, before.Total)
		c.Line(fmt.Sprintf("blk %s %s %s %s %d %s %s %s", kind, before.Total, afterTxs, after.Total, len(after.Negative), totalFee, totalTips, epochLen),
			"ok growth="+growth.String())
		label := kind
		if vf {
			label += "-validation-finished"
		}
		c.Hit("block:" + label)
		if len(blk.Body.Transactions) > 0 {
			c.Hit("block-with-txs")
		}
		for _, tx := range blk.Body.Transactions {
			c.Hit(fmt.Sprintf("included-tx-type:%d", tx.Type))
			if tx.Type == types.DeployContractTx || tx.Type == types.CallContractTx || tx.Type == types.TerminateContractTx {
				if rc := n.Chain.GetReceipt(tx.Hash()); rc != nil {
					c.Hit(fmt.Sprintf("contract-receipt:type-%d:success=%v", tx.Type, rc.Success))
					// what the sender is charged (size fee + gas cost) stays within its max fee
					if gc := rc.GasCost; gc != nil {
						if paid := new(big.Int).Add(fee.CalculateFee(nsBefore, fpgBefore, tx), gc); paid.Cmp(tx.MaxFeeOrZero()) > 0 {
							fail("C04:charged-fee-exceeds-max-fee", fmt.Sprintf("block %d: tx %s (type %d) is charged %s (gas used %d, gas cost %s), its max fee is %s", blk.Height(), tx.Hash().Hex(), tx.Type, paid, rc.GasUsed, gc, tx.MaxFeeOrZero()))
						}
					}
					if a := attachments.ParseCallContractAttachment(tx); tx.Type == types.CallContractTx && a != nil {
						c.Hit(fmt.Sprintf("contract-call:%s:success=%v", a.Method, rc.Success))
					}
					if a := attachments.ParseDeployContractAttachment(tx); tx.Type == types.DeployContractTx && a != nil {
						c.Hit(fmt.Sprintf("contract-deploy:code-%x:wasm=%v:success=%v", a.CodeHash.Bytes()[31:], len(a.Code) > 0, rc.Success))
					}
				}
			}
		}
		c.Distinct(fmt.Sprintf("%d/%d", cs.Seed, blk.Height()))
		// independent oracle
		for _, d := range after.Negative {
			fail("C04:negative-component:"+negKind(d), fmt.Sprintf("after block %d (%s): %s", blk.Height(), label, d))
		}
		if growth.Cmp(bound) > 0 {
			// on a validation-finishing block an excess within float32 rounding of the category totals is the known finding
			sig := "C04:growth-exceeds-bound:" + label
			if vf && coll.pool != nil && new(big.Int).Sub(growth, bound).Cmp(c04roundingSlack(bound, 4096)) <= 0 {
				sig = "C04:epoch-payouts-exceed-pool"
			}
			fail(sig, fmt.Sprintf("block %d: total %s -> %s, growth %s > bound %s", blk.Height(), before.Total, after.Total, growth, bound))
		}
		if kind == "empty" && !vf && growth.Sign() > 0 {
			fail("C04:empty-block-grew", fmt.Sprintf("empty block %d: total %s -> %s", blk.Height(), before.Total, after.Total))
		}
		if afterTxs.Cmp(before.Total) > 0 {
			fail("C04:transactions-increased-total", fmt.Sprintf("block %d: %d txs alone take the total %s -> %s", blk.Height(), len(blk.Body.Transactions), before.Total, afterTxs))
		}
		if x := new(big.Int).Add(afterTxs, new(big.Int).Add(totalFee, totalTips)); x.Cmp(before.Total) > 0 {
			fail("C04:transactions-increased-total", fmt.Sprintf("block %d: total after txs %s + fee %s + tips %s > total before %s", blk.Height(), afterTxs, totalFee, totalTips, before.Total))
		}
		if coll.pool != nil {
			c.Hit("epoch-rewards-paid")
			obsPool := new(big.Int).Mul(full, new(big.Int).SetUint64(blk.Height()-epochBlock)) // pool of the OBSERVED epoch length
			ex := new(big.Int).Sub(coll.epochMinted, obsPool)
			if maxExcess == nil || ex.Cmp(maxExcess.(*big.Int)) > 0 {
				maxExcess = ex
			}
			if ex.Sign() > 0 {
				adds := after.Idents + 8
				for _, sr := range coll.results {
					for _, a := range sr.GoodAuthors {
						adds += 4 * len(a.FlipsToReward)
					}
					for _, iv := range sr.GoodInviters {
						adds += 2 * len(iv.SuccessfulInvites)
					}
				}
				detail := fmt.Sprintf("block %d: epoch payouts %s > pool %s of the observed epoch length %d (previous validation-finishing block seen at %d; %d float32 additions)", blk.Height(), coll.epochMinted, obsPool, blk.Height()-epochBlock, epochBlock, adds)
				if ex.Cmp(c04roundingSlack(obsPool, adds)) <= 0 {
					c.Hit("known-finding:epoch-payouts-exceed-pool")
					if c04known < 3 {
						c04known++
						fail("C04:epoch-payouts-exceed-pool", detail)
					}
				} else {
					fail("C04:epoch-payouts-exceed-pool-for-observed-epoch-length", detail)
				}
			}
			if vf && obsPool.Cmp(coll.pool) != 0 {
				sig := "C04:epoch-pool-formula"
				if coll.pool.Cmp(obsPool) > 0 {
					sig = "C04:epoch-pool-exceeds-observed-epoch-length"
				}
				fail(sig, fmt.Sprintf("block %d: the code's reward pool is %s, (BlockReward+FinalCommitteeReward)*%d = %s for the epoch since the validation-finishing block seen at %d", blk.Height(), coll.pool, blk.Height()-epochBlock, obsPool, epochBlock))
			}
			for _, sr := range coll.results {
				if len(sr.GoodAuthors) > 0 {
					c.Hit("epoch:good-authors")
				}
				if len(sr.ReportersToRewardByFlip) > 0 {
					c.Hit("epoch:reporters")
				}
				if len(sr.GoodInviters) > 0 {
					c.Hit("epoch:good-inviters")
				}
				if len(sr.BadAuthors) > 0 {
					c.Hit("epoch:bad-authors")
				}
			}
		} else if vf {
			c.Hit("epoch-without-rewards(failed-validation)")
		}
		if coll.killedBurnt.Sign() > 0 {
			c.Hit("burn:killed-at-validation")
		}
		if coll.penBurnt.Sign() > 0 {
			c.Hit("burn:penalty")
		}
		if growth.Sign() < 0 {
			c.Hit("block-total-decreased")
		}
	}
	if maxExcess != nil {
		c.Rep.Coverage["max_epoch_payouts_minus_pool"] = maxExcess
	}
	for k, v := range h.Stats {
		for i := 0; i < v; i++ {
			c.Hit(k)
		}
	}
	c.Rep.Coverage["last_height"] = n.Chain.Head.Height()
	c.Rep.Coverage["last_epoch"] = n.App.State.Epoch()
	return nil
}

func c04replay(c *hx.Ctx, into interface{}) error {
	b, err := os.ReadFile(c.Replay)
	if err != nil {
		return err
	}
	return json.Unmarshal(b, into)
}

func init() {
	hx.Register("C04", func(c *hx.Ctx) error {
		if c.Replay != "" {
			var wrap struct {
				Replay c04case `json:"replay"`
			}
			if err := c04replay(c, &wrap); err != nil {
				return err
			}
			c.Rep.Evaluations = 1
			return c04run(c, wrap.Replay)
		}
		c.Rep.Rule = "real chain histories (god + 8..11 users, all ordinary tx kinds, real embedded contracts through the real VM in 2 of 3 histories (TimeLock / Multisig deploy, fund, transfer and push to the contract itself / the caller / another contract / users / fresh / zero address with part / all / more than the balance, strangers, locked, unknown methods, paid calls, terminate), conflict bundles, flips, validation ceremonies on a shrunk timeline => several validation-finishing blocks, injected empty blocks, failed validations, consensus v12 and v9); after every block: full iteration of the real ledger before/after, the block's txs alone through processTxs on a check state; distinct = blocks (seed/height)"
		nh := c.Scale(18, 400)
		for i := 0; i < nh; i++ {
			cs := c04case{Seed: c.Seed*1000 + int64(i), Blocks: 240, Users: 8 + i%4, V9: i%4 == 3, Participate: 0.75, Contracts: i%3 != 2, Seasoned: i%6 != 5}
			if i%4 == 1 {
				cs.FailEpochs = 1 + i%8/5 // a failed validation (nobody takes part), then successful ones
			}
			if i%2 == 1 {
				cs.EmptyEvery = 6
			}
			if i%8 == 5 {
				cs.Participate = -1
			}
			if err := c04run(c, cs); err != nil {
				return err
			}
			c.Rep.Evaluations++
			c.Sample(cs)
		}
		return nil
	})
}
