package main

// Channel C04tx: the per-transaction correspondence D-tx (harness/internal/dtx, lines answered by the M-Ledger
// driver oracle_c05) with the transaction-level C04 oracle counted as failures of property C04:
// after a transaction that ValidateTx (in-block) accepted and applyTxOnState applied, on a state whose components
// were all non-negative, no component is negative (C04:negative-component:<component>:tx) and the total of all
// balances, stakes and contract stakes has not grown (C04:transactions-increased-total:tx).
import (
	"verifharness/internal/dtx"
	"verifharness/internal/hx"
)

func init() {
	hx.Register("C04tx", func(c *hx.Ctx) error { return dtx.Run(c, "C04") })
}
