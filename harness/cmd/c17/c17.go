package main

// C17 — validation outcomes follow the published rules and depend only on on-chain data.
//
// Three generators feed one channel (op lines for the Lean driver `oracle_c17`, see lean/IdenaModel/Drivers/C17.lean):
//   c17_table.go     Part A: exhaustive grid over the real determineNewIdentityState / determineIdentityBirthday
//   c17_store.go     Part B: random histories of the real answer store (qualification over a real EpochDb)
//   c17_ceremony.go  Part C: mini-ceremonies on a real ValidationCeremony (arrival orders, restart, cache, reorg)
// Each has its own independent Go oracle; failures carry a replay case {"kind": "dec"|"store"|"cer", ...}.
import (
	"encoding/json"
	"fmt"
	"os"

	"verifharness/internal/hx"
)

type c17case struct {
	Kind  string    `json:"kind"`
	Dec   *c17dec   `json:"dec,omitempty"`
	Store *c17store `json:"store,omitempty"`
	Cer   *c17cer   `json:"cer,omitempty"`
}

func init() {
	hx.Register("C17", func(c *hx.Ctx) error {
		if c.Replay != "" {
			b, err := os.ReadFile(c.Replay)
			if err != nil {
				return err
			}
			var wrap struct {
				Replay c17case `json:"replay"`
			}
			if err := json.Unmarshal(b, &wrap); err != nil {
				return err
			}
			c.Rep.Evaluations = 1
			switch wrap.Replay.Kind {
			case "dec":
				c.Line("new table", "ok")
				c17emitDec(c, *wrap.Replay.Dec)
			case "store":
				c17emitStore(c, *wrap.Replay.Store)
			case "cer":
				return c17emitCer(c, *wrap.Replay.Cer)
			default:
				return fmt.Errorf("unknown replay kind %q", wrap.Replay.Kind)
			}
			return nil
		}
		c.Rep.Rule = "A: full product (11 prior statuses incl. codes 9 and 200) x (6 flags) x (flips done / none required / missing) x (9 short-score classes x 2 long x 3 total, representative drawn per line among exact / just below / just above / +-1 ulp / NaN / Inf) x (total qualified flips 0,1,2,12,13,23,24) on the real determineNewIdentityState+determineIdentityBirthday; " +
			"B: random histories (add/remove/persist/restore/new process, crash before persist, reorg) of the real answer store over a real EpochDb; " +
			"C: mini-ceremonies on a real ValidationCeremony: arrival orders, restart between phases, first vs cached evaluation, reorg through the real BlockchainResetEvent handler; " +
			"distinct = distinct op lines (A) / distinct histories (B, C)"
		c17table(c)
		c17stores(c)
		return c17ceremonies(c)
	})
}
