package main

// Part A: the decision table, on the real function through the export shim.
import (
	"fmt"
	"math"

	"github.com/idena-network/idena-go/common"
	"github.com/idena-network/idena-go/core/ceremony"
	"github.com/idena-network/idena-go/core/state"

	"verifharness/internal/hx"
)

// one score argument: a ratio (short/long: (Num/2)/Den as the code divides points by the qualified count;
// total: Num/Den) or a raw float32 bit pattern (Raw=true; Den then only carries the qualified count for short scores)
type c17score struct {
	Raw  bool   `json:"raw,omitempty"`
	Num  uint32 `json:"num"`
	Den  uint32 `json:"den"`
	Bits uint32 `json:"bits,omitempty"`
}

type c17dec struct {
	Prev       uint8    `json:"prev"`
	Flips      int      `json:"flips"`
	Required   uint8    `json:"required"`
	Epoch      uint16   `json:"epoch"`
	Birthday   uint16   `json:"birthday"`
	Missed     bool     `json:"missed"`
	NoQualS    bool     `json:"noQualShort"`
	NoQualL    bool     `json:"nonQualLong"`
	Fix        bool     `json:"fix93"`
	U10        bool     `json:"u10"`
	U12        bool     `json:"u12"`
	TotalFlips uint32   `json:"totalFlips"`
	ShortCnt   uint32   `json:"shortCnt"`
	Short      c17score `json:"short"`
	Long       c17score `json:"long"`
	Total      c17score `json:"total"`
}

func (s c17score) value(half bool) float32 {
	if s.Raw {
		return math.Float32frombits(s.Bits)
	}
	if half {
		if s.Den == 0 {
			return 0 // ceremony.go:1135/1141: no division when nothing was qualified
		}
		return float32(s.Num) / 2 / float32(s.Den)
	}
	return float32(s.Num) / float32(s.Den)
}

func (s c17score) tok(tag string, half bool) string {
	k := "r"
	if s.Raw {
		k = "x"
	}
	return fmt.Sprintf("%s:%s:%d:%d:%d", tag, k, s.Num, s.Den, math.Float32bits(s.value(half)))
}

func b01(b bool) string {
	if b {
		return "1"
	}
	return "0"
}

func (d c17dec) line() string {
	s, l, t := d.Short.value(true), d.Long.value(true), d.Total.value(false)
	// the comparisons exactly as determineNewIdentityState writes them (float32 against the untyped constants)
	flags := b01(s >= common.MinShortScore) + b01(s > 0) + b01(l >= common.MinLongScore) + b01(t >= common.MinTotalScore) + b01(t >= common.MinHumanTotalScore)
	return fmt.Sprintf("dec %d %d %d %d %d %s %s %s %s %s %s %d %d %s %s %s b:%s", d.Prev, d.Flips, d.Required, d.Epoch, d.Birthday,
		b01(d.Missed), b01(d.NoQualS), b01(d.NoQualL), b01(d.Fix), b01(d.U10), b01(d.U12), d.TotalFlips, d.ShortCnt,
		d.Short.tok("s", true), d.Long.tok("l", true), d.Total.tok("t", false), flags)
}

func (d c17dec) run() (ns state.IdentityState, bd uint16, panicked bool) {
	defer func() {
		if r := recover(); r != nil {
			panicked = true
		}
	}()
	id := state.Identity{State: state.IdentityState(d.Prev), RequiredFlips: d.Required, Birthday: d.Birthday}
	if d.Flips > 0 {
		id.Flips = make([]state.IdentityFlip, d.Flips)
	}
	ns = ceremony.VerifC17Decide(id, d.Short.value(true), d.Long.value(true), d.Total.value(false), d.TotalFlips,
		d.Missed, d.NoQualS, d.NoQualL, d.Fix, d.U10, d.ShortCnt, d.U12)
	bd = ceremony.VerifC17Birthday(d.Epoch, id, ns)
	return
}

func validatedState(s state.IdentityState) bool {
	return s == state.Newbie || s == state.Verified || s == state.Human
}

// c17rules: the three rules of the property statement, judged on one outcome ("" = fine)
func c17rules(prev, ns state.IdentityState, doneFlips, missed bool) (sig, detail string) {
	if ns > state.Human {
		return "C17:decision-not-a-status", fmt.Sprintf("new status code %d", ns)
	}
	if (missed || !doneFlips) && validatedState(ns) {
		return "C17:missed-or-noflips-validated", fmt.Sprintf("prev=%d missed=%v doneFlips=%v -> %d", prev, missed, doneFlips, ns)
	}
	if prev == state.Invite && ns != state.Killed {
		return "C17:invite-not-terminated", fmt.Sprintf("Invite -> %d", ns)
	}
	if prev == state.Killed && ns != state.Killed {
		return "C17:dead-came-back", fmt.Sprintf("Killed -> %d", ns)
	}
	if prev == state.Undefined && ns != state.Undefined && ns != state.Killed {
		return "C17:dead-came-back", fmt.Sprintf("Undefined -> %d", ns)
	}
	return "", ""
}

// c17published: the published thresholds (short 0.6, long 0.75, total 0.75, human total 0.92, 13 / 24 qualified flips),
// judged with exact integer arithmetic on the ratios — independent of the float comparisons and of common.Min*.
// Only consequences proved in Lean (promotion_needs_scores, staying_validated_needs_scores) are demanded.
func c17published(d c17dec, ns state.IdentityState) string {
	if d.Short.Raw || d.Long.Raw || d.Total.Raw || d.Total.Den == 0 {
		return ""
	}
	sGe := d.Short.Den > 0 && 5*d.Short.Num >= 6*d.Short.Den
	sPos := d.Short.Den > 0 && d.Short.Num > 0
	lGe := d.Long.Den > 0 && 2*d.Long.Num >= 3*d.Long.Den
	tGe := 4*d.Total.Num >= 3*d.Total.Den
	hGe := 25*d.Total.Num >= 23*d.Total.Den
	shortOK := sGe
	if d.U12 {
		switch d.ShortCnt {
		case 1:
			shortOK = true
		case 2:
			shortOK = sPos
		}
	}
	prev := state.IdentityState(d.Prev)
	switch {
	case ns == state.Human && prev != state.Human && !(d.TotalFlips >= 24 && hGe):
		return fmt.Sprintf("%d -> Human with %d qualified flips, total %d/%d", prev, d.TotalFlips, d.Total.Num, d.Total.Den)
	case prev == state.Newbie && ns == state.Verified && !(d.TotalFlips >= 13 && tGe && shortOK && lGe):
		return fmt.Sprintf("Newbie -> Verified with %d flips, total %d/%d, short %d/2/%d (cnt %d), long %d/2/%d", d.TotalFlips, d.Total.Num, d.Total.Den, d.Short.Num, d.Short.Den, d.ShortCnt, d.Long.Num, d.Long.Den)
	case prev == state.Candidate && ns == state.Newbie && !d.NoQualS && !d.NoQualL && !(shortOK && lGe):
		return fmt.Sprintf("Candidate -> Newbie with short %d/2/%d (cnt %d), long %d/2/%d", d.Short.Num, d.Short.Den, d.ShortCnt, d.Long.Num, d.Long.Den)
	case prev == state.Human && ns == state.Human && !d.NoQualS && !(hGe && shortOK):
		return fmt.Sprintf("Human stays Human with total %d/%d, short %d/2/%d (cnt %d)", d.Total.Num, d.Total.Den, d.Short.Num, d.Short.Den, d.ShortCnt)
	case prev == state.Verified && validatedState(ns) && !d.NoQualS && !(tGe && shortOK):
		return fmt.Sprintf("Verified stays validated with total %d/%d, short %d/2/%d (cnt %d)", d.Total.Num, d.Total.Den, d.Short.Num, d.Short.Den, d.ShortCnt)
	}
	// the converse (passing_scores_keep_status): meeting the thresholds is enough
	done := uint8(d.Flips) >= d.Required
	if done && !d.Missed && shortOK && lGe {
		bad := false
		switch prev {
		case state.Candidate:
			bad = ns != state.Newbie && ns != state.Candidate
		case state.Newbie:
			bad = (d.TotalFlips < 13 || tGe) && ns != state.Newbie && ns != state.Verified
		case state.Verified:
			bad = d.TotalFlips >= 13 && tGe && !validatedState(ns)
		case state.Human:
			bad = hGe && ns != state.Human
		case state.Suspended, state.Zombie:
			bad = tGe && ns == state.Killed
		}
		if bad {
			return fmt.Sprintf("meets the published thresholds (flips %d, total %d/%d, short %d/2/%d cnt %d, long %d/2/%d) but %d -> %d",
				d.TotalFlips, d.Total.Num, d.Total.Den, d.Short.Num, d.Short.Den, d.ShortCnt, d.Long.Num, d.Long.Den, prev, ns)
		}
	}
	return ""
}

func c17emitDec(c *hx.Ctx, d c17dec) {
	ns, bd, p := d.run()
	if p {
		c.Line(d.line(), "panic")
		c.Fail("C17:decision-panic", "determineNewIdentityState panicked", c17case{Kind: "dec", Dec: &d})
		return
	}
	c.Line(d.line(), fmt.Sprintf("%d %d", ns, bd))
	done := uint8(d.Flips) >= d.Required
	if sig, det := c17rules(state.IdentityState(d.Prev), ns, done, d.Missed); sig != "" {
		c.Fail(sig, det, c17case{Kind: "dec", Dec: &d})
	} else if det := c17published(d, ns); det != "" {
		c.Fail("C17:status-below-published-threshold", det, c17case{Kind: "dec", Dec: &d})
	}
	if d.Prev > 8 {
		c.Hit(fmt.Sprintf("dec:other->%d", ns))
	} else {
		c.Hit(fmt.Sprintf("dec:%d->%d", d.Prev, ns))
	}
	if c.Distinct(d.line()) {
		c.Rep.Distinct++
	}
}

func rs(num, den uint32) c17score         { return c17score{Num: num, Den: den} }
func xs(bits uint32, cnt uint32) c17score { return c17score{Raw: true, Den: cnt, Bits: bits} }

const (
	bits06   = 0x3F19999A // float32(0.6)
	bits075  = 0x3F400000
	bits092  = 0x3F6B851F
	bitsNaN  = 0x7FC00000
	bitsPInf = 0x7F800000
)

// classes of score arguments; within a class every representative has the same comparison outcomes
var c17shortClasses = [][]c17score{
	{rs(0, 0)},                     // nothing qualified: score 0, count 0
	{rs(0, 6), rs(0, 5), rs(0, 3)}, // zero with qualified flips
	{rs(1, 6), rs(11, 10), rs(7, 6), rs(5, 5), xs(bits06-1, 6), xs(1, 6)},                 // 0 < s < 0.6 (… one ulp below, smallest subnormal)
	{rs(6, 5), rs(12, 10), rs(5, 4), rs(12, 6), rs(9, 6), xs(bits06, 5), xs(bits06+1, 6)}, // s >= 0.6 (exact, one ulp above)
	{rs(0, 1), rs(1, 1)}, // one qualified flip, below 0.6
	{rs(2, 1)},           // one qualified flip, 1.0
	{rs(0, 2)},           // two qualified flips, zero
	{rs(1, 2), rs(2, 2)}, // two qualified flips, positive below 0.6
	{rs(3, 2), rs(4, 2)}, // two qualified flips, >= 0.6
}
var c17longClasses = [][]c17score{
	{rs(0, 0), rs(0, 4), rs(7, 5), rs(29, 20), rs(5, 4), xs(bits075-1, 10)},
	{rs(6, 4), rs(3, 2), rs(8, 5), rs(2, 1), rs(30, 20), xs(bits075, 10), xs(bits075+1, 10)},
}
var c17totalClasses = [][]c17score{
	{xs(bitsNaN, 0), rs(0, 1), rs(37, 50), rs(3, 5), rs(74, 100), xs(bits075-1, 0), xs(0, 0)},
	{rs(3, 4), rs(9, 10), rs(91, 100), rs(75, 100), rs(18, 24), xs(bits092-1, 0), xs(bits075, 0)},
	{rs(23, 25), rs(93, 100), rs(1, 1), rs(92, 100), rs(46, 50), xs(bits092, 0), xs(bits092+1, 0), xs(bitsPInf, 0)},
}

var c17prevs = []uint8{0, 1, 2, 3, 4, 5, 6, 7, 8, 9, 200}
var c17totalFlips = []uint32{0, 1, 2, 12, 13, 23, 24}

func c17table(c *hx.Ctx) {
	c.Line("new table", "ok")
	passes := 1 // the grid is a full product; further passes only draw other representatives of the score classes
	if c.Tier == "thorough" {
		passes = 4
	}
	pick := func(cl []c17score) c17score { return cl[c.Rng.Intn(len(cl))] }
	type fr struct {
		flips    int
		required uint8
		tf       []uint32
	}
	frs := []fr{{3, 3, c17totalFlips}, {0, 0, []uint32{12, 24}}, {2, 3, []uint32{13, 23}}}
	if c.Tier == "thorough" {
		frs = append(frs, fr{256, 1, []uint32{24}}, fr{5, 3, []uint32{0, 13}}) // len(Flips) is truncated to uint8 by the code
	}
	n := 0
	for pass := 0; pass < passes; pass++ {
		for _, prev := range c17prevs {
			for flags := 0; flags < 64; flags++ {
				for _, f := range frs {
					for _, sc := range c17shortClasses {
						for _, lc := range c17longClasses {
							for _, tc := range c17totalClasses {
								for _, tf := range f.tf {
									s := pick(sc)
									d := c17dec{Prev: prev, Flips: f.flips, Required: f.required,
										Epoch: uint16(90 + c.Rng.Intn(8)), Birthday: uint16(c.Rng.Intn(90)),
										Missed: flags&1 != 0, NoQualS: flags&2 != 0, NoQualL: flags&4 != 0,
										Fix: flags&8 != 0, U10: flags&16 != 0, U12: flags&32 != 0,
										TotalFlips: tf, ShortCnt: s.Den, Short: s, Long: pick(lc), Total: pick(tc)}
									c17emitDec(c, d)
									n++
									if n <= 2 {
										c.Sample(c17case{Kind: "dec", Dec: &d})
									}
								}
							}
						}
					}
				}
			}
		}
	}
	// decoupled short count: the function takes the count as its own argument
	tail := 20000
	if c.Tier == "thorough" {
		tail = 200000
	}
	for i := 0; i < tail; i++ {
		s := pick(c17shortClasses[c.Rng.Intn(len(c17shortClasses))])
		flags := c.Rng.Intn(64)
		d := c17dec{Prev: c17prevs[c.Rng.Intn(len(c17prevs))], Flips: 3, Required: 3, Epoch: uint16(c.Rng.Intn(200)), Birthday: uint16(c.Rng.Intn(200)),
			Missed: flags&1 != 0 && c.Rng.Intn(3) == 0, NoQualS: flags&2 != 0, NoQualL: flags&4 != 0, Fix: flags&8 != 0, U10: flags&16 != 0, U12: flags&32 != 0,
			TotalFlips: c17totalFlips[c.Rng.Intn(len(c17totalFlips))], ShortCnt: uint32(c.Rng.Intn(4)), Short: s,
			Long: pick(c17longClasses[c.Rng.Intn(2)]), Total: pick(c17totalClasses[c.Rng.Intn(3)])}
		if c.Rng.Intn(8) == 0 {
			d.Prev = uint8(c.Rng.Intn(256))
		}
		c17emitDec(c, d)
		n++
	}
	c.Rep.Evaluations += n
}
