package main

// Part C: mini-ceremonies on a real ValidationCeremony (real constructor + real Initialize through the shim).
//
// A case = a pre-state (identities), the ceremony submissions of every identity (answers hash, short answers, long
// answers, evidence map — real signed transactions), and a script a node X lives through: blocks in some arrival
// order, crashes before persist, restarts (new instance over the same database), evaluations (twice = cache hit),
// chain resets through the REAL BlockchainResetEvent handler, blocks of the other branch.
// For every evaluation of X the reference is a clean node (fresh database, never restarted, no cache) that received
// the transactions of X's current chain in canonical order in one go.
// Oracle: result (failed flag, validated count, every identity's new status and birthday, post-state root) of X ==
// reference; the three rules on every identity of every result.
import (
	"bytes"
	"crypto/ecdsa"
	"crypto/sha256"
	"encoding/binary"
	"encoding/json"
	"fmt"
	"math/big"
	"sort"
	"strings"
	"time"

	"github.com/idena-network/idena-go/blockchain"
	"github.com/idena-network/idena-go/blockchain/attachments"
	"github.com/idena-network/idena-go/blockchain/types"
	"github.com/idena-network/idena-go/common"
	"github.com/idena-network/idena-go/common/eventbus"
	"github.com/idena-network/idena-go/config"
	"github.com/idena-network/idena-go/core/appstate"
	"github.com/idena-network/idena-go/core/ceremony"
	"github.com/idena-network/idena-go/core/mempool"
	"github.com/idena-network/idena-go/core/state"
	"github.com/idena-network/idena-go/crypto"
	"github.com/idena-network/idena-go/database"
	"github.com/idena-network/idena-go/events"
	"github.com/idena-network/idena-go/secstore"
	dbm "github.com/tendermint/tm-db"

	"verifharness/internal/hx"
)

type c17ident struct {
	State     uint8  `json:"state"`
	Birthday  uint16 `json:"birthday"`
	Required  uint8  `json:"required"`
	Flips     int    `json:"flips"`
	Scores    []byte `json:"scores,omitempty"`
	Stake     int64  `json:"stake"`
	Shard     int    `json:"shard,omitempty"` // 1..Shards (0 = 1)
	Delegatee int    `json:"delegatee"`       // -1 = none; never a delegation chain (finding F8 belongs to C01)
	Inviter   int    `json:"inviter"`         // -1 = none
}

// what one identity submits
type c17sub struct {
	Hash      bool   `json:"hash"`                // SubmitAnswersHashTx
	BadHash   bool   `json:"badHash,omitempty"`   // … whose hash does not match the short answers
	Short     string `json:"short,omitempty"`     // "" none | "ok" | "garbage"
	Long      string `json:"long,omitempty"`      // "" none | "ok" | "garbage" | "badrnd" | "empty"
	Accuracy  int    `json:"accuracy,omitempty"`  // % of flips answered like the majority
	Reports   int    `json:"reports,omitempty"`   // % of long flips reported
	NoApprove bool   `json:"noApprove,omitempty"` // gives no approving grade to the flips it does not report
	Evidence  []int  `json:"evidence,omitempty"`  // nil = no EvidenceTx; else the identities it approves
	HasEvi    bool   `json:"hasEvi,omitempty"`
}

type c17step struct {
	Op   string `json:"op"`             // prelude block crash restart eval eval2 reset finish rollback upgrade
	Ver  int    `json:"ver,omitempty"`  // upgrade: consensus version activated in place on the shared config (10, 11, 12)
	Kill int    `json:"kill,omitempty"` // prelude: the identity that the abandoned lottery branch had killed
	Txs  []int  `json:"txs,omitempty"`  // block/crash: indexes into the case's transaction list
	Keep int    `json:"keep,omitempty"` // reset: number of blocks kept
}

type c17cer struct {
	Seed   int64  `json:"seed"`
	Epoch  uint16 `json:"epoch"`
	U10    bool   `json:"u10"`
	U11    bool   `json:"u11"`
	U12    bool   `json:"u12"`
	Shards int    `json:"shards,omitempty"` // number of shards (0 = 1)
	// Full: every collaborator of the ceremony is real (flipper, key pool, tx pool, chain), the state is inside the
	// after-long-session period, blocks go through the real addBlock, candidates through the real
	// calculateCeremonyCandidates; needed for the epoch switch ("finish") and the rollback over it ("rollback")
	Full   bool       `json:"full,omitempty"`
	Ids    []c17ident `json:"ids"`
	Subs   []c17sub   `json:"subs"`
	Script []c17step  `json:"script"`
}

// ---------------------------------------------------------------- fixture

type c17fx struct {
	cs       c17cer
	cfg      *config.Config
	keys     []*ecdsa.PrivateKey
	addrs    []common.Address
	idOf     map[common.Address]int
	app      *appstate.AppState
	ss       *secstore.SecStore
	seed     []byte
	cands    map[int][]common.Address // per shard, candidate order
	candIdx  map[int]int              // identity -> candidate index inside its shard
	shardOf  []int                    // identity -> shard
	txs      []*types.Transaction
	txKind   []uint16
	txOwner  []int
	baseH    uint64
	refCache map[string]*c17result
	cfgVer   int // bumped by every in-place consensus upgrade
}

func c17key(seed int64, i int) *ecdsa.PrivateKey {
	var b [16]byte
	binary.BigEndian.PutUint64(b[:8], uint64(seed))
	binary.BigEndian.PutUint64(b[8:], uint64(i))
	h := crypto.Hash(b[:])
	k, err := crypto.ToECDSA(h[:])
	if err != nil {
		panic(err)
	}
	return k
}

func dna(n int64) *big.Int { return new(big.Int).Mul(big.NewInt(n), common.DnaBase) }

func c17newFx(cs c17cer) (fx *c17fx, err error) {
	defer func() {
		if r := recover(); r != nil {
			err = fmt.Errorf("fixture panic: %v", r)
		}
	}()
	// Every ceremony runs on the full fixture: the state is inside a ceremony period at every height a script can reset
	// to, as on a real chain (a state in NonePeriod while candidates exist made the reset handler of /repo 5deb1a6c drop
	// them — correctly for a real chain, where that means the flip-lottery block was reverted; false alarm of round 3).
	cs.Full = true
	fx = &c17fx{cs: cs, idOf: map[common.Address]int{}, candIdx: map[int]int{}, cands: map[int][]common.Address{}, baseH: 1, refCache: map[string]*c17result{}}
	nShards := cs.Shards
	if nShards < 1 {
		nShards = 1
	}
	for _, id := range cs.Ids {
		sh := id.Shard
		if sh < 1 || sh > nShards {
			sh = 1
		}
		fx.shardOf = append(fx.shardOf, sh)
	}
	cons := *config.GetDefaultConsensusConfig()
	if cs.U10 {
		config.ApplyConsensusVersion(config.ConsensusV10, &cons)
	}
	if cs.U11 {
		config.ApplyConsensusVersion(config.ConsensusV11, &cons)
	}
	if cs.U12 {
		config.ApplyConsensusVersion(config.ConsensusV12, &cons)
	}
	fx.cfg = &config.Config{Consensus: &cons, Validation: &config.ValidationConfig{}, Sync: &config.SyncConfig{},
		Blockchain: &config.BlockchainConfig{}, Mempool: config.GetDefaultMempoolConfig()}
	for i := range cs.Ids {
		k := c17key(cs.Seed, i)
		fx.keys = append(fx.keys, k)
		a := crypto.PubkeyToAddress(k.PublicKey)
		fx.addrs = append(fx.addrs, a)
		fx.idOf[a] = i
	}
	godKey := c17key(cs.Seed, 1000000)
	god := crypto.PubkeyToAddress(godKey.PublicKey)
	fx.ss = secstore.NewSecStore()
	fx.ss.AddKey(crypto.FromECDSA(godKey))
	db := dbm.NewMemDB()
	app, e := appstate.NewAppState(db, eventbus.New())
	if e != nil {
		return nil, e
	}
	if e := app.Initialize(0); e != nil {
		return nil, e
	}
	st := app.State
	st.SetGodAddress(god)
	st.SetGlobalEpoch(cs.Epoch)
	st.SetNextValidationTime(time.Unix(4070908800, 0))
	if cs.Full {
		st.SetNextValidationTime(time.Now().UTC().Add(-2 * time.Hour))
		st.SetValidationPeriod(state.AfterLongSessionPeriod)
	}
	if nShards > 1 {
		st.SetShardsNum(uint32(nShards))
	}
	for i, id := range cs.Ids {
		a := fx.addrs[i]
		st.SetState(a, state.IdentityState(id.State))
		if nShards > 1 {
			st.SetShardId(a, common.ShardId(fx.shardOf[i]))
		}
		st.SetBirthday(a, id.Birthday)
		st.SetRequiredFlips(a, id.Required)
		st.SetPubKey(a, crypto.FromECDSAPub(&fx.keys[i].PublicKey))
		for f := 0; f < id.Flips; f++ {
			st.AddFlip(a, []byte{0x01, 0x55, byte(i), byte(f), 0xF1}, uint8(f))
		}
		for _, sc := range id.Scores {
			st.AddNewScore(a, sc)
		}
		if id.Stake > 0 {
			st.AddStake(a, dna(id.Stake))
		}
		st.SetBalance(a, dna(10))
		if id.Delegatee >= 0 {
			st.SetDelegatee(a, fx.addrs[id.Delegatee])
		}
		if id.Inviter >= 0 {
			st.SetInviter(a, fx.addrs[id.Inviter], common.Hash{byte(i)}, 5)
		}
		s := state.IdentityState(id.State)
		if s == state.Newbie || s == state.Verified || s == state.Human {
			app.IdentityState.SetValidated(a, true)
		}
	}
	if e := app.Commit(nil); e != nil {
		return nil, e
	}
	if e := app.Initialize(1); e != nil {
		return nil, e
	}
	_ = app.State.ValidationPeriod() // materialise the lazily cached global object before background readers exist
	fx.app = app
	sh := crypto.Hash([]byte(fmt.Sprintf("lottery-%d", cs.Seed)))
	fx.seed = sh[:]
	// a scratch instance tells the candidate order and the flips every candidate has to solve
	scratch := fx.newNode(dbm.NewMemDB(), false)
	for sh := 1; sh <= nShards; sh++ {
		fx.cands[sh] = scratch.vc.VerifC17Candidates(common.ShardId(sh))
		for ci, a := range fx.cands[sh] {
			if fx.shardOf[fx.idOf[a]] != sh {
				return nil, fmt.Errorf("identity %d found in shard %d, expected %d", fx.idOf[a], sh, fx.shardOf[fx.idOf[a]])
			}
			fx.candIdx[fx.idOf[a]] = ci
		}
	}
	fx.buildTxs(scratch.vc)
	return fx, nil
}

type c17node struct {
	vc  *ceremony.ValidationCeremony
	bus eventbus.Bus
	db  dbm.DB
}

var c17chainOnce struct {
	chain *blockchain.Blockchain
	pool  *mempool.TxPool
}

// one real (test) blockchain + tx pool serve every full fixture: the ceremony only asks them for the head time and
// the validation configuration (shouldInteractWithNetwork)
func c17chain() (*blockchain.Blockchain, *mempool.TxPool) {
	if c17chainOnce.chain == nil {
		tc, _, pool, _ := blockchain.NewTestBlockchain(false, nil)
		tc.Config().Sync = &config.SyncConfig{}
		c17chainOnce.chain, c17chainOnce.pool = tc.Blockchain, pool
	}
	return c17chainOnce.chain, c17chainOnce.pool
}

func (fx *c17fx) newNode(db dbm.DB, restore bool) *c17node {
	bus := eventbus.New()
	if fx.cs.Full {
		chain, pool := c17chain()
		vc := ceremony.VerifC17NewFullCeremony(fx.app, bus, db, fx.cfg, fx.ss, chain, pool, fx.seed, restore)
		return &c17node{vc: vc, bus: bus, db: db}
	}
	vc := ceremony.VerifC17NewCeremony(fx.app, bus, db, fx.cfg, fx.ss, fx.seed, restore)
	return &c17node{vc: vc, bus: bus, db: db}
}

// processBlock: a block of the ceremony reaches the node (full fixture: the real addBlock)
func (fx *c17fx) processBlock(n *c17node, height uint64, txs []*types.Transaction) {
	if fx.cs.Full {
		n.vc.VerifC17AddBlock(height, 0, txs)
		return
	}
	n.vc.VerifC17ProcessBlock(txs)
}

// majority answer of a flip (what an honest solver sees)
func c17truth(seed int64, shard, flipIdx int) bool {
	h := crypto.Hash([]byte(fmt.Sprintf("truth-%d-%d-%d", seed, shard, flipIdx)))
	return h[0]&1 == 0
}

func (fx *c17fx) sign(i int, typ uint16, nonce uint32, payload []byte) *types.Transaction {
	tx := &types.Transaction{Type: typ, AccountNonce: nonce, Epoch: fx.cs.Epoch, Payload: payload}
	stx, err := types.SignTx(tx, fx.keys[i])
	if err != nil {
		panic(err)
	}
	return stx
}

func (fx *c17fx) buildTxs(vc *ceremony.ValidationCeremony) {
	for i, sub := range fx.cs.Subs {
		ci, isCand := fx.candIdx[i]
		var shortToSolve, longToSolve []int
		if isCand {
			shortToSolve, longToSolve, _ = vc.VerifC17FlipsToSolve(common.ShardId(fx.shardOf[i]), ci)
		}
		pick := func(tag string, j int, pct int) bool {
			h := crypto.Hash([]byte(fmt.Sprintf("%s-%d-%d-%d", tag, fx.cs.Seed, i, j)))
			return int(h[1])%100 < pct
		}
		sa := types.NewAnswers(uint(len(shortToSolve)))
		for j, f := range shortToSolve {
			t := c17truth(fx.cs.Seed, fx.shardOf[i], f)
			if !pick("acc-s", j, sub.Accuracy) {
				t = !t
			}
			if pick("skip-s", j, 8) {
				continue
			}
			if t {
				sa.Left(uint(j))
			} else {
				sa.Right(uint(j))
			}
		}
		la := types.NewAnswers(uint(len(longToSolve)))
		for j, f := range longToSolve {
			t := c17truth(fx.cs.Seed, fx.shardOf[i], f)
			if !pick("acc-l", j, sub.Accuracy) {
				t = !t
			}
			if t {
				la.Left(uint(j))
			} else {
				la.Right(uint(j))
			}
			if pick("rep", j, sub.Reports) {
				la.Grade(uint(j), types.GradeReported)
			} else if sub.NoApprove {
				// no grade: under upgrade 11 the reports of such a solver do not count (qualification.go ignoreGrades)
			} else if sub.Reports > 0 && pick("plain", j, 60) {
				la.Grade(uint(j), types.GradeD) // a plain approve, so that increased grades stay <= 1 for most solvers
			} else {
				la.Grade(uint(j), types.Grade(2+int(crypto.Hash([]byte{byte(i), byte(j)})[0])%4))
			}
		}
		proof := make([]byte, 129)
		ph := crypto.Hash([]byte(fmt.Sprintf("proof-%d-%d", fx.cs.Seed, i)))
		for k := range proof {
			proof[k] = ph[k%32] ^ byte(k)
		}
		rnd := ceremony.VerifC17WordsRnd(proof)
		if sub.Long == "badrnd" {
			rnd++
		}
		salt := []byte{byte(i), 0x5a, 0x17}
		shortBits := sa.Bytes()
		hash := crypto.Hash(append(append([]byte{}, shortBits...), salt...))
		if sub.BadHash {
			hash[0] ^= 0xff
		}
		add := func(typ uint16, nonce uint32, payload []byte) {
			fx.txs = append(fx.txs, fx.sign(i, typ, nonce, payload))
			fx.txKind = append(fx.txKind, typ)
			fx.txOwner = append(fx.txOwner, i)
		}
		if sub.Hash {
			add(types.SubmitAnswersHashTx, 1, hash[:])
		}
		switch sub.Short {
		case "ok":
			add(types.SubmitShortAnswersTx, 2, attachments.CreateShortAnswerAttachment(shortBits, rnd, 1))
		case "garbage":
			add(types.SubmitShortAnswersTx, 2, []byte{0xff, 0xff, 0xff, 0x01})
		}
		switch sub.Long {
		case "ok", "badrnd":
			p, _ := (&attachments.LongAnswerAttachment{Answers: la.Bytes(), Proof: proof, Salt: salt}).ToBytes()
			add(types.SubmitLongAnswersTx, 3, p)
		case "garbage":
			add(types.SubmitLongAnswersTx, 3, []byte{0xff, 0xff, 0xff, 0x02})
		case "empty":
			add(types.SubmitLongAnswersTx, 3, nil) // accepted by validateSubmitLongAnswersTx in epoch 0; decoded payload is nil
		case "emptyobj":
			// the transaction object as the node that created it holds it (dna_sendTransaction with payload "0x" gives a
			// non-nil empty slice) and includes it in its own proposal; node X is that node, the reference node decodes the
			// block from the wire (nil payload).  Valid on a chain in epoch 0 only (validateSubmitLongAnswersTx); an empty
			// short-answers payload is refused by validateSubmitShortAnswersTx and therefore never generated.
			add(types.SubmitLongAnswersTx, 3, []byte{})
		}
		if sub.HasEvi {
			// the bitmap speaks about the candidates of the sender's own shard, by index
			bm := common.NewBitmap(uint32(len(fx.cands[fx.shardOf[i]])))
			for _, j := range sub.Evidence {
				if cj, ok := fx.candIdx[j]; ok && j < len(fx.shardOf) && fx.shardOf[j] == fx.shardOf[i] {
					bm.Add(uint32(cj))
				}
			}
			buf := new(bytes.Buffer)
			bm.WriteTo(buf)
			add(types.EvidenceTx, 4, buf.Bytes())
		}
	}
}

// ---------------------------------------------------------------- evaluation

type c17idres struct {
	New      uint8  `json:"new"`
	Birthday uint16 `json:"birthday"`
}

type c17result struct {
	Failed   bool
	Count    int
	Ids      []c17idres
	Root     string
	Missed   []bool // per identity, from the validation stats of a first evaluation (nil on a cache hit)
	Approved []bool // per identity, same source
	Panic    string
	Rewards  string // digest of everything the reward distribution reads from the epoch result
}

// c17rewards: canonical text of ShardResults (bad/good authors, author results, good inviters, reporters), pools and
// non-validated stakes
func c17rewards(out types.TotalValidationResult) string {
	var sb strings.Builder
	sortedAddrs := func(n int, each func(func(common.Address))) []common.Address {
		res := make([]common.Address, 0, n)
		each(func(a common.Address) { res = append(res, a) })
		sort.Slice(res, func(i, j int) bool { return bytes.Compare(res[i][:], res[j][:]) < 0 })
		return res
	}
	var shards []int
	for id := range out.ShardResults {
		shards = append(shards, int(id))
	}
	sort.Ints(shards)
	for _, id := range shards {
		r := out.ShardResults[common.ShardId(id)]
		if r == nil {
			continue
		}
		fmt.Fprintf(&sb, "shard %d;", id)
		for _, a := range sortedAddrs(len(r.BadAuthors), func(f func(common.Address)) {
			for a := range r.BadAuthors {
				f(a)
			}
		}) {
			fmt.Fprintf(&sb, "bad %x=%d;", a[:4], r.BadAuthors[a])
		}
		for _, a := range sortedAddrs(len(r.GoodAuthors), func(f func(common.Address)) {
			for a := range r.GoodAuthors {
				f(a)
			}
		}) {
			g := r.GoodAuthors[a]
			fmt.Fprintf(&sb, "good %x=%v/%d/", a[:4], g.Missed, g.NewIdentityState)
			for _, fl := range g.FlipsToReward {
				fmt.Fprintf(&sb, "%x:%d:%s,", fl.Cid, fl.Grade, fl.GradeScore.String())
			}
			sb.WriteByte(';')
		}
		for _, a := range sortedAddrs(len(r.AuthorResults), func(f func(common.Address)) {
			for a := range r.AuthorResults {
				f(a)
			}
		}) {
			x := r.AuthorResults[a]
			fmt.Fprintf(&sb, "author %x=%v%v%v;", a[:4], x.HasOneReportedFlip, x.HasOneNotQualifiedFlip, x.AllFlipsNotQualified)
		}
		for _, a := range sortedAddrs(len(r.GoodInviters), func(f func(common.Address)) {
			for a := range r.GoodInviters {
				f(a)
			}
		}) {
			x := r.GoodInviters[a]
			fmt.Fprintf(&sb, "inviter %x=%v/%d/", a[:4], x.PayInvitationReward, x.NewIdentityState)
			inv := append([]*types.SuccessfulInvite{}, x.SuccessfulInvites...)
			sort.Slice(inv, func(i, j int) bool { return bytes.Compare(inv[i].Address[:], inv[j].Address[:]) < 0 })
			for _, si := range inv {
				fmt.Fprintf(&sb, "%x:%d:%d:%v,", si.Address[:4], si.Age, si.EpochHeight, si.Penalized)
			}
			sb.WriteByte(';')
		}
		var flips []int
		for f := range r.ReportersToRewardByFlip {
			flips = append(flips, f)
		}
		sort.Ints(flips)
		for _, f := range flips {
			m := r.ReportersToRewardByFlip[f]
			fmt.Fprintf(&sb, "report %d=", f)
			for _, a := range sortedAddrs(len(m), func(g func(common.Address)) {
				for a := range m {
					g(a)
				}
			}) {
				fmt.Fprintf(&sb, "%x/%d,", a[:4], m[a].NewIdentityState)
			}
			sb.WriteByte(';')
		}
	}
	for _, a := range sortedAddrs(len(out.Pools), func(f func(common.Address)) {
		for a := range out.Pools {
			f(a)
		}
	}) {
		fmt.Fprintf(&sb, "pool %x;", a[:4])
	}
	for _, a := range sortedAddrs(len(out.NonValidatedStakes), func(f func(common.Address)) {
		for a := range out.NonValidatedStakes {
			f(a)
		}
	}) {
		fmt.Fprintf(&sb, "nvs %x=%s;", a[:4], out.NonValidatedStakes[a].String())
	}
	h := sha256.Sum256([]byte(sb.String()))
	return fmt.Sprintf("%x", h[:6])
}

func (r *c17result) digest() string {
	if r.Panic != "" {
		return "panic"
	}
	var sb strings.Builder
	fmt.Fprintf(&sb, "failed=%v count=%d ids=", r.Failed, r.Count)
	for _, i := range r.Ids {
		fmt.Fprintf(&sb, "%d/%d,", i.New, i.Birthday)
	}
	sb.WriteString(" root=" + r.Root + " rewards=" + r.Rewards)
	return sb.String()
}

func (fx *c17fx) eval(n *c17node, height uint64) (res *c17result) {
	res = &c17result{}
	defer func() {
		if r := recover(); r != nil {
			res.Panic = fmt.Sprint(r)
		}
	}()
	cs, err := fx.app.ForCheck(1)
	if err != nil {
		panic(err)
	}
	out := n.vc.ApplyNewEpoch(height, cs, nil)
	res.Failed, res.Count = out.Failed, out.IdentitiesCount
	res.Rewards = c17rewards(out)
	for _, a := range fx.addrs {
		id := cs.State.GetIdentity(a)
		res.Ids = append(res.Ids, c17idres{New: uint8(id.State), Birthday: id.Birthday})
	}
	cs.Precommit()
	res.Root = fmt.Sprintf("%x", cs.State.Root().Bytes()[:8]) + fmt.Sprintf("%x", cs.IdentityState.Root().Bytes()[:4])
	if stats := n.vc.VerifC17Stats(); stats != nil && stats.Shards[1] != nil {
		res.Missed = make([]bool, len(fx.addrs))
		res.Approved = make([]bool, len(fx.addrs))
		for i, a := range fx.addrs {
			sh := stats.Shards[common.ShardId(fx.shardOf[i])]
			if sh == nil {
				res.Missed[i] = true
				continue
			}
			if s, ok := sh.IdentitiesPerAddr[a]; ok {
				res.Missed[i] = s.Missed
				res.Approved[i] = s.Approved
			} else {
				res.Missed[i] = true // non-candidates are evaluated as missed (ceremony.go:1251)
			}
		}
	}
	return res
}

// approvedRef: who is approved according to the chain's evidence transactions, computed from the case itself:
// an identity is approved iff more than half of the evidence maps sent by candidates of ITS OWN shard contain it
// (appstate.CalculateApprovedCandidates over readEvidenceMaps(shard)); independent of the ceremony code.
func (fx *c17fx) approvedRef(set []int) []bool {
	res := make([]bool, len(fx.addrs))
	maps := map[int]int{}  // shard -> number of evidence maps of its candidates
	score := map[int]int{} // identity -> number of own-shard maps containing it
	for _, t := range set {
		if fx.txKind[t] != types.EvidenceTx {
			continue
		}
		o := fx.txOwner[t]
		if _, isCand := fx.candIdx[o]; !isCand {
			continue // readEvidenceMaps keeps maps of the shard's candidates only
		}
		maps[fx.shardOf[o]]++
		seen := map[int]bool{}
		for _, j := range fx.cs.Subs[o].Evidence {
			if _, ok := fx.candIdx[j]; ok && j < len(fx.shardOf) && fx.shardOf[j] == fx.shardOf[o] && !seen[j] {
				seen[j] = true
				score[j]++
			}
		}
	}
	for i := range res {
		if _, ok := fx.candIdx[i]; ok {
			res[i] = score[i] >= maps[fx.shardOf[i]]/2+1
		}
	}
	return res
}

// canonical layout of a set of transactions: hashes, then long answers + evidence, then short answers, by owner
func (fx *c17fx) canonical(set []int) []int {
	res := append([]int{}, set...)
	rank := map[uint16]int{types.SubmitAnswersHashTx: 0, types.SubmitLongAnswersTx: 1, types.EvidenceTx: 2, types.SubmitShortAnswersTx: 3}
	sort.Slice(res, func(a, b int) bool {
		ra, rb := rank[fx.txKind[res[a]]], rank[fx.txKind[res[b]]]
		if ra != rb {
			return ra < rb
		}
		return res[a] < res[b]
	})
	return res
}

func (fx *c17fx) txsOf(ids []int) []*types.Transaction {
	res := make([]*types.Transaction, len(ids))
	for i, t := range ids {
		res[i] = fx.txs[t]
	}
	return res
}

// the same transactions as a node that received the block over the wire holds them
func (fx *c17fx) wireTxsOf(ids []int) []*types.Transaction {
	res := make([]*types.Transaction, len(ids))
	for i, t := range ids {
		b, err := fx.txs[t].ToBytes()
		if err != nil {
			panic(err)
		}
		tx := new(types.Transaction)
		if err := tx.FromBytes(b); err != nil {
			panic(err)
		}
		res[i] = tx
	}
	return res
}

// reference: a clean node that received exactly this set of transactions
func (fx *c17fx) reference(set []int) *c17result {
	can := fx.canonical(set)
	key := fmt.Sprint(fx.cfgVer, can)
	if r, ok := fx.refCache[key]; ok {
		return r
	}
	n := fx.newNode(dbm.NewMemDB(), false)
	fx.processBlock(n, 2, fx.wireTxsOf(can))
	r := fx.eval(n, 77)
	fx.refCache[key] = r
	return r
}

// ---------------------------------------------------------------- running a case

// time given to the ceremony's background clean-up goroutine (completeEpoch) before the next step looks at the database
const c17settle = 60 * time.Millisecond

type c17failure struct {
	sig, detail string
}

// lines the run produces for the Lean driver (op, implementation answer)
type c17lines struct {
	ops, impl []string
}

func (l *c17lines) add(op, ans string) { l.ops = append(l.ops, op); l.impl = append(l.impl, ans) }

func (fx *c17fx) storeDump(n *c17node) string {
	row := func(present map[int][]byte, has map[int]bool) string {
		parts := make([]string, len(fx.addrs))
		for i := range parts {
			parts[i] = ptok(has[i], present[i])
		}
		return strings.Join(parts, " ")
	}
	conv := func(es []ceremony.VerifC17Entry) string {
		p, h := map[int][]byte{}, map[int]bool{}
		for _, e := range es {
			if i, ok := fx.idOf[e.Addr]; ok {
				p[i], h[i] = e.Payload, true
			}
		}
		return row(p, h)
	}
	s, l := n.vc.VerifC17Answers()
	ds, dl := database.NewEpochDb(n.db, fx.cs.Epoch).ReadAnswers()
	convDb := func(es []database.DbAnswer) string {
		p, h := map[int][]byte{}, map[int]bool{}
		for _, e := range es {
			if i, ok := fx.idOf[e.Addr]; ok {
				p[i], h[i] = e.Ans, true
			}
		}
		return row(p, h)
	}
	return "mem s[" + conv(s) + "] l[" + conv(l) + "] db s[" + convDb(ds) + "] l[" + convDb(dl) + "]"
}

func (fx *c17fx) addLines(l *c17lines, ids []int) {
	for _, t := range ids {
		switch fx.txKind[t] {
		case types.SubmitShortAnswersTx:
			l.add(fmt.Sprintf("add s %d %s", fx.txOwner[t], hx.Hex(fx.txs[t].Payload)), "ok")
		case types.SubmitLongAnswersTx:
			l.add(fmt.Sprintf("add l %d %s", fx.txOwner[t], hx.Hex(fx.txs[t].Payload)), "ok")
		}
	}
}

func c17runCer(cs c17cer) (lines *c17lines, fails []c17failure, evals int, tags []string, err error) {
	trans := map[string]bool{}
	defer func() {
		for t := range trans {
			tags = append(tags, t)
		}
		sort.Strings(tags)
	}()
	fx, err := c17newFx(cs)
	if err != nil {
		return nil, nil, 0, nil, err
	}
	cs.Full = true
	lines = &c17lines{}
	l := lines
	l.add(fmt.Sprintf("new cer %d %s %s", cs.Epoch, b01(cs.U10), b01(cs.U12)), "ok")
	l.add(fmt.Sprintf("new store %d", len(cs.Ids)), "ok")
	l.add("new node 1", "ok") // 1 = the reset handler drops the cache (the code as it is)
	db := dbm.NewMemDB()
	var node *c17node
	relotterySeen := false
	if len(cs.Script) > 0 && cs.Script[0].Op == "prelude" {
		// Finding F38: the node first followed a branch whose flip-lottery block came after a KillTx of identity Kill (so
		// its candidates lack it), then the chain is reset below the lottery block (state in NonePeriod) and the adopted
		// branch's lottery block arrives: the candidates must be those of the adopted branch.
		func() {
			defer func() {
				if r := recover(); r != nil {
					err = fmt.Errorf("prelude panicked: %v", r)
				}
			}()
			k := cs.Script[0].Kill
			st := fx.app.State
			st.SetValidationPeriod(state.NonePeriod)
			if e := fx.app.Commit(nil); e != nil { // version 2: before the lottery block
				panic(e)
			}
			st.SetState(fx.addrs[k], state.Killed)
			fx.app.IdentityState.SetValidated(fx.addrs[k], false)
			st.SetValidationPeriod(state.AfterLongSessionPeriod)
			if e := fx.app.Commit(nil); e != nil { // version 3: the abandoned branch inside the ceremony
				panic(e)
			}
			fx.app.ValidatorsCache.Load()
			node = fx.newNode(db, false) // lottery of the abandoned branch
			if e := fx.app.ResetTo(2); e != nil {
				panic(e)
			}
			node.bus.Publish(&events.BlockchainResetEvent{}) // fork switch below the lottery block
			if e := fx.app.ResetTo(1); e != nil {            // the adopted branch's state inside the ceremony (identity Kill alive)
				panic(e)
			}
			other := crypto.Hash(append([]byte("adopted-branch-"), fx.seed...))
			_ = other
			node.vc.VerifC17Relottery(fx.seed) // the adopted branch's flip-lottery block
			relotterySeen = true
		}()
		if err != nil {
			return nil, nil, 0, nil, err
		}
		tags = append(tags, "lottery-branch-switch")
	} else {
		node = fx.newNode(db, false)
	}
	var blocks [][]int // X's current chain
	versions := map[string]int{}
	verDigest := map[int]string{}
	current := func() []int {
		var set []int
		for _, b := range blocks {
			set = append(set, b...)
		}
		return set
	}
	version := func() int {
		key := fmt.Sprint(fx.cfgVer, fx.canonical(current()))
		if v, ok := versions[key]; ok {
			return v
		}
		versions[key] = len(versions) + 1
		return versions[key]
	}
	resetSeen, rollbackSeen, finished, upgradeSeen := false, false, false, false
	evalAt := map[uint64][]string{}  // digests X returned per height
	ownByVersion := map[int]string{} // X's first digest per data version
	defer func() {
		if finished { // leave the shared state as found (reference computations of later steps never run after this)
			_ = fx.app.ResetTo(1)
		}
	}()
	fail := func(sig, detail string) { fails = append(fails, c17failure{sig, detail}) }
	for si, st := range cs.Script {
		func() {
			defer func() {
				if r := recover(); r != nil {
					fail("C17:ceremony-panic", fmt.Sprintf("step %d (%s) panicked: %v", si, st.Op, r))
					l.add("dump", "panic")
				}
			}()
			switch st.Op {
			case "block":
				fx.processBlock(node, fx.baseH+uint64(len(blocks))+1, fx.txsOf(st.Txs))
				blocks = append(blocks, st.Txs)
				fx.addLines(l, st.Txs)
				l.add("persist", "ok")
				l.add("dump", fx.storeDump(node))
				l.add(fmt.Sprintf("data %d", version()), "ok")
			case "crash":
				// the block is on the chain; the node processed a prefix of it and died before persist; the restarted
				// node re-processes the head block (Initialize(currentBlock) -> addBlock)
				k := st.Keep
				if k > len(st.Txs) {
					k = len(st.Txs)
				}
				node.vc.VerifC17ProcessTxsNoPersist(fx.txsOf(st.Txs[:k]))
				fx.addLines(l, st.Txs[:k])
				node = fx.newNode(db, true)
				l.add("fresh", "ok")
				l.add("restore", "ok")
				fx.processBlock(node, fx.baseH+uint64(len(blocks))+1, fx.txsOf(st.Txs))
				blocks = append(blocks, st.Txs)
				fx.addLines(l, st.Txs)
				l.add("persist", "ok")
				l.add("dump", fx.storeDump(node))
				l.add(fmt.Sprintf("data %d", version()), "ok")
				l.add("reset "+fmt.Sprint(version()), "ok") // a new process has no cache
				tags = append(tags, "crash")
			case "restart":
				node = fx.newNode(db, true)
				if finished {
					// the head is the validation-finishing block: the new process is in the next epoch and re-processes it
					node.vc.VerifC17AddBlock(fx.baseH+uint64(len(blocks))+1, types.ValidationFinished, nil)
					time.Sleep(c17settle)
					tags = append(tags, "restart-after-finish")
					break
				}
				l.add("fresh", "ok")
				l.add("restore", "ok")
				if len(blocks) > 0 {
					head := blocks[len(blocks)-1]
					fx.processBlock(node, fx.baseH+uint64(len(blocks)), fx.txsOf(head))
					fx.addLines(l, head)
					l.add("persist", "ok")
				}
				l.add("dump", fx.storeDump(node))
				l.add("reset "+fmt.Sprint(version()), "ok") // a new process has no cache
				tags = append(tags, "restart")
			case "upgrade":
				// upgrade.Upgrader.UpgradeConfigTo: the consensus version is activated by rewriting the shared ConsensusConf in
				// place; node X keeps running, every node created from now on (clean reference nodes, restarts) starts after it
				cons := fx.cfg.Consensus
				for v := int(cons.Version) + 1; v <= st.Ver; v++ {
					config.ApplyConsensusVersion(config.ConsensusVerson(v), cons)
				}
				fx.cfgVer++
				upgradeSeen = true
				l.add(fmt.Sprintf("new cer %d %s %s", cs.Epoch, b01(cons.EnableUpgrade10), b01(cons.EnableUpgrade12)), "ok") // rule flags in force from now on
				l.add(fmt.Sprintf("data %d", version()), "ok")                                                               // the same transactions under other rules are other data
				tags = append(tags, fmt.Sprintf("upgrade-%d", st.Ver))
			case "finish":
				// the validation-finishing block is accepted: the state moves to the next epoch, the ceremony completes the epoch
				if !cs.Full || finished {
					break
				}
				fx.app.State.IncEpoch()
				fx.app.State.SetValidationPeriod(state.NonePeriod)
				if err := fx.app.Commit(nil); err != nil {
					panic(err)
				}
				node.vc.VerifC17AddBlock(fx.baseH+uint64(len(blocks))+1, types.ValidationFinished, nil)
				time.Sleep(c17settle) // background clean-up of outdated epoch data
				if node.vc.VerifC17Epoch() != cs.Epoch+1 {
					fail("C17:epoch-not-completed", fmt.Sprintf("step %d: ceremony epoch %d after the validation-finishing block of epoch %d", si, node.vc.VerifC17Epoch(), cs.Epoch))
				}
				finished = true
				tags = append(tags, "finish")
			case "rollback":
				// a fork at or below the validation height: the chain (and the state) is reset below the validation-finishing
				// block, as a fork switch does; the real handler returns to the ceremony of the previous epoch
				if !cs.Full || !finished {
					break
				}
				if err := fx.app.ResetTo(1); err != nil {
					panic(err)
				}
				keep := st.Keep
				if keep > len(blocks) {
					keep = len(blocks)
				}
				var reverted []int
				for _, b := range blocks[keep:] {
					reverted = append(reverted, b...)
				}
				node.bus.Publish(&events.BlockchainResetEvent{RevertedTxs: fx.txsOf(reverted)})
				time.Sleep(c17settle) // background clean-up, if any
				blocks = blocks[:keep]
				finished = false
				l.add("fresh", "ok")   // completeEpoch: NewQualification over the previous epoch's database,
				l.add("restore", "ok") // then restore()
				for _, t := range reverted {
					switch fx.txKind[t] {
					case types.SubmitShortAnswersTx:
						l.add(fmt.Sprintf("rm s %d", fx.txOwner[t]), "ok")
					case types.SubmitLongAnswersTx:
						l.add(fmt.Sprintf("rm l %d", fx.txOwner[t]), "ok")
					}
				}
				l.add("persist", "ok")
				l.add("dump", fx.storeDump(node))
				l.add(fmt.Sprintf("reset %d", version()), "ok")
				if node.vc.VerifC17Epoch() != cs.Epoch {
					fail("C17:re-evaluation-after-rollback-differs", fmt.Sprintf("step %d: after the rollback the ceremony is in epoch %d, the chain in epoch %d", si, node.vc.VerifC17Epoch(), cs.Epoch))
				}
				rollbackSeen = true
				tags = append(tags, "rollback")
			case "reset":
				var reverted []int
				for _, b := range blocks[st.Keep:] {
					reverted = append(reverted, b...)
				}
				// the real handler, subscribed by the real Initialize on this node's bus
				node.bus.Publish(&events.BlockchainResetEvent{RevertedTxs: fx.txsOf(reverted)})
				blocks = blocks[:st.Keep]
				for _, t := range reverted {
					switch fx.txKind[t] {
					case types.SubmitShortAnswersTx:
						l.add(fmt.Sprintf("rm s %d", fx.txOwner[t]), "ok")
					case types.SubmitLongAnswersTx:
						l.add(fmt.Sprintf("rm l %d", fx.txOwner[t]), "ok")
					}
				}
				l.add("persist", "ok")
				l.add("dump", fx.storeDump(node))
				l.add(fmt.Sprintf("reset %d", version()), "ok")
				resetSeen = true
				tags = append(tags, "reset")
			case "eval", "eval2":
				if finished {
					break // the ceremony of this epoch is over on this chain; nothing evaluates it
				}
				evals++
				h := fx.baseH + uint64(len(blocks)) + 1
				got := fx.eval(node, h)
				ref := fx.reference(current())
				v := version()
				verDigest[v] = ref.digest()
				// which data version does X's result belong to?
				ans := "ver ?"
				if got.digest() == ref.digest() {
					ans = fmt.Sprintf("ver %d", v)
				} else {
					for ov := 1; ov <= len(versions); ov++ { // smallest matching version: deterministic
						if d, ok := verDigest[ov]; ok && d == got.digest() {
							ans = fmt.Sprintf("ver %d", ov)
							break
						}
					}
				}
				l.add(fmt.Sprintf("eval %d", h), ans)
				if got.Panic != "" {
					fail("C17:ceremony-panic", fmt.Sprintf("step %d: ApplyNewEpoch panicked: %s", si, got.Panic))
				} else if ref.Panic != "" {
					fail("C17:ceremony-panic", fmt.Sprintf("step %d: ApplyNewEpoch of the clean node panicked: %s", si, ref.Panic))
				} else if got.digest() != ref.digest() {
					sig := "C17:evaluation-differs-from-clean-node"
					stale := false
					for _, d := range evalAt[h] {
						if d == got.digest() {
							stale = true
						}
					}
					if rollbackSeen {
						sig = "C17:re-evaluation-after-rollback-differs"
					} else if upgradeSeen {
						sig = "C17:outcome-depends-on-process-start-across-upgrade"
					} else if relotterySeen {
						sig = "C17:candidates-of-abandoned-lottery-branch"
					} else if resetSeen && stale {
						sig = "C17:stale-epoch-cache-after-reorg"
					}
					fail(sig, fmt.Sprintf("step %d (%s at height %d after %s): node returned %s ; a clean node on the same chain returns %s",
						si, st.Op, h, strings.Join(tags, ","), got.digest(), ref.digest()))
				}
				// the node must also agree with its own earlier evaluation of the same chain data (reported once: a difference
				// from the clean node above already covers it)
				if prev, ok := ownByVersion[v]; ok && prev != got.digest() && got.Panic == "" && got.digest() == ref.digest() {
					sig := "C17:evaluation-differs-from-own-earlier-evaluation"
					if rollbackSeen {
						sig = "C17:re-evaluation-after-rollback-differs"
					} else if upgradeSeen {
						sig = "C17:outcome-depends-on-process-start-across-upgrade"
					}
					fail(sig, fmt.Sprintf("step %d: the node evaluated the same chain data before and got %s, now %s", si, prev, got.digest()))
				}
				if _, ok := ownByVersion[v]; !ok {
					ownByVersion[v] = got.digest()
				}
				evalAt[h] = append(evalAt[h], got.digest())
				if got.Failed {
					trans["eval:nobody-validated"] = true
				} else {
					trans["eval:validated"] = true
				}
				appr := fx.approvedRef(current())
				// the rules, on the clean node's result with its own statistics (X's result is either equal to it or already
				// reported as differing)
				for i, id := range cs.Ids {
					if got.Panic != "" || ref.Panic != "" || ref.Missed == nil {
						break
					}
					done := uint8(id.Flips) >= id.Required
					missed := ref.Missed[i]
					if _, isCand := fx.candIdx[i]; isCand {
						if ref.Approved[i] != appr[i] {
							fail("C17:approval-not-by-own-shard-evidence", fmt.Sprintf("step %d identity %d (shard %d, candidate index %d): the node treats it as approved=%v; the evidence maps of its own shard's candidates on the chain give approved=%v",
								si, i, fx.shardOf[i], fx.candIdx[i], ref.Approved[i], appr[i]))
						}
						missed = missed || !appr[i] // not approved by its own shard = missed the session
					}
					if !ref.Failed {
						trans[fmt.Sprintf("outcome:%d->%d", id.State, ref.Ids[i].New)] = true
						if sig, det := c17rules(state.IdentityState(id.State), state.IdentityState(ref.Ids[i].New), done, missed); sig != "" {
							fail(sig, fmt.Sprintf("step %d identity %d: %s", si, i, det))
						}
						l.add(fmt.Sprintf("id %d %s %s %d %d %d", id.State, b01(done), b01(missed), id.Birthday, ref.Ids[i].New, ref.Ids[i].Birthday), "ok")
					} else if ref.Ids[i].New != id.State {
						fail("C17:failed-validation-changed-status", fmt.Sprintf("step %d identity %d: %d -> %d although validation failed", si, i, id.State, ref.Ids[i].New))
					}
				}
				if st.Op == "eval2" {
					tags = append(tags, "cached")
				}
			}
		}()
	}
	return lines, fails, evals, tags, nil
}

func c17emitCer(c *hx.Ctx, cs c17cer) error {
	lines, fails, evals, tags, err := c17runCer(cs)
	if err != nil {
		return err
	}
	for i := range lines.ops {
		c.Line(lines.ops[i], lines.impl[i])
	}
	c.Rep.Evaluations += evals
	for _, t := range tags {
		c.Hit("cer:" + t)
	}
	for _, sub := range cs.Subs {
		if sub.Long == "emptyobj" {
			c.Hit("cer:local-empty-payload-object")
			break
		}
	}
	c.Hit("cer:full-fixture")
	if cs.Shards > 1 {
		c.Hit(fmt.Sprintf("cer:shards=%d", cs.Shards))
	} else {
		c.Hit("cer:shards=1")
	}
	seen := map[string]bool{}
	for _, f := range fails {
		if seen[f.sig] {
			continue
		}
		seen[f.sig] = true
		small := c17shrinkCer(cs, f.sig)
		_, f2, _, _, _ := c17runCer(small)
		det := f.detail
		for _, x := range f2 {
			if x.sig == f.sig {
				det = x.detail
				break
			}
		}
		sig := f.sig
		if sig == "C17:evaluation-differs-from-clean-node" || sig == "C17:stale-epoch-cache-after-reorg" {
			// does the difference come from a locally created empty payload object? (the same case with a nil payload agrees)
			alt, has := small, false
			alt.Subs = append([]c17sub{}, small.Subs...)
			for i := range alt.Subs {
				if alt.Subs[i].Long == "emptyobj" {
					alt.Subs[i].Long, has = "empty", true
				}
			}
			if has && !c17hasSig(alt, "C17:evaluation-differs-from-clean-node") && !c17hasSig(alt, "C17:stale-epoch-cache-after-reorg") {
				sig = "C17:evaluation-differs-from-clean-node:local-empty-payload"
			}
		}
		c.Fail(sig, det, c17case{Kind: "cer", Cer: &small})
	}
	return nil
}

func c17hasSig(cs c17cer, sig string) bool {
	_, fails, _, _, err := c17runCer(cs)
	if err != nil {
		return false
	}
	for _, f := range fails {
		if f.sig == sig {
			return true
		}
	}
	return false
}

// shrink: drop script steps that are not blocks of the chain (evaluations, restarts), then submissions' extras
func c17shrinkCer(cs c17cer, sig string) c17cer {
	for changed, rounds := true, 0; changed && rounds < 4; rounds++ {
		changed = false
		for i := 0; i < len(cs.Script); i++ {
			op := cs.Script[i].Op
			if op != "eval" && op != "eval2" && op != "restart" {
				continue
			}
			t := cs
			t.Script = append(append([]c17step{}, cs.Script[:i]...), cs.Script[i+1:]...)
			if c17hasSig(t, sig) {
				cs, changed = t, true
				i--
			}
		}
	}
	return cs
}

// ---------------------------------------------------------------- generator

var c17states = []uint8{2, 2, 7, 7, 3, 3, 3, 8, 8, 4, 6, 1, 0}

func c17genCer(c *hx.Ctx) c17cer { return c17genCerKind(c, false) }

// upgradeCase: a ceremony in whose epoch a consensus upgrade gets activated: flips in the shard, small committees, solvers
// that report 1-2 flips with mixed / missing approving grades (report-boundary flips), histories on the score boundaries
func c17genCerKind(c *hx.Ctx, upgradeCase bool) c17cer {
	r := c.Rng
	cs := c17cer{Seed: r.Int63n(1 << 40), Epoch: uint16(r.Intn(3)) * 60, U10: r.Intn(4) != 0, U11: r.Intn(2) == 0, U12: r.Intn(3) != 0}
	if cs.Epoch == 120 {
		cs.Epoch = 95
	}
	if cs.U12 {
		cs.U10, cs.U11 = true, true
	} else if cs.U11 {
		cs.U10 = true
	}
	n := 4 + r.Intn(6)
	if r.Intn(2) == 0 {
		cs.Shards = 2 + r.Intn(2)
		n = 7 + r.Intn(9)
	}
	withFlips := r.Intn(2) == 0
	if upgradeCase {
		cs.Shards, n, withFlips = 0, 3+r.Intn(4), true
		cs.U12 = false
		switch r.Intn(3) {
		case 0:
			cs.U10, cs.U11 = false, false // upgrade 10 arrives
		default:
			cs.U10, cs.U11 = true, false // upgrade 11 arrives
		}
		if cs.Epoch == 0 {
			cs.Epoch = 60
		}
	}
	for i := 0; i < n; i++ {
		id := c17ident{State: c17states[r.Intn(len(c17states))], Birthday: uint16(r.Intn(int(cs.Epoch) + 1)), Delegatee: -1, Inviter: -1, Stake: int64(r.Intn(50))}
		if id.State == 0 {
			id.State = 3
		}
		if cs.Shards > 1 {
			// unequal shard sizes: candidate index ranges of different shards overlap partly
			id.Shard = 1
			if r.Intn(2) == 0 {
				id.Shard = 2 + r.Intn(cs.Shards-1)
			}
			if cs.Shards == 3 && id.Shard == 3 && r.Intn(2) == 0 {
				id.Shard = 2
			}
		}
		if upgradeCase && id.State == 1 {
			id.State = 7
		}
		if withFlips && id.State != 1 {
			id.Required = uint8(r.Intn(4))
			if upgradeCase {
				id.Required = uint8(1 + r.Intn(3))
			}
			id.Flips = int(id.Required)
			switch r.Intn(6) {
			case 0:
				if id.Flips > 0 {
					id.Flips-- // lacks a required flip: not a ceremony candidate
				}
			case 1:
				id.Flips++
			}
		} else if r.Intn(8) == 0 {
			id.Required = 1 // no flips at all though required
		}
		if id.State != 2 && id.State != 1 {
			for k, m := 0, r.Intn(9); k < m; k++ {
				cnt := uint32(3 + r.Intn(4))
				pts := float32(cnt) - float32(r.Intn(4))/2 // mostly good history, sometimes on either side of the thresholds
				if r.Intn(5) == 0 {
					pts = float32(r.Intn(int(cnt)*2+1)) / 2
				}
				id.Scores = append(id.Scores, common.EncodeScore(pts, cnt))
			}
		}
		if id.State == 2 && r.Intn(2) == 0 && i > 0 {
			id.Inviter = r.Intn(i)
		}
		cs.Ids = append(cs.Ids, id)
	}
	// delegations: only to identities that do not delegate themselves and are not delegated to by a delegator (no chains)
	for i := range cs.Ids {
		if r.Intn(4) == 0 && cs.Ids[i].State != 1 {
			j := r.Intn(n)
			isTarget := false
			for k := range cs.Ids {
				if cs.Ids[k].Delegatee == i {
					isTarget = true
				}
			}
			if j != i && cs.Ids[j].Delegatee < 0 && !isTarget {
				cs.Ids[i].Delegatee = j
			}
		}
	}
	// submissions
	mostApprove := make([]int, 0, n)
	for i := 0; i < n; i++ {
		if r.Intn(8) != 0 {
			mostApprove = append(mostApprove, i)
		}
	}
	for i := 0; i < n; i++ {
		sub := c17sub{Accuracy: 70 + r.Intn(31), Reports: r.Intn(25)}
		if upgradeCase {
			sub.Reports = 15 + r.Intn(18) // below the 34% at which all reports of a solver are ignored under every rule set
			sub.NoApprove = r.Intn(3) == 0
			sub.Accuracy = 55 + r.Intn(46)
		}
		switch r.Intn(16) {
		case 0: // absent
		case 1:
			sub.Hash, sub.Short = true, "ok" // no long answers
		case 2:
			sub.Hash, sub.Long = true, "ok" // no short answers
		case 3:
			sub.Hash, sub.Short, sub.Long, sub.BadHash = true, "ok", "ok", true
		case 4:
			sub.Hash, sub.Short, sub.Long = true, "ok", []string{"garbage", "badrnd", "empty"}[r.Intn(3)]
		case 5:
			sub.Hash, sub.Short, sub.Long = true, "garbage", "ok"
		default:
			sub.Hash, sub.Short, sub.Long = true, "ok", "ok"
		}
		if sub.Long == "empty" && cs.Epoch != 0 {
			sub.Long = "garbage"
		}
		if cs.Epoch == 0 && r.Intn(5) == 0 {
			sub.Hash, sub.Short, sub.Long, sub.BadHash = true, "ok", "emptyobj", false // created and proposed by node X itself
		}
		// evidence is accepted on a chain only from ceremony candidates that are not in Candidate state and do not delegate
		idn := cs.Ids[i]
		mayVote := idn.State != 2 && idn.State != 1 && uint8(idn.Flips) >= idn.Required && idn.Delegatee < 0
		if r.Intn(5) != 0 && mayVote {
			sub.HasEvi = true
			for _, j := range mostApprove {
				if r.Intn(12) != 0 {
					sub.Evidence = append(sub.Evidence, j)
				}
			}
			if r.Intn(6) == 0 {
				sub.Evidence = append(sub.Evidence, r.Intn(n))
			}
		}
		cs.Subs = append(cs.Subs, sub)
	}
	return cs
}

// c17script: an arrival order + incidents for the transactions the submissions produce
func c17script(c *hx.Ctx, cs *c17cer, ntx int, scripted int) {
	r := c.Rng
	perm := r.Perm(ntx)
	split := func(ids []int) [][]int {
		var bs [][]int
		for len(ids) > 0 {
			k := 1 + r.Intn(len(ids))
			if r.Intn(3) == 0 {
				k = len(ids)
			}
			bs = append(bs, ids[:k])
			ids = ids[k:]
		}
		return bs
	}
	var sc []c17step
	block := func(b []int) {
		if r.Intn(6) == 0 {
			sc = append(sc, c17step{Op: "crash", Txs: b, Keep: r.Intn(len(b) + 1)})
		} else {
			sc = append(sc, c17step{Op: "block", Txs: b})
		}
		if r.Intn(5) == 0 {
			sc = append(sc, c17step{Op: "restart"})
		}
	}
	mode := scripted
	if mode < 0 {
		mode = r.Intn(4)
	}

	switch mode {
	case 0: // arrival order + restarts, first vs cached evaluation
		for _, b := range split(perm) {
			block(b)
		}
		sc = append(sc, c17step{Op: "eval"}, c17step{Op: "eval2"})
		if r.Intn(2) == 0 {
			sc = append(sc, c17step{Op: "restart"}, c17step{Op: "eval"})
		}
	case 4: // rollback over the validation-finishing block (full fixture)
		bs := split(perm)
		for _, b := range bs {
			block(b)
		}
		sc = append(sc, c17step{Op: "eval"})
		if r.Intn(2) == 0 {
			sc = append(sc, c17step{Op: "eval2"})
		}
		sc = append(sc, c17step{Op: "finish"})
		if r.Intn(3) == 0 {
			sc = append(sc, c17step{Op: "restart"}) // a new process in the next epoch
		}
		k := 0 // ceremony blocks reverted together with the validation-finishing block
		if len(bs) > 0 && r.Intn(2) == 0 {
			k = 1 + r.Intn(len(bs))
		}
		sc = append(sc, c17step{Op: "rollback", Keep: len(bs) - k})
		if k > 0 {
			var back []int
			for _, b := range bs[len(bs)-k:] {
				back = append(back, b...)
			}
			switch r.Intn(3) {
			case 0: // the SAME blocks again
				for _, b := range bs[len(bs)-k:] {
					sc = append(sc, c17step{Op: "block", Txs: b})
				}
			case 1: // a fork branch with the same ceremony transactions, arranged differently
				r.Shuffle(len(back), func(i, j int) { back[i], back[j] = back[j], back[i] })
				for _, b := range split(back) {
					sc = append(sc, c17step{Op: "block", Txs: b})
				}
			default: // a fork branch that lacks some of them
				var some []int
				for _, t := range back {
					if r.Intn(3) != 0 {
						some = append(some, t)
					}
				}
				sc = append(sc, c17step{Op: "block", Txs: some})
			}
		}
		if r.Intn(3) == 0 {
			sc = append(sc, c17step{Op: "restart"})
		}
		sc = append(sc, c17step{Op: "eval"})
		if r.Intn(3) == 0 {
			sc = append(sc, c17step{Op: "eval2"})
		}
		if r.Intn(3) == 0 { // and once more: the block is accepted again, another fork
			sc = append(sc, c17step{Op: "finish"}, c17step{Op: "rollback", Keep: 1 << 20}, c17step{Op: "eval"})
		}
	case 5: // seeded C17-s7: a proposal of height H is evaluated (cached) on a branch whose last blocks carry no transactions;
		// those blocks are dropped (reset event with no reverted txs); the other branch brings late ceremony txs and ends at H
		nLate := 1 + r.Intn(3)
		if nLate >= ntx {
			nLate = ntx / 2
		}
		early, late := perm[:ntx-nLate], perm[ntx-nLate:]
		for _, b := range split(early) {
			block(b)
		}
		k := 1 + r.Intn(2)
		for i := 0; i < k; i++ {
			sc = append(sc, c17step{Op: "block"}) // transaction-less blocks
		}
		sc = append(sc, c17step{Op: "eval"})
		if r.Intn(2) == 0 {
			sc = append(sc, c17step{Op: "eval2"})
		}
		keep := 0
		for _, st := range sc {
			if st.Op == "block" || st.Op == "crash" {
				keep++
			}
		}
		sc = append(sc, c17step{Op: "reset", Keep: keep - k})
		for i := 0; i < k; i++ {
			var b []int
			if i == 0 {
				b = late
				if k > 1 && len(late) > 1 && r.Intn(2) == 0 {
					b = late[:len(late)/2]
				}
			} else if i == 1 && len(sc[len(sc)-1].Txs) < len(late) {
				b = late[len(sc[len(sc)-1].Txs):]
			}
			sc = append(sc, c17step{Op: "block", Txs: append([]int{}, b...)})
		}
		sc = append(sc, c17step{Op: "eval"})
		if r.Intn(3) == 0 {
			sc = append(sc, c17step{Op: "eval2"})
		}
	case 6: // seeded C17-s8: a consensus upgrade is activated in place in the middle of the ceremony
		bs := split(perm)
		at := r.Intn(len(bs) + 1)
		ver := 10
		if cs.U10 {
			ver = 11
		}
		if cs.U11 {
			ver = 12
		}
		for i, b := range bs {
			if i == at {
				sc = append(sc, c17step{Op: "upgrade", Ver: ver})
			}
			block(b)
		}
		if at == len(bs) {
			sc = append(sc, c17step{Op: "upgrade", Ver: ver})
		}
		sc = append(sc, c17step{Op: "eval"}, c17step{Op: "eval2"})
		if r.Intn(2) == 0 {
			sc = append(sc, c17step{Op: "restart"}, c17step{Op: "eval"})
		}
	default: // reorg: evaluate on branch A, reset, other branch of the same length, evaluate the same height again
		if ntx < 2 {
			for _, b := range split(perm) {
				block(b)
			}
			sc = append(sc, c17step{Op: "eval"}, c17step{Op: "eval2"})
			break
		}
		cut := 1 + r.Intn(ntx-1)
		pre, suf := perm[:cut], perm[cut:]
		preBlocks := split(pre)
		for _, b := range preBlocks {
			block(b)
		}
		if mode == 3 {
			sc = append(sc, c17step{Op: "eval"}) // an evaluation on the way up (other height)
		}
		sufBlocks := split(suf)
		for _, b := range sufBlocks {
			block(b)
		}
		sc = append(sc, c17step{Op: "eval"})
		if r.Intn(2) == 0 {
			sc = append(sc, c17step{Op: "eval2"})
		}
		keep := 0
		for _, s := range sc {
			if s.Op == "block" || s.Op == "crash" {
				keep++
			}
		}
		keep -= len(sufBlocks)
		sc = append(sc, c17step{Op: "reset", Keep: keep})
		// the other branch: same number of blocks, a subset of the reverted transactions (the rest never returns)
		var back []int
		for _, t := range suf {
			if r.Intn(3) != 0 {
				back = append(back, t)
			}
		}
		if len(back) == len(suf) && len(back) > 0 {
			back = back[1:]
		}
		r.Shuffle(len(back), func(i, j int) { back[i], back[j] = back[j], back[i] })
		for bi := 0; bi < len(sufBlocks); bi++ {
			var b []int
			if bi == len(sufBlocks)-1 {
				b = back
			} else if len(back) > 0 {
				k := r.Intn(len(back) + 1)
				b, back = back[:k], back[k:]
			}
			sc = append(sc, c17step{Op: "block", Txs: append([]int{}, b...)})
		}
		sc = append(sc, c17step{Op: "eval"})
		if r.Intn(3) == 0 {
			sc = append(sc, c17step{Op: "eval2"})
		}
	}
	cs.Script = sc
}

func c17ceremonies(c *hx.Ctx) error {
	n := c.Scale(150, 1500)
	for i := 0; i < n; i++ {
		cs := c17genCerKind(c, i >= 8 && i%8 == 6)
		cs.Full = true
		fx, err := c17newFx(cs)
		if err != nil {
			return err
		}
		mode := -1
		if i < 8 {
			mode = i % 4 // the scripted ones first: every mode at least twice
		}
		if i >= 8 && i%4 == 3 {
			mode = 4 // a quarter of the ceremonies: rollback over the validation-finishing block
		}
		if i >= 8 && i%8 == 1 {
			mode = 5 // transaction-less blocks dropped after a cached evaluation, late ceremony txs on the other branch
		}
		if i >= 8 && i%8 == 6 {
			mode = 6 // consensus upgrade activated mid-ceremony
		}
		c17script(c, &cs, len(fx.txs), mode)
		if i%8 == 5 && len(fx.candIdx) > 1 {
			// the node first computed its candidates on a lottery branch that had killed one of the candidates
			var cands []int
			for id := range fx.candIdx {
				cands = append(cands, id)
			}
			sort.Ints(cands)
			cs.Script = append([]c17step{{Op: "prelude", Kill: cands[c.Rng.Intn(len(cands))]}}, cs.Script...)
		}
		if err := c17emitCer(c, cs); err != nil {
			return err
		}
		key, _ := json.Marshal(cs)
		if c.Distinct("cer:" + string(key)) {
			c.Rep.Distinct++
		}
		if i < 1 {
			c.Sample(c17case{Kind: "cer", Cer: &cs})
		}
	}
	return nil
}
