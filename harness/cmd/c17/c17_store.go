package main

// Part B.1: histories of the real answer store (qualification over a real EpochDb on a MemDB).
//   correspondence: every op and the dump of memory + database go to the Lean model (QStore);
//   oracle (independent, this file): for histories that are runs of a chain (blocks, crashes, restarts, reorgs with
//   unique senders, payloads as decoded from blocks) the contents must equal the first writes of the chain's
//   transactions, in memory after every block and on disk after every persist.
import (
	"bytes"
	"encoding/json"
	"fmt"
	"strings"

	"github.com/idena-network/idena-go/common"
	"github.com/idena-network/idena-go/config"
	"github.com/idena-network/idena-go/core/ceremony"
	"github.com/idena-network/idena-go/database"
	dbm "github.com/tendermint/tm-db"

	"verifharness/internal/hx"
)

type c17sop struct {
	Op      string `json:"op"`                // add rm persist restore fresh dump expect
	Short   bool   `json:"short,omitempty"`   // add/rm
	Addr    int    `json:"addr,omitempty"`    // add/rm
	Payload string `json:"payload,omitempty"` // add: "-" nil, "x" empty non-nil, "x.." bytes
}

// expectation of the chain oracle at a dump: addr -> payload token ("." absent)
type c17store struct {
	N       int                 `json:"n"`
	Ops     []c17sop            `json:"ops"`
	Expect  map[int][2][]string `json:"expect,omitempty"` // op index of a dump -> [short row, long row] the chain semantics demand (memory and db)
	Comment string              `json:"comment,omitempty"`
}

func c17addr(i int) common.Address {
	var a common.Address
	a[0] = 0xC1
	a[18] = byte(i >> 8)
	a[19] = byte(i)
	return a
}

func c17payload(tok string) []byte {
	if tok == "-" {
		return nil
	}
	b, err := hx.UnHex(tok)
	if err != nil {
		panic(err)
	}
	return b
}

func ptok(present bool, p []byte) string {
	if !present {
		return "."
	}
	return hx.Hex(p)
}

func c17kind(short bool) string {
	if short {
		return "s"
	}
	return "l"
}

type c17storeRun struct {
	st  *ceremony.VerifC17Store
	db  dbm.DB
	n   int
	cfg *config.Config
}

func (r *c17storeRun) rows() (mem [2][]string, dbr [2][]string) {
	short, long := r.st.Mem()
	row := func(es []ceremony.VerifC17Entry) []string {
		res := make([]string, r.n)
		for i := range res {
			res[i] = "."
		}
		for _, e := range es {
			for i := 0; i < r.n; i++ {
				if e.Addr == c17addr(i) {
					res[i] = ptok(true, e.Payload)
				}
			}
		}
		return res
	}
	mem = [2][]string{row(short), row(long)}
	ds, dl := database.NewEpochDb(r.db, 7).ReadAnswers()
	drow := func(es []database.DbAnswer) []string {
		res := make([]string, r.n)
		for i := range res {
			res[i] = "."
		}
		for _, e := range es {
			for i := 0; i < r.n; i++ {
				if e.Addr == c17addr(i) {
					res[i] = ptok(true, e.Ans)
				}
			}
		}
		return res
	}
	dbr = [2][]string{drow(ds), drow(dl)}
	return
}

func (r *c17storeRun) dump() string {
	mem, dbr := r.rows()
	return "mem s[" + strings.Join(mem[0], " ") + "] l[" + strings.Join(mem[1], " ") + "] db s[" + strings.Join(dbr[0], " ") + "] l[" + strings.Join(dbr[1], " ") + "]"
}

func (o c17sop) line() string {
	switch o.Op {
	case "add":
		return fmt.Sprintf("add %s %d %s", c17kind(o.Short), o.Addr, o.Payload)
	case "rm":
		return fmt.Sprintf("rm %s %d", c17kind(o.Short), o.Addr)
	}
	return o.Op
}

// c17runStore executes the history on the real store; returns answers per op and the first oracle failure
func c17runStore(cs c17store) (answers []string, failure string) {
	db := dbm.NewMemDB()
	cfg := &config.Config{Consensus: config.ConsensusVersions[config.ConsensusV12]}
	r := &c17storeRun{db: db, n: cs.N, cfg: cfg}
	r.st = ceremony.NewVerifC17Store(cfg, db, 7)
	for i, op := range cs.Ops {
		ans := func() (a string) {
			defer func() {
				if rec := recover(); rec != nil {
					a = "panic"
				}
			}()
			switch op.Op {
			case "add":
				r.st.Add(op.Short, c17addr(op.Addr), c17payload(op.Payload))
			case "rm":
				r.st.Remove(op.Short, c17addr(op.Addr))
			case "persist":
				r.st.Persist()
			case "restore":
				r.st.Restore()
			case "fresh":
				r.st.Fresh()
			case "dump":
				return r.dump()
			default:
				return "bad-op"
			}
			return "ok"
		}()
		answers = append(answers, ans)
		if ans == "panic" && failure == "" {
			failure = fmt.Sprintf("op %d (%s) panicked", i, op.line())
		}
		if exp, ok := cs.Expect[i]; ok && op.Op == "dump" && failure == "" {
			mem, dbr := r.rows()
			for k := 0; k < 2; k++ {
				// nil and absent are told apart in memory by first-write-wins only; what evaluation reads is the payload
				if strings.Join(mem[k], " ") != strings.Join(exp[k], " ") {
					failure = fmt.Sprintf("op %d: memory %s answers [%s], the chain's first writes are [%s]", i, c17kind(k == 0), strings.Join(mem[k], " "), strings.Join(exp[k], " "))
				} else if strings.Join(dbr[k], " ") != strings.Join(exp[k], " ") {
					failure = fmt.Sprintf("op %d: database %s answers [%s], the chain's first writes are [%s]", i, c17kind(k == 0), strings.Join(dbr[k], " "), strings.Join(exp[k], " "))
				}
			}
		}
	}
	return
}

func c17shrinkStore(cs c17store) c17store {
	fails := func(c c17store) bool { _, f := c17runStore(c); return f != "" }
	for changed := true; changed; {
		changed = false
		for i := 0; i < len(cs.Ops); i++ {
			if _, isExp := cs.Expect[i]; isExp {
				continue
			}
			t := c17store{N: cs.N, Comment: cs.Comment, Expect: map[int][2][]string{}}
			t.Ops = append(append([]c17sop{}, cs.Ops[:i]...), cs.Ops[i+1:]...)
			for k, v := range cs.Expect {
				if k > i {
					t.Expect[k-1] = v
				} else {
					t.Expect[k] = v
				}
			}
			// removing an op of a chain run changes what the chain demands; only drop ops whose removal keeps the
			// failure AND that are not state-changing chain ops (restarts, crashes, persists are fair game)
			if cs.Ops[i].Op == "add" || cs.Ops[i].Op == "rm" {
				continue
			}
			if fails(t) {
				cs, changed = t, true
				i--
			}
		}
	}
	return cs
}

func c17emitStore(c *hx.Ctx, cs c17store) {
	c.Line(fmt.Sprintf("new store %d", cs.N), "ok")
	answers, failure := c17runStore(cs)
	for i, op := range cs.Ops {
		c.Line(op.line(), answers[i])
		c.Hit("store-op:" + op.Op)
	}
	if failure != "" {
		small := c17shrinkStore(cs)
		_, f2 := c17runStore(small)
		if f2 == "" {
			small, f2 = cs, failure
		}
		sig := "C17:store-not-function-of-chain"
		if strings.Contains(f2, "panicked") {
			sig = "C17:store-panic"
		}
		c.Fail(sig, f2, c17case{Kind: "store", Store: &small})
	}
}

type c17tx struct {
	short   bool
	addr    int
	payload string
}

// first writes of a transaction list, as rows
func c17firstWrites(n int, txs []c17tx) [2][]string {
	var rows [2][]string
	for k := 0; k < 2; k++ {
		rows[k] = make([]string, n)
		for i := range rows[k] {
			rows[k][i] = "."
		}
	}
	for _, t := range txs {
		k := 1
		if t.short {
			k = 0
		}
		if rows[k][t.addr] == "." {
			rows[k][t.addr] = t.payload
		}
	}
	return rows
}

// c17genChainRun: a chain of blocks lived through with crashes and restarts, optionally a reorg; with expectations
func c17genChainRun(c *hx.Ctx) c17store {
	r := c.Rng
	n := 2 + r.Intn(5)
	cs := c17store{N: n, Expect: map[int][2][]string{}, Comment: "chain run"}
	used := map[[2]int]bool{}
	dups := r.Intn(3) == 0 // chains with a second tx of the same kind and sender (never reverted in these runs)
	payload := func() string {
		if r.Intn(6) == 0 {
			return "-" // decoded empty payload
		}
		b := make([]byte, 1+r.Intn(3))
		r.Read(b)
		return hx.Hex(b)
	}
	genBlock := func(allowDup bool) []c17tx {
		var b []c17tx
		for j, m := 0, r.Intn(4); j < m; j++ {
			t := c17tx{short: r.Intn(2) == 0, addr: r.Intn(n), payload: payload()}
			k := [2]int{map[bool]int{true: 0, false: 1}[t.short], t.addr}
			if used[k] && !allowDup {
				continue
			}
			used[k] = true
			b = append(b, t)
		}
		return b
	}
	addAll := func(txs []c17tx) {
		for _, t := range txs {
			cs.Ops = append(cs.Ops, c17sop{Op: "add", Short: t.short, Addr: t.addr, Payload: t.payload})
		}
	}
	restart := func() { cs.Ops = append(cs.Ops, c17sop{Op: "fresh"}, c17sop{Op: "restore"}) }
	expect := func(chain []c17tx) {
		cs.Ops = append(cs.Ops, c17sop{Op: "dump"})
		cs.Expect[len(cs.Ops)-1] = c17firstWrites(n, chain)
	}
	var chain []c17tx
	runBlock := func(b []c17tx) {
		// crashes before the block's persist: the restarted node re-processes the head block
		for r.Intn(4) == 0 {
			addAll(b[:r.Intn(len(b)+1)])
			restart()
			c.Hit("store:crash-mid-block")
		}
		addAll(b)
		cs.Ops = append(cs.Ops, c17sop{Op: "persist"})
		chain = append(chain, b...)
		expect(chain)
		for r.Intn(5) == 0 {
			restart()
			addAll(b)
			cs.Ops = append(cs.Ops, c17sop{Op: "persist"})
			expect(chain)
			c.Hit("store:restart-after-block")
		}
	}
	nb := 1 + r.Intn(5)
	var blocks [][]c17tx
	for i := 0; i < nb; i++ {
		b := genBlock(dups)
		blocks = append(blocks, b)
		runBlock(b)
	}
	if !dups && r.Intn(2) == 0 && len(blocks) > 0 {
		// reorg: the last k blocks are reverted (reset handler: remove by sender, then persist), another branch follows
		k := 1 + r.Intn(len(blocks))
		keep := blocks[:len(blocks)-k]
		var reverted []c17tx
		for _, b := range blocks[len(blocks)-k:] {
			reverted = append(reverted, b...)
		}
		for _, t := range reverted {
			cs.Ops = append(cs.Ops, c17sop{Op: "rm", Short: t.short, Addr: t.addr})
			delete(used, [2]int{map[bool]int{true: 0, false: 1}[t.short], t.addr})
		}
		cs.Ops = append(cs.Ops, c17sop{Op: "persist"})
		chain = nil
		for _, b := range keep {
			chain = append(chain, b...)
		}
		expect(chain)
		c.Hit("store:reorg")
		if r.Intn(3) == 0 {
			restart()
			expect(chain)
		}
		for i, m := 0, r.Intn(3); i < m; i++ {
			runBlock(genBlock(false))
		}
	}
	return cs
}

// c17genFree: arbitrary op sequences incl. non-nil empty payloads and restore on a live instance (model correspondence only)
func c17genFree(c *hx.Ctx) c17store {
	r := c.Rng
	n := 1 + r.Intn(4)
	cs := c17store{N: n, Comment: "free ops"}
	for i, m := 0, 1+r.Intn(25); i < m; i++ {
		switch r.Intn(12) {
		case 0, 1, 2, 3:
			p := "-"
			switch r.Intn(5) {
			case 0:
			case 1:
				p = "x" // non-nil empty: only a locally created transaction object can carry it
				c.Hit("store:nonnil-empty-payload")
			default:
				p = hx.Hex([]byte{byte(r.Intn(3))})
			}
			cs.Ops = append(cs.Ops, c17sop{Op: "add", Short: r.Intn(2) == 0, Addr: r.Intn(n), Payload: p})
		case 4, 5:
			cs.Ops = append(cs.Ops, c17sop{Op: "rm", Short: r.Intn(2) == 0, Addr: r.Intn(n)})
		case 6, 7:
			cs.Ops = append(cs.Ops, c17sop{Op: "persist"})
		case 8:
			cs.Ops = append(cs.Ops, c17sop{Op: "restore"})
		case 9:
			cs.Ops = append(cs.Ops, c17sop{Op: "fresh"}, c17sop{Op: "restore"})
		case 10:
			cs.Ops = append(cs.Ops, c17sop{Op: "fresh"})
		default:
			cs.Ops = append(cs.Ops, c17sop{Op: "dump"})
		}
	}
	cs.Ops = append(cs.Ops, c17sop{Op: "dump"})
	return cs
}

func c17stores(c *hx.Ctx) {
	n := c.Scale(3000, 60000)
	for i := 0; i < n; i++ {
		var cs c17store
		if i%3 == 2 {
			cs = c17genFree(c)
		} else {
			cs = c17genChainRun(c)
		}
		c17emitStore(c, cs)
		c.Rep.Evaluations++
		key, _ := json.Marshal(cs.Ops)
		if len(cs.Ops) > 2 && c.Distinct("store:"+string(key)) {
			c.Rep.Distinct++
		}
		if i < 1 {
			c.Sample(c17case{Kind: "store", Store: &cs})
		}
	}
}

var _ = bytes.Compare
