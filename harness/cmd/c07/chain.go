package main

// C07, real-chain routes: certificates across IdentityUpdate blocks through the real ValidateSubChain, and committees of a
// live (incrementally updated) validators cache against a reloaded one, incl. god-only mode with god hand-overs.
// The reference (committee, required votes) is computed from the dumped identity-state records and the state's god address
// BEFORE the block the certificate is for - not from any validators cache.

import (
	"crypto/ecdsa"
	"fmt"
	"math/rand"
	"strings"
	"time"

	"github.com/idena-network/idena-go/blockchain/types"
	"github.com/idena-network/idena-go/common"
	"github.com/idena-network/idena-go/core/state"
	"github.com/idena-network/idena-go/core/validators"
	"github.com/idena-network/idena-go/crypto"

	"verifharness/internal/chainfx"
	"verifharness/internal/pairfx"
)

type c07chain struct {
	Mode   string `json:"mode"` // switch | god | rollback
	Seed   int64  `json:"seed"`
	Blocks int    `json:"blocks"`
}

func c07dumpRecs(ids *state.IdentityStateDB) (recs []c07rec) {
	ids.IterateIdentities(func(key []byte, value []byte) bool {
		if key == nil {
			return true
		}
		var a common.Address
		a.SetBytes(key[1:])
		var d state.ApprovedIdentity
		if err := d.FromBytes(value); err != nil {
			return false
		}
		recs = append(recs, c07rec{Addr: a, On: d.Online, Val: d.Validated, Disc: d.Discriminated, Del: d.Delegatee})
		return false
	})
	return
}

// what is known before block `blk` is inserted
type c07pre struct {
	recs []c07rec
	god  common.Address
	prev *types.Header
}

type c07bundle struct {
	blk      *types.Block
	pre      c07pre
	postRecs []c07rec
	postGod  common.Address
	cert     *types.BlockCert // genuine, exactly the required number of distinct eligible voters (Final step)
	need     int
	approved []common.Address
}

type c07chainRun struct {
	steps  []uint8         // steps whose committee / certificates are checked before a block (default Final, 1)
	prefer *common.Address // an eligible voter that must sign the certificates when it is eligible
	out    *c07out
	keys   map[common.Address]*ecdsa.PrivateKey
	fail   string
	r      *rand.Rand
	evals  int
}

func (cr *c07chainRun) failf(format string, a ...interface{}) {
	if cr.fail == "" {
		cr.fail = fmt.Sprintf(format, a...)
	}
}

func c07permTokFor(n, online, limit int, prev *types.Header, round uint64, step uint8) (string, []int) {
	if online == 0 || n <= limit {
		return "-", nil
	}
	p := c07perm(prev.Seed(), round, step, n)
	s := make([]string, n)
	for i, x := range p {
		s[i] = fmt.Sprint(x)
	}
	return strings.Join(s, ","), p
}

// reference committee of (pre-state, height, step): approved addresses in a deterministic order + required votes
func c07refFor(pre c07pre, height uint64, step uint8) (ref c07refSV, need int, approved []common.Address, perm []int) {
	final := step == types.Final
	sorted, online := c07refSorted(pre.recs)
	limit := c07refSize(len(sorted), final)
	_, perm = c07permTokFor(len(sorted), online, limit, pre.prev, height, step)
	ref = c07refCommittee(pre.recs, pre.god, perm, limit)
	need = c07refNeed(len(sorted), final, len(ref.original), len(ref.approved))
	for _, r := range pre.recs {
		if ref.approved[r.Addr] {
			approved = append(approved, r.Addr)
		}
	}
	if ref.approved[pre.god] {
		seen := false
		for _, a := range approved {
			seen = seen || a == pre.god
		}
		if !seen {
			approved = append(approved, pre.god)
		}
	}
	// pool owners without a record of their own
	for a := range ref.approved {
		found := false
		for _, b := range approved {
			found = found || a == b
		}
		if !found {
			approved = append(approved, a)
		}
	}
	return
}

// a certificate of real signatures by `voters` over (height, step, prev hash, block hash)
func (cr *c07chainRun) mkCert(voters []common.Address, prev *types.Header, blk *types.Header, step uint8) (*types.BlockCert, []string, bool) {
	cert := &types.BlockCert{Round: blk.Height(), Step: step, VotedHash: blk.Hash()}
	var toks []string
	for i, a := range voters {
		k := cr.keys[a]
		if k == nil {
			return nil, nil, false
		}
		hdr := &types.VoteHeader{Round: blk.Height(), Step: step, ParentHash: prev.Hash(), VotedHash: blk.Hash(), TurnOffline: i%4 == 1, Upgrade: uint32(i % 3)}
		h := crypto.SignatureHash(&types.Vote{Header: hdr})
		sig, err := crypto.Sign(h[:], k)
		if err != nil {
			return nil, nil, false
		}
		cert.Signatures = append(cert.Signatures, &types.BlockCertSignature{Signature: sig, TurnOffline: hdr.TurnOffline, Upgrade: hdr.Upgrade})
		rv := types.Vote{Header: hdr, Signature: sig}
		rec := "-"
		if _, err := rv.PubKey(); err == nil {
			rec = c07dec(rv.VoterAddr())
		}
		toks = append(toks, fmt.Sprintf("%s/%s/%d/%s/%d/%d/h1/h3/%s/%d/0", rec, c07b(hdr.TurnOffline), hdr.Upgrade, c07dec(a),
			hdr.Round, hdr.Step, c07b(hdr.TurnOffline), hdr.Upgrade))
	}
	return cert, toks, true
}

// before a block: the live cache of node P (which processed every block live) against the reference, a reloaded cache
// and the model; exact-quorum and quorum-1 certificates through the real ValidateBlockCert with the live cache
func (cr *c07chainRun) beforeBlock(P *chainfx.Node, who string, pre c07pre, blk *types.Block) (bundleCert *types.BlockCert, bundleNeed int, bundleApproved []common.Address) {
	live := P.App.ValidatorsCache
	cr.out.line(c07newLine(pre.god, pre.recs), fmt.Sprintf("view n=%d on=%d net=%d", live.ValidatorsSize(), live.OnlineSize(), live.NetworkSize()))
	reloaded := validators.NewValidatorsCache(P.App.IdentityState, pre.god)
	reloaded.Load()
	height := blk.Height()
	steps := cr.steps
	if steps == nil {
		steps = []uint8{types.Final, 1}
	}
	for _, step := range steps {
		final := step == types.Final
		limit := P.Chain.GetCommitteeSize(live, final)
		permTok, _ := c07permTokFor(live.ValidatorsSize(), live.OnlineSize(), limit, pre.prev, height, step)
		var sv, sv2 *validators.StepValidators
		ans := "panic"
		func() {
			defer func() { recover() }()
			sv = live.GetOnlineValidators(pre.prev.Seed(), height, step, limit)
			sv2 = reloaded.GetOnlineValidators(pre.prev.Seed(), height, step, P.Chain.GetCommitteeSize(reloaded, final))
			if sv == nil {
				ans = "nil"
			} else {
				need := P.Chain.GetCommitteeVotesThreshold(live, final) - sv.VotesCountSubtrahend(P.Cfg.Consensus.AgreementThreshold)
				ans = "sv " + c07svStr(sv) + fmt.Sprintf(" size=%d thr=%d need=%d", limit, P.Chain.GetCommitteeVotesThreshold(live, final), need)
			}
		}()
		cr.out.line(fmt.Sprintf("com %d auto %s", step, permTok), ans)
		cr.out.hit("chain:com")
		cr.evals++
		ref, need, approved, _ := c07refFor(pre, height, step)
		if cr.prefer != nil {
			for i, a := range approved {
				if a == *cr.prefer {
					approved[0], approved[i] = approved[i], approved[0]
					cr.out.hit("chain:preferred-voter-signs")
				}
			}
		}
		if c07svStr(sv) != c07svStr(sv2) {
			cr.failf("live cache of the %s node before height %d (step %d) draws another committee than a cache reloaded from the same identity state and god address: live %s / reloaded %s", who, height, step, c07svStr(sv), c07svStr(sv2))
		}
		if sv != nil && !ref.mismatch && !ref.nilSV {
			same := sv.Original.Cardinality() == len(ref.original) && sv.ApprovedValidators.Cardinality() == len(ref.approved)
			for a := range ref.approved {
				same = same && sv.ApprovedValidators.Contains(a)
			}
			if !same {
				cr.failf("live cache of the %s node before height %d (step %d): committee %s differs from the reference committee of the identity state (approved %d, god %s)", who, height, step, c07svStr(sv), len(ref.approved), pre.god.Hex())
			}
		} else if sv == nil || ref.mismatch {
			cr.failf("live cache of the %s node before height %d: validators view differs from the reference", who, height)
		}
		// certificates with exactly need and need-1 distinct eligible voters
		for _, delta := range []int{0, -1} {
			d := need + delta
			if d < 0 || d > len(approved) || (delta == -1 && need < 1) {
				continue
			}
			cert, toks, ok := cr.mkCert(approved[:d], pre.prev, blk.Header, step)
			if !ok {
				cr.out.hit("chain:voter-without-key")
				continue
			}
			verdict := "panic"
			func() {
				defer func() { recover() }()
				verdict = c07classify(P.Chain.ValidateBlockCert(pre.prev, blk.Header, cert, live, nil))
			}()
			needS := "nil"
			if sv != nil {
				needS = fmt.Sprint(P.Chain.GetCommitteeVotesThreshold(live, final) - sv.VotesCountSubtrahend(P.Cfg.Consensus.AgreementThreshold))
			}
			opl := fmt.Sprintf("vc 0 %d %d h3 %d h3 h1 %s", step, height, height, permTok)
			if len(toks) > 0 {
				opl += " " + strings.Join(toks, " ")
			}
			cr.out.line(opl, verdict+" need="+needS)
			cr.out.hit("chain:vc:" + verdict)
			cr.evals++
			if delta == 0 && verdict != "ok" {
				cr.failf("certificate of %d genuine distinct eligible votes (required %d) for height %d step %d rejected: %s (live cache of the %s node)", d, need, height, step, verdict, who)
			}
			if delta == -1 && verdict == "ok" {
				cr.failf("certificate accepted with %d genuine distinct eligible votes, %d required (height %d step %d, live cache of the %s node)", d, need, height, step, who)
			}
			if delta == 0 && final {
				bundleCert, bundleNeed, bundleApproved = cert, need, approved
			}
		}
	}
	return
}

func c07hasFlag(b *types.Block, f types.BlockFlag) bool { return b.Header.Flags().HasFlag(f) }

// a window of blocks as a fork for the lagging replica B: real ValidateSubChain
func (cr *c07chainRun) subChain(B *chainfx.Node, win []c07bundle) {
	if len(win) == 0 || cr.fail != "" {
		return
	}
	for _, w := range win {
		if w.cert == nil {
			cr.out.hit("sub-chain:window-skipped(no-certificate)")
			return
		}
	}
	start := B.Chain.Head.Height()
	eval := func(mod func(i int, bb *types.BlockBundle)) (err error) {
		defer func() {
			if rec := recover(); rec != nil {
				err = fmt.Errorf("panic: %v", rec)
			}
		}()
		var bundles []types.BlockBundle
		for i, w := range win {
			nb, _ := chainfx.CloneBlock(w.blk)
			bb := types.BlockBundle{Block: nb, Cert: w.cert}
			if mod != nil {
				mod(i, &bb)
			}
			bundles = append(bundles, bb)
		}
		return B.Chain.ValidateSubChain(start, bundles)
	}
	heights := fmt.Sprintf("%d..%d", win[0].blk.Height(), win[len(win)-1].blk.Height())
	nUpd := 0
	for _, w := range win {
		if c07hasFlag(w.blk, types.IdentityUpdate) {
			nUpd++
		}
	}
	cr.evals++
	if err := eval(nil); err != nil {
		cr.failf("sub-chain %s (%d IdentityUpdate blocks) with a genuine exact-quorum certificate on every block refused by ValidateSubChain of a node on height %d: %v", heights, nUpd, start, err)
		return
	}
	cr.out.hit("sub-chain:genuine-accepted")
	if nUpd > 0 {
		cr.out.hit("sub-chain:genuine-accepted-across-identity-update")
	}
	// under-quorum certificate on the last block
	last := len(win) - 1
	if win[last].need >= 1 {
		if c, _, ok := cr.mkCert(win[last].approved[:win[last].need-1], win[last].pre.prev, win[last].blk.Header, types.Final); ok {
			cr.evals++
			if err := eval(func(i int, bb *types.BlockBundle) {
				if i == last {
					bb.Cert = c
				}
			}); err == nil {
				cr.failf("sub-chain %s accepted with a certificate of %d votes (%d required) on its last block", heights, win[last].need-1, win[last].need)
				return
			}
			cr.out.hit("sub-chain:under-quorum-refused")
		}
	}
	for i, w := range win {
		if !c07hasFlag(w.blk, types.IdentityUpdate) {
			continue
		}
		// the certificate the validator set AFTER this block would produce (same seed, round, step), with a voter who is
		// not eligible before the block
		post := c07pre{recs: w.postRecs, god: w.postGod, prev: w.pre.prev}
		_, needPost, apprPost, _ := c07refFor(post, w.blk.Height(), types.Final)
		pre := map[common.Address]bool{}
		for _, a := range w.approved {
			pre[a] = true
		}
		var voters []common.Address
		for _, a := range apprPost {
			if !pre[a] {
				voters = append(voters, a)
				break
			}
		}
		if len(voters) == 0 {
			cr.out.hit("sub-chain:identity-update-without-new-eligible-voter")
			continue
		}
		for _, a := range apprPost {
			if len(voters) >= needPost && len(voters) >= 1 {
				break
			}
			if a != voters[0] {
				voters = append(voters, a)
			}
		}
		c, _, ok := cr.mkCert(voters, w.pre.prev, w.blk.Header, types.Final)
		if !ok {
			continue
		}
		idx := i
		cr.evals++
		if err := eval(func(j int, bb *types.BlockBundle) {
			if j == idx {
				bb.Cert = c
			}
		}); err == nil {
			cr.failf("sub-chain %s accepted although the certificate of IdentityUpdate block %d is signed by the validator set AFTER that block (%d voters, %s is not eligible before it)", heights, w.blk.Height(), len(voters), voters[0].Hex())
			return
		}
		cr.out.hit("sub-chain:later-set-certificate-refused")
		cr.evals++
		if err := eval(func(j int, bb *types.BlockBundle) {
			if j == idx {
				bb.Cert = nil
			}
		}); err == nil {
			cr.failf("sub-chain %s accepted without a certificate on IdentityUpdate block %d", heights, w.blk.Height())
			return
		}
	}
}

func c07runChain(ch c07chain) (out *c07out, failure string) {
	out = &c07out{}
	cr := &c07chainRun{out: out, keys: map[common.Address]*ecdsa.PrivateKey{}, r: rand.New(rand.NewSource(ch.Seed ^ 0x5eed))}
	defer func() {
		if rec := recover(); rec != nil {
			failure = fmt.Sprintf("chain history broken: panic %v", rec)
		}
		out.evals = cr.evals
	}()
	if ch.Mode == "rollback" {
		return out, c07runRollback(ch, cr)
	}
	var A, B, C *chainfx.Node
	var W *chainfx.World
	var H *chainfx.History
	var S *chainfx.Sender
	switch ch.Mode {
	case "switch":
		p, err := pairfx.NewPairWith(ch.Seed, true, 10, func(w *chainfx.World, o *chainfx.HistoryOpts) {
			o.TxPerBlock = 5
		})
		if err != nil {
			return out, "chain history broken: " + err.Error()
		}
		A, B, W, H, S = p.A, p.B, p.W, p.H, p.H.S
	default: // god-only mode: nobody ever goes online; the god address is handed over twice
		W = chainfx.NewWorld(ch.Seed, 6, 0, time.Date(2030, 1, 1, 0, 0, 0, 0, time.UTC))
		chainfx.SetTime(W.T0)
		var err error
		if A, err = W.StartNode(nil, 0, true); err != nil {
			return out, "chain history broken: " + err.Error()
		}
		if B, err = W.StartNode(nil, 1, true); err != nil {
			return out, "chain history broken: " + err.Error()
		}
		if C, err = W.StartNode(nil, 2, true); err != nil {
			return out, "chain history broken: " + err.Error()
		}
		S = chainfx.NewSender(W)
	}
	for i, k := range W.Keys {
		cr.keys[W.Addrs[i]] = k
	}
	P, F := A, C // proposing node, live follower
	var win []c07bundle
	winLen := 2 + cr.r.Intn(4)
	flush := func() {
		cr.subChain(B, win)
		for _, w := range win {
			nb, _ := chainfx.CloneBlock(w.blk)
			if err := B.Add(nb); err != nil {
				cr.failf("chain history broken: lagging replica refuses block %d: %v", w.blk.Height(), err)
			}
		}
		win = nil
		winLen = 2 + cr.r.Intn(4)
	}
	for b := 1; b <= ch.Blocks && cr.fail == ""; b++ {
		if ch.Mode == "switch" {
			H.OfferTxs(b)
			// extra status changes, so that most status-switch blocks change the committee
			for j, n := 0, cr.r.Intn(3); j < n; j++ {
				i := 2 + cr.r.Intn(len(W.Keys)-2)
				if A.App.State.ValidationPeriod() == state.NonePeriod && A.App.ValidatorsCache.IsValidated(W.Addrs[i]) {
					S.Send(A, i, chainfx.OnlineTx(!A.App.ValidatorsCache.IsOnlineIdentity(W.Addrs[i])))
				}
			}
		} else {
			god := P.App.State.GodAddress()
			gi := W.Index(god)
			if (b == 3 || b == 8) && gi >= 0 { // hand the god role over: 0 -> 2 -> 0
				to := W.Addrs[2-gi]
				if _, err := S.Send(P, gi, &types.Transaction{Type: types.ChangeGodAddressTx, To: &to}); err == nil {
					out.hit("chain:god-handover-tx-sent")
				}
			}
			if cr.r.Intn(2) == 0 {
				to := W.Addrs[1+cr.r.Intn(len(W.Addrs)-1)]
				S.Send(P, 1+cr.r.Intn(len(W.Keys)-1), &types.Transaction{Type: types.SendTx, To: &to, Amount: chainfx.Dna(1)})
			}
		}
		chainfx.Advance(20 * time.Second)
		if !P.IsEligibleProposer() && F != nil && F.IsEligibleProposer() {
			P, F = F, P
			out.hit("chain:proposer-changed(god-handover-done)")
		}
		if !P.IsEligibleProposer() {
			cr.failf("chain history broken: nobody may propose at block %d", b)
			break
		}
		pre := c07pre{recs: c07dumpRecs(P.App.IdentityState), god: P.App.State.GodAddress(), prev: P.Chain.Head}
		prop, err := P.Propose()
		if err != nil {
			cr.failf("chain history broken: propose %d: %v", b, err)
			break
		}
		blk := prop.Block
		who := "proposing"
		cert, need, approved := cr.beforeBlock(P, who, pre, blk)
		if F != nil { // the follower processed the same blocks live: its cache must give the same answers
			fpre := c07pre{recs: c07dumpRecs(F.App.IdentityState), god: F.App.State.GodAddress(), prev: F.Chain.Head}
			cr.beforeBlock(F, "following", fpre, blk)
		}
		if err := P.Add(blk); err != nil {
			cr.failf("chain history broken: own block %d refused: %v", blk.Height(), err)
			break
		}
		if F != nil {
			nb, _ := chainfx.CloneBlock(blk)
			if err := F.Add(nb); err != nil {
				cr.failf("chain history broken: follower refuses block %d: %v", blk.Height(), err)
				break
			}
		}
		if c07hasFlag(blk, types.IdentityUpdate) {
			out.hit("chain:identity-update-block")
		}
		if c07hasFlag(blk, types.ValidationFinished) {
			out.hit("chain:validation-finished-block")
		}
		win = append(win, c07bundle{blk: blk, pre: pre, postRecs: c07dumpRecs(P.App.IdentityState), postGod: P.App.State.GodAddress(), cert: cert, need: need, approved: approved})
		if len(win) >= winLen {
			flush()
		}
	}
	if cr.fail == "" {
		flush()
	}
	return out, cr.fail
}

func c07shrinkChain(cs c07case) c07case {
	_, f0, _ := c07run(cs)
	cls := c07sigClass(f0)
	best := cs
	for _, n := range []int{4, 6, 8, 12, 16, 24, 32} {
		if n >= cs.Chain.Blocks {
			break
		}
		ch := *cs.Chain
		ch.Blocks = n
		t := c07case{Chain: &ch}
		if _, f, _ := c07run(t); f != "" && c07sigClass(f) == cls {
			best = t
			break
		}
	}
	return best
}

// rollback route: a long-running node R applies a delegation incrementally (delegation-switch block, IdentityUpdate) on a
// branch that is then abandoned: Chain.ResetTo below it (the real AppState.ResetTo -> ValidatorsCache.Load on the ALREADY
// POPULATED cache), then R follows another branch without that delegation.  On every following block R's live cache must
// draw the committee of a freshly loaded cache / the reference / the model, and exact-quorum certificates signed (among
// others) by the formerly delegating identity must pass ValidateBlockCert on R.
func c07runRollback(ch c07chain, cr *c07chainRun) string {
	out := cr.out
	r := cr.r
	states := []state.IdentityState{state.Verified, state.Human, state.Verified, state.Human, state.Verified, state.Human, state.Verified}
	W := chainfx.NewWorldStates(ch.Seed, 7, 0, time.Date(2030, 1, 1, 0, 0, 0, 0, time.UTC), state.Verified, states)
	W.Seasoned()
	H, err := chainfx.Bootstrap(W, chainfx.HistoryOpts{}, r, true)
	if err != nil {
		return "chain history broken: " + err.Error()
	}
	A, S := H.N, H.S
	A2, err := W.StartNode(nil, 0, true) // the same proposing identity on another replica: it will build the other branch
	if err != nil {
		return "chain history broken: " + err.Error()
	}
	R, err := W.StartNode(nil, 1, true) // the long-running node that will roll back
	if err != nil {
		return "chain history broken: " + err.Error()
	}
	for i, k := range W.Keys {
		cr.keys[W.Addrs[i]] = k
	}
	step := func(P *chainfx.Node, followers ...*chainfx.Node) (*types.Block, string) {
		chainfx.Advance(20 * time.Second)
		if !P.IsEligibleProposer() {
			return nil, "chain history broken: proposer not eligible"
		}
		prop, err := P.Propose()
		if err != nil {
			return nil, "chain history broken: " + err.Error()
		}
		if err := P.Add(prop.Block); err != nil {
			return nil, "chain history broken: own block refused: " + err.Error()
		}
		for _, f := range followers {
			nb, _ := chainfx.CloneBlock(prop.Block)
			if err := f.Add(nb); err != nil {
				return nil, fmt.Sprintf("chain history broken: follower refuses block %d: %v", prop.Block.Height(), err)
			}
		}
		return prop.Block, ""
	}
	// common prefix: everybody goes online
	if _, f := step(A, A2, R); f != "" {
		return f
	}
	for i := 1; i < len(W.Keys); i++ {
		S.Send(A, i, chainfx.OnlineTx(true))
	}
	allOnline := func() bool {
		for i := range W.Keys {
			if !A.App.ValidatorsCache.IsOnlineIdentity(W.Addrs[i]) {
				return false
			}
		}
		return true
	}
	for b := 0; b < 10 && !allOnline(); b++ {
		if _, f := step(A, A2, R); f != "" {
			return f
		}
	}
	if !allOnline() {
		return "chain history broken: identities did not go online"
	}
	for b, n := 0, r.Intn(3); b < n; b++ {
		if _, f := step(A, A2, R); f != "" {
			return f
		}
	}
	h0 := A.Chain.Head.Height()
	// abandoned branch: d delegates to p; followed live by R until the delegation-switch block applied it
	di := 2 + r.Intn(len(W.Keys)-2)
	pi := 2 + r.Intn(len(W.Keys)-2)
	for pi == di {
		pi = 2 + r.Intn(len(W.Keys)-2)
	}
	d, p := W.Addrs[di], W.Addrs[pi]
	if _, err := S.Send(A, di, &types.Transaction{Type: types.DelegateTx, To: &p}); err != nil {
		return "chain history broken: delegate tx: " + err.Error()
	}
	applied := false
	for b := 0; b < 12 && !applied; b++ {
		blk, f := step(A, R)
		if f != "" {
			return f
		}
		if R.App.ValidatorsCache.Delegator(d) == p {
			applied = true
			if !c07hasFlag(blk, types.IdentityUpdate) {
				return "chain history broken: delegation applied by a block without the IdentityUpdate flag"
			}
			out.hit("rollback:delegation-applied-incrementally-at-identity-update-block")
		}
	}
	if !applied {
		return "chain history broken: delegation was not applied"
	}
	for b, n := 0, r.Intn(2); b < n; b++ {
		if _, f := step(A, R); f != "" {
			return f
		}
	}
	// fork switch on R: the real Blockchain.ResetTo (AppState.ResetTo -> ValidatorsCache.Load on the populated cache)
	var rerr error
	func() {
		defer func() {
			if rec := recover(); rec != nil {
				rerr = fmt.Errorf("panic: %v", rec)
			}
		}()
		_, rerr = R.Chain.ResetTo(h0)
	}()
	if rerr != nil {
		return "chain history broken: ResetTo: " + rerr.Error()
	}
	if R.Chain.Head.Hash() != A2.Chain.Head.Hash() {
		return "chain history broken: rolled back node is not on the common ancestor"
	}
	out.hit("rollback:reset-below-delegation")
	// the other branch (no delegation), built by A2 and followed by R
	cr.steps = []uint8{types.Final, 1, 2, types.ReductionOne}
	cr.prefer = &d
	S2 := chainfx.NewSender(W)
	for b := 1; b <= ch.Blocks && cr.fail == ""; b++ {
		if r.Intn(2) == 0 {
			to := W.Addrs[1+r.Intn(len(W.Addrs)-1)]
			S2.Send(A2, 1+r.Intn(len(W.Keys)-1), &types.Transaction{Type: types.SendTx, To: &to, Amount: chainfx.Dna(1)})
		}
		chainfx.Advance(20 * time.Second)
		if !A2.IsEligibleProposer() {
			return "chain history broken: proposer of the other branch not eligible"
		}
		prop, err := A2.Propose()
		if err != nil {
			return "chain history broken: " + err.Error()
		}
		pre := c07pre{recs: c07dumpRecs(R.App.IdentityState), god: R.App.State.GodAddress(), prev: R.Chain.Head}
		cr.beforeBlock(R, "rolled-back", pre, prop.Block)
		if err := A2.Add(prop.Block); err != nil {
			return "chain history broken: own block refused: " + err.Error()
		}
		nb, _ := chainfx.CloneBlock(prop.Block)
		if err := R.Add(nb); err != nil {
			cr.failf("chain history broken: rolled back node refuses block %d of the other branch: %v", nb.Height(), err)
		}
		out.hit("rollback:block-on-other-branch")
	}
	return cr.fail
}
