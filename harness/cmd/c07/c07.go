package main

// C07: "a certificate is accepted iff it holds a quorum of distinct committee votes".
//
// Real code driven in process (through the build overlay, no /repo change):
//   - state.IdentityStateDB (real IAVL tree) + validators.ValidatorsCache.Load / GetOnlineValidators
//   - blockchain.Blockchain.ValidateBlockCert / GetCommitteeSize / GetCommitteeVotesThreshold, StepValidators.VotesCountSubtrahend
//   - pengings.Votes.AddVote, consensus.Engine.countVotes (shim VerifCountVotes), types.FullBlockCert.Compress
//   - real secp256k1 keys, crypto.Sign, Vote.PubKey/VoterAddr recovery
//
// Correspondence: every op line + the implementation's canonical answer go to the Lean model (Drivers/C07.lean).
// Independent oracle (this file, c07ref*): ground truth of who signed what + a reference committee computed from the
// dumped registry records, not from the code under test and not from the Lean model.

import (
	"crypto/ecdsa"
	"encoding/binary"
	"encoding/json"
	"fmt"
	"math"
	"math/big"
	"math/rand"
	"os"
	"runtime"
	"sort"
	"strings"
	"sync"
	"time"

	mapset "github.com/deckarep/golang-set"
	"github.com/idena-network/idena-go/blockchain"
	"github.com/idena-network/idena-go/blockchain/types"
	"github.com/idena-network/idena-go/common"
	"github.com/idena-network/idena-go/common/eventbus"
	"github.com/idena-network/idena-go/config"
	"github.com/idena-network/idena-go/consensus"
	"github.com/idena-network/idena-go/core/appstate"
	"github.com/idena-network/idena-go/core/state"
	"github.com/idena-network/idena-go/core/upgrade"
	"github.com/idena-network/idena-go/core/validators"
	"github.com/idena-network/idena-go/crypto"
	"github.com/idena-network/idena-go/pengings"
	"github.com/idena-network/idena-go/secstore"
	"github.com/idena-network/idena-go/stats/collector"
	dbm "github.com/tendermint/tm-db"

	"verifharness/internal/hx"
)

// ---------------------------------------------------------------------------------------------------------
// case format (replayable, no randomness left)

type c07ident struct {
	K    int  `json:"k"` // key index
	On   bool `json:"on,omitempty"`
	Val  bool `json:"val,omitempty"`
	Disc bool `json:"disc,omitempty"`
	Del  int  `json:"del"` // delegatee key index, -1 = none
}

// a signature / vote: which key signed which header fields, what the certificate carries, how the bytes were damaged
type c07sig struct {
	K      int    `json:"k"`
	Round  uint64 `json:"r"`
	Step   uint8  `json:"s"`
	Parent int    `json:"p"` // hash index
	Voted  int    `json:"v"` // hash index
	Off    bool   `json:"off,omitempty"`
	Upg    uint32 `json:"upg,omitempty"`
	COff   bool   `json:"coff,omitempty"` // flags carried next to the signature in the certificate
	CUpg   uint32 `json:"cupg,omitempty"`
	Tamper int    `json:"t,omitempty"` // 0 none, 1 bit flip, 2 truncated, 3 empty, 4 bad recovery id, 5 zeros
}

type c07op struct {
	Kind string `json:"kind"` // com | vc | cv
	Step uint8  `json:"step"`
	// com
	Limit int `json:"limit,omitempty"` // -1 = GetCommitteeSize
	// vc
	Cache     bool     `json:"cache,omitempty"`
	CertRound uint64   `json:"cround,omitempty"`
	CertVoted int      `json:"cvoted,omitempty"`
	Blk       int      `json:"blk,omitempty"`  // hash index of the header passed as `block`
	Prev      int      `json:"prev,omitempty"` // 1 | 2: header passed as `prevBlock`
	Sigs      []c07sig `json:"sigs,omitempty"`
	// cv
	Votes []c07sig `json:"votes,omitempty"`
	Late  []c07sig `json:"late,omitempty"`  // added while the counter sleeps between its first and second polling pass
	Late2 []c07sig `json:"late2,omitempty"` // added between the second and third polling pass
	Note  string   `json:"note,omitempty"`
}

type c07case struct {
	God int        `json:"god"`
	Ids []c07ident `json:"ids"` // the identity set behind the `validatorsCache` ARGUMENT of ValidateBlockCert
	// the node's own live state (chain.appState.ValidatorsCache): the same set, or another one (absent = a fresh
	// node, nobody online) - fast sync and fork validation pass a cache that is not the live one
	Chain    *c07chain  `json:"chain,omitempty"` // a real-chain scenario (chain.go) instead of a synthetic registry
	LiveSame bool       `json:"live_same,omitempty"`
	Live     []c07ident `json:"live,omitempty"`
	Seed     int64      `json:"seed"`
	Height   uint64     `json:"height"`
	Ops      []c07op    `json:"ops"`
}

// hash indexes (token h<k>)
const (
	hZero    = 0
	hPrev    = 1
	hAltPrev = 2
	hB0      = 3
	hB1      = 4
	hB2      = 5
	hBAlt    = 6 // block on the alternative parent
	hForeign = 7 // no header known
	hBNext   = 8 // block of the next height
	hCount   = 9
)

// ---------------------------------------------------------------------------------------------------------
// deterministic keys, cached signatures

var (
	c07mu     sync.Mutex
	c07keys   = map[int]*ecdsa.PrivateKey{}
	c07addrs  = map[int]common.Address{}
	c07sigMem = map[string][]byte{}
)

func c07key(i int) (*ecdsa.PrivateKey, common.Address) {
	c07mu.Lock()
	defer c07mu.Unlock()
	if k, ok := c07keys[i]; ok {
		return k, c07addrs[i]
	}
	for salt := 0; ; salt++ {
		d := crypto.Hash([]byte(fmt.Sprintf("verif-c07-key-%d-%d", i, salt)))
		k, err := crypto.ToECDSA(d[:])
		if err != nil {
			continue
		}
		c07keys[i] = k
		c07addrs[i] = crypto.PubkeyToAddress(k.PublicKey)
		return k, c07addrs[i]
	}
}

func c07addr(i int) common.Address { _, a := c07key(i); return a }

func c07sign(k int, h [32]byte) []byte {
	key := fmt.Sprintf("%d/%x", k, h)
	c07mu.Lock()
	s, ok := c07sigMem[key]
	c07mu.Unlock()
	if ok {
		return s
	}
	pk, _ := c07key(k)
	s, err := crypto.Sign(h[:], pk)
	if err != nil {
		panic(err)
	}
	c07mu.Lock()
	c07sigMem[key] = s
	c07mu.Unlock()
	return s
}

func c07dec(a common.Address) string { return new(big.Int).SetBytes(a[:]).String() }

// ---------------------------------------------------------------------------------------------------------
// fixture: real identity tree, real validators cache, real chain/engine objects

type c07rec struct { // one record of the real identity-state tree, as dumped
	Addr common.Address
	On   bool
	Val  bool
	Disc bool
	Del  *common.Address
}

type c07fx struct {
	cs     c07case
	cfg    *config.Config
	app    *appstate.AppState
	vc     *validators.ValidatorsCache
	vc2    *validators.ValidatorsCache // same identity set, loaded from a tree built in another order
	live   *validators.ValidatorsCache // the live cache of the chain object under test (differs from vc unless LiveSame)
	chain  *blockchain.Blockchain
	engine *consensus.Engine
	votes  *pengings.Votes
	hdr    map[int]*types.Header
	hash   [hCount]common.Hash
	recs   []c07rec
	keyOf  map[common.Address]int
	fast   map[string]common.Address // pubKeyToAddrCache of the fast-sync path, persistent over the case
	// admitted votes of round Height in admission order
	admitted []*types.Vote
}

func c07cfg() *config.Config {
	cons := blockchain.GetDefaultConsensusConfig()
	return &config.Config{Network: 0x99, Consensus: cons,
		GenesisConf:      &config.GenesisConf{FirstCeremonyTime: 4070908800},
		Validation:       &config.ValidationConfig{},
		Blockchain:       &config.BlockchainConfig{StoreCertRange: 2},
		OfflineDetection: config.GetDefaultOfflineDetectionConfig(), Mempool: config.GetDefaultMempoolConfig()}
}

func c07seed(s int64, tag byte) types.Seed {
	var b [9]byte
	binary.LittleEndian.PutUint64(b[:], uint64(s))
	b[8] = tag
	return types.Seed(crypto.Hash(b[:]))
}

func c07populate(ids *state.IdentityStateDB, list []c07ident, order []int, split int) error {
	for n, i := range order {
		id := list[i]
		a := c07addr(id.K)
		if id.On {
			ids.SetOnline(a, true)
		}
		if id.Val {
			ids.SetValidated(a, true)
		}
		if id.Disc {
			ids.SetDiscriminated(a, true)
		}
		if id.Del >= 0 {
			ids.SetDelegatee(a, c07addr(id.Del))
		}
		if !id.On && !id.Val && !id.Disc && id.Del < 0 {
			ids.SetOnline(a, false) // touch: an empty record, dropped by Commit(true)
		}
		if n+1 == split {
			if _, _, _, err := ids.Commit(true); err != nil {
				return err
			}
		}
	}
	_, _, _, err := ids.Commit(true)
	return err
}

func c07newFx(cs c07case) (*c07fx, error) {
	fx := &c07fx{cs: cs, cfg: c07cfg(), hdr: map[int]*types.Header{}, keyOf: map[common.Address]int{}, fast: map[string]common.Address{}}
	db := dbm.NewMemDB()
	bus := eventbus.New()
	app, err := appstate.NewAppState(db, bus)
	if err != nil {
		return nil, err
	}
	order := make([]int, len(cs.Ids))
	for i := range order {
		order[i] = i
	}
	if err := c07populate(app.IdentityState, cs.Ids, order, -1); err != nil {
		return nil, err
	}
	god := c07addr(cs.God)
	app.ValidatorsCache = validators.NewValidatorsCache(app.IdentityState, god)
	app.ValidatorsCache.Load()
	fx.app, fx.vc = app, app.ValidatorsCache

	// second route: reverse insertion order, two commits, own database
	ids2, err := state.NewLazyIdentityState(dbm.NewMemDB())
	if err != nil {
		return nil, err
	}
	rev := make([]int, len(cs.Ids))
	for i := range rev {
		rev[i] = len(cs.Ids) - 1 - i
	}
	if err := c07populate(ids2, cs.Ids, rev, len(cs.Ids)/2); err != nil {
		return nil, err
	}
	fx.vc2 = validators.NewValidatorsCache(ids2, god)
	fx.vc2.Load()

	// dump the real tree (ascending key order, as loadValidNodes sees it)
	app.IdentityState.IterateIdentities(func(key []byte, value []byte) bool {
		if key == nil {
			return true
		}
		var a common.Address
		a.SetBytes(key[1:])
		var d state.ApprovedIdentity
		if err := d.FromBytes(value); err != nil {
			return false
		}
		fx.recs = append(fx.recs, c07rec{Addr: a, On: d.Online, Val: d.Validated, Disc: d.Discriminated, Del: d.Delegatee})
		return false
	})

	// headers
	H := cs.Height
	prev := &types.Header{EmptyBlockHeader: &types.EmptyBlockHeader{Height: H - 1, BlockSeed: c07seed(cs.Seed, 1), Time: 1}}
	alt := &types.Header{EmptyBlockHeader: &types.EmptyBlockHeader{Height: H - 1, BlockSeed: c07seed(cs.Seed, 2), Time: 2}}
	fx.hdr[hPrev], fx.hdr[hAltPrev] = prev, alt
	fx.hdr[hB0] = &types.Header{EmptyBlockHeader: &types.EmptyBlockHeader{ParentHash: prev.Hash(), Height: H, Time: 10}}
	fx.hdr[hB1] = &types.Header{ProposedHeader: &types.ProposedHeader{ParentHash: prev.Hash(), Height: H, Time: 11, BlockSeed: c07seed(cs.Seed, 3)}}
	fx.hdr[hB2] = &types.Header{EmptyBlockHeader: &types.EmptyBlockHeader{ParentHash: prev.Hash(), Height: H, Time: 12}}
	fx.hdr[hBAlt] = &types.Header{EmptyBlockHeader: &types.EmptyBlockHeader{ParentHash: alt.Hash(), Height: H, Time: 13}}
	fx.hdr[hBNext] = &types.Header{EmptyBlockHeader: &types.EmptyBlockHeader{ParentHash: prev.Hash(), Height: H + 1, Time: 14}}
	for i, h := range fx.hdr {
		fx.hash[i] = h.Hash()
	}
	fx.hash[hForeign] = common.Hash(c07seed(cs.Seed, 9))

	ss := secstore.NewSecStore()
	offline := blockchain.NewOfflineDetector(fx.cfg, db, app, ss, bus)
	up := upgrade.NewUpgrader(fx.cfg, app, db)
	chainSelf := blockchain.NewBlockchain(fx.cfg, db, nil, app, nil, ss, bus, offline, nil, nil, up)
	chainSelf.Head = prev
	fx.chain = chainSelf
	if !cs.LiveSame {
		// the chain object whose ValidateBlockCert / threshold functions are called has ANOTHER live validator set
		ldb := dbm.NewMemDB()
		lapp, err := appstate.NewAppState(ldb, eventbus.New())
		if err != nil {
			return nil, err
		}
		lorder := make([]int, len(cs.Live))
		for i := range lorder {
			lorder[i] = i
		}
		if err := c07populate(lapp.IdentityState, cs.Live, lorder, -1); err != nil {
			return nil, err
		}
		lapp.ValidatorsCache = validators.NewValidatorsCache(lapp.IdentityState, god)
		lapp.ValidatorsCache.Load()
		fx.live = lapp.ValidatorsCache
		fx.chain = blockchain.NewBlockchain(fx.cfg, ldb, nil, lapp, nil, ss, eventbus.New(), nil, nil, nil, nil)
		fx.chain.Head = prev
	} else {
		fx.live = fx.vc
	}
	fx.votes = pengings.NewVotes(app, bus, offline, up)
	fx.votes.Initialize(prev)
	fx.engine = consensus.NewEngine(chainSelf, nil, nil, fx.cfg, app, fx.votes, nil, ss, nil, offline, up, nil, bus, collector.NewStatsCollector())

	fx.keyOf[god] = cs.God
	for _, id := range cs.Ids {
		fx.keyOf[c07addr(id.K)] = id.K
		if id.Del >= 0 {
			fx.keyOf[c07addr(id.Del)] = id.Del
		}
	}
	return fx, nil
}

func (fx *c07fx) newLine() string { return c07newLine(c07addr(fx.cs.God), fx.recs) }

func c07newLine(god common.Address, recs []c07rec) string {
	var sb strings.Builder
	sb.WriteString("new ")
	sb.WriteString(c07dec(god))
	b := func(x bool) byte {
		if x {
			return '1'
		}
		return '0'
	}
	for _, r := range recs {
		sb.WriteByte(' ')
		sb.WriteString(c07dec(r.Addr))
		sb.WriteByte(':')
		sb.WriteByte(b(r.On))
		sb.WriteByte(':')
		sb.WriteByte(b(r.Val))
		sb.WriteByte(':')
		sb.WriteByte(b(r.Disc))
		sb.WriteByte(':')
		if r.Del == nil {
			sb.WriteByte('-')
		} else {
			sb.WriteString(c07dec(*r.Del))
		}
	}
	return sb.String()
}

// the permutation exactly as validators.go:99-103 derives it
func c07perm(seed types.Seed, round uint64, step uint8, n int) []int {
	rndSeed := crypto.Hash([]byte(fmt.Sprintf("%v-%v-%v", common.Bytes2Hex(seed[:]), round, step)))
	randSeed := binary.LittleEndian.Uint64(rndSeed[:])
	return rand.New(rand.NewSource(int64(randSeed))).Perm(n)
}

// perm token: "-" when the code does not draw
func (fx *c07fx) permTok(vc *validators.ValidatorsCache, prev *types.Header, round uint64, step uint8, limit int) (string, []int) {
	n := vc.ValidatorsSize()
	if vc.OnlineSize() == 0 || n <= limit {
		return "-", nil
	}
	p := c07perm(prev.Seed(), round, step, n)
	s := make([]string, n)
	for i, x := range p {
		s[i] = fmt.Sprint(x)
	}
	return strings.Join(s, ","), p
}

func c07setStr(set mapset.Set) string {
	var l []*big.Int
	for _, x := range set.ToSlice() {
		a := x.(common.Address)
		l = append(l, new(big.Int).SetBytes(a[:]))
	}
	if len(l) == 0 {
		return "-"
	}
	sort.Slice(l, func(i, j int) bool { return l[i].Cmp(l[j]) < 0 })
	s := make([]string, len(l))
	for i, x := range l {
		s[i] = x.String()
	}
	return strings.Join(s, ",")
}

func c07svStr(sv *validators.StepValidators) string {
	if sv == nil {
		return "nil"
	}
	return "o=" + c07setStr(sv.Original) + " v=" + c07setStr(sv.Validators) + " a=" + c07setStr(sv.ApprovedValidators)
}

// ---------------------------------------------------------------------------------------------------------
// independent reference (oracle side): committee and required votes from the dumped records

type c07refSV struct {
	mismatch bool
	nilSV    bool
	original map[common.Address]bool
	approved map[common.Address]bool
}

func c07refSorted(recs []c07rec) (sorted []common.Address, online int) {
	byAddr := map[common.Address]c07rec{}
	for _, r := range recs {
		byAddr[r.Addr] = r
	}
	set := map[common.Address]bool{}
	for _, r := range recs {
		if !r.On {
			continue
		}
		online++
		if r.Val {
			set[r.Addr] = true
		}
		for _, d := range recs {
			if d.Del != nil && *d.Del == r.Addr {
				set[d.Addr] = true
			}
		}
	}
	for a := range set {
		sorted = append(sorted, a)
	}
	sort.Slice(sorted, func(i, j int) bool {
		return new(big.Int).SetBytes(sorted[i][:]).Cmp(new(big.Int).SetBytes(sorted[j][:])) > 0
	})
	return
}

func c07refCommittee(recs []c07rec, god common.Address, perm []int, limit int) c07refSV {
	sorted, online := c07refSorted(recs)
	res := c07refSV{original: map[common.Address]bool{}, approved: map[common.Address]bool{}}
	if online == 0 {
		res.original[god], res.approved[god] = true, true
		return res
	}
	switch {
	case len(sorted) == limit:
		for _, a := range sorted {
			res.original[a] = true
		}
	case len(sorted) < limit:
		res.nilSV = true
		return res
	default:
		for i := 0; i < limit; i++ {
			if i >= len(perm) || perm[i] >= len(sorted) {
				res.mismatch = true // the code under test has another validator list than the reference
				return res
			}
			res.original[sorted[perm[i]]] = true
		}
	}
	byAddr := map[common.Address]c07rec{}
	for _, r := range recs {
		byAddr[r.Addr] = r
	}
	poolApproved := func(p common.Address) bool {
		if r, ok := byAddr[p]; ok && r.Val && !r.Disc {
			return true
		}
		for _, r := range recs {
			if r.Del != nil && *r.Del == p && r.Val && !r.Disc {
				return true
			}
		}
		return false
	}
	for a := range res.original {
		r := byAddr[a]
		if r.Del != nil {
			if poolApproved(*r.Del) {
				res.approved[*r.Del] = true
			}
		} else if !r.Disc {
			res.approved[a] = true
		}
	}
	return res
}

// the protocol's formulas, restated with literal constants (independent of config and of the code under test)
func c07refSize(cnt int, final bool) int {
	if cnt <= 8 {
		return cnt
	}
	p := 0.3
	if final {
		p = 0.7
	}
	s := int(math.Round(float64(cnt) * p))
	if s > 100 {
		s = 100
	}
	return s
}

func c07refNeed(cnt int, final bool, original, approved int) int {
	var thr int
	switch {
	case cnt <= 1:
		thr = 1
	case cnt <= 3:
		thr = 2
	case cnt <= 5:
		thr = 3
	case cnt <= 7:
		thr = 4
	case cnt == 8:
		thr = 5
	default:
		thr = int(math.Round(float64(c07refSize(cnt, final)) * 0.65))
	}
	return thr - int(math.Round(float64(original-approved)*0.65))
}

// ---------------------------------------------------------------------------------------------------------
// execution

type c07out struct {
	lines    [][2]string
	fails    []hx.Failure
	hits     []string
	distinct []string
	evals    int
}

func (o *c07out) line(op, ans string) { o.lines = append(o.lines, [2]string{op, ans}) }
func (o *c07out) hit(b string)        { o.hits = append(o.hits, b) }

func (fx *c07fx) header(s c07sig) *types.VoteHeader {
	return &types.VoteHeader{Round: s.Round, Step: s.Step, ParentHash: fx.hash[s.Parent], VotedHash: fx.hash[s.Voted], TurnOffline: s.Off, Upgrade: s.Upg}
}

func c07tamper(sig []byte, mode int) []byte {
	s := append([]byte{}, sig...)
	switch mode {
	case 1:
		s[7] ^= 0x20
	case 2:
		s = s[:64]
	case 3:
		s = []byte{}
	case 4:
		s[64] = 7
	case 5:
		s = make([]byte, 65)
	}
	return s
}

func (fx *c07fx) sigBytes(s c07sig) []byte {
	v := &types.Vote{Header: fx.header(s)}
	h := crypto.SignatureHash(v)
	return c07tamper(c07sign(s.K, h), s.Tamper)
}

func c07b(x bool) string {
	if x {
		return "1"
	}
	return "0"
}

func c07classify(err error) string {
	if err == nil {
		return "ok"
	}
	m := err.Error()
	switch {
	case strings.HasPrefix(m, "invalid voter"):
		return "invalid-voter"
	case m == "invalid vote header":
		return "invalid-round"
	case m == "invalid voted hash":
		return "invalid-hash"
	case m == "invalid parent hash":
		return "invalid-parent"
	case m == "not enough votes":
		return "not-enough"
	}
	return "err-other"
}

func (fx *c07fx) realNeed(vc *validators.ValidatorsCache, sv *validators.StepValidators, final bool) string {
	if sv == nil {
		return "nil"
	}
	return fmt.Sprint(fx.chain.GetCommitteeVotesThreshold(vc, final) - sv.VotesCountSubtrahend(fx.cfg.Consensus.AgreementThreshold))
}

func (fx *c07fx) runCom(op c07op, out *c07out) string {
	final := op.Step == types.Final
	prev := fx.hdr[hPrev]
	limit := op.Limit
	limTok := fmt.Sprint(limit)
	if limit < 0 {
		limit = fx.chain.GetCommitteeSize(fx.vc, final)
		limTok = "auto"
	}
	permTok, perm := fx.permTok(fx.vc, prev, fx.cs.Height, op.Step, limit)
	var ans string
	var sv, sv2 *validators.StepValidators
	func() {
		defer func() {
			if r := recover(); r != nil {
				ans = "panic"
			}
		}()
		sv = fx.vc.GetOnlineValidators(prev.Seed(), fx.cs.Height, op.Step, limit)
		sv2 = fx.vc2.GetOnlineValidators(prev.Seed(), fx.cs.Height, op.Step, limit)
		if sv == nil {
			ans = "nil"
		} else {
			ans = "sv " + c07svStr(sv) + fmt.Sprintf(" size=%d thr=%d need=%s", fx.chain.GetCommitteeSize(fx.vc, final),
				fx.chain.GetCommitteeVotesThreshold(fx.vc, final), fx.realNeed(fx.vc, sv, final))
		}
	}()
	out.line(fmt.Sprintf("com %d %s %s", op.Step, limTok, permTok), ans)
	if sv == nil {
		out.hit("com:nil")
	} else {
		out.hit("com:sv")
	}
	// oracle: same committee from the same seed and identity set on a differently built replica, and = reference
	if c07svStr(sv) != c07svStr(sv2) {
		return fmt.Sprintf("committee differs between two caches loaded from the same identity set (step %d limit %d): %s vs %s", op.Step, limit, c07svStr(sv), c07svStr(sv2))
	}
	ref := c07refCommittee(fx.recs, c07addr(fx.cs.God), perm, limit)
	if ref.mismatch {
		return "committee: validator list of the cache differs from the reference list built from the same identity set"
	}
	if ref.nilSV != (sv == nil) {
		return fmt.Sprintf("committee nil=%v, reference nil=%v (step %d limit %d)", sv == nil, ref.nilSV, op.Step, limit)
	}
	if sv != nil {
		if sv.Original.Cardinality() != len(ref.original) || sv.ApprovedValidators.Cardinality() != len(ref.approved) {
			return fmt.Sprintf("committee sizes differ from reference: original %d/%d approved %d/%d", sv.Original.Cardinality(), len(ref.original), sv.ApprovedValidators.Cardinality(), len(ref.approved))
		}
		for a := range ref.original {
			if !sv.Original.Contains(a) {
				return "committee member set differs from reference draw"
			}
		}
		for a := range ref.approved {
			if !sv.ApprovedValidators.Contains(a) {
				return "approved set differs from reference"
			}
		}
		if fx.vc.OnlineSize() > 0 && fx.vc.ValidatorsSize() >= limit && sv.Original.Cardinality() != limit {
			return fmt.Sprintf("|Original| = %d but limit = %d", sv.Original.Cardinality(), limit)
		}
	}
	return ""
}

func (fx *c07fx) runVc(op c07op, out *c07out) string {
	final := op.Step == types.Final
	prev, blk := fx.hdr[op.Prev], fx.hdr[op.Blk]
	cert := &types.BlockCert{Round: op.CertRound, Step: op.Step, VotedHash: fx.hash[op.CertVoted]}
	var toks []string
	for _, s := range op.Sigs {
		sb := fx.sigBytes(s)
		cert.Signatures = append(cert.Signatures, &types.BlockCertSignature{Signature: sb, TurnOffline: s.COff, Upgrade: s.CUpg})
		// what the REAL recovery yields for the header the validator rebuilds
		rv := types.Vote{Header: &types.VoteHeader{Step: op.Step, Round: op.CertRound, TurnOffline: s.COff, Upgrade: s.CUpg,
			VotedHash: fx.hash[op.CertVoted], ParentHash: prev.Hash()}, Signature: sb}
		rec := "-"
		if _, err := rv.PubKey(); err == nil {
			rec = c07dec(rv.VoterAddr())
		}
		tm := "0"
		if s.Tamper != 0 {
			tm = "1"
		}
		toks = append(toks, fmt.Sprintf("%s/%s/%d/%s/%d/%d/h%d/h%d/%s/%d/%s", rec, c07b(s.COff), s.CUpg, c07dec(c07addr(s.K)),
			s.Round, s.Step, s.Parent, s.Voted, c07b(s.Off), s.Upg, tm))
	}
	limit := fx.chain.GetCommitteeSize(fx.vc, final)
	permTok, perm := fx.permTok(fx.vc, prev, blk.Height(), op.Step, limit)
	var cache map[string]common.Address
	if op.Cache {
		cache = fx.fast
	}
	var verdict string
	func() {
		defer func() {
			if r := recover(); r != nil {
				verdict = "panic"
			}
		}()
		verdict = c07classify(fx.chain.ValidateBlockCert(prev, blk, cert, fx.vc, cache))
	}()
	sv := fx.vc.GetOnlineValidators(prev.Seed(), blk.Height(), op.Step, limit)
	opl := fmt.Sprintf("vc %s %d %d h%d %d h%d h%d %s", c07b(op.Cache), op.Step, op.CertRound, op.CertVoted, blk.Height(), op.Blk, op.Prev, permTok)
	if len(toks) > 0 {
		opl += " " + strings.Join(toks, " ")
	}
	out.line(opl, verdict+" need="+fx.realNeed(fx.vc, sv, final))
	out.hit("vc:" + verdict)

	// ---- independent oracle: ground truth of who signed what
	ref := c07refCommittee(fx.recs, c07addr(fx.cs.God), perm, c07refSize(len(mustSorted(fx.recs)), final))
	if ref.mismatch {
		return "committee: validator list of the cache differs from the reference list built from the same identity set"
	}
	if ref.nilSV {
		return "" // not reachable through GetCommitteeSize
	}
	need := c07refNeed(len(mustSorted(fx.recs)), final, len(ref.original), len(ref.approved))
	genuine := map[common.Address]bool{}
	allGenuine := true
	for _, s := range op.Sigs {
		g := s.Tamper == 0 && ref.approved[c07addr(s.K)] &&
			s.Round == blk.Height() && s.Step == op.Step && fx.hash[s.Parent] == prev.Hash() && fx.hash[s.Voted] == blk.Hash() &&
			s.Off == s.COff && s.Upg == s.CUpg
		if g {
			genuine[c07addr(s.K)] = true
		} else {
			allGenuine = false
		}
	}
	d := len(genuine)
	switch {
	case d == need-1:
		out.hit("vc:genuine=need-1")
	case d == need:
		out.hit("vc:genuine=need")
	case d == need+1:
		out.hit("vc:genuine=need+1")
	}
	if need <= 0 {
		out.hit("vc:need<=0")
	}
	if verdict == "panic" {
		return "ValidateBlockCert panicked"
	}
	if verdict == "ok" && d < need {
		return fmt.Sprintf("certificate accepted with %d genuine distinct eligible votes, %d required", d, need)
	}
	if verdict == "ok" && (op.CertRound != blk.Height() || fx.hash[op.CertVoted] != blk.Hash()) {
		// With required >= 1 an accepted certificate holds a counted signature, and every counted signature has the
		// certificate's round and hash compared with the block.  With required <= 0 (finding F11: e.g. every validator
		// discriminated) a certificate without any counted signature (empty, or - on the fast-sync path - only
		// unrecoverable signatures, which are skipped) passes without its header being looked at: documented, not counted.
		untampered := false
		for _, s := range op.Sigs {
			if s.Tamper == 0 {
				untampered = true
			}
		}
		if need >= 1 || untampered {
			return "certificate with signatures accepted for another round or another block hash"
		}
		out.hit("vc:F11-no-counted-signature-other-block-accepted(required<=0)")
	}
	if verdict != "ok" && allGenuine && d >= need && op.CertRound == blk.Height() && fx.hash[op.CertVoted] == blk.Hash() {
		return fmt.Sprintf("certificate of %d genuine distinct eligible votes (required %d) rejected: %s", d, need, verdict)
	}
	return ""
}

func mustSorted(recs []c07rec) []common.Address { s, _ := c07refSorted(recs); return s }

func (fx *c07fx) mkVote(s c07sig) *types.Vote {
	return &types.Vote{Header: fx.header(s), Signature: fx.sigBytes(s)}
}

func c07voteTok(v *types.Vote, s c07sig) string {
	rec := "-"
	if _, err := v.PubKey(); err == nil {
		rec = c07dec(v.VoterAddr())
	}
	return fmt.Sprintf("%s/%d/%d/h%d/h%d/%s/%d", rec, s.Round, s.Step, s.Parent, s.Voted, c07b(s.Off), s.Upg)
}

func (fx *c07fx) runCv(op c07op, out *c07out) string {
	final := op.Step == types.Final
	prev := fx.hdr[hPrev]
	H := fx.cs.Height
	sigOf := map[*types.Vote]c07sig{}
	add := func(s c07sig) [2]string {
		v := fx.mkVote(s)
		tok := c07voteTok(v, s) // before AddVote: same recovery, cached inside the vote afterwards
		ok := false
		func() {
			defer func() { recover() }()
			ok = fx.votes.AddVote(v)
		}()
		if ok && s.Round == H {
			fx.admitted = append(fx.admitted, v)
			sigOf[v] = s
		}
		return [2]string{fmt.Sprintf("add %d %s", prev.Height(), tok), map[bool]string{true: "t", false: "f"}[ok]}
	}
	for _, s := range op.Votes {
		l := add(s)
		out.line(l[0], l[1])
		out.hit("add:" + l[1])
	}
	necessary := fx.chain.GetCommitteeVotesThreshold(fx.vc, final)
	timeout := 50 * time.Millisecond
	var lateLines [][2]string
	var wg sync.WaitGroup
	if len(op.Late)+len(op.Late2) > 0 {
		// the real loop polls at 0, 500, 1000, ... ms: wave 1 lands before the second pass, wave 2 before the third
		timeout = 2200 * time.Millisecond
		wg.Add(1)
		go func() {
			defer wg.Done()
			time.Sleep(150 * time.Millisecond)
			for _, s := range op.Late {
				lateLines = append(lateLines, add(s))
			}
			if len(op.Late2) > 0 {
				time.Sleep(500 * time.Millisecond)
				for _, s := range op.Late2 {
					lateLines = append(lateLines, add(s))
				}
			}
		}()
	}
	var hash common.Hash
	var cert *types.FullBlockCert
	var err error
	panicked := false
	func() {
		defer func() {
			if r := recover(); r != nil {
				panicked = true
			}
		}()
		hash, cert, err = fx.engine.VerifCountVotes(H, op.Step, prev.Hash(), necessary, timeout)
	}()
	wg.Wait()
	for _, l := range lateLines {
		out.line(l[0], l[1])
		out.hit("add-late:" + l[1])
	}
	limit := fx.chain.GetCommitteeSize(fx.vc, final)
	permTok, perm := fx.permTok(fx.vc, prev, H, op.Step, limit)
	sv := fx.vc.GetOnlineValidators(prev.Seed(), H, op.Step, limit)
	needS := fx.realNeed(fx.vc, sv, final)
	opl := fmt.Sprintf("cv %d %d h%d %s ", H, op.Step, hPrev, permTok)
	if panicked {
		out.line(opl+"none", "panic")
		return "countVotes panicked"
	}
	ref := c07refCommittee(fx.recs, c07addr(fx.cs.God), perm, c07refSize(len(mustSorted(fx.recs)), final))
	need := c07refNeed(len(mustSorted(fx.recs)), final, len(ref.original), len(ref.approved))
	if err != nil || cert == nil {
		out.line(opl+"none", "none need="+needS)
		out.hit("cv:none")
		if len(op.Late)+len(op.Late2) > 0 {
			out.hit("cv:none-despite-late-votes")
		}
		return ""
	}
	idx := make([]string, 0, len(cert.Votes))
	for _, v := range cert.Votes {
		k := -1
		for i, a := range fx.admitted {
			if a == v {
				k = i
			}
		}
		idx = append(idx, fmt.Sprint(k))
	}
	out.line(opl+"found/"+strings.Join(idx, ","), "found need="+needS+" cert=possible")
	out.hit("cv:found")
	if len(op.Late)+len(op.Late2) > 0 {
		out.hit("cv:found-after-late-votes")
	}
	if len(op.Late2) > 0 {
		out.hit("cv:found-with-votes-over-three-passes")
	}
	// ---- oracle 1: ground truth — the emitted certificate consists of >= required genuine votes of distinct
	// eligible members for one hash, this parent, this round, this step
	seen := map[common.Address]bool{}
	for _, v := range cert.Votes {
		s, ok := sigOf[v]
		if !ok {
			// admitted by an earlier cv op of the same case
			s = c07sig{K: -1}
		}
		if v.Header.VotedHash != hash || v.Header.ParentHash != prev.Hash() || v.Header.Round != H || v.Header.Step != op.Step {
			return "vote counter emitted a certificate containing a vote for another hash/parent/round/step"
		}
		if s.K >= 0 {
			if s.Tamper != 0 || !ref.approved[c07addr(s.K)] {
				return "vote counter counted a vote that is forged or from a non-eligible signer"
			}
			if seen[c07addr(s.K)] {
				return "vote counter counted one member twice"
			}
			seen[c07addr(s.K)] = true
		}
	}
	if len(cert.Votes) < need {
		return fmt.Sprintf("vote counter emitted a certificate of %d votes, %d required", len(cert.Votes), need)
	}
	// ---- oracle 2: what the counter emits must pass the real validator (on both paths)
	var blk *types.Header
	for _, i := range []int{hB0, hB1, hB2} {
		if fx.hash[i] == hash {
			blk = fx.hdr[i]
		}
	}
	if blk == nil {
		out.hit("cv:found-hash-without-header")
		return ""
	}
	comp := cert.Compress()
	for _, cache := range []map[string]common.Address{nil, fx.fast} {
		verdict := "panic"
		func() {
			defer func() { recover() }()
			verdict = c07classify(fx.chain.ValidateBlockCert(prev, blk, comp, fx.vc, cache))
		}()
		if verdict != "ok" {
			return "certificate emitted by the vote counter rejected by ValidateBlockCert: " + verdict
		}
	}
	// and goes through the model as an ordinary vc line
	var sigs []c07sig
	for _, v := range cert.Votes {
		s := sigOf[v]
		s.COff, s.CUpg = s.Off, s.Upg
		sigs = append(sigs, s)
	}
	allKnown := true
	for _, v := range cert.Votes {
		if _, ok := sigOf[v]; !ok {
			allKnown = false
		}
	}
	if allKnown {
		var bi int
		for _, i := range []int{hB0, hB1, hB2} {
			if fx.hash[i] == hash {
				bi = i
			}
		}
		return fx.runVc(c07op{Kind: "vc", Step: comp.Step, CertRound: comp.Round, CertVoted: bi, Blk: bi, Prev: hPrev, Sigs: sigs}, out)
	}
	return ""
}

// c07run executes a case on the real code; returns protocol lines and the first oracle failure per op
func c07run(cs c07case) (out *c07out, failure string, failOp int) {
	defer func() {
		if rec := recover(); rec != nil {
			out, failure, failOp = &c07out{}, fmt.Sprintf("panicked outside the guarded calls: %v", rec), -1
		}
	}()
	return c07runRaw(cs)
}

func c07runRaw(cs c07case) (out *c07out, failure string, failOp int) {
	if cs.Chain != nil {
		out, failure = c07runChain(*cs.Chain)
		return out, failure, -1
	}
	out = &c07out{}
	failOp = -1
	fx, err := c07newFx(cs)
	if err != nil {
		return out, "fixture: " + err.Error(), -1
	}
	out.line(fx.newLine(), fmt.Sprintf("view n=%d on=%d net=%d", fx.vc.ValidatorsSize(), fx.vc.OnlineSize(), fx.vc.NetworkSize()))
	if rs, ro := c07refSorted(fx.recs); len(rs) != fx.vc.ValidatorsSize() || ro != fx.vc.OnlineSize() ||
		fx.vc2.ValidatorsSize() != fx.vc.ValidatorsSize() {
		failure = fmt.Sprintf("committee: validators view differs from reference (validators %d/%d/%d, online %d/%d)", fx.vc.ValidatorsSize(), fx.vc2.ValidatorsSize(), len(rs), fx.vc.OnlineSize(), ro)
	}
	for i, op := range cs.Ops {
		var f string
		switch op.Kind {
		case "com":
			f = fx.runCom(op, out)
		case "vc":
			f = fx.runVc(op, out)
		case "cv":
			f = fx.runCv(op, out)
		}
		out.evals++
		if f != "" && failure == "" {
			failure, failOp = f, i
		}
	}
	return
}

func c07sigClass(f string) string {
	switch {
	case strings.Contains(f, "sub-chain") && strings.Contains(f, "refused"):
		return "C07:sub-chain-genuine-certificates-refused"
	case strings.Contains(f, "sub-chain") && strings.Contains(f, "accepted"):
		return "C07:sub-chain-forged-certificate-accepted"
	case strings.Contains(f, "live cache"):
		return "C07:live-vs-reloaded-committee-differs"
	case strings.Contains(f, "chain history broken"):
		return "C07:chain-history-broken"
	case strings.Contains(f, "accepted with"):
		return "C07:accepted-without-quorum"
	case strings.Contains(f, "accepted for another"):
		return "C07:accepted-for-other-round-or-hash"
	case strings.Contains(f, "rejected:"):
		return "C07:genuine-quorum-rejected"
	case strings.Contains(f, "vote counter"):
		return "C07:vote-counter-emits-invalid-certificate"
	case strings.Contains(f, "rejected by ValidateBlockCert"):
		return "C07:emitted-certificate-rejected"
	case strings.Contains(f, "committee"), strings.Contains(f, "approved set"), strings.Contains(f, "|Original|"):
		return "C07:committee-not-deterministic-or-wrong"
	case strings.Contains(f, "panicked"):
		return "C07:panic"
	}
	return "C07:other"
}

func c07shrink(cs c07case) c07case {
	if cs.Chain != nil {
		return c07shrinkChain(cs)
	}
	_, f0, _ := c07run(cs)
	cls := c07sigClass(f0)
	deadline := time.Now().Add(40 * time.Second)
	fails := func(c c07case) bool {
		if time.Now().After(deadline) {
			return false
		}
		_, f, _ := c07run(c)
		return f != "" && c07sigClass(f) == cls
	}
	// keep only the failing op when that is enough
	if _, _, i := c07run(cs); i >= 0 {
		t := cs
		t.Ops = []c07op{cs.Ops[i]}
		if fails(t) {
			cs = t
		}
	}
	for changed, rounds := true, 0; changed && rounds < 4; rounds++ {
		changed = false
		for i := 0; i < len(cs.Ops) && len(cs.Ops) > 1; i++ {
			t := cs
			t.Ops = append(append([]c07op{}, cs.Ops[:i]...), cs.Ops[i+1:]...)
			if fails(t) {
				cs, changed = t, true
				i--
			}
		}
		for i := range cs.Ops {
			for _, field := range []int{0, 1, 2, 3} {
				get := func(o *c07op) *[]c07sig { return [](*[]c07sig){&o.Sigs, &o.Votes, &o.Late, &o.Late2}[field] }
				for j := 0; j < len(*get(&cs.Ops[i])); j++ {
					t := cs
					t.Ops = append([]c07op{}, cs.Ops...)
					l := *get(&t.Ops[i])
					nl := append(append([]c07sig{}, l[:j]...), l[j+1:]...)
					*get(&t.Ops[i]) = nl
					if fails(t) {
						cs, changed = t, true
						j--
					}
				}
			}
		}
		for i := 0; i < len(cs.Live) && len(cs.Live) <= 40; i++ {
			t := cs
			t.Live = append(append([]c07ident{}, cs.Live[:i]...), cs.Live[i+1:]...)
			if fails(t) {
				cs, changed = t, true
				i--
			}
		}
		if len(cs.Ids) <= 40 {
			for i := 0; i < len(cs.Ids); i++ {
				t := cs
				t.Ids = append(append([]c07ident{}, cs.Ids[:i]...), cs.Ids[i+1:]...)
				if fails(t) {
					cs, changed = t, true
					i--
				}
			}
		}
	}
	return cs
}

// ---------------------------------------------------------------------------------------------------------
// generator

func c07genRegistry(r *rand.Rand, thorough bool) c07case {
	cs := c07case{God: 0, Seed: r.Int63(), Height: uint64(2 + r.Intn(60))}
	if r.Intn(4) == 0 {
		cs.Height = uint64(100 + r.Intn(100000))
	}
	var n int
	switch x := r.Intn(100); {
	case x < 38:
		n = r.Intn(10) // 0..9: the switch table of the threshold
	case x < 68:
		n = 10 + r.Intn(31)
	case x < 90:
		n = 41 + r.Intn(110) // up to MaxCommittee+50
	default:
		n = 151 + r.Intn(250) // committee capped at 100 also for non-final steps
		if !thorough && r.Intn(3) != 0 {
			n = 41 + r.Intn(110)
		}
	}
	godOnly := r.Intn(12) == 0
	discMode := r.Intn(100) // <40 none, <75 some, <90 heavy, else all
	nPools := 0
	if r.Intn(100) < 55 {
		nPools = 1 + r.Intn(3)
	}
	var poolKeys []int
	for p := 0; p < nPools; p++ {
		if n > 0 && r.Intn(100) < 60 {
			poolKeys = append(poolKeys, 1+r.Intn(n)) // an identity of the registry
		} else {
			poolKeys = append(poolKeys, 500+p) // own key, maybe with a record below
		}
	}
	isPool := map[int]bool{}
	for _, k := range poolKeys {
		isPool[k] = true
	}
	for i := 1; i <= n; i++ {
		id := c07ident{K: i, Del: -1, Val: r.Intn(100) < 92, On: r.Intn(100) < 85}
		switch {
		case discMode < 40:
		case discMode < 75:
			id.Disc = r.Intn(100) < 15
		case discMode < 90:
			id.Disc = r.Intn(100) < 70
		default:
			id.Disc = true
		}
		if nPools > 0 && !isPool[i] && r.Intn(100) < 30 {
			id.Del = poolKeys[r.Intn(nPools)]
			id.On = r.Intn(100) < 10 // delegators are normally offline
		}
		if godOnly {
			id.On = false
		}
		cs.Ids = append(cs.Ids, id)
	}
	for _, k := range poolKeys {
		if k >= 500 && r.Intn(100) < 80 { // pool owner with a record of its own
			id := c07ident{K: k, Del: -1, On: !godOnly && r.Intn(100) < 85, Val: r.Intn(100) < 50, Disc: r.Intn(100) < 20}
			cs.Ids = append(cs.Ids, id)
		}
	}
	if r.Intn(2) == 0 { // the god address is an identity too
		cs.Ids = append(cs.Ids, c07ident{K: 0, Del: -1, On: !godOnly && r.Intn(2) == 0, Val: true})
	}
	// the node's live validator set: same (25%), fresh node / nobody online (25%), or a set of another size chosen
	// from every threshold class (0-1, 2-3, 4-5, 6-7, 8, 9+, capped committees) - smaller and larger than the argument's
	switch r.Intn(4) {
	case 0:
		cs.LiveSame = true
	case 1:
	default:
		m := []int{1, 2, 3, 4, 5, 6, 7, 8, 9, 12, 20, 45, 100, 160, 350}[r.Intn(15)]
		for i := 0; i < m; i++ {
			cs.Live = append(cs.Live, c07ident{K: 2000 + i, Del: -1, On: true, Val: true, Disc: r.Intn(10) == 0})
		}
	}
	return cs
}

var c07steps = []uint8{1, 1, 2, 3, 5, 17, 149, types.ReductionOne, types.ReductionTwo, types.Final, types.Final, types.Final}

func (fx *c07fx) genuine(k int, step uint8, blk int, r *rand.Rand) c07sig {
	s := c07sig{K: k, Round: fx.cs.Height, Step: step, Parent: hPrev, Voted: blk, Off: r.Intn(5) == 0, Upg: uint32(r.Intn(3))}
	s.COff, s.CUpg = s.Off, s.Upg
	return s
}

// keys of the eligible members of the committee of (prev, height, step), and keys that are known but not eligible
func (fx *c07fx) eligibility(prev *types.Header, height uint64, step uint8) (need int, approved, other []int) {
	final := step == types.Final
	sv := fx.vc.GetOnlineValidators(prev.Seed(), height, step, fx.chain.GetCommitteeSize(fx.vc, final))
	if sv == nil {
		return 1, nil, nil
	}
	need = fx.chain.GetCommitteeVotesThreshold(fx.vc, final) - sv.VotesCountSubtrahend(fx.cfg.Consensus.AgreementThreshold)
	var ks []int
	for _, k := range fx.keyOf {
		ks = append(ks, k)
	}
	sort.Ints(ks)
	for _, k := range ks {
		if sv.Approved(c07addr(k)) {
			approved = append(approved, k)
		} else {
			other = append(other, k)
		}
	}
	return
}

func (fx *c07fx) genVc(r *rand.Rand) c07op {
	step := c07steps[r.Intn(len(c07steps))]
	blk := []int{hB0, hB0, hB1, hB2}[r.Intn(4)]
	H := fx.cs.Height
	op := c07op{Kind: "vc", Step: step, Cache: r.Intn(10) < 3, CertRound: H, CertVoted: blk, Blk: blk, Prev: hPrev}
	need, approved, other := fx.eligibility(fx.hdr[hPrev], H, step)
	r.Shuffle(len(approved), func(i, j int) { approved[i], approved[j] = approved[j], approved[i] })
	var d int
	switch x := r.Intn(100); {
	case x < 20:
		d, op.Note = need-1, "need-1"
	case x < 45:
		d, op.Note = need, "need"
	case x < 60:
		d, op.Note = need+1, "need+1"
	case x < 65:
		d = 0
	case x < 75:
		d = len(approved)
	default:
		d = r.Intn(len(approved) + 1)
	}
	if d < 0 {
		d = 0
	}
	if d > len(approved) {
		d = len(approved)
	}
	for _, k := range approved[:d] {
		op.Sigs = append(op.Sigs, fx.genuine(k, step, blk, r))
	}
	outsider := func() int { return 900 + r.Intn(20) }
	pickBad := func() int {
		if len(other) > 0 && r.Intn(3) != 0 {
			return other[r.Intn(len(other))]
		}
		return outsider()
	}
	anyKey := func() int {
		if len(approved) > 0 && r.Intn(4) != 0 {
			return approved[r.Intn(len(approved))]
		}
		return pickBad()
	}
	put := func(s c07sig) { // add, or replace a genuine one
		if len(op.Sigs) > 0 && r.Intn(3) == 0 {
			op.Sigs[r.Intn(len(op.Sigs))] = s
		} else {
			op.Sigs = append(op.Sigs, s)
		}
	}
	nm := 0
	if r.Intn(100) >= 40 {
		nm = 1 + r.Intn(2)
	}
	for ; nm > 0; nm-- {
		switch m := r.Intn(15); m {
		case 0: // duplicated signature bytes
			if len(op.Sigs) > 0 {
				for j, c := 0, 1+r.Intn(3); j < c; j++ {
					op.Sigs = append(op.Sigs, op.Sigs[r.Intn(len(op.Sigs))])
				}
				op.Note += " dup"
			}
		case 1: // same voter again with other flags (a different, valid signature)
			if len(op.Sigs) > 0 {
				s := op.Sigs[r.Intn(len(op.Sigs))]
				s.Off, s.Upg = !s.Off, s.Upg+1
				s.COff, s.CUpg = s.Off, s.Upg
				op.Sigs = append(op.Sigs, s)
				op.Note += " dupflags"
			}
		case 2: // outsider / non-eligible member, correctly signed
			put(fx.genuine(pickBad(), step, blk, r))
			op.Note += " outsider"
		case 3: // signed for another round, carried in this round's certificate
			s := fx.genuine(anyKey(), step, blk, r)
			s.Round = H + uint64(1+r.Intn(2))
			if r.Intn(2) == 0 && H > 1 {
				s.Round = H - 1
			}
			put(s)
			op.Note += " staleround"
		case 4:
			s := fx.genuine(anyKey(), step, blk, r)
			s.Step = step + 1
			put(s)
			op.Note += " otherstep"
		case 5:
			s := fx.genuine(anyKey(), step, blk, r)
			s.Parent = []int{hAltPrev, hZero}[r.Intn(2)]
			put(s)
			op.Note += " otherparent"
		case 6:
			s := fx.genuine(anyKey(), step, blk, r)
			s.Voted = []int{hB0, hB1, hB2, hForeign, hZero}[r.Intn(5)]
			put(s)
			op.Note += " otherhash"
		case 7: // flags carried differ from flags signed
			s := fx.genuine(anyKey(), step, blk, r)
			if r.Intn(2) == 0 {
				s.COff = !s.Off
			} else {
				s.CUpg = s.Upg + 1
			}
			put(s)
			op.Note += " flagmismatch"
		case 8, 9:
			s := fx.genuine(anyKey(), step, blk, r)
			s.Tamper = 1 + r.Intn(5)
			put(s)
			op.Note += " forged"
		case 10: // whole certificate for another round, consistently signed
			nr := H + 1
			if r.Intn(2) == 0 && H > 1 {
				nr = H - 1
			}
			op.CertRound = nr
			for i := range op.Sigs {
				op.Sigs[i].Round = nr
			}
			op.Note += " certround"
		case 11: // whole certificate for another hash, consistently signed
			nh := []int{hB0, hB1, hB2, hForeign, hZero}[r.Intn(5)]
			op.CertVoted = nh
			for i := range op.Sigs {
				op.Sigs[i].Voted = nh
			}
			op.Note += " certhash"
		case 12: // whole certificate claims another step (another committee), consistently signed
			ns := c07steps[r.Intn(len(c07steps))]
			op.Step = ns
			for i := range op.Sigs {
				op.Sigs[i].Step = ns
			}
			op.Note += " certstep"
		case 13: // validated against another parent / block
			if r.Intn(2) == 0 {
				op.Prev = hAltPrev
			} else {
				op.Blk = []int{hBAlt, hBNext, hB0, hB1}[r.Intn(4)]
			}
			op.Note += " othercontext"
		case 14: // consistent certificate on the alternative parent (other seed, other committee)
			op.Prev, op.Blk, op.CertVoted = hAltPrev, hBAlt, hBAlt
			nd, ap, _ := fx.eligibility(fx.hdr[hAltPrev], H, op.Step)
			op.Sigs = nil
			r.Shuffle(len(ap), func(i, j int) { ap[i], ap[j] = ap[j], ap[i] })
			cnt := nd - 1 + r.Intn(3)
			if cnt < 0 {
				cnt = 0
			}
			if cnt > len(ap) {
				cnt = len(ap)
			}
			for _, k := range ap[:cnt] {
				s := fx.genuine(k, op.Step, hBAlt, r)
				s.Parent = hAltPrev
				op.Sigs = append(op.Sigs, s)
			}
			op.Note += " altparent"
		}
	}
	r.Shuffle(len(op.Sigs), func(i, j int) { op.Sigs[i], op.Sigs[j] = op.Sigs[j], op.Sigs[i] })
	return op
}

func (fx *c07fx) genCv(r *rand.Rand, allowLate bool) c07op {
	step := c07steps[r.Intn(len(c07steps))]
	H := fx.cs.Height
	op := c07op{Kind: "cv", Step: step}
	need, approved, other := fx.eligibility(fx.hdr[hPrev], H, step)
	r.Shuffle(len(approved), func(i, j int) { approved[i], approved[j] = approved[j], approved[i] })
	eff := need
	if eff < 1 {
		eff = 1
	}
	var d int
	switch x := r.Intn(100); {
	case x < 22:
		d, op.Note = eff-1, "need-1"
	case x < 60:
		d, op.Note = eff, "need"
	case x < 75:
		d, op.Note = eff+1, "need+1"
	case x < 85:
		d = len(approved)
	default:
		d = r.Intn(len(approved) + 1)
	}
	if d < 0 {
		d = 0
	}
	if d > len(approved) {
		d = len(approved)
	}
	if allowLate && d < eff && eff <= len(approved) && r.Intn(4) != 0 {
		d = eff
	}
	main := []int{hB0, hB1, hB2}[r.Intn(3)]
	for _, k := range approved[:d] {
		op.Votes = append(op.Votes, fx.genuine(k, step, main, r))
	}
	// equivocation: some members also vote for a second hash; sometimes a second full quorum
	if r.Intn(3) == 0 && len(approved) > 0 {
		second := []int{hB0, hB1, hB2, hForeign, hZero}[r.Intn(5)]
		cnt := r.Intn(len(approved) + 1)
		if r.Intn(3) == 0 {
			cnt = eff
		}
		if cnt > len(approved) {
			cnt = len(approved)
		}
		for _, k := range approved[len(approved)-cnt:] {
			op.Votes = append(op.Votes, fx.genuine(k, step, second, r))
		}
		op.Note += " equivocation"
	}
	noise := r.Intn(6)
	for ; noise > 0; noise-- {
		k := 900 + r.Intn(20)
		if len(other) > 0 && r.Intn(2) == 0 {
			k = other[r.Intn(len(other))]
		}
		if len(approved) > 0 && r.Intn(2) == 0 {
			k = approved[r.Intn(len(approved))]
		}
		s := fx.genuine(k, step, main, r)
		switch r.Intn(9) {
		case 0:
			s.Round = H + uint64(1+r.Intn(40)) // future rounds, some beyond the propagation window
		case 1:
			if H > 5 {
				s.Round = H - uint64(1+r.Intn(6)) // stale rounds, some beyond the lag
			}
		case 2:
			s.Step = step + 1
		case 3:
			s.Parent = []int{hAltPrev, hZero}[r.Intn(2)]
		case 4:
			s.Tamper = 1 + r.Intn(5)
		case 5: // exact duplicate of an earlier vote
			if len(op.Votes) > 0 {
				s = op.Votes[r.Intn(len(op.Votes))]
			}
		case 6: // same voter, same hash, other flags
			if len(op.Votes) > 0 {
				s = op.Votes[r.Intn(len(op.Votes))]
				s.Upg++
			}
		}
		s.COff, s.CUpg = s.Off, s.Upg
		op.Votes = append(op.Votes, s)
	}
	r.Shuffle(len(op.Votes), func(i, j int) { op.Votes[i], op.Votes[j] = op.Votes[j], op.Votes[i] })
	if allowLate && len(op.Votes) > 1 {
		// fewer than `eff` votes before the first poll: the quorum can only be reached in a later poll
		m := len(op.Votes)
		if eff < m {
			m = eff
		}
		cut := r.Intn(m)
		op.Late = append([]c07sig{}, op.Votes[cut:]...)
		op.Votes = op.Votes[:cut]
		op.Note += " late"
	}
	return op
}

// exhaustive scope: a registry with at most 6 identities, and EVERY subset of (eligible voters + one non-eligible
// member + one outsider) as a certificate of genuine signatures
func c07genExhaustive(r *rand.Rand) c07case {
	var cs c07case
	for {
		cs = c07genRegistry(r, false)
		if n := len(cs.Ids); n >= 1 && n <= 7 {
			break
		}
	}
	fx, err := c07newFx(cs)
	if err != nil {
		return cs
	}
	step := []uint8{1, 3, types.Final}[r.Intn(3)]
	cs.Ops = append(cs.Ops, c07op{Kind: "com", Step: step, Limit: -1})
	_, approved, other := fx.eligibility(fx.hdr[hPrev], cs.Height, step)
	keys := append([]int{}, approved...)
	if len(other) > 0 {
		keys = append(keys, other[r.Intn(len(other))])
	}
	keys = append(keys, 900)
	if len(keys) > 8 {
		keys = keys[len(keys)-8:]
	}
	cache := r.Intn(3) == 0
	for mask := 0; mask < 1<<uint(len(keys)); mask++ {
		op := c07op{Kind: "vc", Step: step, Cache: cache, CertRound: cs.Height, CertVoted: hB0, Blk: hB0, Prev: hPrev, Note: "exhaustive"}
		for i, k := range keys {
			if mask&(1<<uint(i)) != 0 {
				op.Sigs = append(op.Sigs, fx.genuine(k, step, hB0, r))
			}
		}
		cs.Ops = append(cs.Ops, op)
	}
	return cs
}

// votes arriving over several polling passes of the real countVotes, on committees with non-approved members
// (discriminated identities, delegators collapsing into a pool): the requirement must stay threshold - subtrahend over
// all passes, so eff-1 votes never yield a certificate and the certificate found in a later pass holds the full quorum
func c07genPasses(r *rand.Rand) c07case {
	var cs c07case
	var fx *c07fx
	for try := 0; try < 8; try++ {
		cs = c07case{God: 0, Seed: r.Int63(), Height: uint64(5 + r.Intn(1000)), LiveSame: true}
		n := 4 + r.Intn(5)
		if r.Intn(2) == 0 {
			n = 9 + r.Intn(22)
		}
		for i := 1; i <= n; i++ {
			cs.Ids = append(cs.Ids, c07ident{K: i, Del: -1, On: true, Val: true, Disc: i > 2 && r.Intn(100) < 35})
		}
		cs.Ids[2+r.Intn(n-2)].Disc = true
		if r.Intn(2) == 0 { // a pool: its delegators are drawn as validators but vote as one address
			cs.Ids = append(cs.Ids, c07ident{K: 600, Del: -1, On: true, Val: r.Intn(2) == 0})
			for j, k := 0, 2+r.Intn(3); j < k; j++ {
				cs.Ids = append(cs.Ids, c07ident{K: 601 + j, Del: 600, Val: true})
			}
		}
		var err error
		fx, err = c07newFx(cs)
		if err != nil {
			return cs
		}
		sv := fx.vc.GetOnlineValidators(fx.hdr[hPrev].Seed(), cs.Height, 1, fx.chain.GetCommitteeSize(fx.vc, false))
		if sv != nil && sv.VotesCountSubtrahend(fx.cfg.Consensus.AgreementThreshold) > 0 {
			break
		}
	}
	cs.Ops = append(cs.Ops, c07op{Kind: "com", Step: 1, Limit: -1})
	steps := []uint8{1, 2, types.ReductionOne, types.Final}
	r.Shuffle(len(steps), func(i, j int) { steps[i], steps[j] = steps[j], steps[i] })
	for _, step := range steps[:2] {
		need, approved, other := fx.eligibility(fx.hdr[hPrev], cs.Height, step)
		r.Shuffle(len(approved), func(i, j int) { approved[i], approved[j] = approved[j], approved[i] })
		eff := need
		if eff < 1 {
			eff = 1
		}
		total := eff + []int{-1, 0, 0, 0, 1}[r.Intn(5)]
		if total > len(approved) {
			total = len(approved)
		}
		if total < 0 {
			total = 0
		}
		op := c07op{Kind: "cv", Step: step, Note: fmt.Sprintf("passes total=%d need=%d", total, need)}
		blk := []int{hB0, hB1, hB2}[r.Intn(3)]
		var vs []c07sig
		for _, k := range approved[:total] {
			vs = append(vs, fx.genuine(k, step, blk, r))
		}
		early := 0
		if m := total; m > 0 {
			if m > eff-1 {
				m = eff - 1
			}
			if m > 0 {
				early = 1 + r.Intn(m)
			}
			if r.Intn(6) == 0 {
				early = 0 // nothing known when the counter starts
			}
		}
		rest := vs[early:]
		op.Votes = append([]c07sig{}, vs[:early]...)
		if len(rest) > 0 {
			w1 := len(rest)
			if len(rest) > 1 && r.Intn(10) < 6 {
				w1 = 1 + r.Intn(len(rest)-1)
			}
			op.Late = append([]c07sig{}, rest[:w1]...)
			op.Late2 = append([]c07sig{}, rest[w1:]...)
		}
		if len(other) > 0 && r.Intn(2) == 0 { // a non-eligible member's vote in a later pass must not count
			s := fx.genuine(other[r.Intn(len(other))], step, blk, r)
			if r.Intn(2) == 0 {
				op.Late = append(op.Late, s)
			} else {
				op.Late2 = append(op.Late2, s)
			}
		}
		if len(op.Late)+len(op.Late2) == 0 && len(op.Votes) > 0 { // keep at least one vote for a later pass
			op.Late = append(op.Late, op.Votes[len(op.Votes)-1])
			op.Votes = op.Votes[:len(op.Votes)-1]
		}
		cs.Ops = append(cs.Ops, op)
	}
	return cs
}

func c07gen(r *rand.Rand, thorough bool, lateBudget *int32) c07case {
	if *lateBudget == 2 {
		return c07genPasses(r)
	}
	if r.Intn(40) == 0 {
		return c07genExhaustive(r)
	}
	cs := c07genRegistry(r, thorough)
	fx, err := c07newFx(cs)
	if err != nil {
		return cs
	}
	n := fx.vc.ValidatorsSize()
	for i, k := 0, 1+r.Intn(3); i < k; i++ {
		op := c07op{Kind: "com", Step: c07steps[r.Intn(len(c07steps))], Limit: -1}
		if r.Intn(3) == 0 {
			op.Limit = []int{0, 1, n - 1, n, n + 1, r.Intn(n + 2)}[r.Intn(6)]
			if op.Limit < 0 {
				op.Limit = 0
			}
		}
		cs.Ops = append(cs.Ops, op)
	}
	nvc := 4 + r.Intn(8)
	if n > 60 {
		nvc = 2 + r.Intn(3)
	}
	for i := 0; i < nvc; i++ {
		cs.Ops = append(cs.Ops, fx.genVc(r))
	}
	ncv := r.Intn(3)
	if *lateBudget > 0 && ncv == 0 {
		ncv = 1
	}
	for i := 0; i < ncv; i++ {
		late := false
		if *lateBudget > 0 { // this case was picked for a "votes arrive between two polls" scenario
			*lateBudget--
			late = true
		}
		cs.Ops = append(cs.Ops, fx.genCv(r, late))
	}
	return cs
}

// ---------------------------------------------------------------------------------------------------------
// table of the float formulas: the REAL functions over their whole relevant domain

func c07table(c *hx.Ctx, maxCnt int, full bool) {
	c.Line("new 0", "view n=0 on=0 net=0")
	vers := []config.ConsensusVerson{config.ConsensusV9, config.ConsensusV10, config.ConsensusV11, config.ConsensusV12}
	for vi, ver := range vers {
		cfg := c07cfg()
		cc := *config.ConsensusVersions[ver]
		cfg.Consensus = &cc
		chain := blockchain.NewBlockchain(cfg, dbm.NewMemDB(), nil, nil, nil, nil, eventbus.New(), nil, nil, nil, nil)
		top := maxCnt
		if vi < len(vers)-1 {
			top = 2000
		}
		for cnt := 0; cnt <= top; cnt++ {
			if !full && cnt > 20000 && cnt%10 != 5 { // quick tier: beyond 20000 only the arguments whose product ends in .5
				continue
			}
			vc := validators.VerifSizedCache(cnt)
			for _, final := range []bool{false, true} {
				c.Line(fmt.Sprintf("tbl size %s %d", c07b(final), cnt), fmt.Sprint(chain.GetCommitteeSize(vc, final)))
				c.Line(fmt.Sprintf("tbl thr %s %d", c07b(final), cnt), fmt.Sprint(chain.GetCommitteeVotesThreshold(vc, final)))
			}
		}
		for v := 0; v <= 1000; v++ {
			sv := &validators.StepValidators{Original: c07dummySet(v), ApprovedValidators: c07dummySet(0)}
			c.Line(fmt.Sprintf("tbl sub %d", v), fmt.Sprint(sv.VotesCountSubtrahend(cfg.Consensus.AgreementThreshold)))
		}
	}
	c.Hit("tbl:versions=4")
}

func c07dummySet(n int) mapset.Set {
	s := mapset.NewSet()
	for i := 0; i < n; i++ {
		s.Add(i)
	}
	return s
}

// ---------------------------------------------------------------------------------------------------------

var c07failSeen = map[string]int{}

func c07emit(c *hx.Ctx, cs c07case, out *c07out, failure string) {
	for _, l := range out.lines {
		c.Line(l[0], l[1])
	}
	for _, h := range out.hits {
		c.Hit(h)
	}
	c.Rep.Evaluations += out.evals
	if failure != "" {
		c07failSeen[c07sigClass(failure)]++
		c.Hit("oracle-failure:" + c07sigClass(failure))
		if c07failSeen[c07sigClass(failure)] > 2 {
			return // two shrunk replays per failure class are enough; the rest is counted in the distribution
		}
		small := c07shrink(cs)
		_, f2, _ := c07run(small)
		if f2 == "" {
			small, f2 = cs, failure
		}
		c.Fail(c07sigClass(f2), f2, small)
	}
}

func init() {
	hx.Register("C07", func(c *hx.Ctx) error {
		if c.Replay != "" {
			b, err := os.ReadFile(c.Replay)
			if err != nil {
				return err
			}
			var wrap struct {
				Replay c07case `json:"replay"`
			}
			if err := json.Unmarshal(b, &wrap); err != nil {
				return err
			}
			out, f, _ := c07run(wrap.Replay)
			c07emit(c, wrap.Replay, out, f)
			return nil
		}
		thorough := c.Tier == "thorough"
		c.Rep.Rule = "registries (0..400 identities: god-only, <=8 switch table, pools with owners inside/outside the registry, discrimination none/some/heavy/all) on a real identity tree + ValidatorsCache passed as the `validatorsCache` ARGUMENT, while the chain object's own live appState cache is the same set (25%), a fresh node's (25%) or a set of another size from every threshold class (50%); per registry: committee draws (steps 1..149, 253-255, explicit limits incl. n-1, n, n+1), certificates built from real secp256k1 signatures with exactly need-1 / need / need+1 distinct eligible voters plus operators (duplicates, same voter other flags, outsiders, non-eligible members, other round/step/parent/hash signed, flag mismatch, 5 byte-level forgeries, certificate-level other round/hash/step, other parent/block context, both sync paths), vote sets through the real AddVote + countVotes (equivocation, stale/future rounds, late votes; dedicated cases with discriminated/pooled committee members whose need-1 / need / need+1 eligible votes arrive over up to three 500 ms polling passes of the real loop) whose certificates go back through ValidateBlockCert; 1 case in 40: registry of <= 7 identities with EVERY subset of (eligible voters + a non-eligible member + an outsider) as a certificate; plus real-chain routes (chain.go): two/three real replicas over histories with status switches, delegations, kills and a validation ceremony end (resp. god-only mode with god hand-overs; resp. a node that applied a delegation live at a delegation-switch block, rolled back below it with the real Chain.ResetTo and follows a branch without the delegation); before every block the live (incrementally updated) validators cache of the proposing node is compared with a reloaded cache, the reference committee and the model, exact-quorum / quorum-1 certificates by real keys go through ValidateBlockCert, and windows of 2-5 blocks go through the real ValidateSubChain of a lagging replica with genuine certificates (must pass) and with the certificate of an IdentityUpdate block replaced by one of the validator set AFTER that block / an under-quorum one / none (must be refused); plus the table of the real committee-size / threshold / subtrahend functions over cnt <= N for the four consensus versions; distinct = distinct (registry, op); non-trivial = certificate with at least one signature or required <= 0"
		maxCnt := 200000
		c07table(c, maxCnt, thorough)
		n := c.Scale(260, 12000)
		lateBudget := int32(c.Scale(6, 120))
		// cases are generated and executed by a pool of workers, each case from its own PRNG seeded from c.Rng
		seeds := make([]int64, n)
		for i := range seeds {
			seeds[i] = c.Rng.Int63()
		}
		lates := make([]int32, n)
		for i := range lates {
			if lateBudget > 0 && c.Rng.Intn(n/int(c.Scale(6, 120))+1) == 0 {
				lates[i] = 1
				lateBudget--
			}
		}
		// dedicated "votes over several polling passes, committee with non-approved members" cases, spread evenly
		npass := c.Scale(36, 600)
		for j := 0; j < npass; j++ {
			lates[(j*n)/npass] = 2
		}
		type res struct {
			cs   c07case
			out  *c07out
			fail string
		}
		results := make([]res, n)
		var wg sync.WaitGroup
		jobs := make(chan int, n)
		workers := 2 * runtime.NumCPU() // the polling-pass cases sleep in the real 500 ms loop
		if workers > 32 {
			workers = 32
		}
		for w := 0; w < workers; w++ {
			wg.Add(1)
			go func() {
				defer wg.Done()
				for i := range jobs {
					r := rand.New(rand.NewSource(seeds[i]))
					lb := lates[i]
					var cs c07case
					func() {
						defer func() {
							if rec := recover(); rec != nil {
								results[i] = res{cs, &c07out{}, fmt.Sprintf("panicked outside the guarded calls: %v", rec)}
							}
						}()
						cs = c07gen(r, thorough, &lb)
						out, f, _ := c07run(cs)
						results[i] = res{cs, out, f}
					}()
				}
			}()
		}
		for i := 0; i < n; i++ {
			jobs <- i
		}
		close(jobs)
		wg.Wait()
		// real-chain routes (global virtual clock: run one after the other, after the pool has drained)
		for j, nch := 0, c.Scale(7, 70); j < nch; j++ {
			ch := c07chain{Mode: []string{"switch", "god", "rollback", "switch", "god", "rollback", "switch"}[j%7], Seed: c.Seed*1000 + int64(j), Blocks: 48}
			if ch.Mode == "god" {
				ch.Blocks = 16
			}
			if ch.Mode == "rollback" {
				ch.Blocks = 5
			}
			cs := c07case{Chain: &ch}
			out, f, _ := c07run(cs)
			c07emit(c, cs, out, f)
			c.Hit("chain-scenario:" + ch.Mode)
		}
		for i, r := range results {
			c07emit(c, r.cs, r.out, r.fail)
			reg, _ := json.Marshal(struct {
				G int
				I []c07ident
				S int64
				H uint64
			}{r.cs.God, r.cs.Ids, r.cs.Seed, r.cs.Height})
			for _, op := range r.cs.Ops {
				if op.Kind == "vc" && len(op.Sigs) == 0 {
					continue
				}
				if op.Note == "exhaustive" {
					c.Hit("vc:exhaustive-subset")
				}
				ob, _ := json.Marshal(op)
				if c.Distinct(string(reg) + string(ob)) {
					c.Rep.Distinct++
				}
			}
			switch {
			case r.cs.LiveSame:
				c.Hit("live-state:same-as-argument")
			case len(r.cs.Live) == 0:
				c.Hit("live-state:fresh-node(nobody-online)")
			case len(r.cs.Live) < len(r.cs.Ids):
				c.Hit("live-state:smaller-than-argument")
			default:
				c.Hit("live-state:larger-than-argument")
			}
			sz := len(r.cs.Ids)
			switch {
			case sz == 0:
				c.Hit("registry:0")
			case sz <= 9:
				c.Hit("registry:1-9")
			case sz <= 40:
				c.Hit("registry:10-40")
			case sz <= 150:
				c.Hit("registry:41-150")
			default:
				c.Hit("registry:151-400")
			}
			if i < 2 && sz <= 12 {
				c.Sample(r.cs)
			}
		}
		return nil
	})
}
