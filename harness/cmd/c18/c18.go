package main

// C18 — wire and storage encodings round-trip and signatures bind every signed field.
//
// Correspondence (lines compared with the Lean model `oracle_c18`):
//   schema …   schemas regenerated from the protobuf descriptors compiled into /repo (pinned ones = the theorems' schemas)
//   field …    (G) one row per Go struct field of every encodable type, regenerated from the current source
//   enc …      (D) the abstract message of a real encoding; Lean must produce the SAME BYTES and the same normal form
//   txsig/votesig  the Lean builders of the signed message vs the real ToSignatureBytes
//   sigeq …    equal/different signed messages vs equal/different real signature hashes
//   big/unbig/i64/uni64/fix   value conversions vs the real common.* functions
// Independent Go oracle (this file): decode(encode x) ≉ x, re-encoding differs, hash unstable, a single-field
// change that leaves the bytes unchanged (or semantically equal objects with different bytes), unchanged recovered
// signer after a signed-field change, Go field missing from encoder or decoder and not allow-listed.

import (
	"bytes"
	"crypto/ecdsa"
	"encoding/json"
	"fmt"
	"math/big"
	"math/rand"
	"os"
	"reflect"
	"sort"
	"strings"

	protov1 "github.com/golang/protobuf/proto"
	"github.com/idena-network/idena-go/blockchain/types"
	"github.com/idena-network/idena-go/common"
	"github.com/idena-network/idena-go/core/state"
	"github.com/idena-network/idena-go/crypto"

	"verifharness/internal/hx"
)

type c18case struct {
	Kind    string     `json:"kind"`              // object | wire | table | registry
	Type    string     `json:"type,omitempty"`    // registry name / proto message name
	Profile string     `json:"profile,omitempty"` // zero empty max distinct random
	Seed    int64      `json:"seed,omitempty"`
	Leaf    string     `json:"leaf,omitempty"` // path of the mutated leaf ("" = none)
	Mut     string     `json:"mutation,omitempty"`
	Object  string     `json:"object,omitempty"` // printed object (information only; regenerated from type/profile/seed)
	Row     string     `json:"row,omitempty"`
	Steps   []memoStep `json:"steps,omitempty"`  // kind "memo": API sequence on one live object
	Cert    *certCase  `json:"cert,omitempty"`   // kind "cert": votes of one certificate
	Hdr     *hdrCase   `json:"header,omitempty"` // kind "header": crafted header shape
}

func typeShort(name string) string { return name[strings.Index(name, ":")+1:] }

func testKey(i int) *ecdsa.PrivateKey {
	h := crypto.Hash([]byte(fmt.Sprintf("verif-c18-key-%d", i)))
	k, err := crypto.ToECDSA(h[:])
	if err != nil {
		panic(err)
	}
	return k
}

type runner struct {
	c       *hx.Ctx
	rules   *semRules
	key     *ecdsa.PrivateKey
	mutated map[string]int // owner -> number of single-field changes exercised
	leanMut int
	rows    map[string]fieldRow // regenerated table by "<Type>.<Field>"
	specs   map[string]*recSpec // derived flat-record specs (nil = not flat)
	flat    []string
}

// genObject builds the object of a case deterministically from (type, profile, seed).
func genObject(ti *typeInfo, prof profile, seed int64, key *ecdsa.PrivateKey) interface{} {
	r := rand.New(rand.NewSource(seed))
	x := ti.New()
	p := &popCtx{r: r, prof: prof, counter: uint64(seed&0xff) * 3}
	p.populate(reflect.ValueOf(x).Elem(), typeShort(ti.Name))
	if ti.Fix != nil {
		ti.Fix(x, r)
	}
	if ti.Sign != nil && (prof == profDistinct || r.Intn(4) != 0) {
		if err := ti.Sign(x, key); err != nil {
			panic(err)
		}
	}
	return x
}

func wfGlobal(x interface{}) bool {
	g, ok := x.(*state.Global)
	if !ok {
		return true
	}
	if g.ShardsNum > 64 {
		return false
	}
	for k := range g.ShardSizes {
		if k < 1 || uint32(k) > g.ShardsNum {
			return false
		}
	}
	return true
}

type rtResult struct {
	bytes  []byte
	sig    string // failure signature ("" = ok)
	detail string
	dec    interface{}
}

// roundTrip: real ToBytes → FromBytes → ToBytes; bytes equal, objects semantically equal, hashes stable.
func (rn *runner) roundTrip(ti *typeInfo, x interface{}) rtResult {
	T := typeShort(ti.Name)
	b1, st := callToBytes(cloneObj(x), "ToBytes")
	if st != "" {
		return rtResult{sig: "C18:encode-fails:" + T, detail: "ToBytes: " + st}
	}
	y, st := callFromBytes(ti, b1)
	if st != "" {
		return rtResult{bytes: b1, sig: "C18:decode-fails:" + T, detail: "FromBytes(ToBytes(x)): " + st}
	}
	if d := semEq(reflect.ValueOf(x).Elem(), reflect.ValueOf(y).Elem(), T, "", rn.rules); d != "" {
		return rtResult{bytes: b1, dec: y, sig: "C18:roundtrip-not-equal:" + T, detail: "decode(encode(x)) differs from x at " + d}
	}
	b2, st := callToBytes(y, "ToBytes")
	if st != "" {
		return rtResult{bytes: b1, dec: y, sig: "C18:encode-fails:" + T, detail: "ToBytes(decoded): " + st}
	}
	if !ti.SemanticOnly && !bytes.Equal(b1, b2) {
		return rtResult{bytes: b1, dec: y, sig: "C18:reencode-differs:" + T, detail: fmt.Sprintf("encode(decode(encode(x))) = %x, encode(x) = %x", clip(b2), clip(b1))}
	}
	if ti.Hashes != nil && !ti.SemanticOnly {
		xc := cloneObj(x)
		h1, h2 := safeHashes(ti, xc), safeHashes(ti, y)
		if h1 != h2 {
			return rtResult{bytes: b1, dec: y, sig: "C18:hash-unstable:" + T, detail: "hashes before/after round trip: " + h1 + " / " + h2}
		}
		// xc now carries its memoised hashes/sender: the memo fields (allow-listed as pure caches) must not leak into the encoding
		if ti.Recover != nil {
			safeRecover(ti, xc)
		}
		if bc, st := callToBytes(xc, "ToBytes"); st != "" || !bytes.Equal(bc, b1) {
			return rtResult{bytes: b1, dec: y, sig: "C18:cache-leaks-into-encoding:" + T, detail: "ToBytes differs once the memo fields are filled " + st}
		}
	}
	return rtResult{bytes: b1, dec: y}
}

func safeHashes(ti *typeInfo, x interface{}) (s string) {
	defer func() {
		if r := recover(); r != nil {
			s = "panic"
		}
	}()
	return strings.Join(ti.Hashes(x), ",")
}

func clip(b []byte) []byte {
	if len(b) > 48 {
		return b[:48]
	}
	return b
}

func safeRecover(ti *typeInfo, x interface{}) (s string) {
	defer func() {
		if r := recover(); r != nil {
			s = "panic"
		}
	}()
	b, err := ti.Recover(x)
	if err != nil {
		return "err"
	}
	return fmt.Sprintf("%x", b)
}

// leanLines emits the correspondence lines for one real encoding.
func (rn *runner) leanLines(ti *typeInfo, x interface{}, b1 []byte) (string, string) {
	T := typeShort(ti.Name)
	pm, err := newProto(ti.Proto)
	if err != nil {
		return "C18:harness:" + T, err.Error()
	}
	if err := unmarshalV1(b1, pm); err != nil {
		return "C18:not-a-" + ti.Proto + ":" + T, "ToBytes output does not parse as " + ti.Proto + ": " + err.Error()
	}
	rn.c.Line("enc "+ti.Proto+" "+msgTok(pm, true), "x"+fmt.Sprintf("%x", b1)+" "+msgTok(pm, false))
	if reflect.ValueOf(x).Elem().Kind() == reflect.Struct {
		rn.recLine(x, ti.Proto, b1)
	}
	bi := func(b *big.Int) string {
		if b == nil {
			return "nil"
		}
		return b.String()
	}
	// the hashed consensus objects: Lean builders of Model/CodecObjects.lean vs the real ToProto + Marshal, and the
	// real Hash() must be Keccak of exactly these bytes
	var hdr *types.Header
	switch v := x.(type) {
	case *types.Header:
		hdr = v
	case *types.Block:
		hdr = v.Header
	}
	if hdr != nil && hdr.ProposedHeader != nil {
		h := hdr.ProposedHeader
		hb, err := protov1.Marshal(h.ToProto())
		if err != nil {
			return "C18:encode-fails:ProposedHeader", err.Error()
		}
		off := "-"
		if h.OfflineAddr != nil {
			off = hx.Hex(h.OfflineAddr[:])
		}
		rn.c.Line(fmt.Sprintf("phdr %s %d %d %s %s %s %s %d %s %s %s %s %s %d %s %s", hx.Hex(h.ParentHash[:]), h.Height, h.Time, hx.Hex(h.TxHash[:]),
			hx.Hex(h.ProposerPubKey), hx.Hex(h.Root[:]), hx.Hex(h.IdentityRoot[:]), uint32(h.Flags), hx.Hex(h.IpfsHash), off, hx.Hex(h.TxBloom),
			hx.Hex(h.BlockSeed[:]), bi(h.FeePerGas), h.Upgrade, hx.Hex(h.SeedProof), hx.Hex(h.TxReceiptsCid)), "x"+fmt.Sprintf("%x", hb))
		rn.recLine(h, "ProtoBlockHeader.Proposed", hb)
		if got := cloneObj(h).(*types.ProposedHeader).Hash(); got != common.Hash(crypto.Hash(hb)) {
			return "C18:hash-not-of-encoding:ProposedHeader", "ProposedHeader.Hash() is not Keccak256 of the marshalled ToProto()"
		}
	}
	if hdr != nil && hdr.EmptyBlockHeader != nil {
		h := hdr.EmptyBlockHeader
		hb, err := protov1.Marshal(h.ToProto())
		if err != nil {
			return "C18:encode-fails:EmptyBlockHeader", err.Error()
		}
		rn.c.Line(fmt.Sprintf("ehdr %s %d %s %s %d %s %d", hx.Hex(h.ParentHash[:]), h.Height, hx.Hex(h.Root[:]), hx.Hex(h.IdentityRoot[:]), h.Time,
			hx.Hex(h.BlockSeed[:]), uint32(h.Flags)), "x"+fmt.Sprintf("%x", hb))
		rn.recLine(h, "ProtoBlockHeader.Empty", hb)
		if got := cloneObj(h).(*types.EmptyBlockHeader).Hash(); got != common.Hash(crypto.Hash(hb)) {
			return "C18:hash-not-of-encoding:EmptyBlockHeader", "EmptyBlockHeader.Hash() is not Keccak256 of the marshalled ToProto()"
		}
	}
	if v, ok := x.(*types.Transaction); ok {
		to := "-"
		if v.To != nil {
			to = hx.Hex(v.To[:])
		}
		rlpFlag := 0
		if v.UseRlp {
			rlpFlag = 1
		}
		rn.c.Line(fmt.Sprintf("txfull %d %d %d %s %s %s %s %s %s %d", v.AccountNonce, v.Epoch, v.Type, to, bi(v.Amount), bi(v.MaxFee), bi(v.Tips),
			hx.Hex(v.Payload), hx.Hex(v.Signature), rlpFlag), "x"+fmt.Sprintf("%x", b1))
		if got := cloneObj(v).(*types.Transaction).Hash(); got != common.Hash(crypto.Hash(b1)) {
			return "C18:hash-not-of-encoding:Transaction", "Transaction.Hash() is not Keccak256 of ToBytes()"
		}
	}
	if ti.SigProto != "" {
		sb, st := callToBytes(cloneObj(x), "ToSignatureBytes")
		if st != "" {
			return "C18:encode-fails:" + T, "ToSignatureBytes: " + st
		}
		sm, err := newProto(ti.SigProto)
		if err != nil {
			return "C18:harness:" + T, err.Error()
		}
		if err := unmarshalV1(sb, sm); err != nil {
			return "C18:not-a-" + ti.SigProto + ":" + T, err.Error()
		}
		rn.c.Line("enc "+ti.SigProto+" "+msgTok(sm, true), "x"+fmt.Sprintf("%x", sb)+" "+msgTok(sm, false))
		switch v := x.(type) {
		case *types.Transaction:
			to := "-"
			if v.To != nil {
				to = hx.Hex(v.To[:])
			}
			pl := hx.Hex(v.Payload)
			rn.c.Line(fmt.Sprintf("txsig %d %d %d %s %s %s %s %s", v.AccountNonce, v.Epoch, v.Type, to, bi(v.Amount), bi(v.MaxFee), bi(v.Tips), pl),
				"x"+fmt.Sprintf("%x", sb))
		case *types.Vote:
			rn.recLine(v.Header, "ProtoVote.Data", sb)
			off := 0
			if v.Header.TurnOffline {
				off = 1
			}
			rn.c.Line(fmt.Sprintf("votesig %d %d %s %s %d %d", v.Header.Round, v.Header.Step, hx.Hex(v.Header.ParentHash[:]), hx.Hex(v.Header.VotedHash[:]), off, v.Header.Upgrade),
				"x"+fmt.Sprintf("%x", sb))
		}
	}
	return "", ""
}

func (rn *runner) fail(sig, detail string, cs c18case) {
	rn.c.Fail(sig, detail, cs)
	rn.c.Hit("FAIL:" + sig)
}

// checkObject runs one case: the object and (a sample of) its single-field changes.
func (rn *runner) checkObject(ti *typeInfo, prof profile, seed int64, maxMut int, onlyLeaf string) {
	c := rn.c
	T := typeShort(ti.Name)
	cs := c18case{Kind: "object", Type: ti.Name, Profile: profNames[prof], Seed: seed}
	x := genObject(ti, prof, seed, rn.key)
	cs.Object = clipStr(describe(reflect.ValueOf(x).Elem(), 0), 1500)
	c.Line("new", "ok")
	c.Hit("type:" + T)
	c.Hit("profile:" + profNames[prof])
	res := rn.roundTrip(ti, x)
	if res.sig != "" {
		rn.fail(res.sig, res.detail, cs)
		return
	}
	// a node-local store whose encoder walks a Go map has no fixed byte order: keep the protocol deterministic
	orderFree := ti.SemanticOnly && bigMap(reflect.ValueOf(x).Elem())
	dk := res.bytes
	if orderFree {
		dk = []byte(describe(reflect.ValueOf(x).Elem(), 0))
	}
	if c.Distinct(fmt.Sprintf("%s:%x", T, crypto.Hash(dk))) && len(res.bytes) > 0 {
		c.Rep.Distinct++
	}
	if !orderFree {
		if sig, detail := rn.leanLines(ti, x, res.bytes); sig != "" {
			rn.fail(sig, detail, cs)
			return
		}
	}
	r0 := ""
	if ti.Recover != nil {
		r0 = safeRecover(ti, cloneObj(x))
		if prof == profDistinct { // signed with rn.key by genObject: the real recovery must give that key back
			pub := crypto.FromECDSAPub(&rn.key.PublicKey)
			addr := crypto.PubkeyToAddress(rn.key.PublicKey)
			if r0 != fmt.Sprintf("%x", pub) && r0 != fmt.Sprintf("%x", addr[:]) {
				rn.fail("C18:valid-signature-not-recovered:"+T, "object signed by the real signing code recovers "+r0+" instead of the signing key", cs)
				return
			}
		}
		if rd := safeRecover(ti, res.dec); rd != r0 {
			rn.fail("C18:signer-changes-over-wire:"+T, "recovered signer before/after round trip: "+r0+" / "+rd, cs)
			return
		}
	}
	// single-field changes
	type leaf struct{ path, owner string }
	var leaves []leaf
	walkLeaves(reflect.ValueOf(x).Elem(), T, "", func(p, o string, v reflect.Value) bool {
		leaves = append(leaves, leaf{p, o})
		return false
	})
	idx := make([]int, len(leaves))
	for i := range idx {
		idx[i] = i
	}
	mr := rand.New(rand.NewSource(seed ^ 0x5bd1e995))
	if onlyLeaf == "" && len(idx) > maxMut {
		mr.Shuffle(len(idx), func(i, j int) { idx[i], idx[j] = idx[j], idx[i] })
		idx = idx[:maxMut]
		sort.Ints(idx)
	}
	for _, li := range idx {
		lf := leaves[li]
		if onlyLeaf != "" && lf.path != onlyLeaf {
			continue
		}
		x2 := cloneObj(x)
		desc := ""
		n := 0
		lr := rand.New(rand.NewSource(seed + int64(li)*7919))
		walkLeaves(reflect.ValueOf(x2).Elem(), T, "", func(p, o string, v reflect.Value) bool {
			if n == li {
				desc = mutateLeaf(lr, p, v)
				return true
			}
			n++
			return false
		})
		if !wfGlobal(x2) {
			continue
		}
		if v, ok := x2.(*types.Vote); ok && v.Header == nil {
			continue // a vote without header cannot be hashed for signing (nil dereference by construction, !IsValid)
		}
		mc := cs
		mc.Leaf, mc.Mut = lf.path, desc
		c.Hit("mutation:" + strings.SplitN(desc, ":", 2)[0])
		rn.mutated[lf.owner]++
		res2 := rn.roundTrip(ti, x2)
		if res2.sig != "" {
			rn.fail(res2.sig, "after changing "+lf.path+" ("+desc+"): "+res2.detail, mc)
			continue
		}
		eqSem := semEq(reflect.ValueOf(x).Elem(), reflect.ValueOf(x2).Elem(), T, "", rn.rules) == ""
		eqBytes := bytes.Equal(res.bytes, res2.bytes)
		if !eqSem && eqBytes {
			rn.fail("C18:field-not-encoded:"+lf.owner, "changing "+lf.path+" ("+desc+") leaves ToBytes unchanged: the field is not part of the encoding", mc)
			continue
		}
		if eqSem && !eqBytes && !ti.SemanticOnly {
			rn.fail("C18:noncanonical:"+lf.owner, "changing "+lf.path+" ("+desc+") gives a semantically equal object with different bytes", mc)
			continue
		}
		orderFree2 := ti.SemanticOnly && bigMap(reflect.ValueOf(x2).Elem())
		if !eqBytes && !orderFree2 && c.Distinct(fmt.Sprintf("%s:%x", T, crypto.Hash(res2.bytes))) {
			c.Rep.Distinct++
		}
		c.Rep.Evaluations++
		if (rn.leanMut%5 == 0 || onlyLeaf != "") && !orderFree2 { // a fifth of the changed objects also go through the Lean model
			if sig, detail := rn.leanLines(ti, x2, res2.bytes); sig != "" {
				rn.fail(sig, detail, mc)
				continue
			}
		}
		rn.leanMut++
		if ti.Recover != nil && r0 != "err" && r0 != "panic" {
			r2 := safeRecover(ti, cloneObj(x2))
			signedObj := rn.rules.skip[lf.owner] == false
			if !eqSem && signedObj && r2 == r0 {
				rn.fail("C18:signer-unchanged:"+lf.owner, "changing "+lf.path+" ("+desc+") does not change the recovered signer "+r0, mc)
				continue
			}
			if eqSem && r2 != r0 {
				rn.fail("C18:signer-depends-on-cache:"+lf.owner, "changing "+lf.path+" ("+desc+") (not part of the object) changes the recovered signer", mc)
				continue
			}
			if ti.SigProto != "" && onlyLeaf == "" && rn.leanMut%3 == 0 {
				rn.sigeqLine(ti, x, x2)
			}
		}
	}
	// semantically equal variants: nil <-> empty / nil <-> 0 must not change bytes nor signer
	x3 := cloneObj(x)
	changed := 0
	walkLeaves(reflect.ValueOf(x3).Elem(), T, "", func(p, o string, v reflect.Value) bool {
		t := v.Type()
		switch {
		case t == tBigPtr:
			if v.IsNil() {
				v.Set(reflect.ValueOf(new(big.Int)))
				changed++
			} else if v.Interface().(*big.Int).Sign() == 0 {
				v.Set(reflect.Zero(t))
				changed++
			}
		case t.Kind() == reflect.Slice && t.Elem().Kind() == reflect.Uint8:
			if v.IsNil() {
				v.Set(reflect.MakeSlice(t, 0, 0))
				changed++
			} else if v.Len() == 0 {
				v.Set(reflect.Zero(t))
				changed++
			}
		}
		return false
	})
	if changed > 0 && onlyLeaf == "" {
		c.Hit("variant:nil<->empty/0")
		b3, st := callToBytes(cloneObj(x3), "ToBytes")
		mc := cs
		mc.Leaf, mc.Mut = "*", "nil<->empty/0 on every such leaf"
		if st != "" {
			rn.fail("C18:encode-fails:"+T, "ToBytes of the nil<->empty variant: "+st, mc)
		} else if !bytes.Equal(b3, res.bytes) && !ti.SemanticOnly {
			rn.fail("C18:noncanonical:"+T, "nil and empty / nil and 0 encode differently", mc)
		} else if ti.Recover != nil && safeRecover(ti, cloneObj(x3)) != r0 {
			rn.fail("C18:signer-not-canonical:"+T, "nil<->empty variant recovers a different signer", mc)
		}
		c.Rep.Evaluations++
	}
	c.Rep.Evaluations++
}

// bigMap: does the object hold a Go map with more than one entry (whose iteration order is not fixed)?
func bigMap(v reflect.Value) bool {
	switch v.Kind() {
	case reflect.Map:
		return v.Len() > 1
	case reflect.Ptr:
		return !v.IsNil() && bigMap(v.Elem())
	case reflect.Struct:
		for i := 0; i < v.NumField(); i++ {
			if bigMap(v.Field(i)) {
				return true
			}
		}
	case reflect.Slice:
		for i := 0; i < v.Len(); i++ {
			if bigMap(v.Index(i)) {
				return true
			}
		}
	}
	return false
}

func clipStr(s string, n int) string {
	if len(s) > n {
		return s[:n] + "…"
	}
	return s
}

// sigeqLine: Lean says whether the two signed messages encode equally; the implementation says whether the real
// signature hashes are equal.
func (rn *runner) sigeqLine(ti *typeInfo, x, x2 interface{}) {
	tok := func(o interface{}) (string, [32]byte, bool) {
		sb, st := callToBytes(cloneObj(o), "ToSignatureBytes")
		if st != "" {
			return "", [32]byte{}, false
		}
		sm, err := newProto(ti.SigProto)
		if err != nil || unmarshalV1(sb, sm) != nil {
			return "", [32]byte{}, false
		}
		return msgTok(sm, true), crypto.SignatureHash(o.(crypto.SignatureHasher)), true
	}
	t1, h1, ok1 := tok(x)
	t2, h2, ok2 := tok(x2)
	if !ok1 || !ok2 {
		return
	}
	ans := "diff"
	if h1 == h2 {
		ans = "same"
	}
	rn.c.Line("sigeq "+ti.SigProto+" "+t1+" "+t2, ans)
}

func (rn *runner) wireCase(name string, seed int64) {
	c := rn.c
	cs := c18case{Kind: "wire", Type: name, Seed: seed}
	r := rand.New(rand.NewSource(seed))
	m, err := newProto(name)
	if err != nil {
		rn.fail("C18:harness", err.Error(), cs)
		return
	}
	randProto(r, m, 0)
	b, err := marshalV1(m)
	c.Line("new", "ok")
	if err != nil {
		rn.fail("C18:marshal-fails:"+name, err.Error(), cs)
		return
	}
	m2, _ := newProto(name)
	if err := unmarshalV1(b, m2); err != nil {
		rn.fail("C18:unmarshal-fails:"+name, err.Error(), cs)
		return
	}
	b2, _ := marshalV1(m2)
	if !bytes.Equal(b, b2) {
		rn.fail("C18:protobuf-reencode-differs:"+name, "library marshal(unmarshal(marshal m)) != marshal m", cs)
		return
	}
	c.Line("enc "+name+" "+msgTok(m, true), "x"+fmt.Sprintf("%x", b)+" "+msgTok(m2, false))
	c.Hit("wire:" + name)
	if c.Distinct(fmt.Sprintf("W:%s:%x", name, crypto.Hash(b))) && len(b) > 0 {
		c.Rep.Distinct++
	}
	c.Rep.Evaluations++
}

func (rn *runner) convLines(n int) {
	c := rn.c
	r := c.Rng
	c.Line("new", "ok")
	bigs := []*big.Int{nil, big.NewInt(0), big.NewInt(1), big.NewInt(255), big.NewInt(256), big.NewInt(-5), big.NewInt(-256),
		new(big.Int).Lsh(big.NewInt(1), 64), new(big.Int).Set(bigMax256), new(big.Int).Neg(bigMax256)}
	for i := 0; i < n; i++ {
		b := new(big.Int).SetUint64(r.Uint64())
		b.Lsh(b, uint(r.Intn(300)))
		b.Add(b, new(big.Int).SetUint64(r.Uint64()))
		if r.Intn(5) == 0 {
			b.Neg(b)
		}
		bigs = append(bigs, b)
	}
	for _, b := range bigs {
		tok := "nil"
		if b != nil {
			tok = b.String()
		}
		enc := common.BigIntBytesOrNil(b)
		c.Line("big "+tok, "x"+fmt.Sprintf("%x", enc))
		// the wire path: an empty bytes field is absent, Unmarshal leaves nil
		var wire []byte
		if len(enc) > 0 {
			wire = enc
		}
		back := common.BigIntOrNil(wire)
		ans := "nil"
		if back != nil {
			ans = back.String()
		}
		c.Line("unbig "+hx.Hex(wire), ans)
		c.Rep.Evaluations++
	}
	ints := []int64{0, 1, -1, 1<<63 - 1, -1 << 63, 1 << 31, -(1 << 31), 1 << 32}
	for i := 0; i < n; i++ {
		ints = append(ints, int64(randU64(r)))
	}
	for _, z := range ints {
		c.Line(fmt.Sprintf("i64 %d", z), fmt.Sprintf("%d", uint64(z)))
		c.Line(fmt.Sprintf("uni64 %d", uint64(z)), fmt.Sprintf("%d", z))
	}
	for i := 0; i < n; i++ {
		b := make([]byte, r.Intn(45))
		r.Read(b)
		h := common.BytesToHash(b)
		a := common.BytesToAddress(b)
		s := types.BytesToSeed(b)
		h128 := common.BytesToHash128(b)
		c.Line("fix 32 "+hx.Hex(b), "x"+fmt.Sprintf("%x", h[:]))
		c.Line("fix 20 "+hx.Hex(b), "x"+fmt.Sprintf("%x", a[:]))
		c.Line("fix 32 "+hx.Hex(b), "x"+fmt.Sprintf("%x", s[:]))
		c.Line("fix 16 "+hx.Hex(b), "x"+fmt.Sprintf("%x", h128[:]))
	}
}

var pinnedSchemas = map[string]bool{"ProtoTransaction.Data": true, "ProtoTransaction": true, "ProtoVote.Data": true,
	"ProtoBlockHeader.Proposed": true, "ProtoBlockHeader.Empty": true, "ProtoBlockCert": true}

func (rn *runner) preamble() (*extractResult, error) {
	c := rn.c
	c.Line("new", "ok")
	for _, md := range allMessageDescs() {
		tok, err := schemaTok(md, 0)
		if err != nil {
			return nil, fmt.Errorf("protobuf descriptor outside the modelled fragment: %v", err)
		}
		ans := "ok"
		if pinnedSchemas[shortName(md)] {
			ans = "ok pinned"
		}
		c.Line("schema "+shortName(md)+" "+tok, ans)
	}
	res, err := extractTable(repoRoot())
	if err != nil {
		return nil, err
	}
	c.Line("new", "ok")
	for _, row := range res.Rows {
		rn.rows[row.key()] = row
		c.Line(row.opLine(), "ok")
		if !row.ok() {
			why := "is not written by any encoder / read back by any decoder through a common proto field"
			if row.Signed && row.Unsigned == "" && len(row.Sig) == 0 && len(row.Enc) > 0 {
				why = "is encoded but not part of the signature message of a signed object"
			}
			rn.fail("C18:field-not-covered:"+row.key(), fmt.Sprintf("Go field %s.%s (%s) %s and is not allow-listed (enc=%v dec=%v sig=%v)",
				row.Type, row.Field, row.Pkg, why, row.Enc, row.Dec, row.Sig), c18case{Kind: "table", Type: row.Pkg + ":" + row.Type, Row: row.opLine()})
		}
		if row.Allow != "" {
			rn.rules.skip[row.key()] = true
			c.Hit("table:allow-listed")
		} else {
			c.Hit("table:covered")
		}
		c.Rep.Evaluations++
	}
	c.Line(fmt.Sprintf("table-end %d", len(res.Rows)), fmt.Sprintf("TableOK %d", len(res.Rows)))
	for k := range allowList {
		found := false
		for _, row := range res.Rows {
			if row.key() == k {
				found = true
			}
		}
		if !found {
			c.Rep.Notes = append(c.Rep.Notes, "allow-list entry without a matching field (stale): "+k)
		}
	}
	reg := map[string]bool{}
	for _, ti := range registry {
		reg[ti.Name] = true
	}
	owners, err := scanCodecOwners(repoRoot())
	if err != nil {
		return nil, err
	}
	c.Rep.Coverage["tobytes_frombytes_owners_in_repo"] = len(owners)
	for _, ct := range owners {
		if !reg[ct] && codecExempt[ct] == "" {
			rn.fail("C18:unregistered-encodable-type:"+ct, "type "+ct+" has a ToBytes/FromBytes method but is neither in the harness registry nor exempt (its round trip is unchecked)",
				c18case{Kind: "registry", Type: ct})
		}
	}
	for _, ct := range res.CodecTypes {
		if !reg[ct] {
			rn.fail("C18:unregistered-encodable-type:"+ct, "type "+ct+" has ToBytes/FromBytes but is not in the harness registry (its round trip is unchecked)",
				c18case{Kind: "registry", Type: ct})
		}
	}
	c.Rep.Coverage["table_rows"] = len(res.Rows)
	c.Rep.Coverage["codec_functions_analysed"] = res.Funcs
	c.Rep.Coverage["encodable_types"] = len(res.CodecTypes)
	return res, nil
}

// utf8Probe records (as a note, not a failure) what happens to string fields holding invalid UTF-8: proto3 refuses
// them, so "valid UTF-8" is a WF side condition of the round trip (stated in C18.py).
func (rn *runner) utf8Probe() {
	x := &types.TxReceipt{Method: "ok", Events: []*types.TxEvent{{EventName: "bad\xff\xfename"}}}
	_, st := callToBytes(x, "ToBytes")
	rn.c.Rep.Notes = append(rn.c.Rep.Notes, "WF probe: TxReceipt with an invalid-UTF-8 event name -> ToBytes: "+strDash(st)+" (proto3 string fields demand valid UTF-8)")
	neg := &state.Account{Balance: big.NewInt(-5)}
	b, _ := callToBytes(neg, "ToBytes")
	y := new(state.Account)
	_ = y.FromBytes(b)
	rn.c.Rep.Notes = append(rn.c.Rep.Notes, fmt.Sprintf("WF probe: Account.Balance=-5 decodes as %v (sign not representable; WF demands 0 <= x)", y.Balance))
}

func findType(name string) *typeInfo {
	for i := range registry {
		if registry[i].Name == name {
			return &registry[i]
		}
	}
	return nil
}

func profByName(n string) profile {
	for i, s := range profNames {
		if s == n {
			return profile(i)
		}
	}
	return profRandom
}

func init() {
	hx.Register("C18", func(c *hx.Ctx) error {
		rn := &runner{c: c, key: testKey(1), mutated: map[string]int{}, rows: map[string]fieldRow{}, specs: map[string]*recSpec{},
			rules: &semRules{skip: map[string]bool{},
				// a proposal without block decodes as a proposal with an empty block; both are !IsValid (types.go:1156,1168)
				zeroIsNil: map[string]bool{"BlockProposal.Block": true},
				// ShardSizes is read through map lookups only: a missing id reads 0 (state_object.go:337)
				missing0: map[string]bool{"Global.ShardSizes": true}}}
		c.Rep.Rule = "every encodable type x value profiles (zero / empty-non-nil / max / one distinguishing value per field / random incl. long byte strings) " +
			"x single-field changes of every leaf (scalars, byte strings, big ints, presence of pointers, slice lengths, map entries); " +
			"plus random messages over every message type of models.proto; distinct = distinct (type, encoding) pairs with a non-empty encoding"
		if _, err := rn.preamble(); err != nil {
			return err
		}
		if c.Replay != "" {
			b, err := os.ReadFile(c.Replay)
			if err != nil {
				return err
			}
			var wrap struct {
				Replay c18case `json:"replay"`
			}
			if err := json.Unmarshal(b, &wrap); err != nil {
				return err
			}
			cs := wrap.Replay
			switch cs.Kind {
			case "object":
				ti := findType(cs.Type)
				if ti == nil {
					return fmt.Errorf("unknown type %q", cs.Type)
				}
				rn.checkObject(ti, profByName(cs.Profile), cs.Seed, 1<<30, cs.Leaf)
			case "header":
				if cs.Hdr == nil {
					return fmt.Errorf("header replay without shape")
				}
				rn.hdrCase(*cs.Hdr)
			case "cert":
				if cs.Cert == nil {
					return fmt.Errorf("cert replay without votes")
				}
				rn.certCase(*cs.Cert)
			case "noncanonical":
				ti := findType(cs.Type)
				if ti == nil {
					return fmt.Errorf("unknown type %q", cs.Type)
				}
				rn.nonCanonicalCase(ti, profByName(cs.Profile), cs.Seed, cs.Mut)
			case "memo":
				ti := findType(cs.Type)
				if ti == nil {
					return fmt.Errorf("unknown type %q", cs.Type)
				}
				rn.memoCase(ti, profByName(cs.Profile), cs.Seed, cs.Steps)
			case "wire":
				rn.wireCase(cs.Type, cs.Seed)
			case "table", "registry", "golden":
				// the preamble has re-evaluated the table against the current source
				if cs.Kind == "golden" {
					rn.goldenVectors()
				}
			default:
				return fmt.Errorf("unknown replay kind %q", cs.Kind)
			}
			c.Rep.Evaluations++
			return nil
		}
		rn.convLines(c.Scale(60, 3000))
		rn.utf8Probe()
		rn.goldenVectors()
		rn.memoFamily(c.Scale(60, 1500))
		rn.nonCanonicalFamily(c.Scale(10, 150))
		rn.certFamily(c.Scale(150, 4000))
		rn.hdrFamily(c.Scale(80, 2000))
		perType := c.Scale(25, 250) // random-profile objects per type (besides the 4 fixed profiles)
		maxMut := c.Scale(40, 120)
		for i := range registry {
			ti := &registry[i]
			for _, p := range []profile{profZero, profEmpty, profMax, profDistinct} {
				mm := maxMut
				if p == profDistinct {
					mm = 1 << 30 // every leaf of the fully populated object
				}
				seed := c.Rng.Int63()
				rn.checkObject(ti, p, seed, mm, "")
				if i < 2 && p == profDistinct {
					c.Sample(map[string]interface{}{"type": ti.Name, "profile": profNames[p], "object": clipStr(describe(reflect.ValueOf(genObject(ti, p, seed, rn.key)).Elem(), 0), 600)})
				}
			}
			for k := 0; k < perType; k++ {
				rn.checkObject(ti, profRandom, c.Rng.Int63(), maxMut, "")
			}
		}
		descs := allMessageDescs()
		nw := c.Scale(30, 500)
		for _, md := range descs {
			for k := 0; k < nw; k++ {
				rn.wireCase(shortName(md), c.Rng.Int63())
			}
		}
		// per-field census of what the single-field changes reached
		var never []string
		for k := range rn.rows {
			if rn.mutated[k] == 0 {
				never = append(never, k)
			}
		}
		sort.Strings(never)
		sort.Strings(rn.flat)
		c.Rep.Coverage["flat_record_types"] = rn.flat
		c.Rep.Coverage["fields_never_changed_in_isolation"] = never
		c.Rep.Coverage["fields_changed_in_isolation"] = len(rn.mutated)
		return nil
	})
}
