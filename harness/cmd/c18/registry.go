package main

// Registry of every encodable type of idena-go (everything with ToBytes/FromBytes), how to construct it, the
// protobuf message it is written as, and - for signed objects - how the signer is recovered by the real code.

import (
	"crypto/ecdsa"
	"fmt"
	"math/rand"
	"reflect"

	"github.com/idena-network/idena-go/blockchain/attachments"
	"github.com/idena-network/idena-go/blockchain/types"
	"github.com/idena-network/idena-go/common"
	"github.com/idena-network/idena-go/core/flip"
	"github.com/idena-network/idena-go/core/mempool"
	idprofile "github.com/idena-network/idena-go/core/profile"
	"github.com/idena-network/idena-go/core/state"
	"github.com/idena-network/idena-go/core/state/snapshot"
	"github.com/idena-network/idena-go/crypto"
	"github.com/idena-network/idena-go/deferredtx"
	"github.com/idena-network/idena-go/protocol"
	"github.com/idena-network/idena-go/rlp"
)

type typeInfo struct {
	Name     string             // "<pkg dir>:<Type>" as reported by the extractor
	New      func() interface{} // pointer to a fresh value ready for FromBytes
	Proto    string             // message type ToBytes marshals (models.<Proto>)
	SigProto string             // message type ToSignatureBytes marshals ("" = not signed)
	// byte identity of the re-encoding is not demanded (node-local store whose encoder walks a Go map)
	SemanticOnly bool
	// Fix adjusts a generically populated value to the stated WF conditions
	Fix func(x interface{}, r *rand.Rand)
	// Recover returns the signer the real code derives (address or public key bytes) or an error
	Recover func(x interface{}) ([]byte, error)
	// Sign puts a valid signature of key on x (real signing code)
	Sign func(x interface{}, key *ecdsa.PrivateKey) error
	// Resign: the real public re-signing API; returns the NEW object it produces
	Resign func(x interface{}, key *ecdsa.PrivateKey) (interface{}, error)
	// Hashes: real hash methods whose stability across a round trip is part of the property
	Hashes func(x interface{}) []string
}

func hx32(h [32]byte) string { return fmt.Sprintf("%x", h[:]) }
func hx16(h [16]byte) string { return fmt.Sprintf("%x", h[:]) }

func signWith(x crypto.SignatureHasher, key *ecdsa.PrivateKey) ([]byte, error) {
	h := crypto.SignatureHash(x)
	return crypto.Sign(h[:], key)
}

func fixGlobal(x interface{}, r *rand.Rand) {
	g := x.(*state.Global)
	// WF (DESIGN C18): ShardSizes is written for ids 1..ShardsNum only, and the encoder loops ShardsNum times
	g.ShardsNum = uint32(r.Intn(6))
	if g.ShardSizes != nil {
		m := map[common.ShardId]uint32{}
		for i := uint32(1); i <= g.ShardsNum; i++ {
			if r.Intn(4) != 0 {
				m[common.ShardId(i)] = uint32(randU64(r))
			}
		}
		g.ShardSizes = m
	}
}

var registry = []typeInfo{
	// ---- blockchain/types ----
	{Name: "blockchain/types:Transaction", New: func() interface{} { return new(types.Transaction) }, Proto: "ProtoTransaction", SigProto: "ProtoTransaction.Data",
		Recover: func(x interface{}) ([]byte, error) { a, err := types.Sender(x.(*types.Transaction)); return a[:], err },
		Sign: func(x interface{}, k *ecdsa.PrivateKey) error {
			tx := x.(*types.Transaction)
			if tx.UseRlp { // legacy scheme (transaction_signing.go:84, unexported): mirrored here, validated by the recovery check
				h := rlp.Hash([]interface{}{tx.AccountNonce, tx.Epoch, tx.Type, tx.To, tx.Amount, tx.MaxFee, tx.Tips, tx.Payload})
				s, err := crypto.Sign(h[:], k)
				tx.Signature = s
				return err
			}
			s, err := signWith(tx, k)
			tx.Signature = s
			return err
		},
		Resign: func(x interface{}, k *ecdsa.PrivateKey) (interface{}, error) {
			return types.SignTx(x.(*types.Transaction), k)
		},
		Hashes: func(x interface{}) []string {
			t := x.(*types.Transaction)
			return []string{hx32(t.Hash()), hx16(t.Hash128())}
		}},
	{Name: "blockchain/types:Vote", New: func() interface{} { return new(types.Vote) }, Proto: "ProtoVote", SigProto: "ProtoVote.Data",
		Fix: func(x interface{}, r *rand.Rand) {
			if v := x.(*types.Vote); v.Header == nil { // ToSignatureBytes dereferences Header; a vote without header is !IsValid
				v.Header = &types.VoteHeader{}
			}
		},
		Recover: func(x interface{}) ([]byte, error) { // VoterAddr() maps every error to the zero address; PubKey() is what it recovers
			pk, err := x.(*types.Vote).PubKey()
			if err != nil {
				return nil, err
			}
			a := x.(*types.Vote).VoterAddr()
			want, _ := crypto.PubKeyBytesToAddress(pk)
			if a != want {
				return nil, fmt.Errorf("VoterAddr %x != address of PubKey %x", a, want)
			}
			return a[:], nil
		},
		Sign: func(x interface{}, k *ecdsa.PrivateKey) error {
			s, err := signWith(x.(*types.Vote), k)
			x.(*types.Vote).Signature = s
			return err
		},
		Hashes: func(x interface{}) []string {
			v := x.(*types.Vote)
			return []string{hx32(v.Hash()), hx16(v.Hash128())}
		}},
	{Name: "blockchain/types:BlockProposal", New: func() interface{} { return new(types.BlockProposal) }, Proto: "ProtoBlockProposal", SigProto: "ProtoBlockProposal.Data",
		Recover: func(x interface{}) ([]byte, error) { return types.BlockProposalPubKey(x.(*types.BlockProposal)) },
		Sign: func(x interface{}, k *ecdsa.PrivateKey) error {
			s, err := signWith(x.(*types.BlockProposal), k)
			x.(*types.BlockProposal).Signature = s
			return err
		}},
	{Name: "blockchain/types:ProofProposal", New: func() interface{} { return new(types.ProofProposal) }, Proto: "ProtoProposeProof", SigProto: "ProtoProposeProof.Data",
		Recover: func(x interface{}) ([]byte, error) { return types.ProofProposalPubKey(x.(*types.ProofProposal)) },
		Sign: func(x interface{}, k *ecdsa.PrivateKey) error {
			s, err := signWith(x.(*types.ProofProposal), k)
			x.(*types.ProofProposal).Signature = s
			return err
		},
		Hashes: func(x interface{}) []string { return []string{hx16(x.(*types.ProofProposal).Hash128())} }},
	{Name: "blockchain/types:PublicFlipKey", New: func() interface{} { return new(types.PublicFlipKey) }, Proto: "ProtoFlipKey", SigProto: "ProtoFlipKey.Data",
		Recover: func(x interface{}) ([]byte, error) {
			a, err := types.SenderFlipKey(x.(*types.PublicFlipKey))
			return a[:], err
		},
		Sign: func(x interface{}, k *ecdsa.PrivateKey) error {
			s, err := signWith(x.(*types.PublicFlipKey), k)
			x.(*types.PublicFlipKey).Signature = s
			return err
		},
		Resign: func(x interface{}, k *ecdsa.PrivateKey) (interface{}, error) {
			return types.SignFlipKey(x.(*types.PublicFlipKey), k)
		},
		Hashes: func(x interface{}) []string { return []string{hx32(x.(*types.PublicFlipKey).Hash())} }},
	{Name: "blockchain/types:PrivateFlipKeysPackage", New: func() interface{} { return new(types.PrivateFlipKeysPackage) }, Proto: "ProtoPrivateFlipKeysPackage", SigProto: "ProtoPrivateFlipKeysPackage.Data",
		Recover: func(x interface{}) ([]byte, error) {
			a, err := types.SenderFlipKeysPackage(x.(*types.PrivateFlipKeysPackage))
			return a[:], err
		},
		Sign: func(x interface{}, k *ecdsa.PrivateKey) error {
			s, err := signWith(x.(*types.PrivateFlipKeysPackage), k)
			x.(*types.PrivateFlipKeysPackage).Signature = s
			return err
		},
		Resign: func(x interface{}, k *ecdsa.PrivateKey) (interface{}, error) {
			return types.SignFlipKeysPackage(x.(*types.PrivateFlipKeysPackage), k)
		},
		Hashes: func(x interface{}) []string { return []string{hx16(x.(*types.PrivateFlipKeysPackage).Hash128())} }},
	{Name: "blockchain/types:Block", New: func() interface{} { return new(types.Block) }, Proto: "ProtoBlock",
		Hashes: func(x interface{}) []string {
			b := x.(*types.Block)
			if b.Header == nil || (b.Header.ProposedHeader == nil && b.Header.EmptyBlockHeader == nil) {
				return []string{hx16(b.Hash128())} // Hash() of a header-less block is a nil dereference by construction (!IsValid)
			}
			return []string{hx32(b.Hash()), hx16(b.Hash128())}
		}},
	{Name: "blockchain/types:Header", New: func() interface{} { return new(types.Header) }, Proto: "ProtoBlockHeader",
		Hashes: func(x interface{}) []string {
			h := x.(*types.Header)
			if h.ProposedHeader == nil && h.EmptyBlockHeader == nil {
				return nil
			}
			return []string{hx32(h.Hash())}
		}},
	{Name: "blockchain/types:Body", New: func() interface{} { return new(types.Body) }, Proto: "ProtoBlockBody"},
	{Name: "blockchain/types:BlockCert", New: func() interface{} { return new(types.BlockCert) }, Proto: "ProtoBlockCert"},
	{Name: "blockchain/types:Flip", New: func() interface{} { return new(types.Flip) }, Proto: "ProtoFlip",
		Hashes: func(x interface{}) []string { return []string{hx16(x.(*types.Flip).Hash128())} }},
	{Name: "blockchain/types:ActivityMonitor", New: func() interface{} { return new(types.ActivityMonitor) }, Proto: "ProtoActivityMonitor"},
	{Name: "blockchain/types:SavedTransaction", New: func() interface{} { return new(types.SavedTransaction) }, Proto: "ProtoSavedTransaction"},
	{Name: "blockchain/types:BurntCoins", New: func() interface{} { return new(types.BurntCoins) }, Proto: "ProtoBurntCoins"},
	{Name: "blockchain/types:TransactionIndex", New: func() interface{} { return new(types.TransactionIndex) }, Proto: "ProtoTransactionIndex"},
	{Name: "blockchain/types:TxReceipts", New: func() interface{} { return new(types.TxReceipts) }, Proto: "ProtoTxReceipts"},
	{Name: "blockchain/types:TxReceipt", New: func() interface{} { return new(types.TxReceipt) }, Proto: "ProtoTxReceipts.ProtoTxReceipt"},
	{Name: "blockchain/types:TxReceiptIndex", New: func() interface{} { return new(types.TxReceiptIndex) }, Proto: "ProtoTxReceiptIndex"},
	{Name: "blockchain/types:SavedEvent", New: func() interface{} { return new(types.SavedEvent) }, Proto: "ProtoSavedEvent"},
	{Name: "blockchain/types:UpgradeVotes", New: func() interface{} { return types.NewUpgradeVotes() }, Proto: "ProtoUpgradeVotes", SemanticOnly: true},
	// ---- core/state ----
	{Name: "core/state:IdentityStatusSwitch", New: func() interface{} { return new(state.IdentityStatusSwitch) }, Proto: "ProtoStateIdentityStatusSwitch"},
	{Name: "core/state:DelegationSwitch", New: func() interface{} { return new(state.DelegationSwitch) }, Proto: "ProtoStateDelegationSwitch"},
	{Name: "core/state:DelayedPenalties", New: func() interface{} { return new(state.DelayedPenalties) }, Proto: "ProtoStateDelayedPenalties"},
	{Name: "core/state:BurntCoins", New: func() interface{} { return new(state.BurntCoins) }, Proto: "ProtoStateBurntCoins"},
	{Name: "core/state:Global", New: func() interface{} { return new(state.Global) }, Proto: "ProtoStateGlobal", Fix: fixGlobal},
	{Name: "core/state:Account", New: func() interface{} { return new(state.Account) }, Proto: "ProtoStateAccount"},
	{Name: "core/state:Identity", New: func() interface{} { return new(state.Identity) }, Proto: "ProtoStateIdentity"},
	{Name: "core/state:ApprovedIdentity", New: func() interface{} { return new(state.ApprovedIdentity) }, Proto: "ProtoStateApprovedIdentity"},
	{Name: "core/state:IdentityStateDiff", New: func() interface{} { return new(state.IdentityStateDiff) }, Proto: "ProtoIdentityStateDiff"},
	// ---- other packages ----
	{Name: "core/state/snapshot:Manifest", New: func() interface{} { return new(snapshot.Manifest) }, Proto: "ProtoManifest"},
	{Name: "blockchain/attachments:ShortAnswerAttachment", New: func() interface{} { return new(attachments.ShortAnswerAttachment) }, Proto: "ProtoShortAnswerAttachment"},
	{Name: "blockchain/attachments:LongAnswerAttachment", New: func() interface{} { return new(attachments.LongAnswerAttachment) }, Proto: "ProtoLongAnswerAttachment"},
	{Name: "blockchain/attachments:FlipSubmitAttachment", New: func() interface{} { return new(attachments.FlipSubmitAttachment) }, Proto: "ProtoFlipSubmitAttachment"},
	{Name: "blockchain/attachments:OnlineStatusAttachment", New: func() interface{} { return new(attachments.OnlineStatusAttachment) }, Proto: "ProtoOnlineStatusAttachment"},
	{Name: "blockchain/attachments:BurnAttachment", New: func() interface{} { return new(attachments.BurnAttachment) }, Proto: "ProtoBurnAttachment"},
	{Name: "blockchain/attachments:ChangeProfileAttachment", New: func() interface{} { return new(attachments.ChangeProfileAttachment) }, Proto: "ProtoChangeProfileAttachment"},
	{Name: "blockchain/attachments:DeleteFlipAttachment", New: func() interface{} { return new(attachments.DeleteFlipAttachment) }, Proto: "ProtoDeleteFlipAttachment"},
	{Name: "blockchain/attachments:CallContractAttachment", New: func() interface{} { return new(attachments.CallContractAttachment) }, Proto: "ProtoCallContractAttachment"},
	{Name: "blockchain/attachments:DeployContractAttachment", New: func() interface{} { return new(attachments.DeployContractAttachment) }, Proto: "ProtoDeployContractAttachment"},
	{Name: "blockchain/attachments:TerminateContractAttachment", New: func() interface{} { return new(attachments.TerminateContractAttachment) }, Proto: "ProtoTerminateContractAttachment"},
	{Name: "blockchain/attachments:StoreToIpfsAttachment", New: func() interface{} { return new(attachments.StoreToIpfsAttachment) }, Proto: "ProtoStoreToIpfsAttachment"},
	{Name: "core/flip:IpfsFlip", New: func() interface{} { return new(flip.IpfsFlip) }, Proto: "ProtoIpfsFlip"},
	{Name: "core/profile:Profile", New: func() interface{} { return new(idprofile.Profile) }, Proto: "ProtoProfile"},
	{Name: "deferredtx:DeferredTxs", New: func() interface{} { return new(deferredtx.DeferredTxs) }, Proto: "ProtoDeferredTxs"},
	{Name: "core/mempool:keysArray", New: func() interface{} { return mempool.VerifC18NewKeysArray() }, Proto: "ProtoFlipPrivateKeys"},
	{Name: "protocol:Msg", New: func() interface{} { return protocol.VerifC18New("Msg") }, Proto: "ProtoMsg"},
	{Name: "protocol:handshakeData", New: func() interface{} { return protocol.VerifC18New("handshakeData") }, Proto: "ProtoHandshake"},
	{Name: "protocol:pushPullHash", New: func() interface{} { return protocol.VerifC18New("pushPullHash") }, Proto: "ProtoPullPushHash"},
	{Name: "protocol:updateShardId", New: func() interface{} { return protocol.VerifC18New("updateShardId") }, Proto: "ProtoUpdateShardId"},
	{Name: "protocol:msgBatch", New: func() interface{} { return protocol.VerifC18New("msgBatch") }, Proto: "ProtoMsgBatch"},
	{Name: "protocol:disconnect", New: func() interface{} { return protocol.VerifC18New("disconnect") }, Proto: "ProtoDisconnect"},
	{Name: "protocol:blockRange", New: func() interface{} { return protocol.VerifC18New("blockRange") }, Proto: "ProtoGossipBlockRange"},
}

// codecCall invokes the real ToBytes / FromBytes / ToSignatureBytes by reflection (signatures differ slightly
// between types: Body.ToBytes() []byte, TxReceipts.FromBytes(data) TxReceipts, …). Panics become ("panic", msg).
func callToBytes(x interface{}, method string) (b []byte, status string) {
	defer func() {
		if r := recover(); r != nil {
			b, status = nil, fmt.Sprintf("panic: %v", r)
		}
	}()
	m := reflect.ValueOf(x).MethodByName(method)
	if !m.IsValid() {
		return nil, "no-method"
	}
	out := m.Call(nil)
	if len(out) == 2 && !out[1].IsNil() {
		return nil, "err: " + out[1].Interface().(error).Error()
	}
	res := out[0].Bytes()
	if res == nil {
		res = []byte{}
	}
	return res, ""
}

// callFromBytes decodes into a fresh object from New(); returns the decoded object.
func callFromBytes(ti *typeInfo, data []byte) (y interface{}, status string) {
	defer func() {
		if r := recover(); r != nil {
			y, status = nil, fmt.Sprintf("panic: %v", r)
		}
	}()
	y = ti.New()
	m := reflect.ValueOf(y).MethodByName("FromBytes")
	if !m.IsValid() {
		return nil, "no-method"
	}
	out := m.Call([]reflect.Value{reflect.ValueOf(data)})
	if len(out) == 1 {
		if out[0].Type() == tError {
			if !out[0].IsNil() {
				return nil, "err: " + out[0].Interface().(error).Error()
			}
		} else { // TxReceipts.FromBytes returns the decoded list
			p := reflect.New(out[0].Type())
			p.Elem().Set(out[0])
			y = p.Interface()
		}
	}
	return y, ""
}
