package main

// Flat records: derive, at run time, the Spec (Model/RecordCodec.lean) of every encodable type whose Go fields are
// scalars / byte strings / fixed arrays / optional fixed arrays / big integers / times, and emit `rec` lines:
// the generic, proven record codec of the Lean model must produce the real ToBytes output byte for byte.
//   field pairing   : from the regenerated table (the single proto field a Go field is written to AND read from)
//   proto number    : from the struct tag of the generated protobuf struct
//   conversion kind : from the Go field type

import (
	"fmt"
	"math/big"
	"reflect"
	"sort"
	"strconv"
	"strings"
	"time"

	"verifharness/internal/hx"
)

type recField struct {
	num  int
	conv string
	idx  int // Go field index
}

type recSpec struct {
	proto  string
	fields []recField // sorted by proto number
}

// convOf: conversion token of a Go field type ("" = not a flat field)
func convOf(t reflect.Type) string {
	switch {
	case t == tBigPtr:
		return "g"
	case t == tTime:
		return "i"
	case t.Kind() == reflect.Slice && t.Elem().Kind() == reflect.Uint8:
		return "b"
	case isByteArray(t):
		return "f" + strconv.Itoa(t.Len())
	case t.Kind() == reflect.Ptr && isByteArray(t.Elem()):
		return "o" + strconv.Itoa(t.Elem().Len())
	}
	switch t.Kind() {
	case reflect.Uint8, reflect.Uint16, reflect.Uint32, reflect.Uint64:
		return "u"
	case reflect.Int64:
		return "i"
	case reflect.Bool:
		return "t"
	case reflect.String:
		return "b"
	}
	return ""
}

func protoFieldNumber(protoStruct reflect.Type, goName string) int {
	f, ok := protoStruct.FieldByName(goName)
	if !ok {
		return 0
	}
	parts := strings.Split(f.Tag.Get("protobuf"), ",")
	if len(parts) < 2 {
		return 0
	}
	n, _ := strconv.Atoi(parts[1])
	return n
}

// deriveSpec returns nil when the type is not a flat record (or the table does not pair its fields one to one).
func deriveSpec(goType reflect.Type, protoName string, rows map[string]fieldRow) *recSpec {
	pm, err := newProto(protoName)
	if err != nil {
		return nil
	}
	pst := reflect.TypeOf(pm.Interface()).Elem()
	sp := &recSpec{proto: protoName}
	used := map[int]bool{}
	for i := 0; i < goType.NumField(); i++ {
		f := goType.Field(i)
		row, ok := rows[goType.Name()+"."+f.Name]
		if !ok {
			return nil
		}
		if row.Allow != "" {
			continue
		}
		cv := convOf(f.Type)
		if cv == "" {
			return nil
		}
		var common []string
		for _, e := range row.Enc {
			for _, d := range row.Dec {
				if e == d {
					common = append(common, e)
				}
			}
		}
		if len(common) != 1 {
			return nil
		}
		n := protoFieldNumber(pst, common[0])
		if n == 0 || used[n] {
			return nil
		}
		used[n] = true
		sp.fields = append(sp.fields, recField{num: n, conv: cv, idx: i})
	}
	if len(sp.fields) == 0 {
		return nil
	}
	sort.Slice(sp.fields, func(i, j int) bool { return sp.fields[i].num < sp.fields[j].num })
	return sp
}

func (sp *recSpec) specTok() string {
	var parts []string
	for _, f := range sp.fields {
		parts = append(parts, fmt.Sprintf("%d:%s", f.num, f.conv))
	}
	return strings.Join(parts, ",")
}

// valsTok renders the Go values of a struct (addressable) in spec order.
func (sp *recSpec) valsTok(st reflect.Value) string {
	var parts []string
	for _, f := range sp.fields {
		v := readable(st.Field(f.idx))
		t := v.Type()
		switch {
		case t == tBigPtr:
			if v.IsNil() {
				parts = append(parts, "g-")
			} else {
				parts = append(parts, "g"+v.Interface().(*big.Int).String())
			}
		case t == tTime:
			parts = append(parts, fmt.Sprintf("z%d", v.Interface().(time.Time).Unix()))
		case t.Kind() == reflect.Slice:
			parts = append(parts, "b"+fmt.Sprintf("%x", v.Bytes()))
		case isByteArray(t):
			b := make([]byte, t.Len())
			for i := range b {
				b[i] = byte(v.Index(i).Uint())
			}
			parts = append(parts, "b"+fmt.Sprintf("%x", b))
		case t.Kind() == reflect.Ptr:
			if v.IsNil() {
				parts = append(parts, "o-")
			} else {
				b := make([]byte, t.Elem().Len())
				for i := range b {
					b[i] = byte(v.Elem().Index(i).Uint())
				}
				parts = append(parts, "o"+fmt.Sprintf("%x", b))
			}
		case t.Kind() == reflect.Bool:
			if v.Bool() {
				parts = append(parts, "t1")
			} else {
				parts = append(parts, "t0")
			}
		case t.Kind() == reflect.String:
			parts = append(parts, "b"+fmt.Sprintf("%x", []byte(v.String())))
		case t.Kind() == reflect.Int64:
			parts = append(parts, fmt.Sprintf("z%d", v.Int()))
		default:
			parts = append(parts, fmt.Sprintf("n%d", v.Uint()))
		}
	}
	return strings.Join(parts, ",")
}

// recLine emits the `rec` op for one real encoding of a flat struct (pointer to struct).
func (rn *runner) recLine(structPtr interface{}, protoName string, real []byte) {
	st := reflect.ValueOf(structPtr).Elem()
	key := st.Type().PkgPath() + "." + st.Type().Name() + "@" + protoName
	sp, seen := rn.specs[key]
	if !seen {
		sp = deriveSpec(st.Type(), protoName, rn.rows)
		rn.specs[key] = sp
		if sp != nil {
			rn.flat = append(rn.flat, st.Type().Name()+"="+protoName)
		}
	}
	if sp == nil {
		return
	}
	rn.c.Line("rec "+protoName+" "+sp.specTok()+" "+sp.valsTok(st), hx.Hex(real))
	rn.c.Hit("flat-record-line")
}
