package main

// Route "header validity and accessor binding" (types.go:558-657, 441, 1166; protocol/batch.go:77).
// Honest encoders never emit a header with both parts or with none; peers can. Such objects are crafted as
// protobuf bytes and decoded by the real FromBytes:
//   validity : IsValid() of Header / Block / BlockProposal / blockRange must be true exactly when the header has
//              exactly one part (and, for a proposal, a proposed part signed by its proposer key);
//   binding  : for every VALID header, a change of any backing field that changes what an accessor returns
//              (Height, ParentHash, Seed, Root, IdentityRoot, Time, FeePerGas, IpfsHash, Flags, Coinbase, OfflineAddr)
//              must change Hash(); with both parts present the accessor/hash split is observed (the hash covers the
//              proposed part, Root/IdentityRoot/Seed/Time/Flags read the empty part) - the reason it must be invalid.

import (
	"fmt"
	"math/rand"
	"reflect"
	"sort"
	"strings"

	protov1 "github.com/golang/protobuf/proto"
	"github.com/idena-network/idena-go/blockchain/types"
	"github.com/idena-network/idena-go/crypto"
	models "github.com/idena-network/idena-go/protobuf"
	"github.com/idena-network/idena-go/protocol"

	"verifharness/internal/hx"
)

func safeStr(f func() string) (s string) {
	defer func() {
		if r := recover(); r != nil {
			s = "panic"
		}
	}()
	return f()
}

// accessorView: what the node reads from a header (never the hash itself)
func accessorView(h *types.Header) map[string]string {
	m := map[string]string{}
	m["Height"] = safeStr(func() string { return fmt.Sprint(h.Height()) })
	m["ParentHash"] = safeStr(func() string { return h.ParentHash().Hex() })
	m["Seed"] = safeStr(func() string { s := h.Seed(); return fmt.Sprintf("%x", s[:]) })
	m["Root"] = safeStr(func() string { return h.Root().Hex() })
	m["IdentityRoot"] = safeStr(func() string { return h.IdentityRoot().Hex() })
	m["Time"] = safeStr(func() string { return fmt.Sprint(h.Time()) })
	m["FeePerGas"] = safeStr(func() string { return fmt.Sprint(h.FeePerGas()) })
	m["IpfsHash"] = safeStr(func() string { return fmt.Sprintf("%x", h.IpfsHash()) })
	m["Flags"] = safeStr(func() string { return fmt.Sprint(uint32(h.Flags())) })
	m["Coinbase"] = safeStr(func() string { return h.Coinbase().Hex() })
	m["OfflineAddr"] = safeStr(func() string {
		if a := h.OfflineAddr(); a != nil {
			return a.Hex()
		}
		return "nil"
	})
	return m
}

func hashOf(h *types.Header) string {
	return safeStr(func() string { return h.Hash().Hex() })
}

type hdrCase struct {
	Seed     int64 `json:"seed"`
	Proposed bool  `json:"proposed_part"`
	Empty    bool  `json:"empty_part"`
}

func (rn *runner) hdrRun(hc hdrCase, emit bool) (string, string) {
	r := rand.New(rand.NewSource(hc.Seed))
	pc := &popCtx{r: r, prof: profRandom}
	ph := &types.ProposedHeader{}
	eh := &types.EmptyBlockHeader{}
	pc.populate(reflect.ValueOf(ph).Elem(), "ProposedHeader")
	pc.populate(reflect.ValueOf(eh).Elem(), "EmptyBlockHeader")
	ph.ProposerPubKey = crypto.FromECDSAPub(&rn.key.PublicKey)
	pb := &models.ProtoBlockHeader{}
	if hc.Proposed {
		pb.ProposedHeader = ph.ToProto()
	}
	if hc.Empty {
		pb.EmptyHeader = eh.ToProto()
	}
	hb, err := protov1.Marshal(pb) // the crafted bytes
	if err != nil {
		return "C18:harness", err.Error()
	}
	one := hc.Proposed != hc.Empty
	shape := fmt.Sprintf("header with proposed part=%v, empty part=%v", hc.Proposed, hc.Empty)
	verdict := func(T string, got, want bool) (string, string) {
		if got == want {
			return "", ""
		}
		if hc.Proposed && hc.Empty {
			return "C18:two-part-header-valid:" + T, T + " decoded from a " + shape + ": IsValid() = true; Hash/Height/ParentHash read the proposed part while Root/IdentityRoot/Seed/Time/Flags read the empty part, so the hash does not cover what the node acts on"
		}
		return "C18:header-validity-wrong:" + T, fmt.Sprintf("%s decoded from a %s: IsValid() = %v, expected %v", T, shape, got, want)
	}
	// Header
	h := new(types.Header)
	if err := h.FromBytes(hb); err != nil {
		return "C18:decode-fails:Header", err.Error()
	}
	if (h.ProposedHeader != nil) != hc.Proposed || (h.EmptyBlockHeader != nil) != hc.Empty {
		return "C18:roundtrip-not-equal:Header", "decoded header does not have the parts of the crafted message"
	}
	if s, d := verdict("Header", h.IsValid(), one); s != "" {
		return s, d
	}
	if emit {
		part := func(on bool, height uint64, root []byte) string {
			if !on {
				return "-"
			}
			return fmt.Sprintf("%d:%s", height, hx.Hex(root))
		}
		hp := "-"
		if hv := hashOf(h); hc.Proposed && hv == ph.Hash().Hex() {
			hp = "p"
		} else if hc.Empty && !hc.Proposed && hv == eh.Hash().Hex() {
			hp = "e"
		}
		v := "0"
		if h.IsValid() {
			v = "1"
		}
		hh, rt := "-", "-"
		if hc.Proposed || hc.Empty {
			hh = fmt.Sprint(h.Height())
			root := h.Root()
			rt = hx.Hex(root[:])
		}
		rn.c.Line("hvalid "+part(hc.Proposed, ph.Height, ph.Root[:])+" "+part(hc.Empty, eh.Height, eh.Root[:]),
			"valid="+v+" hash="+hp+" height="+hh+" root="+rt)
	}
	// Block
	bb, _ := protov1.Marshal(&models.ProtoBlock{Header: pb, Body: &models.ProtoBlockBody{}})
	blk := new(types.Block)
	if err := blk.FromBytes(bb); err != nil {
		return "C18:decode-fails:Block", err.Error()
	}
	if s, d := verdict("Block", safeStr(func() string { return fmt.Sprint(blk.IsValid()) }) == "true", one); s != "" {
		return s, d
	}
	// BlockProposal: signed by the proposer key over exactly this block
	prop := &types.BlockProposal{Block: blk, Proof: []byte{1}}
	sig, err := signWith(prop, rn.key)
	if err != nil {
		return "C18:harness", err.Error()
	}
	prop.Signature = sig
	pbytes, _ := prop.ToBytes()
	prop2 := new(types.BlockProposal)
	if err := prop2.FromBytes(pbytes); err != nil {
		return "C18:decode-fails:BlockProposal", err.Error()
	}
	if s, d := verdict("BlockProposal", safeStr(func() string { return fmt.Sprint(prop2.IsValid()) }) == "true", hc.Proposed && !hc.Empty); s != "" {
		return s, d
	}
	// blockRange (sync answer): one honest-shaped entry and this one
	rb, _ := protov1.Marshal(&models.ProtoGossipBlockRange{BatchId: 7, Blocks: []*models.ProtoGossipBlockRange_Block{{Header: pb}}})
	br := protocol.VerifC18New("blockRange")
	if out := reflect.ValueOf(br).MethodByName("FromBytes").Call([]reflect.Value{reflect.ValueOf(rb)}); !out[0].IsNil() {
		return "C18:decode-fails:blockRange", fmt.Sprint(out[0].Interface())
	}
	brValid := safeStr(func() string { return fmt.Sprint(reflect.ValueOf(br).MethodByName("IsValid").Call(nil)[0].Bool()) }) == "true"
	if s, d := verdict("blockRange", brValid, one); s != "" {
		return s, d
	}
	rn.c.Rep.Evaluations += 4
	if !hc.Proposed && !hc.Empty {
		return "", ""
	}
	// binding: change every backing field of every present part
	base, baseHash := accessorView(h), hashOf(h)
	var unbound []string
	type leafRef struct{ path string }
	var leaves []string
	walkLeaves(reflect.ValueOf(h).Elem(), "Header", "", func(p, o string, v reflect.Value) bool {
		leaves = append(leaves, p)
		return false
	})
	for li, lp := range leaves {
		if strings.HasSuffix(lp, "ProposedHeader?") || strings.HasSuffix(lp, "EmptyBlockHeader?") {
			continue // presence of a part changes the shape, judged by the validity clause
		}
		h2 := cloneObj(h).(*types.Header)
		n := 0
		lr := rand.New(rand.NewSource(hc.Seed + int64(li)))
		walkLeaves(reflect.ValueOf(h2).Elem(), "Header", "", func(p, o string, v reflect.Value) bool {
			if n == li {
				mutateLeaf(lr, p, v)
				return true
			}
			n++
			return false
		})
		view, hv := accessorView(h2), hashOf(h2)
		if hv != baseHash {
			continue
		}
		for a, val := range view {
			if val != base[a] {
				unbound = append(unbound, a+" (via "+lp+")")
			}
		}
		rn.c.Rep.Evaluations++
	}
	sort.Strings(unbound)
	if len(unbound) > 0 {
		if one {
			return "C18:accessor-not-bound-by-hash:" + strings.SplitN(unbound[0], " ", 2)[0], "valid " + shape + ": changing a backing field changes what the accessor returns but not Hash(): " + strings.Join(unbound, ", ")
		}
		rn.c.Hit("two-part-header:accessor/hash-split-observed")
		if h.IsValid() {
			return "C18:two-part-header-valid:Header", "accepted although Hash() does not cover " + strings.Join(unbound, ", ")
		}
	}
	return "", ""
}

func (rn *runner) hdrCase(hc hdrCase) {
	rn.c.Line("new", "ok")
	rn.c.Hit(fmt.Sprintf("header-shape:proposed=%v,empty=%v", hc.Proposed, hc.Empty))
	if sig, detail := rn.hdrRun(hc, true); sig != "" {
		rn.fail(sig, detail, c18case{Kind: "header", Hdr: &hc})
	}
}

func (rn *runner) hdrFamily(n int) {
	for k := 0; k < n; k++ {
		rn.hdrCase(hdrCase{Seed: rn.c.Rng.Int63(), Proposed: k%4 == 0 || k%4 == 1, Empty: k%4 == 0 || k%4 == 2})
	}
}
