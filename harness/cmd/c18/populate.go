package main

// Reflection-driven population, deep copy, leaf mutation and semantic equality of arbitrary idena-go structs
// (exported and unexported fields alike; unexported ones through unsafe, no change to /repo needed).

import (
	"bytes"
	"errors"
	"fmt"
	"math/big"
	"math/rand"
	"reflect"
	"sort"
	"strings"
	"sync/atomic"
	"time"
	"unsafe"
)

var (
	tBigPtr   = reflect.TypeOf((*big.Int)(nil))
	tTime     = reflect.TypeOf(time.Time{})
	tAtomic   = reflect.TypeOf(atomic.Value{})
	tError    = reflect.TypeOf((*error)(nil)).Elem()
	tByteSl   = reflect.TypeOf([]byte(nil))
	bigMax256 = new(big.Int).Sub(new(big.Int).Lsh(big.NewInt(1), 256), big.NewInt(1))
)

// settable returns field i of an addressable struct as a settable value even when it is unexported.
func settable(st reflect.Value, i int) reflect.Value {
	f := st.Field(i)
	if f.CanSet() {
		return f
	}
	return reflect.NewAt(f.Type(), unsafe.Pointer(f.UnsafeAddr())).Elem()
}

// readable makes a value obtained through an unexported field usable with Interface() by clearing reflect's
// read-only flag bits (flagStickyRO|flagEmbedRO = 1<<5|1<<6; layout of reflect.Value stable since Go 1.4).
type rvalueHdr struct {
	typ  unsafe.Pointer
	ptr  unsafe.Pointer
	flag uintptr
}

func readable(v reflect.Value) reflect.Value {
	if !v.IsValid() || v.CanInterface() {
		return v
	}
	h := (*rvalueHdr)(unsafe.Pointer(&v))
	h.flag &^= uintptr(1<<5 | 1<<6)
	return v
}

type profile int

const (
	profZero     profile = iota // nil / zero everywhere
	profEmpty                   // empty but non-nil containers, zero numbers, non-nil pointers to zero structs
	profMax                     // maximal integers, long 0xff byte strings, full containers
	profDistinct                // one distinguishing value per leaf, everything present
	profRandom                  // every leaf picks its own class
)

var profNames = []string{"zero", "empty", "max", "distinct", "random"}

type popCtx struct {
	r       *rand.Rand
	prof    profile
	counter uint64 // distinguishing values
	depth   int
}

func (p *popCtx) next() uint64 { p.counter++; return p.counter }

func (p *popCtx) leafProf() profile {
	if p.prof == profRandom {
		return profile(p.r.Intn(4))
	}
	return p.prof
}

func isByteArray(t reflect.Type) bool {
	return t.Kind() == reflect.Array && t.Elem().Kind() == reflect.Uint8
}

// populate fills v (settable) according to the profile. WF conditions of the property (stated in C18.py):
// big integers are non-negative; elements of pointer slices are non-nil; error messages are non-empty;
// times are whole seconds; strings are valid UTF-8 (the invalid-UTF-8 class is a separate probe).
func (p *popCtx) populate(v reflect.Value, path string) {
	t := v.Type()
	switch {
	case t == tAtomic:
		return // caches: never populated
	case t == tBigPtr:
		switch p.leafProf() {
		case profZero:
			v.Set(reflect.Zero(t))
		case profEmpty:
			v.Set(reflect.ValueOf(new(big.Int)))
		case profMax:
			v.Set(reflect.ValueOf(new(big.Int).Set(bigMax256)))
		default:
			b := new(big.Int).SetUint64(p.next())
			if p.prof == profRandom {
				b.Lsh(b, uint(p.r.Intn(200)))
				b.Add(b, new(big.Int).SetUint64(p.r.Uint64()))
			}
			v.Set(reflect.ValueOf(b))
		}
		return
	case t == tTime:
		switch p.leafProf() {
		case profZero, profEmpty:
			v.Set(reflect.ValueOf(time.Unix(0, 0)))
		case profMax:
			v.Set(reflect.ValueOf(time.Unix(1<<40, 0)))
		default:
			v.Set(reflect.ValueOf(time.Unix(int64(1600000000+p.next()), 0)))
		}
		return
	case t == tError:
		switch p.leafProf() {
		case profZero, profEmpty:
			v.Set(reflect.Zero(t))
		default:
			v.Set(reflect.ValueOf(fmt.Errorf("err-%d", p.next())))
		}
		return
	case t == tByteSl || (t.Kind() == reflect.Slice && t.Elem().Kind() == reflect.Uint8):
		var b []byte
		switch p.leafProf() {
		case profZero:
			b = nil
		case profEmpty:
			b = []byte{}
		case profMax:
			b = bytes.Repeat([]byte{0xff}, 300)
		default:
			if p.prof == profRandom {
				b = randBytes(p.r, true)
			} else {
				k := p.next()
				b = []byte{byte(k >> 8), byte(k), 0x5a}
			}
		}
		if b == nil {
			v.Set(reflect.Zero(t))
		} else {
			v.Set(reflect.ValueOf(b).Convert(t))
		}
		return
	case isByteArray(t):
		n := t.Len()
		switch p.leafProf() {
		case profZero, profEmpty:
			v.Set(reflect.Zero(t))
		case profMax:
			for i := 0; i < n; i++ {
				v.Index(i).SetUint(0xff)
			}
		default:
			k := p.next()
			for i := 0; i < n; i++ {
				if p.prof == profRandom {
					v.Index(i).SetUint(uint64(p.r.Intn(256)))
				} else {
					v.Index(i).SetUint(uint64(byte(k) + byte(i)))
				}
			}
			if n > 0 && p.prof == profRandom && p.r.Intn(4) == 0 {
				v.Index(0).SetUint(0) // leading zero byte
			}
		}
		return
	}
	switch t.Kind() {
	case reflect.Bool:
		switch p.leafProf() {
		case profZero, profEmpty:
			v.SetBool(false)
		case profMax, profDistinct:
			v.SetBool(true)
		default:
			v.SetBool(p.r.Intn(2) == 0)
		}
	case reflect.Uint8, reflect.Uint16, reflect.Uint32, reflect.Uint64, reflect.Uint:
		bits := uint(t.Bits())
		max := uint64(1)<<bits - 1
		if bits == 64 {
			max = ^uint64(0)
		}
		switch p.leafProf() {
		case profZero, profEmpty:
			v.SetUint(0)
		case profMax:
			v.SetUint(max)
		default:
			if p.prof == profRandom {
				v.SetUint(randU64(p.r) & max)
			} else {
				v.SetUint((p.next() + 1) & max)
			}
		}
	case reflect.Int8, reflect.Int16, reflect.Int32, reflect.Int64, reflect.Int:
		switch p.leafProf() {
		case profZero, profEmpty:
			v.SetInt(0)
		case profMax:
			if p.r.Intn(2) == 0 {
				v.SetInt(int64(uint64(1)<<(uint(t.Bits())-1) - 1))
			} else {
				v.SetInt(-int64(uint64(1) << (uint(t.Bits()) - 1)))
			}
		default:
			if p.prof == profRandom {
				x := int64(randU64(p.r))
				if t.Bits() < 64 {
					x = x % (1 << (uint(t.Bits()) - 1))
				}
				v.SetInt(x)
			} else {
				v.SetInt(int64(p.next() + 1))
			}
		}
	case reflect.String:
		switch p.leafProf() {
		case profZero, profEmpty:
			v.SetString("")
		case profMax:
			v.SetString(strings.Repeat("ÿ", 200))
		default:
			if p.prof == profRandom {
				v.SetString(randString(p.r))
			} else {
				v.SetString(fmt.Sprintf("s%d", p.next()))
			}
		}
	case reflect.Ptr:
		lp := p.leafProf()
		if lp == profZero || p.depth > 6 || (p.prof == profRandom && p.r.Intn(5) == 0) {
			v.Set(reflect.Zero(t))
			return
		}
		n := reflect.New(t.Elem())
		p.depth++
		p.populate(n.Elem(), path)
		p.depth--
		v.Set(n)
	case reflect.Struct:
		for i := 0; i < t.NumField(); i++ {
			p.populate(settable(v, i), path+"."+t.Field(i).Name)
		}
	case reflect.Slice:
		n := 0
		switch p.leafProf() {
		case profZero:
			v.Set(reflect.Zero(t))
			return
		case profEmpty:
			n = 0
		case profMax:
			n = 3
		case profDistinct:
			n = 2
		default:
			n = 1 + p.r.Intn(3)
		}
		if p.depth > 5 {
			n = 0
		}
		s := reflect.MakeSlice(t, n, n)
		p.depth++
		for i := 0; i < n; i++ {
			e := s.Index(i)
			if t.Elem().Kind() == reflect.Ptr && t.Elem() != tBigPtr {
				ne := reflect.New(t.Elem().Elem()) // WF: no nil elements in pointer slices
				p.populate(ne.Elem(), fmt.Sprintf("%s[%d]", path, i))
				e.Set(ne)
			} else {
				p.populate(e, fmt.Sprintf("%s[%d]", path, i))
			}
		}
		p.depth--
		v.Set(s)
	case reflect.Map:
		lp := p.leafProf()
		if lp == profZero {
			v.Set(reflect.Zero(t))
			return
		}
		m := reflect.MakeMap(t)
		n := 0
		if lp != profEmpty {
			n = 1 + p.r.Intn(3)
		}
		for i := 0; i < n; i++ {
			k := reflect.New(t.Key()).Elem()
			p.populate(k, path+"{k}")
			e := reflect.New(t.Elem()).Elem()
			p.populate(e, path+"{v}")
			m.SetMapIndex(k, e)
		}
		v.Set(m)
	case reflect.Interface, reflect.Func, reflect.Chan:
		// metadata interface{} etc.: not populated
	default:
		panic("populate: unsupported kind " + t.String() + " at " + path)
	}
}

// deepCopy copies everything except atomic.Value caches (left zero, so that memoised hashes/senders are recomputed).
func deepCopy(dst, src reflect.Value) {
	t := src.Type()
	switch {
	case t == tAtomic:
		return
	case t == tBigPtr:
		s := readable(src)
		if s.IsNil() {
			dst.Set(reflect.Zero(t))
		} else {
			dst.Set(reflect.ValueOf(new(big.Int).Set(s.Interface().(*big.Int))))
		}
		return
	case t == tTime:
		dst.Set(readable(src))
		return
	}
	switch t.Kind() {
	case reflect.Ptr:
		if src.IsNil() {
			dst.Set(reflect.Zero(t))
			return
		}
		n := reflect.New(t.Elem())
		deepCopy(n.Elem(), src.Elem())
		dst.Set(n)
	case reflect.Struct:
		for i := 0; i < t.NumField(); i++ {
			deepCopy(settable(dst, i), src.Field(i))
		}
	case reflect.Slice:
		if src.IsNil() {
			dst.Set(reflect.Zero(t))
			return
		}
		s := reflect.MakeSlice(t, src.Len(), src.Len())
		for i := 0; i < src.Len(); i++ {
			deepCopy(s.Index(i), src.Index(i))
		}
		dst.Set(s)
	case reflect.Map:
		if src.IsNil() {
			dst.Set(reflect.Zero(t))
			return
		}
		m := reflect.MakeMap(t)
		it := src.MapRange()
		for it.Next() {
			k := reflect.New(t.Key()).Elem()
			deepCopy(k, it.Key())
			e := reflect.New(t.Elem()).Elem()
			deepCopy(e, it.Value())
			m.SetMapIndex(k, e)
		}
		dst.Set(m)
	case reflect.Array:
		for i := 0; i < t.Len(); i++ {
			deepCopy(dst.Index(i), src.Index(i))
		}
	default:
		dst.Set(readable(src))
	}
}

func cloneObj(x interface{}) interface{} {
	v := reflect.ValueOf(x)
	if v.Kind() == reflect.Ptr {
		n := reflect.New(v.Type().Elem())
		deepCopy(n.Elem(), v.Elem())
		return n.Interface()
	}
	n := reflect.New(v.Type()).Elem()
	deepCopy(n, v)
	return n.Interface()
}

// ---- leaves ---------------------------------------------------------------------------------------------

// a leaf is a place where a single-field change is made: scalars, byte strings/arrays, big ints, strings, errors,
// times, nil-able pointers (presence) and whole slices/maps (length / one entry).
type leafFn func(path string, owner string, v reflect.Value) bool // return true to stop

// walkLeaves visits the leaves of v in a deterministic order. owner = "<StructType>.<Field>" of the innermost
// struct field the leaf lives in (used for the per-field coverage census).
func walkLeaves(v reflect.Value, path, owner string, fn leafFn) bool {
	t := v.Type()
	switch {
	case t == tAtomic:
		return false
	case t == tBigPtr, t == tTime, t == tError, isByteArray(t):
		return fn(path, owner, v)
	case t.Kind() == reflect.Slice && t.Elem().Kind() == reflect.Uint8:
		return fn(path, owner, v)
	}
	switch t.Kind() {
	case reflect.Ptr:
		if fn(path+"?", owner, v) { // presence
			return true
		}
		if v.IsNil() {
			return false
		}
		return walkLeaves(v.Elem(), path, owner, fn)
	case reflect.Struct:
		for i := 0; i < t.NumField(); i++ {
			if walkLeaves(settable(v, i), path+"."+t.Field(i).Name, t.Name()+"."+t.Field(i).Name, fn) {
				return true
			}
		}
		return false
	case reflect.Slice:
		if fn(path+"#", owner, v) { // length
			return true
		}
		for i := 0; i < v.Len(); i++ {
			e := v.Index(i)
			if e.Kind() == reflect.Ptr && e.Type() != tBigPtr {
				if e.IsNil() {
					continue
				}
				e = e.Elem() // WF: elements of pointer slices are never nil, so their presence is not a leaf
			}
			if walkLeaves(e, fmt.Sprintf("%s[%d]", path, i), owner, fn) {
				return true
			}
		}
		return false
	case reflect.Map:
		return fn(path+"{}", owner, v)
	case reflect.Interface, reflect.Func, reflect.Chan:
		return false
	default:
		return fn(path, owner, v)
	}
}

// mutateLeaf changes the leaf to a different well-formed value. Returns a short description.
func mutateLeaf(r *rand.Rand, path string, v reflect.Value) string {
	t := v.Type()
	switch {
	case t == tBigPtr:
		n := big.NewInt(1)
		if !v.IsNil() {
			n.Add(v.Interface().(*big.Int), big.NewInt(1))
		}
		v.Set(reflect.ValueOf(n))
		return "big+1"
	case t == tTime:
		v.Set(reflect.ValueOf(v.Interface().(time.Time).Add(time.Second)))
		return "time+1s"
	case t == tError:
		if v.IsNil() {
			v.Set(reflect.ValueOf(errors.New("e")))
		} else {
			v.Set(reflect.ValueOf(errors.New(v.Interface().(error).Error() + "x")))
		}
		return "error-text"
	case isByteArray(t):
		i := t.Len() - 1
		if strings.HasSuffix(path, "/first") {
			i = 0
		}
		v.Index(i).SetUint(v.Index(i).Uint() ^ 1)
		return "array-byte^1"
	case t.Kind() == reflect.Slice && t.Elem().Kind() == reflect.Uint8:
		if v.Len() == 0 {
			v.Set(reflect.ValueOf([]byte{1}).Convert(t))
			return "bytes:empty->01"
		}
		b := append([]byte{}, v.Bytes()...)
		switch r.Intn(3) {
		case 0:
			b[len(b)-1] ^= 1
			v.Set(reflect.ValueOf(b).Convert(t))
			return "bytes:last^1"
		case 1:
			b[0] ^= 0x80
			v.Set(reflect.ValueOf(b).Convert(t))
			return "bytes:first^80"
		default:
			b = append(b, 0)
			v.Set(reflect.ValueOf(b).Convert(t))
			return "bytes:append00"
		}
	}
	switch t.Kind() {
	case reflect.Bool:
		v.SetBool(!v.Bool())
		return "bool!"
	case reflect.Uint8, reflect.Uint16, reflect.Uint32, reflect.Uint64, reflect.Uint:
		bits := uint(t.Bits())
		x := v.Uint() + 1
		if bits < 64 {
			x &= uint64(1)<<bits - 1
		}
		v.SetUint(x)
		return "uint+1"
	case reflect.Int8, reflect.Int16, reflect.Int32, reflect.Int64, reflect.Int:
		x := v.Int()
		if x == int64(uint64(1)<<(uint(t.Bits())-1)-1) {
			x = 0
		} else {
			x++
		}
		v.SetInt(x)
		return "int+1"
	case reflect.String:
		v.SetString(v.String() + "x")
		return "string+x"
	case reflect.Ptr:
		if v.IsNil() {
			v.Set(reflect.New(t.Elem())) // present, zero content
			return "ptr:nil->zero"
		}
		v.Set(reflect.Zero(t))
		return "ptr:->nil"
	case reflect.Slice:
		p := &popCtx{r: r, prof: profDistinct, counter: 7000}
		e := reflect.New(t.Elem()).Elem()
		if t.Elem().Kind() == reflect.Ptr && t.Elem() != tBigPtr {
			ne := reflect.New(t.Elem().Elem())
			p.populate(ne.Elem(), path)
			e.Set(ne)
		} else {
			p.populate(e, path)
		}
		if v.Len() > 0 && r.Intn(2) == 0 {
			v.Set(v.Slice(0, v.Len()-1))
			return "slice:drop-last"
		}
		v.Set(reflect.Append(v, e))
		return "slice:append"
	case reflect.Map:
		p := &popCtx{r: r, prof: profDistinct, counter: 9000}
		if v.Len() > 0 {
			keys := sortedKeys(v)
			k := keys[0]
			e := reflect.New(t.Elem()).Elem()
			deepCopy(e, v.MapIndex(k))
			var done string
			walkLeaves(e, "", "", func(pp, _ string, lv reflect.Value) bool {
				if strings.HasSuffix(pp, "?") || strings.HasSuffix(pp, "#") {
					if lv.Kind() == reflect.Slice { // e.g. []Address: change the list
						done = mutateLeaf(r, pp, lv)
						return true
					}
					return false
				}
				done = mutateLeaf(r, pp, lv)
				return true
			})
			v.SetMapIndex(k, e)
			return "map:value:" + done
		}
		if v.IsNil() {
			v.Set(reflect.MakeMap(t))
		}
		k := reflect.New(t.Key()).Elem()
		p.populate(k, path)
		e := reflect.New(t.Elem()).Elem()
		p.populate(e, path)
		v.SetMapIndex(k, e)
		return "map:add"
	}
	panic("mutateLeaf: unsupported " + t.String())
}

func sortedKeys(m reflect.Value) []reflect.Value {
	keys := m.MapKeys()
	sort.Slice(keys, func(i, j int) bool {
		return fmt.Sprint(readable(keys[i]).Interface()) < fmt.Sprint(readable(keys[j]).Interface())
	})
	return keys
}

// ---- semantic equality ----------------------------------------------------------------------------------

// semRules are the documented normalisations under which "decodes to a semantically equal object" is judged.
type semRules struct {
	skip      map[string]bool // "<StructType>.<Field>": allow-listed pure caches / node-local fields
	zeroIsNil map[string]bool // "<StructType>.<Field>": nil pointer ≃ pointer to an all-empty struct
	missing0  map[string]bool // "<StructType>.<Field>": map with missing key ≃ key ↦ 0
}

func isEmptyStruct(v reflect.Value, rules *semRules) bool {
	z := reflect.New(v.Type()).Elem()
	return semEq(v, z, "", "", rules) == ""
}

// semEq returns "" when a and b are semantically equal, else the path of the first difference.
func semEq(a, b reflect.Value, path, owner string, rules *semRules) string {
	t := a.Type()
	switch {
	case t == tAtomic:
		return ""
	case t == tBigPtr:
		x, y := new(big.Int), new(big.Int)
		if !a.IsNil() {
			x = readable(a).Interface().(*big.Int)
		}
		if !b.IsNil() {
			y = readable(b).Interface().(*big.Int)
		}
		if x.Cmp(y) != 0 { // nil ≃ 0 (every reader goes through ...OrZero / ZeroOrNil / new(big.Int) defaults)
			return path
		}
		return ""
	case t == tTime:
		if readable(a).Interface().(time.Time).Unix() != readable(b).Interface().(time.Time).Unix() {
			return path
		}
		return ""
	case t == tError:
		ea, eb := "", ""
		if !a.IsNil() {
			ea = "E:" + readable(a).Interface().(error).Error()
		}
		if !b.IsNil() {
			eb = "E:" + readable(b).Interface().(error).Error()
		}
		if ea != eb {
			return path
		}
		return ""
	case t.Kind() == reflect.Slice && t.Elem().Kind() == reflect.Uint8:
		if !bytes.Equal(a.Bytes(), b.Bytes()) { // nil ≃ empty
			return path
		}
		return ""
	}
	switch t.Kind() {
	case reflect.Ptr:
		if a.IsNil() != b.IsNil() {
			if rules.zeroIsNil[owner] && t.Elem().Kind() == reflect.Struct {
				nn := a
				if a.IsNil() {
					nn = b
				}
				if isEmptyStruct(nn.Elem(), rules) {
					return ""
				}
			}
			return path + "?"
		}
		if a.IsNil() {
			return ""
		}
		return semEq(a.Elem(), b.Elem(), path, owner, rules)
	case reflect.Struct:
		for i := 0; i < t.NumField(); i++ {
			o := t.Name() + "." + t.Field(i).Name
			if rules.skip[o] {
				continue
			}
			if d := semEq(a.Field(i), b.Field(i), path+"."+t.Field(i).Name, o, rules); d != "" {
				return d
			}
		}
		return ""
	case reflect.Slice:
		if a.Len() != b.Len() { // nil ≃ empty
			return path + "#"
		}
		for i := 0; i < a.Len(); i++ {
			if d := semEq(a.Index(i), b.Index(i), fmt.Sprintf("%s[%d]", path, i), owner, rules); d != "" {
				return d
			}
		}
		return ""
	case reflect.Map:
		seen := map[string]bool{}
		for _, pair := range [][2]reflect.Value{{a, b}, {b, a}} {
			it := pair[0].MapRange()
			for it.Next() {
				ks := fmt.Sprint(readable(it.Key()).Interface())
				if seen[ks] {
					continue
				}
				seen[ks] = true
				o := pair[1].MapIndex(it.Key())
				if !o.IsValid() {
					if rules.missing0[owner] && it.Value().IsZero() {
						continue
					}
					return path + "{" + ks + "}"
				}
				if d := semEq(it.Value(), o, path+"{"+ks+"}", owner, rules); d != "" {
					return d
				}
			}
		}
		return ""
	case reflect.Array:
		for i := 0; i < t.Len(); i++ {
			if d := semEq(a.Index(i), b.Index(i), path, owner, rules); d != "" {
				return d
			}
		}
		return ""
	case reflect.Interface, reflect.Func, reflect.Chan:
		return ""
	case reflect.Bool:
		if a.Bool() != b.Bool() {
			return path
		}
	case reflect.String:
		if a.String() != b.String() {
			return path
		}
	case reflect.Uint8, reflect.Uint16, reflect.Uint32, reflect.Uint64, reflect.Uint:
		if a.Uint() != b.Uint() {
			return path
		}
	case reflect.Int8, reflect.Int16, reflect.Int32, reflect.Int64, reflect.Int:
		if a.Int() != b.Int() {
			return path
		}
	default:
		panic("semEq: unsupported kind " + t.String())
	}
	return ""
}

// describe renders an object for replays/samples (stable, no addresses).
func describe(v reflect.Value, depth int) string {
	t := v.Type()
	switch {
	case t == tAtomic:
		return "~"
	case t == tBigPtr:
		if v.IsNil() {
			return "nil"
		}
		return readable(v).Interface().(*big.Int).String()
	case t == tTime:
		return fmt.Sprint(readable(v).Interface().(time.Time).Unix())
	case t == tError:
		if v.IsNil() {
			return "nil"
		}
		return fmt.Sprintf("%q", readable(v).Interface().(error).Error())
	case t.Kind() == reflect.Slice && t.Elem().Kind() == reflect.Uint8:
		if v.IsNil() {
			return "-"
		}
		b := v.Bytes()
		if len(b) > 40 {
			return fmt.Sprintf("x%x..(%d)", b[:8], len(b))
		}
		return fmt.Sprintf("x%x", b)
	case isByteArray(t):
		b := make([]byte, t.Len())
		for i := range b {
			b[i] = byte(v.Index(i).Uint())
		}
		return fmt.Sprintf("x%x", b)
	}
	switch t.Kind() {
	case reflect.Ptr:
		if v.IsNil() {
			return "nil"
		}
		return "&" + describe(v.Elem(), depth)
	case reflect.Struct:
		var parts []string
		for i := 0; i < t.NumField(); i++ {
			if t.Field(i).Type == tAtomic {
				continue
			}
			parts = append(parts, t.Field(i).Name+":"+describe(v.Field(i), depth+1))
		}
		return t.Name() + "{" + strings.Join(parts, " ") + "}"
	case reflect.Slice:
		if v.IsNil() {
			return "nil"
		}
		var parts []string
		for i := 0; i < v.Len(); i++ {
			parts = append(parts, describe(v.Index(i), depth+1))
		}
		return "[" + strings.Join(parts, " ") + "]"
	case reflect.Map:
		if v.IsNil() {
			return "nil"
		}
		var parts []string
		for _, k := range sortedKeys(v) {
			parts = append(parts, describe(k, depth+1)+"=>"+describe(v.MapIndex(k), depth+1))
		}
		return "map[" + strings.Join(parts, " ") + "]"
	case reflect.Interface, reflect.Func, reflect.Chan:
		return "~"
	case reflect.Bool:
		return fmt.Sprint(v.Bool())
	case reflect.String:
		s := v.String()
		if len(s) > 40 {
			return fmt.Sprintf("%q..(%d)", s[:20], len(s))
		}
		return fmt.Sprintf("%q", s)
	case reflect.Uint8, reflect.Uint16, reflect.Uint32, reflect.Uint64, reflect.Uint:
		return fmt.Sprint(v.Uint())
	case reflect.Int8, reflect.Int16, reflect.Int32, reflect.Int64, reflect.Int:
		return fmt.Sprint(v.Int())
	}
	return "?"
}
