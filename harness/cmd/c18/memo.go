package main

// Oracle family "memo consistency under API sequences": every type with memo fields (the allow-listed caches:
// hash / hash128 / from / addr / pubKey …) is driven through random sequences on ONE live object of
//   hash     – call the real hash accessors (fills the memos)
//   recover  – call the real signer recovery (fills from/addr/pubKey)
//   mutate   – write one exported field directly (the object is then "dirty": Go callers must re-sign / re-create,
//              memo staleness of a dirty object is by design and not judged)
//   resign   – the real public re-signing API (SignTx / SignFlipKey / SignFlipKeysPackage) with the same or another
//              key; the RESULT replaces the object
//   wire     – ToBytes → FromBytes; the decoded object replaces the object
// After every step on a non-dirty object: Hash()/Hash128()/recovered signer of the live object must equal those of
// an object freshly decoded from its ToBytes() (what every other node computes). The result of a re-signing call
// must carry no memo of its input and must recover the signing key.

import (
	"crypto/ecdsa"
	"fmt"
	"math/rand"
	"reflect"
	"sync/atomic"
	"unsafe"

	"github.com/idena-network/idena-go/crypto"
)

type memoStep struct {
	Op   string `json:"op"`
	Leaf int    `json:"leaf,omitempty"`
	Key  int    `json:"key,omitempty"`
}

func memoView(ti *typeInfo, obj interface{}) string {
	s := ""
	if ti.Hashes != nil {
		s += safeHashes(ti, obj)
	}
	if ti.Recover != nil {
		s += "|" + safeRecover(ti, obj)
	}
	return s
}

// filledMemos lists the atomic.Value fields of the struct behind obj that hold a value.
func filledMemos(obj interface{}) []string {
	v := reflect.ValueOf(obj).Elem()
	var out []string
	if v.Kind() != reflect.Struct {
		return nil
	}
	for i := 0; i < v.NumField(); i++ {
		f := v.Field(i)
		if f.Type() == tAtomic && f.CanAddr() {
			if (*atomic.Value)(unsafe.Pointer(f.UnsafeAddr())).Load() != nil {
				out = append(out, v.Type().Field(i).Name)
			}
		}
	}
	return out
}

// memoRun executes the steps; returns (failure signature, detail, index of the failing step).
func (rn *runner) memoRun(ti *typeInfo, prof profile, seed int64, steps []memoStep) (string, string, int) {
	T := typeShort(ti.Name)
	obj := genObject(ti, prof, seed, rn.key)
	dirty := false
	keys := map[int]*ecdsa.PrivateKey{1: rn.key, 2: testKey(2)}
	for i, st := range steps {
		var aliased []string
		var resignKey *ecdsa.PrivateKey
		switch st.Op {
		case "hash":
			if ti.Hashes != nil {
				safeHashes(ti, obj)
			}
		case "recover":
			if ti.Recover != nil {
				safeRecover(ti, obj)
			}
		case "mutate":
			n, done := 0, false
			lr := rand.New(rand.NewSource(seed + int64(st.Leaf)*104729))
			walkLeaves(reflect.ValueOf(obj).Elem(), T, "", func(p, o string, v reflect.Value) bool {
				if n == st.Leaf {
					mutateLeaf(lr, p, v)
					done = true
					return true
				}
				n++
				return false
			})
			if done {
				dirty = true
			}
		case "resign":
			if ti.Resign == nil {
				continue
			}
			k := keys[st.Key]
			res, err := ti.Resign(obj, k)
			if err != nil {
				continue
			}
			aliased, resignKey = filledMemos(res), k
			obj, dirty = res, false
		case "wire":
			b, s1 := callToBytes(obj, "ToBytes")
			if s1 != "" {
				return "C18:encode-fails:" + T, s1, i
			}
			y, s2 := callFromBytes(ti, b)
			if s2 != "" {
				return "C18:decode-fails:" + T, s2, i
			}
			obj, dirty = y, false
		}
		if dirty {
			continue
		}
		b, s1 := callToBytes(obj, "ToBytes")
		if s1 != "" {
			return "C18:encode-fails:" + T, s1, i
		}
		fresh, s2 := callFromBytes(ti, b)
		if s2 != "" {
			return "C18:decode-fails:" + T, s2, i
		}
		live, want := memoView(ti, obj), memoView(ti, fresh)
		if live != want {
			return "C18:memo-disagrees-with-encoding:" + T, fmt.Sprintf("after step %d (%s): live object reports hashes|signer %s, the object decoded from its own ToBytes() reports %s", i, st.Op, live, want), i
		}
		if len(aliased) > 0 {
			return "C18:resign-aliases-memo:" + T, fmt.Sprintf("step %d: the object returned by the re-signing API already carries memo values %v copied from its input", i, aliased), i
		}
		if resignKey != nil {
			addr := crypto.PubkeyToAddress(resignKey.PublicKey)
			if got := safeRecover(ti, obj); got != fmt.Sprintf("%x", addr[:]) {
				return "C18:resigned-object-recovers-wrong-signer:" + T, fmt.Sprintf("step %d: object re-signed with key %d recovers %s, key address %x", i, st.Key, got, addr[:]), i
			}
		}
		rn.c.Rep.Evaluations++
	}
	return "", "", -1
}

func (rn *runner) memoCase(ti *typeInfo, prof profile, seed int64, steps []memoStep) {
	sig, detail, _ := rn.memoRun(ti, prof, seed, steps)
	rn.c.Hit("memo-sequence")
	if sig == "" {
		return
	}
	// shrink: drop steps while the same failure class remains
	for changed := true; changed; {
		changed = false
		for i := 0; i < len(steps); i++ {
			t := append(append([]memoStep{}, steps[:i]...), steps[i+1:]...)
			if s2, d2, _ := rn.memoRun(ti, prof, seed, t); s2 == sig {
				steps, detail, changed = t, d2, true
				i--
			}
		}
	}
	rn.fail(sig, detail, c18case{Kind: "memo", Type: ti.Name, Profile: profNames[prof], Seed: seed, Steps: steps,
		Object: clipStr(describe(reflect.ValueOf(genObject(ti, prof, seed, rn.key)).Elem(), 0), 600)})
}

func (rn *runner) memoFamily(perType int) {
	r := rn.c.Rng
	for i := range registry {
		ti := &registry[i]
		if ti.Hashes == nil && ti.Recover == nil {
			continue
		}
		nLeaves := 0
		walkLeaves(reflect.ValueOf(genObject(ti, profDistinct, 1, rn.key)).Elem(), "", "", func(string, string, reflect.Value) bool { nLeaves++; return false })
		for k := 0; k < perType; k++ {
			prof := []profile{profDistinct, profRandom, profMax}[r.Intn(3)]
			seed := r.Int63()
			var steps []memoStep
			for j, n := 0, 2+r.Intn(6); j < n; j++ {
				switch r.Intn(6) {
				case 0:
					steps = append(steps, memoStep{Op: "hash"})
				case 1:
					steps = append(steps, memoStep{Op: "recover"})
				case 2, 3:
					steps = append(steps, memoStep{Op: "mutate", Leaf: r.Intn(nLeaves + 1)})
					if ti.Resign != nil && r.Intn(3) != 0 {
						steps = append(steps, memoStep{Op: "resign", Key: 1 + r.Intn(2)})
					}
				case 4:
					steps = append(steps, memoStep{Op: "resign", Key: 1 + r.Intn(2)})
				default:
					steps = append(steps, memoStep{Op: "wire"})
				}
			}
			rn.memoCase(ti, prof, seed, steps)
		}
	}
}
