package main

// Known-answer vectors: the encoding of one fixed, fully populated object per encodable type (profile "distinct",
// seed goldenSeed, signed with the fixed test key) must keep the digest committed below. A consistent change of
// encoder AND decoder (two fields swapped in both directions, a renumbered field) keeps every round trip intact
// but is a different wire format: other nodes would compute different hashes. Regenerate with
// C18_PRINT_GOLDEN=1 <bin> C18 -out DIR after an intended format change (and say so in the commit).

import (
	"crypto/sha256"
	"fmt"
	"os"
)

const goldenSeed = 20260926

var golden = map[string]string{
	"blockchain/types:Transaction":                       "95c1c4298f9055a5bd116eed70f7020c/27a70e19f5047fd9d41552dbe7b61b71",
	"blockchain/types:Vote":                              "702b36f8ae72e8dab773f8bedd090cf2/94db6a8097786351cba887cdf733ff5c",
	"blockchain/types:BlockProposal":                     "921074f5b69daf69d03b20bdd5b66e58/3182b4ba5b7a4f59a596f32e9aa76ae5",
	"blockchain/types:ProofProposal":                     "8dfea2271af5f104e22933f0e98c6f2d/fa12cd0ab337e6195c931ac27696762c",
	"blockchain/types:PublicFlipKey":                     "a594f34dd75b0e1e7bb07289b45d069a/c09365532aca911d1e5ee0b3ca9f32ef",
	"blockchain/types:PrivateFlipKeysPackage":            "8dfea2271af5f104e22933f0e98c6f2d/fa12cd0ab337e6195c931ac27696762c",
	"blockchain/types:Block":                             "c4c690a95f5b611406a07359edf81730",
	"blockchain/types:Header":                            "50073d453972e82f99fedaefb4a12748",
	"blockchain/types:Body":                              "c2b9f1104cb46a55edf89050eb2fe53b",
	"blockchain/types:BlockCert":                         "4e94c19c4a62d7045112f1178adcf643",
	"blockchain/types:Flip":                              "e8153594e4146e4db452f32fe54e46ef",
	"blockchain/types:ActivityMonitor":                   "d529b8ad4ef5ebb5ad4303aa2b7c45f3",
	"blockchain/types:SavedTransaction":                  "c7931c9bcd9195df91bd6e6481150d07",
	"blockchain/types:BurntCoins":                        "ed51dc008708ac00c88a3e3f7358b0f8",
	"blockchain/types:TransactionIndex":                  "349412ac296538b842054d9b8ec23065",
	"blockchain/types:TxReceipts":                        "497125c9e2c8194dcab094453d27253f",
	"blockchain/types:TxReceipt":                         "f157649ee4c48248b5332cf31dbf8116",
	"blockchain/types:TxReceiptIndex":                    "fa12cd0ab337e6195c931ac27696762c",
	"blockchain/types:SavedEvent":                        "3a097ca26189ddaf51581c2779951e93",
	"core/state:IdentityStatusSwitch":                    "4baa2ef14ab21c6223b26ab3b69c4b3b",
	"core/state:DelegationSwitch":                        "0377817b84a497ee1d1c0b280e1c5fb2",
	"core/state:DelayedPenalties":                        "4baa2ef14ab21c6223b26ab3b69c4b3b",
	"core/state:BurntCoins":                              "4a3a352a4e346e9cfab534d9e965d143",
	"core/state:Global":                                  "95c91bf989808de4225d17bf1db236db",
	"core/state:Account":                                 "7a546dc90505c02e9ff177a651bd6cf0",
	"core/state:Identity":                                "82a64dff76d3040efb76e1c50a7df80b",
	"core/state:ApprovedIdentity":                        "526b10427d50786c4a362dbfa2c207c1",
	"core/state:IdentityStateDiff":                       "29e74eea23793ded4094188efc000da3",
	"core/state/snapshot:Manifest":                       "701a332ddd8b25a7b660a41c8b1ebd6e",
	"blockchain/attachments:ShortAnswerAttachment":       "6f2fbeaf76e618dad2a7b3f373759977",
	"blockchain/attachments:LongAnswerAttachment":        "bd97b84ff3c4a26cb0b9a2145ab9264a",
	"blockchain/attachments:FlipSubmitAttachment":        "fa12cd0ab337e6195c931ac27696762c",
	"blockchain/attachments:OnlineStatusAttachment":      "fb8da7eb5b1b399e7321179dac9e9f65",
	"blockchain/attachments:BurnAttachment":              "34caa19fe186f876faa8ffeeec161d5b",
	"blockchain/attachments:ChangeProfileAttachment":     "ffb726575dc64802ea21da2f2dc7813b",
	"blockchain/attachments:DeleteFlipAttachment":        "ffb726575dc64802ea21da2f2dc7813b",
	"blockchain/attachments:CallContractAttachment":      "2789cd878115e201cb7abafb5daaae57",
	"blockchain/attachments:DeployContractAttachment":    "9e9ef1f8524f621d592f725b882ee770",
	"blockchain/attachments:TerminateContractAttachment": "60b107c6bf4f7bc867efdf247f3a3eec",
	"blockchain/attachments:StoreToIpfsAttachment":       "fa12cd0ab337e6195c931ac27696762c",
	"core/flip:IpfsFlip":                                 "394222b23aaade69d10a6abf639b3480",
	"core/profile:Profile":                               "985411217efdce6f0b2f5d32f6cab008",
	"deferredtx:DeferredTxs":                             "2d51e61c812799e483cee731ed4e2688",
	"core/mempool:keysArray":                             "60b107c6bf4f7bc867efdf247f3a3eec",
	"protocol:Msg":                                       "d8a3ac3137f8879c1c571535f9a68118",
	"protocol:handshakeData":                             "e756be44743c708b257c6bd4eb3df623",
	"protocol:pushPullHash":                              "f1903ae991798de5762baa04734d1b21",
	"protocol:updateShardId":                             "e6a4cd49143ee6e9fe4da39e2e7aea53",
	"protocol:msgBatch":                                  "991ba10310ce9ce857916d956c670a77",
	"protocol:disconnect":                                "34caa19fe186f876faa8ffeeec161d5b",
	"protocol:blockRange":                                "aae49e260a6254d64d52f5e8c72091de",
}

func (rn *runner) goldenVectors() {
	c := rn.c
	print := os.Getenv("C18_PRINT_GOLDEN") != ""
	for i := range registry {
		ti := &registry[i]
		if ti.SemanticOnly {
			continue
		}
		x := genObject(ti, profDistinct, goldenSeed, rn.key)
		b, st := callToBytes(x, "ToBytes")
		if st != "" {
			rn.fail("C18:encode-fails:"+typeShort(ti.Name), "golden object: "+st, c18case{Kind: "golden", Type: ti.Name})
			continue
		}
		d := fmt.Sprintf("%x", sha256.Sum256(b))[:32]
		if ti.SigProto != "" {
			sb, _ := callToBytes(x, "ToSignatureBytes")
			d += "/" + fmt.Sprintf("%x", sha256.Sum256(sb))[:32]
		}
		if print {
			fmt.Fprintf(os.Stderr, "\t%q: %q,\n", ti.Name, d)
			continue
		}
		c.Rep.Evaluations++
		c.Hit("golden-vector")
		if want, ok := golden[ti.Name]; !ok {
			rn.fail("C18:wire-format-unpinned:"+typeShort(ti.Name), "no committed known-answer vector for "+ti.Name, c18case{Kind: "golden", Type: ti.Name})
		} else if want != d {
			rn.fail("C18:wire-format-changed:"+typeShort(ti.Name), fmt.Sprintf("encoding of the fixed fully populated %s has digest %s, committed %s: the bytes other nodes hash are different (encoder and decoder changed consistently?)", ti.Name, d, want),
				c18case{Kind: "golden", Type: ti.Name})
		}
	}
}
