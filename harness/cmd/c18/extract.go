package main

// (G) Field-map extraction, computed at run time from the CURRENT source files of the repository under test
// (VERIF_REPO, default /repo): for every struct type that takes part in a hand-written codec
// (ToProto/ToBytes/ToSignatureBytes/FromProto/FromBytes), for every Go field: the proto fields it flows into in the
// encoder, the proto fields it is filled from in the decoder, the proto fields of the signature message.
//
// Technique: go/parser + go/types with a lenient importer (imports are stubs; only the package's own struct types
// and field selections need to resolve) and a small label-flow analysis over the function bodies:
// labels G:<Struct>.<Field> (a Go field is read) and P:<name> (a proto field is read) flow through local variables,
// conditions/ranges (control context), method calls on locals, into assignment targets and composite-literal keys.
// The result feeds the obligation TableOK (Lean, Model/CodecTable.lean) as `field ...` op lines; a field that the
// analysis cannot classify has empty sets and FAILS unless it is on the committed allow-list below.

import (
	"fmt"
	"go/ast"
	"go/parser"
	"go/token"
	"go/types"
	"os"
	"path/filepath"
	"sort"
	"strings"
)

// codecPkgs: the packages that contain hand-written codecs (anchors of C18 + the other ToBytes/FromBytes owners).
var codecPkgs = []string{
	"blockchain/types", "core/state", "core/state/snapshot", "protocol", "blockchain/attachments",
	"core/flip", "core/mempool", "core/profile", "deferredtx",
}

// allowList: fields that are deliberately NOT part of any encoding. Committed here with a reason per entry;
// anything else that is not mapped in both directions fails the obligation.
var allowList = map[string]string{
	"Block.hash":                               "cache:memo-of-Hash()",
	"Block.hash128":                            "cache:memo-of-Hash128()",
	"Block.proposeHash":                        "cache:memo-of-propose-hash",
	"Transaction.hash":                         "cache:memo-of-Hash()",
	"Transaction.hash128":                      "cache:memo-of-Hash128()",
	"Transaction.from":                         "cache:memo-of-recovered-sender(types.Sender)",
	"Transaction.shardId":                      "cache:memo-of-sender-shard-derived-from-state",
	"Transaction.validLongSessionAnswersProof": "cache:memo-of-a-validation-verdict",
	"Transaction.highPriority":                 "cache:mempool-local-priority-mark",
	"BlockProposal.pubKey":                     "cache:memo-of-recovered-proposer-key",
	"ProofProposal.pubKey":                     "cache:memo-of-recovered-proposer-key",
	"ProofProposal.hash128":                    "cache:memo-of-Hash128()",
	"Vote.hash":                                "cache:memo-of-Hash()",
	"Vote.hash128":                             "cache:memo-of-Hash128()",
	"Vote.addr":                                "cache:memo-of-recovered-voter",
	"Flip.hash128":                             "cache:memo-of-Hash128()",
	"PublicFlipKey.from":                       "cache:memo-of-recovered-sender",
	"PublicFlipKey.shardId":                    "cache:memo-of-sender-shard-derived-from-state",
	"PublicFlipKey.highPriority":               "cache:mempool-local-priority-mark",
	"PrivateFlipKeysPackage.from":              "cache:memo-of-recovered-sender",
	"PrivateFlipKeysPackage.hash128":           "cache:memo-of-Hash128()",
	"Identity.metadata":                        "transient:intra-block-hint-for-identityUpdateHook;object-cache-cleared-at-CommitTree(statedb.go:1322)",
	"Manifest.Cid":                             "dead:legacy-v1-cid-never-read-or-written(proto-field-1-removed)",
	"DeferredTx.sendTry":                       "node-local:retry-counter-of-the-deferred-tx-job",
	"DeferredTx.removed":                       "node-local:removal-mark-of-the-deferred-tx-job",
}

// unsignedList: encoded fields of signed objects that are deliberately outside the signature message.
var unsignedList = map[string]string{
	"Transaction.Signature":            "the-signature-itself",
	"Transaction.UseRlp":               "selects-the-signature-hash-scheme(transaction_signing.go:41);flipping-it-changes-the-recovered-signer",
	"Vote.Signature":                   "the-signature-itself",
	"BlockProposal.Signature":          "the-signature-itself",
	"ProofProposal.Signature":          "the-signature-itself",
	"PublicFlipKey.Signature":          "the-signature-itself",
	"PrivateFlipKeysPackage.Signature": "the-signature-itself",
}

type fieldRow struct {
	Pkg, Type, Field string
	Enc, Dec, Sig    []string
	Signed           bool
	Allow, Unsigned  string
}

func (r fieldRow) key() string { return r.Type + "." + r.Field }

func (r fieldRow) ok() bool {
	if r.Allow != "" {
		return true
	}
	common := false
	for _, e := range r.Enc {
		for _, d := range r.Dec {
			if e == d {
				common = true
			}
		}
	}
	return common && (!r.Signed || r.Unsigned != "" || len(r.Sig) > 0)
}

func orDash(s []string) string {
	if len(s) == 0 {
		return "-"
	}
	return strings.Join(s, ",")
}

func strDash(s string) string {
	if s == "" {
		return "-"
	}
	return s
}

func (r fieldRow) opLine() string {
	sg := "0"
	if r.Signed {
		sg = "1"
	}
	return fmt.Sprintf("field %s %s enc=%s dec=%s sig=%s signed=%s allow=%s unsigned=%s", r.Type, r.Field,
		orDash(r.Enc), orDash(r.Dec), orDash(r.Sig), sg, strDash(r.Allow), strDash(r.Unsigned))
}

type fakeImporter struct{ pkgs map[string]*types.Package }

func (f *fakeImporter) Import(path string) (*types.Package, error) {
	if p, ok := f.pkgs[path]; ok {
		return p, nil
	}
	name := path[strings.LastIndex(path, "/")+1:]
	if path == "github.com/idena-network/idena-go/protobuf" {
		name = "models"
	}
	p := types.NewPackage(path, name)
	p.MarkComplete()
	f.pkgs[path] = p
	return p, nil
}

type lset map[string]bool

func (l lset) add(o lset) {
	for k := range o {
		l[k] = true
	}
}

func union(a, b lset) lset {
	r := lset{}
	r.add(a)
	r.add(b)
	return r
}

type extractor struct {
	fset    *token.FileSet
	info    *types.Info
	pkg     *types.Package
	structs map[string]*types.Struct // local named struct types
	// per function state
	env       map[types.Object]lset
	protoVars map[types.Object]bool
	enc       map[string]lset // G -> proto names (current function direction)
	dec       map[string]lset // G -> proto names
}

func exprString(fset *token.FileSet, e ast.Expr) string {
	return types.ExprString(e)
}

func (x *extractor) obj(id *ast.Ident) types.Object {
	if o := x.info.Defs[id]; o != nil {
		return o
	}
	return x.info.Uses[id]
}

func mentionsModels(e ast.Expr) bool {
	found := false
	ast.Inspect(e, func(n ast.Node) bool {
		if se, ok := n.(*ast.SelectorExpr); ok {
			if id, ok := se.X.(*ast.Ident); ok && id.Name == "models" {
				found = true
			}
		}
		return !found
	})
	return found
}

// isProtoExpr: is the expression rooted in a variable that holds a generated protobuf struct?
func (x *extractor) isProtoExpr(e ast.Expr) bool {
	switch v := e.(type) {
	case *ast.Ident:
		return x.protoVars[x.obj(v)]
	case *ast.SelectorExpr:
		return x.isProtoExpr(v.X)
	case *ast.IndexExpr:
		return x.isProtoExpr(v.X)
	case *ast.ParenExpr:
		return x.isProtoExpr(v.X)
	case *ast.StarExpr:
		return x.isProtoExpr(v.X)
	case *ast.CallExpr:
		if se, ok := v.Fun.(*ast.SelectorExpr); ok && strings.HasPrefix(se.Sel.Name, "Get") {
			return x.isProtoExpr(se.X)
		}
	}
	return false
}

// createsProto: new(models.T), &models.T{…}, models.T{…}
func createsProto(e ast.Expr) bool {
	switch v := e.(type) {
	case *ast.UnaryExpr:
		return createsProto(v.X)
	case *ast.CompositeLit:
		return v.Type != nil && mentionsModels(v.Type)
	case *ast.CallExpr:
		if id, ok := v.Fun.(*ast.Ident); ok && id.Name == "new" && len(v.Args) == 1 {
			return mentionsModels(v.Args[0])
		}
	}
	return false
}

// localStructOf: name of the package-local struct type behind t (through pointers), or "".
func (x *extractor) localStructOf(t types.Type) string {
	for {
		if p, ok := t.(*types.Pointer); ok {
			t = p.Elem()
			continue
		}
		break
	}
	if n, ok := t.(*types.Named); ok && n.Obj().Pkg() == x.pkg {
		if _, ok := n.Underlying().(*types.Struct); ok {
			return n.Obj().Name()
		}
	}
	return ""
}

// goFieldLabels: the G labels of a selector expression that selects a field of a package-local struct
// (including embedded structs on the way).
func (x *extractor) goFieldLabels(se *ast.SelectorExpr) []string {
	sel := x.info.Selections[se]
	if sel == nil || sel.Kind() != types.FieldVal {
		return nil
	}
	var out []string
	t := sel.Recv()
	for _, idx := range sel.Index() {
		sn := x.localStructOf(t)
		for {
			if p, ok := t.(*types.Pointer); ok {
				t = p.Elem()
				continue
			}
			break
		}
		st, ok := t.Underlying().(*types.Struct)
		if !ok {
			return out
		}
		f := st.Field(idx)
		if sn != "" {
			out = append(out, "G:"+sn+"."+f.Name())
		}
		t = f.Type()
	}
	return out
}

func isLit(e ast.Expr) *ast.CompositeLit {
	for {
		switch v := e.(type) {
		case *ast.UnaryExpr:
			e = v.X
			continue
		case *ast.ParenExpr:
			e = v.X
			continue
		case *ast.CompositeLit:
			return v
		}
		return nil
	}
}

// isRecordLit: composite literal of a proto struct or of a package-local struct (handled as a target, not a value)
func (x *extractor) isRecordLit(cl *ast.CompositeLit) (proto bool, goStruct string) {
	if cl.Type != nil && mentionsModels(cl.Type) {
		return true, ""
	}
	if tv, ok := x.info.Types[cl]; ok {
		if s := x.localStructOf(tv.Type); s != "" {
			return false, s
		}
	}
	return false, ""
}

func (x *extractor) labels(e ast.Expr) lset {
	out := lset{}
	if e == nil {
		return out
	}
	switch v := e.(type) {
	case *ast.Ident:
		if o := x.obj(v); o != nil {
			out.add(x.env[o])
		}
	case *ast.SelectorExpr:
		if gl := x.goFieldLabels(v); gl != nil {
			for _, g := range gl {
				out[g] = true
			}
		} else if x.isProtoExpr(v.X) {
			out["P:"+v.Sel.Name] = true
		}
		out.add(x.labels(v.X))
	case *ast.CallExpr:
		if se, ok := v.Fun.(*ast.SelectorExpr); ok {
			if x.isProtoExpr(se.X) && strings.HasPrefix(se.Sel.Name, "Get") && len(se.Sel.Name) > 3 {
				out["P:"+se.Sel.Name[3:]] = true
			}
			out.add(x.labels(se.X))
		}
		for _, a := range v.Args {
			out.add(x.labels(a))
		}
	case *ast.CompositeLit:
		if p, g := x.isRecordLit(v); p || g != "" {
			return out // a record literal is a target (see scanLits), not a value
		}
		for _, el := range v.Elts {
			out.add(x.labels(el))
		}
	case *ast.KeyValueExpr:
		out.add(x.labels(v.Key))
		out.add(x.labels(v.Value))
	case *ast.UnaryExpr:
		out.add(x.labels(v.X))
	case *ast.BinaryExpr:
		out.add(x.labels(v.X))
		out.add(x.labels(v.Y))
	case *ast.ParenExpr:
		out.add(x.labels(v.X))
	case *ast.StarExpr:
		out.add(x.labels(v.X))
	case *ast.IndexExpr:
		out.add(x.labels(v.X))
		out.add(x.labels(v.Index))
	case *ast.SliceExpr:
		out.add(x.labels(v.X))
		out.add(x.labels(v.Low))
		out.add(x.labels(v.High))
		out.add(x.labels(v.Max))
	case *ast.TypeAssertExpr:
		out.add(x.labels(v.X))
	}
	return out
}

func (x *extractor) flowToProto(name string, l lset) {
	for k := range l {
		if strings.HasPrefix(k, "G:") {
			if x.enc[k[2:]] == nil {
				x.enc[k[2:]] = lset{}
			}
			x.enc[k[2:]][name] = true
		}
	}
}

func (x *extractor) flowToGo(g string, l lset) {
	for k := range l {
		if strings.HasPrefix(k, "P:") {
			if x.dec[g] == nil {
				x.dec[g] = lset{}
			}
			x.dec[g][k[2:]] = true
		}
	}
}

// scanLits handles every record literal inside e: keys of proto literals are proto targets, keys of local struct
// literals are Go-field targets.
func (x *extractor) scanLits(e ast.Node, ctx lset) {
	if e == nil {
		return
	}
	ast.Inspect(e, func(n ast.Node) bool {
		cl, ok := n.(*ast.CompositeLit)
		if !ok {
			return true
		}
		proto, gs := x.isRecordLit(cl)
		if !proto && gs == "" {
			return true
		}
		for _, el := range cl.Elts {
			kv, ok := el.(*ast.KeyValueExpr)
			if !ok {
				continue
			}
			key, ok := kv.Key.(*ast.Ident)
			if !ok {
				continue
			}
			if inner := isLit(kv.Value); inner != nil {
				if p2, g2 := x.isRecordLit(inner); p2 || g2 != "" {
					// nested record: its own keys are the targets; the presence itself depends on the context only
					if proto {
						x.flowToProto(key.Name, ctx)
					} else {
						x.flowToGo(gs+"."+key.Name, ctx)
					}
					continue
				}
			}
			l := union(x.labels(kv.Value), ctx)
			if proto {
				x.flowToProto(key.Name, l)
			} else {
				x.flowToGo(gs+"."+key.Name, l)
			}
		}
		return true
	})
}

// target classification of an assignment LHS / method-call receiver
func (x *extractor) assignTo(lhs ast.Expr, l lset, rhs ast.Expr) {
	extra := lset{}
	for {
		switch v := lhs.(type) {
		case *ast.IndexExpr:
			extra.add(x.labels(v.Index))
			lhs = v.X
			continue
		case *ast.ParenExpr:
			lhs = v.X
			continue
		case *ast.StarExpr:
			lhs = v.X
			continue
		}
		break
	}
	l = union(l, extra)
	switch v := lhs.(type) {
	case *ast.Ident:
		if v.Name == "_" {
			return
		}
		o := x.obj(v)
		if o == nil {
			return
		}
		if x.env[o] == nil {
			x.env[o] = lset{}
		}
		x.env[o].add(l)
		if rhs != nil && (createsProto(rhs) || x.isProtoExpr(rhs)) {
			x.protoVars[o] = true
		}
	case *ast.SelectorExpr:
		if gl := x.goFieldLabels(v); gl != nil {
			x.flowToGo(gl[len(gl)-1][2:], l)
			// writing a sub-field of F is (partially) writing F: p.Block.Header = … also fills BlockProposal.Block
			pre := v.X
			for {
				switch pv := pre.(type) {
				case *ast.IndexExpr:
					pre = pv.X
					continue
				case *ast.ParenExpr:
					pre = pv.X
					continue
				case *ast.StarExpr:
					pre = pv.X
					continue
				}
				break
			}
			if ps, ok := pre.(*ast.SelectorExpr); ok {
				for _, g := range x.goFieldLabels(ps) {
					x.flowToGo(g[2:], l)
				}
			}
			for _, g := range gl[:len(gl)-1] {
				x.flowToGo(g[2:], l)
			}
		} else if x.isProtoExpr(v.X) {
			x.flowToProto(v.Sel.Name, l)
		}
	}
}

func (x *extractor) stmt(s ast.Stmt, ctx lset) {
	switch v := s.(type) {
	case nil:
	case *ast.BlockStmt:
		for _, st := range v.List {
			x.stmt(st, ctx)
		}
	case *ast.AssignStmt:
		for i, lhs := range v.Lhs {
			var l lset
			var rhs ast.Expr
			if len(v.Rhs) == len(v.Lhs) {
				rhs = v.Rhs[i]
				l = x.labels(rhs)
			} else {
				l = lset{}
				for _, r := range v.Rhs {
					l.add(x.labels(r))
				}
				if len(v.Rhs) == 1 {
					rhs = v.Rhs[0]
				}
			}
			x.assignTo(lhs, union(l, ctx), rhs)
		}
		for _, r := range v.Rhs {
			x.scanLits(r, ctx)
		}
	case *ast.DeclStmt:
		if gd, ok := v.Decl.(*ast.GenDecl); ok {
			for _, sp := range gd.Specs {
				if vs, ok := sp.(*ast.ValueSpec); ok {
					for i, n := range vs.Names {
						var rhs ast.Expr
						if i < len(vs.Values) {
							rhs = vs.Values[i]
						}
						x.assignTo(n, union(x.labels(rhs), ctx), rhs)
						if vs.Type != nil && mentionsModels(vs.Type) {
							if o := x.obj(n); o != nil {
								x.protoVars[o] = true
							}
						}
						if rhs != nil {
							x.scanLits(rhs, ctx)
						}
					}
				}
			}
		}
	case *ast.ExprStmt:
		if call, ok := v.X.(*ast.CallExpr); ok {
			if se, ok := call.Fun.(*ast.SelectorExpr); ok {
				l := lset{}
				for _, a := range call.Args {
					l.add(x.labels(a))
				}
				// a method called on a local or on a Go field with tainted arguments writes into it (SetBytes, FromProto, …)
				x.assignTo(se.X, union(l, ctx), nil)
			}
		}
		x.scanLits(v.X, ctx)
	case *ast.IfStmt:
		x.stmt(v.Init, ctx)
		c := union(ctx, x.labels(v.Cond))
		x.stmt(v.Body, c)
		x.stmt(v.Else, c)
	case *ast.RangeStmt:
		l := x.labels(v.X)
		for _, kv := range []ast.Expr{v.Key, v.Value} {
			if id, ok := kv.(*ast.Ident); ok && id.Name != "_" {
				if o := x.obj(id); o != nil {
					if x.env[o] == nil {
						x.env[o] = lset{}
					}
					x.env[o].add(union(l, ctx))
					if kv == v.Value && x.isProtoExpr(v.X) {
						x.protoVars[o] = true
					}
				}
			}
		}
		x.stmt(v.Body, union(ctx, l))
	case *ast.ForStmt:
		x.stmt(v.Init, ctx)
		c := union(ctx, x.labels(v.Cond))
		x.stmt(v.Body, c)
		x.stmt(v.Post, c)
	case *ast.SwitchStmt:
		x.stmt(v.Init, ctx)
		c := union(ctx, x.labels(v.Tag))
		x.stmt(v.Body, c)
	case *ast.CaseClause:
		c := ctx
		for _, e := range v.List {
			c = union(c, x.labels(e))
		}
		for _, st := range v.Body {
			x.stmt(st, c)
		}
	case *ast.ReturnStmt:
		for _, r := range v.Results {
			x.scanLits(r, ctx)
		}
	case *ast.IncDecStmt:
	case *ast.DeferStmt, *ast.GoStmt, *ast.BranchStmt, *ast.EmptyStmt, *ast.LabeledStmt:
	}
}

type extractResult struct {
	Rows        []fieldRow
	CodecTypes  []string // "<pkg>:<Type>" having a ToBytes/FromBytes method (must all be in the harness registry)
	Funcs       int
	Diagnostics []string
}

func repoRoot() string {
	if r := os.Getenv("VERIF_REPO"); r != "" {
		return r
	}
	return "/repo"
}

func extractTable(root string) (*extractResult, error) {
	res := &extractResult{}
	for _, rel := range codecPkgs {
		dir := filepath.Join(root, rel)
		fset := token.NewFileSet()
		ents, err := os.ReadDir(dir)
		if err != nil {
			return nil, err
		}
		var files []*ast.File
		for _, e := range ents {
			n := e.Name()
			if e.IsDir() || !strings.HasSuffix(n, ".go") || strings.HasSuffix(n, "_test.go") || strings.HasPrefix(n, "zz_verif") {
				continue
			}
			f, err := parser.ParseFile(fset, filepath.Join(dir, n), nil, parser.SkipObjectResolution)
			if err != nil {
				return nil, fmt.Errorf("parse %s: %v", n, err)
			}
			files = append(files, f)
		}
		info := &types.Info{Types: map[ast.Expr]types.TypeAndValue{}, Defs: map[*ast.Ident]types.Object{}, Uses: map[*ast.Ident]types.Object{}, Selections: map[*ast.SelectorExpr]*types.Selection{}}
		conf := types.Config{Importer: &fakeImporter{pkgs: map[string]*types.Package{}}, Error: func(error) {}, DisableUnusedImportCheck: true}
		pkg, _ := conf.Check(rel, fset, files, info) // errors are expected (stub imports); local structure still resolves
		if pkg == nil {
			return nil, fmt.Errorf("type-check of %s produced no package", rel)
		}
		x := &extractor{fset: fset, info: info, pkg: pkg, structs: map[string]*types.Struct{}}
		for _, name := range pkg.Scope().Names() {
			if tn, ok := pkg.Scope().Lookup(name).(*types.TypeName); ok && !tn.IsAlias() {
				if st, ok := tn.Type().Underlying().(*types.Struct); ok {
					x.structs[name] = st
				}
			}
		}
		encAll, decAll, sigAll := map[string]lset{}, map[string]lset{}, map[string]lset{}
		codecRecv := map[string]bool{}
		for _, f := range files {
			for _, d := range f.Decls {
				fd, ok := d.(*ast.FuncDecl)
				if !ok || fd.Recv == nil || fd.Body == nil || len(fd.Recv.List) == 0 {
					continue
				}
				name := fd.Name.Name
				var into map[string]lset
				isEnc := false
				switch name {
				case "ToProto", "ToBytes":
					into, isEnc = encAll, true
				case "ToSignatureBytes":
					into, isEnc = sigAll, true
				case "FromProto", "FromBytes":
					into = decAll
				default:
					continue
				}
				rt := fd.Recv.List[0].Type
				if st, ok := rt.(*ast.StarExpr); ok {
					rt = st.X
				}
				rid, ok := rt.(*ast.Ident)
				if !ok {
					continue
				}
				if name == "ToBytes" || name == "FromBytes" {
					res.CodecTypes = append(res.CodecTypes, rel+":"+rid.Name)
				}
				codecRecv[rid.Name] = true
				res.Funcs++
				x.env, x.protoVars = map[types.Object]lset{}, map[types.Object]bool{}
				x.enc, x.dec = map[string]lset{}, map[string]lset{}
				if fd.Type.Params != nil {
					for _, p := range fd.Type.Params.List {
						if mentionsModels(p.Type) {
							for _, n := range p.Names {
								if o := x.obj(n); o != nil {
									x.protoVars[o] = true
								}
							}
						}
					}
				}
				for pass := 0; pass < 3; pass++ { // forward flows through locals defined in earlier loops
					x.stmt(fd.Body, lset{})
				}
				src := x.dec
				if isEnc {
					src = x.enc
				}
				for g, l := range src {
					if into[g] == nil {
						into[g] = lset{}
					}
					into[g].add(l)
				}
			}
		}
		// encodable struct types: codec receivers + package-local structs reachable through their fields
		reach := map[string]bool{}
		var visit func(n string)
		var visitType func(t types.Type)
		visitType = func(t types.Type) {
			switch u := t.(type) {
			case *types.Pointer:
				visitType(u.Elem())
			case *types.Slice:
				visitType(u.Elem())
			case *types.Array:
				visitType(u.Elem())
			case *types.Map:
				visitType(u.Key())
				visitType(u.Elem())
			case *types.Named:
				if u.Obj().Pkg() == pkg {
					if _, ok := u.Underlying().(*types.Struct); ok {
						visit(u.Obj().Name())
					} else {
						visitType(u.Underlying())
					}
				}
			}
		}
		visit = func(n string) {
			if reach[n] {
				return
			}
			st, ok := x.structs[n]
			if !ok {
				if tn, ok := pkg.Scope().Lookup(n).(*types.TypeName); ok { // e.g. TxReceipts (named slice)
					visitType(tn.Type().Underlying())
				}
				return
			}
			reach[n] = true
			for i := 0; i < st.NumFields(); i++ {
				visitType(st.Field(i).Type())
			}
		}
		var recvNames []string
		for n := range codecRecv {
			recvNames = append(recvNames, n)
		}
		sort.Strings(recvNames)
		for _, n := range recvNames {
			visit(n)
		}
		var tnames []string
		for n := range reach {
			tnames = append(tnames, n)
		}
		sort.Strings(tnames)
		toList := func(l lset) []string {
			var out []string
			for k := range l {
				out = append(out, k)
			}
			sort.Strings(out)
			return out
		}
		for _, tn := range tnames {
			st := x.structs[tn]
			signed := false
			for i := 0; i < st.NumFields(); i++ {
				if len(sigAll[tn+"."+st.Field(i).Name()]) > 0 {
					signed = true
				}
			}
			for i := 0; i < st.NumFields(); i++ {
				k := tn + "." + st.Field(i).Name()
				res.Rows = append(res.Rows, fieldRow{Pkg: rel, Type: tn, Field: st.Field(i).Name(), Enc: toList(encAll[k]), Dec: toList(decAll[k]),
					Sig: toList(sigAll[k]), Signed: signed, Allow: allowList[k], Unsigned: unsignedList[k]})
			}
		}
	}
	sort.Strings(res.CodecTypes)
	res.CodecTypes = uniq(res.CodecTypes)
	return res, nil
}

func uniq(s []string) []string {
	var out []string
	for i, v := range s {
		if i == 0 || v != s[i-1] {
			out = append(out, v)
		}
	}
	return out
}

// codecExempt: owners of a ToBytes/FromBytes method that are not protobuf codecs of an object.
var codecExempt = map[string]string{
	"api:DynamicArg": "RPC argument conversion (JSON value -> raw contract argument bytes), no decoder, not an object encoding",
}

// scanCodecOwners lists "<dir>:<Type>" for every method named ToBytes or FromBytes anywhere in the repository
// (non-test files), so that a codec added in a package the harness does not know about is noticed.
func scanCodecOwners(root string) ([]string, error) {
	var out []string
	fset := token.NewFileSet()
	err := filepath.Walk(root, func(p string, fi os.FileInfo, err error) error {
		if err != nil {
			return err
		}
		if fi.IsDir() {
			n := fi.Name()
			if n == ".git" || n == "node_modules" || n == "testdata" || n == "testdata2" || n == "datadir" {
				return filepath.SkipDir
			}
			return nil
		}
		n := fi.Name()
		if !strings.HasSuffix(n, ".go") || strings.HasSuffix(n, "_test.go") || strings.HasSuffix(n, ".pb.go") || strings.HasPrefix(n, "zz_verif") {
			return nil
		}
		f, err := parser.ParseFile(fset, p, nil, parser.SkipObjectResolution)
		if err != nil {
			return nil // not our business here; the build would fail first
		}
		rel, _ := filepath.Rel(root, filepath.Dir(p))
		for _, d := range f.Decls {
			fd, ok := d.(*ast.FuncDecl)
			if !ok || fd.Recv == nil || len(fd.Recv.List) == 0 || (fd.Name.Name != "ToBytes" && fd.Name.Name != "FromBytes") {
				continue
			}
			rt := fd.Recv.List[0].Type
			if st, ok := rt.(*ast.StarExpr); ok {
				rt = st.X
			}
			if id, ok := rt.(*ast.Ident); ok {
				out = append(out, rel+":"+id.Name)
			}
		}
		return nil
	})
	sort.Strings(out)
	return uniq(out), err
}
