package main

// Channel C18conc (observation of real schedules, oracle only): the derived identifiers of C18 - crypto.Hash,
// crypto.Hash128, rlp.Hash, the RLP (legacy UseRlp) and the protobuf signature hash, Sender / SenderPubKey /
// VoterAddr / SenderFlipKey, Transaction.Hash, SignTx followed by Sender - are functions of their input also when N
// goroutines compute them at the same moment (pooled hashers, memo fields). Every concurrent result must equal the
// result computed sequentially beforehand. Phase A hammers the cheap hash helpers (millions of calls), phase B the
// signer recovery on fresh and on SHARED objects.

import (
	"bytes"
	"encoding/json"
	"fmt"
	"math/rand"
	"os"
	"runtime"
	"sync"
	"sync/atomic"

	"github.com/idena-network/idena-go/blockchain/types"
	"github.com/idena-network/idena-go/crypto"
	"github.com/idena-network/idena-go/rlp"

	"verifharness/internal/hx"
)

type concTx struct {
	bytes  []byte
	sender string
	pub    string
	hash   string
	rlpIn  []interface{}
	rlpH   [32]byte
	sigH   [32]byte
	useRlp bool
}

type concFail struct {
	what, detail string
}

func init() {
	hx.Register("C18conc", func(c *hx.Ctx) error {
		if c.Replay != "" {
			b, err := os.ReadFile(c.Replay)
			if err != nil {
				return err
			}
			var wrap struct {
				Replay c18case `json:"replay"`
			}
			if err := json.Unmarshal(b, &wrap); err != nil {
				return err
			}
		}
		c.Rep.Rule = "G goroutines x iterations over 32 prepared transactions (half legacy RLP-signed, half protobuf-signed; payloads 0..2 kB), 8 votes, 8 flip keys and 32 byte strings; " +
			"every concurrent crypto.Hash / Hash128 / rlp.Hash / SignatureHash / Sender / SenderPubKey / VoterAddr / SenderFlipKey / Transaction.Hash / SignTx+Sender result compared with the sequential one; distinct = distinct (function, input) pairs"
		r := c.Rng
		key1, key2 := testKey(1), testKey(2)
		txTi := findType("blockchain/types:Transaction")
		var txs []*concTx
		for i := 0; i < 32; i++ {
			x := genObject(txTi, profRandom, r.Int63(), key1).(*types.Transaction)
			x.UseRlp = i%2 == 0
			x.Payload = make([]byte, []int{0, 5, 40, 136, 137, 300, 1000, 2000}[i%8]) // around the Keccak rate (136 bytes)
			r.Read(x.Payload)
			k := key1
			if i%3 == 0 {
				k = key2
			}
			if err := txTi.Sign(x, k); err != nil {
				return err
			}
			b, err := x.ToBytes()
			if err != nil {
				return err
			}
			ct := &concTx{bytes: b, useRlp: x.UseRlp}
			fresh := func() *types.Transaction {
				t := new(types.Transaction)
				if err := t.FromBytes(b); err != nil {
					panic(err)
				}
				return t
			}
			a, err := types.Sender(fresh())
			if err != nil {
				return fmt.Errorf("sequential Sender: %v", err)
			}
			want := crypto.PubkeyToAddress(k.PublicKey)
			if a != want {
				c.Fail("C18:valid-signature-not-recovered:Transaction", fmt.Sprintf("sequential: tx %d (UseRlp=%v) signed by %x recovers %x", i, x.UseRlp, want, a), c18case{Kind: "conc"})
				return nil
			}
			pk, _ := types.SenderPubKey(fresh())
			ct.sender, ct.pub = fmt.Sprintf("%x", a), fmt.Sprintf("%x", pk)
			ct.hash = hx32(fresh().Hash())
			t := fresh()
			ct.rlpIn = []interface{}{t.AccountNonce, t.Epoch, t.Type, t.To, t.Amount, t.MaxFee, t.Tips, t.Payload}
			ct.rlpH = rlp.Hash(ct.rlpIn)
			ct.sigH = crypto.SignatureHash(t)
			txs = append(txs, ct)
		}
		var blobs [][]byte
		var blobH [][32]byte
		var blobH128 [][16]byte
		for i := 0; i < 32; i++ {
			b := make([]byte, []int{0, 1, 31, 135, 136, 137, 167, 168, 169, 500, 4000}[i%11])
			r.Read(b)
			blobs = append(blobs, b)
			blobH = append(blobH, crypto.Hash(b))
			blobH128 = append(blobH128, crypto.Hash128(b))
		}
		voteTi, fkTi := findType("blockchain/types:Vote"), findType("blockchain/types:PublicFlipKey")
		type other struct {
			ti    *typeInfo
			bytes []byte
			want  string
		}
		var others []other
		for i := 0; i < 8; i++ {
			for _, ti := range []*typeInfo{voteTi, fkTi} {
				x := genObject(ti, profDistinct, r.Int63(), key1)
				b, _ := callToBytes(x, "ToBytes")
				y, _ := callFromBytes(ti, b)
				others = append(others, other{ti, b, memoView(ti, y)})
			}
		}
		shared := make([]*types.Transaction, len(txs)) // one object per tx used by ALL goroutines (memo fields under contention)
		for i, ct := range txs {
			shared[i] = new(types.Transaction)
			_ = shared[i].FromBytes(ct.bytes)
		}
		G := 2 * runtime.GOMAXPROCS(0)
		if G < 8 {
			G = 8
		}
		if G > 32 {
			G = 32
		}
		itA, itB := c.Scale(120000, 1500000), c.Scale(700, 9000)
		var mu sync.Mutex
		fails := map[string]concFail{}
		var nfail, evals int64
		report := func(what, detail string) {
			atomic.AddInt64(&nfail, 1)
			mu.Lock()
			if _, ok := fails[what]; !ok {
				fails[what] = concFail{what, detail}
			}
			mu.Unlock()
		}
		run := func(body func(g int, rr *rand.Rand)) {
			var wg sync.WaitGroup
			for g := 0; g < G; g++ {
				wg.Add(1)
				go func(g int) {
					defer wg.Done()
					defer func() {
						if p := recover(); p != nil {
							report("panic", fmt.Sprint(p))
						}
					}()
					body(g, rand.New(rand.NewSource(c.Seed*1000+int64(g))))
				}(g)
			}
			wg.Wait()
		}
		// phase A: the hash helpers
		run(func(g int, rr *rand.Rand) {
			for it := 0; it < itA; it++ {
				i := rr.Intn(len(txs))
				ct := txs[i]
				if h := rlp.Hash(ct.rlpIn); h != ct.rlpH {
					report("rlp.Hash", fmt.Sprintf("goroutine %d iteration %d: rlp.Hash of the signed fields of tx %d = %x, sequentially %x", g, it, i, h, ct.rlpH))
				}
				j := rr.Intn(len(blobs))
				if h := crypto.Hash(blobs[j]); h != blobH[j] {
					report("crypto.Hash", fmt.Sprintf("goroutine %d: crypto.Hash(blob %d, %d bytes) = %x, sequentially %x", g, j, len(blobs[j]), h, blobH[j]))
				}
				if it%4 == 0 {
					if h := crypto.Hash128(blobs[j]); h != blobH128[j] {
						report("crypto.Hash128", fmt.Sprintf("goroutine %d: crypto.Hash128(blob %d) = %x, sequentially %x", g, j, h, blobH128[j]))
					}
				}
				atomic.AddInt64(&evals, 2)
			}
		})
		// phase B: signer recovery and object hashes, fresh and shared objects
		run(func(g int, rr *rand.Rand) {
			for it := 0; it < itB; it++ {
				i := rr.Intn(len(txs))
				ct := txs[i]
				t := new(types.Transaction)
				if err := t.FromBytes(ct.bytes); err != nil {
					report("Transaction.FromBytes", err.Error())
					continue
				}
				scheme := "proto"
				if ct.useRlp {
					scheme = "UseRlp"
				}
				switch it % 5 {
				case 0, 1:
					a, err := types.Sender(t)
					if err != nil || fmt.Sprintf("%x", a) != ct.sender {
						report("Sender("+scheme+")", fmt.Sprintf("goroutine %d iteration %d: Sender of correctly signed tx %d (%s) = %x err=%v, sequentially %s", g, it, i, scheme, a, err, ct.sender))
					}
					if a2, _ := types.Sender(t); fmt.Sprintf("%x", a2) != fmt.Sprintf("%x", a) {
						report("Sender-memo", "second call on the same object differs from the first")
					}
				case 2:
					pk, err := types.SenderPubKey(t)
					if err != nil || fmt.Sprintf("%x", pk) != ct.pub {
						report("SenderPubKey("+scheme+")", fmt.Sprintf("goroutine %d: SenderPubKey of tx %d (%s) differs from the sequential result (err=%v)", g, i, scheme, err))
					}
					if hx32(t.Hash()) != ct.hash {
						report("Transaction.Hash", fmt.Sprintf("goroutine %d: Hash of tx %d differs from the sequential result", g, i))
					}
				case 3:
					a, err := types.Sender(shared[i])
					if err != nil || fmt.Sprintf("%x", a) != ct.sender {
						report("Sender(shared object,"+scheme+")", fmt.Sprintf("goroutine %d: Sender on the shared object of tx %d (%s) = %x err=%v, sequentially %s", g, i, scheme, a, err, ct.sender))
					}
					if hx32(shared[i].Hash()) != ct.hash {
						report("Transaction.Hash(shared object)", fmt.Sprintf("goroutine %d: Hash on the shared object of tx %d differs", g, i))
					}
				case 4:
					k := key1
					if rr.Intn(2) == 0 {
						k = key2
					}
					s, err := types.SignTx(t, k)
					if err != nil {
						report("SignTx", err.Error())
						break
					}
					want := crypto.PubkeyToAddress(k.PublicKey)
					if a, err := types.Sender(s); err != nil || a != want {
						report("SignTx+Sender", fmt.Sprintf("goroutine %d: tx %d re-signed with %x recovers %x err=%v", g, i, want, a, err))
					}
					o := others[rr.Intn(len(others))]
					y, st := callFromBytes(o.ti, o.bytes)
					if st != "" || memoView(o.ti, y) != o.want {
						report("hash/signer("+typeShort(o.ti.Name)+")", fmt.Sprintf("goroutine %d: hashes|signer of a decoded %s differ from the sequential result %s", g, typeShort(o.ti.Name), st))
					}
					if sh := crypto.SignatureHash(t); !bytes.Equal(sh[:], ct.sigH[:]) {
						report("crypto.SignatureHash", fmt.Sprintf("goroutine %d: signature hash of tx %d differs", g, i))
					}
				}
				atomic.AddInt64(&evals, 1)
			}
		})
		c.Rep.Evaluations = int(evals)
		c.Rep.Distinct = 2*len(txs) + 2*len(blobs) + len(others) + 6*len(txs)
		c.Rep.Coverage["goroutines"] = G
		c.Rep.Coverage["iterations_per_goroutine"] = map[string]int{"hash_helpers": itA, "recovery": itB}
		c.Rep.Coverage["mismatches_total"] = nfail
		c.Sample(map[string]interface{}{"goroutines": G, "txs": len(txs), "rlp_signed": len(txs) / 2})
		var keys []string
		for k := range fails {
			keys = append(keys, k)
		}
		sortStrings(keys)
		for _, k := range keys {
			c.Fail("C18:concurrent-result-differs:"+k, fmt.Sprintf("%s (%d mismatching results in this run of %d goroutines)", fails[k].detail, nfail, G), c18case{Kind: "conc", Type: k, Seed: c.Seed})
		}
		return nil
	})
}

func sortStrings(s []string) {
	for i := 1; i < len(s); i++ {
		for j := i; j > 0 && s[j] < s[j-1]; j-- {
			s[j], s[j-1] = s[j-1], s[j]
		}
	}
}
