package main

// Abstract view of real protobuf messages for the Lean wire model (Model/ProtoWire.lean):
// schema tokens regenerated from the descriptors compiled into /repo/protobuf/*.pb.go, message tokens read
// from populated generated structs through protoreflect, random messages over every message type.

import (
	"encoding/hex"
	"fmt"
	"math/rand"
	"sort"
	"strconv"
	"strings"

	protov1 "github.com/golang/protobuf/proto"
	models "github.com/idena-network/idena-go/protobuf"
	"google.golang.org/protobuf/reflect/protoreflect"
	"google.golang.org/protobuf/reflect/protoregistry"
)

func sortedFields(md protoreflect.MessageDescriptor) []protoreflect.FieldDescriptor {
	fds := md.Fields()
	out := make([]protoreflect.FieldDescriptor, 0, fds.Len())
	for i := 0; i < fds.Len(); i++ {
		out = append(out, fds.Get(i))
	}
	sort.Slice(out, func(i, j int) bool { return out[i].Number() < out[j].Number() })
	return out
}

func isVarintKind(k protoreflect.Kind) bool {
	switch k {
	case protoreflect.Uint32Kind, protoreflect.Uint64Kind, protoreflect.Int64Kind, protoreflect.Int32Kind, protoreflect.BoolKind:
		return true
	}
	return false
}

// schemaTok renders a message descriptor in the driver's schema grammar; anything outside the modelled
// fragment of proto3 is an error (loud, never defaulted).
func schemaTok(md protoreflect.MessageDescriptor, depth int) (string, error) {
	if depth > 12 {
		return "", fmt.Errorf("schema too deep (recursive message?) at %s", md.FullName())
	}
	if md.Syntax() != protoreflect.Proto3 {
		return "", fmt.Errorf("%s: not proto3", md.FullName())
	}
	if md.Oneofs().Len() > 0 {
		return "", fmt.Errorf("%s: oneof not modelled", md.FullName())
	}
	var parts []string
	for _, fd := range sortedFields(md) {
		var k string
		switch {
		case fd.IsMap():
			return "", fmt.Errorf("%s: map field not modelled", fd.FullName())
		case fd.HasPresence() && fd.Kind() != protoreflect.MessageKind:
			return "", fmt.Errorf("%s: explicit presence not modelled", fd.FullName())
		case isVarintKind(fd.Kind()):
			if fd.IsList() {
				if !fd.IsPacked() {
					return "", fmt.Errorf("%s: unpacked repeated scalar not modelled", fd.FullName())
				}
				k = "p"
			} else {
				k = "i"
			}
		case fd.Kind() == protoreflect.BytesKind || fd.Kind() == protoreflect.StringKind:
			if fd.IsList() {
				k = "rb"
			} else {
				k = "b"
			}
		case fd.Kind() == protoreflect.MessageKind:
			sub, err := schemaTok(fd.Message(), depth+1)
			if err != nil {
				return "", err
			}
			if fd.IsList() {
				k = "rm" + sub
			} else {
				k = "m" + sub
			}
		default:
			return "", fmt.Errorf("%s: kind %v not modelled", fd.FullName(), fd.Kind())
		}
		parts = append(parts, strconv.Itoa(int(fd.Number()))+":"+k)
	}
	return "{" + strings.Join(parts, ",") + "}", nil
}

func scalarNat(fd protoreflect.FieldDescriptor, v protoreflect.Value) uint64 {
	switch fd.Kind() {
	case protoreflect.BoolKind:
		if v.Bool() {
			return 1
		}
		return 0
	case protoreflect.Int64Kind, protoreflect.Int32Kind:
		return uint64(v.Int()) // two's complement, as on the wire
	default:
		return v.Uint()
	}
}

func bytesOf(fd protoreflect.FieldDescriptor, v protoreflect.Value) []byte {
	if fd.Kind() == protoreflect.StringKind {
		return []byte(v.String())
	}
	return v.Bytes()
}

// msgTok renders a message. full=true: every singular scalar/bytes field of the schema is written even when it
// holds the default (the Lean model has to drop it); full=false: only what the library reports as populated
// (= the normal form the model must print).
func msgTok(m protoreflect.Message, full bool) string {
	var parts []string
	for _, fd := range sortedFields(m.Descriptor()) {
		n := strconv.Itoa(int(fd.Number()))
		switch {
		case fd.IsList():
			l := m.Get(fd).List()
			if isVarintKind(fd.Kind()) {
				if l.Len() == 0 && !full {
					continue
				}
				var ns []string
				for i := 0; i < l.Len(); i++ {
					ns = append(ns, strconv.FormatUint(scalarNat(fd, l.Get(i)), 10))
				}
				parts = append(parts, n+":p["+strings.Join(ns, ";")+"]")
			} else if fd.Kind() == protoreflect.MessageKind {
				for i := 0; i < l.Len(); i++ {
					parts = append(parts, n+":m"+msgTok(l.Get(i).Message(), full))
				}
			} else {
				for i := 0; i < l.Len(); i++ {
					parts = append(parts, n+":b"+hex.EncodeToString(bytesOf(fd, l.Get(i))))
				}
			}
		case fd.Kind() == protoreflect.MessageKind:
			if m.Has(fd) {
				parts = append(parts, n+":m"+msgTok(m.Get(fd).Message(), full))
			}
		case isVarintKind(fd.Kind()):
			if full || m.Has(fd) {
				parts = append(parts, n+":i"+strconv.FormatUint(scalarNat(fd, m.Get(fd)), 10))
			}
		default:
			if full || m.Has(fd) {
				parts = append(parts, n+":b"+hex.EncodeToString(bytesOf(fd, m.Get(fd))))
			}
		}
	}
	return "{" + strings.Join(parts, ",") + "}"
}

// allMessageDescs lists every message type (nested included) of /repo/protobuf/models.proto, sorted by name.
func allMessageDescs() []protoreflect.MessageDescriptor {
	var out []protoreflect.MessageDescriptor
	var walk func(mds protoreflect.MessageDescriptors)
	walk = func(mds protoreflect.MessageDescriptors) {
		for i := 0; i < mds.Len(); i++ {
			out = append(out, mds.Get(i))
			walk(mds.Get(i).Messages())
		}
	}
	walk(models.File_protobuf_models_proto.Messages())
	sort.Slice(out, func(i, j int) bool { return out[i].FullName() < out[j].FullName() })
	return out
}

func shortName(md protoreflect.MessageDescriptor) string {
	return strings.TrimPrefix(string(md.FullName()), "models.")
}

func newProto(name string) (protoreflect.Message, error) {
	mt, err := protoregistry.GlobalTypes.FindMessageByName(protoreflect.FullName("models." + name))
	if err != nil {
		return nil, err
	}
	return mt.New(), nil
}

// marshalV1 is the call every idena-go codec ends in (github.com/golang/protobuf/proto.Marshal).
func marshalV1(m protoreflect.Message) ([]byte, error) {
	return protov1.Marshal(protov1.MessageV1(m.Interface()))
}

func unmarshalV1(b []byte, m protoreflect.Message) error {
	return protov1.Unmarshal(b, protov1.MessageV1(m.Interface()))
}

var edgeU64 = []uint64{0, 1, 127, 128, 255, 256, 16383, 16384, 1<<21 - 1, 1 << 21, 1<<28 - 1, 1 << 28, 1<<31 - 1, 1 << 31, 1<<32 - 1,
	1 << 32, 1<<35 - 1, 1 << 35, 1<<42 - 1, 1 << 42, 1<<49 - 1, 1 << 49, 1<<56 - 1, 1 << 56, 1<<63 - 1, 1 << 63, 1<<64 - 1}

func randU64(r *rand.Rand) uint64 {
	switch r.Intn(4) {
	case 0:
		return edgeU64[r.Intn(len(edgeU64))]
	case 1:
		return uint64(r.Intn(300))
	case 2:
		return r.Uint64() >> uint(r.Intn(64))
	}
	return r.Uint64()
}

func randBytes(r *rand.Rand, allowNil bool) []byte {
	switch r.Intn(9) {
	case 0:
		if allowNil {
			return nil
		}
		return []byte{}
	case 1:
		return []byte{}
	case 2:
		return []byte{0}
	case 3:
		return []byte{0xff}
	case 4: // long: crosses the 1- and 2-byte length varint borders
		n := []int{127, 128, 129, 255, 256, 300, 1000}[r.Intn(7)]
		if r.Intn(25) == 0 {
			n = []int{16383, 16384, 20000}[r.Intn(3)]
		}
		b := make([]byte, n)
		r.Read(b)
		return b
	case 5:
		b := make([]byte, 1+r.Intn(40))
		for i := range b {
			b[i] = 0xff
		}
		return b
	}
	b := make([]byte, 1+r.Intn(40))
	r.Read(b)
	return b
}

func randString(r *rand.Rand) string {
	switch r.Intn(6) {
	case 0:
		return ""
	case 1:
		return "a"
	case 2:
		return "ключ-κλειδί-鍵-🔑"
	case 3:
		return strings.Repeat("long-string/", 1+r.Intn(200))
	}
	const al = "abcdefghijklmnopqrstuvwxyzABCDEFGHIJKLMNOPQRSTUVWXYZ0123456789 _-."
	b := make([]byte, 1+r.Intn(24))
	for i := range b {
		b[i] = al[r.Intn(len(al))]
	}
	return string(b)
}

// randProto fills a fresh message of the given descriptor with random content (every field kind, absent and
// present-but-empty sub-messages, empty and long repeated fields, default values set explicitly).
func randProto(r *rand.Rand, m protoreflect.Message, depth int) {
	for _, fd := range sortedFields(m.Descriptor()) {
		if r.Intn(5) == 0 {
			continue // leave unpopulated
		}
		scalar := func() protoreflect.Value {
			switch fd.Kind() {
			case protoreflect.BoolKind:
				return protoreflect.ValueOfBool(r.Intn(2) == 0)
			case protoreflect.Uint32Kind:
				return protoreflect.ValueOfUint32(uint32(randU64(r)))
			case protoreflect.Uint64Kind:
				return protoreflect.ValueOfUint64(randU64(r))
			case protoreflect.Int64Kind:
				return protoreflect.ValueOfInt64(int64(randU64(r)))
			case protoreflect.Int32Kind:
				return protoreflect.ValueOfInt32(int32(randU64(r)))
			case protoreflect.StringKind:
				return protoreflect.ValueOfString(randString(r))
			default:
				b := randBytes(r, false)
				return protoreflect.ValueOfBytes(b)
			}
		}
		switch {
		case fd.IsList():
			l := m.Mutable(fd).List()
			n := r.Intn(4)
			if r.Intn(40) == 0 {
				n = 20 + r.Intn(150)
			}
			if fd.Kind() == protoreflect.MessageKind && depth > 3 {
				n = 0
			}
			for i := 0; i < n; i++ {
				if fd.Kind() == protoreflect.MessageKind {
					e := l.NewElement()
					if r.Intn(6) != 0 {
						randProto(r, e.Message(), depth+1)
					}
					l.Append(e)
				} else {
					l.Append(scalar())
				}
			}
		case fd.Kind() == protoreflect.MessageKind:
			if depth > 4 {
				continue
			}
			sub := m.Mutable(fd).Message() // present (possibly empty)
			if r.Intn(6) != 0 {
				randProto(r, sub, depth+1)
			}
		default:
			m.Set(fd, scalar())
		}
	}
}
