package main

// Route "certificate compression binds every signed vote field": vote sets signed by real keys over one
// (round, step, parent hash, voted hash) with per-vote TurnOffline / Upgrade (uniform, mixed, all different) →
// real FullBlockCert.Compress() → real BlockCert.ToBytes/FromBytes → every signature re-expanded into a vote exactly
// the way blockchain.ValidateBlockCert does (blockchain.go:2428-2440). Required: recovered signer == signing key,
// per-signature flags == the vote's own, round/step/hash kept, and changing one compressed flag changes the signer.
// Lean line `certc`: the model's compress + encoder must give the real certificate bytes and expand∘compress = id.

import (
	"bytes"
	"fmt"
	"math/rand"
	"strings"

	"github.com/idena-network/idena-go/blockchain/types"
	"github.com/idena-network/idena-go/common"
	"github.com/idena-network/idena-go/crypto"

	"verifharness/internal/hx"
)

type certVote struct {
	Key     int    `json:"key"`
	Offline bool   `json:"offline"`
	Upgrade uint32 `json:"upgrade"`
}

type certCase struct {
	Round  uint64     `json:"round"`
	Step   uint8      `json:"step"`
	Parent string     `json:"parent"`
	Voted  string     `json:"voted"`
	Votes  []certVote `json:"votes"`
}

func rebuildVote(cert *types.BlockCert, sig *types.BlockCertSignature, parent common.Hash) *types.Vote {
	return &types.Vote{ // literally blockchain.go:2430-2440
		Header: &types.VoteHeader{
			Step:        cert.Step,
			Round:       cert.Round,
			TurnOffline: sig.TurnOffline,
			Upgrade:     sig.Upgrade,
			VotedHash:   cert.VotedHash,
			ParentHash:  parent,
		},
		Signature: sig.Signature,
	}
}

// certRun returns the first failure (signature, detail) of a case; emit=true writes the Lean line.
func (rn *runner) certRun(cc certCase, emit bool) (string, string) {
	parent := common.BytesToHash(mustHex(cc.Parent))
	voted := common.BytesToHash(mustHex(cc.Voted))
	full := &types.FullBlockCert{}
	var addrs []common.Address
	for _, cv := range cc.Votes {
		k := testKey(100 + cv.Key)
		v := &types.Vote{Header: &types.VoteHeader{Round: cc.Round, Step: cc.Step, ParentHash: parent, VotedHash: voted, TurnOffline: cv.Offline, Upgrade: cv.Upgrade}}
		sig, err := signWith(v, k)
		if err != nil {
			return "C18:harness", err.Error()
		}
		v.Signature = sig
		full.Votes = append(full.Votes, v)
		addrs = append(addrs, crypto.PubkeyToAddress(k.PublicKey))
	}
	cert := full.Compress()
	b, err := cert.ToBytes()
	if err != nil {
		return "C18:encode-fails:BlockCert", err.Error()
	}
	if emit {
		var toks []string
		for _, v := range full.Votes {
			off := 0
			if v.Header.TurnOffline {
				off = 1
			}
			toks = append(toks, fmt.Sprintf("%d:%d:%s", off, v.Header.Upgrade, hx.Hex(v.Signature)))
		}
		vt := "-"
		if len(toks) > 0 {
			vt = strings.Join(toks, ";")
		}
		rn.c.Line(fmt.Sprintf("certc %s %d %d %s %s", hx.Hex(parent[:]), cc.Round, cc.Step, hx.Hex(voted[:]), vt), "x"+fmt.Sprintf("%x", b))
	}
	dec := new(types.BlockCert)
	if err := dec.FromBytes(b); err != nil {
		return "C18:decode-fails:BlockCert", err.Error()
	}
	if b2, _ := dec.ToBytes(); !bytes.Equal(b, b2) {
		return "C18:reencode-differs:BlockCert", "compressed certificate does not re-encode identically"
	}
	if len(cc.Votes) == 0 {
		if !dec.Empty() {
			return "C18:cert-compress-loses-signed-field", "certificate of no votes is not empty"
		}
		return "", ""
	}
	if dec.Round != cc.Round || dec.Step != cc.Step || dec.VotedHash != voted || len(dec.Signatures) != len(cc.Votes) {
		return "C18:cert-compress-loses-signed-field", fmt.Sprintf("round/step/voted hash/number of signatures of the decoded certificate (%d,%d,%x,%d) differ from the votes'", dec.Round, dec.Step, dec.VotedHash, len(dec.Signatures))
	}
	for i, sg := range dec.Signatures {
		own := full.Votes[i].Header
		if sg.TurnOffline != own.TurnOffline || sg.Upgrade != own.Upgrade {
			return "C18:cert-compress-loses-signed-field", fmt.Sprintf("signature %d of the compressed certificate carries TurnOffline=%v Upgrade=%d, the vote it signs has TurnOffline=%v Upgrade=%d", i, sg.TurnOffline, sg.Upgrade, own.TurnOffline, own.Upgrade)
		}
		rv := rebuildVote(dec, sg, parent)
		if got := rv.VoterAddr(); got != addrs[i] {
			return "C18:cert-compress-loses-signed-field", fmt.Sprintf("vote %d rebuilt from the certificate as ValidateBlockCert does recovers %x, it was signed by %x", i, got, addrs[i])
		}
		if rv.Hash() != full.Votes[i].Hash() {
			return "C18:cert-compress-loses-signed-field", fmt.Sprintf("vote %d rebuilt from the certificate has another hash than the original vote", i)
		}
		// mutation sensitivity: a changed flag next to the signature must change the recovered signer
		m1 := *sg
		m1.TurnOffline = !m1.TurnOffline
		if rebuildVote(dec, &m1, parent).VoterAddr() == addrs[i] {
			return "C18:signer-unchanged:BlockCertSignature.TurnOffline", fmt.Sprintf("flipping TurnOffline of compressed signature %d still recovers the signer", i)
		}
		m2 := *sg
		m2.Upgrade++
		if rebuildVote(dec, &m2, parent).VoterAddr() == addrs[i] {
			return "C18:signer-unchanged:BlockCertSignature.Upgrade", fmt.Sprintf("changing Upgrade of compressed signature %d still recovers the signer", i)
		}
		rn.c.Rep.Evaluations += 3
	}
	return "", ""
}

func mustHex(s string) []byte {
	b, err := hx.UnHex(s)
	if err != nil {
		panic(err)
	}
	return b
}

func (rn *runner) certCase(cc certCase) {
	rn.c.Line("new", "ok")
	sig, detail := rn.certRun(cc, true)
	if sig == "" {
		return
	}
	// shrink: drop votes, then simplify flags, while the same failure class remains
	for changed := true; changed; {
		changed = false
		for i := 0; i < len(cc.Votes); i++ {
			t := cc
			t.Votes = append(append([]certVote{}, cc.Votes[:i]...), cc.Votes[i+1:]...)
			if s2, d2 := rn.certRun(t, false); s2 == sig {
				cc, detail, changed = t, d2, true
				i--
			}
		}
		for i := range cc.Votes {
			for _, alt := range []certVote{{cc.Votes[i].Key, false, 0}, {cc.Votes[i].Key, cc.Votes[i].Offline, 0}, {cc.Votes[i].Key, false, cc.Votes[i].Upgrade}} {
				if alt == cc.Votes[i] {
					continue
				}
				t := cc
				t.Votes = append([]certVote{}, cc.Votes...)
				t.Votes[i] = alt
				if s2, d2 := rn.certRun(t, false); s2 == sig {
					cc, detail, changed = t, d2, true
					break
				}
			}
		}
	}
	rn.fail(sig, detail, c18case{Kind: "cert", Cert: &cc})
}

func (rn *runner) certFamily(n int) {
	r := rn.c.Rng
	for k := 0; k < n; k++ {
		var p, v [32]byte
		r.Read(p[:])
		r.Read(v[:])
		cc := certCase{Round: randU64(r), Step: []uint8{1, 2, 3, 253, 254, 255}[r.Intn(6)], Parent: hx.Hex(p[:]), Voted: hx.Hex(v[:])}
		nv := r.Intn(9)
		mode := r.Intn(4) // 0,1 uniform; 2 mixed; 3 all different
		baseOff, baseUp := r.Intn(4) == 0, uint32(0)
		if r.Intn(3) == 0 {
			baseUp = uint32(1 + r.Intn(12))
		}
		for i := 0; i < nv; i++ {
			cv := certVote{Key: i, Offline: baseOff, Upgrade: baseUp}
			switch mode {
			case 2:
				if r.Intn(3) == 0 {
					cv.Offline = !baseOff
				}
				if r.Intn(3) == 0 {
					cv.Upgrade = baseUp + 1
				}
			case 3:
				cv.Offline = i%2 == 1
				cv.Upgrade = uint32(i)
			}
			cc.Votes = append(cc.Votes, cv)
		}
		rn.c.Hit(fmt.Sprintf("cert-flags:%s", []string{"uniform", "uniform", "mixed", "all-different"}[mode]))
		rn.certCase(cc)
	}
}

var _ = rand.Int
