package main

// Non-canonical encodings. protobuf decoding is not injective: unknown fields, explicitly encoded defaults, over-long
// varints (value, tag, length), duplicated singular fields (last one wins), fields out of order, a sub-message split
// into two occurrences (merged) and unpacked packed fields all decode to the SAME message. The node's own encoder
// never emits them, peers can. Law checked for every decodable type: an object decoded from such bytes is
// semantically equal to the object decoded from the canonical bytes, re-encodes to the canonical bytes, and every
// derived identifier (Hash, Hash128, recovered signer, signature hash) is the same: identifiers are functions of the
// decoded VALUE, never of the wire form it arrived in.

import (
	"bytes"
	"fmt"
	"math/rand"
	"reflect"
	"sort"

	"github.com/idena-network/idena-go/crypto"
	"google.golang.org/protobuf/encoding/protowire"
	"google.golang.org/protobuf/reflect/protoreflect"
)

type rawFld struct {
	num protowire.Number
	typ protowire.Type
	v   uint64 // varint value
	b   []byte // bytes content
}

func splitRaw(b []byte) ([]rawFld, bool) {
	var out []rawFld
	for len(b) > 0 {
		num, typ, n := protowire.ConsumeTag(b)
		if n < 0 {
			return nil, false
		}
		b = b[n:]
		switch typ {
		case protowire.VarintType:
			v, m := protowire.ConsumeVarint(b)
			if m < 0 {
				return nil, false
			}
			out = append(out, rawFld{num: num, typ: typ, v: v})
			b = b[m:]
		case protowire.BytesType:
			c, m := protowire.ConsumeBytes(b)
			if m < 0 {
				return nil, false
			}
			out = append(out, rawFld{num: num, typ: typ, b: append([]byte{}, c...)})
			b = b[m:]
		default:
			return nil, false
		}
	}
	return out, true
}

// padVarint: a non-minimal varint of v with `extra` redundant groups
func padVarint(v uint64, extra int) []byte {
	b := protowire.AppendVarint(nil, v)
	if extra <= 0 || len(b)+extra > 10 {
		return b
	}
	b[len(b)-1] |= 0x80
	for i := 0; i < extra-1; i++ {
		b = append(b, 0x80)
	}
	return append(b, 0x00)
}

type emitOpt struct{ padTag, padVal, padLen int }

func emitRaw(f rawFld, o emitOpt) []byte {
	out := padVarint(protowire.EncodeTag(f.num, f.typ), o.padTag)
	if f.typ == protowire.VarintType {
		return append(out, padVarint(f.v, o.padVal)...)
	}
	out = append(out, padVarint(uint64(len(f.b)), o.padLen)...)
	return append(out, f.b...)
}

func emitAll(fs []rawFld) []byte {
	var out []byte
	for _, f := range fs {
		out = append(out, emitRaw(f, emitOpt{})...)
	}
	return out
}

type ncVariant struct {
	kind  string
	bytes []byte
	lean  bool // within the fragment the strict Lean decoder accepts (no unknown / duplicate / unordered fields)
}

func unusedNumber(md protoreflect.MessageDescriptor) protowire.Number {
	max := protowire.Number(0)
	for _, fd := range sortedFields(md) {
		if fd.Number() > max {
			max = fd.Number()
		}
	}
	return max + 3
}

// ncVariants builds non-canonical encodings of the canonical encoding b of a message of type md.
func ncVariants(r *rand.Rand, md protoreflect.MessageDescriptor, b []byte, depth int) []ncVariant {
	fs, ok := splitRaw(b)
	if !ok {
		return nil
	}
	var out []ncVariant
	add := func(kind string, bs []byte, lean bool) {
		if !bytes.Equal(bs, b) {
			out = append(out, ncVariant{kind, bs, lean})
		}
	}
	u := unusedNumber(md)
	unkV := emitRaw(rawFld{num: u, typ: protowire.VarintType, v: 1}, emitOpt{})
	unkB := emitRaw(rawFld{num: u + 1, typ: protowire.BytesType, b: []byte{1, 2, 3}}, emitOpt{})
	add("unknown-field-appended", append(append([]byte{}, b...), unkV...), false)
	add("unknown-field-in-front", append(append([]byte{}, unkB...), b...), false)
	if len(fs) >= 2 {
		k := 1 + r.Intn(len(fs)-1)
		add("unknown-field-interleaved", append(append(emitAll(fs[:k]), unkV...), emitAll(fs[k:])...), false)
	}
	present := map[protowire.Number]bool{}
	for _, f := range fs {
		present[f.num] = true
	}
	// explicitly encoded default of an absent singular scalar / bytes field, at its sorted position and at the end
	var absent []protoreflect.FieldDescriptor
	for _, fd := range sortedFields(md) {
		if !fd.IsList() && fd.Kind() != protoreflect.MessageKind && !present[fd.Number()] {
			absent = append(absent, fd)
		}
	}
	if len(absent) > 0 {
		fd := absent[r.Intn(len(absent))]
		d := rawFld{num: fd.Number(), typ: protowire.BytesType}
		if isVarintKind(fd.Kind()) {
			d.typ = protowire.VarintType
		}
		add("explicit-default-appended", append(append([]byte{}, b...), emitRaw(d, emitOpt{})...), false)
		var sorted []rawFld
		done := false
		for _, f := range fs {
			if !done && f.num > d.num {
				sorted = append(sorted, d)
				done = true
			}
			sorted = append(sorted, f)
		}
		if !done {
			sorted = append(sorted, d)
		}
		add("explicit-default-in-place", emitAll(sorted), true)
	}
	// over-long varints
	if len(fs) > 0 {
		i := r.Intn(len(fs))
		pad := func(o emitOpt) []byte {
			var bs []byte
			for j, f := range fs {
				if j == i {
					bs = append(bs, emitRaw(f, o)...)
				} else {
					bs = append(bs, emitRaw(f, emitOpt{})...)
				}
			}
			return bs
		}
		add("overlong-tag", pad(emitOpt{padTag: 1 + r.Intn(3)}), true)
		if fs[i].typ == protowire.VarintType {
			add("overlong-value-varint", pad(emitOpt{padVal: 1 + r.Intn(3)}), true)
		} else {
			add("overlong-length", pad(emitOpt{padLen: 1 + r.Intn(3)}), true)
		}
	}
	// duplicated singular scalar/bytes field: an earlier occurrence with another value loses
	var singles []int
	for i, f := range fs {
		fd := md.Fields().ByNumber(f.num)
		if fd != nil && !fd.IsList() && fd.Kind() != protoreflect.MessageKind {
			singles = append(singles, i)
		}
	}
	if len(singles) > 0 {
		i := singles[r.Intn(len(singles))]
		dup := fs[i]
		if dup.typ == protowire.VarintType {
			dup.v ^= 1
		} else {
			dup.b = append([]byte{0x42}, dup.b...)
		}
		add("duplicate-singular-last-wins", append(emitRaw(dup, emitOpt{}), b...), false)
	}
	// fields out of order (occurrences of one number keep their relative order)
	if len(fs) >= 2 {
		rev := append([]rawFld{}, fs...)
		sort.SliceStable(rev, func(a, c int) bool { return rev[a].num > rev[c].num })
		add("fields-reversed", emitAll(rev), false)
	}
	// a singular sub-message split into two occurrences (the decoder merges them)
	for i, f := range fs {
		fd := md.Fields().ByNumber(f.num)
		if fd == nil || fd.IsList() || fd.Kind() != protoreflect.MessageKind {
			continue
		}
		inner, ok := splitRaw(f.b)
		if !ok || len(inner) < 2 {
			continue
		}
		k := 1 + r.Intn(len(inner)-1)
		var bs []byte
		for j, g := range fs {
			if j == i {
				bs = append(bs, emitRaw(rawFld{num: f.num, typ: f.typ, b: emitAll(inner[:k])}, emitOpt{})...)
				bs = append(bs, emitRaw(rawFld{num: f.num, typ: f.typ, b: emitAll(inner[k:])}, emitOpt{})...)
			} else {
				bs = append(bs, emitRaw(g, emitOpt{})...)
			}
		}
		add("submessage-split-and-merged", bs, false)
		break
	}
	// packed repeated field written unpacked
	for i, f := range fs {
		fd := md.Fields().ByNumber(f.num)
		if fd == nil || !fd.IsList() || !isVarintKind(fd.Kind()) || f.typ != protowire.BytesType {
			continue
		}
		var bs []byte
		for j, g := range fs {
			if j != i {
				bs = append(bs, emitRaw(g, emitOpt{})...)
				continue
			}
			rest := f.b
			for len(rest) > 0 {
				v, n := protowire.ConsumeVarint(rest)
				if n < 0 {
					break
				}
				bs = append(bs, emitRaw(rawFld{num: f.num, typ: protowire.VarintType, v: v}, emitOpt{})...)
				rest = rest[n:]
			}
		}
		add("packed-field-unpacked", bs, false)
		break
	}
	// the same one level down: a non-canonical encoding of a nested message re-wrapped canonically
	if depth < 3 {
		var nested []int
		for i, f := range fs {
			fd := md.Fields().ByNumber(f.num)
			if fd != nil && fd.Kind() == protoreflect.MessageKind && f.typ == protowire.BytesType {
				nested = append(nested, i)
			}
		}
		if len(nested) > 0 {
			i := nested[r.Intn(len(nested))]
			sub := ncVariants(r, md.Fields().ByNumber(fs[i].num).Message(), fs[i].b, depth+1)
			if len(sub) > 0 {
				sv := sub[r.Intn(len(sub))]
				var bs []byte
				for j, g := range fs {
					if j == i {
						bs = append(bs, emitRaw(rawFld{num: g.num, typ: g.typ, b: sv.bytes}, emitOpt{})...)
					} else {
						bs = append(bs, emitRaw(g, emitOpt{})...)
					}
				}
				add("nested:"+sv.kind, bs, sv.lean)
			}
		}
	}
	return out
}

func sigHashOf(x interface{}) (s string) {
	defer func() {
		if r := recover(); r != nil {
			s = "panic"
		}
	}()
	if h, ok := x.(crypto.SignatureHasher); ok {
		return fmt.Sprintf("%x", crypto.SignatureHash(h))
	}
	return ""
}

// nonCanonicalCase: all variants of the canonical encoding of one object.
func (rn *runner) nonCanonicalCase(ti *typeInfo, prof profile, seed int64, onlyKind string) {
	c := rn.c
	T := typeShort(ti.Name)
	cs := c18case{Kind: "noncanonical", Type: ti.Name, Profile: profNames[prof], Seed: seed}
	x := genObject(ti, prof, seed, rn.key)
	b, st := callToBytes(x, "ToBytes")
	if st != "" {
		return // judged by the round-trip family
	}
	base, st := callFromBytes(ti, b)
	if st != "" {
		return
	}
	pm, err := newProto(ti.Proto)
	if err != nil || unmarshalV1(b, pm) != nil {
		return
	}
	canonTok := msgTok(pm, false)
	baseIdent := memoView(ti, base) + "|" + sigHashOf(base)
	c.Line("new", "ok")
	r := rand.New(rand.NewSource(seed ^ 0x2545f491))
	for _, v := range ncVariants(r, pm.Descriptor(), b, 0) {
		if onlyKind != "" && v.kind != onlyKind {
			continue
		}
		pv, _ := newProto(ti.Proto)
		if unmarshalV1(v.bytes, pv) != nil || msgTok(pv, false) != canonTok {
			c.Hit("noncanonical-rejected-by-generator-check:" + v.kind)
			continue // not an encoding of the same message after all (generator side): not judged
		}
		c.Hit("noncanonical:" + v.kind)
		mc := cs
		mc.Mut = v.kind
		mc.Object = "bytes " + hx16s(v.bytes) + " vs canonical " + hx16s(b)
		y, st := callFromBytes(ti, v.bytes)
		if st != "" {
			rn.fail("C18:noncanonical-decode-fails:"+T, v.kind+": FromBytes: "+st, mc)
			continue
		}
		if d := semEq(reflect.ValueOf(base).Elem(), reflect.ValueOf(y).Elem(), T, "", rn.rules); d != "" {
			rn.fail("C18:noncanonical-decodes-differently:"+T, v.kind+": protobuf reads the same message, FromBytes gives an object differing at "+d, mc)
			continue
		}
		ident := memoView(ti, y) + "|" + sigHashOf(y)
		if ident != baseIdent {
			rn.fail("C18:identifier-depends-on-wire-form:"+T, fmt.Sprintf("%s: hashes|signer|sighash of the object decoded from a non-canonical encoding = %s, of the same object decoded from its canonical encoding = %s", v.kind, ident, baseIdent), mc)
			continue
		}
		if !ti.SemanticOnly {
			if b2, st := callToBytes(y, "ToBytes"); st != "" || !bytes.Equal(b2, b) {
				rn.fail("C18:noncanonical-reencode-differs:"+T, v.kind+": re-encoding is not the canonical encoding "+st, mc)
				continue
			}
			if v.lean && len(v.bytes) < 6000 {
				c.Line("canon "+ti.Proto+" x"+fmt.Sprintf("%x", v.bytes), "x"+fmt.Sprintf("%x", b))
			}
		}
		c.Rep.Evaluations++
	}
}

func hx16s(b []byte) string {
	if len(b) > 64 {
		return fmt.Sprintf("%x…(%d)", b[:64], len(b))
	}
	return fmt.Sprintf("%x", b)
}

func (rn *runner) nonCanonicalFamily(perType int) {
	for i := range registry {
		ti := &registry[i]
		for k := 0; k < perType; k++ {
			prof := []profile{profDistinct, profMax, profRandom, profRandom, profEmpty}[k%5]
			rn.nonCanonicalCase(ti, prof, rn.c.Rng.Int63(), "")
		}
	}
}
