// Package crashdb is the crash-injecting storage wrapper of property C09.
//
// A crashdb.DB wraps the outermost, constructor-injected tm-db database of a node (the PrefixDBs that appstate
// creates for the two trees sit on top of it, so every write of the node passes through here).  It
//   - counts write events: one per Set/SetSync/Delete/DeleteSync and one per Batch.Write/WriteSync (a batch is
//     atomic: LevelDB's contract, see DESIGN.md C09 "Partial");
//   - classifies every event by the key class(es) it touches (key prefixes of database/schema.go,
//     core/state/keys.go, database/epoch_db.go and the iavl node-db key formats), e.g. `st-save:12`, `head`,
//     `canon`, `tx-idx`; anything it cannot classify is `unclassified:<hex>` (never silently passes);
//   - records the events (with copies of keys and values) so that "the store as of k writes" can be rebuilt in a
//     fresh MemDB: Snapshot(before) + the first k recorded events;
//   - can also cut in place: after CutAfter(k) every later write is dropped (the probe's mode, used as a
//     cross-check of the replay mode).
package crashdb

import (
	"bytes"
	"encoding/binary"
	"encoding/hex"
	"fmt"
	"sort"
	"strings"
	"sync"

	dbm "github.com/tendermint/tm-db"
)

// Op is one key operation inside an event.
type Op struct {
	Del bool
	Key []byte
	Val []byte
}

// Event is one atomic write: a single put/delete or a whole batch.
type Event struct {
	Kind  string // "set" | "del" | "batch"
	Ops   []Op
	Class string // canonical class token, see Classify
}

type DB struct {
	dbm.DB // the underlying store (a MemDB)

	mu      sync.Mutex
	rec     bool
	events  []Event
	total   int // write events seen since creation
	limit   int // <0: unlimited; otherwise events with index >= limit (since SetCut) are dropped
	sinceCu int
}

func New(under dbm.DB) *DB { return &DB{DB: under, limit: -1} }

// Total number of write events issued so far (dropped ones included).
func (d *DB) Total() int {
	d.mu.Lock()
	defer d.mu.Unlock()
	return d.total
}

// StartRecording clears the log and records every following event.
func (d *DB) StartRecording() {
	d.mu.Lock()
	d.rec, d.events = true, nil
	d.mu.Unlock()
}

// StopRecording returns the recorded events.
func (d *DB) StopRecording() []Event {
	d.mu.Lock()
	defer d.mu.Unlock()
	d.rec = false
	ev := d.events
	d.events = nil
	return ev
}

// Recorded returns the number of events recorded so far.
func (d *DB) Recorded() int {
	d.mu.Lock()
	defer d.mu.Unlock()
	return len(d.events)
}

// CutAfter lets k more write events through and drops every later one (k < 0: no cut).
func (d *DB) CutAfter(k int) {
	d.mu.Lock()
	d.limit, d.sinceCu = k, 0
	d.mu.Unlock()
}

// admit registers one event; returns whether it is to be applied to the underlying store.
func (d *DB) admit(kind string, ops []Op) bool {
	d.mu.Lock()
	defer d.mu.Unlock()
	d.total++
	if d.limit >= 0 {
		if d.sinceCu >= d.limit {
			d.sinceCu++
			return false
		}
		d.sinceCu++
	}
	if d.rec {
		cp := make([]Op, len(ops))
		for i, o := range ops {
			cp[i] = Op{Del: o.Del, Key: append([]byte{}, o.Key...), Val: append([]byte{}, o.Val...)}
		}
		d.events = append(d.events, Event{Kind: kind, Ops: cp, Class: Classify(kind, cp, CurrentPrefixes(d.DB))})
	}
	return true
}

func (d *DB) Set(k, v []byte) error {
	if len(k) == 0 || v == nil {
		return d.DB.Set(k, v) // let the store report the argument error; not a write event
	}
	if d.admit("set", []Op{{Key: k, Val: v}}) {
		return d.DB.Set(k, v)
	}
	return nil
}
func (d *DB) SetSync(k, v []byte) error { return d.Set(k, v) }
func (d *DB) Delete(k []byte) error {
	if len(k) == 0 {
		return d.DB.Delete(k)
	}
	if d.admit("del", []Op{{Del: true, Key: k}}) {
		return d.DB.Delete(k)
	}
	return nil
}
func (d *DB) DeleteSync(k []byte) error { return d.Delete(k) }
func (d *DB) NewBatch() dbm.Batch       { return &batch{d: d, b: d.DB.NewBatch()} }

type batch struct {
	d   *DB
	b   dbm.Batch
	ops []Op
}

func (b *batch) Set(k, v []byte) error {
	if err := b.b.Set(k, v); err != nil {
		return err
	}
	b.ops = append(b.ops, Op{Key: append([]byte{}, k...), Val: append([]byte{}, v...)})
	return nil
}
func (b *batch) Delete(k []byte) error {
	if err := b.b.Delete(k); err != nil {
		return err
	}
	b.ops = append(b.ops, Op{Del: true, Key: append([]byte{}, k...)})
	return nil
}
func (b *batch) Write() error {
	if b.d.admit("batch", b.ops) {
		return b.b.Write()
	}
	return b.b.Close()
}
func (b *batch) WriteSync() error { return b.Write() }
func (b *batch) Close() error     { return b.b.Close() }

// Snapshot copies every key of src into a fresh MemDB.
func Snapshot(src dbm.DB) *dbm.MemDB {
	dst := dbm.NewMemDB()
	it, err := src.Iterator(nil, nil)
	if err != nil {
		panic(err)
	}
	defer it.Close()
	for ; it.Valid(); it.Next() {
		k, v := it.Key(), it.Value()
		if err := dst.Set(append([]byte{}, k...), append([]byte{}, v...)); err != nil {
			panic(err)
		}
	}
	return dst
}

// Apply replays events onto db (each event atomically, in order).
func Apply(db dbm.DB, events []Event) {
	for _, e := range events {
		for _, o := range e.Ops {
			var err error
			if o.Del {
				err = db.Delete(o.Key)
			} else {
				err = db.Set(o.Key, o.Val)
			}
			if err != nil {
				panic(err)
			}
		}
	}
}

// Equal reports whether two stores hold exactly the same key/value pairs (keys for which skip returns true are
// ignored); otherwise the first differing key.
func Equal(a, b dbm.DB, skip func(key []byte) bool) (bool, string) {
	ia, _ := a.Iterator(nil, nil)
	ib, _ := b.Iterator(nil, nil)
	defer ia.Close()
	defer ib.Close()
	adv := func(it dbm.Iterator) {
		for it.Valid() && skip != nil && skip(it.Key()) {
			it.Next()
		}
	}
	for {
		adv(ia)
		adv(ib)
		if !ia.Valid() || !ib.Valid() {
			break
		}
		if !bytes.Equal(ia.Key(), ib.Key()) || !bytes.Equal(ia.Value(), ib.Value()) {
			return false, fmt.Sprintf("%x / %x", ia.Key(), ib.Key())
		}
		ia.Next()
		ib.Next()
	}
	if ia.Valid() {
		return false, fmt.Sprintf("%x / <end>", ia.Key())
	}
	if ib.Valid() {
		return false, fmt.Sprintf("<end> / %x", ib.Key())
	}
	return true, ""
}

// IsEpochDbKey: keys of the validation ceremony's per-epoch database (its records are serialised from Go maps, so
// their bytes differ between two runs of the same history).
func IsEpochDbKey(k []byte) bool { return bytes.HasPrefix(k, []byte("epoch")) && len(k) >= 8 }

// Prefixes are the tree prefixes currently registered under the global keys 0x01 / 0x02 / 0x03
// (core/state/keys.go: currentStateDbPrefixKey, currentIdentityStateDbPrefixKey, preliminaryIdentityStateDbPrefixKey).
type Prefixes struct{ State, Identity, Preliminary []byte }

func CurrentPrefixes(db dbm.DB) Prefixes {
	g := func(k byte) []byte {
		v, _ := db.Get([]byte{k})
		return v
	}
	return Prefixes{g(1), g(2), g(3)}
}

var exactKeys = map[string]string{
	"LastBlock": "head", "weak-cert": "weak-cert", "last-snapshot": "snapshot-manifest", "preliminary-head": "prelim-head",
	"activity": "activity", "g": "inter-genesis", "pg": "prelim-inter-genesis", "uv": "upgrade-votes", "v": "cons-version",
	"pv": "prelim-cons-version", "\x01": "st-prefix", "\x02": "id-prefix", "\x03": "prelim-id-prefix",
}

// keyClass classifies one key of the outermost database. Tree keys return the tree tag ("st", "id", "id-prelim",
// "st-other", "id-other") and the iavl key inside the tree prefix.
func keyClass(k []byte, p Prefixes) (cls string, inner []byte) {
	if c, ok := exactKeys[string(k)]; ok {
		return c, nil
	}
	if len(k) > 9 && (k[0] == 1 || k[0] == 2 || k[0] == 3) {
		pre := k[:9]
		switch {
		case k[0] == 1 && bytes.Equal(pre, p.State):
			return "st", k[9:]
		case k[0] == 1:
			return "st-other", k[9:]
		case k[0] == 2 && bytes.Equal(pre, p.Identity):
			return "id", k[9:]
		case k[0] == 2 && bytes.Equal(pre, p.Preliminary):
			return "id-prelim", k[9:]
		case k[0] == 2:
			return "id-other", k[9:]
		}
		return "tree-0x03", k[9:]
	}
	has := func(s string) bool { return bytes.HasPrefix(k, []byte(s)) }
	switch {
	case has("epoch") && len(k) >= 8:
		return "epochdb", nil
	case has("id-diff") && len(k) == 15:
		return "id-diff", nil
	case has("applytxlog") && len(k) == 42:
		return "applytxlog", nil
	case has("blacktx") && len(k) == 39:
		return "blacktx", nil
	case has("snpsht"):
		return "snapshot-db", nil
	case has("oti"):
		return "own-tx", nil
	case has("ti") && len(k) == 34:
		return "tx-idx", nil
	case has("ri") && len(k) == 34:
		return "receipt-idx", nil
	case has("bc") && len(k) == 42:
		return "burnt", nil
	case has("key"):
		return "flip-key", nil
	case has("h") && len(k) == 33:
		return "hdr", nil
	case has("h") && len(k) == 10 && k[9] == 'n':
		return "canon", nil
	case has("c") && len(k) == 33:
		return "cert", nil
	case has("f") && len(k) == 33:
		return "final-consensus", nil
	case has("e") && len(k) >= 21:
		return "event", nil
	}
	return "unclassified:" + hex.EncodeToString(k), nil
}

// Secondary reports whether a class token is a secondary index (never read by start-up): the tie compresses them.
func Secondary(cls string) bool {
	switch cls {
	case "tx-idx", "receipt-idx", "own-tx", "own-tx-del", "burnt", "burnt-del", "event", "epochdb", "epochdb-del", "cert", "weak-cert",
		"final-consensus", "activity", "flip-key", "applytxlog", "applytxlog-del", "upgrade-votes":
		return true
	}
	return false
}

// Classify returns the canonical class token of an event.
//
//	single put/delete: the key class, deletes suffixed `-del` (e.g. `hdr`, `hdr-del`, `canon-del`, `id-diff-del`);
//	tree batch (all keys under one tree prefix): `<tree>-save:<v>` when it writes the root record of version v,
//	  `<tree>-del:<v,...>` when it only deletes root records (iavl DeleteVersion / LoadVersionForOverwriting),
//	  `<tree>-nop` when it touches no root record (e.g. the empty batch of a truncation with nothing above);
//	other batches: `batch[<sorted classes of its ops joined by +>]`, empty batch: `batch[]`.
func Classify(kind string, ops []Op, p Prefixes) string {
	if kind != "batch" {
		c, inner := keyClass(ops[0].Key, p)
		if inner != nil {
			c = c + "-key" // a tree key written outside a batch (Copy / ClearDb / snapshot import)
		}
		if ops[0].Del {
			c += "-del"
		}
		return c
	}
	if len(ops) == 0 {
		return "batch[]"
	}
	set := map[string]bool{}
	tree := ""
	allTree := true
	var saved, deleted []uint64
	for _, o := range ops {
		c, inner := keyClass(o.Key, p)
		if inner == nil {
			allTree = false
			if o.Del {
				c += "-del"
			}
			set[c] = true
			continue
		}
		if tree != "" && tree != c {
			allTree = false
		}
		tree = c
		set[c] = true
		if len(inner) == 9 && inner[0] == 'r' { // iavl rootKeyFormat: 'r' + int64 big endian
			v := binary.BigEndian.Uint64(inner[1:])
			if o.Del {
				deleted = append(deleted, v)
			} else {
				saved = append(saved, v)
			}
		}
	}
	if allTree && tree != "" {
		num := func(vs []uint64) string {
			sort.Slice(vs, func(i, j int) bool { return vs[i] < vs[j] })
			s := make([]string, len(vs))
			for i, v := range vs {
				s[i] = fmt.Sprint(v)
			}
			return strings.Join(s, ",")
		}
		switch {
		case len(saved) > 0 && len(deleted) == 0:
			return tree + "-save:" + num(saved)
		case len(saved) == 0 && len(deleted) > 0:
			return tree + "-del:" + num(deleted)
		case len(saved) == 0 && len(deleted) == 0:
			return tree + "-nop"
		}
		return tree + "-mixed:" + num(saved) + "/" + num(deleted)
	}
	cs := make([]string, 0, len(set))
	for c := range set {
		cs = append(cs, c)
	}
	sort.Strings(cs)
	return "batch[" + strings.Join(cs, "+") + "]"
}

// Classes lists the class tokens of events.
func Classes(ev []Event) []string {
	r := make([]string, len(ev))
	for i, e := range ev {
		r[i] = e.Class
	}
	return r
}
