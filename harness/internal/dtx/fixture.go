// Package dtx: the per-transaction correspondence (D-tx) between the real idena-go transaction logic
// (validation.ValidateTx + Blockchain.applyTxOnState) and the Lean model M-Ledger
// (lean/IdenaModel/Model/{Ledger,TxValidate,TxApply}.lean), shared by the checks of C04, C05 and C06.
//
// A case is an abstract ledger state (accounts, identities, registry entries, globals) plus a list of
// transactions and operations on them.  The fixture builds a REAL application state from it (registry committed
// to the identity-state tree and loaded into a real validators cache, ledger state set through the StateDB
// setters inside the ForCheck view, like the state in the middle of a block), runs the real code and writes
// one protocol line per operation.
package dtx

import (
	"crypto/ecdsa"
	"encoding/hex"
	"errors"
	"fmt"
	"math/big"
	"sort"
	"strings"

	"github.com/idena-network/idena-go/blockchain"
	"github.com/idena-network/idena-go/blockchain/attachments"
	"github.com/idena-network/idena-go/blockchain/fee"
	"github.com/idena-network/idena-go/blockchain/types"
	"github.com/idena-network/idena-go/blockchain/validation"
	"github.com/idena-network/idena-go/common"
	"github.com/idena-network/idena-go/common/eventbus"
	"github.com/idena-network/idena-go/config"
	"github.com/idena-network/idena-go/core/appstate"
	"github.com/idena-network/idena-go/core/state"
	"github.com/idena-network/idena-go/crypto"
	"github.com/idena-network/idena-go/crypto/vrf/p256"
	"github.com/idena-network/idena-go/vm/embedded"
	"github.com/ipfs/go-cid"
	pkgerrors "github.com/pkg/errors"
	dbm "github.com/tendermint/tm-db"
)

// ---- case description (JSON-serialisable: it is the replay format) ----

type Acct struct {
	ID       int      `json:"id"`
	Bal      *big.Int `json:"bal"`
	Nonce    uint32   `json:"nonce"`
	Epoch    uint16   `json:"epoch"`
	CStake   *big.Int `json:"cstake,omitempty"` // non-nil: the account is a contract with this stake
	Embedded bool     `json:"embedded,omitempty"`
}

type FlipD struct {
	Cid  string `json:"cid"` // hex
	Pair uint8  `json:"pair"`
}

type Ident struct {
	ID         int      `json:"id"`
	State      uint8    `json:"state"`
	Stake      *big.Int `json:"stake"`
	Locked     *big.Int `json:"locked"`
	Repl       *big.Int `json:"repl"`
	Invites    uint8    `json:"invites"`
	Inviter    *int     `json:"inviter,omitempty"`
	Invitees   []int    `json:"invitees,omitempty"`
	Delegatee  *int     `json:"delegatee,omitempty"`
	Pending    bool     `json:"pending,omitempty"`
	DelEpoch   uint16   `json:"delEpoch,omitempty"`
	UndelEpoch uint16   `json:"undelEpoch,omitempty"`
	PenSec     uint16   `json:"penSec,omitempty"`
	Flips      []FlipD  `json:"flips,omitempty"`
	Req        uint8    `json:"req,omitempty"`
	Bits       uint8    `json:"bits,omitempty"`
	Shard      uint32   `json:"shard,omitempty"`
	Profile    string   `json:"profile,omitempty"` // hex
}

// Reg is one entry of the identity-state tree (committed before the validators cache is loaded).
type Reg struct {
	ID            int  `json:"id"`
	Validated     bool `json:"validated,omitempty"`
	Online        bool `json:"online,omitempty"`
	Discriminated bool `json:"discriminated,omitempty"`
	Delegatee     *int `json:"delegatee,omitempty"`
}

type Glob struct {
	Epoch       uint16      `json:"epoch"`
	God         int         `json:"god"`
	GodInvites  uint16      `json:"godInvites"`
	Fpg         *big.Int    `json:"fpg,omitempty"` // nil = FeePerGas not set
	Period      uint32      `json:"period"`
	Thr         *big.Int    `json:"thr,omitempty"`
	ShardsNum   uint32      `json:"shardsNum"`
	ShardSizes  [][2]uint32 `json:"shardSizes,omitempty"`
	Status      []int       `json:"status,omitempty"`
	DelegSwitch [][2]int    `json:"delegSwitch,omitempty"`
	Delayed     []int       `json:"delayed,omitempty"`
	DiscSwitch  []int       `json:"discSwitch,omitempty"`
}

type Delta struct {
	ID int      `json:"id"`
	D  *big.Int `json:"d"`
}

// VMRes is the abstract result of the contract VM for a contract transaction (the wrapper in
// applyTxOnState is what is modelled; the VM itself belongs to C15).
type VMRes struct {
	IsWasm  bool    `json:"isWasm,omitempty"`
	CAddr   int     `json:"caddr"`
	Success bool    `json:"success,omitempty"`
	GasUsed uint64  `json:"gasUsed,omitempty"`
	Deltas  []Delta `json:"deltas,omitempty"`
}

type TxD struct {
	Type    uint16   `json:"type"`
	Key     int      `json:"key"` // 1..NKeys: signed with that key; 0: no signature
	// PreKey > 0: the object is first signed with PreKey and its sender looked up once (memoised), then that OBJECT is
	// handed to types.SignTx with Key — "same payment, other payer" (the signer is Key's owner)
	PreKey int `json:"preKey,omitempty"`
	// BadSig != "": the signature bytes are present but do not recover to anybody: recid9 | zero65 | short10 | rzero | shigh | len66
	BadSig string `json:"badSig,omitempty"`
	To      *int     `json:"to,omitempty"`
	Amount  *big.Int `json:"amount,omitempty"`
	MaxFee  *big.Int `json:"maxFee,omitempty"`
	Tips    *big.Int `json:"tips,omitempty"`
	Nonce   uint32   `json:"nonce"`
	Epoch   uint16   `json:"epoch"`
	Payload string   `json:"payload,omitempty"` // hex
	VM      *VMRes   `json:"vm,omitempty"`
}

type Op struct {
	Kind   string `json:"kind"`             // "val" | "apply"
	Mode   int    `json:"mode,omitempty"`   // 1 in-block, 2 mempool, 3 inbound
	MinFpg string `json:"minFpg,omitempty"` // "net" = fee.GetFeePerGasForNetwork(N) (what the chain passes), "nil", or decimal
	Tx     int    `json:"tx"`
	Raw    bool   `json:"raw,omitempty"` // apply even when the in-block validation did not succeed just before
}

type Case struct {
	U10         bool    `json:"u10"`
	U11         bool    `json:"u11"`
	U12         bool    `json:"u12"`
	Dummies     int     `json:"dummies"`     // extra validated identities (network size)
	HeadDummies int     `json:"headDummies"` // -1: the head state is the checked state's base; else a separate head with that many validated identities (F9)
	Height      uint64  `json:"height"`
	G           Glob    `json:"g"`
	Accts       []Acct  `json:"accts"`
	Idents      []Ident `json:"idents"`
	Regs        []Reg   `json:"regs"`
	Txs         []TxD   `json:"txs"`
	Ops         []Op    `json:"ops"`
	Note        string  `json:"note,omitempty"`
}

// ---- addresses ----

const NKeys = 8
const NIds = 12 // ids 1..NKeys have keys; NKeys+1..NIds are key-less (contracts, plain targets)

var keys []*ecdsa.PrivateKey
var keyAddrs []common.Address

func init() {
	for i := 0; i < NKeys; i++ {
		h := crypto.Hash([]byte(fmt.Sprintf("verif-dtx-key-%d", i)))
		k, err := crypto.ToECDSA(h[:])
		if err != nil {
			panic(err)
		}
		keys = append(keys, k)
		keyAddrs = append(keyAddrs, crypto.PubkeyToAddress(k.PublicKey))
	}
}

func AddrOf(id int) common.Address {
	switch {
	case id == 0:
		return common.Address{}
	case id >= 1 && id <= NKeys:
		return keyAddrs[id-1]
	default:
		return common.Address{0xC0, byte(id >> 16), byte(id >> 8), byte(id)}
	}
}

func dummyAddr(i int) common.Address { return common.Address{0xDD, byte(i >> 8), byte(i)} }

var embeddedHash = common.Hash(embedded.TimeLockContract)
var foreignHash = common.Hash{0x77, 0x01}

// ---- fixture ----

type fix struct {
	cs      *Case
	cfg     *config.Config
	check   *appstate.AppState
	head    *appstate.AppState
	chain   *blockchain.Blockchain
	ids     map[common.Address]int
	nextID  int
	cids    map[string]int
	hashes  map[string]int
	watch   []int
	txs     []*types.Transaction
	version int // bumped on every successful apply (oracle bookkeeping)
}

func (f *fix) idOf(a common.Address) int {
	if id, ok := f.ids[a]; ok {
		return id
	}
	id := f.nextID
	f.nextID++
	f.ids[a] = id
	f.watch = append(f.watch, id)
	return id
}

func (f *fix) addrOfID(id int) common.Address {
	for a, i := range f.ids {
		if i == id {
			return a
		}
	}
	return AddrOf(id)
}

func (f *fix) cidID(b []byte) int {
	if len(b) == 0 {
		return 0
	}
	k := string(b)
	if id, ok := f.cids[k]; ok {
		return id
	}
	id := len(f.cids) + 1
	f.cids[k] = id
	return id
}

func (f *fix) hashID(b []byte) int {
	if len(b) == 0 {
		return 0
	}
	k := string(b)
	if id, ok := f.hashes[k]; ok {
		return id
	}
	id := len(f.hashes) + 1
	f.hashes[k] = id
	return id
}

func unhex(s string) []byte {
	if s == "" {
		return nil
	}
	b, err := hex.DecodeString(s)
	if err != nil {
		panic(err)
	}
	return b
}

func bz(b *big.Int) *big.Int {
	if b == nil {
		return new(big.Int)
	}
	return b
}

func newRegistry(regs []Reg, dummies int) (*appstate.AppState, error) {
	db := dbm.NewMemDB()
	app, err := appstate.NewAppState(db, eventbus.New())
	if err != nil {
		return nil, err
	}
	for _, r := range regs {
		a := AddrOf(r.ID)
		if r.Validated {
			app.IdentityState.SetValidated(a, true)
		}
		if r.Online {
			app.IdentityState.SetOnline(a, true)
		}
		if r.Discriminated {
			app.IdentityState.SetDiscriminated(a, true)
		}
		if r.Delegatee != nil {
			app.IdentityState.SetDelegatee(a, AddrOf(*r.Delegatee))
		}
	}
	for i := 0; i < dummies; i++ {
		app.IdentityState.SetValidated(dummyAddr(i), true)
	}
	if err := app.Commit(nil); err != nil {
		return nil, err
	}
	if err := app.Initialize(1); err != nil {
		return nil, err
	}
	return app, nil
}

func newFix(cs *Case) (*fix, error) {
	f := &fix{cs: cs, ids: map[common.Address]int{}, nextID: 900, cids: map[string]int{}, hashes: map[string]int{}}
	for id := 0; id <= NIds; id++ {
		f.ids[AddrOf(id)] = id
		f.watch = append(f.watch, id) // id 0 = the zero address (it can hold coins: burn-like transfers, genesis)
	}
	ccfg := *blockchain.GetDefaultConsensusConfig()
	ccfg.EnableUpgrade10, ccfg.EnableUpgrade11, ccfg.EnableUpgrade12 = cs.U10, cs.U11, cs.U12
	f.cfg = &config.Config{Network: 0x99, Consensus: &ccfg, Validation: &config.ValidationConfig{}, Blockchain: &config.BlockchainConfig{}}
	validation.SetAppConfig(f.cfg) // package-global in /repo: the node sets it at start-up
	base, err := newRegistry(cs.Regs, cs.Dummies)
	if err != nil {
		return nil, err
	}
	f.head = base
	if cs.HeadDummies >= 0 {
		if f.head, err = newRegistry(cs.Regs, cs.HeadDummies); err != nil {
			return nil, err
		}
	}
	if f.check, err = base.ForCheck(1); err != nil {
		return nil, err
	}
	f.chain = blockchain.VerifC05NewChain(f.cfg, f.head)
	st := f.check.State
	g := cs.G
	st.SetGlobalEpoch(g.Epoch)
	st.SetGodAddress(AddrOf(g.God))
	st.SetGodAddressInvites(g.GodInvites)
	if g.Fpg != nil {
		st.SetFeePerGas(new(big.Int).Set(g.Fpg))
	}
	st.SetValidationPeriod(state.ValidationPeriod(g.Period))
	if g.Thr != nil {
		st.SetDiscriminationStakeThreshold(new(big.Int).Set(g.Thr))
	}
	st.SetShardsNum(g.ShardsNum)
	for _, p := range g.ShardSizes {
		st.SetShardSize(common.ShardId(p[0]), p[1])
	}
	for _, a := range g.Status {
		st.ToggleStatusSwitchAddress(AddrOf(a))
	}
	for _, p := range g.DelegSwitch {
		st.ToggleDelegationAddress(AddrOf(p[0]), AddrOf(p[1]))
	}
	for _, a := range g.Delayed {
		st.AddDelayedPenalty(AddrOf(a))
	}
	for _, a := range g.DiscSwitch {
		st.AddDiscriminationStatusSwitch(AddrOf(a))
	}
	for _, ac := range cs.Accts {
		a := AddrOf(ac.ID)
		st.SetBalance(a, new(big.Int).Set(bz(ac.Bal)))
		st.SetNonce(a, ac.Nonce)
		st.SetEpoch(a, ac.Epoch)
		if ac.CStake != nil {
			h := foreignHash
			if ac.Embedded {
				h = embeddedHash
			}
			st.DeployContract(a, h, new(big.Int).Set(ac.CStake))
		}
	}
	for _, in := range cs.Idents {
		a := AddrOf(in.ID)
		st.SetState(a, state.IdentityState(in.State))
		if bz(in.Stake).Sign() != 0 {
			st.AddStake(a, new(big.Int).Set(in.Stake))
		}
		if bz(in.Locked).Sign() != 0 {
			st.AddLockedStake(a, new(big.Int).Set(in.Locked))
		}
		if bz(in.Repl).Sign() != 0 {
			st.AddReplenishedStake(a, new(big.Int).Set(in.Repl))
		}
		st.SetInvites(a, in.Invites)
		if in.Inviter != nil {
			st.SetInviter(a, AddrOf(*in.Inviter), common.Hash{0x11, byte(in.ID)}, 0)
		}
		for _, iv := range in.Invitees {
			st.AddInvitee(a, AddrOf(iv), common.Hash{0x11, byte(iv)})
		}
		if in.Delegatee != nil {
			st.SetDelegatee(a, AddrOf(*in.Delegatee))
			if in.Pending {
				st.SetPendingUndelegation(a)
			}
		}
		st.SetDelegationEpoch(a, in.DelEpoch)
		st.SetUndelegationEpoch(a, in.UndelEpoch)
		st.SetPenaltySeconds(a, in.PenSec)
		for _, fl := range in.Flips {
			st.AddFlip(a, unhex(fl.Cid), fl.Pair)
		}
		st.SetRequiredFlips(a, in.Req)
		for b, t := range []uint16{types.SubmitAnswersHashTx, types.SubmitShortAnswersTx, types.EvidenceTx, types.SubmitLongAnswersTx} {
			if in.Bits&(1<<uint(b)) != 0 {
				st.SetValidationTxBit(a, t)
			}
		}
		st.SetShardId(a, common.ShardId(in.Shard))
		if in.Profile != "" {
			st.SetProfileHash(a, unhex(in.Profile))
		}
	}
	for i := range cs.Txs {
		f.txs = append(f.txs, f.buildTx(&cs.Txs[i]))
	}
	for i := range cs.Txs {
		f.txTokens(i) // registers every address / cid the externals mention before the watch list is written
	}
	return f, nil
}

func (f *fix) buildTx(d *TxD) *types.Transaction { return buildTx(d) }

func buildTx(d *TxD) *types.Transaction {
	tx := &types.Transaction{Type: d.Type, AccountNonce: d.Nonce, Epoch: d.Epoch, Amount: d.Amount, MaxFee: d.MaxFee, Tips: d.Tips}
	if d.To != nil {
		a := AddrOf(*d.To)
		tx.To = &a
	}
	if d.Payload != "" {
		tx.Payload = unhex(d.Payload)
	}
	if d.Key >= 1 && d.Key <= NKeys {
		src := tx
		if d.PreKey >= 1 && d.PreKey <= NKeys && d.BadSig == "" {
			first, err := types.SignTx(tx, keys[d.PreKey-1])
			if err != nil {
				panic(err)
			}
			types.Sender(first) // populate whatever the object memoises about its sender
			first.Hash()
			src = first
		}
		s, err := types.SignTx(src, keys[d.Key-1])
		if err != nil {
			panic(err)
		}
		tx = s
	}
	if d.BadSig != "" {
		sig := make([]byte, 65)
		if len(tx.Signature) == 65 {
			copy(sig, tx.Signature)
		}
		switch d.BadSig {
		case "recid9":
			sig[64] = 9
		case "zero65":
			sig = make([]byte, 65)
		case "short10":
			sig = sig[:10]
			sig[0] |= 1
		case "rzero":
			for i := 0; i < 32; i++ {
				sig[i] = 0
			}
		case "shigh":
			for i := 32; i < 64; i++ {
				sig[i] = 0xff
			}
		case "len66":
			sig = append(sig, 1)
		}
		tx = &types.Transaction{Type: tx.Type, AccountNonce: tx.AccountNonce, Epoch: tx.Epoch, To: tx.To, Amount: tx.Amount,
			MaxFee: tx.MaxFee, Tips: tx.Tips, Payload: tx.Payload, Signature: sig}
	}
	return tx
}

// WireSigner recovers the signer of a transaction independently of the transaction object's memoised sender: the
// object is serialised, decoded into a fresh object, and the public key is recovered from the decoded signature over
// the decoded signature hash.  ok=false: nobody signed these bytes.
func WireSigner(tx *types.Transaction) (addr common.Address, ok bool) {
	defer func() {
		if r := recover(); r != nil {
			addr, ok = common.Address{}, false
		}
	}()
	b, err := tx.ToBytes()
	if err != nil {
		return common.Address{}, false
	}
	fresh := new(types.Transaction)
	if err := fresh.FromBytes(b); err != nil {
		return common.Address{}, false
	}
	if len(fresh.Signature) != 65 {
		return common.Address{}, false
	}
	h := crypto.SignatureHash(fresh)
	pub, err := crypto.Ecrecover(h[:], fresh.Signature)
	if err != nil || len(pub) != 65 || pub[0] != 4 {
		return common.Address{}, false
	}
	var a common.Address
	copy(a[:], crypto.Keccak256(pub[1:])[12:])
	if a == (common.Address{}) {
		return a, false
	}
	return a, true
}

// ExpectedSigner: what the generator knows — the owner of the key that signed last, or nobody.
func ExpectedSigner(d *TxD) (common.Address, bool) {
	if d.BadSig != "" || d.Key < 1 || d.Key > NKeys {
		return common.Address{}, false
	}
	return keyAddrs[d.Key-1], true
}

// ---- protocol lines ----

func optID(p *int) string {
	if p == nil {
		return "-"
	}
	return fmt.Sprint(*p)
}

func joinInts(l []int, sep string) string {
	if len(l) == 0 {
		return "-"
	}
	s := make([]string, len(l))
	for i, v := range l {
		s[i] = fmt.Sprint(v)
	}
	return strings.Join(s, sep)
}

func b01(b bool) string {
	if b {
		return "1"
	}
	return "0"
}

func (f *fix) newLine() string {
	g := f.cs.G
	var sz []string
	// the switch object keeps one entry per delegator (ToggleDelegation overwrites): mirror that
	ds := dedupDeleg(g.DelegSwitch)
	for _, p := range g.ShardSizes {
		sz = append(sz, fmt.Sprintf("%d:%d", p[0], p[1]))
	}
	j := func(l []string) string {
		if len(l) == 0 {
			return "-"
		}
		return strings.Join(l, ",")
	}
	headN := f.head.ValidatorsCache.NetworkSize()
	return fmt.Sprintf("new %s%s%s %d %d %d %s %d %s %d %d %d %s %s %s %s %s",
		b01(f.cs.U10), b01(f.cs.U11), b01(f.cs.U12), g.Epoch, g.God, g.GodInvites, bz(g.Fpg).String(), g.Period,
		bz(g.Thr).String(), g.ShardsNum, f.check.ValidatorsCache.NetworkSize(), headN,
		joinInts(toggleList(g.Status), ","), j(ds), joinInts(g.Delayed, ","), joinInts(g.DiscSwitch, ","), j(sz))
}

// toggleList mirrors ToggleStatusSwitchAddress applied to each element in turn.
func toggleList(l []int) []int {
	var res []int
	for _, a := range l {
		found := -1
		for i, x := range res {
			if x == a {
				found = i
			}
		}
		if found >= 0 {
			res = append(res[:found], res[found+1:]...)
		} else {
			res = append(res, a)
		}
	}
	return res
}

func dedupDeleg(l [][2]int) []string {
	var keysOrder []int
	m := map[int]int{}
	for _, p := range l {
		if _, ok := m[p[0]]; !ok {
			keysOrder = append(keysOrder, p[0])
		}
		m[p[0]] = p[1]
	}
	var res []string
	for _, k := range keysOrder {
		res = append(res, fmt.Sprintf("%d:%d", k, m[k]))
	}
	return res
}

func (f *fix) setupLines() []string {
	var ls []string
	ls = append(ls, f.newLine())
	for _, ac := range f.cs.Accts {
		ctr := "-"
		if ac.CStake != nil {
			ctr = ac.CStake.String() + ":" + b01(ac.Embedded)
		}
		ls = append(ls, fmt.Sprintf("acct %d %s %d %d %s", ac.ID, bz(ac.Bal).String(), ac.Nonce, ac.Epoch, ctr))
	}
	for _, in := range f.cs.Idents {
		var fl []string
		for _, x := range in.Flips {
			fl = append(fl, fmt.Sprintf("%d:%d", f.cidID(unhex(x.Cid)), x.Pair))
		}
		fls := "-"
		if len(fl) > 0 {
			fls = strings.Join(fl, ",")
		}
		pend := in.Pending && in.Delegatee != nil
		ls = append(ls, fmt.Sprintf("idn %d %d %s %s %s %d %s %s %s %s %d %d %d %s %d %d %d %d",
			in.ID, in.State, bz(in.Stake).String(), bz(in.Locked).String(), bz(in.Repl).String(), in.Invites,
			optID(in.Inviter), joinInts(in.Invitees, ","), optID(in.Delegatee), b01(pend), in.DelEpoch, in.UndelEpoch,
			in.PenSec, fls, in.Req, in.Bits, in.Shard, f.hashID(unhex(in.Profile))))
	}
	vc := f.check.ValidatorsCache
	for _, id := range f.watch {
		a := f.addrOfID(id)
		bits := b01(vc.IsValidated(a)) + b01(vc.IsOnlineIdentity(a)) + b01(vc.IsDiscriminated(a)) + b01(vc.IsPool(a))
		if bits != "0000" {
			ls = append(ls, fmt.Sprintf("reg %d %s", id, bits))
		}
		ab := b01(f.check.IdentityState.IsValidated(a)) + b01(f.check.IdentityState.IsOnline(a))
		if ab != "00" {
			ls = append(ls, fmt.Sprintf("appr %d %s", id, ab))
		}
	}
	ls = append(ls, "watch "+joinInts(f.watch, ","))
	return ls
}

func (f *fix) dumpAddr(id int) string {
	a := f.addrOfID(id)
	st := f.check.State
	ctr := "-"
	if h := st.GetCodeHash(a); h != nil {
		_, emb := embedded.AvailableContracts[*h]
		ctr = bz(st.GetContractStake(a)).String() + ":" + b01(emb)
	}
	in := st.GetIdentity(a)
	inviter := "-"
	if in.Inviter != nil {
		inviter = fmt.Sprint(f.idOf(in.Inviter.Address))
	}
	var invitees []int
	for _, x := range in.Invitees {
		invitees = append(invitees, f.idOf(x.Address))
	}
	d := in.Delegatee()
	pend := false
	if p := in.PendingUndelegation(); p != nil {
		d, pend = p, true
	}
	deleg := "-"
	if d != nil {
		deleg = fmt.Sprint(f.idOf(*d))
	}
	var fl []string
	for _, x := range in.Flips {
		fl = append(fl, fmt.Sprintf("%d:%d", f.cidID(x.Cid), x.Pair))
	}
	fls := "-"
	if len(fl) > 0 {
		fls = strings.Join(fl, ".")
	}
	return fmt.Sprintf("A%d=%s,%d,%d,%s|%d,%s,%s,%s,%d,%s,%s,%s,%s,%d,%d,%d,%s,%d,%d,%d,%d|%s%s", id,
		st.GetBalance(a).String(), st.GetNonce(a), st.GetEpoch(a), ctr,
		in.State, bz(in.Stake).String(), bz(in.LockedStake()).String(), bz(in.ReplenishedStake()).String(), in.Invites,
		inviter, joinInts(invitees, "."), deleg, b01(pend), in.DelegationEpoch, in.UndelegationEpoch(), in.PenaltySeconds(),
		fls, in.RequiredFlips, in.ValidationTxsBits, in.ShardId, f.hashID(in.ProfileHash),
		b01(f.check.IdentityState.IsValidated(a)), b01(f.check.IdentityState.IsOnline(a)))
}

func (f *fix) dumpGlobal() string {
	st := f.check.State
	ids := func(l []common.Address) string {
		var r []int
		for _, a := range l {
			r = append(r, f.idOf(a))
		}
		return joinInts(r, ".")
	}
	var ds []string
	for _, d := range st.Delegations() {
		ds = append(ds, fmt.Sprintf("%d:%d", f.idOf(d.Delegator), f.idOf(d.Delegatee)))
	}
	var sz []string
	sizes := st.ShardSizes()
	var sk []int
	for k, v := range sizes {
		if v != 0 {
			sk = append(sk, int(k))
		}
	}
	sort.Ints(sk)
	for _, k := range sk {
		sz = append(sz, fmt.Sprintf("%d:%d", k, sizes[common.ShardId(k)]))
	}
	var burnt []string
	for _, it := range st.VerifBurntCoins(f.cs.Height) {
		burnt = append(burnt, fmt.Sprintf("%d:%s", f.idOf(it.Address), bz(it.Amount).String()))
	}
	j := func(l []string) string {
		if len(l) == 0 {
			return "-"
		}
		return strings.Join(l, ".")
	}
	return fmt.Sprintf("G=%d,%d,%d,%s,%d,%s,%d,%s,%s,%s,%s,%s,%s", st.Epoch(), f.idOf(st.GodAddress()), st.GodAddressInvites(),
		st.FeePerGas().String(), st.ValidationPeriod(), bz(st.DiscriminationStakeThreshold()).String(), st.ShardsNum(),
		ids(st.StatusSwitchAddresses()), j(ds), ids(st.DelayedOfflinePenalties()), ids(st.DiscriminationStatusSwitchAddresses()),
		j(sz), j(burnt))
}

func (f *fix) dump() string {
	// the global part may discover new addresses (appended to the watch list) — compute it first
	g := f.dumpGlobal()
	var parts []string
	for i := 0; i < len(f.watch); i++ {
		parts = append(parts, f.dumpAddr(f.watch[i]))
	}
	return strings.Join(append(parts, g), " ")
}

// ---- externals and the transaction token list ----

func (f *fix) extOf(i int) string {
	d := &f.cs.Txs[i]
	tx := f.txs[i]
	var kv []string
	add := func(k string, v interface{}) { kv = append(kv, fmt.Sprintf("%s=%v", k, v)) }
	switch tx.Type {
	case types.ActivationTx:
		a, _ := crypto.PubKeyBytesToAddress(tx.Payload)
		add("pa", f.idOf(a))
	case types.SubmitFlipTx:
		a := attachments.ParseFlipSubmitAttachment(tx)
		add("at", b01(a != nil))
		if a != nil {
			add("cid", f.cidID(a.Cid))
			add("pair", a.Pair)
			_, err := cid.Parse(a.Cid)
			add("cok", b01(err == nil))
		}
	case types.OnlineStatusTx:
		a := attachments.ParseOnlineStatusAttachment(tx)
		add("at", b01(a != nil))
		if a != nil {
			add("on", b01(a.Online))
		}
	case types.SubmitShortAnswersTx:
		add("at", b01(attachments.ParseShortAnswerAttachment(tx) != nil))
	case types.SubmitLongAnswersTx:
		a := attachments.ParseLongAnswerAttachment(tx)
		add("at", b01(a != nil))
		add("mv", b01(types.IsValidLongSessionAnswers(tx)))
		if a != nil {
			add("ps", b01(len(a.Proof) > 0 && len(a.Salt) > 0))
			ok := false
			seed := f.check.State.FlipWordsSeed()
			if raw, err := types.SenderPubKey(tx); err == nil {
				if pub, err := crypto.UnmarshalPubkey(raw); err == nil {
					if ver, err := p256.NewVRFVerifier(pub); err == nil {
						if _, err := ver.ProofToHash(seed[:], a.Proof); err == nil {
							ok = true
						}
					}
				}
			}
			add("vrf", b01(ok))
		}
	case types.BurnTx:
		a := attachments.ParseBurnAttachment(tx)
		add("at", b01(a != nil))
		if a != nil {
			add("bk", b01(len(a.Key) > 0))
		}
	case types.ChangeProfileTx:
		a := attachments.ParseChangeProfileAttachment(tx)
		add("at", b01(a != nil))
		if a != nil {
			add("ph", f.hashID(a.Hash))
		}
	case types.DeleteFlipTx:
		a := attachments.ParseDeleteFlipAttachment(tx)
		add("at", b01(a != nil))
		if a != nil {
			add("cid", f.cidID(a.Cid))
		}
	case types.StoreToIpfsTx:
		a := attachments.ParseStoreToIpfsAttachment(tx)
		add("at", b01(a != nil && a.Cid != nil))
		if a != nil && a.Cid != nil {
			_, err := cid.Cast(a.Cid)
			add("cok", b01(err == nil))
		}
	case types.DeployContractTx:
		a := attachments.ParseDeployContractAttachment(tx)
		add("at", b01(a != nil))
		if a != nil {
			_, emb := embedded.AvailableContracts[a.CodeHash]
			add("emb", b01(emb))
			add("code", b01(len(a.Code) > 0))
		}
	case types.CallContractTx:
		add("at", b01(attachments.ParseCallContractAttachment(tx) != nil))
	case types.TerminateContractTx:
		add("at", b01(attachments.ParseTerminateContractAttachment(tx) != nil))
	}
	if d.VM != nil {
		add("wasm", b01(d.VM.IsWasm))
		add("ca", d.VM.CAddr)
		add("vs", b01(d.VM.Success))
		vg := d.VM.GasUsed
		func() {
			defer func() { recover() }()
			vg = capGas(d.VM.GasUsed, f.chain.VerifC05GasLimit(f.check, tx))
		}()
		add("vg", vg)
		if len(d.VM.Deltas) > 0 {
			var ds []string
			for _, x := range d.VM.Deltas {
				ds = append(ds, fmt.Sprintf("%d:%s", x.ID, x.D.String()))
			}
			add("vd", strings.Join(ds, "/"))
		}
	}
	if len(kv) == 0 {
		return "-"
	}
	return strings.Join(kv, ";")
}

func (f *fix) txTokens(i int) string {
	tx := f.txs[i]
	ty := fmt.Sprint(tx.Type)
	if tx.Type > 0x16 {
		ty = "u"
	}
	snd, _ := types.Sender(tx)
	return fmt.Sprintf("%s %d %s %s %s %s %d %d %d %d %s", ty, f.idOf(snd), optID(f.cs.Txs[i].To),
		tx.AmountOrZero().String(), tx.MaxFeeOrZero().String(), tx.TipsOrZero().String(), tx.AccountNonce, tx.Epoch,
		len(tx.Payload), fee.CalculateGas(tx), f.extOf(i))
}

// ---- running the real code ----

var verrNames = []struct {
	e error
	n string
}{
	{validation.NodeAlreadyActivated, "NodeAlreadyActivated"}, {validation.InvalidSignature, "InvalidSignature"},
	{validation.InvalidNonce, "InvalidNonce"}, {validation.InvalidEpoch, "InvalidEpoch"},
	{validation.InvalidAmount, "InvalidAmount"}, {validation.InsufficientFunds, "InsufficientFunds"},
	{validation.InsufficientInvites, "InsufficientInvites"}, {validation.RecipientRequired, "RecipientRequired"},
	{validation.InvitationIsMissing, "InvitationIsMissing"}, {validation.EmptyPayload, "EmptyPayload"},
	{validation.InvalidPayload, "InvalidPayload"}, {validation.InvalidRecipient, "InvalidRecipient"},
	{validation.EarlyTx, "EarlyTx"}, {validation.LateTx, "LateTx"}, {validation.NotCandidate, "NotCandidate"},
	{validation.InsufficientFlips, "InsufficientFlips"}, {validation.IsAlreadyOnline, "IsAlreadyOnline"},
	{validation.IsAlreadyOffline, "IsAlreadyOffline"}, {validation.DuplicatedFlip, "DuplicatedFlip"},
	{validation.DuplicatedFlipPair, "DuplicatedFlipPair"}, {validation.BigFee, "BigFee"},
	{validation.InvalidMaxFee, "InvalidMaxFee"}, {validation.TooHighMaxFee, "TooHighMaxFee"},
	{validation.InvalidSender, "InvalidSender"}, {validation.FlipIsMissing, "FlipIsMissing"},
	{validation.DuplicatedTx, "DuplicatedTx"}, {validation.NegativeValue, "NegativeValue"},
	{validation.SenderHasDelegatee, "SenderHasDelegatee"}, {validation.SenderHasNoDelegatee, "SenderHasNoDelegatee"},
	{validation.WrongEpoch, "WrongEpoch"}, {validation.InvalidDeployAmount, "InvalidDeployAmount"},
	{validation.SenderHasPenalty, "SenderHasPenalty"},
}

func classifyVErr(err error) string {
	if err == nil {
		return "ok"
	}
	c := pkgerrors.Cause(err)
	for _, x := range verrNames {
		if c == x.e {
			return "err:" + x.n
		}
	}
	if c.Error() == "unknown tx type" {
		return "err:UnknownType"
	}
	return "err:Other"
}

func (f *fix) minFpg(s string) *big.Int {
	switch s {
	case "", "net":
		return fee.GetFeePerGasForNetwork(f.check.ValidatorsCache.NetworkSize())
	case "nil":
		return nil
	}
	v, ok := new(big.Int).SetString(s, 10)
	if !ok {
		panic("bad minFpg " + s)
	}
	return v
}

func (f *fix) validate(i, mode int, minFpg string) (ans string) {
	defer func() {
		if r := recover(); r != nil {
			ans = "panic"
		}
	}()
	return classifyVErr(validation.ValidateTx(f.check, f.txs[i], f.minFpg(minFpg), mode))
}

// fakeVM stands for vm.VM: the wrapper of applyTxOnState is under test, the VM's verdict is an input.
type fakeVM struct {
	f *fix
	r *VMRes
}

func (v *fakeVM) Run(tx *types.Transaction, from *common.Address, gasLimit int64, commitToEnv bool) *types.TxReceipt {
	if v.r == nil {
		return &types.TxReceipt{Success: false, Error: errors.New("no vm result")}
	}
	for _, d := range v.r.Deltas {
		a := AddrOf(d.ID)
		if d.D.Sign() >= 0 {
			v.f.check.State.AddBalance(a, d.D)
		} else {
			v.f.check.State.SubBalance(a, new(big.Int).Neg(d.D))
		}
	}
	rc := &types.TxReceipt{Success: v.r.Success, GasUsed: capGas(v.r.GasUsed, gasLimit)}
	if !v.r.Success {
		rc.Error = errors.New("contract failed")
	}
	return rc
}
// capGas: the real VMs never report more gas than the limit the wrapper gave them
func capGas(used uint64, limit int64) uint64 {
	if limit <= 0 {
		return 0
	}
	if used > uint64(limit) {
		return uint64(limit)
	}
	return used
}

func (v *fakeVM) Read(contractAddr common.Address, method string, args ...[]byte) ([]byte, error) {
	return nil, errors.New("not supported")
}
func (v *fakeVM) IsWasm(tx *types.Transaction) bool { return v.r != nil && v.r.IsWasm }
func (v *fakeVM) ContractAddr(tx *types.Transaction, from *common.Address) common.Address {
	if tx.Type == types.DeployContractTx {
		if v.r != nil {
			return AddrOf(v.r.CAddr)
		}
		return common.Address{}
	}
	return *tx.To // like VmImpl.ContractAddr (vm/vm.go:162)
}

func (f *fix) apply(i int) (ans string, feeOut *big.Int) {
	defer func() {
		if r := recover(); r != nil {
			ans, feeOut = "panic", nil
		}
	}()
	fe, _, err := f.chain.VerifC05ApplyTx(f.check, &fakeVM{f, f.cs.Txs[i].VM}, f.txs[i], f.cs.Height)
	if err != nil {
		switch {
		case strings.HasPrefix(err.Error(), "invalid tx epoch"):
			return "err:Epoch", nil
		case strings.HasPrefix(err.Error(), "invalid tx nonce"):
			return "err:Nonce", nil
		}
		return "err:Other", nil
	}
	f.version++
	return "ok", fe
}
