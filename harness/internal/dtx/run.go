package dtx

import (
	"encoding/json"
	"fmt"
	"math/big"
	"os"
	"sort"
	"strings"

	"github.com/idena-network/idena-go/blockchain/types"
	"github.com/idena-network/idena-go/common"

	"verifharness/internal/hx"
)

// Finding is one failure of an independent Go oracle (no reference to the Lean model).
type Finding struct {
	Sig    string
	Detail string
	OpIdx  int
}

type funds struct {
	bal, stake, locked, repl, cstake *big.Int
}

func (f *fix) snapshot() map[common.Address]funds {
	st := f.check.State
	set := map[common.Address]struct{}{}
	for _, a := range st.VerifLiveAccounts() {
		set[a] = struct{}{}
	}
	for _, a := range st.VerifLiveIdentities() {
		set[a] = struct{}{}
	}
	for a := range f.ids {
		set[a] = struct{}{}
	}
	res := map[common.Address]funds{}
	for a := range set {
		in := st.GetIdentity(a)
		cs := new(big.Int)
		if st.GetCodeHash(a) != nil {
			cs = bz(st.GetContractStake(a))
		}
		res[a] = funds{new(big.Int).Set(st.GetBalance(a)), new(big.Int).Set(bz(in.Stake)), new(big.Int).Set(bz(in.LockedStake())),
			new(big.Int).Set(bz(in.ReplenishedStake())), new(big.Int).Set(cs)}
	}
	return res
}

func sortedAddrs(m map[common.Address]funds) []common.Address {
	var l []common.Address
	for a := range m {
		l = append(l, a)
	}
	sort.Slice(l, func(i, j int) bool { return string(l[i][:]) < string(l[j][:]) })
	return l
}

func totalOf(m map[common.Address]funds) *big.Int {
	t := new(big.Int)
	for _, v := range m {
		t.Add(t, v.bal)
		t.Add(t, v.stake)
		t.Add(t, v.cstake)
	}
	return t
}

// oracleC05: "applying a transaction never lowers the balance or stake of any address other than its signer",
// except inviter→own invitee, pool→own delegator, a contract paying out of its own balance during a call.
// The signer is NOT taken from types.Sender(tx): it is recovered from the wire bytes (WireSigner) and cross-checked with
// the key the generator signed with; a transaction nobody signed has no allowed payer at all.
func (f *fix) oracleC05(i int, pre, post map[common.Address]funds, preInviter, preDelegatee *common.Address, terminated map[common.Address]bool) []Finding {
	tx := f.txs[i]
	signer, signed := WireSigner(tx)
	reported, _ := types.Sender(tx)
	var res []Finding
	for _, a := range sortedAddrs(post) {
		p, ok := pre[a]
		if !ok {
			p = funds{new(big.Int), new(big.Int), new(big.Int), new(big.Int), new(big.Int)}
		}
		q := post[a]
		if signed && a == signer {
			continue
		}
		balLow, stakeLow := q.bal.Cmp(p.bal) < 0, q.stake.Cmp(p.stake) < 0
		if !balLow && !stakeLow {
			continue
		}
		allowed := false
		switch tx.Type {
		case types.KillInviteeTx:
			allowed = tx.To != nil && a == *tx.To && preInviter != nil && *preInviter == signer && !terminated[signer]
		case types.KillDelegatorTx:
			allowed = tx.To != nil && a == *tx.To && preDelegatee != nil && *preDelegatee == signer
		case types.CallContractTx, types.TerminateContractTx:
			allowed = tx.To != nil && a == *tx.To && !stakeLow
		case types.DeployContractTx:
			allowed = f.cs.Txs[i].VM != nil && a == AddrOf(f.cs.Txs[i].VM.CAddr) && !stakeLow
		}
		if !allowed && a == reported {
			who := "nobody (the signature does not recover to a key)"
			if signed {
				who = fmt.Sprintf("id %d", f.idOf(signer))
			}
			res = append(res, Finding{Sig: "C05:debited-account-is-not-the-signer",
				Detail: fmt.Sprintf("tx type %s: the wire bytes are signed by %s, the object reports id %d as sender and id %d was lowered: balance %s -> %s, stake %s -> %s",
					TypeName(tx.Type), who, f.idOf(reported), f.idOf(a), p.bal, q.bal, p.stake, q.stake)})
		} else if !allowed {
			res = append(res, Finding{Sig: "C05:other-lowered:" + TypeName(tx.Type),
				Detail: fmt.Sprintf("tx type %s signed by id %d lowered id %d: balance %s -> %s, stake %s -> %s", TypeName(tx.Type),
					f.idOf(signer), f.idOf(a), p.bal, q.bal, p.stake, q.stake)})
		}
	}
	return res
}

// oracleC04: no negative component after a validated transaction, locked part within the stake, total not increased.
func (f *fix) oracleC04(i int, pre, post map[common.Address]funds) []Finding {
	tx := f.txs[i]
	var res []Finding
	contract := tx.Type == types.DeployContractTx || tx.Type == types.CallContractTx || tx.Type == types.TerminateContractTx
	signer, _ := types.Sender(tx)
	for _, p := range pre { // the statement is about states that satisfy the invariant before the transaction
		if p.bal.Sign() < 0 || p.stake.Sign() < 0 || p.locked.Sign() < 0 || p.repl.Sign() < 0 || p.cstake.Sign() < 0 || p.locked.Cmp(p.stake) > 0 {
			return nil
		}
	}
	for _, a := range sortedAddrs(post) {
		if contract && a != signer {
			continue // whom the VM stand-in debits is not the code's doing (VmOk is C15's); the signer is charged by the wrapper
		}
		q := post[a]
		comp := ""
		switch {
		case q.bal.Sign() < 0:
			comp = "balance"
		case q.stake.Sign() < 0:
			comp = "stake"
		case q.locked.Sign() < 0 || q.locked.Cmp(q.stake) > 0:
			comp = "locked"
		case q.repl.Sign() < 0:
			comp = "replenished"
		case q.cstake.Sign() < 0:
			comp = "contract-stake"
		}
		if comp != "" {
			res = append(res, Finding{Sig: "C04:negative-component:" + comp + ":tx",
				Detail: fmt.Sprintf("after a validated %s: id %d balance %s stake %s locked %s replenished %s contract stake %s", TypeName(tx.Type),
					f.idOf(a), q.bal, q.stake, q.locked, q.repl, q.cstake)})
		}
	}
	vmSum := new(big.Int)
	if contract && f.cs.Txs[i].VM != nil {
		for _, d := range f.cs.Txs[i].VM.Deltas {
			vmSum.Add(vmSum, d.D)
		}
	}
	if vmSum.Sign() <= 0 && totalOf(post).Cmp(totalOf(pre)) > 0 {
		res = append(res, Finding{Sig: "C04:transactions-increased-total:tx",
			Detail: fmt.Sprintf("validated %s: total %s -> %s", TypeName(tx.Type), totalOf(pre), totalOf(post))})
	}
	return res
}

// signerFindings: who the node takes for the sender versus who signed (independent of types.Sender's memo)
func (f *fix) signerFindings(i int, verdict string) []Finding {
	tx := f.txs[i]
	d := &f.cs.Txs[i]
	var res []Finding
	ws, wok := WireSigner(tx)
	es, eok := ExpectedSigner(d)
	if wok != eok || (wok && ws != es) {
		res = append(res, Finding{Sig: "C05:wire-signature-is-not-the-signing-keys",
			Detail: fmt.Sprintf("signed with key %d (bad signature %q) but the wire bytes recover to id %d (recoverable: %v)", d.Key, d.BadSig, f.idOf(ws), wok)})
	}
	if verdict == "ok" && !wok {
		rep, _ := types.Sender(tx)
		res = append(res, Finding{Sig: "C05:unsigned-tx-accepted",
			Detail: fmt.Sprintf("ValidateTx accepted a %s whose signature bytes (%d bytes, %q) recover to nobody; it would be charged to id %d", TypeName(tx.Type), len(tx.Signature), d.BadSig, f.idOf(rep))})
	}
	if wok {
		if rep, _ := types.Sender(tx); rep != ws {
			res = append(res, Finding{Sig: "C05:reported-sender-is-not-the-signer",
				Detail: fmt.Sprintf("%s: the wire bytes are signed by id %d, types.Sender of the object answers id %d (verdict %s)", TypeName(tx.Type), f.idOf(ws), f.idOf(rep), verdict)})
		}
	}
	return res
}

type RunStats struct {
	Hits     map[string]int
	Verdicts []string // per executed op
	Evals    int
}

// RunCase builds the fixture, executes the operations on the real code, calls emit(opLine, implAnswer) for every
// protocol line and returns the oracle findings.
func RunCase(cs *Case, emit func(op, impl string)) (findings []Finding, stats RunStats, err error) {
	stats.Hits = map[string]int{}
	f, err := newFix(cs)
	if err != nil {
		return nil, stats, err
	}
	for _, l := range f.setupLines() {
		emit(l, "ok")
	}
	emit("dump", f.dump())
	valOK := map[int]int{}
	terminated := map[common.Address]bool{} // identities terminated by a transaction applied earlier in this case (history, not state)
	applied := map[int]bool{}
	appliedEpoch := map[int]uint16{}
	for opi, op := range cs.Ops {
		if op.Tx < 0 || op.Tx >= len(f.txs) {
			continue
		}
		tname := TypeName(f.txs[op.Tx].Type)
		switch op.Kind {
		case "val":
			tok := f.txTokens(op.Tx)
			mf := f.minFpg(op.MinFpg)
			ans := f.validate(op.Tx, op.Mode, op.MinFpg)
			emit(fmt.Sprintf("val %d %s %s", op.Mode, bz(mf).String(), tok), ans)
			stats.Evals++
			stats.Hits["val:"+tname+":"+ans]++
			stats.Hits[fmt.Sprintf("mode:%d", op.Mode)]++
			stats.Verdicts = append(stats.Verdicts, ans)
			if op.Mode == 1 && (op.MinFpg == "net" || op.MinFpg == "") && ans == "ok" {
				valOK[op.Tx] = f.version
			}
			for _, x := range f.signerFindings(op.Tx, ans) {
				x.OpIdx = opi
				findings = append(findings, x)
			}
			if applied[op.Tx] && ans == "ok" && f.check.State.Epoch() == appliedEpoch[op.Tx] {
				findings = append(findings, Finding{Sig: "C06:replay-validated:" + tname,
					Detail: "a transaction that was applied earlier in the same epoch passes ValidateTx again", OpIdx: opi})
			}
		case "apply":
			v, ok := valOK[op.Tx]
			validated := ok && v == f.version
			if !validated && !op.Raw {
				continue
			}
			tok := f.txTokens(op.Tx)
			var pre map[common.Address]funds
			var preInviter, preDelegatee *common.Address
			if validated {
				pre = f.snapshot()
				if to := f.txs[op.Tx].To; to != nil {
					if inv := f.check.State.GetInviter(*to); inv != nil {
						a := inv.Address
						preInviter = &a
					}
					in := f.check.State.GetIdentity(*to)
					if d := in.Delegatee(); d != nil {
						a := *d
						preDelegatee = &a
					}
				}
			}
			// who this transaction terminates, and whose inviter links the termination has to remove (read before)
			var victim *common.Address
			var victimInvitees []common.Address
			if ws, ok := WireSigner(f.txs[op.Tx]); ok {
				switch f.txs[op.Tx].Type {
				case types.KillTx:
					victim = &ws
				case types.KillInviteeTx, types.KillDelegatorTx:
					if to := f.txs[op.Tx].To; to != nil {
						a := *to
						victim = &a
					}
				}
			}
			if victim != nil {
				for _, x := range f.check.State.GetInvitees(*victim) {
					victimInvitees = append(victimInvitees, x.Address)
				}
			}
			ans, fe := f.apply(op.Tx)
			stats.Evals++
			kind := "raw"
			if validated {
				kind = "validated"
			}
			stats.Hits["apply:"+kind+":"+tname+":"+ans]++
			stats.Verdicts = append(stats.Verdicts, "apply:"+ans)
			if ans == "ok" {
				emit("apply "+tok, "ok "+fe.String()+" "+f.dump())
			} else {
				emit("apply "+tok, ans)
			}
			if ans == "panic" {
				return findings, stats, nil // the state may be half-written: the case ends here
			}
			if ans == "ok" {
				if applied[op.Tx] {
					findings = append(findings, Finding{Sig: "C06:replay-applied:" + tname, Detail: "the same signed transaction was applied twice", OpIdx: opi})
				}
				applied[op.Tx] = true
				appliedEpoch[op.Tx] = f.check.State.Epoch()
			}
			if validated && ans == "ok" {
				tx := f.txs[op.Tx]
				ws, _ := WireSigner(tx)
				terminatedBefore := map[common.Address]bool{}
				for k := range terminated {
					terminatedBefore[k] = true
				}
				switch tx.Type {
				case types.KillInviteeTx:
					if preInviter == nil || *preInviter != ws {
						findings = append(findings, Finding{Sig: "C05:killInvitee-by-non-inviter", OpIdx: opi,
							Detail: fmt.Sprintf("KillInviteeTx signed by id %d applied to id %d whose inviter link does not name the signer", f.idOf(ws), f.idOf(*tx.To))})
					}
					if terminated[ws] {
						findings = append(findings, Finding{Sig: "C05:terminated-inviter-killed-former-invitee", OpIdx: opi,
							Detail: fmt.Sprintf("id %d was terminated earlier in this history (a terminated identity has no invitees), yet its KillInviteeTx against id %d was validated and applied: stake %s -> %s",
								f.idOf(ws), f.idOf(*tx.To), pre[*tx.To].stake, bz(f.check.State.GetIdentity(*tx.To).Stake))})
					}
				case types.KillDelegatorTx:
					if preDelegatee == nil || *preDelegatee != ws {
						findings = append(findings, Finding{Sig: "C05:pool-terminated-non-delegator", OpIdx: opi,
							Detail: fmt.Sprintf("KillDelegatorTx signed by id %d applied to id %d whose established delegatee (State.Delegatee at the pre-state) is not the signer — a pending delegation switch is not a delegation; stake %s -> %s, signer's balance %s -> %s",
								f.idOf(ws), f.idOf(*tx.To), pre[*tx.To].stake, bz(f.check.State.GetIdentity(*tx.To).Stake), pre[ws].bal, f.check.State.GetBalance(ws))})
					}
				}
				if victim != nil {
					for _, x := range victimInvitees {
						if inv := f.check.State.GetInviter(x); inv != nil && inv.Address == *victim {
							findings = append(findings, Finding{Sig: "C05:terminated-identity-keeps-invitee-link", OpIdx: opi,
								Detail: fmt.Sprintf("after %s terminated id %d, its former invitee id %d (one of %d) still names it as inviter", TypeName(tx.Type), f.idOf(*victim), f.idOf(x), len(victimInvitees))})
							break
						}
					}
					terminated[*victim] = true
				}
				post := f.snapshot()
				for _, x := range f.oracleC05(op.Tx, pre, post, preInviter, preDelegatee, terminatedBefore) {
					x.OpIdx = opi
					findings = append(findings, x)
				}
				if cs.HeadDummies < 0 { // F9 set-ups (head view ≠ checked view) are outside the C04 statement's reachable states
					for _, x := range f.oracleC04(op.Tx, pre, post) {
						x.OpIdx = opi
						findings = append(findings, x)
					}
				}
			}
		}
	}
	return findings, stats, nil
}

// expected verdict kinds per type (read off the clause lists of Model/TxValidate.lean), used to report which
// kinds the generator did not reach
var commonKinds = []string{"InvalidSignature", "InvalidPayload", "NegativeValue", "InvalidEpoch", "InvalidNonce", "InvalidMaxFee",
	"LateTx", "TooHighMaxFee", "BigFee", "InsufficientFunds"}
var typeKinds = map[string][]string{
	"Send":             {"RecipientRequired"},
	"Activation":       {"EmptyPayload", "RecipientRequired", "InvalidPayload", "InvalidAmount", "InvalidRecipient", "NodeAlreadyActivated", "InvitationIsMissing", "LateTx"},
	"Invite":           {"RecipientRequired", "InsufficientInvites", "LateTx", "InvalidRecipient"},
	"Kill":             {"InvalidRecipient", "InvalidAmount", "LateTx", "InvalidSender"},
	"SubmitFlip":       {"InvalidRecipient", "InvalidAmount", "LateTx", "NotCandidate", "InsufficientFlips", "InvalidPayload", "DuplicatedFlip", "DuplicatedFlipPair"},
	"AnswersHash":      {"InvalidRecipient", "InvalidAmount", "InvalidPayload", "EarlyTx", "NotCandidate", "DuplicatedTx"},
	"ShortAnswers":     {"InvalidRecipient", "InvalidAmount", "LateTx", "EarlyTx", "NotCandidate", "DuplicatedTx", "InvalidPayload"},
	"LongAnswers":      {"InvalidRecipient", "InvalidAmount", "LateTx", "EarlyTx", "NotCandidate", "DuplicatedTx", "InvalidPayload", "Other"},
	"Evidence":         {"InvalidRecipient", "InvalidAmount", "EarlyTx", "NotCandidate", "InvalidSender", "DuplicatedTx"},
	"OnlineStatus":     {"InvalidRecipient", "InvalidAmount", "LateTx", "InvalidSender", "InvalidPayload", "IsAlreadyOnline", "IsAlreadyOffline"},
	"KillInvitee":      {"RecipientRequired", "InvalidRecipient", "InvalidAmount", "LateTx"},
	"ChangeGodAddress": {"RecipientRequired", "InvalidAmount", "InvalidSender", "LateTx"},
	"Burn":             {"InvalidRecipient", "InvalidPayload"},
	"ChangeProfile":    {"InvalidRecipient", "InvalidAmount", "InvalidPayload"},
	"DeleteFlip":       {"InvalidRecipient", "InvalidAmount", "LateTx", "InvalidPayload", "FlipIsMissing"},
	"Deploy":           {"InvalidRecipient", "InvalidPayload", "InvalidDeployAmount"},
	"Call":             {"RecipientRequired", "InvalidRecipient", "InvalidPayload"},
	"Terminate":        {"RecipientRequired", "InvalidRecipient", "InvalidAmount", "InvalidPayload"},
	"Delegate":         {"RecipientRequired", "InvalidRecipient", "InvalidAmount", "LateTx", "InvalidSender", "SenderHasDelegatee", "SenderHasPenalty"},
	"Undelegate":       {"InvalidRecipient", "InvalidAmount", "LateTx", "SenderHasNoDelegatee", "WrongEpoch"},
	"KillDelegator":    {"RecipientRequired", "InvalidAmount", "LateTx", "InvalidSender"},
	"StoreToIpfs":      {"InvalidRecipient", "InvalidAmount", "InvalidPayload", "Other"},
	"ReplenishStake":   {"RecipientRequired", "InvalidRecipient", "LateTx"},
	"Unknown":          {"UnknownType"},
}

var zeroFeeTypes = map[string]bool{"SubmitFlip": true, "AnswersHash": true, "ShortAnswers": true, "LongAnswers": true, "Evidence": true,
	"Activation": true, "Invite": true, "Kill": true}
var ceremonialTypes = map[string]bool{"AnswersHash": true, "ShortAnswers": true, "LongAnswers": true, "Evidence": true}

func loadReplay(path string) (*Case, error) {
	b, err := os.ReadFile(path)
	if err != nil {
		return nil, err
	}
	var w struct {
		Replay json.RawMessage `json:"replay"`
	}
	if err := json.Unmarshal(b, &w); err != nil {
		return nil, err
	}
	cs := &Case{}
	if err := json.Unmarshal(w.Replay, cs); err != nil {
		return nil, err
	}
	return cs, nil
}

func hasSig(fs []Finding, sig string) (Finding, bool) {
	for _, x := range fs {
		if x.Sig == sig {
			return x, true
		}
	}
	return Finding{}, false
}

func cloneCase(cs *Case) *Case {
	b, _ := json.Marshal(cs)
	n := &Case{}
	if err := json.Unmarshal(b, n); err != nil {
		panic(err)
	}
	return n
}

// shrink: drop operations, transactions' companions and state entries while the same oracle failure persists.
func shrink(cs *Case, sig string) *Case {
	still := func(c *Case) bool {
		fs, _, err := RunCase(c, func(string, string) {})
		if err != nil {
			return false
		}
		_, ok := hasSig(fs, sig)
		return ok
	}
	cur := cloneCase(cs)
	for changed := true; changed; {
		changed = false
		for i := len(cur.Ops) - 1; i >= 0; i-- {
			t := cloneCase(cur)
			t.Ops = append(t.Ops[:i], t.Ops[i+1:]...)
			if still(t) {
				cur, changed = t, true
			}
		}
		for i := len(cur.Idents) - 1; i >= 0; i-- {
			t := cloneCase(cur)
			t.Idents = append(t.Idents[:i], t.Idents[i+1:]...)
			if still(t) {
				cur, changed = t, true
			}
		}
		for i := len(cur.Accts) - 1; i >= 0; i-- {
			t := cloneCase(cur)
			t.Accts = append(t.Accts[:i], t.Accts[i+1:]...)
			if still(t) {
				cur, changed = t, true
			}
		}
		for i := len(cur.Regs) - 1; i >= 0; i-- {
			t := cloneCase(cur)
			t.Regs = append(t.Regs[:i], t.Regs[i+1:]...)
			if still(t) {
				cur, changed = t, true
			}
		}
		if cur.Dummies > 0 {
			t := cloneCase(cur)
			t.Dummies = 0
			if still(t) {
				cur, changed = t, true
			}
		}
	}
	return cur
}

// Run is the channel body shared by the checks built on D-tx.  `props` lists the oracle prefixes whose findings
// are failures of this channel ("C05", "C04", "C06"); findings of the other oracles are recorded as notes.
func Run(c *hx.Ctx, props ...string) error {
	mine := func(sig string) bool {
		for _, p := range props {
			if strings.HasPrefix(sig, p+":") {
				return true
			}
		}
		return false
	}
	emit := func(op, impl string) { c.Line(op, impl) }
	report := func(cs *Case, fs []Finding) {
		seen := map[string]bool{}
		for _, x := range fs {
			if seen[x.Sig] {
				continue
			}
			seen[x.Sig] = true
			if mine(x.Sig) {
				small := shrink(cs, x.Sig)
				d := x.Detail
				if sfs, _, err := RunCase(small, func(string, string) {}); err == nil {
					if y, ok := hasSig(sfs, x.Sig); ok {
						d = y.Detail
					}
				}
				c.Fail(x.Sig, d, small)
			} else if len(c.Rep.Notes) < 20 {
				c.Rep.Notes = append(c.Rep.Notes, "observation outside this channel's property: "+x.Sig+" — "+x.Detail+" ("+cs.Note+")")
			}
		}
	}
	c.Rep.Rule = "per case: random ledger state around a target tx type (23 types + unknown code, scenario builder + state/tx perturbations), " +
		"real ValidateTx in a random mode and in-block, real applyTxOnState after a successful in-block validation (plus a few unvalidated applies), " +
		"replay of the same tx, a follow-up tx on the resulting state; every answer compared with the Lean model, " +
		"every validated application checked by the independent per-address delta oracle"
	if c.Replay != "" {
		cs, err := loadReplay(c.Replay)
		if err != nil {
			return err
		}
		fs, st, err := RunCase(cs, emit)
		if err != nil {
			return err
		}
		c.Rep.Evaluations = st.Evals
		c.Distinct(fmt.Sprint(st.Verdicts))
		for k, v := range st.Hits {
			for i := 0; i < v; i++ {
				c.Hit(k)
			}
		}
		for _, x := range fs {
			if mine(x.Sig) {
				c.Fail(x.Sig, x.Detail, cs)
			}
		}
		return nil
	}
	n := c.Scale(7200, 120000)
	if c.Tier == "search" {
		n = 14400 // the widened search after a broken obligation: twice the quick tier per seed
	}
	hitKinds := map[string]map[string]bool{}
	for i := 0; i < n; i++ {
		t := uint16(i % NScenarios)
		cs := GenCase(c.Rng, t)
		fs, st, err := RunCase(cs, emit)
		if err != nil {
			return fmt.Errorf("case %d (%s): %v", i, cs.Note, err)
		}
		c.Rep.Evaluations += st.Evals
		c.Distinct(TypeName(cs.Txs[0].Type) + "|" + fmt.Sprint(st.Verdicts))
		for k, v := range st.Hits {
			for j := 0; j < v; j++ {
				c.Hit(k)
			}
			p := strings.Split(k, ":")
			if p[0] == "val" {
				if hitKinds[p[1]] == nil {
					hitKinds[p[1]] = map[string]bool{}
				}
				hitKinds[p[1]][strings.Join(p[2:], ":")] = true
			}
		}
		if i < 3 {
			c.Sample(map[string]interface{}{"note": cs.Note, "verdicts": st.Verdicts})
		}
		report(cs, fs)
	}
	// which verdict kinds of which type were reached
	missing := map[string][]string{}
	reached, wanted := 0, 0
	var tn []string
	for k := range typeKinds {
		tn = append(tn, k)
	}
	sort.Strings(tn)
	for _, t := range tn {
		want := append([]string{}, typeKinds[t]...)
		for _, k := range commonKinds {
			if zeroFeeTypes[t] && (k == "InvalidMaxFee" || k == "BigFee") {
				continue // the fee rate of these types is 0: the clauses cannot fire
			}
			if ceremonialTypes[t] && k == "LateTx" {
				continue // clause :188 exempts ceremonial transactions
			}
			want = append(want, k)
		}
		want = append(want, "ok")
		if t == "Unknown" {
			want = append(append([]string{"UnknownType"}, commonKinds...))
		}
		seen := map[string]bool{}
		for _, k := range want {
			if seen[k] {
				continue
			}
			seen[k] = true
			wanted++
			key := "err:" + k
			if k == "ok" {
				key = "ok"
			}
			if hitKinds[t][key] {
				reached++
			} else {
				missing[t] = append(missing[t], k)
			}
		}
	}
	c.Rep.Coverage["verdict_kinds_reached"] = fmt.Sprintf("%d of %d (type, verdict kind) pairs", reached, wanted)
	c.Rep.Coverage["verdict_kinds_not_reached"] = missing
	return nil
}
