package dtx

// Case generator: for a target transaction type a scenario builder patches a random base state so that the
// transaction is valid with high probability, then a few perturbations (adversarial targets, periods, upgrade
// flags, funds, nonce/epoch edges, payloads) are applied to state and transaction.

import (
	"encoding/hex"
	"math/big"
	"math/rand"
	"sort"

	"github.com/idena-network/idena-go/blockchain/attachments"
	"github.com/idena-network/idena-go/blockchain/fee"
	"github.com/idena-network/idena-go/blockchain/types"
	"github.com/idena-network/idena-go/common"
	"github.com/idena-network/idena-go/crypto"
	"github.com/idena-network/idena-go/crypto/vrf/p256"
	"github.com/idena-network/idena-go/vm/embedded"
	"github.com/ipfs/go-cid"
	mh "github.com/multiformats/go-multihash"
)

const (
	stUndefined = 0
	stInvite    = 1
	stCandidate = 2
	stVerified  = 3
	stSuspended = 4
	stKilled    = 5
	stZombie    = 6
	stNewbie    = 7
	stHuman     = 8
)

var TypeNames = []string{"Send", "Activation", "Invite", "Kill", "SubmitFlip", "AnswersHash", "ShortAnswers", "LongAnswers",
	"Evidence", "OnlineStatus", "KillInvitee", "ChangeGodAddress", "Burn", "ChangeProfile", "DeleteFlip", "Deploy", "Call",
	"Terminate", "Delegate", "Undelegate", "KillDelegator", "StoreToIpfs", "ReplenishStake"}

func TypeName(t uint16) string {
	if int(t) < len(TypeNames) {
		return TypeNames[t]
	}
	return "Unknown"
}

type gen struct {
	r    *rand.Rand
	cs   *Case
	acct map[int]*Acct
	idn  map[int]*Ident
	reg  map[int]*Reg
}

func dna(n int64) *big.Int { return new(big.Int).Mul(big.NewInt(n), common.DnaBase) }
func bi(n int64) *big.Int  { return big.NewInt(n) }
func ip(i int) *int        { return &i }

func (g *gen) pick(n int) int        { return g.r.Intn(n) }
func (g *gen) chance(p float64) bool { return g.r.Float64() < p }
func (g *gen) key() int              { return 1 + g.r.Intn(NKeys) }
func (g *gen) anyID() int            { return 1 + g.r.Intn(NIds) }

func (g *gen) bal() *big.Int {
	switch g.pick(8) {
	case 0:
		return bi(0)
	case 1:
		return bi(int64(g.pick(5000)))
	case 2:
		return new(big.Int).Div(dna(1), bi(1000))
	default:
		return new(big.Int).Add(dna(int64(1+g.pick(2000))), bi(int64(g.pick(1000))))
	}
}

func (g *gen) validCid(seed int) []byte {
	h, _ := mh.Sum([]byte{byte(seed), byte(seed >> 8), 0x5a}, mh.SHA2_256, -1)
	return cid.NewCidV1(cid.Raw, h).Bytes()
}

func (g *gen) A(id int) *Acct {
	if a, ok := g.acct[id]; ok {
		return a
	}
	a := &Acct{ID: id, Bal: bi(0)}
	g.acct[id] = a
	return a
}

func (g *gen) I(id int) *Ident {
	if a, ok := g.idn[id]; ok {
		return a
	}
	a := &Ident{ID: id, Stake: bi(0), Locked: bi(0), Repl: bi(0)}
	g.idn[id] = a
	return a
}

func (g *gen) R(id int) *Reg {
	if a, ok := g.reg[id]; ok {
		return a
	}
	a := &Reg{ID: id}
	g.reg[id] = a
	return a
}

func (g *gen) link(inviter, invitee int) {
	g.I(invitee).Inviter = ip(inviter)
	for _, x := range g.I(inviter).Invitees {
		if x == invitee {
			return
		}
	}
	g.I(inviter).Invitees = append(g.I(inviter).Invitees, invitee)
}

func (g *gen) delegate(delegator, pool int, inRegistry bool) {
	g.I(delegator).Delegatee = ip(pool)
	g.I(delegator).Pending = false
	if inRegistry {
		g.R(delegator).Delegatee = ip(pool)
	}
}

func (g *gen) estN() int {
	n := g.cs.Dummies
	for _, r := range g.reg {
		if r.Validated {
			n++
		}
	}
	return n
}

func (g *gen) base() {
	cs := g.cs
	if g.chance(0.55) {
		cs.U10, cs.U11, cs.U12 = true, true, true
	} else {
		cs.U10, cs.U11, cs.U12 = g.chance(0.5), g.chance(0.5), g.chance(0.5)
	}
	cs.Dummies = []int{0, 0, 1, 2, 5, 11, 12, 30}[g.pick(8)]
	cs.HeadDummies = -1
	cs.Height = uint64(2 + g.pick(50))
	cs.G.Epoch = []uint16{0, 1, 2, 3, 7}[g.pick(5)]
	if g.chance(0.25) {
		cs.G.Period = uint32(1 + g.pick(4))
	}
	cs.G.God = 1
	if g.chance(0.15) {
		cs.G.God = []int{g.key(), NKeys + 1, 0}[g.pick(3)]
	}
	cs.G.GodInvites = []uint16{0, 1, 5, 65535}[g.pick(4)]
	if g.chance(0.5) {
		cs.G.Thr = dna(int64(1 + g.pick(100)))
	}
	cs.G.ShardsNum = []uint32{0, 1, 1, 2, 3}[g.pick(5)]
	for s := uint32(1); s <= cs.G.ShardsNum || s == 1; s++ {
		if g.chance(0.85) {
			cs.G.ShardSizes = append(cs.G.ShardSizes, [2]uint32{s, uint32(g.pick(4))})
		}
	}
	for id := 1; id <= NKeys; id++ {
		a := g.A(id)
		a.Bal = g.bal()
		a.Nonce = []uint32{0, 0, 1, 5, 40}[g.pick(5)]
		a.Epoch = cs.G.Epoch
		if g.chance(0.25) && cs.G.Epoch > 0 {
			a.Epoch = uint16(g.pick(int(cs.G.Epoch)))
		}
		in := g.I(id)
		in.State = []uint8{stUndefined, stInvite, stCandidate, stVerified, stVerified, stSuspended, stZombie, stNewbie, stHuman, stHuman}[g.pick(10)]
		if in.State != stUndefined && g.chance(0.7) {
			in.Stake = g.bal()
			if g.chance(0.3) && in.Stake.Sign() > 0 {
				in.Locked = new(big.Int).Div(in.Stake, bi(int64(1+g.pick(4))))
			}
			if g.chance(0.3) && in.Stake.Sign() > 0 {
				in.Repl = new(big.Int).Div(in.Stake, bi(int64(1+g.pick(4))))
			}
		}
		in.Invites = []uint8{0, 0, 1, 3, 255}[g.pick(5)]
		in.Req = []uint8{0, 0, 3, 5}[g.pick(4)]
		nf := g.pick(int(in.Req) + 2)
		for k := 0; k < nf; k++ {
			in.Flips = append(in.Flips, FlipD{Cid: hex.EncodeToString(g.validCid(id*16 + k)), Pair: uint8(k)})
		}
		if g.chance(0.2) {
			in.Bits = uint8(g.pick(16))
		}
		in.Shard = uint32(g.pick(3))
		if g.chance(0.1) {
			in.PenSec = uint16(1 + g.pick(100))
		}
		if g.chance(0.1) {
			in.UndelEpoch = uint16(1 + g.pick(3))
		}
		if g.chance(0.15) {
			in.DelEpoch = cs.G.Epoch
		}
		if in.State == stNewbie || in.State == stVerified || in.State == stHuman {
			r := g.R(id)
			r.Validated = g.chance(0.9)
			r.Online = g.chance(0.5)
			r.Discriminated = g.chance(0.15)
		} else if g.chance(0.05) {
			g.R(id).Validated = true
		}
	}
	// a few consistent inviter links and delegations, and a few dangling ones
	for k := 0; k < g.pick(4); k++ {
		a, b := g.key(), g.key()
		if a != b {
			g.link(a, b)
		}
	}
	if g.chance(0.2) {
		g.I(g.key()).Inviter = ip(g.anyID())
	}
	for k := 0; k < g.pick(3); k++ {
		a, b := g.key(), g.key()
		if a != b && g.I(b).Delegatee == nil {
			g.delegate(a, b, g.chance(0.8))
			if g.chance(0.2) {
				g.I(a).Pending = true
			}
		}
	}
	// key-less addresses: 9 embedded contract, 10 foreign (wasm) contract, 11 plain account, 12 untouched
	c9 := g.A(NKeys + 1)
	c9.Bal, c9.CStake, c9.Embedded = g.bal(), dna(int64(g.pick(10))), true
	c10 := g.A(NKeys + 2)
	c10.Bal, c10.CStake, c10.Embedded = g.bal(), bi(0), false
	g.A(NKeys + 3).Bal = g.bal()
	if g.chance(0.3) {
		in := g.I(NKeys + 3)
		in.State = []uint8{stInvite, stCandidate, stVerified, stKilled}[g.pick(4)]
		in.Stake = g.bal()
	}
	if g.chance(0.15) { // coins "burnt" by transfers to the zero address sit in its account
		g.A(0).Bal = g.bal()
		g.A(0).Epoch = cs.G.Epoch
	}
	for k := 0; k < g.pick(3); k++ {
		cs.G.Status = append(cs.G.Status, g.key())
	}
	for k := 0; k < g.pick(2); k++ {
		cs.G.Delayed = append(cs.G.Delayed, g.key())
	}
	for k := 0; k < g.pick(2); k++ {
		cs.G.DelegSwitch = append(cs.G.DelegSwitch, [2]int{g.key(), []int{0, g.key()}[g.pick(2)]})
	}
	n := g.estN()
	switch g.pick(10) {
	case 0:
		cs.G.Fpg = nil
	case 1:
		cs.G.Fpg = bi(0)
	case 2:
		cs.G.Fpg = bi(10)
	case 3, 4:
		cs.G.Fpg = new(big.Int).Mul(fee.GetFeePerGasForNetwork(n), bi(int64(2+g.pick(3))))
	default:
		cs.G.Fpg = fee.GetFeePerGasForNetwork(n)
	}
}

func (g *gen) curNonce(id int) uint32 {
	a := g.A(id)
	if a.Epoch < g.cs.G.Epoch {
		return 0
	}
	return a.Nonce
}

func estGas(t uint16) int64 {
	switch t {
	case types.DeleteFlipTx:
		return 1240000
	case types.StoreToIpfsTx:
		return 12000
	case types.SubmitLongAnswersTx, types.DeployContractTx:
		return 6000
	}
	return 3000
}

// tx with consistent nonce/epoch/maxFee for sender key k
func (g *gen) mkTx(t uint16, k int, to *int, amount *big.Int, payload []byte) *TxD {
	fpg := bz(g.cs.G.Fpg)
	maxFee := new(big.Int).Mul(fpg, bi(estGas(t)*2))
	if t == types.DeleteFlipTx {
		maxFee = new(big.Int).Mul(fpg, bi(estGas(t)*11/10))
	}
	if g.chance(0.1) {
		maxFee = new(big.Int).Add(maxFee, dna(1))
	}
	tx := &TxD{Type: t, Key: k, To: to, Amount: amount, MaxFee: maxFee, Nonce: g.curNonce(k) + 1, Epoch: g.cs.G.Epoch}
	if g.chance(0.25) {
		tx.Tips = bi(int64(g.pick(100000)))
	}
	if payload != nil {
		tx.Payload = hex.EncodeToString(payload)
	}
	// funds
	need := new(big.Int).Add(bz(amount), new(big.Int).Add(bz(tx.Tips), maxFee))
	if g.A(k).Bal.Cmp(need) < 0 {
		g.A(k).Bal = new(big.Int).Add(need, bi(int64(g.pick(3)))) // sometimes exactly enough
	}
	return tx
}

func (g *gen) setValidated(id int, st uint8) {
	g.I(id).State = st
	g.R(id).Validated = true
}

func (g *gen) other(not ...int) int {
	for {
		k := g.key()
		ok := true
		for _, n := range not {
			if k == n {
				ok = false
			}
		}
		if ok {
			return k
		}
	}
}

func (g *gen) clearDelegation(id int) {
	g.I(id).Delegatee, g.I(id).Pending = nil, false
	if r, ok := g.reg[id]; ok {
		r.Delegatee = nil
	}
	var ds [][2]int
	for _, p := range g.cs.G.DelegSwitch {
		if p[0] != id {
			ds = append(ds, p)
		}
	}
	g.cs.G.DelegSwitch = ds
}

func (g *gen) notPool(id int) {
	for _, r := range g.reg {
		if r.Delegatee != nil && *r.Delegatee == id {
			r.Delegatee = nil
		}
	}
}

// scenario returns the main transaction of type t, patching the state so that it is (mostly) valid
func (g *gen) scenario(t uint16) *TxD {
	cs := g.cs
	quiet := func() { cs.G.Period = 0 }
	k := g.key()
	switch t {
	case types.SendTx:
		return g.mkTx(t, k, ip(g.anyID()), g.amount(), nil)
	case types.ActivationTx:
		quiet()
		r := g.other(k)
		g.I(k).State = stInvite
		*g.I(r) = Ident{ID: r, Stake: bi(0), Locked: bi(0), Repl: bi(0)}
		if rr, ok := g.reg[r]; ok {
			rr.Validated = false
		}
		if g.chance(0.2) {
			r = k // self-activation of an invite
		}
		switch g.pick(4) {
		case 0:
			g.I(k).Inviter = nil
		case 1:
			inv := g.other(k, r)
			g.setValidated(inv, stVerified)
			g.link(inv, k)
		case 2:
			if cs.G.God >= 1 && cs.G.God != k {
				g.link(cs.G.God, k)
			}
		}
		if g.chance(0.3) {
			g.I(k).Stake = g.bal() // replenished invite: burnt with the temporary identity
		}
		return g.mkTx(t, k, ip(r), nil, crypto.FromECDSAPub(&keys[r-1].PublicKey))
	case types.InviteTx:
		quiet()
		if g.chance(0.3) && cs.G.God >= 1 && cs.G.God <= NKeys {
			k = cs.G.God
			if cs.G.GodInvites == 0 {
				cs.G.GodInvites = 3
			}
		} else {
			g.setValidated(k, stVerified)
			if g.I(k).Invites == 0 {
				g.I(k).Invites = 1
			}
		}
		r := []int{g.other(k), NIds}[g.pick(2)]
		delete(g.idn, r)
		return g.mkTx(t, k, ip(r), g.amount(), nil)
	case types.KillTx:
		quiet()
		g.I(k).State = []uint8{stVerified, stSuspended, stZombie, stHuman}[g.pick(4)]
		if g.chance(0.7) {
			g.I(k).Stake = dna(int64(1 + g.pick(50)))
			g.I(k).Locked, g.I(k).Repl = bi(0), bi(0)
			if g.chance(0.5) {
				g.I(k).Locked = new(big.Int).Div(g.I(k).Stake, bi(int64(1+g.pick(3))))
			}
			if g.chance(0.5) {
				g.I(k).Repl = new(big.Int).Div(g.I(k).Stake, bi(int64(1+g.pick(3))))
			}
		}
		if g.chance(0.5) {
			g.link(k, g.other(k))
		}
		if g.chance(0.5) {
			g.link(g.other(k), k)
		}
		return g.mkTx(t, k, nil, nil, nil)
	case types.KillInviteeTx:
		quiet()
		r := g.other(k)
		if cs.G.God == r {
			cs.G.God = k
		}
		g.I(k).State = []uint8{stVerified, stHuman, stNewbie, stSuspended}[g.pick(4)]
		g.I(r).State = []uint8{stInvite, stCandidate}[g.pick(2)]
		g.link(k, r)
		if g.chance(0.6) {
			g.I(r).Stake = dna(int64(1 + g.pick(50)))
			g.I(r).Repl = new(big.Int).Set(g.I(r).Stake)
		}
		if g.chance(0.3) {
			g.link(r, g.other(k, r))
		}
		return g.mkTx(t, k, ip(r), nil, nil)
	case types.KillDelegatorTx:
		quiet()
		r := g.other(k)
		g.delegate(r, k, g.chance(0.8))
		if g.chance(0.7) {
			g.I(r).Stake = dna(int64(1 + g.pick(50)))
			g.I(r).Locked, g.I(r).Repl = bi(0), bi(0)
			if g.chance(0.5) {
				g.I(r).Locked = new(big.Int).Div(g.I(r).Stake, bi(int64(1+g.pick(3))))
			}
		}
		if g.chance(0.4) {
			g.link(g.other(r), r)
		}
		return g.mkTx(t, k, ip(r), nil, nil)
	case types.DelegateTx:
		quiet()
		r := g.other(k)
		g.clearDelegation(k)
		g.clearDelegation(r)
		g.notPool(k)
		g.I(k).PenSec = 0
		switch g.pick(5) {
		case 0: // re-delegate after a pending undelegate switch
			g.delegate(k, r, true)
			cs.G.DelegSwitch = append(cs.G.DelegSwitch, [2]int{k, 0})
		case 1: // pending undelegation towards the same pool (pre-upgrade-10 rule)
			g.I(k).Delegatee, g.I(k).Pending = ip(r), true
		}
		return g.mkTx(t, k, ip(r), nil, nil)
	case types.UndelegateTx:
		quiet()
		r := g.other(k)
		g.clearDelegation(k)
		if g.chance(0.7) {
			g.delegate(k, r, true)
		} else {
			cs.G.DelegSwitch = append(cs.G.DelegSwitch, [2]int{k, r})
		}
		g.I(k).DelEpoch = cs.G.Epoch + 1
		if cs.G.Epoch > 0 && g.chance(0.5) {
			g.I(k).DelEpoch = cs.G.Epoch - 1
		}
		return g.mkTx(t, k, nil, nil, nil)
	case types.ReplenishStakeTx:
		quiet()
		r := g.anyID()
		if g.I(r).State == stUndefined || g.I(r).State == stKilled {
			g.I(r).State = []uint8{stInvite, stCandidate, stNewbie, stVerified, stSuspended}[g.pick(5)]
		}
		if g.chance(0.4) && cs.G.Thr != nil && r <= NKeys { // lift a discriminated identity over the threshold
			g.I(r).State = []uint8{stNewbie, stVerified}[g.pick(2)]
			g.I(r).Stake = new(big.Int).Sub(cs.G.Thr, dna(1))
			g.R(r).Validated, g.R(r).Discriminated = true, true
			if g.chance(0.7) {
				g.I(r).UndelEpoch = 0
			}
			return g.mkTx(t, k, ip(r), dna(int64(g.pick(3))), nil)
		}
		return g.mkTx(t, k, ip(r), g.amount(), nil)
	case types.BurnTx:
		return g.mkTx(t, k, nil, g.amount(), attachments.CreateBurnAttachment([]string{"k", "key-2"}[g.pick(2)]))
	case types.OnlineStatusTx:
		quiet()
		g.setValidated(k, []uint8{stVerified, stNewbie, stHuman}[g.pick(3)])
		g.clearDelegation(k)
		online := !g.R(k).Online
		pending := false
		for _, a := range toggleList(cs.G.Status) {
			if a == k {
				pending = true
			}
		}
		if pending {
			online = !online
		}
		return g.mkTx(t, k, nil, nil, attachments.CreateOnlineStatusAttachment(online))
	case types.SubmitFlipTx:
		quiet()
		if g.I(k).State < stCandidate {
			g.I(k).State = []uint8{stCandidate, stVerified, stHuman, stNewbie}[g.pick(4)]
		}
		in := g.I(k)
		if in.Req == 0 {
			in.Req = 3
		}
		if len(in.Flips) >= int(in.Req) {
			in.Flips = in.Flips[:int(in.Req)-1]
		}
		pair := uint8(len(in.Flips) + 3)
		return g.mkTx(t, k, nil, nil, attachments.CreateFlipSubmitAttachment(g.validCid(1000+g.pick(50)), pair))
	case types.SubmitAnswersHashTx, types.SubmitShortAnswersTx, types.SubmitLongAnswersTx, types.EvidenceTx:
		switch t {
		case types.SubmitAnswersHashTx:
			cs.G.Period = uint32(2 + g.pick(3))
		case types.SubmitShortAnswersTx, types.EvidenceTx:
			cs.G.Period = uint32(3 + g.pick(2))
		default:
			cs.G.Period = uint32(2 + g.pick(3))
		}
		in := g.I(k)
		in.State = []uint8{stCandidate, stVerified, stHuman, stNewbie, stSuspended, stZombie}[g.pick(6)]
		if len(in.Flips) < int(in.Req) {
			in.Req = uint8(len(in.Flips))
		}
		in.Bits = 0
		var payload []byte
		switch t {
		case types.SubmitAnswersHashTx:
			payload = make([]byte, 32)
			payload[3] = byte(g.pick(256))
		case types.SubmitShortAnswersTx:
			payload = attachments.CreateShortAnswerAttachment([]byte{1, 2, 3}, uint64(g.pick(1000)), 1)
		case types.SubmitLongAnswersTx:
			var proof []byte
			if g.chance(0.8) {
				signer, _ := p256.NewVRFSigner(keys[k-1])
				seed := types.Seed{} // the fixture leaves the words seed at its zero value
				_, proof = signer.Evaluate(seed[:])
			} else {
				proof = []byte{1, 2, 3}
			}
			a := &attachments.LongAnswerAttachment{Answers: []byte{1, 2}, Proof: proof, Key: []byte{9}, Salt: []byte{7, 7}}
			payload, _ = a.ToBytes()
		case types.EvidenceTx:
			if in.State == stCandidate {
				in.State = stVerified
			}
			g.clearDelegation(k)
			in.UndelEpoch = 0
			if cs.G.Thr != nil && in.Stake.Cmp(cs.G.Thr) < 0 {
				in.Stake = new(big.Int).Add(cs.G.Thr, bi(5))
			}
			if in.State == stNewbie && cs.G.Epoch > 2 {
				in.State = stHuman
			}
			payload = []byte{1, 2, 3, 4}
		}
		return g.mkTx(t, k, nil, nil, payload)
	case types.ChangeGodAddressTx:
		quiet()
		if cs.G.God < 1 || cs.G.God > NKeys {
			cs.G.God = k
		}
		return g.mkTx(t, cs.G.God, ip(g.anyID()), nil, nil)
	case types.ChangeProfileTx:
		return g.mkTx(t, k, nil, nil, attachments.CreateChangeProfileAttachment([]byte{1, byte(g.pick(4))}))
	case types.DeleteFlipTx:
		quiet()
		in := g.I(k)
		if len(in.Flips) == 0 {
			in.Flips = append(in.Flips, FlipD{Cid: hex.EncodeToString(g.validCid(7)), Pair: 1})
		}
		return g.mkTx(t, k, nil, nil, attachments.CreateDeleteFlipAttachment(unhex(in.Flips[g.pick(len(in.Flips))].Cid)))
	case types.StoreToIpfsTx:
		return g.mkTx(t, k, nil, nil, attachments.CreateStoreToIpfsAttachment(g.validCid(2000+g.pick(9)), uint32(g.pick(3)*1000)))
	case types.DeployContractTx:
		var payload []byte
		wasm := g.chance(0.3)
		if wasm {
			payload, _ = attachments.CreateDeployContractAttachment(common.Hash{}, []byte{0, 0x61, 0x73, 0x6d}, []byte{1}).ToBytes()
		} else {
			payload, _ = attachments.CreateDeployContractAttachment(common.Hash(embedded.TimeLockContract), nil, nil, []byte{1}).ToBytes()
		}
		amt := new(big.Int).Mul(bz(cs.G.Fpg), bi(3000000))
		if g.chance(0.3) {
			amt = new(big.Int).Add(amt, dna(1))
		}
		tx := g.mkTx(t, k, nil, amt, payload)
		tx.VM = &VMRes{IsWasm: wasm, CAddr: NIds, Success: g.chance(0.7), GasUsed: uint64(g.pick(2000))}
		return tx
	case types.CallContractTx, types.TerminateContractTx:
		to := NKeys + 1
		if t == types.CallContractTx && g.chance(0.4) {
			to = NKeys + 2
		}
		var payload []byte
		var amt *big.Int
		if t == types.CallContractTx {
			payload, _ = attachments.CreateCallContractAttachment("transfer", []byte{1}).ToBytes()
			if g.chance(0.5) {
				amt = g.amount()
			}
		} else {
			payload, _ = attachments.CreateTerminateContractAttachment([]byte{1}).ToBytes()
		}
		tx := g.mkTx(t, k, ip(to), amt, payload)
		vm := &VMRes{IsWasm: !g.A(to).Embedded && t == types.CallContractTx, CAddr: to, Success: g.chance(0.7), GasUsed: uint64(g.pick(3000))}
		if vm.Success && g.chance(0.6) { // the contract pays out of its own balance
			avail := new(big.Int).Add(g.A(to).Bal, bz(amt))
			if avail.Sign() > 0 {
				x := new(big.Int).Div(avail, bi(int64(1+g.pick(3))))
				vm.Deltas = []Delta{{to, new(big.Int).Neg(x)}, {g.anyID(), x}}
			}
		}
		tx.VM = vm
		return tx
	}
	// unknown type code
	return g.mkTx(uint16(0x17+g.pick(3)), k, nil, nil, nil)
}

func (g *gen) amount() *big.Int {
	switch g.pick(6) {
	case 0:
		return nil
	case 1:
		return bi(0)
	case 2:
		return bi(int64(1 + g.pick(1000)))
	default:
		return new(big.Int).Add(dna(int64(g.pick(30))), bi(int64(g.pick(1000))))
	}
}

// perturbState: one adversarial change of the state around tx
func (g *gen) perturbState(tx *TxD) string {
	cs := g.cs
	k := tx.Key
	if k < 1 {
		k = g.key()
	}
	switch g.pick(16) {
	case 0:
		cs.G.Period = uint32(g.pick(5))
		return "period"
	case 1:
		g.I(k).State = uint8(g.pick(9))
		return "senderState"
	case 2:
		if tx.To != nil && *tx.To >= 1 {
			g.I(*tx.To).State = uint8(g.pick(9))
			return "toState"
		}
	case 3:
		g.A(k).Bal = []*big.Int{bi(0), bi(1), bz(tx.Amount), new(big.Int).Add(bz(tx.Amount), bz(tx.Tips))}[g.pick(4)]
		return "balance"
	case 4:
		switch g.pick(3) {
		case 0:
			cs.U10 = !cs.U10
		case 1:
			cs.U11 = !cs.U11
		default:
			cs.U12 = !cs.U12
		}
		return "flag"
	case 5:
		if tx.To != nil && *tx.To >= 1 {
			switch g.pick(3) {
			case 0:
				g.I(*tx.To).Inviter = nil
			case 1:
				g.I(*tx.To).Inviter = ip(g.other(k))
			default:
				g.I(*tx.To).Inviter = ip(k)
			}
			return "toInviter"
		}
	case 6:
		if tx.To != nil && *tx.To >= 1 {
			switch g.pick(4) {
			case 0:
				g.clearDelegation(*tx.To)
			case 1:
				g.delegate(*tx.To, g.other(k), true)
			case 2:
				g.I(*tx.To).Pending = true
			default:
				g.delegate(*tx.To, k, true)
			}
			return "toDelegatee"
		}
	case 7:
		switch g.pick(4) {
		case 0:
			g.clearDelegation(k)
		case 1:
			g.delegate(k, g.other(k), true)
		case 2:
			g.I(k).Pending = true
		default:
			cs.G.DelegSwitch = append(cs.G.DelegSwitch, [2]int{k, []int{0, g.other(k)}[g.pick(2)]})
		}
		return "senderDelegation"
	case 8:
		g.I(k).Invites = 0
		cs.G.GodInvites = 0
		return "noInvites"
	case 9:
		cs.G.God = []int{k, g.other(k), 0, NKeys + 1}[g.pick(4)]
		if tx.To != nil && g.chance(0.5) {
			cs.G.God = *tx.To
		}
		return "god"
	case 10:
		g.I(k).PenSec = uint16(g.pick(3))
		g.I(k).DelEpoch = cs.G.Epoch
		return "penaltyOrDelegationEpoch"
	case 11:
		in := g.I(k)
		switch g.pick(4) {
		case 0:
			in.Flips = nil
		case 1:
			for len(in.Flips) < int(in.Req)+3 {
				in.Flips = append(in.Flips, FlipD{Cid: hex.EncodeToString(g.validCid(k*16 + len(in.Flips))), Pair: uint8(len(in.Flips))})
			}
		case 2:
			in.Req = uint8(g.pick(8))
		default:
			in.Bits = uint8(g.pick(16))
		}
		return "flipsOrBits"
	case 12:
		r := g.R(k)
		r.Validated, r.Online, r.Discriminated = g.chance(0.5), g.chance(0.5), g.chance(0.5)
		if g.chance(0.3) {
			g.R(g.other(k)).Delegatee = ip(k) // makes the sender a pool
		}
		return "senderRegistry"
	case 13:
		cs.G.Status = append(cs.G.Status, k)
		if g.chance(0.5) {
			cs.G.Delayed = append(cs.G.Delayed, k)
		}
		return "pendingSwitch"
	case 14:
		cs.Dummies = []int{0, 1, 11, 12}[g.pick(4)]
		if g.chance(0.3) {
			for _, r := range g.reg {
				r.Validated = false
			}
		}
		return "networkSize"
	case 15:
		cs.G.Fpg = []*big.Int{nil, bi(0), bi(1), dna(1)}[g.pick(4)]
		return "feePerGas"
	}
	// nothing applicable drawn: a perturbation aimed at the type
	switch tx.Type {
	case types.SubmitAnswersHashTx, types.SubmitShortAnswersTx, types.SubmitLongAnswersTx, types.EvidenceTx:
		switch g.pick(3) {
		case 0:
			g.I(k).Bits = 15
			return "bitSet"
		case 1:
			cs.G.Period = uint32(g.pick(3))
			return "earlyPeriod"
		default:
			g.I(k).Req = uint8(len(g.I(k).Flips) + 1)
			return "flipsMissing"
		}
	case types.SubmitFlipTx:
		in := g.I(k)
		for len(in.Flips) < int(in.Req)+2 {
			in.Flips = append(in.Flips, FlipD{Cid: hex.EncodeToString(g.validCid(k*16 + len(in.Flips))), Pair: uint8(len(in.Flips))})
		}
		return "flipsFull"
	case types.OnlineStatusTx:
		g.R(k).Validated = false
		return "notValidated"
	}
	return ""
}

// costs of tx for its signer: amount+tips+fee (in-block, non-contract), amount+tips+maxFee (mempool / contract),
// amount+tips+fee+gas cost (what a contract transaction is charged when the VM uses its gas)
func (g *gen) costs(tx *TxD) []*big.Int {
	n := g.estN()
	fpg := bz(g.cs.G.Fpg)
	f := fee.CalculateFee(n, fpg, buildTx(tx))
	base := new(big.Int).Add(bz(tx.Amount), bz(tx.Tips))
	res := []*big.Int{new(big.Int).Add(base, f), new(big.Int).Add(base, bz(tx.MaxFee))}
	if tx.VM != nil {
		gas := new(big.Int).Mul(fpg, new(big.Int).SetUint64(tx.VM.GasUsed))
		res = append(res, new(big.Int).Add(res[0], gas), new(big.Int).Add(f, gas), new(big.Int).Add(new(big.Int).Add(f, gas), bz(tx.Tips)))
	}
	return res
}

// boundaryFunds puts the signer's balance at cost−1 / cost / cost+1 for one of the cost notions
func (g *gen) boundaryFunds(tx *TxD) string {
	cs := g.costs(tx)
	c := cs[g.pick(len(cs))]
	b := new(big.Int).Add(c, bi(int64(g.pick(3)-1)))
	if b.Sign() < 0 {
		b = bi(0)
	}
	g.A(tx.Key).Bal = b
	return "boundaryFunds"
}

// perturbTx: one adversarial change of the transaction itself
func (g *gen) perturbTx(tx *TxD) string {
	switch g.pick(12) {
	case 0:
		tx.Amount = []*big.Int{nil, bi(0), bi(1), dna(1000000), bi(-1)}[g.pick(5)]
		return "amount"
	case 1:
		tx.To = []*int{nil, ip(0), ip(tx.Key), ip(g.cs.G.God), ip(g.anyID()), ip(NKeys + 1)}[g.pick(6)]
		return "to"
	case 2:
		tx.Nonce = []uint32{tx.Nonce - 1, tx.Nonce + 1, 0, tx.Nonce + 100}[g.pick(4)]
		return "nonce"
	case 3:
		if g.chance(0.5) || tx.Epoch == 0 {
			tx.Epoch++
		} else {
			tx.Epoch--
		}
		return "epoch"
	case 4:
		tx.MaxFee = []*big.Int{nil, bi(0), bi(1), new(big.Int).Div(bz(tx.MaxFee), bi(3)), new(big.Int).Mul(dna(1), dna(1)), bi(-5),
			new(big.Int).Mul(bz(g.cs.G.Fpg), bi(6000000))}[g.pick(7)]
		return "maxFee"
	case 5:
		if g.chance(0.5) {
			// the current fee rate is above the network minimum and maxFee only covers the minimum: BigFee in a block
			n := g.estN()
			if n == 0 {
				g.cs.Dummies = 2
				n = 2
			}
			min := fee.GetFeePerGasForNetwork(n)
			g.cs.G.Fpg = new(big.Int).Mul(min, bi(3))
			gas := int64(fee.CalculateGas(buildTx(tx)))
			tx.MaxFee = new(big.Int).Mul(min, bi(2*gas+40))
			return "bigFee"
		}
		tx.Tips = []*big.Int{bi(1), dna(100000), bi(-1)}[g.pick(3)]
		return "tips"
	case 6:
		switch g.pick(5) {
		case 0:
			tx.Payload = ""
		case 1:
			tx.Payload = "0102030405"
		case 2:
			tx.Payload = hex.EncodeToString(attachments.CreateOnlineStatusAttachment(true))
		case 3:
			tx.Payload = hex.EncodeToString(make([]byte, 3*1024+1))
			if g.chance(0.5) {
				g.cs.U11 = false
			}
		default:
			tx.Payload = hex.EncodeToString(attachments.CreateFlipSubmitAttachment([]byte{1, 2, 3}, uint8(g.pick(30))))
		}
		return "payload"
	case 7:
		switch g.pick(5) {
		case 0:
			tx.Key = 0
			return "unsigned"
		case 1:
			tx.Key = g.key()
			return "signer"
		case 2, 3:
			// signature bytes present but unrecoverable; the zero address (what Sender answers then) holds coins and the
			// transaction carries the zero account's next nonce, so that only the signature test stands in the way
			tx.BadSig = []string{"recid9", "zero65", "short10", "rzero", "shigh", "len66"}[g.pick(6)]
			z := g.A(0)
			z.Epoch = g.cs.G.Epoch
			z.Nonce = []uint32{0, 3}[g.pick(2)]
			tx.Nonce, tx.Epoch = z.Nonce+1, g.cs.G.Epoch
			need := new(big.Int).Add(bz(tx.Amount), new(big.Int).Add(bz(tx.Tips), bz(tx.MaxFee)))
			if need.Sign() < 0 {
				need = bi(0)
			}
			z.Bal = new(big.Int).Add(need, dna(int64(g.pick(3))))
			return "badSig:" + tx.BadSig
		default:
			// re-signed object: first signed by A (sender looked up), then the object is signed again by the payer B;
			// A is as able to pay as B, so a node that charged A would not stumble over nonce or funds
			if tx.Key >= 1 {
				a := g.other(tx.Key)
				tx.PreKey = a
				g.A(a).Nonce, g.A(a).Epoch = g.A(tx.Key).Nonce, g.A(tx.Key).Epoch
				if g.A(a).Bal.Cmp(g.A(tx.Key).Bal) < 0 {
					g.A(a).Bal = new(big.Int).Set(g.A(tx.Key).Bal)
				}
				g.I(a).State, g.I(a).Invites = g.I(tx.Key).State, g.I(tx.Key).Invites
				return "resigned"
			}
		}
	case 8:
		if tx.Type == types.SubmitFlipTx || tx.Type == types.DeleteFlipTx {
			in := g.I(g.key())
			if tx.Key >= 1 {
				in = g.I(tx.Key)
			}
			if len(in.Flips) > 0 {
				fl := in.Flips[g.pick(len(in.Flips))]
				if tx.Type == types.SubmitFlipTx {
					if g.chance(0.5) {
						free := uint8(3*int(in.Req) - 1) // a pair index inside the allowed range, unused by the existing flips
						tx.Payload = hex.EncodeToString(attachments.CreateFlipSubmitAttachment(unhex(fl.Cid), free))
					} else {
						tx.Payload = hex.EncodeToString(attachments.CreateFlipSubmitAttachment(g.validCid(4000), fl.Pair))
					}
				} else {
					tx.Payload = hex.EncodeToString(attachments.CreateDeleteFlipAttachment(g.validCid(4001)))
				}
				return "flipDup"
			}
		}
	case 9:
		if tx.VM != nil {
			tx.VM.Success = !tx.VM.Success
			tx.VM.IsWasm = g.chance(0.5)
			return "vm"
		}
	case 10:
		if tx.Type == types.BurnTx {
			tx.Payload = hex.EncodeToString(attachments.CreateBurnAttachment(""))
			return "burnKey"
		}
		if tx.Type == types.OnlineStatusTx {
			tx.Payload = hex.EncodeToString(attachments.CreateOnlineStatusAttachment(g.chance(0.5)))
			return "onlineFlag"
		}
		if tx.Type == types.StoreToIpfsTx {
			tx.Payload = hex.EncodeToString(attachments.CreateStoreToIpfsAttachment([]byte{1, 2, 3}, 5))
			return "badCid"
		}
		if tx.Type == types.DeployContractTx {
			p, _ := attachments.CreateDeployContractAttachment(common.Hash{0x42}, nil, nil).ToBytes()
			tx.Payload = hex.EncodeToString(p)
			return "deployUnknownHash"
		}
	case 11:
		tx.Type = uint16(g.pick(0x17))
		return "type"
	}
	return ""
}

func (g *gen) flatten() {
	cs := g.cs
	cs.Accts, cs.Idents, cs.Regs = nil, nil, nil
	var ids []int
	for id := range g.acct {
		ids = append(ids, id)
	}
	sort.Ints(ids)
	for _, id := range ids {
		cs.Accts = append(cs.Accts, *g.acct[id])
	}
	ids = nil
	for id := range g.idn {
		ids = append(ids, id)
	}
	sort.Ints(ids)
	for _, id := range ids {
		in := g.idn[id]
		if bz(in.Locked).Cmp(bz(in.Stake)) > 0 { // block-boundary states keep the locked part within the stake
			in.Locked = new(big.Int).Set(bz(in.Stake))
		}
		cs.Idents = append(cs.Idents, *in)
	}
	ids = nil
	for id := range g.reg {
		ids = append(ids, id)
	}
	sort.Ints(ids)
	for _, id := range ids {
		cs.Regs = append(cs.Regs, *g.reg[id])
	}
}

// GenCase builds one case around a main transaction of type t (0..0x16; 0x17 = unknown code).
// NScenarios: transaction types 0..0x16, an unknown type code, and the multi-step sequences
const NScenarios = 26

// sequenceCase: multi-step histories inside one block state.
//   24: an inviter with 3–5 outstanding invitees (Invite / Candidate, with stake) is terminated (own KillTx, or its pool's
//       KillDelegatorTx), then signs a KillInviteeTx against one of its former invitees — must be refused;
//   25: D's DelegateTx to P is applied (a pending delegation switch, not yet a delegation), then P signs a KillDelegatorTx
//       against D — must be refused; variant: the pending switch is already in the state.
func (g *gen) sequenceCase(t uint16) *Case {
	cs := g.cs
	cs.G.Period = 0
	step := func(i int) {
		cs.Ops = append(cs.Ops, Op{Kind: "val", Mode: 1, MinFpg: "net", Tx: i}, Op{Kind: "val", Mode: 2 + g.pick(2), MinFpg: "net", Tx: i},
			Op{Kind: "apply", Tx: i})
	}
	if t == 24 {
		if g.chance(0.8) {
			cs.U12 = true
		}
		k := g.key()
		if cs.G.God == k {
			cs.G.God = g.other(k)
		}
		g.setValidated(k, []uint8{stVerified, stHuman, stSuspended, stZombie}[g.pick(4)])
		g.clearDelegation(k)
		g.I(k).Invitees, g.I(k).Inviter = nil, nil
		var inv []int
		for _, o := range g.r.Perm(NKeys) {
			id := o + 1
			if id != k && id != cs.G.God && len(inv) < 3+g.pick(3) {
				inv = append(inv, id)
			}
		}
		for _, id := range inv {
			for _, in := range g.idn { // one inviter link per invitee
				var keep []int
				for _, x := range in.Invitees {
					if x != id {
						keep = append(keep, x)
					}
				}
				in.Invitees = keep
			}
			in := g.I(id)
			in.State = []uint8{stInvite, stCandidate}[g.pick(2)]
			in.Stake = dna(int64(1 + g.pick(50)))
			in.Repl, in.Locked = new(big.Int).Set(in.Stake), bi(0)
			g.clearDelegation(id)
			g.link(k, id)
		}
		var tx0 *TxD
		note := "seq:kill-then-killInvitee"
		if g.chance(0.3) { // the inviter is terminated by its pool
			p := g.other(append([]int{k}, inv...)...)
			g.delegate(k, p, true)
			tx0 = g.mkTx(types.KillDelegatorTx, p, ip(k), nil, nil)
			note = "seq:killDelegator-then-killInvitee"
		} else {
			tx0 = g.mkTx(types.KillTx, k, nil, nil, nil)
		}
		target := inv[g.pick(len(inv))]
		tx1 := g.mkTx(types.KillInviteeTx, k, ip(target), nil, nil)
		if tx0.Key == k {
			tx1.Nonce = tx0.Nonce + 1
		}
		cs.Txs = append(cs.Txs, *tx0, *tx1)
		step(0)
		step(1)
		cs.Note = note
	} else {
		d := g.key()
		p := g.other(d)
		g.setValidated(d, []uint8{stVerified, stHuman, stNewbie}[g.pick(3)])
		g.I(d).Stake = dna(int64(1 + g.pick(50)))
		g.I(d).Locked, g.I(d).Repl = bi(0), bi(0)
		g.clearDelegation(d)
		g.clearDelegation(p)
		g.notPool(d)
		g.I(d).PenSec = 0
		g.I(p).State = []uint8{stVerified, stHuman, stUndefined}[g.pick(3)]
		if g.chance(0.6) {
			tx0 := g.mkTx(types.DelegateTx, d, ip(p), nil, nil)
			tx1 := g.mkTx(types.KillDelegatorTx, p, ip(d), nil, nil)
			cs.Txs = append(cs.Txs, *tx0, *tx1)
			step(0)
			step(1)
			cs.Note = "seq:delegate-then-killDelegator"
		} else {
			cs.G.DelegSwitch = append(cs.G.DelegSwitch, [2]int{d, p})
			tx0 := g.mkTx(types.KillDelegatorTx, p, ip(d), nil, nil)
			cs.Txs = append(cs.Txs, *tx0)
			step(0)
			cs.Note = "seq:pending-switch-killDelegator"
		}
	}
	g.flatten()
	return cs
}

func GenCase(r *rand.Rand, t uint16) *Case {
	g := &gen{r: r, cs: &Case{}, acct: map[int]*Acct{}, idn: map[int]*Ident{}, reg: map[int]*Reg{}}
	g.base()
	if t >= 24 {
		return g.sequenceCase(t)
	}
	tx := g.scenario(t)
	note := TypeName(t)
	nState := []int{0, 0, 1, 1, 2}[g.pick(5)]
	for i := 0; i < nState; i++ {
		note += "+" + g.perturbState(tx)
	}
	// nonce/epoch are recomputed after state perturbations so that the tx stays "next" unless perturbed below
	if tx.Key >= 1 {
		tx.Nonce, tx.Epoch = g.curNonce(tx.Key)+1, g.cs.G.Epoch
	}
	nTx := []int{0, 0, 1, 1, 2}[g.pick(5)]
	for i := 0; i < nTx; i++ {
		note += "+" + g.perturbTx(tx)
	}
	if tx.VM != nil && (tx.Type == types.CallContractTx || tx.Type == types.TerminateContractTx) {
		// the fake VM stays realistic after perturbations: only the called contract pays out
		if tx.To == nil {
			tx.VM.Deltas = nil
		} else {
			tx.VM.CAddr = *tx.To
			for i := range tx.VM.Deltas {
				if tx.VM.Deltas[i].D.Sign() < 0 {
					tx.VM.Deltas[i].ID = *tx.To
				}
			}
		}
	}
	if tx.Key >= 1 && g.chance(0.22) {
		note += "+" + g.boundaryFunds(tx)
	}
	if g.chance(0.04) {
		g.cs.HeadDummies = []int{0, 1, 3}[g.pick(3)] // F9: the head's network size differs from the checked state's
		note += "+head"
	}
	cs := g.cs
	cs.Txs = append(cs.Txs, *tx)
	minFpg := []string{"net", "net", "net", "net", "nil", "1", "100000000000000000000"}[g.pick(7)]
	cs.Ops = append(cs.Ops, Op{Kind: "val", Mode: 2 + g.pick(2), MinFpg: minFpg, Tx: 0})
	cs.Ops = append(cs.Ops, Op{Kind: "val", Mode: 1, MinFpg: "net", Tx: 0})
	cs.Ops = append(cs.Ops, Op{Kind: "apply", Tx: 0, Raw: g.chance(0.12)}) // skipped by the runner when the in-block validation failed, unless raw
	cs.Ops = append(cs.Ops, Op{Kind: "val", Mode: 1 + g.pick(3), MinFpg: "net", Tx: 0})
	cs.Ops = append(cs.Ops, Op{Kind: "apply", Tx: 0}) // replay
	// a follow-up transaction on the state the first one left (same block)
	var tx2 *TxD
	k2 := g.key()
	switch g.pick(6) {
	case 0:
		tx2 = g.mkTx(types.SendTx, k2, ip(g.anyID()), g.amount(), nil)
	case 1:
		tgt := g.anyID()
		if tx.To != nil {
			tgt = *tx.To
		}
		tx2 = g.mkTx(types.ReplenishStakeTx, k2, ip(tgt), g.amount(), nil)
	case 2:
		if tx.To != nil && *tx.To >= 1 && *tx.To <= NKeys {
			k2 = *tx.To // the recipient acts next (e.g. a freshly activated / killed identity)
		}
		tx2 = g.mkTx([]uint16{types.SendTx, types.KillTx, types.InviteTx, types.DelegateTx}[g.pick(4)], k2, ip(g.anyID()), nil, nil)
		if tx2.Type == types.KillTx {
			tx2.To = nil
		}
	case 4:
		if tx.Key >= 1 && tx.Type == types.SendTx && tx.Amount != nil && tx.Amount.Sign() >= 0 {
			// the first transfer drains the signer into the gap between "plain fee" and "fee + gas", then he calls /
			// terminates a contract whose VM run uses gas
			t2 := []uint16{types.TerminateContractTx, types.CallContractTx}[g.pick(2)]
			var payload []byte
			if t2 == types.CallContractTx {
				payload, _ = attachments.CreateCallContractAttachment("transfer", []byte{1}).ToBytes()
			} else {
				payload, _ = attachments.CreateTerminateContractAttachment([]byte{1}).ToBytes()
			}
			tx2 = g.mkTx(t2, tx.Key, ip(NKeys+1), nil, payload)
			tx2.Nonce = tx.Nonce + 1
			tx2.Tips = nil
			tx2.VM = &VMRes{CAddr: NKeys + 1, Success: g.chance(0.8), GasUsed: uint64(500 + g.pick(3000))}
			c1 := g.costs(tx)[0]
			c2 := g.costs(tx2)
			left := c2[g.pick(len(c2))]
			left = new(big.Int).Add(left, bi(int64(g.pick(3)-1)))
			if left.Sign() < 0 {
				left = bi(0)
			}
			g.A(tx.Key).Bal = new(big.Int).Add(c1, left)
			note += "+drainThenContract"
		}
	case 3:
		if tx.Key >= 1 { // the same sender continues with the next nonce
			tx2 = g.mkTx(types.SendTx, tx.Key, ip(g.anyID()), bi(int64(g.pick(100))), nil)
			tx2.Nonce = tx.Nonce + 1
		}
	}
	if tx2 != nil {
		cs.Txs = append(cs.Txs, *tx2)
		cs.Ops = append(cs.Ops, Op{Kind: "val", Mode: 1, MinFpg: "net", Tx: 1}, Op{Kind: "apply", Tx: 1})
	}
	cs.Note = note
	g.flatten()
	return cs
}
