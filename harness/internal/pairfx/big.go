package pairfx

import "math/big"

type bigInt = big.Int

func bi(n int64) *big.Int { return big.NewInt(n) }
