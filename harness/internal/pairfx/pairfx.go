// Package pairfx: two real replicas with the same genesis — A proposes, B validates (C02, C03).
package pairfx

import (
	"fmt"
	"math/rand"
	"strings"
	"time"

	"github.com/idena-network/idena-go/blockchain/attachments"
	"github.com/idena-network/idena-go/blockchain/types"
	"github.com/idena-network/idena-go/common"
	"github.com/idena-network/idena-go/crypto"

	"verifharness/internal/chainfx"
)

type Pair struct {
	W *chainfx.World
	A *chainfx.Node
	B *chainfx.Node
	H *chainfx.History
	R *rand.Rand
}

func NewPair(seed int64, shortEpochs bool, nUsers int) (*Pair, error) {
	return NewPairWith(seed, shortEpochs, nUsers, nil)
}

// NewPairWith: as NewPair; `shape` may change the world (shards, fresh keys ...) and the history options before start-up.
func NewPairWith(seed int64, shortEpochs bool, nUsers int, shape func(w *chainfx.World, o *chainfx.HistoryOpts)) (*Pair, error) {
	r := rand.New(rand.NewSource(seed))
	w := chainfx.NewWorld(seed, nUsers, 0, time.Date(2030, 1, 1, 0, 0, 0, 0, time.UTC))
	o := chainfx.HistoryOpts{ShortEpochs: shortEpochs, TxPerBlock: 4, WithFlips: true, Always: map[int]bool{1: true}}
	w.Seasoned() // the two proposing identities (genesis Verified) must survive their first ceremonies
	if shape != nil {
		shape(w, &o)
	}
	h, err := chainfx.Bootstrap(w, o, r, true)
	if err != nil {
		return nil, err
	}
	b, err := w.StartNode(nil, 1, true)
	if err != nil {
		return nil, err
	}
	if h.N.Chain.Head.Hash() != b.Chain.Head.Hash() {
		return nil, fmt.Errorf("replicas disagree on genesis")
	}
	return &Pair{W: w, A: h.N, B: b, H: h, R: r}, nil
}

// OfferConflicts puts transactions into A's pool that are individually acceptable now but conflict with each other
// or become invalid while the block is built (the building path must skip exactly what the validating path refuses).
func (p *Pair) OfferConflicts(b int) {
	w, r, n := p.W, p.R, p.A
	nU := len(w.Keys) - 1
	send := func(i int, tx *types.Transaction) {
		if _, err := p.H.S.Send(n, i, tx); err == nil {
			p.H.Stats["conflict-tx-ok"]++
		} else {
			p.H.Stats["conflict-tx-rej"]++
		}
	}
	if period := n.App.State.ValidationPeriod(); period != 0 {
		// ceremony periods: the same participant submits a ceremony transaction of one kind twice within one block
		// interval (consecutive nonces, different content): only the first may be applied
		i := r.Intn(len(w.Keys))
		switch period {
		case 2: // short session
			for k := 0; k < 2; k++ {
				hh := crypto.Hash([]byte{byte(i), byte(k), byte(b)})
				send(i, &types.Transaction{Type: types.SubmitAnswersHashTx, Payload: hh[:]})
			}
		case 3: // long session
			switch r.Intn(3) {
			case 0:
				for k := 0; k < 2; k++ {
					send(i, &types.Transaction{Type: types.SubmitLongAnswersTx, Payload: chainfx.LongAnswersPayload(n, w.Keys[i], []byte{byte(k), byte(b)})})
				}
			case 1:
				for k := 0; k < 2; k++ {
					send(i, &types.Transaction{Type: types.SubmitShortAnswersTx, Payload: attachments.CreateShortAnswerAttachment([]byte{byte(k), byte(b)}, 1, 1)})
				}
			default:
				send(i, &types.Transaction{Type: types.SubmitLongAnswersTx, Payload: chainfx.LongAnswersPayload(n, w.Keys[i], []byte{9, byte(b)})})
				send(i, &types.Transaction{Type: types.SubmitShortAnswersTx, Payload: attachments.CreateShortAnswerAttachment([]byte{7, byte(b)}, 1, 1)})
				send(i, &types.Transaction{Type: types.SubmitLongAnswersTx, Payload: chainfx.LongAnswersPayload(n, w.Keys[i], []byte{8, byte(b)})})
			}
		}
		return
	}
	switch r.Intn(7) {
	case 0: // overspend chain: each send is affordable alone, not together
		i := 1 + r.Intn(nU)
		bal := n.App.State.GetBalance(w.Addrs[i])
		amt := new(bigInt).Mul(bal, bi(6))
		amt.Div(amt, bi(10))
		to := w.Addrs[r.Intn(len(w.Addrs))]
		for k := 0; k < 3; k++ {
			send(i, &types.Transaction{Type: types.SendTx, To: &to, Amount: amt})
		}
	case 1: // kill, then further transactions of the killed identity / towards it
		i := 1 + r.Intn(nU)
		send(i, &types.Transaction{Type: types.KillTx})
		j := 1 + r.Intn(nU)
		send(j, &types.Transaction{Type: types.ReplenishStakeTx, To: &w.Addrs[i], Amount: chainfx.Dna(3)})
		send(i, chainfx.OnlineTx(true))
		send(i, &types.Transaction{Type: types.KillTx})
	case 2: // two invitations to the same fresh address
		fresh := common.Address{0xCD, byte(b), byte(r.Intn(200))}
		i, j := 1+r.Intn(nU), 1+r.Intn(nU)
		send(i, &types.Transaction{Type: types.InviteTx, To: &fresh})
		send(j, &types.Transaction{Type: types.InviteTx, To: &fresh})
		send(0, &types.Transaction{Type: types.InviteTx, To: &fresh})
	case 3: // delegate twice / delegate and undelegate in one block
		i := 1 + r.Intn(nU)
		to1, to2 := w.Addrs[r.Intn(len(w.Addrs))], w.Addrs[r.Intn(len(w.Addrs))]
		send(i, &types.Transaction{Type: types.DelegateTx, To: &to1})
		send(i, &types.Transaction{Type: types.DelegateTx, To: &to2})
		send(i, &types.Transaction{Type: types.UndelegateTx})
	case 4: // online status flapping
		i := 1 + r.Intn(nU)
		send(i, chainfx.OnlineTx(true))
		send(i, chainfx.OnlineTx(true))
		send(i, chainfx.OnlineTx(false))
	case 5: // large payloads: several of them cross the block gas cap
		for k := 0; k < 3; k++ {
			i := 1 + r.Intn(nU)
			send(i, &types.Transaction{Type: types.BurnTx, Amount: chainfx.Dna(1), MaxFee: chainfx.Dna(8000),
				Payload: attachments.CreateBurnAttachment(strings.Repeat("k", 150000+r.Intn(150000)))})
		}
	default: // burn everything, then spend
		i := 1 + r.Intn(nU)
		bal := n.App.State.GetBalance(w.Addrs[i])
		amt := new(bigInt).Mul(bal, bi(9))
		amt.Div(amt, bi(10))
		send(i, &types.Transaction{Type: types.BurnTx, Amount: amt, Payload: attachments.CreateBurnAttachment("x")})
		to := w.Addrs[0]
		send(i, &types.Transaction{Type: types.SendTx, To: &to, Amount: amt})
	}
}
