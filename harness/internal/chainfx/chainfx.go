// Package chainfx is the shared real-chain fixture of the harness: it builds real idena-go nodes
// (appstate, tx pool, blockchain, optional validation ceremony) over injected tm-db databases with the node's
// own start-up sequence, under the virtual clock of the overlay, with deterministic keys, so that several
// replicas can be driven block by block by the harness.
package chainfx

import (
	"bytes"
	"crypto/ecdsa"
	"fmt"
	"github.com/idena-network/idena-go/rpc"
	"math/big"
	"runtime/debug"
	"sort"
	"sync"
	"time"

	"github.com/idena-network/idena-go/blockchain"
	"github.com/idena-network/idena-go/blockchain/attachments"
	"github.com/idena-network/idena-go/blockchain/fee"
	"github.com/idena-network/idena-go/blockchain/types"
	"github.com/idena-network/idena-go/blockchain/validation"
	"github.com/idena-network/idena-go/common"
	"github.com/idena-network/idena-go/common/eventbus"
	"github.com/idena-network/idena-go/config"
	"github.com/idena-network/idena-go/core/appstate"
	"github.com/idena-network/idena-go/core/ceremony"
	"github.com/idena-network/idena-go/core/mempool"
	"github.com/idena-network/idena-go/core/state"
	"github.com/idena-network/idena-go/core/upgrade"
	"github.com/idena-network/idena-go/crypto"
	"github.com/idena-network/idena-go/ipfs"
	"github.com/idena-network/idena-go/keystore"
	"github.com/idena-network/idena-go/secstore"
	"github.com/idena-network/idena-go/stats/collector"
	"github.com/idena-network/idena-go/subscriptions"
	dbm "github.com/tendermint/tm-db"
)

type Node struct {
	DB    dbm.DB
	Chain *blockchain.Blockchain
	App   *appstate.AppState
	Pool  *mempool.TxPool
	Bus   eventbus.Bus
	Key   *ecdsa.PrivateKey
	Addr  common.Address
	Cfg   *config.Config
	Sec   *secstore.SecStore
	VC    *ceremony.ValidationCeremony // nil unless attached
	Real  bool                         // VC is the real ceremony object driven by the node's event bus (RealAttach)
}

// RealAttach, when set by a harness binary whose overlay exports it, wires the REAL ceremony object (NewValidationCeremony +
// Initialize, as node.StartWithHeight does) instead of the synchronous FxAttach stand-in; RealAfterAdd runs after every
// inserted block (waits for the asynchronous flip lottery).
var RealAttach func(n *Node) *ceremony.ValidationCeremony
var RealAfterAdd func(n *Node, b *types.Block)

func Dna(n int64) *big.Int { return new(big.Int).Mul(big.NewInt(n), common.DnaBase) }

// DetKey derives the i-th key of a world deterministically from the seed (byte-identical chains across processes).
func DetKey(seed int64, i int) *ecdsa.PrivateKey {
	h := crypto.Hash([]byte(fmt.Sprint("verif-key-", seed, "-", i)))
	k, err := crypto.ToECDSA(h[:])
	if err != nil {
		panic(err)
	}
	return k
}

type Opts struct {
	God              common.Address
	Alloc            map[common.Address]config.GenesisAllocation
	FirstCeremony    int64
	Validation       *config.ValidationConfig // nil = zero value (default durations)
	StatusSwitch     uint64                   // 0 = 3
	DelegationSwitch uint64                   // 0 = 3
	Tweak            func(*config.Config)
}

// MkCfg builds a fresh config value (each node gets its own; configs hold no shared mutable state we rely on).
func MkCfg(o Opts) *config.Config {
	ccfg := blockchain.GetDefaultConsensusConfig()
	ccfg.Automine = true
	ccfg.StatusSwitchRange = 3
	if o.StatusSwitch != 0 {
		ccfg.StatusSwitchRange = o.StatusSwitch
	}
	ccfg.DelegationSwitchRange = 3
	if o.DelegationSwitch != 0 {
		ccfg.DelegationSwitchRange = o.DelegationSwitch
	}
	v := o.Validation
	if v == nil {
		v = &config.ValidationConfig{}
	}
	fc := o.FirstCeremony
	if fc == 0 {
		fc = 4070908800
	}
	alloc := map[common.Address]config.GenesisAllocation{}
	for k, a := range o.Alloc {
		alloc[k] = a
	}
	cfg := &config.Config{Network: 0x99, Consensus: ccfg,
		GenesisConf: &config.GenesisConf{Alloc: alloc, GodAddress: o.God, FirstCeremonyTime: fc},
		Validation:  v, Blockchain: &config.BlockchainConfig{StoreCertRange: 2},
		OfflineDetection: config.GetDefaultOfflineDetectionConfig(), Mempool: config.GetDefaultMempoolConfig(),
		// the sub-configurations a default node configuration has (config.getDefaultConfig): code that reads them must not
		// meet nil (the ceremony's timer goroutine reads Sync every second of real time, its broadcasts read RPC)
		Sync:     &config.SyncConfig{FastSync: true, AllFlipsLoadingTime: 2 * time.Hour},
		RPC:      rpc.GetDefaultRPCConfig("localhost", 9009),
		IpfsConf: config.GetDefaultIpfsConfig(),
		IsDebug:  true}
	if o.Tweak != nil {
		o.Tweak(cfg)
	}
	return cfg
}

// the ipfs store of a node lives as long as its database (a restart over the same database finds the block bodies again)
var ipfsStores = map[dbm.DB]ipfs.Proxy{}
var ipfsMu sync.Mutex

func ipfsFor(db dbm.DB) (p ipfs.Proxy) {
	defer func() {
		if recover() != nil { // a database value that cannot be a map key
			p = ipfs.NewMemoryIpfsProxy()
		}
	}()
	ipfsMu.Lock()
	defer ipfsMu.Unlock()
	if q, ok := ipfsStores[db]; ok {
		return q
	}
	q := ipfs.NewMemoryIpfsProxy()
	ipfsStores[db] = q
	return q
}

// IpfsOf: the ipfs store that lives with the database (created on first use).
func IpfsOf(db dbm.DB) ipfs.Proxy { return ipfsFor(db) }

// Start replicates node.StartWithHeight on an injected database: NewAppState, NewTxPool, NewOfflineDetector,
// NewBlockchain, InitializeChain, appState.Initialize(head) else Initialize(0), EnsureIntegrity, txPool.Initialize.
// A panic during start-up is returned as an error (C09 treats it as a failed start).
func Start(db dbm.DB, nodeKey *ecdsa.PrivateKey, cfg *config.Config, attachCeremony bool) (n *Node, err error) {
	defer func() {
		if r := recover(); r != nil {
			err = fmt.Errorf("startup panic: %v\n%s", r, debug.Stack())
		}
	}()
	validation.SetAppConfig(cfg)
	bus := eventbus.New()
	app, e := appstate.NewAppState(db, bus)
	if e != nil {
		return nil, e
	}
	ss := secstore.NewSecStore()
	ss.AddKey(crypto.FromECDSA(nodeKey))
	txPool := mempool.NewTxPool(app, bus, cfg, collector.NewStatsCollector())
	offline := blockchain.NewOfflineDetector(cfg, db, app, ss, bus)
	ks := keystore.NewKeyStore("./testdata", keystore.StandardScryptN, keystore.StandardScryptP)
	sm, _ := subscriptions.NewManager("./testdata2")
	up := upgrade.NewUpgrader(cfg, app, db)
	chain := blockchain.NewBlockchain(cfg, db, txPool, app, ipfsFor(db), ss, bus, offline, ks, sm, up)
	if e := chain.InitializeChain(); e != nil {
		return nil, fmt.Errorf("InitializeChain: %v", e)
	}
	if e := app.Initialize(chain.Head.Height()); e != nil {
		if e2 := app.Initialize(0); e2 != nil {
			return nil, fmt.Errorf("Initialize: %v / %v", e, e2)
		}
	}
	if e := chain.EnsureIntegrity(); e != nil {
		return nil, fmt.Errorf("EnsureIntegrity: %v", e)
	}
	chain.ApplyHotfixToState()
	txPool.Initialize(chain.Head, ss.GetAddress(), false)
	n = &Node{DB: db, Chain: chain, App: app, Pool: txPool, Bus: bus, Key: nodeKey,
		Addr: crypto.PubkeyToAddress(nodeKey.PublicKey), Cfg: cfg, Sec: ss}
	if attachCeremony {
		if RealAttach != nil {
			n.VC, n.Real = RealAttach(n), true
		} else {
			n.VC = ceremony.FxAttach(chain, app, db, cfg, ss)
		}
	}
	return n, nil
}

// Propose builds a block on the node's head with the real ProposeBlock (panic => error).
func (n *Node) Propose() (p *types.BlockProposal, err error) {
	defer func() {
		if r := recover(); r != nil {
			err = fmt.Errorf("propose panic: %v\n%s", r, debug.Stack())
		}
	}()
	p = n.Chain.ProposeBlock([]byte{})
	if p == nil {
		return nil, fmt.Errorf("ProposeBlock returned nil")
	}
	return p, nil
}

// Add inserts a block with the real AddBlock and feeds the attached ceremony (panic => error).
func (n *Node) Add(b *types.Block) (err error) {
	defer func() {
		if r := recover(); r != nil {
			err = fmt.Errorf("addblock panic: %v\n%s", r, debug.Stack())
		}
	}()
	if err := n.Chain.AddBlock(b, nil, collector.NewStatsCollector()); err != nil {
		return err
	}
	if n.VC != nil && !n.Real {
		n.VC.FxOnBlock(b)
	}
	if n.Real && RealAfterAdd != nil {
		RealAfterAdd(n, b)
	}
	return nil
}

// AddSynced inserts a block the way the full-sync downloader does (protocol/full.go: processBatch / applyDeferredBlocks):
// on a check state taken with ForCheckWithOverwrite at the start of the batch, AddBlock(block, checkState) followed by
// checkState.FinalizePrecommit(block).  The caller keeps the check state for the batch (nil starts a new one).
func (n *Node) AddSynced(b *types.Block, checkState *appstate.AppState) (cs *appstate.AppState, err error) {
	defer func() {
		if r := recover(); r != nil {
			err = fmt.Errorf("addblock (sync route) panic: %v\n%s", r, debug.Stack())
		}
	}()
	cs = checkState
	if cs == nil {
		if cs, err = n.App.ForCheckWithOverwrite(n.Chain.Head.Height()); err != nil {
			return nil, err
		}
	}
	if err = n.Chain.AddBlock(b, cs, collector.NewStatsCollector()); err != nil {
		return nil, err
	}
	if err = cs.FinalizePrecommit(b); err != nil {
		return nil, err
	}
	if n.VC != nil && !n.Real {
		n.VC.FxOnBlock(b)
	}
	if n.Real && RealAfterAdd != nil {
		RealAfterAdd(n, b)
	}
	return cs, nil
}

// CloneBlock passes a block through its wire encoding (what another node would receive).
func CloneBlock(b *types.Block) (*types.Block, error) {
	raw, err := b.ToBytes()
	if err != nil {
		return nil, err
	}
	nb := new(types.Block)
	if err := nb.FromBytes(raw); err != nil {
		return nil, err
	}
	return nb, nil
}

// IsEligibleProposer: online a ∨ (a = god ∧ nobody online).
func (n *Node) IsEligibleProposer() bool {
	vcache := n.App.ValidatorsCache
	if vcache.IsOnlineIdentity(n.Addr) {
		return true
	}
	return n.Addr == n.App.State.GodAddress() && vcache.OnlineSize() == 0
}

// LedgerSum is the C04 observable: every balance, identity stake (and its replenished / locked parts), contract stake.
type LedgerSum struct {
	Total    *big.Int
	Negative []string // description of every negative component
	Accounts int
	Idents   int
}

func (n *Node) Ledger() LedgerSum { return LedgerOf(n.App.State) }

func LedgerOf(s *state.StateDB) LedgerSum {
	r := LedgerSum{Total: new(big.Int)}
	neg := func(what string, a common.Address, v *big.Int) {
		if v != nil && v.Sign() < 0 {
			r.Negative = append(r.Negative, fmt.Sprintf("%s %s %s", what, a.Hex(), v))
		}
	}
	s.IterateOverAccounts(func(a common.Address, acc state.Account) {
		r.Accounts++
		if acc.Balance != nil {
			r.Total.Add(r.Total, acc.Balance)
			neg("balance", a, acc.Balance)
		}
		if acc.Contract != nil && acc.Contract.Stake != nil {
			r.Total.Add(r.Total, acc.Contract.Stake)
			neg("contract-stake", a, acc.Contract.Stake)
		}
	})
	s.IterateOverIdentities(func(a common.Address, id state.Identity) {
		r.Idents++
		if id.Stake != nil {
			r.Total.Add(r.Total, id.Stake)
			neg("stake", a, id.Stake)
		}
		neg("replenished-stake", a, id.ReplenishedStake())
		neg("locked-stake", a, id.LockedStake())
	})
	sort.Strings(r.Negative)
	return r
}

// World is a deterministic set of keys + a genesis allocation shared by all replicas of one scenario.
type World struct {
	Seed  int64
	Keys  []*ecdsa.PrivateKey
	Addrs []common.Address
	Opts  Opts
	T0    time.Time
	// Genesis, when set, shapes the genesis state after the configured allocation (through the overlay's genesis hook,
	// identically on every replica of the world)
	Genesis func(app *appstate.AppState)
}

// AddFresh appends n keys that own nothing at genesis (they can be invited and activated later).
func (w *World) AddFresh(n int) {
	for j := 0; j < n; j++ {
		k := DetKey(w.Seed, 1000+len(w.Keys)+j) // distinct from the keys of an earlier call
		w.Keys = append(w.Keys, k)
		w.Addrs = append(w.Addrs, crypto.PubkeyToAddress(k.PublicKey))
	}
}

// Seasoned gives every validated genesis identity a validation history (four perfect sessions of six flips), so that
// a genesis Verified / Human is judged like a long-standing one and is not terminated by its first ceremony for lack of
// qualified flips.
func (w *World) Seasoned() {
	prev := w.Genesis
	w.Genesis = func(app *appstate.AppState) {
		if prev != nil {
			prev(app)
		}
		for a := range w.Opts.Alloc {
			if app.State.GetIdentityState(a).NewbieOrBetter() || app.State.GetIdentityState(a) == state.Suspended || app.State.GetIdentityState(a) == state.Zombie {
				for k := 0; k < 4; k++ {
					app.State.AddNewScore(a, common.EncodeScore(6, 6))
				}
			}
		}
	}
}

// Sharded makes the genesis state a network of n shards: the allocated identities are spread round-robin (in address
// order) and the shard sizes count them, so that several shards tie for the minimal size.
func (w *World) Sharded(n int) {
	prev := w.Genesis
	w.Genesis = func(app *appstate.AppState) {
		if prev != nil {
			prev(app)
		}
		var addrs []common.Address
		for a := range w.Opts.Alloc {
			addrs = append(addrs, a)
		}
		sort.Slice(addrs, func(i, j int) bool { return bytes.Compare(addrs[i][:], addrs[j][:]) < 0 })
		sizes := map[common.ShardId]uint32{}
		for i, a := range addrs {
			id := common.ShardId(1 + i%n)
			app.State.SetShardId(a, id)
			switch app.State.GetIdentityState(a) {
			case state.Newbie, state.Verified, state.Human, state.Suspended:
				sizes[id]++
			}
		}
		app.State.SetShardsNum(uint32(n))
		for id := common.ShardId(1); id <= common.ShardId(n); id++ {
			app.State.SetShardSize(id, sizes[id])
		}
	}
}

var DefaultStates = []state.IdentityState{state.Verified, state.Newbie, state.Human, state.Suspended, state.Verified, state.Candidate, state.Zombie, state.Candidate, state.Human, state.Verified, state.Newbie, state.Invite}

// NewWorld: key 0 is the god address (Verified, funded); keys 1..nUsers get DefaultStates cyclically, funds and stakes;
// `dummies` extra Verified identities without keys raise the network size (fees and contract minimum stake scale with 1/N).
func NewWorld(seed int64, nUsers, dummies int, t0 time.Time) *World {
	return NewWorldStates(seed, nUsers, dummies, t0, state.Verified, DefaultStates)
}

// NewWorldStates: as NewWorld with a chosen genesis state of the god identity and of the users (cyclically).
func NewWorldStates(seed int64, nUsers, dummies int, t0 time.Time, god state.IdentityState, states []state.IdentityState) *World {
	w := &World{Seed: seed, T0: t0}
	alloc := map[common.Address]config.GenesisAllocation{}
	for i := 0; i <= nUsers; i++ {
		k := DetKey(seed, i)
		a := crypto.PubkeyToAddress(k.PublicKey)
		w.Keys = append(w.Keys, k)
		w.Addrs = append(w.Addrs, a)
		if i == 0 {
			alloc[a] = config.GenesisAllocation{Balance: Dna(100000), Stake: Dna(100), State: uint8(god)}
		} else {
			alloc[a] = config.GenesisAllocation{Balance: Dna(100000), Stake: Dna(int64(i * 5)), State: uint8(states[(i-1)%len(states)])}
		}
	}
	for i := 0; i < dummies; i++ {
		alloc[common.Address{0xEE, byte(i >> 8), byte(i)}] = config.GenesisAllocation{State: uint8(state.Verified)}
	}
	w.Opts = Opts{God: w.Addrs[0], Alloc: alloc}
	return w
}

func (w *World) Cfg() *config.Config { return MkCfg(w.Opts) }

// StartNode starts a replica of this world with key index ki over db (a fresh MemDB if nil).
func (w *World) StartNode(db dbm.DB, ki int, attachCeremony bool) (*Node, error) {
	if db == nil {
		db = dbm.NewMemDB()
	}
	blockchain.VerifGenesisHook = w.Genesis
	defer func() { blockchain.VerifGenesisHook = nil }()
	n, err := Start(db, w.Keys[ki], w.Cfg(), attachCeremony)
	if err == nil && w.Genesis != nil && !blockchain.VerifGenesisHookSite {
		return nil, fmt.Errorf("genesis hook site not found in generateGenesis (overlay instrumentation)")
	}
	return n, err
}

func (w *World) Index(a common.Address) int {
	for i, x := range w.Addrs {
		if x == a {
			return i
		}
	}
	return -1
}

// Sender tracks per-key nonces against a node's state and signs transactions.
type Sender struct {
	W      *World
	nonce  []uint32
	nEpoch []uint16
}

func NewSender(w *World) *Sender {
	return &Sender{W: w, nonce: make([]uint32, len(w.Keys)), nEpoch: make([]uint16, len(w.Keys))}
}

// Sign fills nonce/epoch/maxFee from the node's canonical state and its pool and signs with key i: the nonce is the
// smallest one above the state's that no transaction of the sender waiting in the node's pool uses (a transaction that
// the pool dropped or that can no longer be mined never leaves a gap behind).
func (s *Sender) Sign(n *Node, i int, tx *types.Transaction) *types.Transaction {
	ep := n.App.State.Epoch()
	base := uint32(0)
	if n.App.State.GetEpoch(s.W.Addrs[i]) == ep {
		base = n.App.State.GetNonce(s.W.Addrs[i])
	}
	used := map[uint32]bool{}
	for _, p := range n.Pool.GetPendingByAddress(s.W.Addrs[i]) {
		if p.Epoch == ep {
			used[p.AccountNonce] = true
		}
	}
	next := base + 1
	for used[next] {
		next++
	}
	s.nEpoch[i], s.nonce[i] = ep, next-1
	tx.AccountNonce, tx.Epoch = next, ep
	if tx.MaxFee == nil {
		// validation refuses maxFee/minFeePerGas > block gas cap ("too high max fee"): scale with the network size
		tx.MaxFee = Dna(200)
		minFpg := fee.GetFeePerGasForNetwork(n.App.ValidatorsCache.NetworkSize())
		if lim := new(big.Int).Mul(minFpg, big.NewInt(4000000)); lim.Cmp(tx.MaxFee) < 0 {
			tx.MaxFee = lim
		}
	}
	stx, err := types.SignTx(tx, s.W.Keys[i])
	if err != nil {
		panic(err)
	}
	return stx
}

// Send signs and submits to the node's pool; the nonce counter advances only when the pool accepted.
func (s *Sender) Send(n *Node, i int, tx *types.Transaction) (*types.Transaction, error) {
	stx := s.Sign(n, i, tx)
	err := n.Pool.AddExternalTxs(validation.InboundTx, stx)
	if err == nil {
		s.nonce[i]++
	}
	return stx, err
}

// Resync forgets the locally counted nonces of key i (its pending transactions were dropped from the pool).
func (s *Sender) Resync(n *Node, i int) {
	s.nonce[i] = 0
	if n.App.State.GetEpoch(s.W.Addrs[i]) == n.App.State.Epoch() {
		s.nonce[i] = n.App.State.GetNonce(s.W.Addrs[i])
	}
}

func OnlineTx(online bool) *types.Transaction {
	return &types.Transaction{Type: types.OnlineStatusTx, Payload: attachments.CreateOnlineStatusAttachment(online)}
}

// SetTime / Advance drive the overlay's virtual clock (common.VerifNow).
func SetTime(t time.Time)     { common.VerifSetTime(t) }
func Advance(d time.Duration) { common.VerifAdvance(d) }
