package chainfx

// Embedded contracts in generated histories (HistoryOpts.Contracts): in the None period the users deploy, fund, call and
// terminate REAL embedded contracts (TimeLock, Multisig) with real attachments; every transaction goes through the node's
// pool, the real block builder and the real VM.  Destinations of contract transfers cycle through: the contract's own
// address, the caller, another live contract, another user, a fresh address, the zero address; amounts through zero, a
// part of / the whole / more than the contract balance.  Calls by strangers, locked time locks, unknown methods and
// paid calls that fail are included (they must leave no trace but the fee).
import (
	"fmt"
	"math/big"

	"github.com/idena-network/idena-go/blockchain/attachments"
	"github.com/idena-network/idena-go/blockchain/fee"
	"github.com/idena-network/idena-go/blockchain/types"
	"github.com/idena-network/idena-go/common"
	"github.com/idena-network/idena-go/vm/embedded"
	"github.com/idena-network/idena-go/vm/env"
)

// ContractInfo is a contract the history deployed (whether it is live is read from the node's state).
type ContractInfo struct {
	Addr   common.Address
	Kind   string // "timelock" | "multisig"
	Owner  int    // key index
	Locked bool   // time lock whose unlock time lies in the far future
	Voters []int  // multisig: key indexes added so far
	Max    int    // multisig: maxVotes
	round  int    // selects the destination and the amount class of the next transfer
	// multisig: the proposal the voters voted for, waiting for a push
	pendDest common.Address
	pendAmt  *big.Int
	pendName string
}

// Live: the contract exists in the node's canonical state.
func (c *ContractInfo) Live(n *Node) bool { return n.App.State.GetCodeHash(c.Addr) != nil }

func u64b(x uint64) []byte { return common.ToBytes(x) }

func (h *History) contractTx(i int, what string, tx *types.Transaction) *types.Transaction {
	fpg := h.N.App.State.FeePerGas()
	tx.MaxFee = new(big.Int).Mul(fpg, big.NewInt(400000))
	return h.try(i, what, tx)
}

func (h *History) liveContracts(kind string) []*ContractInfo {
	var out []*ContractInfo
	for _, c := range h.Contracts {
		if (kind == "" || c.Kind == kind) && c.Live(h.N) {
			out = append(out, c)
		}
	}
	return out
}

// transferDest: the k-th destination a contract is asked to pay.
func (h *History) transferDest(c *ContractInfo, caller int, k int, b int) (common.Address, string) {
	w, r := h.W, h.R
	switch k % 6 {
	case 0:
		return c.Addr, "self"
	case 1:
		return w.Addrs[caller], "caller"
	case 2:
		for _, o := range h.liveContracts("") {
			if o.Addr != c.Addr {
				return o.Addr, "other-contract"
			}
		}
		return c.Addr, "self"
	case 3:
		return w.Addrs[r.Intn(len(w.Addrs))], "user"
	case 4:
		return common.Address{0xC7, byte(b), byte(k)}, "fresh"
	default:
		return common.Address{}, "zero"
	}
}

func (h *History) transferAmount(c *ContractInfo, k int) (*big.Int, string) {
	bal := h.N.App.State.GetBalance(c.Addr)
	switch (k / 2) % 5 {
	case 0: // a part
		x := new(big.Int).Div(bal, big.NewInt(int64(2+h.R.Intn(4))))
		return x, "part"
	case 1:
		return new(big.Int).Set(bal), "all"
	case 2:
		return new(big.Int).Add(bal, big.NewInt(1)), "too-much"
	case 3:
		return big.NewInt(0), "zero"
	default:
		return big.NewInt(1), "one"
	}
}

// OfferContractTxs submits this block's contract transactions (called by OfferTxs in the None period when
// HistoryOpts.Contracts is set; may also be called directly): one action, or a burst of 2-4 actions of (mostly)
// different senders, and now and then a deliberate pair "a call that fails after the contract moved coins (its gas limit
// ends inside / right after env.Send), then calls that succeed" for the same block.
func (h *History) OfferContractTxs(b int) {
	k := 1
	if h.R.Intn(3) == 0 {
		k = 2 + h.R.Intn(3)
		h.Stats["contract:burst"]++
	}
	for j := 0; j < k; j++ {
		h.contractAction(b)
	}
	if h.R.Intn(3) == 0 {
		h.offerFailThenSucceed(b)
	}
}

// gasUsedBy runs tx (signed by key i with a generous max fee) through the real applyTxOnState on a check state and
// returns the gas the contract used; false when it cannot be applied now or does not succeed.
func (h *History) gasUsedBy(i int, tx *types.Transaction) (used uint64, ok bool) {
	n := h.N
	if len(n.Pool.GetPendingByAddress(h.W.Addrs[i])) != 0 {
		return 0, false
	}
	cp := *tx
	cp.MaxFee = new(big.Int).Mul(n.App.State.FeePerGas(), big.NewInt(400000))
	stx := h.S.Sign(n, i, &cp)
	chk, err := n.App.ForCheck(n.Chain.Head.Height())
	if err != nil {
		return 0, false
	}
	defer func() {
		if recover() != nil {
			used, ok = 0, false
		}
	}()
	_, rc, err := n.Chain.FxApplyTx(chk, n.Chain.Head, stx)
	if err != nil || rc == nil || !rc.Success {
		return 0, false
	}
	return rc.GasUsed, true
}

// tightMaxFee sets tx.MaxFee so that exactly `gas` units are left for the contract (getGasLimit, blockchain.go:1769).
func (h *History) tightMaxFee(i int, tx *types.Transaction, gas uint64) {
	n := h.N
	fpg := n.App.State.FeePerGas()
	tx.MaxFee = new(big.Int).Mul(fpg, big.NewInt(400000))
	for it := 0; it < 3; it++ {
		cp := *tx
		stx := h.S.Sign(n, i, &cp)
		f := fee.CalculateFee(n.App.ValidatorsCache.NetworkSize(), fpg, stx)
		tx.MaxFee = new(big.Int).Add(f, new(big.Int).Mul(fpg, new(big.Int).SetUint64(gas)))
	}
}

// offerFailThenSucceed: see OfferContractTxs.
func (h *History) offerFailThenSucceed(b int) {
	n, r, w := h.N, h.R, h.W
	fpg := n.App.State.FeePerGas()
	if common.ZeroOrNil(fpg) || len(w.Keys) < 4 {
		return
	}
	nU := len(w.Keys) - 1
	var cands []*ContractInfo
	for _, c := range h.liveContracts("") {
		if n.App.State.GetBalance(c.Addr).Cmp(big.NewInt(1000)) < 0 {
			continue
		}
		if c.Kind == "timelock" && !c.Locked || c.Kind == "multisig" && c.pendAmt != nil && len(c.Voters) >= c.Max {
			cands = append(cands, c)
		}
	}
	if len(cands) == 0 {
		return
	}
	c := cands[r.Intn(len(cands))]
	x := c.Addr
	bal := n.App.State.GetBalance(c.Addr)
	var failing *types.Transaction
	caller, slack := c.Owner, 30
	var what string
	if c.Kind == "timelock" {
		dest, dn := h.transferDest(c, caller, r.Intn(6), b)
		amt := new(big.Int).Div(bal, big.NewInt(int64(3+r.Intn(5))))
		p, _ := attachments.CreateCallContractAttachment("transfer", dest.Bytes(), amt.Bytes()).ToBytes()
		failing = &types.Transaction{Type: types.CallContractTx, To: &x, Amount: Dna(int64(1 + r.Intn(40))), Payload: p}
		what = "timelock.transfer:" + dn
	} else {
		caller, slack = 1+r.Intn(nU), 80
		p, _ := attachments.CreateCallContractAttachment("push", c.pendDest.Bytes(), c.pendAmt.Bytes()).ToBytes()
		failing = &types.Transaction{Type: types.CallContractTx, To: &x, Payload: p}
		if r.Intn(2) == 0 {
			failing.Amount = Dna(int64(1 + r.Intn(40)))
		}
		what = "multisig.push:" + c.pendName
	}
	if n.App.State.GetBalance(w.Addrs[caller]).Cmp(Dna(500)) < 0 {
		return
	}
	used, ok := h.gasUsedBy(caller, failing)
	if !ok || used < 40 {
		return
	}
	gas := used - 1 - uint64(r.Intn(slack))
	h.tightMaxFee(caller, failing, gas)
	if h.try(caller, fmt.Sprint("tight", b, c.Addr.Hex()), failing) == nil {
		return
	}
	h.Stats["contract:out-of-gas-after-send:"+what]++
	// the calls that succeed, by other senders (and by the same one)
	others := r.Perm(nU)
	done := 0
	for _, o := range others {
		i := 1 + o
		if i == caller || done >= 1+r.Intn(2) {
			continue
		}
		switch r.Intn(3) {
		case 0: // a vote in a multisig
			for _, m := range h.liveContracts("multisig") {
				for _, v := range m.Voters {
					if v == i && done == 0 {
						y := m.Addr
						p, _ := attachments.CreateCallContractAttachment("send", w.Addrs[i].Bytes(), big.NewInt(1).Bytes()).ToBytes()
						if h.contractTx(i, fmt.Sprint("after-tight-vote", b), &types.Transaction{Type: types.CallContractTx, To: &y, Payload: p}) != nil {
							m.pendAmt = nil // the proposal the voters agreed on is gone
							done++
							h.Stats["contract:after-failed:vote"]++
						}
					}
				}
			}
		case 1: // the owner of another unlocked time lock moves a coin
			for _, t := range h.liveContracts("timelock") {
				if t.Owner == i && !t.Locked && t.Addr != c.Addr && n.App.State.GetBalance(t.Addr).Sign() > 0 && done == 0 {
					y := t.Addr
					p, _ := attachments.CreateCallContractAttachment("transfer", w.Addrs[i].Bytes(), big.NewInt(1).Bytes()).ToBytes()
					if h.contractTx(i, fmt.Sprint("after-tight-transfer", b), &types.Transaction{Type: types.CallContractTx, To: &y, Payload: p}) != nil {
						done++
						h.Stats["contract:after-failed:transfer-other"]++
					}
				}
			}
		default: // somebody deploys a time lock
			amt := new(big.Int).Mul(fpg, big.NewInt(3000000))
			if n.App.State.GetBalance(w.Addrs[i]).Cmp(new(big.Int).Add(amt, new(big.Int).Mul(fpg, big.NewInt(1000000)))) > 0 {
				p, _ := attachments.CreateDeployContractAttachment(embedded.TimeLockContract, nil, nil, u64b(1)).ToBytes()
				if stx := h.contractTx(i, fmt.Sprint("after-tight-deploy", b), &types.Transaction{Type: types.DeployContractTx, Amount: amt, Payload: p}); stx != nil {
					h.Contracts = append(h.Contracts, &ContractInfo{Addr: env.ComputeContractAddr(stx, w.Addrs[i]), Kind: "timelock", Owner: i})
					done++
					h.Stats["contract:after-failed:deploy"]++
				}
			}
		}
	}
	if c.Kind == "timelock" && r.Intn(2) == 0 { // and the same owner again, with plenty of gas
		p, _ := attachments.CreateCallContractAttachment("transfer", w.Addrs[1+r.Intn(nU)].Bytes(), big.NewInt(1).Bytes()).ToBytes()
		if h.contractTx(caller, fmt.Sprint("after-tight-same", b), &types.Transaction{Type: types.CallContractTx, To: &x, Payload: p}) != nil {
			h.Stats["contract:after-failed:same-owner"]++
		}
	}
}

// contractAction offers one contract action.
func (h *History) contractAction(b int) {
	n, r, w := h.N, h.R, h.W
	fpg := n.App.State.FeePerGas()
	if common.ZeroOrNil(fpg) || len(w.Keys) < 3 {
		return
	}
	nU := len(w.Keys) - 1
	user := func() int { return 1 + r.Intn(nU) }
	minStake := new(big.Int).Mul(fpg, big.NewInt(3000000))
	rich := func(i int, need *big.Int) bool {
		return n.App.State.GetBalance(w.Addrs[i]).Cmp(new(big.Int).Add(need, new(big.Int).Mul(fpg, big.NewInt(1000000)))) > 0
	}
	call := func(i int, c *ContractInfo, method string, amt *big.Int, what string, args ...[]byte) {
		p, _ := attachments.CreateCallContractAttachment(method, args...).ToBytes()
		x := c.Addr
		if h.contractTx(i, fmt.Sprint("call", b, what, c.Addr.Hex()), &types.Transaction{Type: types.CallContractTx, To: &x, Amount: amt, Payload: p}) != nil {
			h.Stats["contract:"+c.Kind+"."+method+":"+what]++
		}
	}
	tl, ms := h.liveContracts("timelock"), h.liveContracts("multisig")
	switch k := r.Intn(10); {
	case k == 0 || len(tl) == 0 && k < 4: // deploy a time lock
		if len(tl) >= 3 {
			return
		}
		i := user()
		amt := new(big.Int).Add(minStake, big.NewInt(int64(r.Intn(3))))
		if !rich(i, amt) {
			return
		}
		unlock, locked := uint64(1), false
		if r.Intn(5) == 0 {
			unlock, locked = uint64(4102444800), true // 2100
		}
		p, _ := attachments.CreateDeployContractAttachment(embedded.TimeLockContract, nil, nil, u64b(unlock)).ToBytes()
		if stx := h.contractTx(i, fmt.Sprint("deploy-timelock", b), &types.Transaction{Type: types.DeployContractTx, Amount: amt, Payload: p}); stx != nil {
			h.Contracts = append(h.Contracts, &ContractInfo{Addr: env.ComputeContractAddr(stx, w.Addrs[i]), Kind: "timelock", Owner: i, Locked: locked})
			h.Stats["contract:deploy-timelock"]++
		}
	case k == 1 || len(ms) == 0 && k < 6: // deploy a multisig
		if len(ms) >= 2 {
			return
		}
		i := user()
		if !rich(i, minStake) {
			return
		}
		max := 1 + r.Intn(2)
		min := 1 + r.Intn(max)
		p, _ := attachments.CreateDeployContractAttachment(embedded.MultisigContract, nil, nil, []byte{byte(max)}, []byte{byte(min)}).ToBytes()
		if stx := h.contractTx(i, fmt.Sprint("deploy-multisig", b), &types.Transaction{Type: types.DeployContractTx, Amount: new(big.Int).Set(minStake), Payload: p}); stx != nil {
			h.Contracts = append(h.Contracts, &ContractInfo{Addr: env.ComputeContractAddr(stx, w.Addrs[i]), Kind: "multisig", Owner: i, Max: max})
			h.Stats["contract:deploy-multisig"]++
		}
	case k == 2 || k == 3: // fund a live contract with an ordinary send
		live := h.liveContracts("")
		if len(live) == 0 {
			return
		}
		c := live[r.Intn(len(live))]
		i := user()
		amt := Dna(int64(5 + r.Intn(500)))
		if !rich(i, amt) {
			return
		}
		x := c.Addr
		if h.try(i, fmt.Sprint("fund", b), &types.Transaction{Type: types.SendTx, To: &x, Amount: amt}) != nil {
			h.Stats["contract:fund"]++
		}
	case k <= 6 && len(tl) > 0: // time lock: transfer (owner / stranger), unknown method, paid call
		c := tl[r.Intn(len(tl))]
		if n.App.State.GetBalance(c.Addr).Sign() == 0 && r.Intn(3) != 0 {
			i := user()
			x := c.Addr
			if rich(i, Dna(600)) && h.try(i, fmt.Sprint("fund", b), &types.Transaction{Type: types.SendTx, To: &x, Amount: Dna(int64(50 + r.Intn(500)))}) != nil {
				h.Stats["contract:fund"]++
			}
			return
		}
		caller := c.Owner
		who := "owner"
		switch r.Intn(8) {
		case 0:
			caller, who = user(), "stranger"
		case 1:
			call(caller, c, "noSuchMethod", Dna(int64(r.Intn(3))), "unknown-method")
			return
		}
		dest, dn := h.transferDest(c, caller, c.round, b)
		amt, an := h.transferAmount(c, c.round)
		c.round++
		var pay *big.Int
		if r.Intn(4) == 0 && rich(caller, Dna(10)) {
			pay = Dna(int64(1 + r.Intn(5))) // a paid call: the payment is the contract's before the method runs
		}
		call(caller, c, "transfer", pay, who+":"+dn+":"+an, dest.Bytes(), amt.Bytes())
	case k <= 8 && len(ms) > 0: // multisig: add voters, vote (send), push
		c := ms[r.Intn(len(ms))]
		if len(c.Voters) < c.Max {
			v := user()
			call(c.Owner, c, "add", nil, "voter", w.Addrs[v].Bytes())
			c.Voters = append(c.Voters, v) // (a repeated voter fails in the contract: "address has been added")
			return
		}
		if n.App.State.GetBalance(c.Addr).Sign() == 0 && r.Intn(3) != 0 {
			i := user()
			x := c.Addr
			if rich(i, Dna(600)) && h.try(i, fmt.Sprint("fund", b), &types.Transaction{Type: types.SendTx, To: &x, Amount: Dna(int64(50 + r.Intn(500)))}) != nil {
				h.Stats["contract:fund"]++
			}
			return
		}
		if c.pendAmt == nil { // the voters vote for one proposal
			dest, dn := h.transferDest(c, c.Voters[0], c.round, b)
			amt, an := h.transferAmount(c, c.round)
			for _, v := range c.Voters {
				call(v, c, "send", nil, "vote:"+dn+":"+an, dest.Bytes(), amt.Bytes())
			}
			c.pendDest, c.pendAmt, c.pendName = dest, amt, dn+":"+an
			return
		}
		call(user(), c, "push", nil, "push:"+c.pendName, c.pendDest.Bytes(), c.pendAmt.Bytes())
		c.pendAmt = nil
		c.round++
	default: // terminate (succeeds only for the owner of an unlocked, drained contract)
		live := h.liveContracts("")
		if len(live) == 0 {
			return
		}
		c := live[r.Intn(len(live))]
		i := c.Owner
		if r.Intn(4) == 0 {
			i = user()
		}
		p, _ := attachments.CreateTerminateContractAttachment(w.Addrs[user()].Bytes()).ToBytes()
		x := c.Addr
		if h.contractTx(i, fmt.Sprint("terminate", b, c.Addr.Hex()), &types.Transaction{Type: types.TerminateContractTx, To: &x, Payload: p}) != nil {
			h.Stats["contract:terminate"]++
		}
	}
}
