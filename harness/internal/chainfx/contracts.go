package chainfx

// Embedded contracts in generated histories (HistoryOpts.Contracts): in the None period the users deploy, fund, call and
// terminate REAL embedded contracts (TimeLock, Multisig) with real attachments; every transaction goes through the node's
// pool, the real block builder and the real VM.  Destinations of contract transfers cycle through: the contract's own
// address, the caller, another live contract, another user, a fresh address, the zero address; amounts through zero, a
// part of / the whole / more than the contract balance.  Calls by strangers, locked time locks, unknown methods and
// paid calls that fail are included (they must leave no trace but the fee).
import (
	"fmt"
	"math/big"

	"github.com/idena-network/idena-go/blockchain/attachments"
	"github.com/idena-network/idena-go/blockchain/fee"
	"github.com/idena-network/idena-go/blockchain/types"
	"github.com/idena-network/idena-go/blockchain/validation"
	"github.com/idena-network/idena-go/common"
	"github.com/idena-network/idena-go/crypto"
	"github.com/idena-network/idena-go/vm/embedded"
	"github.com/idena-network/idena-go/vm/env"
	"github.com/idena-network/idena-go/vm/helpers"
	"github.com/idena-network/idena-go/vm/wasm/testdata"
)

// ContractInfo is a contract the history deployed (whether it is live is read from the node's state).
type ContractInfo struct {
	Addr   common.Address
	Kind   string // "timelock" | "multisig" | "voting" | "lock" | "rlock" | "wasm-inc" | "wasm-sum"
	Owner  int    // key index
	Locked bool   // time lock whose unlock time lies in the far future
	Voters []int  // multisig: key indexes added so far
	Max    int    // multisig: maxVotes
	round  int    // selects the destination and the amount class of the next transfer
	// multisig: the proposal the voters voted for, waiting for a push
	pendDest common.Address
	pendAmt  *big.Int
	pendName string
	// oracle voting (Kind "voting"): what the history's voters did; locks (Kind "lock" / "rlock"): the voting they watch
	votes    map[int]*voteRec
	Voting   *ContractInfo
	deadline int64       // rlock: deposit deadline (unix)
	deployTx common.Hash // wasm: the address is taken from the receipt
	// Kind "wasm-poor": an account outside the world that owns just what its prepared low-max-fee wasm transaction may cost
	tx   *types.Transaction
	need *big.Int
}

type voteRec struct {
	vote     byte
	salt     []byte
	revealed bool
}

// Live: the contract exists in the node's canonical state.
func (c *ContractInfo) Live(n *Node) bool { return n.App.State.GetCodeHash(c.Addr) != nil }

func u64b(x uint64) []byte { return common.ToBytes(x) }

func (h *History) contractTx(i int, what string, tx *types.Transaction) *types.Transaction {
	fpg := h.N.App.State.FeePerGas()
	tx.MaxFee = new(big.Int).Mul(fpg, big.NewInt(400000))
	return h.try(i, what, tx)
}

func (h *History) liveContracts(kind string) []*ContractInfo {
	var out []*ContractInfo
	for _, c := range h.Contracts {
		if (kind == "" || c.Kind == kind) && c.Live(h.N) {
			out = append(out, c)
		}
	}
	return out
}

// transferDest: the k-th destination a contract is asked to pay.
func (h *History) transferDest(c *ContractInfo, caller int, k int, b int) (common.Address, string) {
	w, r := h.W, h.R
	switch k % 6 {
	case 0:
		return c.Addr, "self"
	case 1:
		return w.Addrs[caller], "caller"
	case 2:
		for _, o := range h.liveContracts("") {
			if o.Addr != c.Addr {
				return o.Addr, "other-contract"
			}
		}
		return c.Addr, "self"
	case 3:
		return w.Addrs[r.Intn(len(w.Addrs))], "user"
	case 4:
		return common.Address{0xC7, byte(b), byte(k)}, "fresh"
	default:
		return common.Address{}, "zero"
	}
}

func (h *History) transferAmount(c *ContractInfo, k int) (*big.Int, string) {
	bal := h.N.App.State.GetBalance(c.Addr)
	switch (k / 2) % 5 {
	case 0: // a part
		x := new(big.Int).Div(bal, big.NewInt(int64(2+h.R.Intn(4))))
		return x, "part"
	case 1:
		return new(big.Int).Set(bal), "all"
	case 2:
		return new(big.Int).Add(bal, big.NewInt(1)), "too-much"
	case 3:
		return big.NewInt(0), "zero"
	default:
		return big.NewInt(1), "one"
	}
}

// OfferContractTxs submits this block's contract transactions (called by OfferTxs in the None period when
// HistoryOpts.Contracts is set; may also be called directly): one action, or a burst of 2-4 actions of (mostly)
// different senders, and now and then a deliberate pair "a call that fails after the contract moved coins (its gas limit
// ends inside / right after env.Send), then calls that succeed" for the same block.
func (h *History) OfferContractTxs(b int) {
	k := 1
	if h.R.Intn(3) == 0 {
		k = 2 + h.R.Intn(3)
		h.Stats["contract:burst"]++
	}
	for j := 0; j < k; j++ {
		h.contractAction(b)
	}
	if h.R.Intn(3) == 0 {
		h.offerFailThenSucceed(b)
	}
	h.advanceVotings(b)
	h.wasmAction(b)
}

// gasUsedBy runs tx (signed by key i with a generous max fee) through the real applyTxOnState on a check state and
// returns the gas the contract used; false when it cannot be applied now or does not succeed.
func (h *History) gasUsedBy(i int, tx *types.Transaction) (used uint64, ok bool) {
	n := h.N
	if len(n.Pool.GetPendingByAddress(h.W.Addrs[i])) != 0 {
		return 0, false
	}
	cp := *tx
	cp.MaxFee = new(big.Int).Mul(n.App.State.FeePerGas(), big.NewInt(400000))
	stx := h.S.Sign(n, i, &cp)
	chk, err := n.App.ForCheck(n.Chain.Head.Height())
	if err != nil {
		return 0, false
	}
	defer func() {
		if recover() != nil {
			used, ok = 0, false
		}
	}()
	_, rc, err := n.Chain.FxApplyTx(chk, n.Chain.Head, stx)
	if err != nil || rc == nil || !rc.Success {
		return 0, false
	}
	return rc.GasUsed, true
}

// tightMaxFee sets tx.MaxFee so that exactly `gas` units are left for the contract (getGasLimit, blockchain.go:1769).
func (h *History) tightMaxFee(i int, tx *types.Transaction, gas uint64) {
	n := h.N
	fpg := n.App.State.FeePerGas()
	tx.MaxFee = new(big.Int).Mul(fpg, big.NewInt(400000))
	for it := 0; it < 3; it++ {
		cp := *tx
		stx := h.S.Sign(n, i, &cp)
		f := fee.CalculateFee(n.App.ValidatorsCache.NetworkSize(), fpg, stx)
		tx.MaxFee = new(big.Int).Add(f, new(big.Int).Mul(fpg, new(big.Int).SetUint64(gas)))
	}
}

// offerFailThenSucceed: see OfferContractTxs.
func (h *History) offerFailThenSucceed(b int) {
	n, r, w := h.N, h.R, h.W
	fpg := n.App.State.FeePerGas()
	if common.ZeroOrNil(fpg) || len(w.Keys) < 4 {
		return
	}
	nU := len(w.Keys) - 1
	var cands []*ContractInfo
	for _, c := range h.liveContracts("") {
		if n.App.State.GetBalance(c.Addr).Cmp(big.NewInt(1000)) < 0 {
			continue
		}
		if c.Kind == "timelock" && !c.Locked || c.Kind == "multisig" && c.pendAmt != nil && len(c.Voters) >= c.Max {
			cands = append(cands, c)
		}
	}
	if len(cands) == 0 {
		return
	}
	c := cands[r.Intn(len(cands))]
	x := c.Addr
	bal := n.App.State.GetBalance(c.Addr)
	var failing *types.Transaction
	caller, slack := c.Owner, 30
	var what string
	if c.Kind == "timelock" {
		dest, dn := h.transferDest(c, caller, r.Intn(6), b)
		amt := new(big.Int).Div(bal, big.NewInt(int64(3+r.Intn(5))))
		p, _ := attachments.CreateCallContractAttachment("transfer", dest.Bytes(), amt.Bytes()).ToBytes()
		failing = &types.Transaction{Type: types.CallContractTx, To: &x, Amount: Dna(int64(1 + r.Intn(40))), Payload: p}
		what = "timelock.transfer:" + dn
	} else {
		caller, slack = 1+r.Intn(nU), 80
		p, _ := attachments.CreateCallContractAttachment("push", c.pendDest.Bytes(), c.pendAmt.Bytes()).ToBytes()
		failing = &types.Transaction{Type: types.CallContractTx, To: &x, Payload: p}
		if r.Intn(2) == 0 {
			failing.Amount = Dna(int64(1 + r.Intn(40)))
		}
		what = "multisig.push:" + c.pendName
	}
	if n.App.State.GetBalance(w.Addrs[caller]).Cmp(Dna(500)) < 0 {
		return
	}
	used, ok := h.gasUsedBy(caller, failing)
	if !ok || used < 40 {
		return
	}
	gas := used - 1 - uint64(r.Intn(slack))
	h.tightMaxFee(caller, failing, gas)
	if h.try(caller, fmt.Sprint("tight", b, c.Addr.Hex()), failing) == nil {
		return
	}
	h.Stats["contract:out-of-gas-after-send:"+what]++
	// the calls that succeed, by other senders (and by the same one)
	others := r.Perm(nU)
	done := 0
	for _, o := range others {
		i := 1 + o
		if i == caller || done >= 1+r.Intn(2) {
			continue
		}
		switch r.Intn(3) {
		case 0: // a vote in a multisig
			for _, m := range h.liveContracts("multisig") {
				for _, v := range m.Voters {
					if v == i && done == 0 {
						y := m.Addr
						p, _ := attachments.CreateCallContractAttachment("send", w.Addrs[i].Bytes(), big.NewInt(1).Bytes()).ToBytes()
						if h.contractTx(i, fmt.Sprint("after-tight-vote", b), &types.Transaction{Type: types.CallContractTx, To: &y, Payload: p}) != nil {
							m.pendAmt = nil // the proposal the voters agreed on is gone
							done++
							h.Stats["contract:after-failed:vote"]++
						}
					}
				}
			}
		case 1: // the owner of another unlocked time lock moves a coin
			for _, t := range h.liveContracts("timelock") {
				if t.Owner == i && !t.Locked && t.Addr != c.Addr && n.App.State.GetBalance(t.Addr).Sign() > 0 && done == 0 {
					y := t.Addr
					p, _ := attachments.CreateCallContractAttachment("transfer", w.Addrs[i].Bytes(), big.NewInt(1).Bytes()).ToBytes()
					if h.contractTx(i, fmt.Sprint("after-tight-transfer", b), &types.Transaction{Type: types.CallContractTx, To: &y, Payload: p}) != nil {
						done++
						h.Stats["contract:after-failed:transfer-other"]++
					}
				}
			}
		default: // somebody deploys a time lock
			amt := new(big.Int).Mul(fpg, big.NewInt(3000000))
			if len(h.liveContracts("timelock")) < 6 && n.App.State.GetBalance(w.Addrs[i]).Cmp(new(big.Int).Add(amt, new(big.Int).Mul(fpg, big.NewInt(1000000)))) > 0 {
				p, _ := attachments.CreateDeployContractAttachment(embedded.TimeLockContract, nil, nil, u64b(1)).ToBytes()
				if stx := h.contractTx(i, fmt.Sprint("after-tight-deploy", b), &types.Transaction{Type: types.DeployContractTx, Amount: amt, Payload: p}); stx != nil {
					h.Contracts = append(h.Contracts, &ContractInfo{Addr: env.ComputeContractAddr(stx, w.Addrs[i]), Kind: "timelock", Owner: i})
					done++
					h.Stats["contract:after-failed:deploy"]++
				}
			}
		}
	}
	if c.Kind == "timelock" && (done == 0 || r.Intn(2) == 0) { // and the same owner again, with plenty of gas
		p, _ := attachments.CreateCallContractAttachment("transfer", w.Addrs[1+r.Intn(nU)].Bytes(), big.NewInt(1).Bytes()).ToBytes()
		if h.contractTx(caller, fmt.Sprint("after-tight-same", b), &types.Transaction{Type: types.CallContractTx, To: &x, Payload: p}) != nil {
			h.Stats["contract:after-failed:same-owner"]++
		}
	}
}

// contractAction offers one contract action.
func (h *History) contractAction(b int) {
	n, r, w := h.N, h.R, h.W
	fpg := n.App.State.FeePerGas()
	if common.ZeroOrNil(fpg) || len(w.Keys) < 3 {
		return
	}
	nU := len(w.Keys) - 1
	user := func() int { return 1 + r.Intn(nU) }
	minStake := new(big.Int).Mul(fpg, big.NewInt(3000000))
	rich := func(i int, need *big.Int) bool {
		return n.App.State.GetBalance(w.Addrs[i]).Cmp(new(big.Int).Add(need, new(big.Int).Mul(fpg, big.NewInt(1000000)))) > 0
	}
	call := func(i int, c *ContractInfo, method string, amt *big.Int, what string, args ...[]byte) {
		p, _ := attachments.CreateCallContractAttachment(method, args...).ToBytes()
		x := c.Addr
		if h.contractTx(i, fmt.Sprint("call", b, what, c.Addr.Hex()), &types.Transaction{Type: types.CallContractTx, To: &x, Amount: amt, Payload: p}) != nil {
			h.Stats["contract:"+c.Kind+"."+method+":"+what]++
		}
	}
	tl, ms := h.liveContracts("timelock"), h.liveContracts("multisig")
	switch k := r.Intn(10); {
	case k == 0 || len(tl) == 0 && k < 4: // deploy a time lock
		if len(tl) >= 3 {
			return
		}
		i := user()
		amt := new(big.Int).Add(minStake, big.NewInt(int64(r.Intn(3))))
		if !rich(i, amt) {
			return
		}
		unlock, locked := uint64(1), false
		if r.Intn(5) == 0 {
			unlock, locked = uint64(4102444800), true // 2100
		}
		p, _ := attachments.CreateDeployContractAttachment(embedded.TimeLockContract, nil, nil, u64b(unlock)).ToBytes()
		if stx := h.contractTx(i, fmt.Sprint("deploy-timelock", b), &types.Transaction{Type: types.DeployContractTx, Amount: amt, Payload: p}); stx != nil {
			h.Contracts = append(h.Contracts, &ContractInfo{Addr: env.ComputeContractAddr(stx, w.Addrs[i]), Kind: "timelock", Owner: i, Locked: locked})
			h.Stats["contract:deploy-timelock"]++
		}
	case k == 1 || len(ms) == 0 && k < 6: // deploy a multisig
		if len(ms) >= 2 {
			return
		}
		i := user()
		if !rich(i, minStake) {
			return
		}
		max := 1 + r.Intn(2)
		min := 1 + r.Intn(max)
		p, _ := attachments.CreateDeployContractAttachment(embedded.MultisigContract, nil, nil, []byte{byte(max)}, []byte{byte(min)}).ToBytes()
		if stx := h.contractTx(i, fmt.Sprint("deploy-multisig", b), &types.Transaction{Type: types.DeployContractTx, Amount: new(big.Int).Set(minStake), Payload: p}); stx != nil {
			h.Contracts = append(h.Contracts, &ContractInfo{Addr: env.ComputeContractAddr(stx, w.Addrs[i]), Kind: "multisig", Owner: i, Max: max})
			h.Stats["contract:deploy-multisig"]++
		}
	case k == 2 || k == 3: // fund a live contract with an ordinary send
		live := h.liveContracts("")
		if len(live) == 0 {
			return
		}
		c := live[r.Intn(len(live))]
		i := user()
		amt := Dna(int64(5 + r.Intn(500)))
		if !rich(i, amt) {
			return
		}
		x := c.Addr
		if h.try(i, fmt.Sprint("fund", b), &types.Transaction{Type: types.SendTx, To: &x, Amount: amt}) != nil {
			h.Stats["contract:fund"]++
		}
	case k <= 6 && len(tl) > 0: // time lock: transfer (owner / stranger), unknown method, paid call
		c := tl[r.Intn(len(tl))]
		if n.App.State.GetBalance(c.Addr).Sign() == 0 && r.Intn(3) != 0 {
			i := user()
			x := c.Addr
			if rich(i, Dna(600)) && h.try(i, fmt.Sprint("fund", b), &types.Transaction{Type: types.SendTx, To: &x, Amount: Dna(int64(50 + r.Intn(500)))}) != nil {
				h.Stats["contract:fund"]++
			}
			return
		}
		caller := c.Owner
		who := "owner"
		switch r.Intn(8) {
		case 0:
			caller, who = user(), "stranger"
		case 1:
			call(caller, c, "noSuchMethod", Dna(int64(r.Intn(3))), "unknown-method")
			return
		}
		dest, dn := h.transferDest(c, caller, c.round, b)
		amt, an := h.transferAmount(c, c.round)
		c.round++
		var pay *big.Int
		if r.Intn(4) == 0 && rich(caller, Dna(10)) {
			pay = Dna(int64(1 + r.Intn(5))) // a paid call: the payment is the contract's before the method runs
		}
		call(caller, c, "transfer", pay, who+":"+dn+":"+an, dest.Bytes(), amt.Bytes())
	case k <= 8 && len(ms) > 0: // multisig: add voters, vote (send), push
		c := ms[r.Intn(len(ms))]
		if len(c.Voters) < c.Max {
			v := user()
			call(c.Owner, c, "add", nil, "voter", w.Addrs[v].Bytes())
			c.Voters = append(c.Voters, v) // (a repeated voter fails in the contract: "address has been added")
			return
		}
		if n.App.State.GetBalance(c.Addr).Sign() == 0 && r.Intn(3) != 0 {
			i := user()
			x := c.Addr
			if rich(i, Dna(600)) && h.try(i, fmt.Sprint("fund", b), &types.Transaction{Type: types.SendTx, To: &x, Amount: Dna(int64(50 + r.Intn(500)))}) != nil {
				h.Stats["contract:fund"]++
			}
			return
		}
		if c.pendAmt == nil { // the voters vote for one proposal
			dest, dn := h.transferDest(c, c.Voters[0], c.round, b)
			amt, an := h.transferAmount(c, c.round)
			for _, v := range c.Voters {
				call(v, c, "send", nil, "vote:"+dn+":"+an, dest.Bytes(), amt.Bytes())
			}
			c.pendDest, c.pendAmt, c.pendName = dest, amt, dn+":"+an
			return
		}
		call(user(), c, "push", nil, "push:"+c.pendName, c.pendDest.Bytes(), c.pendAmt.Bytes())
		c.pendAmt = nil
		c.round++
	default: // terminate (succeeds only for the owner of an unlocked, drained contract)
		live := h.liveContracts("")
		if len(live) == 0 {
			return
		}
		c := live[r.Intn(len(live))]
		i := c.Owner
		if r.Intn(4) == 0 {
			i = user()
		}
		p, _ := attachments.CreateTerminateContractAttachment(w.Addrs[user()].Bytes()).ToBytes()
		x := c.Addr
		if h.contractTx(i, fmt.Sprint("terminate", b, c.Addr.Hex()), &types.Transaction{Type: types.TerminateContractTx, To: &x, Payload: p}) != nil {
			h.Stats["contract:terminate"]++
		}
	}
}

// ---------- oracle votings and the locks that watch them ----------
// The voting reads the block header while it runs: startVoting / prolongVoting store the block SEED, the block number,
// the epoch and the network size; sendVoteProof / sendVote / finishVoting depend on the block number; terminate and the
// refundable lock's deposit on the block timestamp.

func (h *History) cval(a common.Address, key string) []byte {
	return h.N.App.State.GetContractValue(a, []byte(key))
}

func (h *History) cu64(a common.Address, key string) uint64 {
	v, _ := helpers.ExtractUInt64(0, h.cval(a, key))
	return v
}

func (h *History) cbyte(a common.Address, key string) byte {
	if d := h.cval(a, key); len(d) > 0 {
		return d[0]
	}
	return 0
}

func (h *History) callC(i int, c *ContractInfo, b int, method string, amt *big.Int, what string, args ...[]byte) bool {
	p, _ := attachments.CreateCallContractAttachment(method, args...).ToBytes()
	x := c.Addr
	if h.contractTx(i, fmt.Sprint("call", b, method, what, c.Addr.Hex()), &types.Transaction{Type: types.CallContractTx, To: &x, Amount: amt, Payload: p}) != nil {
		h.Stats["contract:"+c.Kind+"."+method+":"+what]++
		return true
	}
	return false
}

func (h *History) advanceVotings(b int) {
	n, r, w := h.N, h.R, h.W
	fpg := n.App.State.FeePerGas()
	if common.ZeroOrNil(fpg) || len(w.Keys) < 4 {
		return
	}
	nU := len(w.Keys) - 1
	user := func() int { return 1 + r.Intn(nU) }
	minStake := new(big.Int).Mul(fpg, big.NewInt(3000000))
	reserve := new(big.Int).Mul(fpg, big.NewInt(1000000))
	rich := func(i int, need *big.Int) bool {
		return n.App.State.GetBalance(w.Addrs[i]).Cmp(new(big.Int).Add(need, reserve)) > 0
	}
	now := n.Chain.Head.Time()
	next := n.Chain.Head.Height() + 1
	votings := h.liveContracts("voting")
	// deploy a voting now and then (at most two live ones)
	if len(votings) < 2 && r.Intn(6) == 0 {
		i := user()
		if rich(i, new(big.Int).Add(minStake, Dna(6000))) {
			vdur := uint64(3 + r.Intn(5))
			if r.Intn(5) == 0 {
				vdur = 50 // the secret voting spans a validation ceremony: it has to be prolonged in the new epoch
			}
			args := [][]byte{[]byte(fmt.Sprint("fact", b)), u64b(uint64(now - 100)), u64b(vdur), u64b(100), {byte(51 + r.Intn(20))}, {1}, u64b(100), Dna(int64(1 + r.Intn(5))).Bytes(), {0}}
			if r.Intn(3) == 0 { // owner fee with a reward fund
				args[8] = []byte{byte(1 + r.Intn(20))}
				args = append(args, Dna(int64(r.Intn(50))).Bytes())
			}
			p, _ := attachments.CreateDeployContractAttachment(embedded.OracleVotingContract, nil, nil, args...).ToBytes()
			if stx := h.contractTx(i, fmt.Sprint("deploy-voting", b), &types.Transaction{Type: types.DeployContractTx, Amount: new(big.Int).Add(minStake, big.NewInt(int64(r.Intn(3)))), Payload: p}); stx != nil {
				h.Contracts = append(h.Contracts, &ContractInfo{Addr: env.ComputeContractAddr(stx, w.Addrs[i]), Kind: "voting", Owner: i, votes: map[int]*voteRec{}, Locked: r.Intn(3) == 0}) // Locked: nobody votes in the first round
				h.Stats["contract:deploy-voting"]++
			}
		}
	}
	for _, v := range votings {
		st := h.cbyte(v.Addr, "state")
		startBlock, vd := h.cu64(v.Addr, "startBlock"), h.cu64(v.Addr, "votingDuration")
		switch st {
		case 0: // pending: the owner's deposit, then anybody starts it
			dep := new(big.Int).SetBytes(h.cval(v.Addr, "ownerDeposit"))
			bal := n.App.State.GetBalance(v.Addr)
			if bal.Cmp(dep) < 0 {
				need := new(big.Int).Add(new(big.Int).Sub(dep, bal), Dna(int64(r.Intn(30))))
				if rich(v.Owner, need) {
					x := v.Addr
					if h.try(v.Owner, fmt.Sprint("fund-voting", b, x.Hex()), &types.Transaction{Type: types.SendTx, To: &x, Amount: need}) != nil {
						h.Stats["contract:fund-voting"]++
					}
				}
				if r.Intn(4) == 0 {
					h.callC(user(), v, b, "startVoting", nil, "early")
				}
			} else {
				h.callC(user(), v, b, "startVoting", nil, "funded")
			}
		case 1:
			dur := next - startBlock
			if v.round == 0 {
				v.round = int(startBlock)
			} else if v.round != int(startBlock) { // prolonged with a new start block: the next round is a normal one
				v.round, v.Locked = int(startBlock), false
			}
			cEpoch, _ := helpers.ExtractUInt16(0, h.cval(v.Addr, "epoch"))
			minPay := new(big.Int).SetBytes(h.cval(v.Addr, "votingMinPayment"))
			if cEpoch != n.App.State.Epoch() && dur < vd {
				h.callC(user(), v, b, "prolongVoting", nil, "new-epoch")
				break
			}
			if dur < vd { // secret voting: the validated users send their vote hashes with the payment
				for i := 1; i <= nU && !v.Locked; i++ {
					if v.votes[i] != nil || !n.App.State.GetIdentityState(w.Addrs[i]).NewbieOrBetter() || r.Intn(2) == 0 {
						continue
					}
					pay := new(big.Int).Add(minPay, Dna(int64(r.Intn(3))))
					if !rich(i, pay) {
						continue
					}
					rec := &voteRec{vote: byte(r.Intn(3)), salt: []byte{byte(i), byte(b), byte(r.Intn(256))}}
					hash := crypto.Hash(append(common.ToBytes(rec.vote), rec.salt...))
					if h.callC(i, v, b, "sendVoteProof", pay, "proof", hash[:]) {
						v.votes[i] = rec
					}
				}
				if r.Intn(6) == 0 {
					h.callC(user(), v, b, "sendVoteProof", big.NewInt(1), "underpaid", []byte{1, 2, 3})
				}
				if r.Intn(8) == 0 {
					h.callC(user(), v, b, "finishVoting", nil, "premature")
				}
				break
			}
			// public voting
			open, all := 0, 0
			for i, rec := range v.votes {
				all++
				if !rec.revealed {
					open++
					if r.Intn(3) != 0 && h.callC(i, v, b, "sendVote", nil, "reveal", []byte{rec.vote}, rec.salt) {
						rec.revealed = true
					}
				}
			}
			switch {
			case all == 0: // nobody voted: no quorum after the secret voting, the voting gets a new seed and start block
				h.callC(user(), v, b, "prolongVoting", nil, "no-votes")
			case open == 0:
				h.callC(user(), v, b, "finishVoting", nil, "all-revealed")
			case r.Intn(5) == 0:
				h.callC(user(), v, b, "finishVoting", nil, "some-secret")
			}
		default: // finished: cannot be terminated for days; try now and then
			if r.Intn(30) == 0 {
				p, _ := attachments.CreateTerminateContractAttachment().ToBytes()
				x := v.Addr
				if h.contractTx(user(), fmt.Sprint("terminate-voting", b), &types.Transaction{Type: types.TerminateContractTx, To: &x, Payload: p}) != nil {
					h.Stats["contract:terminate-voting"]++
				}
			}
		}
		// locks bound to this voting
		nl := 0
		for _, l := range h.Contracts {
			if l.Voting == v && l.Live(n) {
				nl++
			}
		}
		if nl < 2 && st < 2 && r.Intn(5) == 0 {
			i := user()
			if rich(i, minStake) {
				succ, failA := w.Addrs[user()].Bytes(), w.Addrs[user()].Bytes()
				if r.Intn(2) == 0 { // a plain oracle lock
					p, _ := attachments.CreateDeployContractAttachment(embedded.OracleLockContract, nil, nil, v.Addr.Bytes(), []byte{byte(r.Intn(3))}, succ, failA).ToBytes()
					if stx := h.contractTx(i, fmt.Sprint("deploy-lock", b), &types.Transaction{Type: types.DeployContractTx, Amount: new(big.Int).Set(minStake), Payload: p}); stx != nil {
						h.Contracts = append(h.Contracts, &ContractInfo{Addr: env.ComputeContractAddr(stx, w.Addrs[i]), Kind: "lock", Owner: i, Voting: v})
						h.Stats["contract:deploy-lock"]++
					}
				} else { // a refundable one: sometimes without success / fail address (refund path)
					if r.Intn(3) == 0 {
						succ, failA = nil, nil
					}
					dl := now + int64(60*(5+r.Intn(40)))
					p, _ := attachments.CreateDeployContractAttachment(embedded.RefundableOracleLockContract, nil, nil, v.Addr.Bytes(), []byte{byte(r.Intn(3))}, succ, failA,
						u64b(uint64(1+r.Intn(4))), u64b(uint64(dl)), u64b(uint64(r.Intn(3000)))).ToBytes()
					if stx := h.contractTx(i, fmt.Sprint("deploy-rlock", b), &types.Transaction{Type: types.DeployContractTx, Amount: new(big.Int).Set(minStake), Payload: p}); stx != nil {
						h.Contracts = append(h.Contracts, &ContractInfo{Addr: env.ComputeContractAddr(stx, w.Addrs[i]), Kind: "rlock", Owner: i, Voting: v, deadline: dl})
						h.Stats["contract:deploy-rlock"]++
					}
				}
			}
		}
	}
	for _, l := range h.Contracts {
		if l.Voting == nil || !l.Live(n) {
			continue
		}
		vst := h.cbyte(l.Voting.Addr, "state")
		vLive := l.Voting.Live(n)
		switch l.Kind {
		case "lock":
			checked := h.cbyte(l.Addr, "isOracleVotingFinished") == 1
			if !checked && n.App.State.GetBalance(l.Addr).Sign() == 0 && r.Intn(3) == 0 {
				i := user()
				x := l.Addr
				if rich(i, Dna(300)) && h.try(i, fmt.Sprint("fund-lock", b), &types.Transaction{Type: types.SendTx, To: &x, Amount: Dna(int64(5 + r.Intn(200)))}) != nil {
					h.Stats["contract:fund-lock"]++
				}
			}
			switch {
			case vst == 2 && !checked:
				h.callC(user(), l, b, "checkOracleVoting", nil, "finished")
			case checked && n.App.State.GetBalance(l.Addr).Sign() > 0:
				h.callC(user(), l, b, "push", nil, "checked")
			case r.Intn(8) == 0:
				h.callC(user(), l, b, []string{"checkOracleVoting", "push"}[r.Intn(2)], nil, "early")
			case r.Intn(12) == 0: // refused while the voting exists
				p, _ := attachments.CreateTerminateContractAttachment(w.Addrs[user()].Bytes()).ToBytes()
				x := l.Addr
				if h.contractTx(l.Owner, fmt.Sprint("terminate-lock", b), &types.Transaction{Type: types.TerminateContractTx, To: &x, Payload: p}) != nil {
					h.Stats["contract:terminate-lock"]++
				}
			}
		case "rlock":
			lst := h.cbyte(l.Addr, "state")
			switch {
			case lst == 1 && now < l.deadline && r.Intn(2) == 0: // deposits (paid calls; a share goes on to the voting)
				i := user()
				amt := Dna(int64(1 + r.Intn(60)))
				if rich(i, amt) {
					h.callC(i, l, b, "deposit", amt, "open")
				}
			case lst == 1 && now >= l.deadline && r.Intn(6) == 0:
				h.callC(user(), l, b, "deposit", Dna(1), "late")
			case lst == 1 && (vst == 2 || !vLive):
				h.callC(user(), l, b, "push", nil, "voting-finished")
			case lst == 1 && r.Intn(8) == 0:
				h.callC(user(), l, b, "push", nil, "early")
			case lst == 4 && n.App.State.GetBalance(l.Addr).Sign() > 0: // unlocked for refund
				if next >= h.cu64(l.Addr, "refundBlock") {
					if l.round < 3 || r.Intn(8) == 0 { // (a refund that keeps failing — no deposits, only plain funding — is not retried every block)
						l.round++
						h.callC(user(), l, b, "refund", nil, "due")
					}
				} else if r.Intn(3) == 0 {
					h.callC(user(), l, b, "refund", nil, "early")
				}
			case lst >= 2 && n.App.State.GetBalance(l.Addr).Sign() == 0 && r.Intn(4) == 0:
				p, _ := attachments.CreateTerminateContractAttachment(w.Addrs[user()].Bytes()).ToBytes()
				x := l.Addr
				if h.contractTx(l.Owner, fmt.Sprint("terminate-rlock", b), &types.Transaction{Type: types.TerminateContractTx, To: &x, Payload: p}) != nil {
					h.Stats["contract:terminate-rlock"]++
				}
			}
		}
	}
}

// ---------- wasm (bundled test contracts of vm/wasm/testdata; needs upgrade 11) ----------

func (h *History) wasmAction(b int) {
	n, r, w := h.N, h.R, h.W
	fpg := n.App.State.FeePerGas()
	if common.ZeroOrNil(fpg) || !n.Cfg.Consensus.EnableUpgrade11 || len(w.Keys) < 3 {
		return
	}
	h.wasmTightFee(b)
	if r.Intn(2) != 0 {
		return
	}
	nU := len(w.Keys) - 1
	budget := new(big.Int).Mul(fpg, big.NewInt(3000000))
	// validation refuses maxFee / minFeePerGas above the block gas cap ("too high max fee")
	feeCap := new(big.Int).Mul(fee.GetFeePerGasForNetwork(n.App.ValidatorsCache.NetworkSize()), big.NewInt(2400000))
	if budget.Cmp(feeCap) > 0 {
		budget = feeCap
	}
	var incs, sums []*ContractInfo
	pending := 0
	for _, c := range h.Contracts {
		if c.Kind != "wasm-inc" && c.Kind != "wasm-sum" {
			continue
		}
		if c.Addr == (common.Address{}) {
			if rc := n.Chain.GetReceipt(c.deployTx); rc != nil {
				if rc.Success {
					c.Addr = rc.ContractAddress
					h.Stats["contract:"+c.Kind+":deployed"]++
				} else {
					c.deployTx, c.Kind = common.Hash{}, "wasm-failed"
					continue
				}
			} else if n.Pool.GetTx(c.deployTx) == nil { // dropped by the pool
				c.Kind = "wasm-failed"
				continue
			} else {
				pending++
			}
		}
		if c.Addr != (common.Address{}) && c.Live(n) {
			if c.Kind == "wasm-inc" {
				incs = append(incs, c)
			} else {
				sums = append(sums, c)
			}
		}
	}
	i := 1 + r.Intn(nU)
	if n.App.State.GetBalance(w.Addrs[i]).Cmp(new(big.Int).Mul(budget, big.NewInt(3))) < 0 {
		return
	}
	deploy := func(kind string, code []byte, args ...[]byte) {
		p, _ := attachments.CreateDeployContractAttachment(common.Hash{}, code, []byte{byte(b), byte(b >> 8)}, args...).ToBytes()
		tx := &types.Transaction{Type: types.DeployContractTx, Amount: Dna(int64(r.Intn(3))), Payload: p, MaxFee: new(big.Int).Add(budget, budget)}
		if stx := h.try(i, fmt.Sprint("deploy-wasm", b), tx); stx != nil {
			h.Contracts = append(h.Contracts, &ContractInfo{Kind: kind, Owner: i, deployTx: stx.Hash()})
			h.Stats["contract:deploy-"+kind]++
		}
	}
	// first an inc contract, then a sum contract bound to it (sum.invoke calls inc.inc and gets a callback: inner calls)
	switch {
	case pending > 0:
		return
	case len(incs) == 0:
		code, _ := testdata.IncFunc()
		deploy("wasm-inc", code)
		return
	case len(sums) == 0 || len(sums) < 2 && r.Intn(6) == 0:
		code, _ := testdata.SumFunc()
		a := incs[r.Intn(len(incs))].Addr
		if len(sums) > 0 && r.Intn(2) == 0 {
			a = w.Addrs[i] // bound to a plain address: the inner call fails, the callback aborts
		}
		deploy("wasm-sum", code, a.Bytes())
		return
	}
	if r.Intn(3) != 0 { // (wasm execution is slow: about one call in six blocks)
		return
	}
	c := sums[r.Intn(len(sums))]
	method, args := "invoke", [][]byte{u64b(uint64(r.Intn(100))), u64b(uint64(r.Intn(100)))}
	if r.Intn(4) == 0 {
		c = incs[r.Intn(len(incs))]
		method, args = "inc", [][]byte{u64b(uint64(r.Intn(100)))}
	}
	amt := Dna(int64(1 + r.Intn(60))) // the calls carry coins: they must end up on the called contract, once
	if r.Intn(5) == 0 {
		amt = nil
	}
	p, _ := attachments.CreateCallContractAttachment(method, args...).ToBytes()
	x := c.Addr
	tx := &types.Transaction{Type: types.CallContractTx, To: &x, Amount: amt, Payload: p, MaxFee: new(big.Int).Set(budget)}
	if h.try(i, fmt.Sprint("call-wasm", b, x.Hex()), tx) != nil {
		h.Stats["contract:"+c.Kind+"."+method]++
	}
}

// wasmTightFee: wasm deployments of garbage / truncated code and wasm calls whose max fee buys fewer gas units than the wasm
// binding's flat base charges (30 000 per deployment, 1 000 per call; around those boundaries ±1), sent by accounts outside
// the world that own exactly (or one unit more than) max fee + amount: the charged fee must stay within the max fee, the
// account must not be overdrawn.  The account is funded by an ordinary send first, the prepared transaction follows when the
// funds have arrived.
func (h *History) wasmTightFee(b int) {
	n, r, w := h.N, h.R, h.W
	fpg := n.App.State.FeePerGas()
	ep := n.App.State.Epoch()
	npoor := 0
	for _, c := range h.Contracts {
		if c.Kind != "wasm-poor" {
			continue
		}
		npoor++
		if c.tx == nil {
			continue
		}
		if c.tx.Epoch != ep {
			c.tx = nil // prepared for an epoch that is over
			continue
		}
		if n.App.State.GetBalance(c.Addr).Cmp(c.need) >= 0 {
			if err := n.Pool.AddExternalTxs(validation.InboundTx, c.tx); err == nil {
				h.Stats["contract:wasm-tight-fee:offered:"+c.pendName]++
			} else {
				h.Stats["contract:wasm-tight-fee:refused-by-pool"]++
			}
			c.tx = nil
		}
	}
	if r.Intn(6) != 0 || npoor >= 20 {
		return
	}
	key := DetKey(w.Seed, 5000+npoor)
	addr := crypto.PubkeyToAddress(key.PublicKey)
	tx := &types.Transaction{AccountNonce: 1, Epoch: ep}
	var gasOnTop int64
	var name string
	var target *ContractInfo
	for _, c := range h.Contracts {
		if (c.Kind == "wasm-inc" || c.Kind == "wasm-sum") && c.Addr != (common.Address{}) && c.Live(n) {
			target = c
		}
	}
	if target != nil && r.Intn(2) == 0 {
		method, args := "inc", [][]byte{u64b(uint64(r.Intn(100)))}
		if target.Kind == "wasm-sum" {
			method, args = "invoke", [][]byte{u64b(1), u64b(2)}
		}
		p, _ := attachments.CreateCallContractAttachment(method, args...).ToBytes()
		x := target.Addr
		tx.Type, tx.To, tx.Payload = types.CallContractTx, &x, p
		gasOnTop = []int64{0, 1, 500, 999, 1000, 1001, 5000}[r.Intn(7)]
		name = fmt.Sprint("call:", gasOnTop)
	} else {
		code := []byte{byte(r.Intn(256)), byte(r.Intn(256)), byte(r.Intn(256))}
		switch r.Intn(8) {
		case 0, 2:
			code = nil
			full, _ := testdata.IncFunc()
			code = append(code, full[:len(full)/2]...) // a truncated module
		case 1:
			code, _ = testdata.IncFunc() // a valid module that cannot be paid for
		}
		p, _ := attachments.CreateDeployContractAttachment(common.Hash{}, code, []byte{byte(b), byte(npoor)}).ToBytes()
		tx.Type, tx.Payload = types.DeployContractTx, p
		gasOnTop = []int64{0, 100, 1000, 29999, 30000, 30001, 60000}[r.Intn(7)]
		name = fmt.Sprint("deploy:", len(code), "B:", gasOnTop)
	}
	if r.Intn(3) == 0 {
		tx.Amount = Dna(int64(1 + r.Intn(3)))
	}
	tx.MaxFee = Dna(1)
	var stx *types.Transaction
	for it := 0; it < 4; it++ {
		cp := *tx
		var err error
		if stx, err = types.SignTx(&cp, key); err != nil {
			return
		}
		tx.MaxFee = new(big.Int).Add(fee.CalculateFee(n.App.ValidatorsCache.NetworkSize(), fpg, stx), new(big.Int).Mul(fpg, big.NewInt(gasOnTop)))
	}
	cp := *tx
	stx, _ = types.SignTx(&cp, key)
	need := new(big.Int).Add(stx.MaxFee, stx.AmountOrZero())
	if r.Intn(3) == 0 {
		need.Add(need, big.NewInt(1))
	}
	i := 1 + r.Intn(len(w.Keys)-1)
	if n.App.State.GetBalance(w.Addrs[i]).Cmp(new(big.Int).Add(need, Dna(1000))) < 0 {
		return
	}
	if h.try(i, fmt.Sprint("fund-poor", b), &types.Transaction{Type: types.SendTx, To: &addr, Amount: need}) != nil {
		h.Contracts = append(h.Contracts, &ContractInfo{Addr: addr, Kind: "wasm-poor", tx: stx, need: need, pendName: name})
		h.Stats["contract:wasm-tight-fee:funded"]++
	}
}
