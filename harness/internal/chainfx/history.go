package chainfx

import (
	"bytes"
	"crypto/ecdsa"
	"fmt"
	"math/rand"
	"time"

	"github.com/idena-network/idena-go/blockchain/attachments"
	"github.com/idena-network/idena-go/blockchain/types"
	"github.com/idena-network/idena-go/common"
	"github.com/idena-network/idena-go/config"
	"github.com/idena-network/idena-go/core/ceremony"
	"github.com/idena-network/idena-go/core/state"
	"github.com/idena-network/idena-go/crypto"
	"github.com/idena-network/idena-go/crypto/vrf/p256"
	"github.com/idena-network/idena-go/ipfs"
)

// HistoryOpts shapes a generated chain history on a real node.
type HistoryOpts struct {
	Blocks       int
	TxPerBlock   int           // upper bound of random ordinary txs offered per block (default 3)
	ShortEpochs  bool          // shrink the validation timeline so that epochs complete within ~45 blocks
	WithFlips    bool          // authors submit flips between ceremonies
	Onboard      bool          // identities with invitations invite key holders that have no identity (fresh or terminated), who activate
	OnlineAtOnce bool          // the Always users go online in the first block after every epoch change (before anybody else can)
	MoreTypes    bool          // also DeleteFlipTx (of an own flip) and StoreToIpfsTx among the random transactions
	NoOnline     bool          // nobody ever goes online (the chain stays in god mode: only the god address may propose)
	MoreFlips    bool          // ... up to the maximum the identity may submit (extra flips of Verified / Human authors)
	BlockStep    time.Duration // virtual time between blocks (default 20 s)
	EmptyEvery   int           // every k-th block is proposed from an empty mempool view? (0 = never) – handled by caller
	Participate  float64       // probability that a user takes part in a ceremony (default 0.75); god always does
	Always       map[int]bool  // users that always take part (e.g. the key of a second proposing replica)
	Contracts    bool          // users deploy / fund / call / terminate real embedded contracts (TimeLock, Multisig) in the None period (contracts.go)
}

func ShortValidation() *config.ValidationConfig {
	return &config.ValidationConfig{ValidationInterval: 30 * time.Minute, FlipLotteryDuration: 2 * time.Minute,
		ShortSessionDuration: 1 * time.Minute, LongSessionDuration: 2 * time.Minute}
}

// History drives one node (the proposer, key 0 = god) through a generated history.
// cerPlan is what one participant does in one ceremony: consistent short and long answers (so that flips reach a
// consensus and qualify), the salt and VRF proof that tie them together.
type cerPlan struct {
	epoch               uint16
	short, long         []byte
	salt, proof, hashed []byte
}

type History struct {
	plans     map[int]*cerPlan
	W         *World
	N         *Node
	R         *rand.Rand
	O         HistoryOpts
	S         *Sender
	Stats     map[string]int
	sent      map[string]bool
	part      map[int]bool
	lastP     state.ValidationPeriod
	Height    int
	Contracts []*ContractInfo // contracts deployed by this history (HistoryOpts.Contracts)
}

func NewHistory(w *World, n *Node, r *rand.Rand, o HistoryOpts) *History {
	if o.TxPerBlock == 0 {
		o.TxPerBlock = 3
	}
	if o.BlockStep == 0 {
		o.BlockStep = 20 * time.Second
	}
	if o.Participate == 0 {
		o.Participate = 0.75
	}
	return &History{W: w, N: n, R: r, O: o, S: NewSender(w), Stats: map[string]int{}, sent: map[string]bool{}, part: map[int]bool{}, lastP: state.NonePeriod}
}

func (h *History) try(i int, what string, tx *types.Transaction) *types.Transaction {
	ep := h.N.App.State.Epoch()
	key := fmt.Sprintf("%d-%d-%s", ep, i, what)
	if h.sent[key] {
		return nil
	}
	stx, err := h.S.Send(h.N, i, tx)
	if err == nil {
		h.sent[key] = true
		h.Stats["tx-ok:"+txName(tx.Type)]++
		return stx
	}
	h.Stats["tx-rej:"+txName(tx.Type)]++
	return nil
}

func txName(t uint16) string {
	names := map[uint16]string{0: "send", 1: "activation", 2: "invite", 3: "kill", 4: "flip", 5: "answers-hash", 6: "short-answers",
		7: "long-answers", 8: "evidence", 9: "online", 0xA: "kill-invitee", 0xB: "change-god", 0xC: "burn", 0xD: "profile", 0xE: "delete-flip",
		0xF: "deploy", 0x10: "call", 0x11: "terminate", 0x12: "delegate", 0x13: "undelegate", 0x14: "kill-delegator", 0x15: "store-ipfs", 0x16: "replenish"}
	if n, ok := names[t]; ok {
		return n
	}
	return fmt.Sprint("type-", t)
}

// OfferTxs submits this block's generated transactions to the node's pool (depends on the validation period).
func (h *History) OfferTxs(b int) {
	A, r, w := h.N, h.R, h.W
	nU := len(w.Keys) - 1
	period := A.App.State.ValidationPeriod()
	ep := A.App.State.Epoch()
	if period != h.lastP {
		h.Stats[fmt.Sprintf("enter-period-%d", period)]++
		h.lastP = period
		if period == state.FlipLotteryPeriod {
			for i := range w.Keys {
				h.part[i] = (i == 0 && h.O.Participate >= 0) || h.O.Always[i] || r.Float64() < h.O.Participate // Participate < 0: nobody, the validation fails
			}
		}
	}
	switch period {
	case state.NonePeriod:
		if h.O.WithFlips {
			for i := range w.Keys {
				id := A.App.State.GetIdentity(w.Addrs[i])
				lim := 3
				if h.O.MoreFlips {
					lim = int(id.GetMaximumAvailableFlips())
				}
				must := (i == 0 || h.O.Always[i]) && len(id.Flips) < int(id.RequiredFlips) // the proposing identities make their required flips at once
				if (i == 0 || id.RequiredFlips > 0) && len(id.Flips) < lim && (must || r.Intn(3) == 0 || h.O.MoreFlips && r.Intn(2) == 0) {
					c, _ := ipfs.NewMemoryIpfsProxy().Cid([]byte(fmt.Sprint("flip", ep, i, len(id.Flips), b)))
					h.try(i, fmt.Sprint("flip", b), &types.Transaction{Type: types.SubmitFlipTx, Payload: attachments.CreateFlipSubmitAttachment(c.Bytes(), uint8(len(id.Flips)))})
				}
			}
		}
		if h.O.Contracts {
			h.OfferContractTxs(b)
		}
		for i := range h.O.Always {
			// users that must stay able to propose: back online after every epoch change, no random transactions
			if A.App.ValidatorsCache.IsValidated(w.Addrs[i]) && !A.App.ValidatorsCache.IsOnlineIdentity(w.Addrs[i]) && (b%6 == 0 || h.O.OnlineAtOnce && len(A.Pool.GetPendingByAddress(w.Addrs[i])) == 0) {
				h.try(i, fmt.Sprint("online-always", b), OnlineTx(true))
			}
		}
		if h.O.Onboard {
			for j := 1; j < len(w.Keys); j++ {
				switch A.App.State.GetIdentityState(w.Addrs[j]) {
				case state.Undefined:
					if r.Intn(5) != 0 {
						continue
					}
					// an inviter: the god address while it has invitations, else anybody who has one
					inv := -1
					if A.App.State.GodAddressInvites() > 0 && A.App.State.GodAddress() == w.Addrs[0] {
						inv = 0
					}
					for i := 1; i < len(w.Keys) && inv < 0; i++ {
						if A.App.State.GetInvites(w.Addrs[i]) > 0 {
							inv = i
						}
					}
					if inv >= 0 {
						to := w.Addrs[j]
						h.try(inv, fmt.Sprint("invite-key", j, b), &types.Transaction{Type: types.InviteTx, To: &to, Amount: Dna(300)})
					}
				case state.Invite:
					if r.Intn(2) == 0 {
						to := w.Addrs[j]
						h.try(j, fmt.Sprint("activate", b), &types.Transaction{Type: types.ActivationTx, To: &to, Payload: crypto.FromECDSAPub(&w.Keys[j].PublicKey)})
					}
				case state.Candidate:
					// a candidate as a pool: a validated identity delegates to it, the pool goes online, and now and then the
					// candidate's inviter terminates it (KillInviteeTx) while it is an online pool
					to := w.Addrs[j]
					id := A.App.State.GetIdentity(to)
					switch {
					case !A.App.ValidatorsCache.IsPool(to) && r.Intn(6) == 0:
						for d := 1; d < len(w.Keys); d++ {
							if d != j && !h.O.Always[d] && A.App.ValidatorsCache.IsValidated(w.Addrs[d]) && A.App.State.Delegatee(w.Addrs[d]) == nil && r.Intn(3) == 0 {
								h.try(d, fmt.Sprint("delegate-to-candidate", j, b), &types.Transaction{Type: types.DelegateTx, To: &to})
								break
							}
						}
					case A.App.ValidatorsCache.IsPool(to) && !A.App.ValidatorsCache.IsOnlineIdentity(to) && !h.O.NoOnline && r.Intn(3) == 0:
						h.try(j, fmt.Sprint("pool-online", b), OnlineTx(true))
					case A.App.ValidatorsCache.IsPool(to) && A.App.ValidatorsCache.IsOnlineIdentity(to) && id.Inviter != nil && r.Intn(5) == 0:
						if inv := w.Index(id.Inviter.Address); inv >= 0 {
							h.try(inv, fmt.Sprint("kill-online-pool-candidate", j, b), &types.Transaction{Type: types.KillInviteeTx, To: &to})
						}
					}
				}
			}
		}
		if h.O.MoreTypes && r.Intn(3) == 0 {
			i := 1 + r.Intn(nU)
			if !h.O.Always[i] {
				if id := A.App.State.GetIdentity(w.Addrs[i]); len(id.Flips) > 0 && r.Intn(2) == 0 {
					h.try(i, fmt.Sprint("delete-flip", b), &types.Transaction{Type: types.DeleteFlipTx, Payload: attachments.CreateDeleteFlipAttachment(id.Flips[r.Intn(len(id.Flips))].Cid)})
				} else {
					c, _ := ipfs.NewMemoryIpfsProxy().Cid([]byte(fmt.Sprint("stored", ep, i, b)))
					h.try(i, fmt.Sprint("store-ipfs", b), &types.Transaction{Type: types.StoreToIpfsTx, Payload: attachments.CreateStoreToIpfsAttachment(c.Bytes(), uint32(1+r.Intn(100000)))})
				}
			}
		}
		for j, n := 0, r.Intn(h.O.TxPerBlock+1); j < n; j++ {
			i := 1 + r.Intn(nU)
			if h.O.Always[i] {
				continue
			}
			to := w.Addrs[r.Intn(len(w.Addrs))]
			switch r.Intn(12) {
			case 0:
				h.try(i, fmt.Sprint("delegate", b, j), &types.Transaction{Type: types.DelegateTx, To: &to})
			case 1:
				h.try(i, fmt.Sprint("undelegate", b, j), &types.Transaction{Type: types.UndelegateTx})
			case 2:
				if !h.O.NoOnline {
					h.try(i, fmt.Sprint("online", b, j), OnlineTx(r.Intn(2) == 0))
				}
			case 3:
				h.try(i, fmt.Sprint("replenish", b, j), &types.Transaction{Type: types.ReplenishStakeTx, To: &to, Amount: Dna(int64(r.Intn(50)))})
			case 4:
				h.try(i, fmt.Sprint("burn", b, j), &types.Transaction{Type: types.BurnTx, Amount: Dna(int64(r.Intn(20))), Payload: attachments.CreateBurnAttachment("k")})
			case 5:
				h.try(i, fmt.Sprint("killdeleg", b, j), &types.Transaction{Type: types.KillDelegatorTx, To: &to})
			case 6:
				if r.Intn(4) == 0 {
					h.try(i, fmt.Sprint("kill", b, j), &types.Transaction{Type: types.KillTx})
				}
			case 7:
				fresh := common.Address{0xAB, byte(b), byte(j), byte(i)}
				h.try(i, fmt.Sprint("invite", b, j), &types.Transaction{Type: types.InviteTx, To: &fresh, Amount: Dna(int64(r.Intn(5)))})
			case 8:
				h.try(i, fmt.Sprint("killinvitee", b, j), &types.Transaction{Type: types.KillInviteeTx, To: &to})
			case 9:
				hh := crypto.Hash([]byte{byte(b), byte(j)})
				h.try(i, fmt.Sprint("profile", b, j), &types.Transaction{Type: types.ChangeProfileTx, Payload: attachments.CreateChangeProfileAttachment(hh[:])})
			default:
				h.try(i, fmt.Sprint("send", b, j), &types.Transaction{Type: types.SendTx, To: &to, Amount: Dna(int64(r.Intn(50)))})
			}
		}
	case state.ShortSessionPeriod:
		for i := range w.Keys {
			if h.part[i] {
				pl := h.plan(i)
				h.try(i, "answers-hash", &types.Transaction{Type: types.SubmitAnswersHashTx, Payload: pl.hashed})
			}
		}
	case state.LongSessionPeriod:
		for i := range w.Keys {
			if !h.part[i] {
				continue
			}
			pl := h.plan(i)
			h.try(i, "short-answers", &types.Transaction{Type: types.SubmitShortAnswersTx, Payload: attachments.CreateShortAnswerAttachment(pl.short, ceremony.FxWordsRnd(pl.proof), 1)})
			la := &attachments.LongAnswerAttachment{Answers: pl.long, Proof: pl.proof, Key: []byte{1}, Salt: pl.salt}
			lpay, _ := la.ToBytes()
			first := h.try(i, "long-answers", &types.Transaction{Type: types.SubmitLongAnswersTx, Payload: lpay})
			if first != nil && r.Intn(4) == 0 {
				// the same participant submits a second, different long-answers transaction within the same block interval
				// (next nonce): acceptable to the pool now, a duplicate once the first one is applied
				if _, err := h.S.Send(A, i, &types.Transaction{Type: types.SubmitLongAnswersTx, Payload: LongAnswersPayload(A, w.Keys[i], []byte{byte(r.Intn(256)), 1, 2})}); err == nil {
					h.Stats["tx-ok:long-answers-second"]++
				}
			}
			if A.VC != nil {
				sid, idx, total := A.VC.FxCandidateIndex(w.Addrs[i])
				if idx >= 0 {
					bm := common.NewBitmap(uint32(total))
					for j := range w.Keys {
						if s2, ix, _ := A.VC.FxCandidateIndex(w.Addrs[j]); s2 == sid && ix >= 0 && (h.part[j] || r.Intn(5) == 0) {
							bm.Add(uint32(ix))
						}
					}
					buf := new(bytes.Buffer)
					bm.WriteTo(buf)
					h.try(i, "evidence", &types.Transaction{Type: types.EvidenceTx, Payload: buf.Bytes()})
				}
			}
		}
	}
}

// plan returns (creating on first use in an epoch) participant i's ceremony plan.  Most participants answer "left" on
// every flip with grade A, so flips qualify by consensus and authors are rewarded; the others answer at random.  One
// flip index is reported by everybody who answers consistently.
func (h *History) plan(i int) *cerPlan {
	A, r, w := h.N, h.R, h.W
	ep := A.App.State.Epoch()
	if h.plans == nil {
		h.plans = map[int]*cerPlan{}
	}
	if pl, ok := h.plans[i]; ok && pl.epoch == ep {
		return pl
	}
	nShort, nLong := 0, 0
	if A.VC != nil {
		nShort, nLong = A.VC.FxFlipsToSolve(w.Addrs[i])
	}
	good := i == 0 || h.O.Always[i] || r.Intn(5) != 0 // the proposing identities must stay validated
	// the consistent participants report the same flips: about one flip in six (by its cid), never one of an identity that
	// must stay validated (an author of a reported flip fails the validation)
	var longCids [][]byte
	protected := map[string]bool{}
	if A.VC != nil {
		longCids = A.VC.FxLongFlipCids(w.Addrs[i])
		for k := range w.Keys {
			if k == 0 || h.O.Always[k] {
				for _, fl := range A.App.State.GetIdentity(w.Addrs[k]).Flips {
					protected[string(fl.Cid)] = true
				}
			}
		}
	}
	reported := func(f int) bool {
		if f >= len(longCids) || len(longCids[f]) == 0 {
			return false
		}
		c := longCids[f]
		return c[len(c)-1]%6 == 0 && !protected[string(c)]
	}
	mk := func(n int, long bool) []byte {
		if n == 0 {
			return []byte{byte(r.Intn(256))}
		}
		a := types.NewAnswers(uint(n))
		for f := 0; f < n; f++ {
			switch {
			case good || r.Intn(2) == 0:
				a.Left(uint(f))
			case r.Intn(2) == 0:
				a.Right(uint(f))
			}
			if long {
				if good && reported(f) {
					a.Grade(uint(f), types.GradeReported)
				} else if good || r.Intn(2) == 0 {
					a.Grade(uint(f), types.GradeA)
				}
			}
		}
		b := a.Bytes()
		if len(b) == 0 {
			b = []byte{0}
		}
		return b
	}
	pl := &cerPlan{epoch: ep, short: mk(nShort, false), long: mk(nLong, true), salt: []byte{5, byte(i)}}
	pl.proof = []byte{1, 2, 3}
	if signer, err := p256.NewVRFSigner(w.Keys[i]); err == nil {
		seed := A.App.State.FlipWordsSeed()
		_, pl.proof = signer.Evaluate(seed[:])
	}
	hh := crypto.Hash(append(append([]byte{}, pl.short...), pl.salt...))
	pl.hashed = hh[:]
	h.plans[i] = pl
	return pl
}

// LongAnswersPayload builds a long-answers attachment with a real VRF proof over the state's flip words seed (the proof
// is verified from epoch 1 on).
func LongAnswersPayload(n *Node, key *ecdsa.PrivateKey, answers []byte) []byte {
	proof := []byte{1, 2, 3}
	if signer, err := p256.NewVRFSigner(key); err == nil {
		seed := n.App.State.FlipWordsSeed()
		_, proof = signer.Evaluate(seed[:])
	}
	la := &attachments.LongAnswerAttachment{Answers: answers, Proof: proof, Key: []byte{1}, Salt: []byte{5}}
	lp, _ := la.ToBytes()
	return lp
}

// Step offers transactions, advances the virtual clock, proposes and inserts one block. Returns the block.
func (h *History) Step(b int) (*types.Block, error) {
	h.OfferTxs(b)
	Advance(h.O.BlockStep)
	if !h.N.IsEligibleProposer() {
		return nil, ErrNotEligible
	}
	p, err := h.N.Propose()
	if err != nil {
		return nil, err
	}
	if err := h.N.Add(p.Block); err != nil {
		return nil, fmt.Errorf("own block rejected: %w", err)
	}
	h.Height = int(p.Block.Height())
	return p.Block, nil
}

var ErrNotEligible = fmt.Errorf("proposer no longer eligible")

// Bootstrap: set the virtual clock, start the god node, mine one block (so that FeePerGas is set) and put god online.
func Bootstrap(w *World, o HistoryOpts, r *rand.Rand, attachCeremony bool) (*History, error) {
	SetTime(w.T0)
	if o.ShortEpochs {
		w.Opts.Validation = ShortValidation()
		w.Opts.FirstCeremony = w.T0.Add(8 * time.Minute).Unix()
	}
	n, err := w.StartNode(nil, 0, attachCeremony)
	if err != nil {
		return nil, err
	}
	h := NewHistory(w, n, r, o)
	if !o.NoOnline {
		if _, err := h.S.Send(n, 0, OnlineTx(true)); err != nil {
			return nil, fmt.Errorf("god online tx: %w", err)
		}
	}
	return h, nil
}
