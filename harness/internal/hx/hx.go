// Package hx: shared plumbing of the correspondence harness (streams, report, PRNG, hex tokens).
package hx

import (
	"bufio"
	"encoding/hex"
	"encoding/json"
	"flag"
	"fmt"
	"math/rand"
	"os"
	"path/filepath"
	"sort"
)

// Failure is one property-oracle failure (independent of the Lean model) found on the implementation.
type Failure struct {
	Signature string      `json:"signature"` // stable class of the failure (used by known_findings.json)
	Detail    string      `json:"detail"`
	Replay    interface{} `json:"replay"` // the concrete input / op sequence / history
}

type Report struct {
	Property    string                 `json:"property"`
	Tier        string                 `json:"tier"`
	Seed        int64                  `json:"seed"`
	Evaluations int                    `json:"evaluations"`
	Distinct    int                    `json:"distinct_nontrivial"`
	Rule        string                 `json:"rule"`
	Samples     []interface{}          `json:"samples"`
	Coverage    map[string]interface{} `json:"coverage"`
	Failures    []Failure              `json:"failures"`
	Notes       []string               `json:"notes,omitempty"`
}

// Ctx is what a channel implementation gets.
type Ctx struct {
	Tier   string
	Seed   int64
	Out    string
	Replay string
	Rng    *rand.Rand
	ops    *bufio.Writer
	impl   *bufio.Writer
	opsF   *os.File
	implF  *os.File
	Rep    *Report
	Lines  int
	hist   map[string]int
	seen   map[string]struct{}
}

func NewCtx(prop, tier string, seed int64, out, replay string) (*Ctx, error) {
	if err := os.MkdirAll(out, 0755); err != nil {
		return nil, err
	}
	of, err := os.Create(filepath.Join(out, "ops.txt"))
	if err != nil {
		return nil, err
	}
	imf, err := os.Create(filepath.Join(out, "impl.txt"))
	if err != nil {
		return nil, err
	}
	return &Ctx{Tier: tier, Seed: seed, Out: out, Replay: replay, Rng: rand.New(rand.NewSource(seed)),
		ops: bufio.NewWriterSize(of, 1<<20), impl: bufio.NewWriterSize(imf, 1<<20), opsF: of, implF: imf,
		Rep:  &Report{Property: prop, Tier: tier, Seed: seed, Coverage: map[string]interface{}{}},
		hist: map[string]int{}, seen: map[string]struct{}{}}, nil
}

// Line writes one op line for the Lean model and the implementation's canonical answer to it.
func (c *Ctx) Line(op, implAnswer string) {
	c.ops.WriteString(op)
	c.ops.WriteByte('\n')
	c.impl.WriteString(implAnswer)
	c.impl.WriteByte('\n')
	c.Lines++
}

// Scale picks the number of cases for the tier (quick / search = 10x quick / thorough).
func (c *Ctx) Scale(quick, thorough int) int {
	switch c.Tier {
	case "thorough":
		return thorough
	case "search":
		return quick * 10
	}
	return quick
}

// Hit counts a generator/branch/error-kind bucket for the printed input distribution.
func (c *Ctx) Hit(bucket string) { c.hist[bucket]++ }

// HitN adds n to a bucket (merging the histogram of a child process).
func (c *Ctx) HitN(bucket string, n int) { c.hist[bucket] += n }

// Distinct records a canonical case key; returns true when new.
func (c *Ctx) Distinct(key string) bool {
	if _, ok := c.seen[key]; ok {
		return false
	}
	c.seen[key] = struct{}{}
	return true
}

func (c *Ctx) Fail(sig, detail string, replay interface{}) {
	if len(c.Rep.Failures) < 50 {
		c.Rep.Failures = append(c.Rep.Failures, Failure{sig, detail, replay})
	}
}

func (c *Ctx) Sample(s interface{}) {
	if len(c.Rep.Samples) < 5 {
		c.Rep.Samples = append(c.Rep.Samples, s)
	}
}

func (c *Ctx) Close() error {
	c.ops.Flush()
	c.impl.Flush()
	c.opsF.Close()
	c.implF.Close()
	keys := make([]string, 0, len(c.hist))
	for k := range c.hist {
		keys = append(keys, k)
	}
	sort.Strings(keys)
	d := map[string]int{}
	for _, k := range keys {
		d[k] = c.hist[k]
	}
	c.Rep.Coverage["distribution"] = d
	c.Rep.Coverage["protocol_lines"] = c.Lines
	if c.Rep.Distinct == 0 {
		c.Rep.Distinct = len(c.seen)
	}
	if c.Rep.Failures == nil {
		c.Rep.Failures = []Failure{}
	}
	b, _ := json.MarshalIndent(c.Rep, "", " ")
	return os.WriteFile(filepath.Join(c.Out, "report.json"), b, 0644)
}

// Hex token: nil -> "-", bytes -> "x<hex>".
func Hex(b []byte) string {
	if b == nil {
		return "-"
	}
	return "x" + hex.EncodeToString(b)
}

func UnHex(s string) ([]byte, error) {
	if s == "-" {
		return nil, nil
	}
	if len(s) == 0 || s[0] != 'x' {
		return nil, fmt.Errorf("bad hex token %q", s)
	}
	b, err := hex.DecodeString(s[1:])
	if err != nil {
		return nil, err
	}
	if b == nil {
		b = []byte{}
	}
	return b, nil
}

// Channel is one property's correspondence + oracle run.
type Channel func(c *Ctx) error

var Channels = map[string]Channel{}

func Register(id string, ch Channel) { Channels[id] = ch }

// Main is the entry point of every per-property harness binary:
//
//	<bin> <channel> -tier quick|search|thorough -seed N -out DIR [-replay FILE]
//
// It runs the real idena-go code (built from /repo's working tree through the overlay) on generated inputs,
// writes DIR/ops.txt (operation lines for the Lean model), DIR/impl.txt (the implementation's canonical
// answers, line by line) and DIR/report.json (coverage + failures of the independent Go property oracle).
func Main() {
	if len(os.Args) < 2 {
		fmt.Fprintln(os.Stderr, "usage: <bin> <channel> [flags]")
		os.Exit(2)
	}
	id := os.Args[1]
	fs := flag.NewFlagSet("corr", flag.ExitOnError)
	tier := fs.String("tier", "quick", "quick|search|thorough")
	seed := fs.Int64("seed", 1, "PRNG seed")
	out := fs.String("out", "", "output directory")
	replay := fs.String("replay", "", "replay file")
	fs.Parse(os.Args[2:])
	ch, ok := Channels[id]
	if !ok {
		fmt.Fprintln(os.Stderr, "unknown channel", id)
		os.Exit(2)
	}
	if *out == "" {
		fmt.Fprintln(os.Stderr, "-out required")
		os.Exit(2)
	}
	c, err := NewCtx(id, *tier, *seed, *out, *replay)
	if err != nil {
		fmt.Fprintln(os.Stderr, err)
		os.Exit(2)
	}
	runErr := ch(c)
	if err := c.Close(); err != nil {
		fmt.Fprintln(os.Stderr, err)
		os.Exit(2)
	}
	if runErr != nil {
		fmt.Fprintln(os.Stderr, "channel error:", runErr)
		os.Exit(3)
	}
}
