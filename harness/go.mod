module verifharness

go 1.23

// Generated from /repo/go.mod (all of its requirements verbatim, so that no module query is ever needed offline).
require github.com/idena-network/idena-go v0.0.0

require (
	bazil.org/fuse v0.0.0-20200407214033-5883e5a4b512 // indirect
	github.com/AndreasBriese/bbloom v0.0.0-20190825152654-46b345b51c96 // indirect
	github.com/DataDog/zstd v1.4.1 // indirect
	github.com/RoaringBitmap/roaring v0.9.4
	github.com/Stebalien/go-bitfield v0.0.1 // indirect
	github.com/alecthomas/units v0.0.0-20210927113745-59d0afb8317a // indirect
	github.com/alexbrainman/goissue34681 v0.0.0-20191006012335-3fc7a47baff5 // indirect
	github.com/andybalholm/brotli v1.0.3 // indirect
	github.com/aristanetworks/goarista v0.0.0-20190704150520-f44d68189fd7
	github.com/awnumar/memcall v0.0.0-20191004114545-73db50fd9f80 // indirect
	github.com/awnumar/memguard v0.22.2
	github.com/benbjohnson/clock v1.3.0 // indirect
	github.com/beorn7/perks v1.0.1 // indirect
	github.com/bits-and-blooms/bitset v1.2.0 // indirect
	github.com/blang/semver/v4 v4.0.0 // indirect
	github.com/btcsuite/btcd/btcec/v2 v2.2.0 // indirect
	github.com/cenkalti/backoff v2.2.1+incompatible // indirect
	github.com/cenkalti/backoff/v4 v4.1.3 // indirect
	github.com/ceramicnetwork/go-dag-jose v0.1.0 // indirect
	github.com/cespare/cp v1.1.1
	github.com/cespare/xxhash v1.1.0 // indirect
	github.com/cespare/xxhash/v2 v2.1.2 // indirect
	github.com/cheekybits/genny v1.0.0 // indirect
	github.com/confio/ics23/go v0.6.6 // indirect
	github.com/containerd/cgroups v1.0.4 // indirect
	github.com/coreos/go-semver v0.3.0
	github.com/coreos/go-systemd/v22 v22.3.2 // indirect
	github.com/cosmos/gorocksdb v1.2.0 // indirect
	github.com/cosmos/iavl v0.15.3
	github.com/cpuguy83/go-md2man/v2 v2.0.0 // indirect
	github.com/crackcomm/go-gitignore v0.0.0-20170627025303-887ab5e44cc3 // indirect
	github.com/cskr/pubsub v1.0.2 // indirect
	github.com/davecgh/go-spew v1.1.1
	github.com/davidlazar/go-crypto v0.0.0-20200604182044-b73af7476f6c // indirect
	github.com/deckarep/golang-set v1.7.1
	github.com/decred/dcrd/dcrec/secp256k1/v4 v4.0.1 // indirect
	github.com/dgraph-io/badger v1.6.2 // indirect
	github.com/dgraph-io/badger/v2 v2.2007.2 // indirect
	github.com/dgraph-io/ristretto v0.0.3-0.20200630154024-f66de99634de // indirect
	github.com/dgryski/go-farm v0.0.0-20190423205320-6a90982ecee2 // indirect
	github.com/docker/go-units v0.4.0 // indirect
	github.com/dsnet/compress v0.0.1 // indirect
	github.com/dustin/go-humanize v1.0.0 // indirect
	github.com/elastic/gosigar v0.14.2 // indirect
	github.com/facebookgo/atomicfile v0.0.0-20151019160806-2de1f203e7d5 // indirect
	github.com/flynn/noise v1.0.0 // indirect
	github.com/francoispqt/gojay v1.2.13 // indirect
	github.com/fsnotify/fsnotify v1.5.4 // indirect
	github.com/go-logr/logr v1.2.3 // indirect
	github.com/go-logr/stdr v1.2.2 // indirect
	github.com/go-stack/stack v1.8.1
	github.com/go-task/slim-sprig v0.0.0-20210107165309-348f09dbbbc0 // indirect
	github.com/godbus/dbus/v5 v5.1.0 // indirect
	github.com/gogo/protobuf v1.3.2 // indirect
	github.com/golang/protobuf v1.5.2
	github.com/golang/snappy v0.0.4 // indirect
	github.com/google/btree v1.0.0 // indirect
	github.com/google/gopacket v1.1.19 // indirect
	github.com/google/tink/go v0.0.0-20200401233402-a389e601043a
	github.com/google/uuid v1.3.0 // indirect
	github.com/gopherjs/gopherjs v0.0.0-20190910122728-9d188e94fb99 // indirect
	github.com/gorilla/websocket v1.5.0 // indirect
	github.com/grpc-ecosystem/grpc-gateway v1.16.0 // indirect
	github.com/grpc-ecosystem/grpc-gateway/v2 v2.7.0 // indirect
	github.com/hannahhoward/go-pubsub v0.0.0-20200423002714-8d62886cc36e // indirect
	github.com/hashicorp/errwrap v1.1.0 // indirect
	github.com/hashicorp/go-multierror v1.1.1 // indirect
	github.com/hashicorp/golang-lru v0.5.4 // indirect
	github.com/huin/goupnp v1.0.3 // indirect
	github.com/ipfs/bbloom v0.0.4 // indirect
	github.com/ipfs/go-bitfield v1.0.0 // indirect
	github.com/ipfs/go-bitswap v0.9.0 // indirect
	github.com/ipfs/go-block-format v0.0.3 // indirect
	github.com/ipfs/go-blockservice v0.4.0
	github.com/ipfs/go-cid v0.2.0
	github.com/ipfs/go-cidutil v0.1.0 // indirect
	github.com/ipfs/go-datastore v0.5.1 // indirect
	github.com/ipfs/go-delegated-routing v0.3.0 // indirect
	github.com/ipfs/go-ds-badger v0.3.0 // indirect
	github.com/ipfs/go-ds-flatfs v0.5.1 // indirect
	github.com/ipfs/go-ds-leveldb v0.5.0 // indirect
	github.com/ipfs/go-ds-measure v0.2.0 // indirect
	github.com/ipfs/go-fetcher v1.6.1 // indirect
	github.com/ipfs/go-filestore v1.2.0 // indirect
	github.com/ipfs/go-fs-lock v0.0.7 // indirect
	github.com/ipfs/go-graphsync v0.13.1 // indirect
	github.com/ipfs/go-ipfs-blockstore v1.2.0 // indirect
	github.com/ipfs/go-ipfs-chunker v0.0.5 // indirect
	github.com/ipfs/go-ipfs-delay v0.0.1 // indirect
	github.com/ipfs/go-ipfs-ds-help v1.1.0 // indirect
	github.com/ipfs/go-ipfs-exchange-interface v0.2.0 // indirect
	github.com/ipfs/go-ipfs-exchange-offline v0.3.0 // indirect
	github.com/ipfs/go-ipfs-files v0.1.1
	github.com/ipfs/go-ipfs-keystore v0.0.2 // indirect
	github.com/ipfs/go-ipfs-pinner v0.2.1 // indirect
	github.com/ipfs/go-ipfs-posinfo v0.0.1 // indirect
	github.com/ipfs/go-ipfs-pq v0.0.2 // indirect
	github.com/ipfs/go-ipfs-provider v0.7.1 // indirect
	github.com/ipfs/go-ipfs-routing v0.2.1 // indirect
	github.com/ipfs/go-ipfs-util v0.0.2 // indirect
	github.com/ipfs/go-ipld-cbor v0.0.5 // indirect
	github.com/ipfs/go-ipld-format v0.4.0 // indirect
	github.com/ipfs/go-ipld-git v0.1.1 // indirect
	github.com/ipfs/go-ipld-legacy v0.1.1 // indirect
	github.com/ipfs/go-ipns v0.1.2 // indirect
	github.com/ipfs/go-log v1.0.5 // indirect
	github.com/ipfs/go-log/v2 v2.5.1 // indirect
	github.com/ipfs/go-merkledag v0.6.0
	github.com/ipfs/go-metrics-interface v0.0.1 // indirect
	github.com/ipfs/go-mfs v0.2.1
	github.com/ipfs/go-namesys v0.5.0 // indirect
	github.com/ipfs/go-path v0.3.0 // indirect
	github.com/ipfs/go-peertaskqueue v0.7.1 // indirect
	github.com/ipfs/go-unixfs v0.4.0
	github.com/ipfs/go-unixfsnode v1.4.0 // indirect
	github.com/ipfs/go-verifcid v0.0.2 // indirect
	github.com/ipfs/interface-go-ipfs-core v0.7.0
	github.com/ipfs/kubo v0.15.0
	github.com/ipld/edelweiss v0.1.4 // indirect
	github.com/ipld/go-codec-dagpb v1.4.1 // indirect
	github.com/ipld/go-ipld-prime v0.17.0 // indirect
	github.com/jackpal/go-nat-pmp v1.0.2 // indirect
	github.com/jbenet/go-temp-err-catcher v0.1.0 // indirect
	github.com/jbenet/goprocess v0.1.4 // indirect
	github.com/jmhodges/levigo v1.0.0 // indirect
	github.com/klauspost/compress v1.15.5
	github.com/klauspost/cpuid/v2 v2.0.14 // indirect
	github.com/klauspost/pgzip v1.2.5 // indirect
	github.com/koron/go-ssdp v0.0.3 // indirect
	github.com/kr/pretty v0.3.0 // indirect
	github.com/kr/text v0.2.0 // indirect
	github.com/libp2p/go-buffer-pool v0.1.0 // indirect
	github.com/libp2p/go-cidranger v1.1.0 // indirect
	github.com/libp2p/go-doh-resolver v0.4.0 // indirect
	github.com/libp2p/go-eventbus v0.2.1 // indirect
	github.com/libp2p/go-flow-metrics v0.0.3 // indirect
	github.com/libp2p/go-libp2p v0.21.0 // indirect
	github.com/libp2p/go-libp2p-asn-util v0.2.0 // indirect
	github.com/libp2p/go-libp2p-core v0.19.1
	github.com/libp2p/go-libp2p-discovery v0.7.0 // indirect
	github.com/libp2p/go-libp2p-kad-dht v0.17.0 // indirect
	github.com/libp2p/go-libp2p-kbucket v0.4.7 // indirect
	github.com/libp2p/go-libp2p-loggables v0.1.0 // indirect
	github.com/libp2p/go-libp2p-peerstore v0.7.1 // indirect
	github.com/libp2p/go-libp2p-pubsub v0.6.1
	github.com/libp2p/go-libp2p-pubsub-router v0.5.0 // indirect
	github.com/libp2p/go-libp2p-record v0.1.3 // indirect
	github.com/libp2p/go-libp2p-resource-manager v0.5.3 // indirect
	github.com/libp2p/go-libp2p-routing-helpers v0.2.3 // indirect
	github.com/libp2p/go-libp2p-xor v0.1.0 // indirect
	github.com/libp2p/go-mplex v0.7.0 // indirect
	github.com/libp2p/go-msgio v0.2.0
	github.com/libp2p/go-nat v0.1.0 // indirect
	github.com/libp2p/go-netroute v0.2.0 // indirect
	github.com/libp2p/go-openssl v0.0.7 // indirect
	github.com/libp2p/go-reuseport v0.2.0 // indirect
	github.com/libp2p/go-yamux v1.4.1
	github.com/libp2p/go-yamux/v3 v3.1.2 // indirect
	github.com/libp2p/zeroconf/v2 v2.1.1 // indirect
	github.com/lucas-clemente/quic-go v0.28.0 // indirect
	github.com/marten-seemann/qtls-go1-16 v0.1.5 // indirect
	github.com/marten-seemann/qtls-go1-17 v0.1.2 // indirect
	github.com/marten-seemann/qtls-go1-18 v0.1.2 // indirect
	github.com/marten-seemann/qtls-go1-19 v0.1.0-beta.1 // indirect
	github.com/marten-seemann/tcp v0.0.0-20210406111302-dfbc87cc63fd // indirect
	github.com/mattn/go-isatty v0.0.14 // indirect
	github.com/matttproud/golang_protobuf_extensions v1.0.1 // indirect
	github.com/mholt/archiver/v3 v3.5.1-0.20210112195346-074da64920d3
	github.com/miekg/dns v1.1.50 // indirect
	github.com/mikioh/tcpinfo v0.0.0-20190314235526-30a79bb1804b // indirect
	github.com/mikioh/tcpopt v0.0.0-20190314235656-172688c1accc // indirect
	github.com/minio/sha256-simd v1.0.0 // indirect
	github.com/mitchellh/go-homedir v1.1.0 // indirect
	github.com/mr-tron/base58 v1.2.0 // indirect
	github.com/mschoch/smat v0.2.0 // indirect
	github.com/multiformats/go-base32 v0.0.4 // indirect
	github.com/multiformats/go-base36 v0.1.0 // indirect
	github.com/multiformats/go-multiaddr v0.6.0
	github.com/multiformats/go-multiaddr-dns v0.3.1 // indirect
	github.com/multiformats/go-multiaddr-fmt v0.1.0 // indirect
	github.com/multiformats/go-multibase v0.1.1 // indirect
	github.com/multiformats/go-multicodec v0.5.0 // indirect
	github.com/multiformats/go-multihash v0.2.1
	github.com/multiformats/go-multistream v0.3.3 // indirect
	github.com/multiformats/go-varint v0.0.6 // indirect
	github.com/nwaples/rardecode v1.1.0 // indirect
	github.com/nxadm/tail v1.4.8 // indirect
	github.com/onsi/ginkgo v1.16.5 // indirect
	github.com/opencontainers/runtime-spec v1.0.3-0.20210326190908-1c3f411f0417 // indirect
	github.com/opentracing/opentracing-go v1.2.0 // indirect
	github.com/openzipkin/zipkin-go v0.4.0 // indirect
	github.com/patrickmn/go-cache v2.1.0+incompatible
	github.com/pbnjay/memory v0.0.0-20210728143218-7b4eea64cf58 // indirect
	github.com/pborman/uuid v1.2.1
	github.com/pierrec/lz4/v4 v4.1.2 // indirect
	github.com/pkg/errors v0.9.1
	github.com/pmezard/go-difflib v1.0.0 // indirect
	github.com/polydawn/refmt v0.0.0-20201211092308-30ac6d18308e // indirect
	github.com/prometheus/client_golang v1.12.1 // indirect
	github.com/prometheus/client_model v0.2.0 // indirect
	github.com/prometheus/common v0.35.0 // indirect
	github.com/prometheus/procfs v0.7.3 // indirect
	github.com/raulk/go-watchdog v1.3.0 // indirect
	github.com/rcrowley/go-metrics v0.0.0-20201227073835-cf1acfcdf475
	github.com/rjeczalik/notify v0.9.2
	github.com/rogpeppe/go-internal v1.6.2 // indirect
	github.com/rs/cors v1.8.2
	github.com/russross/blackfriday/v2 v2.0.1 // indirect
	github.com/shopspring/decimal v0.0.0-20200227202807-02e2044944cc
	github.com/shurcooL/sanitized_anchor_name v1.0.0 // indirect
	github.com/spacemonkeygo/spacelog v0.0.0-20180420211403-2296661a0572 // indirect
	github.com/spaolacci/murmur3 v1.1.0 // indirect
	github.com/stretchr/testify v1.8.0
	github.com/syndtr/goleveldb v1.0.1-0.20200815110645-5c35d600f0ca
	github.com/tendermint/tendermint v0.35.0 // indirect
	github.com/tendermint/tm-db v0.6.7
	github.com/tidwall/gjson v1.14.0 // indirect
	github.com/tidwall/match v1.1.1 // indirect
	github.com/tidwall/pretty v1.2.0 // indirect
	github.com/ulikunitz/xz v0.5.9 // indirect
	github.com/urfave/cli v1.22.5
	github.com/wI2L/jsondiff v0.2.0 // indirect
	github.com/whyrusleeping/base32 v0.0.0-20170828182744-c30ac30633cc // indirect
	github.com/whyrusleeping/cbor-gen v0.0.0-20210219115102-f37d292932f2 // indirect
	github.com/whyrusleeping/chunker v0.0.0-20181014151217-fe64bd25879f // indirect
	github.com/whyrusleeping/go-keyspace v0.0.0-20160322163242-5b898ac5add1 // indirect
	github.com/whyrusleeping/go-logging v0.0.1
	github.com/whyrusleeping/multiaddr-filter v0.0.0-20160516205228-e903e4adabd7 // indirect
	github.com/whyrusleeping/timecache v0.0.0-20160911033111-cfcb2f1abfee // indirect
	github.com/willf/bitset v1.1.10 // indirect
	github.com/willf/bloom v2.0.3+incompatible
	github.com/xi2/xz v0.0.0-20171230120015-48954b6210f8 // indirect
	go.etcd.io/bbolt v1.3.6 // indirect
	go.opencensus.io v0.23.0 // indirect
	go.opentelemetry.io/otel v1.7.0 // indirect
	go.opentelemetry.io/otel/exporters/jaeger v1.7.0 // indirect
	go.opentelemetry.io/otel/exporters/otlp/internal/retry v1.7.0 // indirect
	go.opentelemetry.io/otel/exporters/otlp/otlptrace v1.7.0 // indirect
	go.opentelemetry.io/otel/exporters/otlp/otlptrace/otlptracegrpc v1.7.0 // indirect
	go.opentelemetry.io/otel/exporters/otlp/otlptrace/otlptracehttp v1.7.0 // indirect
	go.opentelemetry.io/otel/exporters/stdout/stdouttrace v1.7.0 // indirect
	go.opentelemetry.io/otel/exporters/zipkin v1.7.0 // indirect
	go.opentelemetry.io/otel/sdk v1.7.0 // indirect
	go.opentelemetry.io/otel/trace v1.7.0 // indirect
	go.opentelemetry.io/proto/otlp v0.16.0 // indirect
	go.uber.org/atomic v1.9.0 // indirect
	go.uber.org/dig v1.14.1 // indirect
	go.uber.org/fx v1.17.1 // indirect
	go.uber.org/multierr v1.8.0 // indirect
	go.uber.org/zap v1.21.0 // indirect
	go4.org v0.0.0-20200411211856-f5505b9728dd // indirect
	golang.org/x/crypto v0.0.0-20220525230936-793ad666bf5e
	golang.org/x/mod v0.6.0-dev.0.20220419223038-86c51ed26bb4 // indirect
	golang.org/x/net v0.0.0-20220630215102-69896b714898
	golang.org/x/sync v0.0.0-20210220032951-036812b2e83c // indirect
	golang.org/x/sys v0.0.0-20220520151302-bc2c85ada10a
	golang.org/x/text v0.3.7 // indirect
	golang.org/x/tools v0.1.11 // indirect
	golang.org/x/xerrors v0.0.0-20220609144429-65e65417b02f // indirect
	google.golang.org/genproto v0.0.0-20211118181313-81c1377c94b1 // indirect
	google.golang.org/grpc v1.47.0 // indirect
	google.golang.org/protobuf v1.28.0
	gopkg.in/check.v1 v1.0.0-20201130134442-10cb98267c6c
	gopkg.in/natefinch/npipe.v2 v2.0.0-20160621034901-c1b8fa8bdcce
	gopkg.in/square/go-jose.v2 v2.5.1 // indirect
	gopkg.in/tomb.v1 v1.0.0-20141024135613-dd632973f1e7 // indirect
	gopkg.in/yaml.v3 v3.0.1 // indirect
	lukechampine.com/blake3 v1.1.7 // indirect
)

require github.com/idena-network/idena-wasm-binding v0.0.0-20230503080211-4227b9778d3d

replace github.com/idena-network/idena-go => /repo

replace github.com/cosmos/iavl => github.com/idena-network/iavl v0.12.3-0.20211223100228-a33b117aa31e
