-- Root of the library: every Props module (and through them Model/Proofs) is built by `lake build`.
import IdenaModel.Props.C13
