import IdenaModel.Model.Store
