-- Root of the library: every vetted Props module (and through them Model/Proofs) is built by `lake build`.
import IdenaModel.Props.C13
import IdenaModel.Props.C06
import IdenaModel.Props.C02
import IdenaModel.Props.C03
import IdenaModel.Props.C13State
import IdenaModel.Props.C17
import IdenaModel.Props.C19
import IdenaModel.Props.C05
import IdenaModel.Props.C04Tx
import IdenaModel.Props.C06Tx
