import IdenaModel.Model.PushPull
/-! Helper lemmas for C20 (association lists, sorted insertion, counting). Core Lean only. -/
namespace IdenaModel.PushPull

/-! ### association lists -/

theorem mem_of_lookup {m : Map} {k v : Nat} (h : lookup m k = some v) : (k, v) ∈ m := by
  induction m with
  | nil => simp [lookup] at h
  | cons a m ih =>
    obtain ⟨k', v'⟩ := a
    simp only [lookup] at h
    split at h
    · simp_all
    · exact List.mem_cons_of_mem _ (ih h)

theorem mem_erase {m : Map} {k : Nat} {kv : Nat × Nat} (h : kv ∈ erase m k) : kv ∈ m ∧ kv.1 ≠ k := by
  induction m with
  | nil => simp [erase] at h
  | cons a m ih =>
    obtain ⟨k', v'⟩ := a
    simp only [erase] at h
    split at h
    · have := ih h; exact ⟨List.mem_cons_of_mem _ this.1, this.2⟩
    · rcases List.mem_cons.mp h with e | e
      · subst e; exact ⟨List.mem_cons_self, by simpa using ‹¬k' = k›⟩
      · have := ih e; exact ⟨List.mem_cons_of_mem _ this.1, this.2⟩

theorem mem_set {m : Map} {k v : Nat} {kv : Nat × Nat} (h : kv ∈ set m k v) :
    kv = (k, v) ∨ (kv ∈ m ∧ kv.1 ≠ k) := by
  simp only [set, List.mem_cons] at h
  rcases h with e | e
  · exact Or.inl e
  · exact Or.inr (mem_erase e)

theorem lookup_erase_self (m : Map) (k : Nat) : lookup (erase m k) k = none := by
  induction m with
  | nil => simp [erase, lookup]
  | cons a m ih =>
    obtain ⟨k', v'⟩ := a
    simp only [erase]
    split
    · exact ih
    · simp [lookup, *]

theorem lookup_erase_ne (m : Map) {k x : Nat} (h : k ≠ x) : lookup (erase m k) x = lookup m x := by
  induction m with
  | nil => simp [erase, lookup]
  | cons a m ih =>
    obtain ⟨k', v'⟩ := a
    simp only [erase]
    split
    · subst_vars; simp [lookup, h, ih]
    · simp only [lookup]; split <;> simp_all

theorem lookup_set (m : Map) (k v x : Nat) :
    lookup (set m k v) x = if k = x then some v else lookup m x := by
  simp only [set, lookup]
  split
  · rfl
  · exact lookup_erase_ne m ‹_›

/-! ### sorted insertion -/

def TimeSorted (l : List Entry) : Prop := l.Pairwise (fun a b => a.time ≤ b.time)

theorem insertSorted_perm (e : Entry) (l : List Entry) : (insertSorted e l).Perm (e :: l) := by
  induction l with
  | nil => simp [insertSorted]
  | cons x xs ih =>
    simp only [insertSorted]
    split
    · exact List.Perm.refl _
    · exact (List.Perm.cons x ih).trans (List.Perm.swap e x xs)

theorem mem_insertSorted {e x : Entry} {l : List Entry} : x ∈ insertSorted e l ↔ x = e ∨ x ∈ l := by
  rw [(insertSorted_perm e l).mem_iff]; simp

theorem length_insertSorted (e : Entry) (l : List Entry) : (insertSorted e l).length = l.length + 1 := by
  rw [(insertSorted_perm e l).length_eq]; simp

theorem sorted_insertSorted {e : Entry} {l : List Entry} (h : TimeSorted l) : TimeSorted (insertSorted e l) := by
  induction l with
  | nil => simp [insertSorted, TimeSorted]
  | cons x xs ih =>
    simp only [insertSorted]
    have hx := List.pairwise_cons.mp h
    split
    · refine List.pairwise_cons.mpr ⟨?_, h⟩
      intro y hy
      rcases List.mem_cons.mp hy with rfl | hy
      · omega
      · have := hx.1 y hy; omega
    · refine List.pairwise_cons.mpr ⟨?_, ih hx.2⟩
      intro y hy
      rcases mem_insertSorted.mp hy with rfl | hy
      · omega
      · exact hx.1 y hy

/-- the first later entry is where `sort.Search` lands: nothing in front of the inserted entry is later than it,
and everything behind it is strictly later -/
theorem insertSorted_split (e : Entry) (l : List Entry) :
    ∃ a b, l = a ++ b ∧ insertSorted e l = a ++ e :: b ∧ (∀ x ∈ a, ¬ e.time < x.time) ∧
      (∀ y, b.head? = some y → e.time < y.time) := by
  induction l with
  | nil => exact ⟨[], [], by simp [insertSorted]⟩
  | cons x xs ih =>
    simp only [insertSorted]
    split
    · exact ⟨[], x :: xs, by simp_all⟩
    · obtain ⟨a, b, h1, h2, h3, h4⟩ := ih
      refine ⟨x :: a, b, by simp [h1], by simp [h2], ?_, h4⟩
      intro y hy
      rcases List.mem_cons.mp hy with rfl | hy
      · assumption
      · exact h3 y hy

/-! ### counting -/

/-- pending pushes of `(p, h)` -/
def countReq (p h : Nat) (l : List Entry) : Nat := l.countP (fun e => e.peer == p && e.hash == h)

/-- deferred pull requests to `p` for `h` issued by the tracker -/
def decCount (p h : Nat) (o : List Out) : Nat :=
  o.countP (fun x => match x with | .dec p' h' _ => p' == p && h' == h | _ => false)

/-- immediate pull requests for `h` -/
def immCount (h : Nat) (o : List Out) : Nat :=
  o.countP (fun x => match x with | .imm _ h' _ => h' == h | _ => false)

/-- announcements of `h` by `p` -/
def annCount (p h : Nat) (evs : List Ev) : Nat :=
  evs.countP (fun e => match e with | .announce p' h' => p' == p && h' == h | _ => false)

theorem countReq_insertSorted (p h : Nat) (e : Entry) (l : List Entry) :
    countReq p h (insertSorted e l) = countReq p h l + (if e.peer = p ∧ e.hash = h then 1 else 0) := by
  unfold countReq
  rw [(insertSorted_perm e l).countP_eq, List.countP_cons]
  by_cases hp : e.peer = p <;> by_cases hh : e.hash = h <;> simp [hp, hh]

/-! ### requests in issue order -/

def decReqs : List Out → List (Nat × Nat)
  | [] => []
  | .dec p h _ :: o => (p, h) :: decReqs o
  | _ :: o => decReqs o

def fwdReqs : List Out → List (Nat × Nat)
  | [] => []
  | .fwd p h _ :: o => (p, h) :: fwdReqs o
  | _ :: o => fwdReqs o

theorem decReqs_append (a b : List Out) : decReqs (a ++ b) = decReqs a ++ decReqs b := by
  induction a with
  | nil => rfl
  | cons x a ih => cases x <;> simp [decReqs, ih]

theorem fwdReqs_append (a b : List Out) : fwdReqs (a ++ b) = fwdReqs a ++ fwdReqs b := by
  induction a with
  | nil => rfl
  | cons x a ih => cases x <;> simp [fwdReqs, ih]

/-! ### running -/

theorem run_append (c : Cfg) (s : St) (a b : List Ev) :
    run c s (a ++ b) = ((run c (run c s a).1 b).1, (run c s a).2 ++ (run c (run c s a).1 b).2) := by
  induction a generalizing s with
  | nil => simp [run]
  | cons e a ih => simp [run, ih, List.append_assoc]

end IdenaModel.PushPull

namespace IdenaModel.PushPull

/-! ### the invariant of reachable states (with the outputs emitted so far) -/

/-- `y` is a deferred request ⇒ every request `x` for the same hash is at least `delay` older -/
def DelayRel (c : Cfg) (x y : Out) : Prop :=
  ∀ p h t, y = .dec p h t → x.hash = h → x.time + c.delay ≤ t

structure Inv (c : Cfg) (s : St) (outs : List Out) : Prop where
  sorted : TimeSorted s.pending
  bounded : s.pending.length ≤ c.maxPending + 1
  noPanic : s.panicked = false
  holdMem : ∀ obj w, s.pc = .hold obj w → obj ∈ s.pending ∧ w = obj.time + c.delay
  noHold : c.asFound = false → ∀ obj w, s.pc ≠ .hold obj w
  outNow : ∀ o ∈ outs, o.time ≤ s.now
  outAct : ∀ o ∈ outs, ∀ kv ∈ s.active, kv.1 = o.hash → o.time ≤ kv.2
  delayOk : outs.Pairwise (DelayRel c)
  relay : decReqs outs = fwdReqs outs ++ s.queue

theorem inv_init (c : Cfg) : Inv c init [] := by
  constructor <;> simp [init, TimeSorted, decReqs, fwdReqs]

/-- registering a pull for `h` now and emitting a non-deferred request for it -/
theorem inv_emit_nondec {c : Cfg} {s : St} {outs : List Out} (hi : Inv c s outs) (o : Out) (h : Nat)
    (ho : o.hash = h) (hot : o.time = s.now) (hnd : ∀ p h t, o ≠ .dec p h t)
    (s' : St) (hp : s'.pending = s.pending) (hpan : s'.panicked = s.panicked) (hpc : s'.pc = s.pc)
    (hnow : s'.now = s.now) (hact : s'.active = set s.active h s.now)
    (hrel : decReqs (outs ++ [o]) = fwdReqs (outs ++ [o]) ++ s'.queue) : Inv c s' (outs ++ [o]) where
  sorted := by rw [hp]; exact hi.sorted
  bounded := by rw [hp]; exact hi.bounded
  noPanic := by rw [hpan]; exact hi.noPanic
  holdMem := by rw [hpc, hp]; exact hi.holdMem
  noHold := by rw [hpc]; exact hi.noHold
  outNow := by
    intro x hx
    rw [hnow]
    rcases List.mem_append.mp hx with hx | hx
    · exact hi.outNow x hx
    · simp at hx; subst hx; omega
  outAct := by
    intro x hx kv hkv hk
    rw [hact] at hkv
    have hxn : x.time ≤ s.now := by
      rcases List.mem_append.mp hx with hx | hx
      · exact hi.outNow x hx
      · simp at hx; subst hx; omega
    rcases mem_set hkv with e | ⟨hm, hne⟩
    · subst e; simpa using hxn
    · rcases List.mem_append.mp hx with hx | hx
      · exact hi.outAct x hx kv hm hk
      · simp at hx; subst hx; exact absurd (hk.trans ho) hne
  delayOk := by
    refine List.pairwise_append.mpr ⟨hi.delayOk, by simp, ?_⟩
    intro a _ b hb
    simp at hb; subst hb
    intro p h t e; exact absurd e (hnd p h t)
  relay := hrel

theorem inv_addPending {c : Cfg} {s : St} {outs : List Out} (hi : Inv c s outs) (p h : Nat) :
    Inv c (addPending c s p h) outs := by
  unfold addPending
  split
  · exact hi
  · rename_i hc
    simp only [Bool.or_eq_true, decide_eq_true_eq, not_or, Nat.not_lt] at hc
    split
    · exact { hi with
        sorted := sorted_insertSorted hi.sorted
        bounded := by simp only [length_insertSorted]; omega
        holdMem := fun obj w hw => ⟨mem_insertSorted.mpr (Or.inr (hi.holdMem obj w hw).1), (hi.holdMem obj w hw).2⟩ }
    · exact hi

theorem inv_cnt {c : Cfg} {s : St} {outs : List Out} (hi : Inv c s outs) (m : Map) :
    Inv c { s with cnt := m } outs := { hi with }

theorem inv_announce {c : Cfg} {s : St} {outs : List Out} (hi : Inv c s outs) (p h : Nat) :
    Inv c (announce c s p h).1 (outs ++ (announce c s p h).2) := by
  unfold announce
  split
  · simpa using hi
  · split
    · refine inv_emit_nondec hi (.imm p h s.now) h rfl rfl (by simp) _ rfl rfl rfl rfl rfl ?_
      simp [decReqs_append, fwdReqs_append, decReqs, fwdReqs, hi.relay]
    · split
      · simpa using inv_addPending (inv_cnt hi _) p h
      · refine inv_emit_nondec (inv_cnt hi _) (.imm p h s.now) h rfl rfl (by simp) _ rfl rfl rfl rfl rfl ?_
        simp [decReqs_append, fwdReqs_append, decReqs, fwdReqs, hi.relay]

theorem inv_deliver {c : Cfg} {s : St} {outs : List Out} (hi : Inv c s outs) :
    Inv c (deliver s).1 (outs ++ (deliver s).2) := by
  unfold deliver
  split
  · simpa using hi
  · rename_i p h q hq
    refine inv_emit_nondec hi (.fwd p h s.now) h rfl rfl (by simp) _ rfl rfl rfl rfl rfl ?_
    simp [decReqs_append, fwdReqs_append, decReqs, fwdReqs, hi.relay, hq]

theorem inv_removeHead {c : Cfg} {s : St} {outs : List Out} (hi : Inv c s outs) (hpc : s.pc = .run)
    (hne : s.pending ≠ []) : Inv c (removeHead s) outs := by
  unfold removeHead
  split
  · contradiction
  · rename_i x rest hx
    have hs := hi.sorted; have hb := hi.bounded
    rw [hx] at hs hb
    exact { hi with
      sorted := (List.pairwise_cons.mp hs).2
      bounded := by simp at hb ⊢; omega
      holdMem := by intro obj w hw; simp [hpc] at hw }

theorem inv_moveHead {c : Cfg} {s : St} {outs : List Out} (hi : Inv c s outs) (hpc : s.pc = .run)
    (hne : s.pending ≠ []) (t : Nat) : Inv c (moveHead s t) outs := by
  unfold moveHead
  split
  · contradiction
  · rename_i x rest hx
    have hs := hi.sorted; have hb := hi.bounded
    rw [hx] at hs hb
    exact { hi with
      sorted := sorted_insertSorted (List.pairwise_cons.mp hs).2
      bounded := by simp [length_insertSorted] at hb ⊢; omega
      holdMem := by intro obj w hw; simp [hpc] at hw }

theorem removeHead_fields (s : St) :
    (removeHead s).now = s.now ∧ (removeHead s).active = s.active ∧ (removeHead s).queue = s.queue ∧
    (removeHead s).pc = s.pc ∧ (removeHead s).held = s.held ∧ (removeHead s).cnt = s.cnt ∧
    (removeHead s).gcWake = s.gcWake := by
  unfold removeHead; split <;> simp

theorem moveHead_fields (s : St) (t : Nat) :
    (moveHead s t).now = s.now ∧ (moveHead s t).active = s.active ∧ (moveHead s t).queue = s.queue ∧
    (moveHead s t).pc = s.pc ∧ (moveHead s t).held = s.held ∧ (moveHead s t).cnt = s.cnt ∧
    (moveHead s t).gcWake = s.gcWake := by
  unfold moveHead; split <;> simp

/-- one due iteration keeps the invariant; `obj` need not be the head (as found it may be stale) -/
theorem inv_afterWake {c : Cfg} {s : St} {outs : List Out} (hi : Inv c s outs) (hpc : s.pc = .run)
    (hne : s.pending ≠ []) (obj : Entry) (hdue : obj.time + c.delay ≤ s.now) :
    Inv c (afterWake s obj).1 (outs ++ (afterWake s obj).2) := by
  unfold afterWake
  split
  · simpa using inv_removeHead hi hpc hne
  · split
    · simpa using inv_removeHead hi hpc hne
    · rename_i t ht
      split
      · simpa using inv_moveHead hi hpc hne t
      · rename_i hnot
        have hr := inv_removeHead hi hpc hne
        obtain ⟨f1, f2, f3, f4, -, -, -⟩ := removeHead_fields s
        have hmem := mem_of_lookup ht
        refine
          { sorted := hr.sorted, bounded := hr.bounded, noPanic := hr.noPanic
            holdMem := by intro o w hw; simp [f4, hpc] at hw
            noHold := by intro _ o w; simp [f4, hpc]
            outNow := ?_, outAct := ?_, delayOk := ?_, relay := ?_ }
        · intro x hx
          simp only [f1]
          rcases List.mem_append.mp hx with hx | hx
          · exact hi.outNow x hx
          · simp at hx; subst hx; simp [Out.time, f1]
        · intro x hx kv hkv hk
          simp only [f1, f2] at hkv
          have hxn : x.time ≤ s.now := by
            rcases List.mem_append.mp hx with hx | hx
            · exact hi.outNow x hx
            · simp at hx; subst hx; simp [Out.time, f1]
          rcases mem_set hkv with e | ⟨hm, hne'⟩
          · subst e; simpa using hxn
          · rcases List.mem_append.mp hx with hx | hx
            · exact hi.outAct x hx kv hm hk
            · simp at hx; subst hx; exact absurd hk hne'
        · refine List.pairwise_append.mpr ⟨hi.delayOk, by simp, ?_⟩
          intro a ha b hb
          simp at hb; subst hb
          intro p h t' e hh
          simp only [Out.dec.injEq] at e
          obtain ⟨-, rfl, rfl⟩ := e
          have := hi.outAct a ha (obj.hash, t) hmem hh.symm
          simp only [f1]
          simp at this
          omega
        · simp [decReqs_append, fwdReqs_append, decReqs, fwdReqs, hi.relay, f3]

theorem inv_loopStep {c : Cfg} {s : St} {outs : List Out} (hi : Inv c s outs) :
    Inv c (loopStep c s).1 (outs ++ (loopStep c s).2) := by
  unfold loopStep
  split
  · split
    · simpa using { hi with holdMem := by simp, noHold := by simp }
    · simpa using hi
  · rename_i obj w hpc
    split
    · rename_i hw
      have hh := hi.holdMem obj w hpc
      have hi' : Inv c { s with pc := .run } outs := { hi with holdMem := by simp, noHold := by simp }
      refine inv_afterWake hi' rfl ?_ obj ?_
      · exact List.ne_nil_of_mem hh.1
      · simp; omega
    · simpa using hi
  · rename_i hpc
    split
    · simpa using { hi with holdMem := by simp, noHold := by simp }
    · rename_i obj rest hp
      split
      · simp only [List.append_nil]
        refine { hi with holdMem := ?_, noHold := ?_ }
        · intro o w hw
          by_cases ha : c.asFound = true <;> simp [ha] at hw
          obtain ⟨rfl, rfl⟩ := hw
          exact ⟨by simp [hp], rfl⟩
        · intro ha o w; simp [ha]
      · rename_i hnd
        exact inv_afterWake hi hpc (by simp [hp]) obj (by omega)

theorem inv_step {c : Cfg} {s : St} {outs : List Out} (hi : Inv c s outs) (e : Ev) :
    Inv c (step c s e).1 (outs ++ (step c s e).2) := by
  cases e with
  | announce p h => exact inv_announce hi p h
  | arrive h =>
    simp only [step, arrive, List.append_nil]
    exact { hi with outAct := fun o ho kv hkv hk => hi.outAct o ho kv (mem_erase hkv).1 hk }
  | tick t =>
    simp only [step, List.append_nil]
    split
    · exact { hi with outNow := fun o ho => Nat.le_trans (hi.outNow o ho) ‹_› }
    · exact hi
  | loop => exact inv_loopStep hi
  | gc =>
    simp only [step, gcStep, List.append_nil]
    split
    · exact { hi with outAct := fun o ho kv hkv hk => hi.outAct o ho kv (List.mem_filter.mp hkv).1 hk }
    · exact hi
  | deliver => exact inv_deliver hi
  | expire h => simpa [step] using { hi with }
  | forget h => simpa [step] using { hi with }

/-- states reachable from the start, with the outputs emitted on the way -/
inductive Reach (c : Cfg) : St → List Out → Prop
  | init : Reach c init []
  | step {s : St} {o : List Out} (e : Ev) : Reach c s o → Reach c (step c s e).1 (o ++ (step c s e).2)

theorem reach_run_from {c : Cfg} {s : St} {o : List Out} (h : Reach c s o) (evs : List Ev) :
    Reach c (run c s evs).1 (o ++ (run c s evs).2) := by
  induction evs generalizing s o with
  | nil => simpa [run] using h
  | cons e es ih =>
    simp only [run]
    rw [← List.append_assoc]
    exact ih (Reach.step e h)

theorem reach_run (c : Cfg) (evs : List Ev) : Reach c (run c init evs).1 (run c init evs).2 := by
  simpa using reach_run_from (Reach.init (c := c)) evs

theorem inv_of_reach {c : Cfg} {s : St} {o : List Out} (h : Reach c s o) : Inv c s o := by
  induction h with
  | init => exact inv_init c
  | step e _ ih => exact inv_step ih e

/-! ### fields left alone by the tracker loop and by `addPending` -/

theorem afterWake_cnt_held (s : St) (obj : Entry) :
    (afterWake s obj).1.cnt = s.cnt ∧ (afterWake s obj).1.held = s.held ∧ (afterWake s obj).1.pc = s.pc := by
  obtain ⟨-, -, -, r4, r5, r6, -⟩ := removeHead_fields s
  unfold afterWake
  split
  · exact ⟨r6, r5, r4⟩
  · split
    · exact ⟨r6, r5, r4⟩
    · rename_i t _
      obtain ⟨-, -, -, m4, m5, m6, -⟩ := moveHead_fields s t
      split
      · exact ⟨m6, m5, m4⟩
      · exact ⟨r6, r5, r4⟩

theorem loopStep_cnt_held (c : Cfg) (s : St) :
    (loopStep c s).1.cnt = s.cnt ∧ (loopStep c s).1.held = s.held := by
  unfold loopStep
  split
  · split <;> simp
  · split
    · have := afterWake_cnt_held { s with pc := .run } ‹Entry›; exact ⟨this.1, this.2.1⟩
    · simp
  · split
    · simp
    · split
      · simp
      · have := afterWake_cnt_held s ‹Entry›; exact ⟨this.1, this.2.1⟩

theorem addPending_cnt_held (c : Cfg) (s : St) (p h : Nat) :
    (addPending c s p h).cnt = s.cnt ∧ (addPending c s p h).held = s.held ∧
    (addPending c s p h).pc = s.pc := by
  unfold addPending; split
  · simp
  · split <;> simp

end IdenaModel.PushPull
