import IdenaModel.Model.Rewards
import IdenaModel.Proofs.LedgerTotal
import Mathlib.Tactic.Ring
import Mathlib.Tactic.Linarith
/-! Lemmas for M-Rewards: the arithmetic of the reward split, the invariant through the primitive funds steps,
sums of the committee and of the epoch categories. -/
namespace IdenaModel.Rewards
open IdenaModel.Ledger IdenaModel.Ledger.State

/-- the block-level invariant: balances and contract stakes are non-negative, `0 ≤ locked ≤ replenished ≤ stake`
(the last two orderings are what `ceremony.go:964,998` subtract without a guard) -/
structure LInv (s : State) : Prop where
  bal : ∀ a, 0 ≤ s.balance a
  cstake : ∀ a, 0 ≤ s.cstake a
  idf : ∀ a, 0 ≤ (s.idf a).locked ∧ (s.idf a).locked ≤ (s.idf a).replenished ∧
    (s.idf a).replenished ≤ (s.idf a).stake

/-- what the theorems need of the constants: rates within [0,1], percentages within 100 %, pool a whole number of hundredths -/
structure RCfg.Ok (c : RCfg) : Prop where
  stake : c.stakeRate.num ≤ c.stakeRate.den
  stakeN : c.stakeRateNewbie.num ≤ c.stakeRateNewbie.den
  burn : c.feeBurn.num ≤ c.feeBurn.den
  pct : c.percentSum ≤ 100
  div : 100 ∣ c.fullReward

/-! ### arithmetic -/

theorem toInt_bounds {n : Int} {a b : Nat} (h : 0 ≤ n) (hab : a ≤ b) :
    0 ≤ toInt (n * a) b ∧ toInt (n * a) b ≤ n := by
  unfold toInt
  have h1 : 0 ≤ n * (a : Int) := Int.mul_nonneg h (Int.natCast_nonneg a)
  rw [Int.tdiv_eq_ediv_of_nonneg h1]
  constructor
  · exact Int.ediv_nonneg h1 (Int.natCast_nonneg b)
  · rcases Nat.eq_zero_or_pos b with hb | hb
    · subst hb; simp; exact h
    · apply Int.ediv_le_of_le_mul (by exact_mod_cast hb)
      have : (a : Int) ≤ b := by exact_mod_cast hab
      nlinarith

theorem splitReward_sum (c : RCfg) (t : Int) (nb : Bool) :
    (splitReward c t nb).1 + (splitReward c t nb).2 = t := by
  simp only [splitReward]; omega

theorem splitReward_nonneg {c : RCfg} (hc : c.Ok) {t : Int} (h : 0 ≤ t) (nb : Bool) :
    0 ≤ (splitReward c t nb).1 ∧ 0 ≤ (splitReward c t nb).2 := by
  simp only [splitReward]
  cases nb
  · have := toInt_bounds h hc.stake; simp; omega
  · have := toInt_bounds h hc.stakeN; simp; omega

theorem splitFee_bounds {c : RCfg} (hc : c.Ok) {fee : Int} (h : 0 ≤ fee) :
    0 ≤ (splitFee c fee).2 ∧ (splitFee c fee).2 ≤ fee ∧ 0 ≤ (splitFee c fee).1 := by
  simp only [splitFee]
  have := toInt_bounds h hc.burn
  omega

/-- what a penalty lets through is at most what was to be added, and never negative -/
theorem penalty_no_mint {bal stake : Int} {p : Pen} (ts : Int) (hb : 0 ≤ bal) (hs : 0 ≤ stake) (hp : 0 ≤ p.amount) :
    0 ≤ (calculatePenalty bal stake p ts).balAdd ∧ 0 ≤ (calculatePenalty bal stake p ts).stakeAdd ∧
    (calculatePenalty bal stake p ts).balAdd + (calculatePenalty bal stake p ts).stakeAdd ≤ bal + stake := by
  unfold calculatePenalty
  split
  · simp; omega
  · split
    · simp; omega
    · split
      · simp; omega
      · simp only []
        split <;> simp <;> omega

/-- without a penalty the reward passes unchanged -/
theorem penalty_none (bal stake ts : Int) : calculatePenalty bal stake {} ts = ⟨bal, stake, none, 0⟩ := by
  simp [calculatePenalty]

theorem stakeShareToBurn_le (prev : IdState) (b e : Nat) : stakeShareToBurn prev b e ≤ 100 := by
  unfold stakeShareToBurn
  cases prev <;> simp <;> (try split) <;> omega

/-! ### observations after `addLocked` (the other primitives are in `Proofs/LedgerObs.lean`) -/
section
variable (s : State) (a b : Nat) (x : Int)
@[simp] theorem balance_addLocked : (s.addLocked a x).balance b = s.balance b := rfl
@[simp] theorem cstake_addLocked : (s.addLocked a x).cstake b = s.cstake b := rfl
@[simp] theorem idf_addLocked :
    (s.addLocked a x).idf b = if b = a then { s.idf a with locked := (s.idf a).locked + x } else s.idf b := by
  simp [State.idf]
end

/-! ### the invariant through the primitive steps -/

theorem LInv.addBal {s : State} (h : LInv s) (a : Nat) (x : Int) (hx : 0 ≤ s.balance a + x) : LInv (s.addBal a x) := by
  refine ⟨fun b => ?_, fun b => ?_, fun b => ?_⟩
  · rw [balance_addBal]; split
    · rename_i e; subst e; exact hx
    · exact h.bal b
  · rw [cstake_addBal]; exact h.cstake b
  · rw [idf_addBal]; exact h.idf b

theorem LInv.addStake {s : State} (h : LInv s) (a : Nat) (x : Int)
    (hx : (s.idf a).replenished ≤ (s.idf a).stake + x) : LInv (s.addStake a x) := by
  refine ⟨fun b => ?_, fun b => ?_, fun b => ?_⟩
  · exact h.bal b
  · exact h.cstake b
  · rw [idf_addStake]; split
    · have := h.idf a; simp; omega
    · exact h.idf b

theorem LInv.addReplenished {s : State} (h : LInv s) (a : Nat) (x : Int)
    (hx : (s.idf a).locked ≤ (s.idf a).replenished + x ∧ (s.idf a).replenished + x ≤ (s.idf a).stake) :
    LInv (s.addReplenished a x) := by
  refine ⟨fun b => ?_, fun b => ?_, fun b => ?_⟩
  · exact h.bal b
  · exact h.cstake b
  · rw [idf_addReplenished]; split
    · have := h.idf a; simp; omega
    · exact h.idf b

theorem LInv.addLocked {s : State} (h : LInv s) (a : Nat) (x : Int)
    (hx : 0 ≤ (s.idf a).locked + x ∧ (s.idf a).locked + x ≤ (s.idf a).replenished) : LInv (s.addLocked a x) := by
  refine ⟨fun b => ?_, fun b => ?_, fun b => ?_⟩
  · exact h.bal b
  · exact h.cstake b
  · rw [idf_addLocked]; split
    · have := h.idf a; simp; omega
    · exact h.idf b

/-- crediting non-negative amounts to a balance and a stake -/
theorem LInv.credit2 {s : State} (h : LInv s) (d a : Nat) {x y : Int} (hx : 0 ≤ x) (hy : 0 ≤ y) :
    LInv ((s.addBal d x).addStake a y) := by
  have h1 := h.addBal d x (by have := h.bal d; omega)
  exact h1.addStake a y (by rw [idf_addBal]; have := h.idf a; omega)

theorem total_credit2 (s : State) (d a : Nat) (x y : Int) : total ((s.addBal d x).addStake a y) = total s + x + y := by
  rw [total_addStake, total_addBal]

/-! ### the final committee -/

def Member.Ok (m : Member) : Prop := 0 ≤ m.pen.amount

theorem payMember_bounds {c : RCfg} (hc : c.Ok) (ts : Int) (rem : Nat) {m : Member} (hm : m.Ok) :
    (payMember c ts rem m).1 ≤ rem ∧ 0 ≤ (payMember c ts rem m).2.1 ∧ 0 ≤ (payMember c ts rem m).2.2 ∧
    (payMember c ts rem m).2.1 + (payMember c ts rem m).2.2 ≤ ((payMember c ts rem m).1 : Int) := by
  simp only [payMember]
  generalize hr : (if m.request > rem then rem else m.request) = r
  have hr' : r ≤ rem := by subst hr; split <;> omega
  have h0 : (0 : Int) ≤ (r : Int) := Int.natCast_nonneg r
  have hs := splitReward_nonneg hc h0 m.newbie
  have hsum := splitReward_sum c r m.newbie
  have hp := penalty_no_mint (p := m.pen) ts hs.1 hs.2 hm
  omega

theorem rewardFinalCommittee_cons (c : RCfg) (ts : Int) (s : State) (rem paid : Nat) (m : Member) (ms : List Member) :
    rewardFinalCommittee c ts s rem paid (m :: ms) =
      rewardFinalCommittee c ts ((s.addBal m.dest (payMember c ts rem m).2.1).addStake m.addr (payMember c ts rem m).2.2)
        (rem - (payMember c ts rem m).1) (paid + (payMember c ts rem m).1) ms := rfl

/-- `rewardFinalCommittee` pays at most what remains, credits at most what it pays, keeps the invariant -/
theorem rewardFinalCommittee_spec {c : RCfg} (hc : c.Ok) (ts : Int) (ms : List Member) (hms : ∀ m ∈ ms, m.Ok) :
    ∀ (s : State) (rem paid : Nat), LInv s →
      LInv (rewardFinalCommittee c ts s rem paid ms).1 ∧
      paid ≤ (rewardFinalCommittee c ts s rem paid ms).2 ∧
      (rewardFinalCommittee c ts s rem paid ms).2 ≤ paid + rem ∧
      total (rewardFinalCommittee c ts s rem paid ms).1 + paid ≤
        total s + ((rewardFinalCommittee c ts s rem paid ms).2 : Int) := by
  induction ms with
  | nil => intro s rem paid h; simp [rewardFinalCommittee, h]
  | cons m t ih =>
    intro s rem paid h
    have hm := hms m (by simp)
    obtain ⟨h1, h2, h3, h4⟩ := payMember_bounds hc ts rem hm
    rw [rewardFinalCommittee_cons]
    have hI := h.credit2 m.dest m.addr h2 h3
    obtain ⟨i1, i2, i3, i4⟩ := ih (fun x hx => hms x (by simp [hx])) _ (rem - (payMember c ts rem m).1)
      (paid + (payMember c ts rem m).1) hI
    rw [total_credit2] at i4
    refine ⟨i1, by omega, by omega, ?_⟩
    push_cast at i4 ⊢
    omega

/-- the committee never receives more than the full block reward -/
theorem finalCommittee_sum_le {c : RCfg} (ts : Int) (s : State) (ms : List Member) :
    (rewardFinalCommittee c ts s c.fullReward 0 ms).2 ≤ c.fullReward := by
  have key : ∀ (ms : List Member) (s : State) (rem paid : Nat),
      (rewardFinalCommittee c ts s rem paid ms).2 ≤ paid + rem := by
    intro ms
    induction ms with
    | nil => intro s rem paid; simp [rewardFinalCommittee]
    | cons m t ih =>
      intro s rem paid
      rw [rewardFinalCommittee_cons]
      have := ih ((s.addBal m.dest (payMember c ts rem m).2.1).addStake m.addr (payMember c ts rem m).2.2)
        (rem - (payMember c ts rem m).1) (paid + (payMember c ts rem m).1)
      have h1 : (payMember c ts rem m).1 ≤ rem := by simp only [payMember]; split <;> omega
      omega
  simpa using key ms s c.fullReward 0

/-! ### block rewards -/

def RewardIn.Ok (r : RewardIn) : Prop := (∀ m ∈ r.members, m.Ok) ∧ 0 ≤ r.proposer.pen.amount

theorem proposerReward_bounds (c : RCfg) (paid : Nat) (h : paid ≤ c.fullReward) :
    0 ≤ proposerReward c paid ∧ proposerReward c paid + paid = c.fullReward := by
  simp only [proposerReward]; split <;> omega

theorem applyBlockRewards_spec {c : RCfg} (hc : c.Ok) {s : State} (hI : LInv s) {fee tips : Int} (hf : 0 ≤ fee)
    (ht : 0 ≤ tips) (ts : Int) {ms : List Member} {p : Proposer} (hms : ∀ m ∈ ms, m.Ok) (hp : 0 ≤ p.pen.amount) :
    LInv (applyBlockRewards c s fee tips ts ms p) ∧
    total (applyBlockRewards c s fee tips ts ms p) ≤ total s + c.fullReward + (splitFee c fee).2 + tips := by
  obtain ⟨i1, -, i3, i4⟩ := rewardFinalCommittee_spec hc ts ms hms s c.fullReward 0 hI
  simp only [applyBlockRewards]
  have hpaid : (rewardFinalCommittee c ts s c.fullReward 0 ms).2 ≤ c.fullReward := by omega
  obtain ⟨p1, p2⟩ := proposerReward_bounds c _ hpaid
  obtain ⟨f1, f2, -⟩ := splitFee_bounds hc hf
  generalize hT : proposerReward c (rewardFinalCommittee c ts s c.fullReward 0 ms).2 + (splitFee c fee).2 + tips = T
  have hT0 : 0 ≤ T := by omega
  have hs := splitReward_nonneg hc hT0 p.newbie
  have hsum := splitReward_sum c T p.newbie
  have hpen := penalty_no_mint (p := p.pen) ts hs.1 hs.2 hp
  refine ⟨i1.credit2 _ _ hpen.1 hpen.2.1, ?_⟩
  rw [total_credit2]
  simp only [Nat.cast_zero, Int.add_zero] at i4
  omega

/-! ### epoch categories -/

theorem core_ineq {P K S Sg W x d k : Nat} (h1 : P * K ≤ S * Sg) (h2 : S * (200 * W) ≤ 200 * x * K + 100 * W)
    (h3 : 100 * W < 200 * K) (hs : Sg * d ≤ W * (d + k)) (hd : 0 < d) : P * d < (d + k) * (x + 1) := by
  by_contra hc
  have hc : (d + k) * (x + 1) ≤ P * d := Nat.le_of_not_lt hc
  have a1 : (d + k) * (x + 1) * (200 * K) ≤ P * d * (200 * K) := Nat.mul_le_mul_right _ hc
  have a2 : P * d * (200 * K) = 200 * d * (P * K) := by ring
  have a3 : 200 * d * (P * K) ≤ 200 * d * (S * Sg) := Nat.mul_le_mul_left _ h1
  have a4 : 200 * d * (S * Sg) = 200 * S * (Sg * d) := by ring
  have a5 : 200 * S * (Sg * d) ≤ 200 * S * (W * (d + k)) := Nat.mul_le_mul_left _ hs
  have a6 : 200 * S * (W * (d + k)) = (d + k) * (S * (200 * W)) := by ring
  have a7 : (d + k) * (S * (200 * W)) ≤ (d + k) * (200 * x * K + 100 * W) := Nat.mul_le_mul_left _ h2
  have hdk : 0 < d + k := by omega
  have a8 : (d + k) * (200 * x * K + 100 * W) < (d + k) * (200 * x * K + 200 * K) :=
    Nat.mul_lt_mul_of_pos_left (by omega) hdk
  have a9 : (d + k) * (200 * x * K + 200 * K) = (d + k) * (x + 1) * (200 * K) := by ring
  omega

/-- sum of the weights of the payees -/
def CatIn.wSum (cat : CatIn) : Nat := (cat.payees.map (·.w)).sum

theorem payouts_mul_le (S ws : Nat) (ps : List Payee) :
    (ps.map fun p => payoutOf S p.w ws).sum * (pow16 * ws) ≤ S * (ps.map (·.w)).sum := by
  induction ps with
  | nil => simp
  | cons p t ih =>
    simp only [List.map_cons, List.sum_cons]
    have h := Nat.div_mul_le_self (S * p.w) (pow16 * ws)
    have : payoutOf S p.w ws = S * p.w / (pow16 * ws) := rfl
    rw [this, Nat.add_mul, Nat.mul_add]
    omega

theorem decDiv16_mul_le (xn xd wn wd : Nat) :
    decDiv16 xn xd wn wd * (2 * (xd * wn)) ≤ 2 * (xn * wd * pow16) + xd * wn :=
  Nat.div_mul_le_self _ _

/-- **as found**: when the total the code divides by is at least `d/(d+k)` of the exact sum of the weights (a
`float32` running total, `rewards.go:86,270,285,498`), the category pays less than `(1 + k/d)·(its share + 1)` -/
theorem catPayouts_sum_lt {pool pct : Nat} {cat : CatIn} {d k : Nat}
    (hW : cat.wTotal < 2 * pow16 * cat.wScale) (hdv : 100 ∣ pool * pct) (hd : 0 < d)
    (hs : cat.wSum * d ≤ cat.wTotal * (d + k)) :
    (catPayouts pool pct cat).sum * d < (d + k) * (pool * pct / 100 + 1) := by
  unfold catPayouts
  split
  · have : (cat.payees.map fun _ => 0).sum = 0 := by
      induction cat.payees with
      | nil => rfl
      | cons _ t ih => simp [ih]
    rw [this]; simp; omega
  · obtain ⟨x, hx⟩ := hdv
    have hx' : pool * pct / 100 = x := by omega
    rw [hx']
    apply core_ineq (K := pow16 * cat.wScale) (S := catShare pool pct cat) (Sg := cat.wSum) (W := cat.wTotal)
    · exact payouts_mul_le _ _ _
    · have := decDiv16_mul_le (pool * pct) 100 cat.wTotal cat.wScale
      unfold catShare
      rw [hx] at this ⊢
      have e1 : 2 * (100 * x * cat.wScale * pow16) = 200 * x * (pow16 * cat.wScale) := by ring
      have e2 : decDiv16 (100 * x) 100 cat.wTotal cat.wScale * (2 * (100 * cat.wTotal)) =
          decDiv16 (100 * x) 100 cat.wTotal cat.wScale * (200 * cat.wTotal) := by ring
      omega
    · have : 200 * (pow16 * cat.wScale) = 100 * (2 * pow16 * cat.wScale) := by ring
      omega
    · exact hs
    · exact hd

/-- the side conditions of the exact theorem: the total is at least the sum of the weights, and below `2·10¹⁶`
(the decimal quotient keeps 16 fractional digits) -/
structure CatIn.Ok (cat : CatIn) : Prop where
  small : cat.wTotal < 2 * pow16 * cat.wScale
  sum : cat.wSum ≤ cat.wTotal

/-- **exact totals**: a category never pays more than its share of the pool -/
theorem catPayouts_sum_le {pool pct : Nat} {cat : CatIn} (h : cat.Ok) (hdv : 100 ∣ pool * pct) :
    (catPayouts pool pct cat).sum ≤ pool * pct / 100 := by
  have := catPayouts_sum_lt (d := 1) (k := 0) h.small hdv (by omega) (by simpa using h.sum)
  omega

theorem catPayouts_length (pool pct : Nat) (cat : CatIn) : (catPayouts pool pct cat).length = cat.payees.length := by
  unfold catPayouts; split <;> simp

/-! ### crediting -/

theorem total_credit (c : RCfg) (s : State) (p : Payee) (amt : Nat) : total (credit c s p amt) = total s + amt := by
  unfold credit
  split
  · simp only []
    split
    · rw [total_addLocked, total_addReplenished, total_addStake]
    · rw [total_addReplenished, total_addStake]
  · simp only []
    rw [total_credit2]
    have := splitReward_sum c amt p.newbie
    omega

theorem LInv.credit {c : RCfg} (hc : c.Ok) {s : State} (h : LInv s) (p : Payee) (amt : Nat) :
    LInv (credit c s p amt) := by
  have h0 : (0 : Int) ≤ (amt : Int) := Int.natCast_nonneg amt
  unfold Rewards.credit
  split
  · simp only []
    have h1 := h.addStake p.addr amt (by have := h.idf p.addr; omega)
    have h2 := h1.addReplenished p.addr amt (by
      rw [idf_addStake]; have := h.idf p.addr; simp; omega)
    split
    · exact h2.addLocked p.addr amt (by
        rw [idf_addReplenished, idf_addStake]; have := h.idf p.addr; simp; omega)
    · exact h2
  · simp only []
    have hs := splitReward_nonneg hc h0 p.newbie
    exact h.credit2 _ _ hs.1 hs.2

theorem creditAll_spec {c : RCfg} (hc : c.Ok) (ps : List Payee) :
    ∀ (s : State) (as : List Nat), LInv s →
      LInv (creditAll c s ps as) ∧ total (creditAll c s ps as) ≤ total s + (as.sum : Nat) := by
  induction ps with
  | nil => intro s as h; cases as <;> (simp [creditAll, h]; try omega)
  | cons p t ih =>
    intro s as h
    cases as with
    | nil => simp [creditAll, h]
    | cons a r =>
      simp only [creditAll, List.sum_cons]
      obtain ⟨i1, i2⟩ := ih (credit c s p a) r (h.credit hc p a)
      rw [total_credit] at i2
      refine ⟨i1, ?_⟩
      push_cast
      omega

theorem payCategory_spec {c : RCfg} (hc : c.Ok) {s : State} (h : LInv s) (pool pct : Nat) (cat : CatIn) :
    LInv (payCategory c s pool pct cat) ∧
    total (payCategory c s pool pct cat) ≤ total s + ((catPayouts pool pct cat).sum : Nat) :=
  creditAll_spec hc cat.payees s _ h

/-! ### the epoch distribution -/

theorem pct_share {pool : Nat} (hd : 100 ∣ pool) (pct : Nat) : 100 ∣ pool * pct ∧ pool * pct / 100 = pool / 100 * pct := by
  obtain ⟨q, rfl⟩ := hd
  refine ⟨⟨q * pct, by ring⟩, ?_⟩
  rw [Nat.mul_assoc, Nat.mul_div_cancel_left _ (by omega), Nat.mul_div_cancel_left _ (by omega)]

theorem flatPayout_eq {pool : Nat} (hd : 100 ∣ pool) (pct : Nat) : flatPayout pool pct = pool / 100 * pct :=
  (pct_share hd pct).2

/-- sums of the six weighted categories of one distribution -/
def paidSum (c : RCfg) (pool : Nat) (r : EpochRewardsIn) : Nat :=
  (catPayouts pool c.pStaking r.staking).sum + (catPayouts pool c.pCandidate r.candidates).sum +
  (catPayouts pool c.flipBasic r.flipBasic).sum + (catPayouts pool c.flipExtra r.flipExtra).sum +
  (catPayouts pool c.pReports r.reports).sum + (catPayouts pool c.pInvitation r.invitations).sum

theorem rewardValidIdentities_spec {c : RCfg} (hc : c.Ok) {s : State} (h : LInv s) (n : Nat) (r : EpochRewardsIn) :
    LInv (rewardValidIdentities c s n r) ∧
    total (rewardValidIdentities c s n r) ≤ total s +
      ((paidSum c (epochPool c n) r + flatPayout (epochPool c n) c.pFoundation +
        flatPayout (epochPool c n) c.pZeroWallet : Nat) : Int) := by
  simp only [rewardValidIdentities, paidSum]
  obtain ⟨a1, b1⟩ := payCategory_spec hc h (epochPool c n) c.pStaking r.staking
  obtain ⟨a2, b2⟩ := payCategory_spec hc a1 (epochPool c n) c.pCandidate r.candidates
  obtain ⟨a3, b3⟩ := payCategory_spec hc a2 (epochPool c n) c.flipBasic r.flipBasic
  obtain ⟨a4, b4⟩ := payCategory_spec hc a3 (epochPool c n) c.flipExtra r.flipExtra
  obtain ⟨a5, b5⟩ := payCategory_spec hc a4 (epochPool c n) c.pReports r.reports
  obtain ⟨a6, b6⟩ := payCategory_spec hc a5 (epochPool c n) c.pInvitation r.invitations
  have a7 := a6.addBal r.god (flatPayout (epochPool c n) c.pFoundation) (by have := a6.bal r.god; omega)
  have a8 := a7.addBal 0 (flatPayout (epochPool c n) c.pZeroWallet) (by have := a7.bal 0; omega)
  refine ⟨a8, ?_⟩
  rw [total_addBal, total_addBal]
  push_cast at *
  omega

structure EpochRewardsIn.Ok (r : EpochRewardsIn) : Prop where
  staking : r.staking.Ok
  candidates : r.candidates.Ok
  flipBasic : r.flipBasic.Ok
  flipExtra : r.flipExtra.Ok
  reports : r.reports.Ok
  invitations : r.invitations.Ok

theorem pool_dvd {c : RCfg} (hc : c.Ok) (n : Nat) : 100 ∣ epochPool c n := by
  obtain ⟨q, hq⟩ := hc.div
  exact ⟨q * n, by simp only [epochPool, hq]; ring⟩

/-- **exact totals**: all epoch payouts together stay within the pool -/
theorem paid_le_pool {c : RCfg} (hc : c.Ok) (n : Nat) {r : EpochRewardsIn} (hr : r.Ok) :
    paidSum c (epochPool c n) r + flatPayout (epochPool c n) c.pFoundation + flatPayout (epochPool c n) c.pZeroWallet ≤
      epochPool c n := by
  have hd := pool_dvd hc n
  have e := fun p => (pct_share hd p)
  have s1 := catPayouts_sum_le hr.staking (e c.pStaking).1
  have s2 := catPayouts_sum_le hr.candidates (e c.pCandidate).1
  have s3 := catPayouts_sum_le hr.flipBasic (e c.flipBasic).1
  have s4 := catPayouts_sum_le hr.flipExtra (e c.flipExtra).1
  have s5 := catPayouts_sum_le hr.reports (e c.pReports).1
  have s6 := catPayouts_sum_le hr.invitations (e c.pInvitation).1
  rw [(e _).2] at s1 s2 s3 s4 s5 s6
  rw [flatPayout_eq hd, flatPayout_eq hd]
  have hp := hc.pct
  unfold RCfg.percentSum at hp
  have hpool : epochPool c n = 100 * (epochPool c n / 100) := (Nat.mul_div_cancel' hd).symm
  simp only [paidSum]
  generalize epochPool c n / 100 = q at *
  have : q * c.pStaking + q * c.pCandidate + q * c.flipBasic + q * c.flipExtra + q * c.pReports + q * c.pInvitation +
      q * c.pFoundation + q * c.pZeroWallet = q * (c.pStaking + c.pCandidate + c.flipBasic + c.flipExtra + c.pInvitation +
      c.pReports + c.pFoundation + c.pZeroWallet) := by ring
  have h2 := Nat.mul_le_mul_left q hp
  omega

/-- the as-found side conditions: every category total is at least `d/(d+k)` of the exact weight sum -/
structure EpochRewardsIn.OkEps (r : EpochRewardsIn) (d k : Nat) : Prop where
  small : r.staking.wTotal < 2 * pow16 * r.staking.wScale ∧ r.candidates.wTotal < 2 * pow16 * r.candidates.wScale ∧
    r.flipBasic.wTotal < 2 * pow16 * r.flipBasic.wScale ∧ r.flipExtra.wTotal < 2 * pow16 * r.flipExtra.wScale ∧
    r.reports.wTotal < 2 * pow16 * r.reports.wScale ∧ r.invitations.wTotal < 2 * pow16 * r.invitations.wScale
  sum : r.staking.wSum * d ≤ r.staking.wTotal * (d + k) ∧ r.candidates.wSum * d ≤ r.candidates.wTotal * (d + k) ∧
    r.flipBasic.wSum * d ≤ r.flipBasic.wTotal * (d + k) ∧ r.flipExtra.wSum * d ≤ r.flipExtra.wTotal * (d + k) ∧
    r.reports.wSum * d ≤ r.reports.wTotal * (d + k) ∧ r.invitations.wSum * d ≤ r.invitations.wTotal * (d + k)

/-- **as found**: with category totals that may fall short of the exact weight sums by the factor `d/(d+k)`, all
epoch payouts together stay within `(1 + k/d)·(pool + 6)` -/
theorem paid_le_pool_eps {c : RCfg} (hc : c.Ok) (n : Nat) {r : EpochRewardsIn} {d k : Nat} (hd0 : 0 < d) (hr : r.OkEps d k) :
    (paidSum c (epochPool c n) r + flatPayout (epochPool c n) c.pFoundation + flatPayout (epochPool c n) c.pZeroWallet) * d ≤
      (d + k) * (epochPool c n + 6) := by
  have hd := pool_dvd hc n
  have e := fun p => (pct_share hd p)
  obtain ⟨m1, m2, m3, m4, m5, m6⟩ := hr.small
  obtain ⟨u1, u2, u3, u4, u5, u6⟩ := hr.sum
  have s1 := catPayouts_sum_lt m1 (e c.pStaking).1 hd0 u1
  have s2 := catPayouts_sum_lt m2 (e c.pCandidate).1 hd0 u2
  have s3 := catPayouts_sum_lt m3 (e c.flipBasic).1 hd0 u3
  have s4 := catPayouts_sum_lt m4 (e c.flipExtra).1 hd0 u4
  have s5 := catPayouts_sum_lt m5 (e c.pReports).1 hd0 u5
  have s6 := catPayouts_sum_lt m6 (e c.pInvitation).1 hd0 u6
  rw [(e _).2] at s1 s2 s3 s4 s5 s6
  rw [flatPayout_eq hd, flatPayout_eq hd]
  have hp := hc.pct
  unfold RCfg.percentSum at hp
  have hpool : epochPool c n = 100 * (epochPool c n / 100) := (Nat.mul_div_cancel' hd).symm
  simp only [paidSum]
  generalize epochPool c n / 100 = q at *
  have h2 := Nat.mul_le_mul_left q hp
  have f1 : q * c.pFoundation * d ≤ (d + k) * (q * c.pFoundation) := by
    rw [Nat.mul_comm]; exact Nat.mul_le_mul_right _ (by omega)
  have f2 : q * c.pZeroWallet * d ≤ (d + k) * (q * c.pZeroWallet) := by
    rw [Nat.mul_comm]; exact Nat.mul_le_mul_right _ (by omega)
  have h4 := Nat.mul_le_mul_left ((d + k) * q) hp
  have hp2 : (d + k) * epochPool c n = (d + k) * (100 * q) := by rw [hpool]
  linarith [s1, s2, s3, s4, s5, s6, f1, f2, h4, hp2]

/-! ### the other funds steps of the epoch block -/

theorem idf_burnIdentity (s : State) (a b : Nat) :
    (burnIdentity s a).idf b = if b = a then { stake := 0, locked := 0, replenished := 0 } else s.idf b := by
  unfold burnIdentity
  simp only [idf_addReplenished, idf_addLocked, idf_addStake]
  split
  · simp
  · rfl

theorem burnIdentity_spec {s : State} (h : LInv s) (a : Nat) :
    LInv (burnIdentity s a) ∧ total (burnIdentity s a) ≤ total s := by
  refine ⟨⟨fun b => h.bal b, fun b => h.cstake b, fun b => ?_⟩, ?_⟩
  · rw [idf_burnIdentity]; split
    · simp
    · exact h.idf b
  · unfold burnIdentity
    rw [total_addReplenished, total_addLocked, total_addStake]
    have := h.idf a; omega

theorem killSaveParts_bounds {f : IFunds} (hf : 0 ≤ f.locked ∧ f.locked ≤ f.replenished ∧ f.replenished ≤ f.stake)
    {share : Nat} (hs : share ≤ 100) :
    0 ≤ (killSaveParts f share).1 ∧ (killSaveParts f share).1 ≤ f.stake ∧
    (killSaveParts f share).1 + (killSaveParts f share).2 = f.stake := by
  simp only [killSaveParts]
  generalize hy : (f.stake - f.locked) * (share : Int) = y
  have h0 : 0 ≤ y := by subst hy; exact Int.mul_nonneg (by omega) (Int.natCast_nonneg _)
  have h1 : y ≤ (f.stake - f.locked) * 100 := by
    subst hy
    have : (share : Int) ≤ 100 := by exact_mod_cast hs
    nlinarith
  omega

theorem applyCerOp_killSave_spec {s : State} (h : LInv s) (a : Nat) {share : Nat} (hs : share ≤ 100) :
    LInv (applyCerOp s (.killSave a share)) ∧ total (applyCerOp s (.killSave a share)) ≤ total s := by
  obtain ⟨k1, k2, -⟩ := killSaveParts_bounds (h.idf a) hs
  simp only [applyCerOp]
  have h1 := h.addBal a (killSaveParts (s.idf a) share).1 (by have := h.bal a; omega)
  obtain ⟨i1, i2⟩ := burnIdentity_spec h1 a
  refine ⟨i1, ?_⟩
  unfold burnIdentity at i2 ⊢
  rw [total_addReplenished, total_addLocked, total_addStake, total_addBal, idf_addBal]
  omega

theorem verifiedPart_bounds {f : IFunds} (hf : f.replenished ≤ f.stake) :
    0 ≤ verifiedPart f ∧ verifiedPart f ≤ f.stake - f.replenished := by
  unfold verifiedPart
  have := toInt_bounds (n := f.stake - f.replenished) (a := 75) (b := 100) (by omega) (by omega)
  simpa using this

theorem applyCerOp_verified_spec {s : State} (h : LInv s) (a d : Nat) :
    LInv (applyCerOp s (.verifiedTransfer a d)) ∧ total (applyCerOp s (.verifiedTransfer a d)) = total s := by
  obtain ⟨v1, v2⟩ := verifiedPart_bounds (h.idf a).2.2
  simp only [applyCerOp]
  have h1 := h.addBal d (verifiedPart (s.idf a)) (by have := h.bal d; omega)
  refine ⟨h1.addStake a _ (by rw [idf_addBal]; omega), ?_⟩
  rw [total_addStake, total_addBal]; omega

def CerOp.Ok : CerOp → Prop
  | .killSave _ share => share ≤ 100
  | .verifiedTransfer _ _ => True

theorem applyCerOp_spec {s : State} (h : LInv s) {op : CerOp} (ho : op.Ok) :
    LInv (applyCerOp s op) ∧ total (applyCerOp s op) ≤ total s := by
  cases op with
  | killSave a share => exact applyCerOp_killSave_spec h a ho
  | verifiedTransfer a d => have := applyCerOp_verified_spec h a d; exact ⟨this.1, by omega⟩

theorem unlockStake_spec {s : State} (h : LInv s) (a : Nat) :
    LInv (unlockStake s a) ∧ total (unlockStake s a) = total s := by
  unfold unlockStake
  refine ⟨h.addLocked a _ (by have := h.idf a; omega), ?_⟩
  rw [total_addLocked]

theorem clearDust_spec {s : State} (h : LInv s) (thr : Int) (a : Nat) :
    LInv (clearDust thr s a) ∧ total (clearDust thr s a) ≤ total s := by
  unfold clearDust
  split
  · refine ⟨h.addBal a _ (by omega), ?_⟩
    rw [total_addBal]; have := h.bal a; omega
  · exact ⟨h, by omega⟩

/-- a fold of steps that keep the invariant and do not raise the total -/
theorem foldl_spec {α : Type} (f : State → α → State) (P : α → Prop)
    (hf : ∀ s x, LInv s → P x → LInv (f s x) ∧ total (f s x) ≤ total s) (l : List α) (hl : ∀ x ∈ l, P x) :
    ∀ s, LInv s → LInv (l.foldl f s) ∧ total (l.foldl f s) ≤ total s := by
  induction l with
  | nil => intro s h; exact ⟨h, by simp⟩
  | cons x t ih =>
    intro s h
    obtain ⟨a1, a2⟩ := hf s x h (hl x (by simp))
    obtain ⟨b1, b2⟩ := ih (fun y hy => hl y (by simp [hy])) _ a1
    exact ⟨b1, by simp only [List.foldl_cons]; omega⟩

structure EpochEv.Ok (e : EpochEv) : Prop where
  cer : ∀ op ∈ e.cer, op.Ok
  rewards : e.rewards.Ok

/-- the side conditions of an epoch event on the code as found (`float32` category totals) -/
structure EpochEv.OkEps (e : EpochEv) (d k : Nat) : Prop where
  cer : ∀ op ∈ e.cer, op.Ok
  rewards : e.rewards.OkEps d k

/-- what the epoch step may add: nothing after a failed validation, else whatever the distribution pays -/
def epochPaid (c : RCfg) (e : EpochEv) : Nat :=
  if e.failed then 0
  else paidSum c (epochPool c e.epochLen) e.rewards + flatPayout (epochPool c e.epochLen) c.pFoundation +
    flatPayout (epochPool c e.epochLen) c.pZeroWallet

theorem applyNewEpoch_spec {c : RCfg} (hc : c.Ok) {s : State} (h : LInv s) {e : EpochEv} (hcer : ∀ op ∈ e.cer, op.Ok) :
    LInv (applyNewEpoch c s e) ∧ total (applyNewEpoch c s e) ≤ total s + (epochPaid c e : Nat) := by
  simp only [applyNewEpoch, epochPaid]
  have dustStep := foldl_spec (clearDust e.dustThr) (fun _ => True)
    (fun s x hs _ => clearDust_spec hs e.dustThr x) e.dust (fun _ _ => trivial)
  have unlockStep := foldl_spec unlockStake (fun _ => True)
    (fun s x hs _ => by have := unlockStake_spec hs x; exact ⟨this.1, by omega⟩) e.unlock (fun _ _ => trivial)
  by_cases hfail : e.failed = true
  · simp only [hfail, if_true]
    obtain ⟨u1, u2⟩ := unlockStep s h
    obtain ⟨d1, d2⟩ := dustStep _ u1
    exact ⟨d1, by simp; omega⟩
  · simp only [hfail]
    obtain ⟨c1, c2⟩ := foldl_spec applyCerOp CerOp.Ok (fun s x hs hx => applyCerOp_spec hs hx) e.cer hcer s h
    obtain ⟨u1, u2⟩ := unlockStep _ c1
    obtain ⟨r1, r2⟩ := rewardValidIdentities_spec hc u1 e.epochLen e.rewards
    obtain ⟨d1, d2⟩ := dustStep _ r1
    refine ⟨d1, ?_⟩
    simp only [Bool.false_eq_true, if_false]
    omega

/-! ### blocks -/

structure BlockEv.Ok (b : BlockEv) : Prop where
  rw : b.rw.Ok
  epoch : ∀ e, b.epoch = some e → ∀ op ∈ e.cer, op.Ok

def epochPaidOpt (c : RCfg) : Option EpochEv → Nat
  | some e => epochPaid c e
  | none => 0

/-- what a block may add beyond its transactions -/
def blockPaid (c : RCfg) (b : BlockEv) : Nat := epochPaidOpt c b.epoch + (if b.proposed then c.fullReward else 0)

theorem epochStep_spec {c : RCfg} (hc : c.Ok) {s : State} (h : LInv s) (o : Option EpochEv)
    (ho : ∀ e, o = some e → ∀ op ∈ e.cer, op.Ok) :
    LInv (epochStep c s o) ∧ total (epochStep c s o) ≤ total s + (epochPaidOpt c o : Nat) := by
  cases o with
  | none => exact ⟨h, by simp [epochStep, epochPaidOpt]⟩
  | some e => exact applyNewEpoch_spec hc h (ho e rfl)

theorem applyBlockPost_spec {c : RCfg} (hc : c.Ok) {s : State} (h : LInv s) {fee tips : Int} (hf : 0 ≤ fee)
    (ht : 0 ≤ tips) {b : BlockEv} (hb : b.Ok) :
    LInv (applyBlockPost c s fee tips b) ∧
    total (applyBlockPost c s fee tips b) ≤
      total s + (blockPaid c b : Nat) + (if b.proposed then fee + tips else 0) := by
  simp only [applyBlockPost, blockPaid]
  have burnStep := foldl_spec burnIdentity (fun _ => True) (fun s x hs _ => burnIdentity_spec hs x) b.killed
    (fun _ _ => trivial)
  obtain ⟨i1, t1⟩ := epochStep_spec hc h b.epoch hb.epoch
  by_cases hp : b.proposed = true
  · simp only [hp, if_true]
    obtain ⟨r1, r2⟩ := applyBlockRewards_spec hc i1 hf ht b.rw.blockTs hb.rw.1 hb.rw.2
    obtain ⟨k1, k2⟩ := burnStep _ r1
    refine ⟨k1, ?_⟩
    have := (splitFee_bounds hc hf).2.1
    push_cast
    omega
  · simp only [hp]
    obtain ⟨k1, k2⟩ := burnStep _ i1
    refine ⟨k1, ?_⟩
    simp only [Bool.false_eq_true, if_false]
    push_cast
    omega

end IdenaModel.Rewards
