import IdenaModel.Model.Messages
/-! Helper lemmas for C12 (`Props/C12.lean`): accessors are total on objects that passed their gate; the fork
loop never panics and certifies the first own block; insertion sort sorts. -/
namespace IdenaModel.Msg

theorem Header.height_ok_of_valid {h : Option Header} (hv : Header.isValid h = true) :
    ∃ n, Header.height h = .val n := by
  cases h with
  | none => simp [Header.isValid] at hv
  | some h =>
    obtain ⟨e, p⟩ := h
    cases e <;> cases p <;> simp_all [Header.isValid, Header.height]

theorem Header.hash_ok_of_valid {h : Option Header} (hv : Header.isValid h = true) :
    Header.hash h = .val () := by
  cases h with
  | none => simp [Header.isValid] at hv
  | some h =>
    obtain ⟨e, p⟩ := h
    cases e <;> cases p <;> simp_all [Header.isValid, Header.hash]

theorem Header.viaEmptyFirst_ok_of_valid {h : Option Header} (hv : Header.isValid h = true) :
    Header.viaEmptyFirst h = .val () := by
  cases h with
  | none => simp [Header.isValid] at hv
  | some h =>
    obtain ⟨e, p⟩ := h
    cases e <;> cases p <;> simp_all [Header.isValid, Header.viaEmptyFirst]

theorem Block.header_valid_of_valid {b : Block} (hv : b.isValid = true) : Header.isValid b.header = true := by
  simp [Block.isValid] at hv; exact hv.1

theorem Block.height_ok_of_valid {b : Block} (hv : b.isValid = true) : ∃ n, b.height = .val n := by
  obtain ⟨h, body⟩ := b
  cases h with
  | none => simp [Block.isValid, Header.isValid] at hv
  | some h =>
    obtain ⟨e, p⟩ := h
    cases e <;> cases p <;> simp_all [Block.isValid, Header.isValid, Block.height, Block.isEmpty]

theorem Block.hash_ok_of_valid {b : Block} (hv : b.isValid = true) : b.hash = .val () :=
  Header.hash_ok_of_valid (Block.header_valid_of_valid hv)

theorem rangeHeights_ok_of_valid : ∀ {items : List RangeItem}, rangeValid items = true →
    ∃ hs, rangeHeights items = .val hs
  | [], _ => ⟨[], rfl⟩
  | i :: t, hv => by
    simp [rangeValid] at hv
    obtain ⟨n, hn⟩ := Header.height_ok_of_valid hv.1
    have ht : rangeValid t = true := by simp [rangeValid]; exact hv.2
    obtain ⟨hs, hhs⟩ := rangeHeights_ok_of_valid ht
    exact ⟨n :: hs, by simp [rangeHeights, hn, hhs, R.bind]⟩

theorem addPush_ok {env : Env} (hc : env.holdersComplete) {t : Nat} (hv : pushValid t = true) :
    addPush env t = .ok { forwarded := true } := by
  have h := hc t hv
  simp only [addPush, h, if_true]

theorem batchPushRun_no_panic {env : Env} (hc : env.holdersComplete) :
    ∀ items, batchPushRun env items ≠ .panic
  | [] => by simp [batchPushRun]
  | i :: rest => by
    have ih := batchPushRun_no_panic hc rest
    cases i with
    | none => simp [batchPushRun, batchPushStep]
    | some raw =>
      by_cases hv : pushValid (pushTypeOf raw) = true
      · simp [batchPushRun, batchPushStep, hv, addPush_ok hc hv]; exact ih
      · simp [batchPushRun, batchPushStep, hv]

/-! ### fork loop -/

theorem forkLoop_inl_ne_panic (own : Own) (fork : List ForkBlock) :
    ∀ n j i fp op e, forkLoop own fork n j i fp op = .inl e → e ≠ .panic
  | 0, _, _, _, _, _, h => by simp [forkLoop] at h
  | n + 1, j, i, fp, op, e, h => by
    simp only [forkLoop] at h
    split at h
    · cases h; decide
    · split at h
      · cases h; decide
      · split at h
        · cases h; decide
        · exact forkLoop_inl_ne_panic own fork n _ _ _ _ e h

theorem forkLoop_inr_first (own : Own) (fork : List ForkBlock) (n j i fp op : Nat) (r : Nat × Nat)
    (h : forkLoop own fork (n + 1) j i fp op = .inr r) : (own.blockAt i).isSome = true := by
  simp only [forkLoop] at h
  split at h
  · cases h
  · split at h
    · cases h
    · split at h
      · cases h
      · rename_i hb; simp [hb]

/-! ### sorting -/

def SortedH (l : List ForkBlock) : Prop := l.Pairwise (fun a b => a.height ≤ b.height)

theorem mem_insertByHeight {b x : ForkBlock} : ∀ {l : List ForkBlock}, x ∈ insertByHeight b l → x = b ∨ x ∈ l
  | [], h => by simp [insertByHeight] at h; exact Or.inl h
  | a :: t, h => by
    simp only [insertByHeight] at h
    split at h
    · simp at h; rcases h with h | h | h
      · exact Or.inl h
      · exact Or.inr (by simp [h])
      · exact Or.inr (by simp [h])
    · simp at h; rcases h with h | h
      · exact Or.inr (by simp [h])
      · rcases mem_insertByHeight h with h | h
        · exact Or.inl h
        · exact Or.inr (by simp [h])

theorem insertByHeight_sorted (b : ForkBlock) : ∀ {l : List ForkBlock}, SortedH l → SortedH (insertByHeight b l)
  | [], _ => by simp [insertByHeight, SortedH]
  | a :: t, hs => by
    simp only [insertByHeight]
    have hs' := hs
    simp only [SortedH, List.pairwise_cons] at hs
    split
    · rename_i hle
      simp only [SortedH, List.pairwise_cons]
      refine ⟨?_, hs.1, hs.2⟩
      intro x hx
      simp at hx
      rcases hx with hx | hx
      · subst hx; exact hle
      · exact Nat.le_trans hle (hs.1 x hx)
    · rename_i hgt
      have hlt : a.height ≤ b.height := Nat.le_of_lt (Nat.lt_of_not_le hgt)
      simp only [SortedH, List.pairwise_cons]
      refine ⟨?_, insertByHeight_sorted b hs.2⟩
      intro x hx
      rcases mem_insertByHeight hx with hx | hx
      · subst hx; exact hlt
      · exact hs.1 x hx

theorem sortBlocks_sorted : ∀ l : List ForkBlock, SortedH (sortBlocks l)
  | [] => by simp [sortBlocks, SortedH]
  | a :: t => by simp only [sortBlocks]; exact insertByHeight_sorted a (sortBlocks_sorted t)

theorem sorted_head_le_last {a : ForkBlock} {t : List ForkBlock} (hs : SortedH (a :: t)) {last : ForkBlock}
    (hl : (a :: t).getLast? = some last) : a.height ≤ last.height := by
  have hm : last ∈ a :: t := List.mem_of_getLast? hl
  simp only [SortedH, List.pairwise_cons] at hs
  simp at hm
  rcases hm with hm | hm
  · subst hm; exact Nat.le_refl _
  · exact hs.1 last hm

end IdenaModel.Msg
