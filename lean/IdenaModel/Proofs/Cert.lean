import IdenaModel.Model.Cert
/-! Helper lemmas for C07 (certificate validation, vote counter, committee).  Core Lean only. -/
namespace IdenaModel.Cert

/-! ### sets as duplicate-free lists -/

theorem nodup_insert {a : Nat} {l : List Nat} (h : l.Nodup) : (l.insert a).Nodup := by
  by_cases ha : a ∈ l
  · rw [List.insert_of_mem ha]; exact h
  · rw [List.insert_of_not_mem ha]; exact List.nodup_cons.mpr ⟨ha, h⟩

/-- `mapset.Add` of every element of `l` to the set `vs` -/
def insertAll (vs l : List Nat) : List Nat := l.foldl (fun s a => s.insert a) vs

theorem listToSet_eq (l : List Nat) : listToSet l = insertAll [] l := rfl

theorem mem_insertAll {x : Nat} {vs l : List Nat} : x ∈ insertAll vs l ↔ x ∈ vs ∨ x ∈ l := by
  induction l generalizing vs with
  | nil => simp [insertAll]
  | cons a t ih =>
    simp only [insertAll, List.foldl_cons] at ih ⊢
    rw [ih, List.mem_insert_iff, List.mem_cons]
    constructor
    · rintro ((h | h) | h)
      · exact Or.inr (Or.inl h)
      · exact Or.inl h
      · exact Or.inr (Or.inr h)
    · rintro (h | h | h)
      · exact Or.inl (Or.inr h)
      · exact Or.inl (Or.inl h)
      · exact Or.inr h

theorem nodup_insertAll {vs l : List Nat} (h : vs.Nodup) : (insertAll vs l).Nodup := by
  induction l generalizing vs with
  | nil => simpa [insertAll] using h
  | cons a t ih =>
    simp only [insertAll, List.foldl_cons] at ih ⊢
    exact ih (nodup_insert h)

theorem length_insertAll_le {vs l : List Nat} : (insertAll vs l).length ≤ vs.length + l.length := by
  induction l generalizing vs with
  | nil => simp [insertAll]
  | cons a t ih =>
    simp only [insertAll, List.foldl_cons, List.length_cons] at ih ⊢
    have h1 := @ih (vs.insert a)
    have h2 : (vs.insert a).length ≤ vs.length + 1 := by
      by_cases ha : a ∈ vs
      · rw [List.length_insert_of_mem ha]; omega
      · rw [List.length_insert_of_not_mem ha]; omega
    omega

/-- number of distinct elements of a list: the cardinality of the `mapset` built from it -/
def distinctCount (l : List Nat) : Nat := (insertAll [] l).length

/-- `distinctCount` is the length of *any* duplicate-free list with the same members -/
theorem distinctCount_eq_of_nodup {vs l : List Nat} (hn : vs.Nodup) (hm : ∀ a, a ∈ vs ↔ a ∈ l) :
    vs.length = distinctCount l := by
  have h2 : (insertAll [] l).Nodup := nodup_insertAll List.nodup_nil
  have : vs.Perm (insertAll [] l) := by
    rw [List.perm_ext_iff_of_nodup hn h2]
    intro a; rw [hm a, mem_insertAll]; simp
  exact this.length_eq

theorem distinctCount_of_nodup {l : List Nat} (hn : l.Nodup) : distinctCount l = l.length :=
  (distinctCount_eq_of_nodup hn (fun _ => Iff.rfl)).symm

theorem distinctCount_congr {l₁ l₂ : List Nat} (h : ∀ a, a ∈ l₁ ↔ a ∈ l₂) : distinctCount l₁ = distinctCount l₂ := by
  have h1 : (insertAll [] l₁).Nodup := nodup_insertAll List.nodup_nil
  rw [← distinctCount_eq_of_nodup h1 (l := l₂)]
  · rfl
  · intro a; rw [mem_insertAll, h a]; simp

theorem distinctCount_le_length (l : List Nat) : distinctCount l ≤ l.length := by
  have := @length_insertAll_le [] l
  simpa [distinctCount] using this

/-! ### the loop of `ValidateBlockCert` -/

section Validate
variable {σ : Type} (recover : σ → Msg → Option Nat) (appr : Nat → Bool) (useCache : Bool)
  (c : BlockCert σ) (prevHash blockHash height : Nat)

/-- the voter address the validator derives for a signature (zero address when recovery fails) -/
def sigAddr (s : CertSig σ) : Nat := (recover s.sig (certMsg c prevHash s)).getD 0

/-- a signature is looked at unless the fast-sync path skips it (unrecoverable key, `continue`) -/
def countedB (s : CertSig σ) : Bool := !(useCache && (recover s.sig (certMsg c prevHash s)).isNone)

/-- the voter addresses of the signatures that are looked at, in certificate order -/
def countedAddrs (sigs : List (CertSig σ)) : List Nat :=
  (sigs.filter (countedB recover useCache c prevHash)).map (sigAddr recover c prevHash)

/-- what the loop demands of every signature it looks at -/
def SigGood (s : CertSig σ) : Prop :=
  appr (sigAddr recover c prevHash s) = true ∧ c.round = height ∧ c.voted = blockHash

theorem certLoop_ok (sigs : List (CertSig σ)) (voters : List Nat)
    (h : ∀ s ∈ sigs, countedB recover useCache c prevHash s = true → SigGood recover appr c prevHash blockHash height s) :
    certLoop recover appr useCache c prevHash blockHash height sigs voters
      = .ok (insertAll voters (countedAddrs recover useCache c prevHash sigs)) := by
  induction sigs generalizing voters with
  | nil => simp [certLoop, countedAddrs, insertAll]
  | cons s t ih =>
    have hs := h s (List.mem_cons_self)
    simp only [certLoop]
    by_cases hc : countedB recover useCache c prevHash s = true
    · obtain ⟨ha, hr, hv⟩ := hs hc
      have hnot : ¬ (useCache = true ∧ recover s.sig (certMsg c prevHash s) = none) := by
        intro ⟨h1, h2⟩; simp [countedB, h1, h2] at hc
      have e1 : (certMsg c prevHash s).round = height := hr
      have e2 : (certMsg c prevHash s).voted = blockHash := hv
      have e3 : (certMsg c prevHash s).parent = prevHash := rfl
      simp only [sigAddr] at ha
      rw [if_neg hnot, if_neg (by simp [ha]), if_neg (by simp [e1]), if_neg (by simp [e2]), if_neg (by simp [e3])]
      rw [ih (voters := voters.insert ((recover s.sig (certMsg c prevHash s)).getD 0))
            (fun s' hs' => h s' (List.mem_cons_of_mem _ hs'))]
      simp [countedAddrs, hc, insertAll, sigAddr]
    · have hskip : useCache = true ∧ recover s.sig (certMsg c prevHash s) = none := by
        cases hu : useCache <;> cases hr : recover s.sig (certMsg c prevHash s) <;> simp_all [countedB]
      rw [if_pos hskip]
      rw [ih (voters := voters) (fun s' hs' => h s' (List.mem_cons_of_mem _ hs'))]
      simp [countedAddrs, hc]

theorem certLoop_err (sigs : List (CertSig σ)) (voters : List Nat)
    (h : ∃ s ∈ sigs, countedB recover useCache c prevHash s = true ∧
          ¬ SigGood recover appr c prevHash blockHash height s) :
    ∃ e, certLoop recover appr useCache c prevHash blockHash height sigs voters = .error e ∧
      (e = .invalidVoter ∨ e = .invalidRound ∨ e = .invalidHash) := by
  induction sigs generalizing voters with
  | nil => obtain ⟨s, hs, _⟩ := h; cases hs
  | cons s t ih =>
    simp only [certLoop]
    by_cases hc : countedB recover useCache c prevHash s = true
    · have hnot : ¬ (useCache = true ∧ recover s.sig (certMsg c prevHash s) = none) := by
        intro ⟨h1, h2⟩; simp [countedB, h1, h2] at hc
      rw [if_neg hnot]
      by_cases ha : appr ((recover s.sig (certMsg c prevHash s)).getD 0) = false
      · exact ⟨.invalidVoter, by rw [if_pos ha], Or.inl rfl⟩
      · rw [if_neg ha]
        by_cases hr : (certMsg c prevHash s).round ≠ height
        · exact ⟨.invalidRound, by rw [if_pos hr], Or.inr (Or.inl rfl)⟩
        · rw [if_neg hr]
          by_cases hv : (certMsg c prevHash s).voted ≠ blockHash
          · exact ⟨.invalidHash, by rw [if_pos hv], Or.inr (Or.inr rfl)⟩
          · rw [if_neg hv]
            have hp : ¬ ((certMsg c prevHash s).parent ≠ prevHash) := by simp [certMsg]
            rw [if_neg hp]
            apply ih
            obtain ⟨s', hs', hc', hb⟩ := h
            rcases List.mem_cons.mp hs' with rfl | hin
            · exfalso; apply hb
              refine ⟨?_, ?_, ?_⟩
              · simpa [sigAddr] using ha
              · simpa [certMsg] using hr
              · simpa [certMsg] using hv
            · exact ⟨s', hin, hc', hb⟩
    · have hskip : useCache = true ∧ recover s.sig (certMsg c prevHash s) = none := by
        cases hu : useCache <;> cases hr : recover s.sig (certMsg c prevHash s) <;> simp_all [countedB]
      rw [if_pos hskip]
      apply ih
      obtain ⟨s', hs', hc', hb⟩ := h
      rcases List.mem_cons.mp hs' with rfl | hin
      · exact absurd hc' hc
      · exact ⟨s', hin, hc', hb⟩

end Validate

/-! ### association lists (Go maps) -/

theorem mem_assocSet {β : Type} {k : Nat} {v : β} {l : List (Nat × β)} {p : Nat × β}
    (h : p ∈ assocSet k v l) : p = (k, v) ∨ p ∈ l := by
  induction l with
  | nil => simp [assocSet] at h; exact Or.inl h
  | cons q t ih =>
    obtain ⟨k', v'⟩ := q
    simp only [assocSet] at h
    by_cases e : k' = k
    · simp only [e, if_true, List.mem_cons] at h
      rcases h with h | h
      · exact Or.inl h
      · exact Or.inr (List.mem_cons_of_mem _ h)
    · simp only [e, if_false, List.mem_cons] at h
      rcases h with h | h
      · exact Or.inr (by rw [h]; exact List.mem_cons_self)
      · rcases ih h with h | h
        · exact Or.inl h
        · exact Or.inr (List.mem_cons_of_mem _ h)

theorem lookup_mem {β : Type} {k : Nat} {v : β} {l : List (Nat × β)} (h : l.lookup k = some v) : (k, v) ∈ l := by
  induction l with
  | nil => simp [List.lookup] at h
  | cons q t ih =>
    obtain ⟨k', v'⟩ := q
    simp only [List.lookup] at h
    by_cases e : k = k'
    · subst e; simp at h; subst h; exact List.mem_cons_self
    · have : (k == k') = false := by simpa using e
      simp only [this] at h
      exact List.mem_cons_of_mem _ (ih h)

theorem lookup_none_not_key {β : Type} {k : Nat} {l : List (Nat × β)} (h : l.lookup k = none) :
    k ∉ l.map (·.1) := by
  induction l with
  | nil => simp
  | cons q t ih =>
    obtain ⟨k', v'⟩ := q
    simp only [List.lookup] at h
    by_cases e : k = k'
    · subst e; simp at h
    · have : (k == k') = false := by simpa using e
      simp only [this] at h
      simp only [List.map_cons, List.mem_cons, not_or]
      exact ⟨e, ih h⟩

theorem assocSet_of_not_key {β : Type} {k : Nat} {v : β} {l : List (Nat × β)} (h : k ∉ l.map (·.1)) :
    assocSet k v l = l ++ [(k, v)] := by
  induction l with
  | nil => rfl
  | cons q t ih =>
    obtain ⟨k', v'⟩ := q
    simp only [List.map_cons, List.mem_cons, not_or] at h
    have e : ¬ k' = k := fun e => h.1 e.symm
    simp only [assocSet, e, if_false, List.cons_append, ih h.2]

theorem lookup_assocSet_self {β : Type} (k : Nat) (v : β) (l : List (Nat × β)) :
    (assocSet k v l).lookup k = some v := by
  induction l with
  | nil => simp [assocSet, List.lookup]
  | cons q t ih =>
    obtain ⟨k', v'⟩ := q
    simp only [assocSet]
    by_cases e : k' = k
    · simp [e, List.lookup]
    · have : (k == k') = false := by simpa using fun h => e h.symm
      simp only [e, if_false, List.lookup, this, ih]

/-! ### the vote counter -/

section Count
variable {σ : Type} (recover : σ → Msg → Option Nat) (appr : Nat → Bool)
  (iterOrder : RoundVotes σ → RoundVotes σ) (step parentHash : Nat) (need : Int) (P : Vote σ → Prop)

/-- invariant of `byBlock[h]`: every recorded vote is a vote for `h` on the counted parent and step by an approved
voter, filed under its voter address; one entry per voter.  `P` is any property of the votes offered to the
counter (used for "stored under round `r` ⇒ `Header.Round = r`") -/
def RVInv (h : Nat) (rv : RoundVotes σ) : Prop :=
  (∀ p ∈ rv, p.2.voted = h ∧ p.2.parent = parentHash ∧ p.2.step = step ∧ appr p.1 = true ∧
      p.1 = voterAddr recover p.2 ∧ P p.2) ∧ (rv.map (·.1)).Nodup

def BBInv (bb : ByBlock σ) : Prop := ∀ p ∈ bb, RVInv recover appr step parentHash P p.1 p.2

/-- what the counter hands out: votes for one hash `h`, counted parent and step, approved pairwise distinct voters,
at least `need` of them -/
def Emitted (h : Nat) (list : List (Vote σ)) : Prop :=
  (∀ x ∈ list, x.voted = h ∧ x.parent = parentHash ∧ x.step = step ∧ appr (voterAddr recover x) = true ∧ P x) ∧
  (list.map (voterAddr recover)).Nodup ∧ need ≤ (list.length : Int)

theorem takeUntil_prefix {α : Type} (need : Int) (l acc : List α) :
    ∃ k, takeUntil need l acc = acc ++ l.take k := by
  induction l generalizing acc with
  | nil => exact ⟨0, by simp [takeUntil]⟩
  | cons x t ih =>
    simp only [takeUntil]
    by_cases h : ((acc ++ [x]).length : Int) ≥ need
    · refine ⟨1, ?_⟩; rw [if_pos h]; simp
    · obtain ⟨k, hk⟩ := ih (acc ++ [x])
      refine ⟨k + 1, ?_⟩; rw [if_neg h, hk]; simp

theorem takeUntil_ne_nil {α : Type} (need : Int) (l acc : List α) (h : l ≠ [] ∨ acc ≠ []) :
    takeUntil need l acc ≠ [] := by
  induction l generalizing acc with
  | nil => rcases h with h | h; exact absurd rfl h; simpa [takeUntil] using h
  | cons x t ih =>
    simp only [takeUntil]
    by_cases hc : ((acc ++ [x]).length : Int) ≥ need
    · rw [if_pos hc]; simp
    · rw [if_neg hc]; exact ih _ (Or.inr (by simp))

theorem assocSet_ne_nil {β : Type} (k : Nat) (v : β) (l : List (Nat × β)) : assocSet k v l ≠ [] := by
  cases l with
  | nil => simp [assocSet]
  | cons q t =>
    obtain ⟨k', v'⟩ := q
    simp only [assocSet]
    by_cases e : k' = k <;> simp [e]

theorem rvinv_nil (h : Nat) : RVInv recover appr step parentHash P h ([] : RoundVotes σ) :=
  ⟨(by intro p hp; cases hp), (by simp)⟩

theorem visit_spec (hperm : ∀ l, (iterOrder l).Perm l) (bb : ByBlock σ) (v : Vote σ) (hPv : P v)
    (hbb : BBInv recover appr step parentHash P bb) :
    BBInv recover appr step parentHash P (visit recover appr iterOrder step parentHash need bb v).1 ∧
    (∀ h list, (visit recover appr iterOrder step parentHash need bb v).2 = .found h list →
      Emitted recover appr step parentHash need P h list ∧ list ≠ []) ∧
    ((visit recover appr iterOrder step parentHash need bb v).2 = .panic → need < 0 ∧ ∃ a, appr a = true) := by
  -- facts about the looked-up map
  have hrv : RVInv recover appr step parentHash P v.voted ((bb.lookup v.voted).getD []) := by
    cases hl : bb.lookup v.voted with
    | none => exact rvinv_nil recover appr step parentHash P _
    | some rv => exact hbb _ (lookup_mem hl)
  have hbb1 : BBInv recover appr step parentHash P
      (match bb.lookup v.voted with | some _ => bb | none => assocSet v.voted [] bb) := by
    cases hl : bb.lookup v.voted with
    | some _ => exact hbb
    | none =>
      intro p hp
      rcases mem_assocSet hp with rfl | hp
      · exact rvinv_nil recover appr step parentHash P _
      · exact hbb p hp
  simp only [visit]
  by_cases h1 : (((bb.lookup v.voted).getD []).lookup (voterAddr recover v)).isSome = true
  · rw [if_pos h1]; exact ⟨hbb1, (by intro h list hh; cases hh), (by intro hh; cases hh)⟩
  · rw [if_neg h1]
    by_cases h2 : v.parent ≠ parentHash
    · rw [if_pos h2]; exact ⟨hbb1, (by intro h list hh; cases hh), (by intro hh; cases hh)⟩
    · rw [if_neg h2]
      by_cases h3 : v.step ≠ step
      · rw [if_pos h3]; exact ⟨hbb1, (by intro h list hh; cases hh), (by intro hh; cases hh)⟩
      · rw [if_neg h3]
        by_cases h4 : appr (voterAddr recover v) = false
        · rw [if_pos h4]; exact ⟨hbb1, (by intro h list hh; cases hh), (by intro hh; cases hh)⟩
        · rw [if_neg h4]
          have hnone : ((bb.lookup v.voted).getD []).lookup (voterAddr recover v) = none := by
            cases hx : ((bb.lookup v.voted).getD []).lookup (voterAddr recover v) with
            | none => rfl
            | some _ => simp [hx] at h1
          have hkey := lookup_none_not_key hnone
          have hrv' : RVInv recover appr step parentHash P v.voted
              (assocSet (voterAddr recover v) v ((bb.lookup v.voted).getD [])) := by
            rw [assocSet_of_not_key hkey]
            refine ⟨?_, ?_⟩
            · intro p hp
              rcases List.mem_append.mp hp with hp | hp
              · exact hrv.1 p hp
              · simp only [List.mem_singleton] at hp
                subst hp
                refine ⟨rfl, ?_, ?_, ?_, rfl, hPv⟩
                · simpa using h2
                · simpa using h3
                · simpa using h4
            · rw [List.map_append, List.nodup_append]
              refine ⟨hrv.2, by simp, ?_⟩
              intro a ha b hb
              simp only [List.map_cons, List.map_nil, List.mem_singleton] at hb
              subst hb
              intro e; subst e; exact hkey ha
          have hbb2 : BBInv recover appr step parentHash P
              (assocSet v.voted (assocSet (voterAddr recover v) v ((bb.lookup v.voted).getD []))
                (match bb.lookup v.voted with | some _ => bb | none => assocSet v.voted [] bb)) := by
            intro p hp
            rcases mem_assocSet hp with rfl | hp
            · exact hrv'
            · exact hbb1 p hp
          have hem : ∀ list, list = takeUntil need
                ((iterOrder (assocSet (voterAddr recover v) v ((bb.lookup v.voted).getD []))).map (·.2)) [] →
              need ≤ (list.length : Int) → Emitted recover appr step parentHash need P v.voted list ∧ list ≠ [] := by
            intro list hl hlen
            have hp := hperm (assocSet (voterAddr recover v) v ((bb.lookup v.voted).getD []))
            have hne : list ≠ [] := by
              rw [hl]
              apply takeUntil_ne_nil
              left
              intro hnil
              have hlen' := hp.length_eq
              have h0 : (iterOrder (assocSet (voterAddr recover v) v ((bb.lookup v.voted).getD []))).length = 0 := by
                have := congrArg List.length hnil
                simpa using this
              rw [h0] at hlen'
              exact assocSet_ne_nil _ _ _ (List.length_eq_zero_iff.mp hlen'.symm)
            refine ⟨?_, hne⟩
            obtain ⟨k, hk⟩ := takeUntil_prefix need
              ((iterOrder (assocSet (voterAddr recover v) v ((bb.lookup v.voted).getD []))).map (·.2)) []
            rw [hk, List.nil_append] at hl
            have hsub : list.Sublist ((iterOrder (assocSet (voterAddr recover v) v
                ((bb.lookup v.voted).getD []))).map (·.2)) := by rw [hl]; exact List.take_sublist _ _
            refine ⟨?_, ?_, hlen⟩
            · intro x hx
              have hx' := hsub.subset hx
              obtain ⟨p, hp1, rfl⟩ := List.mem_map.mp hx'
              have hp2 := (hp.mem_iff).mp hp1
              obtain ⟨e1, e2, e3, e4, e5, e6⟩ := hrv'.1 p hp2
              exact ⟨e1, e2, e3, by rw [← e5]; exact e4, e6⟩
            · have hs2 : (list.map (voterAddr recover)).Sublist
                  (((iterOrder (assocSet (voterAddr recover v) v ((bb.lookup v.voted).getD []))).map (·.2)).map
                    (voterAddr recover)) := hsub.map _
              apply List.Nodup.sublist hs2
              have hmapeq : ((iterOrder (assocSet (voterAddr recover v) v ((bb.lookup v.voted).getD []))).map
                    (·.2)).map (voterAddr recover)
                  = (iterOrder (assocSet (voterAddr recover v) v ((bb.lookup v.voted).getD []))).map (·.1) := by
                rw [List.map_map]
                apply List.map_congr_left
                intro p hp1
                have hp2 := (hp.mem_iff).mp hp1
                exact ((hrv'.1 p hp2).2.2.2.2.1).symm
              rw [hmapeq]
              exact ((hp.map (·.1)).nodup_iff).mpr hrv'.2
          by_cases h5 : ((assocSet (voterAddr recover v) v ((bb.lookup v.voted).getD [])).length : Int) ≥ need
          · rw [if_pos h5]
            by_cases hneg : need < 0
            · rw [if_pos hneg]
              exact ⟨hbb2, (by intro h list hh; cases hh), fun _ => ⟨hneg, voterAddr recover v, by simpa using h4⟩⟩
            · rw [if_neg hneg]
              by_cases h6 : ((takeUntil need ((iterOrder (assocSet (voterAddr recover v) v
                  ((bb.lookup v.voted).getD []))).map (·.2)) []).length : Int) ≥ need
              · rw [if_pos h6]
                refine ⟨hbb2, ?_, (by intro hh; cases hh)⟩
                intro h list hh
                simp only [CountRes.found.injEq] at hh
                obtain ⟨rfl, rfl⟩ := hh
                exact hem _ rfl h6
              · rw [if_neg h6]
                exact ⟨hbb2, (by intro h list hh; cases hh), (by intro hh; cases hh)⟩
          · rw [if_neg h5]
            exact ⟨hbb2, (by intro h list hh; cases hh), (by intro hh; cases hh)⟩

theorem poll_spec (hperm : ∀ l, (iterOrder l).Perm l) (enum : List (Vote σ)) (hP : ∀ v ∈ enum, P v)
    (bb : ByBlock σ) (hbb : BBInv recover appr step parentHash P bb) :
    BBInv recover appr step parentHash P (poll recover appr iterOrder step parentHash need bb enum).1 ∧
    (∀ h list, (poll recover appr iterOrder step parentHash need bb enum).2 = .found h list →
      Emitted recover appr step parentHash need P h list ∧ list ≠ []) ∧
    ((poll recover appr iterOrder step parentHash need bb enum).2 = .panic → need < 0 ∧ ∃ a, appr a = true) := by
  induction enum generalizing bb with
  | nil => exact ⟨hbb, (by intro h list hh; cases hh), (by intro hh; cases hh)⟩
  | cons v t ih =>
    have hv := visit_spec recover appr iterOrder step parentHash need P hperm bb v (hP v List.mem_cons_self) hbb
    simp only [poll]
    cases hr : visit recover appr iterOrder step parentHash need bb v with
    | mk bb' res =>
      rw [hr] at hv
      cases res with
      | none => exact ih (fun x hx => hP x (List.mem_cons_of_mem _ hx)) bb' hv.1
      | found h0 l0 => exact ⟨hv.1, hv.2.1, hv.2.2⟩
      | panic => exact ⟨hv.1, hv.2.1, hv.2.2⟩

theorem countLoop_spec (hperm : ∀ l, (iterOrder l).Perm l) (polls : List (List (Vote σ)))
    (hP : ∀ enum ∈ polls, ∀ v ∈ enum, P v) (bb : ByBlock σ)
    (hbb : BBInv recover appr step parentHash P bb) :
    (∀ h list, countLoop recover appr iterOrder step parentHash need bb polls = .found h list →
      Emitted recover appr step parentHash need P h list ∧ list ≠ []) ∧
    (countLoop recover appr iterOrder step parentHash need bb polls = .panic → need < 0 ∧ ∃ a, appr a = true) := by
  induction polls generalizing bb with
  | nil => exact ⟨(by intro h list hh; cases hh), (by intro hh; cases hh)⟩
  | cons enum more ih =>
    have hp := poll_spec recover appr iterOrder step parentHash need P hperm enum (hP enum List.mem_cons_self) bb hbb
    simp only [countLoop]
    cases hr : poll recover appr iterOrder step parentHash need bb enum with
    | mk bb' res =>
      rw [hr] at hp
      cases res with
      | none => exact ih (fun e he => hP e (List.mem_cons_of_mem _ he)) bb' hp.1
      | found h0 l0 => exact ⟨hp.2.1, hp.2.2⟩
      | panic => exact ⟨hp.2.1, hp.2.2⟩

end Count

end IdenaModel.Cert
