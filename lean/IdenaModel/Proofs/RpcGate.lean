import IdenaModel.Model.RpcGate
/-! Helper lemmas for C19 (`Props/C19.lean`): key propagation through decode/classify/parse, the gate
clause of `resolve`, and the element-by-element structure of batch execution. -/
namespace IdenaModel.RpcGate

/-! ### the key survives parsing unchanged -/

theorem classify_ok_key {b : Bool} {j : JsonReq} {r : RpcReq} (h : classify b j = .ok r) : r.key = j.key := by
  unfold classify at h
  split at h
  · split at h
    · cases h
    · split at h
      · cases h
      · cases h; rfl
  · split at h
    · cases h; rfl
    · split at h
      · cases h; rfl
      · split at h
        · cases h
        · cases h; rfl

/-- a single request that parses has no element-level error -/
theorem classify_single_err {j : JsonReq} {r : RpcReq} (h : classify true j = .ok r) : r.err = none := by
  unfold classify at h
  split at h
  · split at h
    · cases h
    · split at h
      · cases h
      · cases h; rfl
  · split at h
    · cases h; rfl
    · split at h
      · cases h; rfl
      · simp at h

/-- what parses as a single request parses to the same `rpcRequest` as a batch element -/
theorem classify_single_batch {j : JsonReq} {r : RpcReq} (h : classify true j = .ok r) :
    classify false j = .ok r := by
  unfold classify at h ⊢
  split
  · simp_all
  · split
    · simp_all
    · split
      · simp_all
      · simp_all

/-- an element-level error of a batch element can only be "method not found" (json.go:258) -/
theorem classify_err_code {b : Bool} {j : JsonReq} {r : RpcReq} {c : Int}
    (h : classify b j = .ok r) (hc : r.err = some c) : c = codeMethodNotFound := by
  unfold classify at h
  split at h
  · split at h
    · cases h
    · split at h
      · cases h
      · cases h; simp at hc
  · split at h
    · cases h; simp at hc
    · split at h
      · cases h; simp at hc
      · split at h
        · cases h
        · cases h; simp at hc; exact hc.symm

theorem decode_key {e : Elem} {j : JsonReq} (h : decode e = some j) :
    (e.shape = .null ∧ j.key = []) ∨ effKey e.keys = some j.key := by
  unfold decode at h
  split at h
  · cases h
  · cases h; exact .inl ⟨by assumption, rfl⟩
  · split at h
    · cases h
    · split at h
      · cases h
      · cases h; right; assumption

/-- an element that does not carry the configured (non-empty) key decodes to a different key -/
theorem decode_unkeyed {e : Elem} {j : JsonReq} {k : Str} (h : decode e = some j) (hk : k ≠ [])
    (hu : effKey e.keys ≠ some k) : j.key ≠ k := by
  rcases decode_key h with ⟨_, h0⟩ | h1
  · rw [h0]; exact fun x => hk x.symm
  · intro heq; apply hu; rw [h1, heq]

/-- pointwise relation of two lists (core-only stand-in for Mathlib's `List.Forall₂`) -/
inductive All2 {α β : Type} (R : α → β → Prop) : List α → List β → Prop
  | nil : All2 R [] []
  | cons {a b as bs} : R a b → All2 R as bs → All2 R (a :: as) (b :: bs)

theorem All2.imp {α β : Type} {R S : α → β → Prop} (f : ∀ a b, R a b → S a b) :
    ∀ {as : List α} {bs : List β}, All2 R as bs → All2 S as bs
  | _, _, .nil => .nil
  | _, _, .cons h t => .cons (f _ _ h) (t.imp f)

theorem All2.length_eq {α β : Type} {R : α → β → Prop} :
    ∀ {as : List α} {bs : List β}, All2 R as bs → as.length = bs.length
  | _, _, .nil => rfl
  | _, _, .cons _ t => by simp [t.length_eq]

theorem All2.get {α β : Type} {R : α → β → Prop} :
    ∀ {as : List α} {bs : List β}, All2 R as bs → ∀ (i : Nat) (a : α) (b : β),
      as[i]? = some a → bs[i]? = some b → R a b
  | _, _, .nil, i, a, b, ha, _ => by simp at ha
  | _, _, .cons h t, 0, a, b, ha, hb => by simp at ha hb; subst ha hb; exact h
  | _, _, .cons _ t, i + 1, a, b, ha, hb => by simp at ha hb; exact t.get i a b ha hb

theorem All2.mem_left {α β : Type} {R : α → β → Prop} :
    ∀ {as : List α} {bs : List β}, All2 R as bs → ∀ b ∈ bs, ∃ a ∈ as, R a b
  | _, _, .nil, b, hb => by simp at hb
  | _, _, .cons h t, b, hb => by
    rcases List.mem_cons.mp hb with rfl | hb'
    · exact ⟨_, by simp, h⟩
    · obtain ⟨a, ha, hr⟩ := t.mem_left b hb'
      exact ⟨a, by simp [ha], hr⟩

/-- relation between a batch element and the `rpcRequest` made of it -/
def ElemRel (e : Elem) (r : RpcReq) : Prop :=
  ∃ j, decode e = some j ∧ j.id = .ok ∧ classify false j = .ok r

theorem parseBatchLoop_rel : ∀ {js : List JsonReq} {rs : List RpcReq}, parseBatchLoop js = .ok rs →
    All2 (fun j r => j.id = .ok ∧ classify false j = .ok r) js rs
  | [], rs, h => by simp [parseBatchLoop] at h; subst h; exact .nil
  | j :: t, rs, h => by
    unfold parseBatchLoop at h
    split at h
    · cases h
    · rename_i hid
      split at h
      · cases h
      · rename_i r hr
        split at h
        · cases h
        · rename_i rs' hrs
          cases h
          exact .cons ⟨by simpa using hid, hr⟩ (parseBatchLoop_rel hrs)

theorem decodeAll_rel : ∀ {es : List Elem} {js : List JsonReq}, decodeAll es = some js →
    All2 (fun e j => decode e = some j) es js
  | [], js, h => by simp [decodeAll] at h; subst h; exact .nil
  | e :: t, js, h => by
    unfold decodeAll at h
    split at h
    · rename_i j js' hj hjs
      cases h
      exact .cons hj (decodeAll_rel hjs)
    · cases h

theorem forall₂_comp {α β γ : Type} {P : α → β → Prop} {Q : β → γ → Prop} :
    ∀ {as : List α} {bs : List β} {cs : List γ}, All2 P as bs → All2 Q bs cs →
      All2 (fun a c => ∃ b, P a b ∧ Q b c) as cs
  | _, _, _, .nil, .nil => .nil
  | _, _, _, .cons h1 t1, .cons h2 t2 => .cons ⟨_, h1, h2⟩ (forall₂_comp t1 t2)

theorem parseBatch_rel {es : List Elem} {rs : List RpcReq} (h : parseBatch es = .ok rs) :
    All2 ElemRel es rs := by
  unfold parseBatch at h
  split at h
  · cases h
  · rename_i js hjs
    have := forall₂_comp (decodeAll_rel hjs) (parseBatchLoop_rel h)
    exact this.imp (fun _ _ ⟨j, h1, h2, h3⟩ => ⟨j, h1, h2, h3⟩)

/-! ### the gate clause -/

/-- server.go:388-396: a request whose key differs from the configured non-empty key leaves the loop body
with an error before any branch that looks at services, subscriptions or callbacks -/
theorem resolve_gate {cfg : Cfg} {r : RpcReq} (hk : cfg.apiKey ≠ []) (hu : r.key ≠ cfg.apiKey) :
    resolve cfg r = .err (r.err.getD codeInvalidKey) := by
  unfold resolve
  cases hr : r.err with
  | some c => simp
  | none => simp [hk, hu]

/-- a request that carries the key is resolved exactly as by a server without a key -/
theorem resolve_keyed {cfg : Cfg} {r : RpcReq} (h : r.key = cfg.apiKey) :
    resolve cfg r = resolve { cfg with apiKey := [] } r := by
  unfold resolve
  cases r.err <;> simp [h]

theorem handle_err (cfg : Cfg) (st : St) (c : Int) : handle cfg st (.err c) = (st, .err c) := rfl

/-! ### batches run element by element -/

/-- one batch element: resolve, then handle in the state left by its predecessors -/
def elemStep (cfg : Cfg) (st : St) (r : RpcReq) : St × Outcome := handle cfg st (resolve cfg r)

def runElems (cfg : Cfg) : St → List RpcReq → St × List Outcome
  | st, [] => (st, [])
  | st, r :: t =>
    let x := elemStep cfg st r
    let rest := runElems cfg x.1 t
    (rest.1, x.2 :: rest.2)

theorem handleAll_map_resolve (cfg : Cfg) : ∀ (st : St) (rs : List RpcReq),
    handleAll cfg st (rs.map (resolve cfg)) = runElems cfg st rs
  | _, [] => rfl
  | st, r :: t => by
    simp only [List.map, handleAll, runElems, elemStep]
    rw [handleAll_map_resolve cfg _ t]

theorem runElems_length (cfg : Cfg) : ∀ (st : St) (rs : List RpcReq), (runElems cfg st rs).2.length = rs.length
  | _, [] => rfl
  | st, r :: t => by simp [runElems, runElems_length cfg _ t]

theorem runElems_append (cfg : Cfg) : ∀ (st : St) (a b : List RpcReq),
    runElems cfg st (a ++ b) =
      ((runElems cfg (runElems cfg st a).1 b).1, (runElems cfg st a).2 ++ (runElems cfg (runElems cfg st a).1 b).2)
  | _, [], _ => rfl
  | st, r :: t, b => by
    simp only [List.cons_append, runElems]
    rw [runElems_append cfg _ t b]

theorem elemStep_unkeyed {cfg : Cfg} {r : RpcReq} (st : St) (hk : cfg.apiKey ≠ []) (hu : r.key ≠ cfg.apiKey) :
    elemStep cfg st r = (st, .err (r.err.getD codeInvalidKey)) := by
  simp [elemStep, resolve_gate hk hu, handle_err]

/-- a run of elements none of which carries the key changes nothing -/
theorem runElems_all_unkeyed {cfg : Cfg} (hk : cfg.apiKey ≠ []) : ∀ (st : St) (rs : List RpcReq),
    (∀ r ∈ rs, r.key ≠ cfg.apiKey) →
    runElems cfg st rs = (st, rs.map fun r => .err (r.err.getD codeInvalidKey))
  | _, [], _ => rfl
  | st, r :: t, h => by
    have h1 : r.key ≠ cfg.apiKey := h r (by simp)
    have h2 : ∀ x ∈ t, x.key ≠ cfg.apiKey := fun x hx => h x (by simp [hx])
    simp [runElems, elemStep_unkeyed st hk h1, runElems_all_unkeyed hk st t h2]

/-- dropping the elements that do not carry the key from a batch changes neither the final state nor the
outcome of any remaining element -/
theorem runElems_filter_keyed {cfg : Cfg} (hk : cfg.apiKey ≠ []) : ∀ (st : St) (rs : List RpcReq),
    (runElems cfg st (rs.filter fun r => r.key = cfg.apiKey)).1 = (runElems cfg st rs).1 ∧
    (runElems cfg st (rs.filter fun r => r.key = cfg.apiKey)).2 =
      ((rs.zip (runElems cfg st rs).2).filter fun p => p.1.key = cfg.apiKey).map (·.2)
  | _, [] => by simp [runElems]
  | st, r :: t => by
    by_cases h : r.key = cfg.apiKey
    · have ih := runElems_filter_keyed hk (elemStep cfg st r).1 t
      simp [runElems, h, ih.1, ih.2]
    · have ih := runElems_filter_keyed hk st t
      simp [runElems, h, elemStep_unkeyed st hk h, ih.1, ih.2]

theorem activate_idle {st : St} (h : st.pending = []) : activate st = st := by
  cases st; simp_all [activate]

theorem handle_pending_of_err (cfg : Cfg) (st : St) (q : SrvReq) :
    (∃ c, (handle cfg st q).2 = .err c) → (handle cfg st q).1 = st := by
  intro ⟨c, hc⟩
  cases q with
  | err _ => rfl
  | unsub args =>
    cases args with
    | nil => rfl
    | cons a t =>
      simp only [handle] at hc ⊢
      split
      · rfl
      · split
        · split
          · simp_all
          · rfl
        · rfl
  | sub svc m cb args =>
    simp only [handle] at hc ⊢
    split <;> simp_all
  | call svc m cb args =>
    simp only [handle] at hc ⊢
    split <;> rfl

/-- after any message the pending list is empty again (so `pending = []` is an invariant between messages) -/
theorem activate_pending (st : St) : (activate st).pending = [] := rfl

end IdenaModel.RpcGate
