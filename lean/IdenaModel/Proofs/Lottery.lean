import IdenaModel.Model.Lottery
/-! Helper lemmas for C16 (flip lottery).  Core Lean only: invariants of the two author maps through
`getFirstAuthorsDistribution` / `appendAdditionalCandidates`, the per-candidate facts of `GetFlipsDistribution`
(`Sound`, `Tied`, `Complete`), the loop = closed form lemma for `getNextSuitablePair`. -/
namespace IdenaModel.Lottery

theorem length_appendAt (m : List (List Nat)) (i v : Nat) : (appendAt m i v).length = m.length := by
  induction m generalizing i with
  | nil => simp [appendAt]
  | cons l t ih => cases i <;> simp [appendAt, ih]

theorem look_appendAt (m : List (List Nat)) (i v j : Nat) :
    look (appendAt m i v) j = if j = i ∧ i < m.length then look m i ++ [v] else look m j := by
  induction m generalizing i j with
  | nil => simp [appendAt, look]
  | cons l t ih =>
    cases i with
    | zero =>
      cases j with
      | zero => simp [appendAt, look]
      | succ j => simp [appendAt, look]
    | succ i =>
      cases j with
      | zero => simp [appendAt, look]
      | succ j =>
        have := ih i j
        simp only [look] at this
        simpa [appendAt, look] using this

theorem mem_look_appendAt {m : List (List Nat)} {i v j x : Nat} (hi : i < m.length) :
    x ∈ look (appendAt m i v) j ↔ x ∈ look m j ∨ (j = i ∧ x = v) := by
  rw [look_appendAt]
  by_cases h : j = i
  · subst h; simp [hi]
  · simp [h]

theorem look_of_ge {m : List (List Nat)} {i : Nat} (h : m.length ≤ i) : look m i = [] := by
  simp [look, List.getD, List.getElem?_eq_none h]

/-! ### getNextSuitablePair -/

theorem splitSuitable_eq {cur : Nat} {used q b a : List Nat} {x : Nat}
    (h : splitSuitable cur used q = some (b, x, a)) : q = b ++ x :: a ∧ suitable cur used x = true := by
  induction q generalizing b with
  | nil => simp [splitSuitable] at h
  | cons y t ih =>
    simp only [splitSuitable] at h
    split at h
    · simp at h; obtain ⟨rfl, rfl, rfl⟩ := h; simp_all
    · split at h
      · simp at h
      · rename_i b' y' a' heq
        simp at h; obtain ⟨rfl, rfl, rfl⟩ := h
        have := ih heq
        simp [this.1, this.2]

theorem gnsp_none {q : List Nat} {cur : Nat} {used : List Nat} :
    getNextSuitablePair q cur used = none ↔ q = [] := by
  unfold getNextSuitablePair
  cases q with
  | nil => simp [splitSuitable]
  | cons x t => split <;> simp

theorem gnsp_spec {q q' : List Nat} {cur x : Nat} {used : List Nat}
    (h : getNextSuitablePair q cur used = some (x, q')) :
    x ∈ q ∧ q'.length + 1 = q.length ∧ (∀ y ∈ q', y ∈ q) := by
  unfold getNextSuitablePair at h
  split at h
  · rename_i b y a heq
    simp at h; obtain ⟨rfl, rfl⟩ := h
    have := (splitSuitable_eq heq).1
    subst this
    refine ⟨by simp, by simp; omega, ?_⟩
    intro z hz; simp at hz ⊢; rcases hz with h | h <;> simp [h]
  · split at h
    · simp at h
    · simp at h; obtain ⟨rfl, rfl⟩ := h
      exact ⟨by simp, by simp, fun z hz => by simp [hz]⟩


/-! ### the invariant of the two maps during GetAuthorsDistribution -/

/-- `S a` = "candidate `a` is an author of the shard" -/
structure MapsInv (n : Nat) (S : Nat → Prop) (apc cpa : List (List Nat)) : Prop where
  la : apc.length = n
  lc : cpa.length = n
  sym : ∀ c a, a ∈ look apc c ↔ c ∈ look cpa a
  auth : ∀ c a, a ∈ look apc c → S a

theorem look_replicate (n i : Nat) : look (List.replicate n []) i = [] := by
  simp only [look, List.getD, List.getElem?_replicate]
  split <;> rfl

theorem MapsInv.empty (n : Nat) (S : Nat → Prop) : MapsInv n S (List.replicate n []) (List.replicate n []) where
  la := by simp
  lc := by simp
  sym := by intro c a; simp [look_replicate]
  auth := by intro c a; simp [look_replicate]

theorem MapsInv.step {n : Nat} {S : Nat → Prop} {apc cpa : List (List Nat)} (h : MapsInv n S apc cpa)
    {c a : Nat} (hc : c < n) (ha : a < n) (hSa : S a) : MapsInv n S (appendAt apc c a) (appendAt cpa a c) where
  la := by rw [length_appendAt]; exact h.la
  lc := by rw [length_appendAt]; exact h.lc
  sym := by
    intro c' a'
    rw [mem_look_appendAt (by rw [h.la]; exact hc), mem_look_appendAt (by rw [h.lc]; exact ha), h.sym]
    constructor <;> rintro (h1 | ⟨h1, h2⟩) <;> simp_all
  auth := by
    intro c' a'
    rw [mem_look_appendAt (by rw [h.la]; exact hc)]
    rintro (h1 | ⟨_, rfl⟩)
    · exact h.auth _ _ h1
    · exact hSa

theorem MapsInv.lt_of_mem {n : Nat} {S : Nat → Prop} {apc cpa : List (List Nat)} (h : MapsInv n S apc cpa)
    {c a : Nat} (hm : a ∈ look apc c) : c < n := by
  rcases Nat.lt_or_ge c n with hc | hc
  · exact hc
  · rw [look_of_ge (by rw [h.la]; exact hc)] at hm
    simp at hm

/-! ### fillAuthorsQueue -/

theorem pickAuthor_mem {authors cur : List Nat} {idx a : Nat} (h : pickAuthor authors cur idx = some a) :
    a ∈ authors := by
  unfold pickAuthor at h
  split at h
  · simp at h
  · exact List.mem_of_getElem? h

theorem fillLoop_spec (authors : List Nat) : ∀ (k idx : Nat) (cur : List Nat) (rest : List (List Nat)) (acc : List Nat),
    (∀ x ∈ acc, x ∈ authors) →
    fillLoop authors k idx cur rest acc = .badInput ∨
    ∃ qu, fillLoop authors k idx cur rest acc = .ok qu ∧ (∀ x ∈ qu, x ∈ authors) ∧ qu.length = acc.length + k := by
  intro k
  induction k with
  | zero => intro idx cur rest acc hacc; right; exact ⟨acc, by simp [fillLoop], hacc, by simp⟩
  | succ k ih =>
    intro idx cur rest acc hacc
    simp only [fillLoop]
    split
    · split
      · left; rfl
      · rename_i p rest'
        split
        · left; rfl
        · rename_i a ha
          rcases ih 1 p rest' (acc ++ [a]) (by
            intro x hx; simp at hx; rcases hx with hx | rfl
            · exact hacc x hx
            · exact pickAuthor_mem ha) with h | ⟨qu, h1, h2, h3⟩
          · left; exact h
          · right; exact ⟨qu, h1, h2, by simp at h3; omega⟩
    · split
      · left; rfl
      · rename_i a ha
        rcases ih (idx + 1) cur rest (acc ++ [a]) (by
          intro x hx; simp at hx; rcases hx with hx | rfl
          · exact hacc x hx
          · exact pickAuthor_mem ha) with h | ⟨qu, h1, h2, h3⟩
        · left; exact h
        · right; exact ⟨qu, h1, h2, by simp at h3; omega⟩

theorem fillAuthorsQueue_spec (authors : List Nat) (total : Nat) (p1 : List (List Nat)) :
    fillAuthorsQueue authors total p1 = .badInput ∨
    ∃ qu, fillAuthorsQueue authors total p1 = .ok qu ∧ (∀ x ∈ qu, x ∈ authors) := by
  unfold fillAuthorsQueue
  split
  · left; rfl
  · split
    · right; exact ⟨[], rfl, by simp⟩
    · rename_i p rest _
      rcases fillLoop_spec authors total 0 p rest [] (by simp) with h | ⟨qu, h1, h2, _⟩
      · left; exact h
      · right; exact ⟨qu, h1, h2⟩

/-! ### getFirstAuthorsDistribution -/

theorem firstLoop_spec {n : Nat} {S : Nat → Prop} (hS : ∀ a, S a → a < n) (hn : 0 < n) :
    ∀ (k : Nat) (q : List Nat) (ci : Nat) (apc cpa : List (List Nat)),
    q.length ≤ k → (∀ x ∈ q, S x) → ci ≤ n → MapsInv n S apc cpa →
    ∃ apc' cpa', firstLoop n k q ci apc cpa = .ok (apc', cpa') ∧ MapsInv n S apc' cpa' := by
  intro k
  induction k with
  | zero =>
    intro q ci apc cpa hk _ _ hinv
    cases q with
    | nil => exact ⟨apc, cpa, by simp [firstLoop], hinv⟩
    | cons x t => simp at hk
  | succ k ih =>
    intro q ci apc cpa hk hq hci hinv
    cases q with
    | nil => exact ⟨apc, cpa, by simp [firstLoop], hinv⟩
    | cons x t =>
      simp only [firstLoop]
      have hci' : (if ci = n then 0 else ci) < n := by split <;> omega
      generalize (if ci = n then 0 else ci) = ci' at hci'
      cases hg : getNextSuitablePair (x :: t) ci' (look apc ci') with
      | none => exact absurd (gnsp_none.mp hg) (by simp)
      | some r =>
        obtain ⟨a, q'⟩ := r
        obtain ⟨h1, h2, h3⟩ := gnsp_spec hg
        have hSa := hq a h1
        simp only
        exact ih q' (ci' + 1) _ _ (by simp only [List.length_cons] at h2 hk; omega) (fun y hy => hq y (h3 y hy)) (by omega)
          (hinv.step hci' (hS a hSa) hSa)

/-! ### appendAdditionalCandidates -/

theorem topUpLoop_spec {n : Nat} {S : Nat → Prop} (hS : ∀ a, S a → a < n) {author : Nat} (ha : S author) :
    ∀ (k : Nat) (cq : List Nat) (apc cpa : List (List Nat)),
    (∀ c ∈ cq, c < n) → MapsInv n S apc cpa →
    ∃ cq' apc' cpa', topUpLoop author k cq apc cpa = .ok (cq', apc', cpa') ∧ (∀ c ∈ cq', c < n) ∧
      MapsInv n S apc' cpa' := by
  intro k
  induction k with
  | zero => intro cq apc cpa hcq hinv; exact ⟨cq, apc, cpa, by simp [topUpLoop], hcq, hinv⟩
  | succ k ih =>
    intro cq apc cpa hcq hinv
    simp only [topUpLoop]
    split
    · exact ⟨cq, apc, cpa, rfl, hcq, hinv⟩
    · rename_i hne
      cases hg : getNextSuitablePair cq author (look cpa author) with
      | none => exact absurd (gnsp_none.mp hg) hne
      | some r =>
        obtain ⟨c, cq'⟩ := r
        obtain ⟨h1, _, h3⟩ := gnsp_spec hg
        simp only
        exact ih cq' _ _ (fun y hy => hcq y (h3 y hy)) (hinv.step (hcq c h1) (hS _ ha) ha)

theorem appendLoop_spec {n : Nat} {S : Nat → Prop} (hS : ∀ a, S a → a < n) :
    ∀ (todo cq : List Nat) (p2 : List (List Nat)) (apc cpa : List (List Nat)),
    (∀ c ∈ cq, c < n) → MapsInv n S apc cpa →
    appendLoop n todo cq p2 apc cpa = .badInput ∨
    ∃ apc' cpa', appendLoop n todo cq p2 apc cpa = .ok (apc', cpa') ∧ MapsInv n S apc' cpa' := by
  intro todo
  induction todo with
  | nil => intro cq p2 apc cpa _ hinv; right; exact ⟨apc, cpa, by simp [appendLoop], hinv⟩
  | cons author todo ih =>
    intro cq p2 apc cpa hcq hinv
    simp only [appendLoop]
    split
    · exact ih cq p2 apc cpa hcq hinv
    · rename_i hne
      split
      · exact ih cq p2 apc cpa hcq hinv
      · -- the author has candidates, hence is an author
        have hSa : S author := by
          cases hl : look cpa author with
          | nil => exact absurd hl hne
          | cons c t =>
            have : c ∈ look cpa author := by simp [hl]
            exact hinv.auth c author ((hinv.sym c author).mpr this)
        split
        · left; rfl
        · rename_i cq1 p2' href
          have hcq1 : ∀ c ∈ cq1, c < n := by
            unfold refillQueue at href
            split at href
            · split at href
              · simp at href
              · split at href
                · rename_i p ps hall
                  simp at href; obtain ⟨rfl, rfl⟩ := href
                  intro c hc
                  have := List.all_eq_true.mp hall c hc
                  simpa using this
                · simp at href
            · simp at href; obtain ⟨rfl, rfl⟩ := href; exact hcq
          obtain ⟨cq2, apc', cpa', h1, h2, h3⟩ :=
            topUpLoop_spec hS hSa (CandidatesPerAuthor - (look cpa author).length) cq1 apc cpa hcq1 hinv
          rw [h1]
          exact ih cq2 p2' apc' cpa' h2 h3

theorem appendAdditionalCandidates_spec {n : Nat} {S : Nat → Prop} (hS : ∀ a, S a → a < n)
    (p2 : List (List Nat)) (apc cpa : List (List Nat)) (hinv : MapsInv n S apc cpa) :
    appendAdditionalCandidates n p2 apc cpa = .badInput ∨
    ∃ apc' cpa', appendAdditionalCandidates n p2 apc cpa = .ok (apc', cpa') ∧ MapsInv n S apc' cpa' := by
  unfold appendAdditionalCandidates
  split
  · left; rfl
  · split
    · rename_i p ps hall
      exact appendLoop_spec hS _ p ps apc cpa (fun c hc => by simpa using List.all_eq_true.mp hall c hc) hinv
    · left; rfl

/-! ### GetAuthorsDistribution -/

/-- candidate `a` of the shard `fl` is an author -/
def IsAuthor (fl : List Nat) (a : Nat) : Prop := a < fl.length ∧ 0 < fl.getD a 0

theorem mem_authorsIndexes {fl : List Nat} {a : Nat} : a ∈ authorsIndexes fl ↔ IsAuthor fl a := by
  simp [authorsIndexes, IsAuthor]

theorem authorsDistribution_spec (fl : List Nat) (q : Nat) (p1 p2 : List (List Nat)) :
    authorsDistribution fl q p1 p2 = .badInput ∨
    ∃ apc cpa, authorsDistribution fl q p1 p2 = .ok (apc, cpa) ∧ MapsInv fl.length (IsAuthor fl) apc cpa := by
  have hS : ∀ a, IsAuthor fl a → a < fl.length := fun a h => h.1
  unfold authorsDistribution
  simp only
  split
  · right; exact ⟨_, _, rfl, MapsInv.empty _ _⟩
  · rename_i hn
    split
    · right; exact ⟨_, _, rfl, MapsInv.empty _ _⟩
    · rcases fillAuthorsQueue_spec (authorsIndexes fl) (fl.length * q) p1 with h | ⟨qu, h1, h2⟩
      · rw [h]; left; rfl
      · rw [h1]
        simp only
        obtain ⟨apc, cpa, h3, h4⟩ := firstLoop_spec hS (by omega) qu.length qu 0 _ _ (Nat.le_refl _)
          (fun x hx => mem_authorsIndexes.mp (h2 x hx)) (Nat.zero_le _) (MapsInv.empty fl.length (IsAuthor fl))
        rw [h3]
        simp only
        split
        · exact appendAdditionalCandidates_spec hS p2 apc cpa h4
        · right; exact ⟨apc, cpa, rfl, h4⟩



/-! ### small list facts -/

theorem mem_distinct {l : List Nat} {x : Nat} : x ∈ distinct l ↔ x ∈ l := by
  induction l with
  | nil => simp [distinct]
  | cons y t ih =>
    simp only [distinct, List.mem_cons, List.mem_filter, ih]
    by_cases h : x = y <;> simp [h]

theorem nodup_distinct (l : List Nat) : (distinct l).Nodup := by
  induction l with
  | nil => simp [distinct]
  | cons y t ih =>
    simp only [distinct, List.nodup_cons, List.mem_filter]
    exact ⟨by simp, ih.filter _⟩

theorem length_distinct_le (l : List Nat) : (distinct l).length ≤ l.length := by
  induction l with
  | nil => simp [distinct]
  | cons y t ih =>
    simp only [distinct, List.length_cons]
    have := List.length_filter_le (fun z => decide (z ≠ y)) (distinct t)
    omega

theorem distinct_eq_nil {l : List Nat} : distinct l = [] ↔ l = [] := by
  cases l <;> simp [distinct]

/-- pigeonhole: a duplicate-free list inside another one is not longer -/
theorem length_le_of_nodup_subset : ∀ {l₁ l₂ : List Nat}, l₁.Nodup → (∀ x ∈ l₁, x ∈ l₂) → l₁.length ≤ l₂.length := by
  intro l₁
  induction l₁ with
  | nil => intro l₂ _ _; simp
  | cons x t ih =>
    intro l₂ hnd hsub
    have hx : x ∈ l₂ := hsub x (by simp)
    have hnd' := List.nodup_cons.mp hnd
    have := ih (l₂ := l₂.erase x) hnd'.2 (by
      intro y hy
      have hne : y ≠ x := by rintro rfl; exact hnd'.1 hy
      exact (List.mem_erase_of_ne hne).mpr (hsub y (by simp [hy])))
    rw [List.length_erase_of_mem hx] at this
    have hpos : 0 < l₂.length := List.length_pos_of_mem hx
    simp only [List.length_cons]
    omega

theorem exists_not_mem_of_length_lt {l₁ l₂ : List Nat} (hnd : l₂.Nodup) (h : l₁.length < l₂.length) :
    ∃ x ∈ l₂, x ∉ l₁ := by
  rcases Classical.em (∃ x ∈ l₂, x ∉ l₁) with h' | h'
  · exact h'
  · exfalso
    have : ∀ x ∈ l₂, x ∈ l₁ := by
      intro x hx
      rcases Classical.em (x ∈ l₁) with h1 | h1
      · exact h1
      · exact absurd ⟨x, hx, h1⟩ h'
    have := length_le_of_nodup_subset hnd this
    omega

theorem getD_set (l : List Nat) (i j v : Nat) :
    (l.set i v).getD j 0 = if j = i ∧ i < l.length then v else l.getD j 0 := by
  simp only [List.getD_eq_getElem?_getD, List.getElem?_set]
  by_cases h : i = j
  · subst h
    by_cases h2 : i < l.length
    · simp [h2]
    · simp [h2]
  · have : ¬ j = i := fun e => h e.symm
    simp [h, this]

theorem look_set (m : List (List Nat)) (i j : Nat) (v : List Nat) :
    look (m.set i v) j = if j = i ∧ i < m.length then v else look m j := by
  simp only [look, List.getD_eq_getElem?_getD, List.getElem?_set]
  by_cases h : i = j
  · subst h
    by_cases h2 : i < m.length
    · simp [h2]
    · simp [h2]
  · have : ¬ j = i := fun e => h e.symm
    simp [h, this]

theorem look_map (m : List (List Nat)) (f : List Nat → List Nat) (j : Nat) :
    look (m.map f) j = if j < m.length then f (look m j) else [] := by
  simp only [look, List.getD_eq_getElem?_getD, List.getElem?_map]
  by_cases h : j < m.length
  · simp [h]
  · simp [h]

/-! ### flip indexes -/

theorem take_sum_le (fl : List Nat) (a : Nat) : (fl.take a).sum + fl.getD a 0 ≤ fl.sum := by
  induction fl generalizing a with
  | nil => simp
  | cons k t ih =>
    cases a with
    | zero => simp
    | succ a =>
      have := ih a
      simp only [List.take_succ_cons, List.sum_cons, List.getD_cons_succ] at *
      omega

theorem flipIdx_lt {fl : List Nat} {a i : Nat} (h : i < fl.getD a 0) : flipIdx fl a i < fl.sum := by
  have := take_sum_le fl a
  unfold flipIdx
  omega

theorem authorOfAux_flipIdx (fl : List Nat) (base a i : Nat) (h : i < fl.getD a 0) :
    authorOfAux fl base (flipIdx fl a i) = some (base + a) := by
  induction fl generalizing base a with
  | nil => simp at h
  | cons k t ih =>
    cases a with
    | zero =>
      simp at h
      simp [authorOfAux, flipIdx, h]
    | succ a =>
      simp only [List.getD_cons_succ] at h
      have := ih (base + 1) a h
      simp only [authorOfAux, flipIdx, List.take_succ_cons, List.sum_cons]
      have hge : ¬ (k + (t.take a).sum + i < k) := by omega
      simp only [hge, if_false]
      have e : k + (t.take a).sum + i - k = flipIdx t a i := by unfold flipIdx; omega
      rw [e, this]
      congr 1; omega

theorem authorOf_flipIdx {fl : List Nat} {a i : Nat} (h : i < fl.getD a 0) :
    authorOf fl (flipIdx fl a i) = some a := by
  simpa [authorOf] using authorOfAux_flipIdx fl 0 a i h





/-! ### getMinUsedAuthor -/

theorem minUsedLoop_cases (used lu : List Nat) : ∀ (l : List Nat) (min author : Nat),
    minUsedLoop used lu l min author = author ∨
    (minUsedLoop used lu l min author ∈ l ∧ lu.contains (minUsedLoop used lu l min author) = false) := by
  intro l
  induction l with
  | nil => intro min author; left; rfl
  | cons item t ih =>
    intro min author
    simp only [minUsedLoop]
    split
    · rcases ih min author with h | h
      · left; exact h
      · right; exact ⟨List.mem_cons_of_mem _ h.1, h.2⟩
    · rename_i hlu
      split
      · rcases ih (used.getD item 0) item with h | h
        · right; rw [h]; exact ⟨List.mem_cons_self, by simpa using hlu⟩
        · right; exact ⟨List.mem_cons_of_mem _ h.1, h.2⟩
      · rcases ih min author with h | h
        · left; exact h
        · right; exact ⟨List.mem_cons_of_mem _ h.1, h.2⟩

theorem minUsedLoop_mem (used lu : List Nat) : ∀ (l : List Nat) (min author : Nat),
    (∃ x ∈ l, lu.contains x = false ∧ used.getD x 0 < min) →
    minUsedLoop used lu l min author ∈ l ∧ lu.contains (minUsedLoop used lu l min author) = false := by
  intro l
  induction l with
  | nil => intro min author ⟨x, hx, _⟩; simp at hx
  | cons item t ih =>
    intro min author ⟨x, hx, hlu, hlt⟩
    simp only [minUsedLoop]
    split
    · rename_i hc
      have hne : x ≠ item := by rintro rfl; rw [hc] at hlu; exact Bool.noConfusion hlu
      have hxt : x ∈ t := by simpa [hne] using hx
      have := ih min author ⟨x, hxt, hlu, hlt⟩
      exact ⟨List.mem_cons_of_mem _ this.1, this.2⟩
    · rename_i hc
      split
      · rcases minUsedLoop_cases used lu t (used.getD item 0) item with h | h
        · rw [h]; exact ⟨List.mem_cons_self, by simpa using hc⟩
        · exact ⟨List.mem_cons_of_mem _ h.1, h.2⟩
      · rename_i hge
        have hne : x ≠ item := by rintro rfl; exact hge hlt
        have hxt : x ∈ t := by simpa [hne] using hx
        have := ih min author ⟨x, hxt, hlu, hlt⟩
        exact ⟨List.mem_cons_of_mem _ this.1, this.2⟩

/-! ### chooseNextShortFlip -/

theorem chooseNext_spec {fl used cur authors lu cur' : List Nat} {a i : Nat}
    (h : chooseNext fl used cur authors lu = some (a, i, cur')) :
    a = getMinUsedAuthor used authors lu ∧ i < fl.getD a 0 := by
  unfold chooseNext at h
  dsimp only at h
  generalize getMinUsedAuthor used authors lu = m at h
  generalize (if cur.getD m 0 ≥ fl.getD m 0 then 0 else cur.getD m 0) = j at h
  by_cases hj : j < fl.getD m 0
  · rw [if_pos hj] at h
    injection h with h
    injection h with h1 h
    injection h with h2 _
    subst h1; subst h2
    exact ⟨rfl, hj⟩
  · rw [if_neg hj] at h
    cases h

theorem chooseNext_total {fl used cur authors lu : List Nat}
    (h : 0 < fl.getD (getMinUsedAuthor used authors lu) 0) :
    ∃ i cur', chooseNext fl used cur authors lu = some (getMinUsedAuthor used authors lu, i, cur') := by
  unfold chooseNext
  dsimp only
  generalize getMinUsedAuthor used authors lu = m at h
  have hj : (if cur.getD m 0 ≥ fl.getD m 0 then 0 else cur.getD m 0) < fl.getD m 0 := by
    split <;> omega
  rw [if_pos hj]
  exact ⟨_, _, rfl⟩

/-! ### the short-session loop of one candidate -/

/-- unconditional: `k` pairs are appended, each an existing flip of its author -/
theorem shortLoop_chosen {fl authors : List Nat} {reset : Bool} : ∀ (k : Nat) (used cur lu : List Nat)
    (chosen : List (Nat × Nat)) (used' cur' : List Nat) (chosen' : List (Nat × Nat)),
    shortLoop fl authors reset k used cur lu chosen = some (used', cur', chosen') →
    ∃ new, chosen' = chosen ++ new ∧ new.length = k ∧ ∀ p ∈ new, p.2 < fl.getD p.1 0 := by
  intro k
  induction k with
  | zero =>
    intro used cur lu chosen used' cur' chosen' h
    simp [shortLoop] at h
    exact ⟨[], by simp [h.2.2], rfl, by simp⟩
  | succ k ih =>
    intro used cur lu chosen used' cur' chosen' h
    simp only [shortLoop] at h
    split at h
    · simp at h
    · rename_i a i cur1 hc
      obtain ⟨new, h1, h2, h3⟩ := ih _ _ _ _ _ _ _ h
      refine ⟨(a, i) :: new, by simp [h1], by simp [h2], ?_⟩
      intro p hp
      simp at hp
      rcases hp with rfl | hp
      · exact (chooseNext_spec hc).2
      · exact h3 p hp

theorem setAdd_of_not_mem {lu : List Nat} {a : Nat} (h : lu.contains a = false) : setAdd lu a = a :: lu := by
  unfold setAdd
  rw [h]
  rfl

/-- with enough room below the `min := 999999` start value, every pick is one of the candidate's authors, and the
loop does not panic when all of them have flips -/
theorem shortLoop_authors {fl authors : List Nat} {reset : Bool} (hnd : authors.Nodup) (hne : authors ≠ [])
    (hfl : ∀ a ∈ authors, 0 < fl.getD a 0) : ∀ (k : Nat) (used cur lu : List Nat) (chosen : List (Nat × Nat)) (K : Nat),
    (∀ x, used.getD x 0 ≤ K) → K + k < 999999 →
    lu.Nodup → (∀ x ∈ lu, x ∈ authors) → (reset = false → lu.length + k ≤ authors.length) →
    (∀ p ∈ chosen, p.1 ∈ authors) →
    ∃ used' cur' chosen', shortLoop fl authors reset k used cur lu chosen = some (used', cur', chosen') ∧
      (∀ p ∈ chosen', p.1 ∈ authors) ∧ (∀ x, used'.getD x 0 ≤ K + k) := by
  intro k
  induction k with
  | zero =>
    intro used cur lu chosen K hK _ _ _ _ hch
    exact ⟨used, cur, chosen, by simp [shortLoop], hch, by simpa using hK⟩
  | succ k ih =>
    intro used cur lu chosen K hK hbound hlund hlusub hroom hch
    simp only [shortLoop]
    -- the local set after the optional reset is a duplicate-free strict part of the authors
    have hlen_le : lu.length ≤ authors.length := length_le_of_nodup_subset hlund hlusub
    have hpos : 0 < authors.length := List.length_pos_iff.mpr hne
    generalize hlu1 : (if (reset && lu.length == authors.length) = true then [] else lu) = lu1
    have h1 : lu1.Nodup ∧ (∀ x ∈ lu1, x ∈ authors) ∧ lu1.length < authors.length ∧
        (reset = false → lu1 = lu) := by
      subst hlu1
      cases reset with
      | false => simp; exact ⟨hlund, hlusub, by have := hroom rfl; omega⟩
      | true =>
        by_cases he : lu.length = authors.length
        · simp [he, hpos]
        · simp [he]; exact ⟨hlund, hlusub, by omega⟩
    obtain ⟨hnd1, hsub1, hlt1, hres1⟩ := h1
    obtain ⟨x, hxa, hxl⟩ := exists_not_mem_of_length_lt hnd hlt1
    have hmin := minUsedLoop_mem used lu1 authors 999999 0
      ⟨x, hxa, by simpa using hxl, by have := hK x; omega⟩
    have hmin' : getMinUsedAuthor used authors lu1 ∈ authors ∧
        lu1.contains (getMinUsedAuthor used authors lu1) = false := hmin
    obtain ⟨i, cur1, hc⟩ := chooseNext_total (fl := fl) (cur := cur) (hfl _ hmin'.1)
    rw [hc]
    simp only
    rw [setAdd_of_not_mem hmin'.2]
    have hmem : getMinUsedAuthor used authors lu1 ∉ lu1 := by simpa using hmin'.2
    obtain ⟨used', cur', chosen', e, p1, p2⟩ := ih
      (used.set (getMinUsedAuthor used authors lu1) (used.getD (getMinUsedAuthor used authors lu1) 0 + 1)) cur1
      (getMinUsedAuthor used authors lu1 :: lu1) (chosen ++ [(getMinUsedAuthor used authors lu1, i)]) (K + 1)
      (by
        intro y
        rw [getD_set]
        split
        · have := hK (getMinUsedAuthor used authors lu1); omega
        · have := hK y; omega)
      (by omega)
      (List.nodup_cons.mpr ⟨hmem, hnd1⟩)
      (by intro y hy; simp at hy; rcases hy with rfl | hy; exact hmin'.1; exact hsub1 y hy)
      (by
        intro hr
        have := hres1 hr; subst this
        have := hroom hr
        simp only [List.length_cons]; omega)
      (by
        intro p hp; simp at hp
        rcases hp with hp | rfl
        · exact hch p hp
        · exact hmin'.1)
    exact ⟨used', cur', chosen', e, p1, by intro y; have := p2 y; omega⟩

/-! ### long-session list before `distinct` -/

theorem mem_longRaw {fl authors : List Nat} {reset : Bool} {chosen : List (Nat × Nat)} {f : Nat} :
    f ∈ longRaw fl authors reset chosen ↔
    ∃ a ∈ authors, ∃ i, i < fl.getD a 0 ∧ (reset = true ∨ (a, i) ∉ chosen) ∧ f = flipIdx fl a i := by
  simp only [longRaw, List.mem_flatMap, List.mem_map, List.mem_filter, List.mem_range, Bool.or_eq_true,
    Bool.not_eq_true', List.contains_eq_mem, decide_eq_false_iff_not]
  constructor
  · rintro ⟨a, ha, i, ⟨hi, hr⟩, rfl⟩
    exact ⟨a, ha, i, hi, hr, rfl⟩
  · rintro ⟨a, ha, i, hi, hr, rfl⟩
    exact ⟨a, ha, i, ⟨hi, hr⟩, rfl⟩





/-! ### what one candidate's pair of lists satisfies -/

/-- well-formed whatever the inputs were -/
def Sound (fl : List Nat) (q : Nat) (s l : List Nat) : Prop :=
  s.Nodup ∧ l.Nodup ∧ s.length ≤ q ∧ (∀ f ∈ s, f < fl.sum) ∧ (∀ f ∈ l, f < fl.sum)

/-- every listed flip is an existing flip of one of the authors `A` -/
def FromAuthors (fl A s : List Nat) : Prop := ∀ f ∈ s, ∃ a i, a ∈ A ∧ i < fl.getD a 0 ∧ f = flipIdx fl a i

def Tied (fl A s l : List Nat) : Prop := FromAuthors fl A s ∧ FromAuthors fl A l

/-- every author in `A` has a flip in one of the lists; an empty long list means the short list took them all -/
def Complete (fl A s l : List Nat) : Prop :=
  (∀ a ∈ A, ∃ i, i < fl.getD a 0 ∧ (flipIdx fl a i ∈ s ∨ flipIdx fl a i ∈ l)) ∧
  (l = [] → ∀ a ∈ A, ∀ i, i < fl.getD a 0 → flipIdx fl a i ∈ s)

theorem Sound.nil (fl : List Nat) (q : Nat) : Sound fl q [] [] := by simp [Sound]
theorem Tied.nil (fl A : List Nat) : Tied fl A [] [] := by simp [Tied, FromAuthors]

theorem cand_sound {fl authors : List Nat} {reset : Bool} {q : Nat} {used cur used' cur' : List Nat}
    {chosen : List (Nat × Nat)}
    (h : shortLoop fl authors reset q used cur [] [] = some (used', cur', chosen)) :
    Sound fl q (distinct (chosen.map fun p => flipIdx fl p.1 p.2)) (distinct (longRaw fl authors reset chosen)) := by
  obtain ⟨new, h1, h2, h3⟩ := shortLoop_chosen _ _ _ _ _ _ _ _ h
  simp only [List.nil_append] at h1; subst h1
  refine ⟨nodup_distinct _, nodup_distinct _, ?_, ?_, ?_⟩
  · have := length_distinct_le (chosen.map fun p => flipIdx fl p.1 p.2)
    simp only [List.length_map] at this; omega
  · intro f hf
    obtain ⟨p, hp, rfl⟩ := List.mem_map.mp (mem_distinct.mp hf)
    exact flipIdx_lt (h3 p hp)
  · intro f hf
    obtain ⟨a, _, i, hi, _, rfl⟩ := mem_longRaw.mp (mem_distinct.mp hf)
    exact flipIdx_lt hi

theorem cand_tied {fl raw : List Nat} {reset : Bool} {chosen : List (Nat × Nat)}
    (hin : ∀ p ∈ chosen, p.1 ∈ distinct raw) (hlt : ∀ p ∈ chosen, p.2 < fl.getD p.1 0)
    (hfl : ∀ a ∈ raw, 0 < fl.getD a 0) :
    Tied fl raw (distinct (chosen.map fun p => flipIdx fl p.1 p.2)) (distinct (longRaw fl (distinct raw) reset chosen)) ∧
    Complete fl raw (distinct (chosen.map fun p => flipIdx fl p.1 p.2))
      (distinct (longRaw fl (distinct raw) reset chosen)) := by
  refine ⟨⟨?_, ?_⟩, ?_, ?_⟩
  · intro f hf
    obtain ⟨p, hp, rfl⟩ := List.mem_map.mp (mem_distinct.mp hf)
    exact ⟨p.1, p.2, mem_distinct.mp (hin p hp), hlt p hp, rfl⟩
  · intro f hf
    obtain ⟨a, ha, i, hi, _, rfl⟩ := mem_longRaw.mp (mem_distinct.mp hf)
    exact ⟨a, i, mem_distinct.mp ha, hi, rfl⟩
  · intro a ha
    refine ⟨0, hfl a ha, ?_⟩
    by_cases hc : reset = true ∨ (a, 0) ∉ chosen
    · right
      exact mem_distinct.mpr (mem_longRaw.mpr ⟨a, mem_distinct.mpr ha, 0, hfl a ha, hc, rfl⟩)
    · left
      have : (a, 0) ∈ chosen := by
        rcases Classical.em ((a, 0) ∈ chosen) with h | h
        · exact h
        · exact absurd (Or.inr h) hc
      exact mem_distinct.mpr (List.mem_map.mpr ⟨(a, 0), this, rfl⟩)
  · intro hnil a ha i hi
    have hnil' : longRaw fl (distinct raw) reset chosen = [] := distinct_eq_nil.mp hnil
    rcases Classical.em ((a, i) ∈ chosen) with h | h
    · exact mem_distinct.mpr (List.mem_map.mpr ⟨(a, i), h, rfl⟩)
    · have : flipIdx fl a i ∈ longRaw fl (distinct raw) reset chosen :=
        mem_longRaw.mpr ⟨a, mem_distinct.mpr ha, i, hi, Or.inr h, rfl⟩
      rw [hnil'] at this
      simp at this

/-! ### the loop over the candidates -/

theorem distLoop_sound {fl : List Nat} {apc : List (List Nat)} {q : Nat} :
    ∀ (p3 used cur : List Nat) (short long short' long' : List (List Nat)),
    distLoop fl apc q p3 used cur short long = .ok (short', long') →
    (∀ c, Sound fl q (look short c) (look long c)) →
    short'.length = short.length ∧ long'.length = long.length ∧ ∀ c, Sound fl q (look short' c) (look long' c) := by
  intro p3
  induction p3 with
  | nil =>
    intro used cur short long short' long' h hs
    simp only [distLoop, Res.ok.injEq, Prod.mk.injEq] at h
    obtain ⟨rfl, rfl⟩ := h
    exact ⟨rfl, rfl, hs⟩
  | cons c rest ih =>
    intro used cur short long short' long' h hs
    simp only [distLoop] at h
    split at h
    · exact ih _ _ _ _ _ _ h hs
    · split at h
      · cases h
      · rename_i used1 cur1 chosen hsl
        have := ih _ _ _ _ _ _ h (by
          intro c'
          rw [look_set, look_set]
          by_cases hc : c' = c
          · subst hc
            by_cases h1 : c' < short.length <;> by_cases h2 : c' < long.length
            · simp only [h1, h2, and_self, if_true]; exact cand_sound hsl
            · simp only [h1, h2, and_true, and_false, if_true, if_false]
              have hs' := hs c'
              have e : look long c' = [] := look_of_ge (Nat.le_of_not_lt h2)
              rw [e] at hs' ⊢
              have := cand_sound hsl
              exact ⟨this.1, hs'.2.1, this.2.2.1, this.2.2.2.1, hs'.2.2.2.2⟩
            · simp only [h1, h2, and_true, and_false, if_true, if_false]
              have hs' := hs c'
              have := cand_sound hsl
              exact ⟨hs'.1, this.2.1, hs'.2.2.1, hs'.2.2.2.1, this.2.2.2.2⟩
            · simp only [h1, h2, and_false, if_false]; exact hs c'
          · simp only [hc, false_and, if_false]; exact hs c')
        simpa using this

theorem distLoop_tied {fl : List Nat} {apc cpa : List (List Nat)} {q : Nat}
    (hinv : MapsInv fl.length (IsAuthor fl) apc cpa) :
    ∀ (p3 used cur : List Nat) (short long : List (List Nat)) (K : Nat) (D : Nat → Prop),
    (∀ x, used.getD x 0 ≤ K) → K + p3.length * q < 999999 →
    short.length = fl.length → long.length = fl.length →
    (∀ c, Tied fl (look apc c) (look short c) (look long c)) →
    (∀ c, D c → Complete fl (look apc c) (look short c) (look long c)) →
    ∃ short' long', distLoop fl apc q p3 used cur short long = .ok (short', long') ∧
      (∀ c, Tied fl (look apc c) (look short' c) (look long' c)) ∧
      (∀ c, (D c ∨ c ∈ p3) → Complete fl (look apc c) (look short' c) (look long' c)) := by
  intro p3
  induction p3 with
  | nil =>
    intro used cur short long K D _ _ _ _ ht hc
    exact ⟨short, long, by simp [distLoop], ht, by intro c h; simp at h; exact hc c h⟩
  | cons c rest ih =>
    intro used cur short long K D hK hb hls hll ht hc
    simp only [distLoop]
    have hmul : (rest.length + 1) * q = rest.length * q + q := Nat.succ_mul _ _
    simp only [List.length_cons, hmul] at hb
    split
    · rename_i hraw
      obtain ⟨s', l', e, t1, t2⟩ := ih used cur short long K (fun x => D x ∨ x = c) hK (by omega) hls hll ht (by
        intro x hx
        rcases hx with hx | rfl
        · exact hc x hx
        · rw [hraw]; simp [Complete])
      refine ⟨s', l', e, t1, ?_⟩
      intro x hx
      apply t2
      simp only [List.mem_cons] at hx
      rcases hx with hx | hx | hx
      · exact Or.inl (Or.inl hx)
      · exact Or.inl (Or.inr hx)
      · exact Or.inr hx
    · rename_i hraw
      have hfl : ∀ a ∈ look apc c, 0 < fl.getD a 0 := fun a ha => (hinv.auth c a ha).2
      have hcn : c < fl.length := by
        cases hl : look apc c with
        | nil => exact absurd hl hraw
        | cons a t => exact hinv.lt_of_mem (c := c) (a := a) (by simp [hl])
      obtain ⟨used', cur', chosen, e, p1, p2⟩ := shortLoop_authors (fl := fl) (authors := distinct (look apc c))
        (reset := decide ((distinct (look apc c)).length < q)) (nodup_distinct _)
        (fun h => hraw (distinct_eq_nil.mp h)) (fun a ha => hfl a (mem_distinct.mp ha))
        q used cur [] [] K hK (by omega) (by simp) (by simp)
        (by intro h; simp at h; simpa using h) (by simp)
      obtain ⟨new, h1, _, h3⟩ := shortLoop_chosen _ _ _ _ _ _ _ _ e
      simp only [List.nil_append] at h1; subst h1
      rw [e]
      simp only
      obtain ⟨tied, compl⟩ := cand_tied (fl := fl) (raw := look apc c)
        (reset := decide ((distinct (look apc c)).length < q)) (chosen := chosen) p1 h3 hfl
      obtain ⟨s', l', e2, t1, t2⟩ := ih used' cur'
        (short.set c (distinct (chosen.map fun p => flipIdx fl p.1 p.2)))
        (long.set c (distinct (longRaw fl (distinct (look apc c)) (decide ((distinct (look apc c)).length < q)) chosen)))
        (K + q) (fun x => D x ∨ x = c) p2 (by omega)
        (by simp [hls]) (by simp [hll])
        (by
          intro c'
          rw [look_set, look_set]
          by_cases hcc : c' = c
          · subst hcc; simp only [hls, hll, hcn, and_self, if_true]; exact tied
          · simp only [hcc, false_and, if_false]; exact ht c')
        (by
          intro c' hc'
          rw [look_set, look_set]
          by_cases hcc : c' = c
          · subst hcc; simp only [hls, hll, hcn, and_self, if_true]; exact compl
          · simp only [hcc, false_and, if_false]
            rcases hc' with h | h
            · exact hc c' h
            · exact absurd h hcc)
      refine ⟨s', l', e2, t1, ?_⟩
      intro x hx
      apply t2
      simp only [List.mem_cons] at hx
      rcases hx with hx | hx | hx
      · exact Or.inl (Or.inl hx)
      · exact Or.inl (Or.inr hx)
      · exact Or.inr hx





theorem distLoop_ok_or_panic {fl : List Nat} {apc : List (List Nat)} {q : Nat} :
    ∀ (p3 used cur : List Nat) (short long : List (List Nat)),
    distLoop fl apc q p3 used cur short long = .panic ∨ ∃ r, distLoop fl apc q p3 used cur short long = .ok r := by
  intro p3
  induction p3 with
  | nil => intro used cur short long; right; exact ⟨(short, long), by simp [distLoop]⟩
  | cons c rest ih =>
    intro used cur short long
    simp only [distLoop]
    split
    · exact ih _ _ _ _
    · split
      · left; rfl
      · exact ih _ _ _ _

/-- what an `ok` result of the whole lottery is made of -/
theorem lottery_inv {fl : List Nat} {q : Nat} {p1 p2 : List (List Nat)} {p3 : List Nat} {r : Result}
    (h : lottery fl q p1 p2 p3 = .ok r) :
    authorsDistribution fl q p1 p2 = .ok (r.apc, r.cpa) ∧
    ∃ long0, distLoop fl r.apc q p3 (List.replicate fl.length 0) (List.replicate fl.length 0)
        (List.replicate fl.length []) (List.replicate fl.length []) = .ok (r.short, long0) ∧
      r.long = long0.map (placeholder fl.sum) := by
  unfold lottery at h
  split at h
  · rename_i apc cpa ha
    unfold flipsDistribution at h
    simp only at h
    cases hd : distLoop fl apc q p3 (List.replicate fl.length 0) (List.replicate fl.length 0)
        (List.replicate fl.length []) (List.replicate fl.length []) with
    | ok sl =>
      obtain ⟨s, l⟩ := sl
      rw [hd] at h
      simp only [Res.ok.injEq] at h
      subst h
      exact ⟨ha, l, hd, rfl⟩
    | panic => rw [hd] at h; cases h
    | badInput => rw [hd] at h; cases h
    | fuel => rw [hd] at h; cases h
  all_goals cases h





/-- the literal pop/push loop, run for `k ≤ Len()` passes, in closed form -/
theorem gnspLoop_closed (cur : Nat) (used : List Nat) : ∀ (k : Nat) (q : List Nat), k ≤ q.length →
    gnspLoop cur used k q =
      match splitSuitable cur used (q.take k) with
      | some (b, x, a) => some (x, a ++ q.drop k ++ b)
      | none =>
        match q.drop k ++ q.take k with
        | [] => none
        | x :: t => some (x, t) := by
  intro k
  induction k with
  | zero =>
    intro q _
    cases q <;> simp [gnspLoop, splitSuitable]
  | succ k ih =>
    intro q hk
    cases q with
    | nil => simp at hk
    | cons x t =>
      simp only [List.length_cons] at hk
      have hk' : k ≤ t.length := by omega
      simp only [gnspLoop, List.take_succ_cons, List.drop_succ_cons, splitSuitable]
      by_cases hs : suitable cur used x = true
      · simp [hs]
      · simp only [hs]
        rw [ih (t ++ [x]) (by simp; omega)]
        rw [List.take_append_of_le_length hk', List.drop_append_of_le_length hk']
        cases hsp : splitSuitable cur used (t.take k) with
        | none => simp
        | some r => obtain ⟨b, y, a⟩ := r; simp

/-- the closed form used by the model is the loop of lottery.go:273-285 -/
theorem gnsp_eq_loop (q : List Nat) (cur : Nat) (used : List Nat) :
    getNextSuitablePairLoop q cur used = getNextSuitablePair q cur used := by
  unfold getNextSuitablePairLoop getNextSuitablePair
  rw [gnspLoop_closed cur used q.length q (Nat.le_refl _)]
  simp only [List.take_length, List.drop_length, List.append_nil, List.nil_append]
  cases splitSuitable cur used q with
  | some r => rfl
  | none => cases q <;> rfl





/-! ### streams that `math/rand.Perm` can deliver never make the model answer `badInput` -/

/-- what `rand.Perm(m)` delivers, as far as the model reads it: `m` entries, all below `m` -/
def ValidPerm (m : Nat) (p : List Nat) : Prop := p.length = m ∧ ∀ x ∈ p, x < m

instance (m : Nat) (p : List Nat) : Decidable (ValidPerm m p) := by unfold ValidPerm; exact inferInstance

theorem pickAuthor_some {authors cur : List Nat} {idx : Nat} (hc : ValidPerm authors.length cur) (hi : idx < authors.length) :
    ∃ a, pickAuthor authors cur idx = some a := by
  unfold pickAuthor
  have h1 : idx < cur.length := by rw [hc.1]; exact hi
  rw [List.getElem?_eq_getElem h1]
  simp only
  have h2 : cur[idx] < authors.length := hc.2 _ (List.getElem_mem h1)
  exact ⟨authors[cur[idx]], List.getElem?_eq_getElem h2⟩

theorem fillLoop_ne_bad (authors : List Nat) (hm : 0 < authors.length) :
    ∀ (k idx : Nat) (cur : List Nat) (rest : List (List Nat)) (acc : List Nat),
    ValidPerm authors.length cur → (∀ p ∈ rest, ValidPerm authors.length p) → idx ≤ authors.length →
    k + idx ≤ authors.length + rest.length * authors.length →
    fillLoop authors k idx cur rest acc ≠ .badInput := by
  intro k
  induction k with
  | zero => intro idx cur rest acc _ _ _ _; simp [fillLoop]
  | succ k ih =>
    intro idx cur rest acc hcur hrest hidx hk
    simp only [fillLoop]
    split
    · rename_i hidx'
      cases rest with
      | nil => simp at hk; omega
      | cons p rest' =>
        simp only
        have hp : ValidPerm authors.length p := hrest p (by simp)
        obtain ⟨a, ha⟩ := pickAuthor_some hp hm
        rw [ha]
        simp only
        apply ih 1 p rest' _ hp (fun p' hp' => hrest p' (by simp [hp'])) hm
        simp only [List.length_cons, Nat.succ_mul] at hk
        omega
    · rename_i hidx'
      obtain ⟨a, ha⟩ := pickAuthor_some hcur (by omega : idx < authors.length)
      rw [ha]
      simp only
      exact ih (idx + 1) cur rest _ hcur hrest (by omega) (by omega)

theorem fillAuthorsQueue_ne_bad (authors : List Nat) (total : Nat) (p1 : List (List Nat))
    (hv : ∀ p ∈ p1, ValidPerm authors.length p) (hne : p1 ≠ []) (hen : total ≤ p1.length * authors.length) :
    fillAuthorsQueue authors total p1 ≠ .badInput := by
  unfold fillAuthorsQueue
  cases p1 with
  | nil => exact absurd rfl hne
  | cons p rest =>
    simp only
    split
    · simp
    · rename_i ha
      have hm : 0 < authors.length := List.length_pos_iff.mpr ha
      apply fillLoop_ne_bad authors hm total 0 p rest [] (hv p (by simp)) (fun p' hp' => hv p' (by simp [hp']))
        (Nat.zero_le _)
      simp only [List.length_cons, Nat.succ_mul] at hen
      omega

/-- the top-up of one author pops at most `k` candidates off the queue -/
theorem topUpLoop_len {author : Nat} : ∀ (k : Nat) (cq : List Nat) (apc cpa : List (List Nat))
    (cq' : List Nat) (apc' cpa' : List (List Nat)),
    topUpLoop author k cq apc cpa = .ok (cq', apc', cpa') → cq.length ≤ cq'.length + k := by
  intro k
  induction k with
  | zero =>
    intro cq apc cpa cq' apc' cpa' h
    simp only [topUpLoop, Res.ok.injEq, Prod.mk.injEq] at h
    rw [h.1]; omega
  | succ k ih =>
    intro cq apc cpa cq' apc' cpa' h
    simp only [topUpLoop] at h
    split at h
    · simp only [Res.ok.injEq, Prod.mk.injEq] at h; rw [h.1]; omega
    · cases hg : getNextSuitablePair cq author (look cpa author) with
      | none => rw [hg] at h; cases h
      | some r =>
        obtain ⟨c, cq1⟩ := r
        rw [hg] at h
        simp only at h
        have := ih _ _ _ _ _ _ h
        have := (gnsp_spec hg).2.1
        omega

theorem topUpLoop_ok_or_panic {author : Nat} : ∀ (k : Nat) (cq : List Nat) (apc cpa : List (List Nat)),
    topUpLoop author k cq apc cpa = .panic ∨ ∃ r, topUpLoop author k cq apc cpa = .ok r := by
  intro k
  induction k with
  | zero => intro cq apc cpa; right; exact ⟨(cq, apc, cpa), by simp [topUpLoop]⟩
  | succ k ih =>
    intro cq apc cpa
    simp only [topUpLoop]
    split
    · right; exact ⟨(cq, apc, cpa), rfl⟩
    · split
      · left; rfl
      · exact ih _ _ _

/-- potential argument: every author pops at most 12 candidates, every permutation supplies `n` -/
theorem appendLoop_ne_bad {n : Nat} : ∀ (todo cq : List Nat) (p2 : List (List Nat)) (apc cpa : List (List Nat)),
    (∀ p ∈ p2, ValidPerm n p) → 12 * todo.length + n ≤ p2.length * n + cq.length →
    appendLoop n todo cq p2 apc cpa ≠ .badInput := by
  intro todo
  induction todo with
  | nil => intro cq p2 apc cpa _ _; simp [appendLoop]
  | cons author todo ih =>
    intro cq p2 apc cpa hv hpot
    simp only [List.length_cons] at hpot
    simp only [appendLoop]
    split
    · exact ih cq p2 apc cpa hv (by omega)
    · split
      · exact ih cq p2 apc cpa hv (by omega)
      · rename_i hne hlt
        -- the refill succeeds
        have href : ∃ cq1 p2', refillQueue n cq p2 = some (cq1, p2') ∧ (∀ p ∈ p2', ValidPerm n p) ∧
            12 * (todo.length + 1) + n ≤ p2'.length * n + cq1.length := by
          unfold refillQueue
          by_cases hcq : cq = []
          · subst hcq
            cases p2 with
            | nil => simp at hpot
            | cons p ps =>
              have hp := hv p (by simp)
              have hall : p.all (fun c => decide (c < n)) = true :=
                List.all_eq_true.mpr (fun c hc => by simpa using hp.2 c hc)
              refine ⟨p, ps, by simp [hall], fun p' hp' => hv p' (by simp [hp']), ?_⟩
              simp only [List.length_cons, Nat.succ_mul, List.length_nil] at hpot
              rw [hp.1]; omega
          · exact ⟨cq, p2, by simp [hcq], hv, hpot⟩
        obtain ⟨cq1, p2', e, hv', hpot'⟩ := href
        rw [e]
        simp only
        have hk : CandidatesPerAuthor - (look cpa author).length ≤ 12 := by
          have : 0 < (look cpa author).length := List.length_pos_iff.mpr hne
          unfold CandidatesPerAuthor; omega
        rcases topUpLoop_ok_or_panic (author := author) (CandidatesPerAuthor - (look cpa author).length) cq1 apc cpa with hp | ⟨r, hr⟩
        · rw [hp]; simp
        · obtain ⟨cq2, apc', cpa'⟩ := r
          rw [hr]
          simp only
          have := topUpLoop_len _ _ _ _ _ _ _ hr
          exact ih cq2 p2' apc' cpa' hv' (by omega)

theorem appendAdditionalCandidates_ne_bad {n : Nat} (p2 : List (List Nat)) (apc cpa : List (List Nat))
    (hv : ∀ p ∈ p2, ValidPerm n p) (hlen : 14 ≤ p2.length) :
    appendAdditionalCandidates n p2 apc cpa ≠ .badInput := by
  unfold appendAdditionalCandidates
  cases p2 with
  | nil => simp at hlen
  | cons p ps =>
    simp only
    have hp := hv p (by simp)
    have hall : p.all (fun c => decide (c < n)) = true :=
      List.all_eq_true.mpr (fun c hc => by simpa using hp.2 c hc)
    rw [if_pos hall]
    apply appendLoop_ne_bad _ p ps apc cpa (fun p' hp' => hv p' (by simp [hp']))
    simp only [List.length_range, List.length_cons] at hlen ⊢
    rw [hp.1]
    have : 13 * n ≤ ps.length * n := Nat.mul_le_mul_right n (by omega)
    omega

theorem authorsDistribution_ne_bad (fl : List Nat) (q : Nat) (p1 p2 : List (List Nat))
    (h1v : ∀ p ∈ p1, ValidPerm (authorsIndexes fl).length p)
    (h1n : authorsIndexes fl ≠ [] → p1 ≠ [] ∧ fl.length * q ≤ p1.length * (authorsIndexes fl).length)
    (h2v : ∀ p ∈ p2, ValidPerm fl.length p) (h2n : 7 < (authorsIndexes fl).length → 14 ≤ p2.length) :
    authorsDistribution fl q p1 p2 ≠ .badInput := by
  have hS : ∀ a, IsAuthor fl a → a < fl.length := fun a h => h.1
  unfold authorsDistribution
  simp only
  split
  · simp
  · rename_i hn
    split
    · simp
    · rename_i ha
      have hfill := fillAuthorsQueue_ne_bad (authorsIndexes fl) (fl.length * q) p1 h1v (h1n ha).1 (h1n ha).2
      rcases fillAuthorsQueue_spec (authorsIndexes fl) (fl.length * q) p1 with h | ⟨qu, h1, h2⟩
      · exact absurd h hfill
      · rw [h1]
        simp only
        obtain ⟨apc, cpa, h3, h4⟩ := firstLoop_spec hS (by omega) qu.length qu 0 _ _ (Nat.le_refl _)
          (fun x hx => mem_authorsIndexes.mp (h2 x hx)) (Nat.zero_le _) (MapsInv.empty fl.length (IsAuthor fl))
        rw [h3]
        simp only
        split
        · rename_i h7
          exact appendAdditionalCandidates_ne_bad p2 apc cpa h2v (h2n h7)
        · simp



end IdenaModel.Lottery
