import IdenaModel.Model.ProtoWire
/-! Lemmas about the proto3 wire model: varint, raw field splitting, typed decode, normal form. -/
namespace IdenaModel.ProtoWire

/-! ## varint -/

theorem varint_ne_nil (n : Nat) : varint n ≠ [] := by
  rw [varint]; split <;> simp

theorem readVarint_varint (n : Nat) (rest : Bytes) :
    readVarint (varint n ++ rest) = some (n, rest) := by
  fun_induction varint n with
  | case1 n h => simp [readVarint, h]
  | case2 n h ih =>
    simp only [List.cons_append, readVarint]
    have h' : ¬ (n % 128 + 128 < 128) := by omega
    simp only [h', if_false, ih]
    congr 2
    omega

/-- every byte produced by `varint` is a byte -/
theorem varint_bytes (n : Nat) : ∀ b ∈ varint n, b < 256 := by
  fun_induction varint n with
  | case1 n h => intro b hb; simp at hb; omega
  | case2 n h ih =>
    intro b hb
    simp only [List.mem_cons] at hb
    rcases hb with rfl | hb
    · omega
    · exact ih b hb

/-- a value below `128^k` takes at most `k` bytes (`k = 10` for `uint64`) -/
theorem varint_length_le (k : Nat) : ∀ n, n < 128 ^ (k + 1) → (varint n).length ≤ k + 1 := by
  induction k with
  | zero => intro n hn; rw [varint]; simp at hn; simp [hn]
  | succ k ih =>
    intro n hn
    rw [varint]
    split
    · simp
    · have : n / 128 < 128 ^ (k + 1) := by
        rw [Nat.div_lt_iff_lt_mul (by decide)]
        rw [Nat.pow_succ] at hn; exact hn
      have := ih _ this
      simp; omega

theorem varint_length_u64 (n : Nat) (h : n < 2 ^ 64) : (varint n).length ≤ 10 := by
  apply varint_length_le 9
  have : (2:Nat) ^ 64 ≤ 128 ^ 10 := by decide
  omega

/-! ## packed varints -/

theorem encVarints_length_ge (ns : List Nat) : ns.length ≤ (encVarints ns).length := by
  induction ns with
  | nil => simp [encVarints]
  | cons n t ih =>
    have := varint_ne_nil n
    have : 1 ≤ (varint n).length := by
      cases h : varint n with
      | nil => exact absurd h (varint_ne_nil n)
      | cons a b => simp
    simp [encVarints]; omega

theorem readVarints_encVarints (ns : List Nat) :
    ∀ fuel, ns.length ≤ fuel → readVarints fuel (encVarints ns) = some ns := by
  induction ns with
  | nil => intro fuel _; cases fuel <;> simp [readVarints, encVarints]
  | cons n t ih =>
    intro fuel hf
    cases fuel with
    | zero => simp at hf
    | succ fuel =>
      have hne : (varint n ++ encVarints t).isEmpty = false := by
        cases h : varint n with
        | nil => exact absurd h (varint_ne_nil n)
        | cons a b => simp
      simp only [readVarints, encVarints, hne, readVarint_varint]
      simp at hf
      simp [ih fuel hf]

/-! ## raw fields -/

theorem encRawField_ne_nil (f : Nat) (r : Raw) : encRawField f r ≠ [] := by
  cases r with
  | vint n =>
    simp only [encRawField]
    cases h : varint (f * 8) with
    | nil => exact absurd h (varint_ne_nil _)
    | cons a b => simp
  | len b =>
    simp only [encRawField]
    cases h : varint (f * 8 + 2) with
    | nil => exact absurd h (varint_ne_nil _)
    | cons a b => simp

theorem encRaw_length_ge (w : List (Nat × Raw)) : w.length ≤ (encRaw w).length := by
  induction w with
  | nil => simp [encRaw]
  | cons p t ih =>
    obtain ⟨f, r⟩ := p
    have : 1 ≤ (encRawField f r).length := by
      cases h : encRawField f r with
      | nil => exact absurd h (encRawField_ne_nil f r)
      | cons a b => simp
    simp [encRaw]; omega

/-- splitting the concatenation of encoded fields gives the fields back -/
theorem readFields_encRaw (w : List (Nat × Raw)) (hf : ∀ p ∈ w, 1 ≤ p.1) :
    ∀ fuel, w.length ≤ fuel → readFields fuel (encRaw w) = some w := by
  induction w with
  | nil => intro fuel _; cases fuel <;> simp [readFields, encRaw]
  | cons p t ih =>
    intro fuel hfu
    obtain ⟨f, r⟩ := p
    cases fuel with
    | zero => simp at hfu
    | succ fuel =>
      have hf1 : 1 ≤ f := hf (f, r) (by simp)
      have ht : ∀ p ∈ t, 1 ≤ p.1 := fun p hp => hf p (by simp [hp])
      have hfu' : t.length ≤ fuel := by simpa using hfu
      have hne : (encRaw ((f, r) :: t)).isEmpty = false := by
        simp only [encRaw]
        cases h : encRawField f r with
        | nil => exact absurd h (encRawField_ne_nil f r)
        | cons a b => simp
      rw [readFields]
      simp only [hne]
      cases r with
      | vint n =>
        simp only [encRaw, encRawField, List.append_assoc, readVarint_varint]
        have h1 : f * 8 / 8 = f := by omega
        have h2 : f * 8 % 8 = 0 := by omega
        have h3 : ¬ (f = 0) := by omega
        simp [h1, h2, h3, ih ht fuel hfu']
      | len b =>
        simp only [encRaw, encRawField, List.append_assoc, readVarint_varint]
        have h1 : (f * 8 + 2) / 8 = f := by omega
        have h2 : (f * 8 + 2) % 8 = 2 := by omega
        have h3 : ¬ (f = 0) := by omega
        simp [h1, h2, h3, ih ht fuel hfu']

theorem readFields_encRaw_len (w : List (Nat × Raw)) (hf : ∀ p ∈ w, 1 ≤ p.1) :
    readFields (encRaw w).length (encRaw w) = some w :=
  readFields_encRaw w hf _ (encRaw_length_ge w)

/-! ## typed layer -/

/-- the raw view of a message -/
def rawOf (m : Msg) : List (Nat × Raw) := m.map fun p => (p.1, p.2.toRaw)

theorem encMsg_eq_encRaw (m : Msg) : encMsg m = encRaw (rawOf m) := by
  induction m with
  | nil => simp [encMsg, encRaw, rawOf]
  | cons p t ih =>
    obtain ⟨f, v⟩ := p
    simp only [encMsg, rawOf, List.map_cons, encRaw] at *
    rw [ih]

theorem confMsg_cons {s : Schema} {f : Nat} {v : Val} {t : Msg} (h : confMsg s ((f, v) :: t) = true) :
    (∃ rep k, s.lookup f = some (rep, k) ∧ v.conf k = true) ∧ 1 ≤ f ∧ confMsg s t = true := by
  simp only [confMsg, Bool.and_eq_true, decide_eq_true_eq] at h
  obtain ⟨⟨h1, h2⟩, h3⟩ := h
  refine ⟨?_, h2, h3⟩
  cases hl : s.lookup f with
  | none => simp [hl] at h1
  | some rk => obtain ⟨rep, k⟩ := rk; exact ⟨rep, k, rfl, by simpa [hl] using h1⟩

theorem confMsg_fields {s : Schema} {m : Msg} (h : confMsg s m = true) : ∀ p ∈ rawOf m, 1 ≤ p.1 := by
  induction m with
  | nil => simp [rawOf]
  | cons p t ih =>
    obtain ⟨f, v⟩ := p
    obtain ⟨_, h1, h2⟩ := confMsg_cons h
    intro q hq
    simp only [rawOf, List.map_cons, List.mem_cons] at hq
    rcases hq with rfl | hq
    · exact h1
    · exact ih h2 q hq

theorem mapOpt_cons_some {α β : Type} {g : α → Option β} {a : α} {t : List α} {b : β} {bs : List β}
    (h1 : g a = some b) (h2 : mapOpt g t = some bs) : mapOpt g (a :: t) = some (b :: bs) := by
  simp [mapOpt, h1, h2]

mutual
/-- decoding a conforming field occurrence gives the occurrence back -/
theorem decField_toRaw (d : Nat) (s : Schema) (f : Nat) (rep : Bool) :
    ∀ (v : Val) (k : Kind), s.lookup f = some (rep, k) → v.conf k = true → v.depth ≤ d →
      decField (decMsg d) s (f, v.toRaw) = some (f, v)
  | .int n, k, hl, hc, _ => by
    cases k <;> simp [Val.conf] at hc
    simp [Val.toRaw, decField, hl]
  | .bytes b, k, hl, hc, _ => by
    cases k <;> simp [Val.conf] at hc
    simp [Val.toRaw, decField, hl]
  | .packed ns, k, hl, hc, _ => by
    cases k <;> simp [Val.conf] at hc
    simp [Val.toRaw, decField, hl, readVarints_encVarints ns _ (encVarints_length_ge ns)]
  | .msg fs, k, hl, hc, hd => by
    cases k with
    | int => simp [Val.conf] at hc
    | bytes => simp [Val.conf] at hc
    | packed => simp [Val.conf] at hc
    | msg s' =>
      simp only [Val.conf] at hc
      simp only [Val.depth] at hd
      cases d with
      | zero => omega
      | succ d =>
        have := decMsg_encMsg d s' fs hc (by omega)
        simp [Val.toRaw, decField, hl, this]
/-- **decode ∘ encode = id** on conforming messages of nesting depth `≤ d` -/
theorem decMsg_encMsg (d : Nat) (s : Schema) :
    ∀ (m : List (Nat × Val)), confMsg s m = true → depthMsg m ≤ d → decMsg (d + 1) s (encMsg m) = some m
  | m, hc, hd => by
    rw [decMsg, encMsg_eq_encRaw, readFields_encRaw_len _ (confMsg_fields hc)]
    exact mapOpt_rawOf d s m hc hd
theorem mapOpt_rawOf (d : Nat) (s : Schema) :
    ∀ (m : List (Nat × Val)), confMsg s m = true → depthMsg m ≤ d →
      mapOpt (decField (decMsg d) s) (rawOf m) = some m
  | [], _, _ => by simp [rawOf, mapOpt]
  | (f, v) :: t, hc, hd => by
    obtain ⟨⟨rep, k, hl, hv⟩, _, ht⟩ := confMsg_cons hc
    simp only [depthMsg] at hd
    have h1 := decField_toRaw d s f rep v k hl hv (by omega)
    have h2 := mapOpt_rawOf d s t ht (by omega)
    simp only [rawOf, List.map_cons]
    exact mapOpt_cons_some h1 h2
end

/-- the depth bound is monotone: any larger `d` works -/
theorem decMsg_encMsg_of_lt {d : Nat} {s : Schema} {m : Msg} (hc : confMsg s m = true)
    (hd : depthMsg m < d) : decMsg d s (encMsg m) = some m := by
  cases d with
  | zero => omega
  | succ d => exact decMsg_encMsg d s m hc (by omega)

/-- the encoder is injective on conforming messages (of one schema) -/
theorem encMsg_injective {s : Schema} {m₁ m₂ : Msg} (h₁ : confMsg s m₁ = true) (h₂ : confMsg s m₂ = true)
    (h : encMsg m₁ = encMsg m₂) : m₁ = m₂ := by
  have e₁ := decMsg_encMsg (max (depthMsg m₁) (depthMsg m₂)) s m₁ h₁ (by omega)
  have e₂ := decMsg_encMsg (max (depthMsg m₁) (depthMsg m₂)) s m₂ h₂ (by omega)
  rw [h, e₂] at e₁
  exact (Option.some.inj e₁).symm

/-! ## normal form -/

theorem isDefault_norm (k : Kind) (v : Val) : (v.norm k).isDefault = v.isDefault := by
  cases k <;> cases v <;> simp [Val.norm, Val.isDefault]

theorem isPacked_norm (k : Kind) (v : Val) : (v.norm k).isPacked = v.isPacked := by
  cases k <;> cases v <;> simp [Val.norm, Val.isPacked]

theorem omitted_norm (rep : Bool) (k : Kind) (v : Val) : omitted rep (v.norm k) = omitted rep v := by
  simp [omitted, isDefault_norm, isPacked_norm]

mutual
theorem conf_norm : ∀ (k : Kind) (v : Val), v.conf k = true → (v.norm k).conf k = true
  | .msg s, .msg fs, h => by
    simp only [Val.conf] at h
    simp only [Val.norm, Val.conf]
    exact confMsg_norm s fs h
  | .int, v, h => by cases v <;> simp_all [Val.norm, Val.conf]
  | .bytes, v, h => by cases v <;> simp_all [Val.norm, Val.conf]
  | .packed, v, h => by cases v <;> simp_all [Val.norm, Val.conf]
  | .msg s, .int _, h => by simp [Val.conf] at h
  | .msg s, .bytes _, h => by simp [Val.conf] at h
  | .msg s, .packed _, h => by simp [Val.conf] at h
theorem confMsg_norm (s : Schema) : ∀ (m : List (Nat × Val)), confMsg s m = true → confMsg s (normMsg s m) = true
  | [], _ => by simp [normMsg, confMsg]
  | (f, v) :: t, h => by
    obtain ⟨⟨rep, k, hl, hv⟩, hf, ht⟩ := confMsg_cons h
    have iht := confMsg_norm s t ht
    by_cases hc : omitted rep v = true
    · simp only [normMsg, hl, hc, if_true]; exact iht
    · simp only [normMsg, hl, hc]
      simp [confMsg, hl, conf_norm k v hv, hf, iht]
end

mutual
theorem depth_norm : ∀ (k : Kind) (v : Val), (v.norm k).depth ≤ v.depth
  | .msg s, .msg fs => by
    simp only [Val.norm, Val.depth]
    have := depthMsg_norm s fs
    omega
  | .int, v => by simp [Val.norm]
  | .bytes, v => by simp [Val.norm]
  | .packed, v => by simp [Val.norm]
  | .msg s, .int _ => by simp [Val.norm]
  | .msg s, .bytes _ => by simp [Val.norm]
  | .msg s, .packed _ => by simp [Val.norm]
theorem depthMsg_norm (s : Schema) : ∀ (m : List (Nat × Val)), depthMsg (normMsg s m) ≤ depthMsg m
  | [] => by simp [normMsg]
  | (f, v) :: t => by
    have iht := depthMsg_norm s t
    cases hl : s.lookup f with
    | none => simp only [normMsg, hl, depthMsg]; omega
    | some rk =>
      obtain ⟨rep, k⟩ := rk
      by_cases hc : omitted rep v = true
      · simp only [normMsg, hl, hc, if_true, depthMsg]; omega
      · have := depth_norm k v
        simp only [normMsg, hl, hc, depthMsg]
        simp only [Bool.false_eq_true, if_false, depthMsg]; omega
end

mutual
theorem norm_idem : ∀ (k : Kind) (v : Val), (v.norm k).norm k = v.norm k
  | .msg s, .msg fs => by
    simp only [Val.norm]
    rw [normMsg_idem s fs]
  | .int, v => by simp [Val.norm]
  | .bytes, v => by simp [Val.norm]
  | .packed, v => by simp [Val.norm]
  | .msg s, .int _ => by simp [Val.norm]
  | .msg s, .bytes _ => by simp [Val.norm]
  | .msg s, .packed _ => by simp [Val.norm]
/-- normalising twice = normalising once (re-encoding a decoded message changes nothing) -/
theorem normMsg_idem (s : Schema) : ∀ (m : List (Nat × Val)), normMsg s (normMsg s m) = normMsg s m
  | [] => by simp [normMsg]
  | (f, v) :: t => by
    have iht := normMsg_idem s t
    cases hl : s.lookup f with
    | none => simp [normMsg, hl, iht]
    | some rk =>
      obtain ⟨rep, k⟩ := rk
      by_cases hc : omitted rep v = true
      · simp only [normMsg, hl, hc, if_true]; exact iht
      · have hc' : omitted rep (v.norm k) = false := by rw [omitted_norm]; simpa using hc
        have hc2 : omitted rep v = false := by simpa using hc
        simp [normMsg, hl, hc2, hc', norm_idem k v, iht]
end

/-! ## field order and getters -/

theorem sortedMsg_tail {s : Schema} {p : Nat × Val} {t : Msg} (h : sortedMsg s (p :: t) = true) :
    sortedMsg s t = true := by
  obtain ⟨f, v⟩ := p
  simp only [sortedMsg, Bool.and_eq_true] at h
  exact h.2

/-- in a sorted message every later occurrence has a field number ≥ the head's, and > when the head is singular -/
theorem sortedMsg_lb {s : Schema} : ∀ {f : Nat} {v : Val} {t : Msg}, sortedMsg s ((f, v) :: t) = true →
    ∀ p ∈ t, f ≤ p.1 ∧ (isRep s f = false → f < p.1) := by
  intro f v t
  induction t generalizing f v with
  | nil => intro _ p hp; simp at hp
  | cons q t ih =>
    intro h p hp
    obtain ⟨g, w⟩ := q
    have hs := h
    simp only [sortedMsg, Bool.and_eq_true, Bool.or_eq_true, decide_eq_true_eq] at hs
    obtain ⟨⟨_, hfg⟩, htl⟩ := hs
    have hfg' : f ≤ g ∧ (isRep s f = false → f < g) := by
      rcases hfg with hlt | ⟨heq, hrep⟩
      · exact ⟨by omega, fun _ => hlt⟩
      · exact ⟨by omega, fun hr => by simp [hrep] at hr⟩
    simp only [List.mem_cons] at hp
    rcases hp with rfl | hp
    · exact hfg'
    · have htl' : sortedMsg s ((g, w) :: t) = true := by
        simp only [sortedMsg, Bool.and_eq_true]; exact htl
      have := ih htl' p hp
      exact ⟨by omega, fun hr => by have := hfg'.2 hr; omega⟩

theorem normMsg_fields (s : Schema) : ∀ (m : Msg) (p : Nat × Val), p ∈ normMsg s m → ∃ q ∈ m, q.1 = p.1 := by
  intro m
  induction m with
  | nil => intro p hp; simp [normMsg] at hp
  | cons q t ih =>
    obtain ⟨f, v⟩ := q
    intro p hp
    cases hl : s.lookup f with
    | none =>
      simp only [normMsg, hl, List.mem_cons] at hp
      rcases hp with rfl | hp
      · exact ⟨(f, v), by simp, rfl⟩
      · obtain ⟨q, hq, e⟩ := ih p hp; exact ⟨q, by simp [hq], e⟩
    | some rk =>
      obtain ⟨rep, k⟩ := rk
      by_cases hc : omitted rep v = true
      · simp only [normMsg, hl, hc, if_true] at hp
        obtain ⟨q, hq, e⟩ := ih p hp; exact ⟨q, by simp [hq], e⟩
      · simp only [normMsg, hl, hc, List.mem_cons] at hp
        simp only [Bool.false_eq_true, if_false, List.mem_cons] at hp
        rcases hp with rfl | hp
        · exact ⟨(f, v), by simp, rfl⟩
        · obtain ⟨q, hq, e⟩ := ih p hp; exact ⟨q, by simp [hq], e⟩

theorem lookup_none_of_lt {m : Msg} {f : Nat} (h : ∀ p ∈ m, f < p.1) : m.lookup f = none := by
  induction m with
  | nil => rfl
  | cons q t ih =>
    obtain ⟨g, w⟩ := q
    have hg : f < g := h (g, w) (by simp)
    have hne : (f == g) = false := by simp; omega
    simp only [List.lookup, hne]
    exact ih fun p hp => h p (by simp [hp])

/-- the occurrence found for a singular field `f`, after normalisation: the normalised original, unless omitted -/
theorem lookup_normMsg {s : Schema} {f : Nat} {k : Kind} (hl : s.lookup f = some (false, k)) :
    ∀ {m : Msg}, sortedMsg s m = true →
      (normMsg s m).lookup f =
        match m.lookup f with
        | some v => if omitted false v then none else some (v.norm k)
        | none => none := by
  intro m
  induction m with
  | nil => intro _; simp [normMsg]
  | cons q t ih =>
    obtain ⟨g, w⟩ := q
    intro hs
    have iht := ih (sortedMsg_tail hs)
    by_cases hfg : f = g
    · subst hfg
      have hrep : isRep s f = false := by simp [isRep, hl]
      have hgt : ∀ p ∈ t, f < p.1 := fun p hp => (sortedMsg_lb hs p hp).2 hrep
      have hgt' : ∀ p ∈ normMsg s t, f < p.1 := by
        intro p hp
        obtain ⟨q, hq, e⟩ := normMsg_fields s t p hp
        rw [← e]; exact hgt q hq
      by_cases hc : omitted false w = true
      · simp [normMsg, hl, hc, List.lookup, lookup_none_of_lt hgt']
      · have hc2 : omitted false w = false := by simpa using hc
        simp [normMsg, hl, hc2, List.lookup]
    · have hne : (f == g) = false := by simp [hfg]
      cases hlg : s.lookup g with
      | none => simp only [normMsg, hlg, List.lookup, hne]; exact iht
      | some rk =>
        obtain ⟨rep, k'⟩ := rk
        by_cases hc : omitted rep w = true
        · simp only [normMsg, hlg, hc, if_true, List.lookup, hne]; exact iht
        · have hc2 : omitted rep w = false := by simpa using hc
          simp only [normMsg, hlg, hc2, List.lookup, hne]
          simp only [Bool.false_eq_true, if_false, List.lookup, hne]; exact iht

/-- normalisation does not change what the proto3 getter of a singular scalar field returns -/
theorem getInt_normMsg {s : Schema} {f : Nat} {k : Kind} (hl : s.lookup f = some (false, k)) {m : Msg}
    (hs : sortedMsg s m = true) : getInt (normMsg s m) f = getInt m f := by
  simp only [getInt, lookup_normMsg hl hs]
  cases m.lookup f with
  | none => rfl
  | some v =>
    cases v with
    | int n =>
      by_cases h0 : n = 0
      · simp [omitted, Val.isDefault, Val.isPacked, h0]
      · simp [omitted, Val.isDefault, Val.isPacked, h0]; cases k <;> simp [Val.norm]
    | bytes b => by_cases hb : b = [] <;> simp [omitted, Val.isDefault, Val.isPacked, hb] <;> cases k <;> simp [Val.norm]
    | msg fs => simp [omitted, Val.isDefault, Val.isPacked]; cases k <;> simp [Val.norm]
    | packed ns => by_cases hb : ns = [] <;> simp [omitted, Val.isDefault, Val.isPacked, hb] <;> cases k <;> simp [Val.norm]

theorem getBytes_normMsg {s : Schema} {f : Nat} {k : Kind} (hl : s.lookup f = some (false, k)) {m : Msg}
    (hs : sortedMsg s m = true) : getBytes (normMsg s m) f = getBytes m f := by
  simp only [getBytes, lookup_normMsg hl hs]
  cases m.lookup f with
  | none => rfl
  | some v =>
    cases v with
    | int n => by_cases h0 : n = 0 <;> simp [omitted, Val.isDefault, Val.isPacked, h0] <;> cases k <;> simp [Val.norm]
    | bytes b =>
      by_cases hb : b = []
      · simp [omitted, Val.isDefault, Val.isPacked, hb]
      · simp [omitted, Val.isDefault, Val.isPacked, hb]; cases k <;> simp [Val.norm]
    | msg fs => simp [omitted, Val.isDefault, Val.isPacked]; cases k <;> simp [Val.norm]
    | packed ns => by_cases hb : ns = [] <;> simp [omitted, Val.isDefault, Val.isPacked, hb] <;> cases k <;> simp [Val.norm]

/-- presence and (normalised) content of a singular sub-message survive normalisation -/
theorem getMsg_normMsg {s s' : Schema} {f : Nat} (hl : s.lookup f = some (false, .msg s')) {m : Msg}
    (hs : sortedMsg s m = true) : getMsg (normMsg s m) f = (getMsg m f).map (normMsg s') := by
  simp only [getMsg, lookup_normMsg hl hs]
  cases m.lookup f with
  | none => rfl
  | some v =>
    cases v with
    | int n => by_cases h0 : n = 0 <;> simp [omitted, Val.isDefault, Val.isPacked, h0, Val.norm]
    | bytes b => by_cases hb : b = [] <;> simp [omitted, Val.isDefault, Val.isPacked, hb, Val.norm]
    | msg fs => simp [omitted, Val.isDefault, Val.isPacked, Val.norm]
    | packed ns => by_cases hb : ns = [] <;> simp [omitted, Val.isDefault, Val.isPacked, hb, Val.norm]

/-! ## the normal form stays in emission order -/

theorem sortedMsg_cons_iff {s : Schema} {f : Nat} {v : Val} {t : Msg} :
    sortedMsg s ((f, v) :: t) = true ↔
      (match s.lookup f with | some (_, k) => v.sorted k | none => true) = true ∧
      (match t with | [] => true | (g, _) :: _ => decide (f < g) || (decide (f = g) && isRep s f)) = true ∧
      sortedMsg s t = true := by
  simp only [sortedMsg, Bool.and_eq_true, and_assoc]
  exact Iff.rfl

mutual
theorem sorted_norm : ∀ (k : Kind) (v : Val), v.sorted k = true → (v.norm k).sorted k = true
  | .msg s, .msg fs, h => by
    simp only [Val.sorted] at h
    simp only [Val.norm, Val.sorted]
    exact sortedMsg_norm s fs h
  | .int, v, _ => by cases v <;> simp [Val.norm, Val.sorted]
  | .bytes, v, _ => by cases v <;> simp [Val.norm, Val.sorted]
  | .packed, v, _ => by cases v <;> simp [Val.norm, Val.sorted]
  | .msg s, .int _, _ => by simp [Val.norm, Val.sorted]
  | .msg s, .bytes _, _ => by simp [Val.norm, Val.sorted]
  | .msg s, .packed _, _ => by simp [Val.norm, Val.sorted]
theorem sortedMsg_norm (s : Schema) : ∀ (m : List (Nat × Val)), sortedMsg s m = true → sortedMsg s (normMsg s m) = true
  | [], _ => by simp [normMsg, sortedMsg]
  | (f, v) :: t, h => by
    have iht := sortedMsg_norm s t (sortedMsg_tail h)
    have hlb := sortedMsg_lb h
    have hnext : (match normMsg s t with
        | [] => true
        | (g, _) :: _ => decide (f < g) || (decide (f = g) && isRep s f)) = true := by
      cases hn : normMsg s t with
      | nil => rfl
      | cons q r =>
        obtain ⟨g, w⟩ := q
        have hmem : (g, w) ∈ normMsg s t := by rw [hn]; simp
        obtain ⟨p, hp, e⟩ := normMsg_fields s t (g, w) hmem
        have := hlb p hp
        simp only at e
        simp only [Bool.or_eq_true, Bool.and_eq_true, decide_eq_true_eq]
        by_cases hfg : f < g
        · exact Or.inl hfg
        · right
          have hge : f = g := by omega
          refine ⟨hge, ?_⟩
          cases hr : isRep s f with
          | true => rfl
          | false => have := this.2 hr; omega
    have hv := (sortedMsg_cons_iff.mp h).1
    cases hl : s.lookup f with
    | none =>
      simp only [normMsg, hl]
      exact sortedMsg_cons_iff.mpr ⟨by simp [hl], hnext, iht⟩
    | some rk =>
      obtain ⟨rep, k⟩ := rk
      by_cases hc : omitted rep v = true
      · simp only [normMsg, hl, hc, if_true]; exact iht
      · have hc2 : omitted rep v = false := by simpa using hc
        simp only [normMsg, hl, hc2]
        simp only [hl] at hv
        exact sortedMsg_cons_iff.mpr ⟨by simp only [hl]; exact sorted_norm k v hv, hnext, iht⟩
end

/-- **the normal form of a well-formed message is well-formed** (conforming and in emission order) -/
theorem wfMsg_norm (s : Schema) (m : Msg) (h : wfMsg s m = true) : wfMsg s (normMsg s m) = true := by
  simp only [wfMsg, Bool.and_eq_true] at *
  exact ⟨confMsg_norm s m h.1, sortedMsg_norm s m h.2⟩

end IdenaModel.ProtoWire
