import IdenaModel.Proofs.PushPull
/-! C20 helper: once an announcement of `h` has been deferred (counter ≥ cap) no immediate request for `h` follows
until the counter expires; used for the window bound `window_cap`. Core Lean only. -/
namespace IdenaModel.PushPull

/-- the counter of `h` has reached the cap: further announcements are deferred, not requested at once -/
def Deferred (c : Cfg) (h : Nat) (s : St) : Prop := ∃ n, lookup s.cnt h = some n ∧ c.cap ≤ n + 1 ∧ 1 ≤ n

def isImm (h : Nat) : Out → Bool
  | .imm _ h' _ => h' == h
  | _ => false

def isDec (h : Nat) : Out → Bool
  | .dec _ h' _ => h' == h
  | _ => false

/-- every queued push of `h` (and the entry the as-found loop may be holding) was deferred by a counter that is
still at or above the cap -/
def QueuedDeferred (c : Cfg) (h : Nat) (s : St) : Prop :=
  (∀ e ∈ s.pending, e.hash = h → Deferred c h s) ∧ (∀ obj w, s.pc = .hold obj w → obj.hash = h → Deferred c h s)

theorem removeHead_pending_sub (s : St) : ∀ e ∈ (removeHead s).pending, e ∈ s.pending := by
  unfold removeHead; split
  · simp_all
  · rename_i x rest hx; intro e he; rw [hx]; exact List.mem_cons_of_mem _ he

theorem moveHead_pending_hash (s : St) (t : Nat) :
    ∀ e ∈ (moveHead s t).pending, ∃ e' ∈ s.pending, e'.hash = e.hash := by
  unfold moveHead; split
  · intro e he; exact ⟨e, by simpa using he, rfl⟩
  · rename_i x rest hx
    intro e he
    rcases mem_insertSorted.mp he with rfl | he
    · exact ⟨x, by simp [hx], rfl⟩
    · exact ⟨e, by rw [hx]; exact List.mem_cons_of_mem _ he, rfl⟩

theorem afterWake_pending_hash (s : St) (obj : Entry) :
    ∀ e ∈ (afterWake s obj).1.pending, ∃ e' ∈ s.pending, e'.hash = e.hash := by
  have hr : ∀ e ∈ (removeHead s).pending, ∃ e' ∈ s.pending, e'.hash = e.hash :=
    fun e he => ⟨e, removeHead_pending_sub s e he, rfl⟩
  unfold afterWake
  split
  · exact hr
  · split
    · exact hr
    · split
      · exact moveHead_pending_hash s _
      · exact hr

theorem afterWake_cnt_pc (s : St) (obj : Entry) :
    (afterWake s obj).1.cnt = s.cnt ∧ (afterWake s obj).1.pc = s.pc := by
  obtain ⟨-, -, -, r4, -, r6, -⟩ := removeHead_fields s
  unfold afterWake
  split
  · exact ⟨r6, r4⟩
  · split
    · exact ⟨r6, r4⟩
    · rename_i t _
      obtain ⟨-, -, -, m4, -, m6, -⟩ := moveHead_fields s t
      split
      · exact ⟨m6, m4⟩
      · exact ⟨r6, r4⟩

theorem afterWake_dec_hash (s : St) (obj : Entry) (o : Out) (ho : o ∈ (afterWake s obj).2) :
    o = .dec obj.peer obj.hash s.now := by
  unfold afterWake at ho
  split at ho
  · simp at ho
  · split at ho
    · simp at ho
    · split at ho
      · simp at ho
      · simp only [List.mem_singleton] at ho
        rw [ho, (removeHead_fields s).1]

/-- one slot of the loop: counters untouched, queued hashes only shrink, and whatever is requested was queued or held -/
theorem loopStep_queued (c : Cfg) (s : St) :
    (loopStep c s).1.cnt = s.cnt ∧
    (∀ e ∈ (loopStep c s).1.pending, ∃ e' ∈ s.pending, e'.hash = e.hash) ∧
    (∀ obj w, (loopStep c s).1.pc = .hold obj w → obj ∈ s.pending ∨ s.pc = .hold obj w) ∧
    (∀ o ∈ (loopStep c s).2, ∃ p h t, o = .dec p h t ∧
      ((∃ e ∈ s.pending, e.hash = h) ∨ ∃ obj w, s.pc = .hold obj w ∧ obj.hash = h)) := by
  have idp : ∀ e ∈ s.pending, ∃ e' ∈ s.pending, e'.hash = e.hash := fun e he => ⟨e, he, rfl⟩
  unfold loopStep
  split
  · split
    · exact ⟨rfl, idp, by simp, by simp⟩
    · rename_i hpc _
      exact ⟨rfl, idp, fun obj w hw => by simp [hpc] at hw, by simp⟩
  · rename_i obj w hpc
    split
    · have h1 := afterWake_cnt_pc { s with pc := .run } obj
      refine ⟨h1.1, afterWake_pending_hash { s with pc := .run } obj, ?_, ?_⟩
      · intro o w' hw; rw [h1.2] at hw; simp at hw
      · intro o ho
        have := afterWake_dec_hash { s with pc := .run } obj o ho
        exact ⟨_, _, _, this, Or.inr ⟨obj, w, hpc, rfl⟩⟩
    · exact ⟨rfl, idp, fun o w' hw => Or.inr hw, by simp⟩
  · rename_i hpc
    split
    · exact ⟨rfl, idp, by simp, by simp⟩
    · rename_i obj rest hp
      split
      · refine ⟨rfl, idp, ?_, by simp⟩
        intro o w hw
        by_cases ha : c.asFound = true <;> simp [ha] at hw
        left; rw [hp, ← hw.1]; simp
      · have h1 := afterWake_cnt_pc s obj
        refine ⟨h1.1, afterWake_pending_hash s obj, ?_, ?_⟩
        · intro o w' hw; rw [h1.2, hpc] at hw; simp at hw
        · intro o ho
          have := afterWake_dec_hash s obj o ho
          exact ⟨_, _, _, this, Or.inl ⟨obj, by simp [hp], rfl⟩⟩

theorem deferred_of_cnt_eq {c : Cfg} {h : Nat} {s s' : St} (hc : s'.cnt = s.cnt) (hd : Deferred c h s) :
    Deferred c h s' := by
  obtain ⟨n, h1, h2⟩ := hd; exact ⟨n, by rw [hc]; exact h1, h2⟩

theorem addPending_pending (c : Cfg) (s : St) (p h : Nat) :
    ∀ e ∈ (addPending c s p h).pending, e ∈ s.pending ∨ e.hash = h := by
  unfold addPending; split
  · intro e he; exact Or.inl he
  · split
    · intro e he
      rcases mem_insertSorted.mp he with rfl | he
      · exact Or.inr rfl
      · exact Or.inl he
    · intro e he; exact Or.inl he

/-- what one event (other than the expiry of `h`'s counter) does: `Deferred` and `QueuedDeferred` persist, an
immediate request for `h` is impossible once deferred, and a deferred request for `h` implies `Deferred` -/
theorem step_deferred (c : Cfg) (h : Nat) (s : St) (e : Ev) (hne : e ≠ .forget h) (hq : QueuedDeferred c h s) :
    QueuedDeferred c h (step c s e).1 ∧
    (Deferred c h s → Deferred c h (step c s e).1 ∧ ∀ o ∈ (step c s e).2, isImm h o = false) ∧
    ((∃ o ∈ (step c s e).2, isDec h o = true) → Deferred c h s) := by
  have same : ∀ s' : St, s'.cnt = s.cnt → s'.pending = s.pending → s'.pc = s.pc → QueuedDeferred c h s' := by
    intro s' h1 h2 h3
    refine ⟨fun e he hh => deferred_of_cnt_eq h1 (hq.1 e (h2 ▸ he) hh), fun o w hw hh => ?_⟩
    exact deferred_of_cnt_eq h1 (hq.2 o w (h3 ▸ hw) hh)
  cases e with
  | announce p h' =>
    by_cases hh : h' = h
    · subst hh
      simp only [step, announce]
      split
      · exact ⟨hq, fun hd => ⟨hd, by simp⟩, by simp [isDec]⟩
      · split
        · rename_i hn
          refine ⟨?_, ?_, by simp [isDec]⟩
          · refine ⟨fun e he hh => ?_, fun o w hw hh => ?_⟩
            · obtain ⟨n, h1, _⟩ := hq.1 e he hh; rw [hn] at h1; cases h1
            · obtain ⟨n, h1, _⟩ := hq.2 o w hw hh; rw [hn] at h1; cases h1
          · rintro ⟨n, h1, _⟩; rw [hn] at h1; cases h1
        · rename_i n hn
          split
          · rename_i hcap
            have hd' : Deferred c h' (addPending c { s with cnt := set s.cnt h' (n + 1) } p h') := by
              refine ⟨n + 1, ?_, by omega, by omega⟩
              rw [(addPending_cnt_held c _ p h').1]; simp [lookup_set]
            refine ⟨⟨fun e he _ => hd', fun o w _ _ => hd'⟩, fun _ => ⟨hd', by simp⟩, by simp [isDec]⟩
          · rename_i hcap
            have hnd : ¬ Deferred c h' s := by
              rintro ⟨m, h1, h2, _⟩; rw [hn] at h1; cases h1; omega
            refine ⟨⟨fun e he hh => absurd (hq.1 e he hh) hnd, fun o w hw hh => absurd (hq.2 o w hw hh) hnd⟩,
              fun hd => absurd hd hnd, by simp [isDec]⟩
    · have keep : ∀ (m : Map) (v : Nat) (s' : St), s'.cnt = set s.cnt h' v → Deferred c h s → Deferred c h s' := by
        intro m v s' hc ⟨n, h1, h2⟩
        exact ⟨n, by rw [hc, lookup_set]; simp [hh, h1], h2⟩
      simp only [step, announce]
      split
      · exact ⟨hq, fun hd => ⟨hd, by simp⟩, by simp [isDec]⟩
      · split
        · refine ⟨⟨fun e he hx => keep [] 1 _ rfl (hq.1 e he hx), fun o w hw hx => keep [] 1 _ rfl (hq.2 o w hw hx)⟩,
            fun hd => ⟨keep [] 1 _ rfl hd, ?_⟩, by simp [isDec]⟩
          simp [isImm, hh]
        · rename_i n hn
          split
          · have hc := (addPending_cnt_held c { s with cnt := set s.cnt h' (n + 1) } p h')
            refine ⟨⟨fun e he hx => ?_, fun o w hw hx => ?_⟩, fun hd => ⟨keep [] _ _ hc.1 hd, by simp⟩, by simp [isDec]⟩
            · rcases addPending_pending c _ p h' e he with he | he
              · exact keep [] _ _ hc.1 (hq.1 e he hx)
              · exact absurd (he.symm.trans hx) hh
            · rw [hc.2.2] at hw; exact keep [] _ _ hc.1 (hq.2 o w hw hx)
          · refine ⟨⟨fun e he hx => keep [] _ _ rfl (hq.1 e he hx), fun o w hw hx => keep [] _ _ rfl (hq.2 o w hw hx)⟩,
              fun hd => ⟨keep [] _ _ rfl hd, ?_⟩, by simp [isDec]⟩
            simp [isImm, hh]
  | arrive h' => exact ⟨same _ rfl rfl rfl, fun hd => ⟨hd, by simp [step]⟩, by simp [step]⟩
  | tick t =>
    simp only [step]
    split
    · exact ⟨same _ rfl rfl rfl, fun hd => ⟨hd, by simp⟩, by simp⟩
    · exact ⟨hq, fun hd => ⟨hd, by simp⟩, by simp⟩
  | loop =>
    obtain ⟨l1, l2, l3, l4⟩ := loopStep_queued c s
    simp only [step]
    refine ⟨⟨fun e he hx => ?_, fun o w hw hx => ?_⟩, fun hd => ⟨deferred_of_cnt_eq l1 hd, ?_⟩, ?_⟩
    · obtain ⟨e', he', hh'⟩ := l2 e he
      exact deferred_of_cnt_eq l1 (hq.1 e' he' (hh'.trans hx))
    · rcases l3 o w hw with hm | hm
      · exact deferred_of_cnt_eq l1 (hq.1 o hm hx)
      · exact deferred_of_cnt_eq l1 (hq.2 o w hm hx)
    · intro o ho
      obtain ⟨p, h', t, rfl, _⟩ := l4 o ho
      rfl
    · rintro ⟨o, ho, hdec⟩
      obtain ⟨p, h', t, rfl, hsrc⟩ := l4 o ho
      have : h' = h := by simpa [isDec] using hdec
      subst this
      rcases hsrc with ⟨e, he, hx⟩ | ⟨obj, w, hw, hx⟩
      · exact hq.1 e he hx
      · exact hq.2 obj w hw hx
  | gc =>
    simp only [step, gcStep]
    split
    · exact ⟨same _ rfl rfl rfl, fun hd => ⟨hd, by simp⟩, by simp⟩
    · exact ⟨hq, fun hd => ⟨hd, by simp⟩, by simp⟩
  | deliver =>
    simp only [step, deliver]
    split
    · exact ⟨hq, fun hd => ⟨hd, by simp⟩, by simp⟩
    · exact ⟨same _ rfl rfl rfl, fun hd => ⟨hd, by simp [isImm]⟩, by simp [isDec]⟩
  | expire h' => exact ⟨same _ rfl rfl rfl, fun hd => ⟨hd, by simp [step]⟩, by simp [step]⟩
  | forget h' =>
    have hh : h' ≠ h := fun e => hne (by rw [e])
    have keep : Deferred c h s → Deferred c h { s with cnt := erase s.cnt h' } := by
      rintro ⟨n, h1, h2⟩; exact ⟨n, by simp [lookup_erase_ne _ hh, h1], h2⟩
    simp only [step]
    exact ⟨⟨fun e he hx => keep (hq.1 e he hx), fun o w hw hx => keep (hq.2 o w hw hx)⟩,
      fun hd => ⟨keep hd, by simp⟩, by simp⟩

/-- over a run without expiry of `h`'s counter: once deferred, never again requested at once -/
theorem run_no_imm_of_deferred (c : Cfg) (h : Nat) (evs : List Ev) (hnf : Ev.forget h ∉ evs) :
    ∀ s, QueuedDeferred c h s → Deferred c h s → ∀ o ∈ (run c s evs).2, isImm h o = false := by
  induction evs with
  | nil => intro s _ _ o ho; simp [run] at ho
  | cons e es ih =>
    intro s hq hd o ho
    have hne : e ≠ .forget h := fun eq => hnf (by simp [eq])
    obtain ⟨s1, s2, _⟩ := step_deferred c h s e hne hq
    simp only [run, List.mem_append] at ho
    rcases ho with ho | ho
    · exact (s2 hd).2 o ho
    · exact ih (fun hx => hnf (List.mem_cons_of_mem _ hx)) _ s1 (s2 hd).1 o ho

/-- no immediate request for `h` after a deferred request for `h` (until the counter expires) -/
theorem run_dec_then_no_imm (c : Cfg) (h : Nat) (evs : List Ev) (hnf : Ev.forget h ∉ evs) :
    ∀ s, QueuedDeferred c h s →
      (run c s evs).2.Pairwise (fun x y => isDec h x = true → isImm h y = false) := by
  induction evs with
  | nil => intro s _; simp [run]
  | cons e es ih =>
    intro s hq
    have hne : e ≠ .forget h := fun eq => hnf (by simp [eq])
    have hnf' : Ev.forget h ∉ es := fun hx => hnf (List.mem_cons_of_mem _ hx)
    obtain ⟨s1, s2, s3⟩ := step_deferred c h s e hne hq
    simp only [run]
    refine List.pairwise_append.mpr ⟨?_, ih hnf' _ s1, ?_⟩
    · -- a single event emits at most one kind: decs (loop) or an imm (announce); never a dec followed by an imm
      refine List.Pairwise.imp_of_mem ?_ (List.pairwise_of_forall (R := fun _ _ => True) (fun _ _ => trivial))
      intro x y hx hy _ hdx
      have hd := s3 ⟨x, hx, hdx⟩
      exact (s2 hd).2 y hy
    · intro x hx y hy hdx
      have hd := s3 ⟨x, hx, hdx⟩
      exact run_no_imm_of_deferred c h es hnf' _ s1 (s2 hd).1 y hy

end IdenaModel.PushPull
