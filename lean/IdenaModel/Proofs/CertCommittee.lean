import IdenaModel.Proofs.Cert
/-! Helper lemmas for C07, part 2: sorted validator list, committee draw, thresholds.  Core Lean only. -/
namespace IdenaModel.Cert

def StrictDesc (l : List Nat) : Prop := l.Pairwise (fun a b => b < a)

theorem mem_descInsert (x a : Nat) (l : List Nat) : x ∈ descInsert a l ↔ x = a ∨ x ∈ l := by
  fun_induction descInsert a l <;> simp_all <;> grind

theorem strictDesc_descInsert (a : Nat) (l : List Nat) (h : StrictDesc l) : StrictDesc (descInsert a l) := by
  fun_induction descInsert a l <;> simp_all [StrictDesc, List.pairwise_cons, mem_descInsert] <;> grind

theorem strictDesc_nodup {l : List Nat} (h : StrictDesc l) : l.Nodup := by
  rw [List.nodup_iff_pairwise_ne]
  exact List.Pairwise.imp (fun hab => by omega) h

theorem strictDesc_ext {l₁ l₂ : List Nat} (h₁ : StrictDesc l₁) (h₂ : StrictDesc l₂)
    (hm : ∀ x, x ∈ l₁ ↔ x ∈ l₂) : l₁ = l₂ := by
  induction l₁ generalizing l₂ with
  | nil =>
    cases l₂ with
    | nil => rfl
    | cons b t => have := (hm b).mpr List.mem_cons_self; cases this
  | cons a t ih =>
    cases l₂ with
    | nil => have := (hm a).mp List.mem_cons_self; cases this
    | cons b u =>
      simp only [StrictDesc, List.pairwise_cons] at h₁ h₂
      have hab : a = b := by
        have h1 := (hm a).mp List.mem_cons_self
        have h2 := (hm b).mpr List.mem_cons_self
        simp only [List.mem_cons] at h1 h2
        rcases h1 with h1 | h1
        · exact h1
        · rcases h2 with h2 | h2
          · exact h2.symm
          · have := h₂.1 a h1; have := h₁.1 b h2; omega
      subst hab
      congr 1
      apply ih h₁.2 h₂.2
      intro x
      have hx := hm x
      simp only [List.mem_cons] at hx
      constructor
      · intro hxt
        rcases hx.mp (Or.inr hxt) with e | e
        · subst e; have := h₁.1 x hxt; omega
        · exact e
      · intro hxu
        rcases hx.mpr (Or.inr hxu) with e | e
        · subst e; have := h₂.1 x hxu; omega
        · exact e

/-! ### `sortedValidators` -/

def insertDescAll (s l : List Nat) : List Nat := l.foldl (fun s a => descInsert a s) s

theorem mem_insertDescAll {x : Nat} {s l : List Nat} : x ∈ insertDescAll s l ↔ x ∈ s ∨ x ∈ l := by
  induction l generalizing s with
  | nil => simp [insertDescAll]
  | cons a t ih =>
    simp only [insertDescAll, List.foldl_cons] at ih ⊢
    rw [ih, mem_descInsert]; simp only [List.mem_cons]; grind

theorem strictDesc_insertDescAll {s l : List Nat} (h : StrictDesc s) : StrictDesc (insertDescAll s l) := by
  induction l generalizing s with
  | nil => simpa [insertDescAll] using h
  | cons a t ih =>
    simp only [insertDescAll, List.foldl_cons] at ih ⊢
    exact ih (strictDesc_descInsert a s h)

/-- one step of the loop that builds `sortedValidators` (validators.go:238-247) -/
def sortedStep (v : View) (s : List Nat) (n : Nat) : List Nat :=
  let s1 := if v.validated.contains n then descInsert n s else s
  match v.pools.lookup n with
  | some p => p.delegators.foldl (fun s a => descInsert a s) s1
  | none => s1

theorem buildSorted_eq (v : View) (nodes : List Nat) : buildSorted v nodes = nodes.foldl (sortedStep v) [] := rfl

/-- what one online node contributes to the validator list: itself when validated, and the delegators of its pool -/
def contributes (v : View) (n x : Nat) : Prop :=
  (v.validated.contains n = true ∧ x = n) ∨ ∃ p, v.pools.lookup n = some p ∧ x ∈ p.delegators

theorem mem_sortedS1 {v : View} {s : List Nat} {n x : Nat} :
    x ∈ (if v.validated.contains n = true then descInsert n s else s) ↔
      x ∈ s ∨ (v.validated.contains n = true ∧ x = n) := by
  by_cases hv : v.validated.contains n = true
  · rw [if_pos hv, mem_descInsert]
    constructor
    · rintro (h | h)
      · exact Or.inr ⟨hv, h⟩
      · exact Or.inl h
    · rintro (h | ⟨_, h⟩)
      · exact Or.inr h
      · exact Or.inl h
  · rw [if_neg hv]
    constructor
    · exact Or.inl
    · rintro (h | ⟨h, _⟩)
      · exact h
      · exact absurd h hv

theorem mem_sortedStep {v : View} {s : List Nat} {n x : Nat} :
    x ∈ sortedStep v s n ↔ x ∈ s ∨ contributes v n x := by
  unfold sortedStep contributes
  cases hp : v.pools.lookup n with
  | none =>
    show x ∈ (if v.validated.contains n = true then descInsert n s else s) ↔ _
    rw [mem_sortedS1]
    constructor
    · rintro (h | h)
      · exact Or.inl h
      · exact Or.inr (Or.inl h)
    · rintro (h | h | ⟨p, hp', _⟩)
      · exact Or.inl h
      · exact Or.inr h
      · cases hp'
  | some p =>
    show x ∈ insertDescAll (if v.validated.contains n = true then descInsert n s else s) p.delegators ↔ _
    rw [mem_insertDescAll, mem_sortedS1]
    constructor
    · rintro ((h | h) | h)
      · exact Or.inl h
      · exact Or.inr (Or.inl h)
      · exact Or.inr (Or.inr ⟨p, rfl, h⟩)
    · rintro (h | h | ⟨p', hp', h⟩)
      · exact Or.inl (Or.inl h)
      · exact Or.inl (Or.inr h)
      · cases hp'; exact Or.inr h

theorem strictDesc_sortedStep {v : View} {s : List Nat} {n : Nat} (h : StrictDesc s) :
    StrictDesc (sortedStep v s n) := by
  unfold sortedStep
  have h1 : StrictDesc (if v.validated.contains n then descInsert n s else s) := by
    split
    · exact strictDesc_descInsert n s h
    · exact h
  cases hp : v.pools.lookup n with
  | none => exact h1
  | some p => exact strictDesc_insertDescAll (l := p.delegators) h1

theorem foldl_sortedStep {v : View} (nodes s : List Nat) (h : StrictDesc s) :
    StrictDesc (nodes.foldl (sortedStep v) s) ∧
    ∀ x, x ∈ nodes.foldl (sortedStep v) s ↔ x ∈ s ∨ ∃ n ∈ nodes, contributes v n x := by
  induction nodes generalizing s with
  | nil => simp [h]
  | cons n t ih =>
    simp only [List.foldl_cons]
    obtain ⟨h1, h2⟩ := ih (sortedStep v s n) (strictDesc_sortedStep h)
    refine ⟨h1, ?_⟩
    intro x
    rw [h2, mem_sortedStep]
    simp only [List.mem_cons]
    constructor
    · rintro ((h | h) | ⟨m, hm, hc⟩)
      · exact Or.inl h
      · exact Or.inr ⟨n, Or.inl rfl, h⟩
      · exact Or.inr ⟨m, Or.inr hm, hc⟩
    · rintro (h | ⟨m, hm | hm, hc⟩)
      · exact Or.inl (Or.inl h)
      · subst hm; exact Or.inl (Or.inr hc)
      · exact Or.inr ⟨m, hm, hc⟩

theorem strictDesc_buildSorted (v : View) (nodes : List Nat) : StrictDesc (buildSorted v nodes) :=
  (foldl_sortedStep nodes [] (by simp [StrictDesc])).1

theorem mem_buildSorted (v : View) (nodes : List Nat) (x : Nat) :
    x ∈ buildSorted v nodes ↔ ∃ n ∈ nodes, contributes v n x := by
  rw [buildSorted_eq, (foldl_sortedStep nodes [] (by simp [StrictDesc])).2]; simp

/-! ### `determineValidators` -/

/-- the address that votes for a drawn validator: its pool when it delegates -/
def voterOf (v : View) (a : Nat) : Nat := (v.delegations.lookup a).getD a

/-- whether the drawn validator contributes an *approved* voter -/
def approvedOf (v : View) (a : Nat) : Bool :=
  match v.delegations.lookup a with
  | some d => match v.pools.lookup d with
    | some p => !p.approved.isEmpty
    | none => false
  | none => !v.discriminated.contains a

theorem determineStep_eq (v : View) (acc : List Nat × List Nat) (a : Nat) :
    determineStep v acc a =
      (acc.1.insert (voterOf v a), if approvedOf v a then acc.2.insert (voterOf v a) else acc.2) := by
  unfold determineStep voterOf approvedOf
  cases hd : v.delegations.lookup a with
  | none =>
    simp only [Option.getD_none]
    cases hc : v.discriminated.contains a <;> simp
  | some d =>
    simp only [Option.getD_some]
    cases hp : v.pools.lookup d with
    | none => simp
    | some p =>
      simp only []
      by_cases he : p.approved.isEmpty = true
      · simp [he]
      · simp [he]

theorem determine_spec (v : View) (set : List Nat) (acc : List Nat × List Nat) :
    (∀ x, x ∈ (set.foldl (determineStep v) acc).1 ↔ x ∈ acc.1 ∨ ∃ a ∈ set, voterOf v a = x) ∧
    (∀ x, x ∈ (set.foldl (determineStep v) acc).2 ↔
        x ∈ acc.2 ∨ ∃ a ∈ set, voterOf v a = x ∧ approvedOf v a = true) ∧
    ((set.foldl (determineStep v) acc).2.length ≤ acc.2.length + set.length) ∧
    (acc.2.Nodup → (set.foldl (determineStep v) acc).2.Nodup) := by
  induction set generalizing acc with
  | nil => simp
  | cons a t ih =>
    simp only [List.foldl_cons]
    obtain ⟨h1, h2, h3, h4⟩ := ih (determineStep v acc a)
    rw [determineStep_eq] at h1 h2 h3 h4 ⊢
    refine ⟨?_, ?_, ?_, ?_⟩
    · intro x; rw [h1]; simp only [List.mem_insert_iff, List.mem_cons]; grind
    · intro x; rw [h2]
      by_cases hap : approvedOf v a = true
      · simp only [hap, if_true, List.mem_insert_iff, List.mem_cons]; grind
      · simp only [hap, List.mem_cons]; grind
    · have : (if approvedOf v a = true then acc.2.insert (voterOf v a) else acc.2).length ≤ acc.2.length + 1 := by
        split
        · by_cases hm : voterOf v a ∈ acc.2
          · rw [List.length_insert_of_mem hm]; omega
          · rw [List.length_insert_of_not_mem hm]; omega
        · omega
      simp only [List.length_cons]; simp only [] at h3; omega
    · intro hn
      apply h4
      simp only []
      split
      · exact nodup_insert hn
      · exact hn

theorem mem_determine_validators (v : View) (set : List Nat) (x : Nat) :
    x ∈ (determineValidators v set).1 ↔ ∃ a ∈ set, voterOf v a = x := by
  rw [determineValidators, (determine_spec v set ([], [])).1]; simp

theorem mem_determine_approved (v : View) (set : List Nat) (x : Nat) :
    x ∈ (determineValidators v set).2 ↔ ∃ a ∈ set, voterOf v a = x ∧ approvedOf v a = true := by
  rw [determineValidators, (determine_spec v set ([], [])).2.1]; simp

theorem determine_approved_length_le (v : View) (set : List Nat) :
    (determineValidators v set).2.length ≤ set.length := by
  have := (determine_spec v set ([], [])).2.2.1; simpa [determineValidators] using this

/-! ### indices into a duplicate-free list -/

theorem nodup_getD_inj {l : List Nat} (hn : l.Nodup) {i j : Nat} (hi : i < l.length) (hj : j < l.length)
    (h : l.getD i 0 = l.getD j 0) : i = j := by
  induction l generalizing i j with
  | nil => simp at hi
  | cons a t ih =>
    obtain ⟨hat, hnt⟩ := List.nodup_cons.mp hn
    cases i with
    | zero =>
      cases j with
      | zero => rfl
      | succ j =>
        exfalso; apply hat
        simp only [List.getD_cons_zero, List.getD_cons_succ] at h
        rw [h, List.getD_eq_getElem?_getD, List.getElem?_eq_getElem (by simpa using hj)]
        exact List.getElem_mem _
    | succ i =>
      cases j with
      | zero =>
        exfalso; apply hat
        simp only [List.getD_cons_zero, List.getD_cons_succ] at h
        rw [← h, List.getD_eq_getElem?_getD, List.getElem?_eq_getElem (by simpa using hi)]
        exact List.getElem_mem _
      | succ j =>
        simp only [List.getD_cons_succ] at h
        rw [ih hnt (by simpa using hi) (by simpa using hj) h]

theorem getD_mem {l : List Nat} {i : Nat} (hi : i < l.length) : l.getD i 0 ∈ l := by
  rw [List.getD_eq_getElem?_getD, List.getElem?_eq_getElem hi]; exact List.getElem_mem _

theorem nodup_map_on {f : Nat → Nat} {l : List Nat} (hinj : ∀ x ∈ l, ∀ y ∈ l, f x = f y → x = y) (hn : l.Nodup) :
    (l.map f).Nodup := by
  induction l with
  | nil => simp
  | cons a t ih =>
    obtain ⟨hat, hnt⟩ := List.nodup_cons.mp hn
    simp only [List.map_cons, List.nodup_cons, List.mem_map, not_exists, not_and]
    refine ⟨?_, ih (fun x hx y hy => hinj x (List.mem_cons_of_mem _ hx) y (List.mem_cons_of_mem _ hy)) hnt⟩
    intro x hx hfx
    have := hinj x (List.mem_cons_of_mem _ hx) a List.mem_cons_self hfx
    subst this; exact hat hx

end IdenaModel.Cert
