import IdenaModel.Model.Registry
/-! Lemmas about M-Registry used by `Props/C10.lean` (core Lean only). -/
namespace IdenaModel.Registry

/-! ### association lists -/

@[simp] theorem lookup_nil {β : Type} (k : Nat) : lookup ([] : List (Nat × β)) k = none := rfl

theorem lookup_cons {β : Type} (k' : Nat) (v : β) (t : List (Nat × β)) (k : Nat) :
    lookup ((k', v) :: t) k = if k' = k then some v else lookup t k := rfl

@[simp] theorem lookup_erase {β : Type} (l : List (Nat × β)) (k k' : Nat) :
    lookup (erase l k) k' = if k' = k then none else lookup l k' := by
  induction l with
  | nil => simp [erase]
  | cons h t ih =>
    obtain ⟨hk, hv⟩ := h
    simp only [erase, List.filter_cons] at ih ⊢
    by_cases e : hk = k
    · subst e
      simp only [bne_self_eq_false, Bool.false_eq_true, ↓reduceIte, ih, lookup_cons]
      by_cases e2 : k' = hk
      · simp [e2]
      · have : ¬ hk = k' := fun h => e2 h.symm
        simp [e2, this]
    · have : (hk != k) = true := by simp [e]
      simp only [this, ↓reduceIte, lookup_cons, ih]
      by_cases e2 : hk = k'
      · subst e2; simp [e]
      · simp [e2]

@[simp] theorem lookup_store {β : Type} (l : List (Nat × β)) (k : Nat) (v : β) (k' : Nat) :
    lookup (store l k v) k' = if k' = k then some v else lookup l k' := by
  simp only [store, lookup_cons, lookup_erase]
  by_cases e : k = k'
  · simp [e]
  · have : ¬ k' = k := fun h => e h.symm
    simp [e, this]

/-! ### sets -/

@[simp] theorem mem_setAdd (s : List Nat) (a x : Nat) : x ∈ setAdd s a ↔ x = a ∨ x ∈ s := by
  unfold setAdd
  by_cases h : a ∈ s
  · simp only [h, ↓reduceIte]
    constructor
    · exact Or.inr
    · rintro (rfl | h') <;> assumption
  · simp [h]

@[simp] theorem mem_setRemove (s : List Nat) (a x : Nat) : x ∈ setRemove s a ↔ x ≠ a ∧ x ∈ s := by
  simp [setRemove, List.mem_filter, and_comm]

theorem nodup_setAdd {s : List Nat} (h : s.Nodup) (a : Nat) : (setAdd s a).Nodup := by
  unfold setAdd
  by_cases m : a ∈ s
  · simp [m, h]
  · simp [m, h]

theorem nodup_setRemove {s : List Nat} (h : s.Nodup) (a : Nat) : (setRemove s a).Nodup := by
  unfold setRemove List.Nodup at *
  exact h.filter _

/-- duplicate-free lists with the same members have the same length -/
theorem length_eq_of_mem_iff {l₁ l₂ : List Nat} (h₁ : l₁.Nodup) (h₂ : l₂.Nodup) (h : ∀ a, a ∈ l₁ ↔ a ∈ l₂) :
    l₁.length = l₂.length :=
  ((List.perm_ext_iff_of_nodup h₁ h₂).mpr h).length_eq

/-! ### sorted insertion -/

@[simp] theorem mem_insertAsc (a x : Nat) (l : List Nat) : x ∈ insertAsc a l ↔ x = a ∨ x ∈ l := by
  induction l with
  | nil => simp [insertAsc]
  | cons b bs ih =>
    unfold insertAsc
    split
    · simp
    · split
      · rename_i h; subst h; simp
      · simp [ih]; grind

@[simp] theorem mem_insertDesc (a x : Nat) (l : List Nat) : x ∈ insertDesc a l ↔ x = a ∨ x ∈ l := by
  induction l with
  | nil => simp [insertDesc]
  | cons b bs ih =>
    unfold insertDesc
    split
    · simp
    · split
      · rename_i h; subst h; simp
      · simp [ih]; grind

theorem insertAsc_sorted (a : Nat) {l : List Nat} (h : l.Pairwise (· < ·)) : (insertAsc a l).Pairwise (· < ·) := by
  induction l with
  | nil => simp [insertAsc]
  | cons b bs ih =>
    unfold insertAsc
    have hb := List.pairwise_cons.mp h
    split
    · rename_i hab
      refine List.pairwise_cons.mpr ⟨?_, h⟩
      intro x hx
      rcases List.mem_cons.mp hx with rfl | hx
      · exact hab
      · exact Nat.lt_trans hab (hb.1 x hx)
    · split
      · exact h
      · rename_i h1 h2
        refine List.pairwise_cons.mpr ⟨?_, ih hb.2⟩
        intro x hx
        rcases (mem_insertAsc a x bs).mp hx with rfl | hx
        · omega
        · exact hb.1 x hx

theorem insertDesc_sorted (a : Nat) {l : List Nat} (h : l.Pairwise (· > ·)) : (insertDesc a l).Pairwise (· > ·) := by
  induction l with
  | nil => simp [insertDesc]
  | cons b bs ih =>
    unfold insertDesc
    have hb := List.pairwise_cons.mp h
    split
    · rename_i hab
      refine List.pairwise_cons.mpr ⟨?_, h⟩
      intro x hx
      rcases List.mem_cons.mp hx with rfl | hx
      · exact hab
      · exact Nat.lt_trans (hb.1 x hx) hab
    · split
      · exact h
      · rename_i h1 h2
        refine List.pairwise_cons.mpr ⟨?_, ih hb.2⟩
        intro x hx
        rcases (mem_insertDesc a x bs).mp hx with rfl | hx
        · show b > x; omega
        · exact hb.1 x hx

/-- a strictly sorted list is determined by its members -/
theorem sorted_ext_lt {l₁ l₂ : List Nat} (h₁ : l₁.Pairwise (· < ·)) (h₂ : l₂.Pairwise (· < ·))
    (h : ∀ a, a ∈ l₁ ↔ a ∈ l₂) : l₁ = l₂ := by
  induction l₁ generalizing l₂ with
  | nil =>
    cases l₂ with
    | nil => rfl
    | cons b bs => exact absurd ((h b).mpr (by simp)) (by simp)
  | cons a as ih =>
    cases l₂ with
    | nil => exact absurd ((h a).mp (by simp)) (by simp)
    | cons b bs =>
      have ha := List.pairwise_cons.mp h₁
      have hb := List.pairwise_cons.mp h₂
      have hab : a = b := by
        have m1 : a ∈ b :: bs := (h a).mp (by simp)
        have m2 : b ∈ a :: as := (h b).mpr (by simp)
        rcases List.mem_cons.mp m1 with e | m1
        · exact e
        · rcases List.mem_cons.mp m2 with e | m2
          · exact e.symm
          · have := hb.1 a m1; have := ha.1 b m2; omega
      subst hab
      congr 1
      apply ih ha.2 hb.2
      intro x
      constructor
      · intro hx
        have : x ∈ a :: bs := (h x).mp (List.mem_cons_of_mem _ hx)
        rcases List.mem_cons.mp this with e | m
        · subst e; have := ha.1 x hx; omega
        · exact m
      · intro hx
        have : x ∈ a :: as := (h x).mpr (List.mem_cons_of_mem _ hx)
        rcases List.mem_cons.mp this with e | m
        · subst e; have := hb.1 x hx; omega
        · exact m

theorem sorted_ext_gt {l₁ l₂ : List Nat} (h₁ : l₁.Pairwise (· > ·)) (h₂ : l₂.Pairwise (· > ·))
    (h : ∀ a, a ∈ l₁ ↔ a ∈ l₂) : l₁ = l₂ := by
  have e : l₁.reverse = l₂.reverse := by
    apply sorted_ext_lt
    · rw [List.pairwise_reverse]; exact h₁
    · rw [List.pairwise_reverse]; exact h₂
    · intro a; simp [h a]
  simpa using congrArg List.reverse e


/-! ### the abstract content a cache stands for -/

/-- What a `Cache` represents: membership functions of the three sets, the delegation map, the approval flag `ok`
each pool keeps per member, and the set `R` of pool owners whose own approval entry may be stale (it is rewritten by the
`newApprovals` loop / the owner fix-up at the end of a `loadValidNodes` callback). -/
structure Abs where
  val : Nat → Bool
  onl : Nat → Bool
  dis : Nat → Bool
  ok : Nat → Bool
  dg : Nat → Option Nat
  R : Nat → Bool

def upd {β : Type} (f : Nat → β) (a : Nat) (b : β) : Nat → β := fun x => if x = a then b else f x

@[simp] theorem upd_same {β : Type} (f : Nat → β) (a : Nat) (b : β) : upd f a b a = b := by simp [upd]
theorem upd_apply {β : Type} (f : Nat → β) (a : Nat) (b : β) (x : Nat) : upd f a b x = if x = a then b else f x := rfl

def PoolSome (A : Abs) (p : Nat) (pl : Pool) : Prop :=
  pl.delegators ≠ [] ∧ pl.delegators.Pairwise (· < ·) ∧
  (∀ a, a ∈ pl.delegators ↔ A.dg a = some p) ∧
  (∀ x, (x = p ∧ A.R p = true) ∨ (x ∈ pl.approved ↔ (A.ok x = true ∧ (x = p ∨ A.dg x = some p))))

def PoolOK (A : Abs) (p : Nat) : Option Pool → Prop
  | none => ∀ a, A.dg a ≠ some p
  | some pl => PoolSome A p pl

structure Inv (c : Cache) (A : Abs) : Prop where
  nv : c.validated.Nodup
  no : c.online.Nodup
  val : ∀ a, a ∈ c.validated ↔ A.val a = true
  onl : ∀ a, a ∈ c.online ↔ A.onl a = true
  dis : ∀ a, a ∈ c.discr ↔ A.dis a = true
  dg : ∀ a, lookup c.delegations a = A.dg a
  pool : ∀ p, PoolOK A p (lookup c.pools p)
  okc : ∀ x, A.R x = false → A.ok x = (A.val x && !A.dis x)
  np : c.panicked = false

theorem PoolOK_congr {A B : Abs} {q : Nat} {o : Option Pool}
    (hR : A.R q = true → B.R q = true)
    (hdg : ∀ x, A.dg x = some q ↔ B.dg x = some q)
    (hok : ∀ x, (x = q ∧ B.R q = true) ∨ ((x = q ∨ A.dg x = some q) → A.ok x = B.ok x))
    (h : PoolOK A q o) : PoolOK B q o := by
  cases o with
  | none => intro a ha; exact h a ((hdg a).mpr ha)
  | some pl =>
    obtain ⟨h1, h2, h3, h4⟩ := h
    refine ⟨h1, h2, fun a => (h3 a).trans (hdg a), fun x => ?_⟩
    have := h4 x; have := hok x; have := hdg x
    grind

theorem Inv.congr {c : Cache} {A B : Abs} (h : Inv c A) (hval : ∀ x, A.val x = B.val x)
    (honl : ∀ x, A.onl x = B.onl x) (hdis : ∀ x, A.dis x = B.dis x) (hok : ∀ x, A.ok x = B.ok x)
    (hdg : ∀ x, A.dg x = B.dg x) (hR : ∀ x, A.R x = B.R x) : Inv c B := by
  obtain ⟨v1, o1, d1, k1, g1, r1⟩ := A
  obtain ⟨v2, o2, d2, k2, g2, r2⟩ := B
  simp only at hval honl hdis hok hdg hR
  obtain rfl := funext hval
  obtain rfl := funext honl
  obtain rfl := funext hdis
  obtain rfl := funext hok
  obtain rfl := funext hdg
  obtain rfl := funext hR
  exact h

/-- the stale-owner set may be enlarged -/
theorem Inv.weakenR {c : Cache} {A : Abs} (h : Inv c A) (R' : Nat → Bool) (hR : ∀ x, A.R x = true → R' x = true) :
    Inv c { A with R := R' } := by
  refine ⟨h.nv, h.no, h.val, h.onl, h.dis, h.dg, fun p => ?_, fun x hx => ?_, h.np⟩
  · exact PoolOK_congr (hR p) (fun _ => Iff.rfl) (fun _ => Or.inr fun _ => rfl) (h.pool p)
  · apply h.okc
    have hx : R' x = false := hx
    cases hx' : A.R x with
    | false => rfl
    | true => rw [hR x hx'] at hx; cases hx

@[simp] theorem filter_ne_eq_nil (l : List Nat) (a : Nat) : (l.filter (fun x => x != a)).isEmpty = true ↔ ∀ x ∈ l, x = a := by
  simp [List.isEmpty_iff, List.filter_eq_nil_iff]

theorem Inv.removeDelegation {c : Cache} {A : Abs} (h : Inv c A) (a : Nat) (hR : A.R a = true) :
    Inv (c.removeDelegation a) { A with dg := upd A.dg a none } := by
  have hd := h.dg a
  unfold Cache.removeDelegation
  cases hda : A.dg a with
  | none =>
    rw [hda] at hd
    simp only [hd]
    exact h.congr (fun _ => rfl) (fun _ => rfl) (fun _ => rfl) (fun _ => rfl)
      (fun x => by simp only [upd_apply]; split <;> simp_all) (fun _ => rfl)
  | some p =>
    rw [hda] at hd
    simp only [hd]
    have hp := h.pool p
    cases hpl : lookup c.pools p with
    | none => rw [hpl] at hp; exact absurd hda (hp a)
    | some pl =>
      rw [hpl] at hp
      obtain ⟨h1, h2, h3, h4⟩ := hp
      have hother : ∀ q, q ≠ p → PoolOK { A with dg := upd A.dg a none } q (lookup c.pools q) := by
        intro q hq
        refine PoolOK_congr (A := A) (fun r => r) (fun x => ?_) (fun x => Or.inr fun _ => rfl) (h.pool q)
        simp only [upd_apply]; grind
      simp only [Pool.remove]
      by_cases hempty : (List.filter (fun x => x != a) pl.delegators).isEmpty = true
      · simp only [hempty, ↓reduceIte]
        refine ⟨h.nv, h.no, h.val, h.onl, h.dis, fun x => ?_, fun q => ?_, h.okc, h.np⟩
        · simp only [lookup_erase, upd_apply, h.dg]
        · simp only [lookup_erase]
          split
          · rename_i e; subst e
            intro x
            simp only [upd_apply]
            have := h3 x
            have := (filter_ne_eq_nil pl.delegators a).mp hempty x
            grind
          · exact hother q ‹_›
      · simp only [hempty, Bool.false_eq_true, ↓reduceIte]
        refine ⟨h.nv, h.no, h.val, h.onl, h.dis, fun x => ?_, fun q => ?_, h.okc, h.np⟩
        · simp only [lookup_erase, upd_apply, h.dg]
        · simp only [lookup_store]
          split
          · rename_i e; subst e
            refine ⟨?_, h2.filter _, fun x => ?_, fun x => ?_⟩
            · intro hnil; apply hempty; have hnil' : List.filter (fun x => x != a) pl.delegators = [] := hnil; simp [hnil']
            · simp only [List.mem_filter, upd_apply]
              have := h3 x
              grind
            · simp only [mem_setRemove, upd_apply]
              have := h4 x
              grind
          · exact hother q ‹_›

theorem insertAsc_ne_nil (a : Nat) (l : List Nat) : insertAsc a l ≠ [] := by
  intro h
  have : a ∈ insertAsc a l := (mem_insertAsc a a l).mpr (Or.inl rfl)
  rw [h] at this; cases this

/-- pools after `get-or-create pool p; pool.add(a, ap)` for an address `a` without delegation -/
theorem pools_add {P : List (Nat × Pool)} {A : Abs} (hP : ∀ q, PoolOK A q (lookup P q)) (a p : Nat) (ap pa : Bool)
    (hR : A.R a = true) (hnone : A.dg a = none) (hpa : A.R p = false → pa = A.ok p) (q : Nat) :
    PoolOK { A with dg := upd A.dg a (some p), ok := upd A.ok a ap } q
      (lookup (store P p ((match lookup P p with | some pl => pl | none => newPool p pa).add a ap)) q) := by
  simp only [lookup_store]
  by_cases hq : q = p
  · subst hq
    simp only [↓reduceIte]
    have hp := hP q
    cases hpl : lookup P q with
    | none =>
      rw [hpl] at hp
      simp only [newPool, Pool.add, List.not_mem_nil, ↓reduceIte]
      refine ⟨insertAsc_ne_nil _ _, insertAsc_sorted a List.Pairwise.nil, fun x => ?_, fun x => ?_⟩
      · simp only [mem_insertAsc, List.not_mem_nil, or_false, upd_apply]
        have := hp x
        grind
      · simp only [upd_apply]
        have := hp x
        cases hRq : A.R q with
        | true => by_cases hx : x = q
                  · exact Or.inl ⟨hx, rfl⟩
                  · right
                    cases ap <;> cases pa <;> simp [mem_setAdd] <;> grind
        | false =>
          have := hpa hRq
          right
          cases ap <;> cases pa <;> simp [mem_setAdd] <;> grind
    | some pl =>
      rw [hpl] at hp
      obtain ⟨h1, h2, h3, h4⟩ := hp
      have hna : a ∉ pl.delegators := by rw [h3, hnone]; simp
      simp only [Pool.add, hna, ↓reduceIte]
      refine ⟨insertAsc_ne_nil _ _, insertAsc_sorted a h2, fun x => ?_, fun x => ?_⟩
      · simp only [mem_insertAsc, upd_apply]
        have := h3 x
        grind
      · simp only [upd_apply]
        have := h4 x
        cases ap <;> simp [mem_setAdd] <;> grind
  · simp only [hq, ↓reduceIte]
    refine PoolOK_congr (A := A) (fun r => r) (fun x => ?_) (fun x => ?_) (hP q)
    · simp only [upd_apply]; grind
    · simp only [upd_apply]; grind

/-- `v.pools[p].setApproved(a, ap)` for a current delegator `a` of `p` (validators.go:310) -/
theorem pools_setApproved {P : List (Nat × Pool)} {A : Abs} (hP : ∀ q, PoolOK A q (lookup P q)) (a p : Nat) (ap : Bool)
    (pl : Pool) (hpl : lookup P p = some pl) (hR : A.R a = true) (hdg : A.dg a = some p) (q : Nat) :
    PoolOK { A with ok := upd A.ok a ap } q (lookup (store P p (pl.setApproved a ap)) q) := by
  simp only [lookup_store]
  by_cases hq : q = p
  · subst hq
    simp only [↓reduceIte]
    have hp := hP q
    rw [hpl] at hp
    obtain ⟨h1, h2, h3, h4⟩ := hp
    refine ⟨h1, h2, h3, fun x => ?_⟩
    simp only [Pool.setApproved, upd_apply]
    have := h4 x
    cases ap <;> simp [mem_setAdd, mem_setRemove] <;> grind
  · simp only [hq, ↓reduceIte]
    refine PoolOK_congr (A := A) (fun r => r) (fun x => Iff.rfl) (fun x => ?_) (hP q)
    simp only [upd_apply]; grind

/-- the owner fix-up `if pool, ok := v.pools[a]; ok { pool.setApproved(a, ok a) }` clears `a` from the stale set -/
theorem Inv.fixOwner {c : Cache} {A : Abs} (h : Inv c A) (a : Nat) (hok : A.ok a = (A.val a && !A.dis a)) :
    Inv (c.fixOwner a (A.ok a)) { A with R := upd A.R a false } := by
  have hokc : ∀ x, upd A.R a false x = false → A.ok x = (A.val x && !A.dis x) := by
    intro x hx
    simp only [upd_apply] at hx
    by_cases e : x = a
    · subst e; exact hok
    · simp only [e, ↓reduceIte] at hx; exact h.okc x hx
  have hother : ∀ q, q ≠ a → PoolOK { A with R := upd A.R a false } q (lookup c.pools q) := by
    intro q hq
    refine PoolOK_congr (A := A) (fun r => ?_) (fun x => Iff.rfl) (fun x => Or.inr fun _ => rfl) (h.pool q)
    simp only [upd_apply, hq, ↓reduceIte]; exact r
  unfold Cache.fixOwner
  have hp := h.pool a
  cases hpl : lookup c.pools a with
  | none =>
    simp only
    refine ⟨h.nv, h.no, h.val, h.onl, h.dis, h.dg, fun q => ?_, hokc, h.np⟩
    by_cases hq : q = a
    · subst hq; rw [hpl] at hp ⊢; exact hp
    · exact hother q hq
  | some pl =>
    simp only
    rw [hpl] at hp
    obtain ⟨h1, h2, h3, h4⟩ := hp
    refine ⟨h.nv, h.no, h.val, h.onl, h.dis, h.dg, fun q => ?_, hokc, h.np⟩
    simp only [lookup_store]
    by_cases hq : q = a
    · subst hq
      simp only [↓reduceIte]
      refine ⟨h1, h2, h3, fun x => ?_⟩
      simp only [Pool.setApproved, upd_apply]
      have := h4 x
      right
      cases hk : A.ok q <;> simp [mem_setAdd, mem_setRemove] <;> grind
    · simp only [hq, ↓reduceIte]; exact hother q hq

/-- the approval recorded for an address without delegation matters only in its own pool, where it is excused by `R` -/
theorem Inv.setOk {c : Cache} {A : Abs} (h : Inv c A) (a : Nat) (b : Bool) (hR : A.R a = true) (hnone : A.dg a = none) :
    Inv c { A with ok := upd A.ok a b } := by
  refine ⟨h.nv, h.no, h.val, h.onl, h.dis, h.dg, fun q => ?_, fun x hx => ?_, h.np⟩
  · refine PoolOK_congr (A := A) (fun r => r) (fun x => Iff.rfl) (fun x => ?_) (h.pool q)
    simp only [upd_apply]; grind
  · have hx' : A.R x = false := hx
    have : x ≠ a := by intro e; subst e; rw [hR] at hx'; cases hx'
    simp only [upd_apply, this, ↓reduceIte]
    exact h.okc x hx'

theorem PoolOK_flags {A : Abs} (v o d : Nat → Bool) {q : Nat} {op : Option Pool} (h : PoolOK A q op) :
    PoolOK { A with val := v, onl := o, dis := d } q op :=
  PoolOK_congr (A := A) (fun r => r) (fun _ => Iff.rfl) (fun _ => Or.inr fun _ => rfl) h

/-! ### flag updates -/

theorem Inv.setOnl {c : Cache} {A : Abs} (h : Inv c A) (a : Nat) (b : Bool) :
    Inv (c.setOnl a b) { A with onl := upd A.onl a b } := by
  unfold Cache.setOnl
  cases b
  · refine ⟨h.nv, nodup_setRemove h.no a, h.val, fun x => ?_, h.dis, h.dg, fun q => PoolOK_flags _ _ _ (h.pool q), h.okc, h.np⟩
    simp only [Bool.false_eq_true, ↓reduceIte, mem_setRemove, upd_apply, h.onl]; grind
  · refine ⟨h.nv, nodup_setAdd h.no a, h.val, fun x => ?_, h.dis, h.dg, fun q => PoolOK_flags _ _ _ (h.pool q), h.okc, h.np⟩
    simp only [↓reduceIte, mem_setAdd, upd_apply, h.onl]; grind

theorem Inv.setVal {c : Cache} {A : Abs} (h : Inv c A) (a : Nat) (b : Bool) (hR : A.R a = true) :
    Inv (c.setVal a b) { A with val := upd A.val a b } := by
  have hokc : ∀ x, A.R x = false → A.ok x = (upd A.val a b x && !A.dis x) := by
    intro x hx
    have : x ≠ a := by intro e; subst e; rw [hR] at hx; cases hx
    simp only [upd_apply, this, ↓reduceIte]; exact h.okc x hx
  unfold Cache.setVal
  cases b
  · refine ⟨nodup_setRemove h.nv a, h.no, fun x => ?_, h.onl, h.dis, h.dg, fun q => PoolOK_flags _ _ _ (h.pool q), hokc, h.np⟩
    simp only [Bool.false_eq_true, ↓reduceIte, mem_setRemove, upd_apply, h.val]; grind
  · refine ⟨nodup_setAdd h.nv a, h.no, fun x => ?_, h.onl, h.dis, h.dg, fun q => PoolOK_flags _ _ _ (h.pool q), hokc, h.np⟩
    simp only [↓reduceIte, mem_setAdd, upd_apply, h.val]; grind

theorem Inv.setDis {c : Cache} {A : Abs} (h : Inv c A) (a : Nat) (b : Bool) (hR : A.R a = true) :
    Inv (c.setDis a b) { A with dis := upd A.dis a b } := by
  have hokc : ∀ x, A.R x = false → A.ok x = (A.val x && !upd A.dis a b x) := by
    intro x hx
    have : x ≠ a := by intro e; subst e; rw [hR] at hx; cases hx
    simp only [upd_apply, this, ↓reduceIte]; exact h.okc x hx
  unfold Cache.setDis
  cases b
  · refine ⟨h.nv, h.no, h.val, h.onl, fun x => ?_, h.dg, fun q => PoolOK_flags _ _ _ (h.pool q), hokc, h.np⟩
    simp only [Bool.false_eq_true, ↓reduceIte, mem_setRemove, upd_apply, h.dis]; grind
  · refine ⟨h.nv, h.no, h.val, h.onl, fun x => ?_, h.dg, fun q => PoolOK_flags _ _ _ (h.pool q), hokc, h.np⟩
    simp only [↓reduceIte, mem_setAdd, upd_apply, h.dis]; grind

/-! ### the registry as a function -/

def rval (S : Reg) (a : Nat) : Bool := match lookup S a with | some e => e.validated | none => false
def ronl (S : Reg) (a : Nat) : Bool := match lookup S a with | some e => e.online | none => false
def rdis (S : Reg) (a : Nat) : Bool := match lookup S a with | some e => e.discr | none => false
def rdg (S : Reg) (a : Nat) : Option Nat := match lookup S a with | some e => e.deleg | none => none
def rok (S : Reg) (a : Nat) : Bool := rval S a && !rdis S a

/-- the content the cache must stand for, given the tree content `S` and the pending `newApprovals` -/
def absOf (S : Reg) (na : List (Nat × Bool)) : Abs :=
  { val := rval S, onl := ronl S, dis := rdis S, ok := rok S, dg := rdg S, R := fun p => (lookup na p).isSome }

@[simp] theorem lookup_regSet (S : Reg) (k : Nat) (v : Entry) (k' : Nat) :
    lookup (regSet S k v) k' = if k' = k then some v else lookup S k' := by
  induction S with
  | nil => simp [regSet, lookup_cons]; grind
  | cons h t ih =>
    obtain ⟨hk, hv⟩ := h
    unfold regSet
    split
    · simp only [lookup_cons]; grind
    · split
      · simp only [lookup_cons]; grind
      · simp only [lookup_cons, ih]; grind

@[simp] theorem lookup_regDel (S : Reg) (k k' : Nat) :
    lookup (regDel S k) k' = if k' = k then none else lookup S k' := lookup_erase S k k'

theorem PoolOK.to {A : Abs} {q : Nat} {o : Option Pool} (h : PoolOK A q o) (B : Abs)
    (hR : A.R q = true → B.R q = true)
    (hdg : ∀ x, A.dg x = some q ↔ B.dg x = some q)
    (hok : ∀ x, (x = q ∧ B.R q = true) ∨ ((x = q ∨ A.dg x = some q) → A.ok x = B.ok x)) : PoolOK B q o :=
  PoolOK_congr hR hdg hok h

/-- the delegation part of an update step, for a value that is validated whenever it carries a delegatee -/
theorem Inv.updDelegation {c : Cache} {A : Abs} (h : Inv c A) (na : List (Nat × Bool)) (a : Nat) (e : Entry)
    (hR : A.R a = true)
    (hna : ∀ p, A.R p = false → lookup na p = none)
    (hsets : ∀ p, A.R p = false → A.ok p = (A.val p && !A.dis p)) :
    Inv (c.updDelegation na a e) { A with dg := upd A.dg a e.deleg, ok := upd A.ok a e.approved } := by
  unfold Cache.updDelegation
  cases hdel : e.deleg with
  | none =>
    simp only
    have h1 := h.removeDelegation a hR
    have h2 := h1.setOk a e.approved hR (by simp)
    exact h2
  | some p =>
    simp only
    by_cases hsame : lookup c.delegations a = some p
    · simp only [hsame, ↓reduceIte]
      have hdg : A.dg a = some p := by rw [← h.dg]; exact hsame
      have hp := h.pool p
      cases hpl : lookup c.pools p with
      | none => rw [hpl] at hp; exact absurd hdg (hp a)
      | some pl =>
        simp only
        refine ⟨h.nv, h.no, h.val, h.onl, h.dis, fun x => ?_, fun q => ?_, fun x hx => ?_, h.np⟩
        · simp only [upd_apply, h.dg]; grind
        · have := pools_setApproved h.pool a p e.approved pl hpl hR hdg q
          refine this.to _ (fun r => r) (fun x => ?_) (fun x => Or.inr fun _ => rfl)
          simp only [upd_apply]; grind
        · have hx' : A.R x = false := hx
          have : x ≠ a := by intro e; subst e; rw [hR] at hx'; cases hx'
          simp only [upd_apply, this, ↓reduceIte]; exact h.okc x hx'
    · simp only [hsame, ↓reduceIte]
      have h1 := h.removeDelegation a hR
      have hP := pools_add (A := { A with dg := upd A.dg a none }) h1.pool a p e.approved
        (match lookup na p with
          | some b => b
          | none => Cache.approvedNow { (c.removeDelegation a) with delegations := store (c.removeDelegation a).delegations a p } p)
        hR (by simp) (by
          intro hRp
          have hRp' : A.R p = false := hRp
          rw [hna p hRp']
          simp only [Cache.approvedNow]
          have hv := h1.val p
          have hd := h1.dis p
          have := hsets p hRp'
          simp only at hv hd
          show _ = A.ok p
          rw [this]
          cases hv' : A.val p <;> cases hd' : A.dis p <;> simp_all)
      refine ⟨h1.nv, h1.no, h1.val, h1.onl, h1.dis, fun x => ?_, fun q => ?_, fun x hx => ?_, ?_⟩
      · simp only [Cache.addToPool, lookup_store, h1.dg, upd_apply]; grind
      · have := hP q
        simp only [Cache.addToPool]
        refine this.to _ (fun r => r) (fun x => ?_) (fun x => Or.inr fun _ => rfl)
        simp only [upd_apply]; grind
      · have hx' : A.R x = false := hx
        have : x ≠ a := by intro e; subst e; rw [hR] at hx'; cases hx'
        simp only [upd_apply, this, ↓reduceIte]; exact h.okc x hx'
      · simp only [Cache.addToPool]; exact h1.np

theorem mem_erase {β : Type} (l : List (Nat × β)) (k : Nat) (pb : Nat × β) : pb ∈ erase l k ↔ pb ∈ l ∧ pb.1 ≠ k := by
  simp [erase, List.mem_filter]

theorem mem_store {β : Type} (l : List (Nat × β)) (k : Nat) (v : β) (pb : Nat × β) :
    pb ∈ store l k v ↔ pb = (k, v) ∨ (pb ∈ l ∧ pb.1 ≠ k) := by
  simp [store, mem_erase]

theorem lookup_isSome_of_mem {β : Type} (l : List (Nat × β)) (pb : Nat × β) (h : pb ∈ l) : (lookup l pb.1).isSome = true := by
  induction l with
  | nil => cases h
  | cons hd t ih =>
    obtain ⟨k, v⟩ := hd
    simp only [lookup_cons]
    split
    · rfl
    · rcases List.mem_cons.mp h with e | m
      · subst e; simp_all
      · exact ih m

theorem mem_of_lookup_isSome {β : Type} (l : List (Nat × β)) (k : Nat) (h : (lookup l k).isSome = true) : ∃ v, (k, v) ∈ l := by
  induction l with
  | nil => simp at h
  | cons hd t ih =>
    obtain ⟨k', v⟩ := hd
    simp only [lookup_cons] at h
    split at h
    · rename_i e; subst e; exact ⟨v, by simp⟩
    · obtain ⟨v', hv⟩ := ih h; exact ⟨v', List.mem_cons_of_mem _ hv⟩

/-- a diff value is well formed when a delegatee is only carried by a validated entry -/
def DiffVal.WF (d : DiffVal) : Prop := d.deleted = false → d.data.deleg ≠ none → d.data.validated = true

theorem updStep_inv {c : Cache} {S : Reg} {na : List (Nat × Bool)} (h : Inv c (absOf S na))
    (hna : ∀ pb ∈ na, pb.2 = rok S pb.1) (d : DiffVal) (hwf : d.WF) :
    Inv (updStep (c, na) d).1 (absOf (applyVal S d) (updStep (c, na) d).2) ∧
    ∀ pb ∈ (updStep (c, na) d).2, pb.2 = rok (applyVal S d) pb.1 := by
  obtain ⟨a, deleted, e⟩ := d
  have h0 := h.weakenR (upd (absOf S na).R a true) (fun x hx => by simp only [upd_apply]; split <;> simp_all)
  have hR : upd (absOf S na).R a true a = true := by simp
  cases deleted with
  | true =>
    constructor
    · simp only [updStep, ↓reduceIte]
      have h1 := (h0.setOnl a false).setVal a false hR
      have h2 := h1.removeDelegation a hR
      have h3 := h2.setDis a false hR
      have h4 := h3.setOk a false hR (by simp)
      refine h4.congr ?_ ?_ ?_ ?_ ?_ ?_ <;> intro x <;>
        simp only [absOf, applyVal, upd_apply, rval, ronl, rdis, rdg, rok, lookup_regDel, lookup_store, ↓reduceIte] <;>
        split <;> simp_all
    · intro pb hpb
      simp only [updStep, ↓reduceIte] at hpb
      rcases (mem_store _ _ _ _).mp hpb with e | ⟨m, ne⟩
      · subst e; simp [applyVal, rok, rval, rdis]
      · have := hna pb m
        simp only [applyVal, ↓reduceIte, rok, rval, rdis, lookup_regDel, ne] at this ⊢
        exact this
  | false =>
    have hv : e.deleg ≠ none → e.validated = true := hwf rfl
    constructor
    · simp only [updStep, Bool.false_eq_true, ↓reduceIte]
      have h1 := h0.updDelegation na a e hR
        (by
          intro p hp
          simp only [upd_apply, absOf] at hp
          split at hp
          · cases hp
          · cases hl : lookup na p <;> simp_all)
        (by
          intro p hp
          rfl)
      have h2 := (h1.setOnl a e.online).setVal a e.validated hR
      have hbr : (!e.validated && e.deleg.isSome) = false := by
        cases hd : e.deleg with
        | none => simp
        | some p => simp [hv (by simp [hd])]
      simp only [hbr, Bool.false_eq_true, ↓reduceIte]
      have h3 := h2.setDis a e.discr hR
      refine h3.congr ?_ ?_ ?_ ?_ ?_ ?_ <;> intro x <;>
        simp only [absOf, applyVal, upd_apply, rval, ronl, rdis, rdg, rok, lookup_regSet, lookup_store,
          Bool.false_eq_true, ↓reduceIte, Entry.approved] <;>
        split <;> simp_all
    · intro pb hpb
      simp only [updStep, Bool.false_eq_true, ↓reduceIte] at hpb
      rcases (mem_store _ _ _ _).mp hpb with e' | ⟨m, ne⟩
      · subst e'; simp [applyVal, rok, rval, rdis, Entry.approved]
      · have := hna pb m
        simp only [applyVal, Bool.false_eq_true, ↓reduceIte, rok, rval, rdis, lookup_regSet, ne] at this ⊢
        exact this

theorem applyApprovals_inv (l : List (Nat × Bool)) {c : Cache} {A : Abs} (h : Inv c A)
    (hR : ∀ x, A.R x = true → ∃ b, (x, b) ∈ l)
    (hl : ∀ pb ∈ l, pb.2 = A.ok pb.1)
    (hok : ∀ x, A.ok x = (A.val x && !A.dis x)) :
    Inv (applyApprovals c l) { A with R := fun _ => false } := by
  induction l generalizing c A with
  | nil =>
    refine h.congr (fun _ => rfl) (fun _ => rfl) (fun _ => rfl) (fun _ => rfl) (fun _ => rfl) (fun x => ?_)
    cases hx : A.R x with
    | false => rfl
    | true => obtain ⟨b, hb⟩ := hR x hx; cases hb
  | cons pb t ih =>
    obtain ⟨p, b⟩ := pb
    have hb : b = A.ok p := hl (p, b) (by simp)
    subst hb
    have h1 := h.fixOwner p (hok p)
    have := ih h1
      (by
        intro x hx
        simp only [upd_apply] at hx
        split at hx
        · cases hx
        · rename_i ne
          obtain ⟨b, hb⟩ := hR x hx
          rcases List.mem_cons.mp hb with e | m
          · cases e; exact absurd rfl ne
          · exact ⟨b, m⟩)
      (fun pb hpb => hl pb (List.mem_cons_of_mem _ hpb))
      hok
    exact this

/-- all values of a diff are well formed -/
def DiffWF (d : Diff) : Prop := ∀ v ∈ d, v.WF

theorem updFold_inv (d : Diff) {c : Cache} {S : Reg} {na : List (Nat × Bool)} (h : Inv c (absOf S na))
    (hna : ∀ pb ∈ na, pb.2 = rok S pb.1) (hwf : DiffWF d) :
    Inv (d.foldl updStep (c, na)).1 (absOf (applyDiff S d) (d.foldl updStep (c, na)).2) ∧
    ∀ pb ∈ (d.foldl updStep (c, na)).2, pb.2 = rok (applyDiff S d) pb.1 := by
  induction d generalizing c S na with
  | nil => exact ⟨h, hna⟩
  | cons v t ih =>
    have hs := updStep_inv h hna v (hwf v (by simp))
    simp only [List.foldl_cons, applyDiff]
    exact ih hs.1 hs.2 (fun w hw => hwf w (List.mem_cons_of_mem _ hw))

/-- **core of `update_eq_load`**: if the cache stands for the tree content `S`, then after
`UpdateFromIdentityStateDiff` with a well-formed diff it stands for `S ⊕ d` -/
theorem updateCore_inv {c : Cache} {S : Reg} (h : Inv c (absOf S [])) (d : Diff) (hwf : DiffWF d) :
    Inv (updateCore c d) (absOf (applyDiff S d) []) := by
  have hf := updFold_inv d h (by intro pb hpb; cases hpb) hwf
  unfold updateCore
  have := applyApprovals_inv (d.foldl updStep (c, [])).2 hf.1
    (by
      intro x hx
      exact mem_of_lookup_isSome _ x hx)
    hf.2 (fun x => rfl)
  exact this

theorem lookup_append_single {β : Type} (pre : List (Nat × β)) (a : Nat) (e : β) (x : Nat) (h : lookup pre a = none) :
    lookup (pre ++ [(a, e)]) x = if x = a then some e else lookup pre x := by
  induction pre with
  | nil => simp [lookup_cons]; grind
  | cons hd t ih =>
    obtain ⟨k, v⟩ := hd
    simp only [lookup_cons] at h
    split at h
    · cases h
    · rename_i ne
      simp only [List.cons_append, lookup_cons, ih h]
      grind

theorem lookup_none_of_lt {β : Type} (pre : List (Nat × β)) (a : Nat) (h : ∀ x ∈ pre, x.1 < a) : lookup pre a = none := by
  induction pre with
  | nil => rfl
  | cons hd t ih =>
    obtain ⟨k, v⟩ := hd
    have hk : k < a := h (k, v) (by simp)
    simp only [lookup_cons]
    rw [if_neg (by omega)]
    exact ih (fun x hx => h x (List.mem_cons_of_mem _ hx))

theorem inv_empty : Inv {} (absOf [] []) := by
  refine ⟨List.nodup_nil, List.nodup_nil, ?_, ?_, ?_, ?_, ?_, ?_, rfl⟩ <;> intro x <;> simp [absOf, rval, ronl, rdis, rdg, rok, PoolOK]

theorem Cache.setOnl_true (c : Cache) (a : Nat) : c.setOnl a true = { c with online := setAdd c.online a } := rfl
theorem Cache.setVal_true (c : Cache) (a : Nat) : c.setVal a true = { c with validated := setAdd c.validated a } := rfl
theorem Cache.setDis_true (c : Cache) (a : Nat) : c.setDis a true = { c with discr := setAdd c.discr a } := rfl

theorem upd_eq_self {β : Type} (f : Nat → β) (a : Nat) (b : β) (h : f a = b) (x : Nat) : upd f a b x = f x := by
  simp only [upd_apply]; split
  · rename_i e; subst e; exact h.symm
  · rfl

theorem Inv.addOnlIf {c : Cache} {A : Abs} (h : Inv c A) (a : Nat) (b : Bool) (hf : A.onl a = false) :
    Inv (if b then { c with online := setAdd c.online a } else c) { A with onl := upd A.onl a b } := by
  cases b with
  | true => exact h.setOnl a true
  | false =>
    exact h.congr (fun _ => rfl) (fun x => (upd_eq_self _ a false hf x).symm) (fun _ => rfl) (fun _ => rfl) (fun _ => rfl) (fun _ => rfl)

theorem Inv.addValIf {c : Cache} {A : Abs} (h : Inv c A) (a : Nat) (b : Bool) (hR : A.R a = true) (hf : A.val a = false) :
    Inv (if b then { c with validated := setAdd c.validated a } else c) { A with val := upd A.val a b } := by
  cases b with
  | true => exact h.setVal a true hR
  | false =>
    exact h.congr (fun x => (upd_eq_self _ a false hf x).symm) (fun _ => rfl) (fun _ => rfl) (fun _ => rfl) (fun _ => rfl) (fun _ => rfl)

theorem Inv.addDisIf {c : Cache} {A : Abs} (h : Inv c A) (a : Nat) (b : Bool) (hR : A.R a = true) (hf : A.dis a = false) :
    Inv (if b then { c with discr := setAdd c.discr a } else c) { A with dis := upd A.dis a b } := by
  cases b with
  | true => exact h.setDis a true hR
  | false =>
    exact h.congr (fun _ => rfl) (fun _ => rfl) (fun x => (upd_eq_self _ a false hf x).symm) (fun _ => rfl) (fun _ => rfl) (fun _ => rfl)

/-- the delegation part of a `loadValidNodes` callback (validators.go:214-224) -/
theorem Inv.loadDelegation {c : Cache} {A : Abs} (h : Inv c A) (a : Nat) (e : Entry)
    (hR : A.R a = true) (hnone : A.dg a = none)
    (hsets : ∀ p, A.R p = false → A.ok p = (A.val p && !A.dis p)) :
    Inv (match e.deleg with
      | some p =>
        let c2 := c.addToPool a p e.approved (c.approvedNow p)
        { c2 with delegations := store c2.delegations a p }
      | none => c)
      { A with dg := upd A.dg a e.deleg, ok := upd A.ok a e.approved } := by
  cases hd : e.deleg with
  | none =>
    have := h.setOk a e.approved hR hnone
    exact this.congr (fun _ => rfl) (fun _ => rfl) (fun _ => rfl) (fun _ => rfl)
      (fun x => (upd_eq_self _ a none hnone x).symm) (fun _ => rfl)
  | some p =>
    simp only
    have hP := pools_add h.pool a p e.approved (c.approvedNow p) hR hnone (by
      intro hRp
      simp only [Cache.approvedNow]
      have hv := h.val p
      have hdd := h.dis p
      rw [hsets p hRp]
      cases hv' : A.val p <;> cases hd' : A.dis p <;> simp_all)
    refine ⟨h.nv, h.no, h.val, h.onl, h.dis, fun x => ?_, fun q => ?_, fun x hx => ?_, ?_⟩
    · simp only [Cache.addToPool, lookup_store, h.dg, upd_apply]
    · simp only [Cache.addToPool]
      exact (hP q).to _ (fun r => r) (fun _ => Iff.rfl) (fun _ => Or.inr fun _ => rfl)
    · have hx' : A.R x = false := hx
      have : x ≠ a := by intro e; subst e; rw [hR] at hx'; cases hx'
      simp only [upd_apply, this, ↓reduceIte]; exact h.okc x hx'
    · simp only [Cache.addToPool]; exact h.np

/-- one callback of `loadValidNodes` for an address not seen before -/
theorem loadStep_inv {c : Cache} {pre : Reg} (h : Inv c (absOf pre [])) (on : List Nat) (a : Nat) (e : Entry)
    (hnew : lookup pre a = none) :
    Inv (loadStep (c, on) (a, e)).1 (absOf (pre ++ [(a, e)]) []) := by
  have h0 := h.weakenR (upd (absOf pre []).R a true) (fun x hx => by simp [absOf] at hx)
  have hR : upd (absOf pre []).R a true a = true := by simp
  have h1 := h0.addOnlIf a e.online (by simp [absOf, ronl, hnew])
  have h2 := h1.loadDelegation a e hR (by simp [absOf, rdg, hnew]) (fun p _ => rfl)
  have h3 := h2.addValIf a e.validated hR (by simp [absOf, rval, hnew])
  have h4 := h3.addDisIf a e.discr hR (by simp [absOf, rdis, hnew])
  have h5 := h4.fixOwner a (by simp [Entry.approved])
  simp only [upd_same] at h5
  simp only [loadStep]
  refine h5.congr ?_ ?_ ?_ ?_ ?_ ?_ <;> intro x <;>
    simp only [absOf, upd_apply, rval, ronl, rdis, rdg, rok, lookup_append_single _ _ _ _ hnew, lookup_nil,
      Entry.approved] <;>
    split <;> simp_all

theorem loadStep_online (st : Cache × List Nat) (ae : Nat × Entry) (h : ∀ x, x ∈ st.2 ↔ x ∈ st.1.online) :
    ∀ x, x ∈ (loadStep st ae).2 ↔ x ∈ (loadStep st ae).1.online := by
  intro x
  have hx := h x
  obtain ⟨c, on⟩ := st
  obtain ⟨a, e⟩ := ae
  simp only [loadStep, Cache.fixOwner, Cache.addToPool]
  cases e.online <;> cases e.validated <;> cases e.discr <;> cases e.deleg <;> cases lookup c.pools a <;>
    simp_all <;> (try split) <;> simp_all <;> grind


theorem loadFold_inv (suf : Reg) {c : Cache} {pre : Reg} {on : List Nat} (h : Inv c (absOf pre []))
    (hs : RegSorted (pre ++ suf)) (hon : ∀ x, x ∈ on ↔ x ∈ c.online) :
    Inv (suf.foldl loadStep (c, on)).1 (absOf (pre ++ suf) []) ∧
    ∀ x, x ∈ (suf.foldl loadStep (c, on)).2 ↔ x ∈ (suf.foldl loadStep (c, on)).1.online := by
  induction suf generalizing c pre on with
  | nil => simpa using ⟨h, hon⟩
  | cons ae t ih =>
    obtain ⟨a, e⟩ := ae
    have hnew : lookup pre a = none := by
      apply lookup_none_of_lt
      intro x hx
      have := (List.pairwise_append.mp hs).2.2 x hx (a, e) (by simp)
      exact this
    have h1 := loadStep_inv h on a e hnew
    have h2 := loadStep_online (c, on) (a, e) hon
    simp only [List.foldl_cons]
    have := ih (c := (loadStep (c, on) (a, e)).1) (on := (loadStep (c, on) (a, e)).2) h1
      (by simpa using hs) h2
    simpa using this

/-- **`loadValidNodes` builds a cache that stands for the tree content** (any content, well formed or not) -/
theorem loadCore_inv {S : Reg} (hs : RegSorted S) :
    Inv (loadCore S).1 (absOf S []) ∧ ∀ x, x ∈ (loadCore S).2 ↔ x ∈ (loadCore S).1.online := by
  have := loadFold_inv S (pre := []) (on := []) inv_empty (by simpa using hs) (by simp)
  simpa [loadCore] using this

/-! ### `sortedValidators` -/

theorem mem_foldl_insertDesc (l acc : List Nat) (x : Nat) :
    x ∈ l.foldl (fun acc d => insertDesc d acc) acc ↔ x ∈ l ∨ x ∈ acc := by
  induction l generalizing acc with
  | nil => simp
  | cons d t ih => simp only [List.foldl_cons, ih, mem_insertDesc, List.mem_cons]; grind

theorem sorted_foldl_insertDesc (l : List Nat) {acc : List Nat} (h : acc.Pairwise (· > ·)) :
    (l.foldl (fun acc d => insertDesc d acc) acc).Pairwise (· > ·) := by
  induction l generalizing acc with
  | nil => exact h
  | cons d t ih => exact ih (insertDesc_sorted d h)

def sortedStep (c : Cache) (acc : List Nat) (n : Nat) : List Nat :=
  let acc := if n ∈ c.validated then insertDesc n acc else acc
  match lookup c.pools n with
  | some pl => pl.delegators.foldl (fun acc d => insertDesc d acc) acc
  | none => acc

theorem rebuildSorted_eq (c : Cache) (enum : List Nat) : rebuildSorted c enum = enum.foldl (sortedStep c) [] := rfl

theorem mem_sortedStep (c : Cache) (acc : List Nat) (n x : Nat) :
    x ∈ sortedStep c acc n ↔ x ∈ acc ∨ (x = n ∧ n ∈ c.validated) ∨ (∃ pl, lookup c.pools n = some pl ∧ x ∈ pl.delegators) := by
  unfold sortedStep
  cases lookup c.pools n with
  | none => by_cases hv : n ∈ c.validated <;> simp [hv] <;> grind
  | some pl => by_cases hv : n ∈ c.validated <;> simp [hv, mem_foldl_insertDesc] <;> grind

theorem sorted_sortedStep (c : Cache) {acc : List Nat} (n : Nat) (h : acc.Pairwise (· > ·)) :
    (sortedStep c acc n).Pairwise (· > ·) := by
  unfold sortedStep
  have h' : (if n ∈ c.validated then insertDesc n acc else acc).Pairwise (· > ·) := by
    split
    · exact insertDesc_sorted n h
    · exact h
  cases lookup c.pools n with
  | none => exact h'
  | some pl => exact sorted_foldl_insertDesc _ h'

theorem mem_foldl_sortedStep (c : Cache) (enum acc : List Nat) (x : Nat) :
    x ∈ enum.foldl (sortedStep c) acc ↔ x ∈ acc ∨ ∃ n ∈ enum, (x = n ∧ n ∈ c.validated) ∨
      (∃ pl, lookup c.pools n = some pl ∧ x ∈ pl.delegators) := by
  induction enum generalizing acc with
  | nil => simp
  | cons n t ih =>
    simp only [List.foldl_cons, ih, mem_sortedStep, List.mem_cons, exists_eq_or_imp]
    grind

theorem sorted_foldl_sortedStep (c : Cache) (enum : List Nat) {acc : List Nat} (h : acc.Pairwise (· > ·)) :
    (enum.foldl (sortedStep c) acc).Pairwise (· > ·) := by
  induction enum generalizing acc with
  | nil => exact h
  | cons n t ih => exact ih (sorted_sortedStep c n h)

theorem rebuildSorted_sorted (c : Cache) (enum : List Nat) : (rebuildSorted c enum).Pairwise (· > ·) := by
  rw [rebuildSorted_eq]; exact sorted_foldl_sortedStep c enum List.Pairwise.nil

/-- the members of the rebuilt `sortedValidators` in terms of what the cache stands for -/
def sortedSpec (A : Abs) (x : Nat) : Prop :=
  ∃ n, A.onl n = true ∧ ((x = n ∧ A.val n = true) ∨ A.dg x = some n)

theorem mem_rebuildSorted {c : Cache} {A : Abs} (h : Inv c A) (enum : List Nat) (he : ∀ x, x ∈ enum ↔ x ∈ c.online) (x : Nat) :
    x ∈ rebuildSorted c enum ↔ sortedSpec A x := by
  rw [rebuildSorted_eq, mem_foldl_sortedStep]
  simp only [List.not_mem_nil, false_or, sortedSpec]
  constructor
  · rintro ⟨n, hn, hx⟩
    refine ⟨n, (h.onl n).mp ((he n).mp hn), ?_⟩
    rcases hx with ⟨e, hv⟩ | ⟨pl, hpl, hm⟩
    · exact Or.inl ⟨e, (h.val n).mp hv⟩
    · have hp := h.pool n
      rw [hpl] at hp
      exact Or.inr ((hp.2.2.1 x).mp hm)
  · rintro ⟨n, hon, hx⟩
    refine ⟨n, (he n).mpr ((h.onl n).mpr hon), ?_⟩
    rcases hx with ⟨e, hv⟩ | hd
    · exact Or.inl ⟨e, (h.val n).mpr hv⟩
    · right
      have hp := h.pool n
      cases hpl : lookup c.pools n with
      | none => rw [hpl] at hp; exact absurd hd (hp x)
      | some pl => rw [hpl] at hp; exact ⟨pl, rfl, (hp.2.2.1 x).mpr hd⟩

/-- **the rebuilt list does not depend on the order in which the online set is enumerated** (Go: `ToSlice()` of a
hash set in `UpdateFromIdentityStateDiff`, tree order in `loadValidNodes`) -/
theorem rebuildSorted_perm (c : Cache) {l₁ l₂ : List Nat} (h : ∀ x, x ∈ l₁ ↔ x ∈ l₂) :
    rebuildSorted c l₁ = rebuildSorted c l₂ := by
  apply sorted_ext_gt (rebuildSorted_sorted c l₁) (rebuildSorted_sorted c l₂)
  intro x
  rw [rebuildSorted_eq, rebuildSorted_eq, mem_foldl_sortedStep, mem_foldl_sortedStep]
  simp only [h]

/-- two pools are indistinguishable for every getter -/
def PoolEq : Option Pool → Option Pool → Prop
  | none, none => True
  | some a, some b => a.delegators = b.delegators ∧ a.discriminated = b.discriminated
  | _, _ => False

theorem isEmpty_eq_of_mem_iff {l₁ l₂ : List Nat} (h : ∀ x, x ∈ l₁ ↔ x ∈ l₂) : l₁.isEmpty = l₂.isEmpty := by
  cases l₁ with
  | nil =>
    cases l₂ with
    | nil => rfl
    | cons b t => exact absurd ((h b).mpr (by simp)) (by simp)
  | cons a t =>
    cases l₂ with
    | nil => exact absurd ((h a).mp (by simp)) (by simp)
    | cons b t' => rfl

theorem poolEq_of_ok {A : Abs} {p : Nat} {o₁ o₂ : Option Pool} (h₁ : PoolOK A p o₁) (h₂ : PoolOK A p o₂)
    (hR : A.R p = false) : PoolEq o₁ o₂ := by
  cases o₁ with
  | none =>
    cases o₂ with
    | none => trivial
    | some b =>
      obtain ⟨b1, _, b3, _⟩ := h₂
      cases hb : b.delegators with
      | nil => exact absurd hb b1
      | cons x t => exact absurd ((b3 x).mp (by simp [hb])) (h₁ x)
  | some a =>
    cases o₂ with
    | none =>
      obtain ⟨a1, _, a3, _⟩ := h₁
      cases ha : a.delegators with
      | nil => exact absurd ha a1
      | cons x t => exact absurd ((a3 x).mp (by simp [ha])) (h₂ x)
    | some b =>
      obtain ⟨_, a2, a3, a4⟩ := h₁
      obtain ⟨_, b2, b3, b4⟩ := h₂
      refine ⟨sorted_ext_lt a2 b2 (fun x => (a3 x).trans (b3 x).symm), ?_⟩
      unfold Pool.discriminated
      apply isEmpty_eq_of_mem_iff
      intro x
      have := a4 x; have := b4 x
      grind

/-- everything a caller can observe of a `ValidatorsCache` -/
structure Obs where
  networkSize : Nat
  onlineSize : Nat
  validatorsSize : Nat
  forkCommitteeSize : Nat
  isValidated : Nat → Bool
  isOnlineIdentity : Nat → Bool
  isDiscriminated : Nat → Bool
  isPool : Nat → Bool
  poolSize : Nat → Nat
  poolSizeExcept : Nat → List Nat → Int
  delegator : Nat → Option Nat
  findSubIdentity : Nat → Nat → Option (Nat × Nat)
  sortedValidators : List Nat
  /-- `GetOnlineValidators` for every god address, every permutation (any index list) and every limit -/
  committee : Nat → List Nat → Nat → Committee
  panicked : Bool

def observe (c : Cache) : Obs :=
  { networkSize := c.networkSize, onlineSize := c.onlineSize, validatorsSize := c.validatorsSize,
    forkCommitteeSize := c.forkCommitteeSize, isValidated := c.isValidated, isOnlineIdentity := c.isOnlineIdentity,
    isDiscriminated := c.isDiscriminated, isPool := c.isPool, poolSize := c.poolSize,
    poolSizeExcept := c.poolSizeExcept, delegator := c.delegator, findSubIdentity := c.findSubIdentity,
    sortedValidators := c.sorted, committee := c.getOnlineValidators, panicked := c.panicked }

/-- the data two caches must share to be observationally equal -/
structure CacheEq (c₁ c₂ : Cache) : Prop where
  nv : c₁.validated.length = c₂.validated.length
  no : c₁.online.Perm c₂.online
  val : ∀ a, a ∈ c₁.validated ↔ a ∈ c₂.validated
  dis : ∀ a, a ∈ c₁.discr ↔ a ∈ c₂.discr
  dg : ∀ a, lookup c₁.delegations a = lookup c₂.delegations a
  pool : ∀ p, PoolEq (lookup c₁.pools p) (lookup c₂.pools p)
  sorted : c₁.sorted = c₂.sorted
  pan : c₁.panicked = c₂.panicked

theorem decide_mem_congr {l₁ l₂ : List Nat} {a : Nat} (h : a ∈ l₁ ↔ a ∈ l₂) : decide (a ∈ l₁) = decide (a ∈ l₂) := by
  by_cases h1 : a ∈ l₁
  · simp [h1, h.mp h1]
  · have : a ∉ l₂ := fun h2 => h1 (h.mpr h2)
    simp [h1, this]

theorem observe_eq {c₁ c₂ : Cache} (h : CacheEq c₁ c₂) : observe c₁ = observe c₂ := by
  have hpool := h.pool
  have hdis : ∀ a, Cache.isDiscriminated c₁ a = Cache.isDiscriminated c₂ a := by
    intro a
    have := hpool a
    unfold Cache.isDiscriminated
    cases h1 : lookup c₁.pools a <;> cases h2 : lookup c₂.pools a <;> simp only [h1, h2, PoolEq] at this ⊢
    · exact decide_mem_congr (h.dis a)
    · exact this.2
  have hdet : ∀ set, c₁.determineValidators set = c₂.determineValidators set := by
    intro set
    unfold Cache.determineValidators
    congr 1
    · congr 1; apply List.map_congr_left; intro a _; rw [h.dg a]
    · congr 2; funext a
      rw [h.dg a]
      cases hd : lookup c₂.delegations a with
      | none =>
        simp only
        by_cases m : a ∈ c₁.discr
        · simp [m, (h.dis a).mp m]
        · have : a ∉ c₂.discr := fun m2 => m ((h.dis a).mpr m2)
          simp [m, this]
      | some p =>
        simp only
        have := hpool p
        cases h1 : lookup c₁.pools p <;> cases h2 : lookup c₂.pools p <;> simp [h1, h2, PoolEq] at this ⊢
        rw [this.2]
  unfold observe
  congr 1
  · exact h.nv
  · exact h.no.length_eq
  · simp [Cache.validatorsSize, h.sorted]
  · unfold Cache.forkCommitteeSize
    rw [h.no.countP_eq]
    apply List.countP_congr
    intro a _
    have h3 := hdis a
    have h4 := hpool a
    unfold Cache.isDiscriminated at h3
    cases h1 : lookup c₁.pools a <;> cases h2 : lookup c₂.pools a <;> simp_all [PoolEq]
  · funext a; exact decide_mem_congr (h.val a)
  · funext a; exact decide_mem_congr (h.no.mem_iff)
  · funext a; exact hdis a
  · funext a
    have := hpool a
    unfold Cache.isPool
    cases h1 : lookup c₁.pools a <;> cases h2 : lookup c₂.pools a <;> simp [h1, h2, PoolEq] at this ⊢
  · funext a
    have := hpool a
    unfold Cache.poolSize
    cases h1 : lookup c₁.pools a <;> cases h2 : lookup c₂.pools a <;> simp [h1, h2, PoolEq] at this ⊢
    rw [this.1]; congr 1
    by_cases m : a ∈ c₁.validated
    · simp [m, (h.val a).mp m]
    · have : a ∉ c₂.validated := fun m2 => m ((h.val a).mpr m2)
      simp [m, this]
  · funext a ex
    have := hpool a
    unfold Cache.poolSizeExcept
    cases h1 : lookup c₁.pools a <;> cases h2 : lookup c₂.pools a <;> simp [h1, h2, PoolEq] at this ⊢
    rw [this.1]; congr 2
    by_cases m : a ∈ c₁.validated
    · simp [m, (h.val a).mp m]
    · have : a ∉ c₂.validated := fun m2 => m ((h.val a).mpr m2)
      simp [m, this]
  · funext a; exact h.dg a
  · funext p n
    have := hpool p
    unfold Cache.findSubIdentity
    cases h1 : lookup c₁.pools p <;> cases h2 : lookup c₂.pools p <;> simp [h1, h2, PoolEq] at this ⊢
    rw [this.1]
    by_cases m : p ∈ c₁.validated
    · simp [m, (h.val p).mp m]
    · have : p ∉ c₂.validated := fun m2 => m ((h.val p).mpr m2)
      simp [m, this]
  · exact h.sorted
  · funext god perm limit
    unfold Cache.getOnlineValidators Cache.onlineSize
    rw [h.no.length_eq, h.sorted]
    simp only [hdet]
  · exact h.pan

theorem Inv.withSorted {c : Cache} {A : Abs} (h : Inv c A) (l : List Nat) : Inv { c with sorted := l } A :=
  ⟨h.nv, h.no, h.val, h.onl, h.dis, h.dg, h.pool, h.okc, h.np⟩

/-- two caches that stand for the same content (no stale owner entries) and whose `sortedValidators` were rebuilt from
any enumerations of their online sets are observationally equal -/
theorem cacheEq_of_inv {c₁ c₂ : Cache} {A : Abs} (h₁ : Inv c₁ A) (h₂ : Inv c₂ A) (hR : ∀ x, A.R x = false)
    (e₁ e₂ : List Nat) (he₁ : ∀ x, x ∈ e₁ ↔ x ∈ c₁.online) (he₂ : ∀ x, x ∈ e₂ ↔ x ∈ c₂.online) :
    CacheEq { c₁ with sorted := rebuildSorted c₁ e₁ } { c₂ with sorted := rebuildSorted c₂ e₂ } := by
  have hv : ∀ a, a ∈ c₁.validated ↔ a ∈ c₂.validated := fun a => (h₁.val a).trans (h₂.val a).symm
  have ho : ∀ a, a ∈ c₁.online ↔ a ∈ c₂.online := fun a => (h₁.onl a).trans (h₂.onl a).symm
  refine ⟨length_eq_of_mem_iff h₁.nv h₂.nv hv, (List.perm_ext_iff_of_nodup h₁.no h₂.no).mpr ho, hv,
    fun a => (h₁.dis a).trans (h₂.dis a).symm, fun a => (h₁.dg a).trans (h₂.dg a).symm,
    fun p => poolEq_of_ok (h₁.pool p) (h₂.pool p) (hR p), ?_, h₁.np.trans h₂.np.symm⟩
  apply sorted_ext_gt (rebuildSorted_sorted c₁ e₁) (rebuildSorted_sorted c₂ e₂)
  intro x
  rw [mem_rebuildSorted h₁ e₁ he₁, mem_rebuildSorted h₂ e₂ he₂]

theorem regSet_sorted {S : Reg} (h : RegSorted S) (k : Nat) (v : Entry) : RegSorted (regSet S k v) := by
  induction S with
  | nil => simp [regSet, RegSorted]
  | cons hd t ih =>
    obtain ⟨k', v'⟩ := hd
    have hc := List.pairwise_cons.mp h
    unfold regSet
    split
    · rename_i hlt
      refine List.pairwise_cons.mpr ⟨?_, h⟩
      intro x hx
      rcases List.mem_cons.mp hx with e | m
      · subst e; exact hlt
      · exact Nat.lt_trans hlt (hc.1 x m)
    · split
      · rename_i _ heq; subst heq
        exact List.pairwise_cons.mpr ⟨hc.1, hc.2⟩
      · rename_i h1 h2
        refine List.pairwise_cons.mpr ⟨?_, ih hc.2⟩
        intro x hx
        have : x = (k, v) ∨ x ∈ t := by
          clear ih h hc
          induction t with
          | nil => simp [regSet] at hx; exact Or.inl hx
          | cons hd' t' ih' =>
            obtain ⟨k2, v2⟩ := hd'
            unfold regSet at hx
            split at hx
            · rcases List.mem_cons.mp hx with e | m
              · exact Or.inl e
              · exact Or.inr m
            · split at hx
              · rcases List.mem_cons.mp hx with e | m
                · exact Or.inl e
                · exact Or.inr (List.mem_cons_of_mem _ m)
              · rcases List.mem_cons.mp hx with e | m
                · exact Or.inr (by rw [e]; simp)
                · rcases ih' m with e | m'
                  · exact Or.inl e
                  · exact Or.inr (List.mem_cons_of_mem _ m')
        rcases this with e | m
        · subst e; show k' < k; omega
        · exact hc.1 x m

theorem regDel_sorted {S : Reg} (h : RegSorted S) (k : Nat) : RegSorted (regDel S k) :=
  List.Pairwise.filter _ h

theorem applyDiff_sorted {S : Reg} (h : RegSorted S) (d : Diff) : RegSorted (applyDiff S d) := by
  induction d generalizing S with
  | nil => exact h
  | cons v t ih =>
    simp only [applyDiff, List.foldl_cons]
    apply ih
    unfold applyVal
    split
    · exact regDel_sorted h _
    · exact regSet_sorted h _ _

/-- `load S` stands for `S` -/
theorem load_inv {S : Reg} (hs : RegSorted S) : Inv (load S) (absOf S []) :=
  (loadCore_inv hs).1.withSorted _

theorem update_inv {c : Cache} {S : Reg} (h : Inv c (absOf S [])) (d : Diff) (hwf : DiffWF d) :
    Inv (update c d) (absOf (applyDiff S d) []) :=
  (updateCore_inv h d hwf).withSorted _

/-- incremental maintenance from a cache that stands for `S` is observationally equal to a rebuild from `S ⊕ d` -/
theorem update_obs_eq_load {c : Cache} {S : Reg} (hs : RegSorted S) (h : Inv c (absOf S [])) (d : Diff) (hwf : DiffWF d) :
    observe (update c d) = observe (load (applyDiff S d)) := by
  apply observe_eq
  have h₁ := updateCore_inv h d hwf
  have h₂ := loadCore_inv (applyDiff_sorted hs d)
  exact cacheEq_of_inv h₁ h₂.1 (fun _ => rfl) _ _ (fun _ => Iff.rfl) h₂.2

/-! ### the registry writes of block application keep the registry well formed -/

/-- per-entry invariant: an entry that carries a delegatee is offline -/
def EntryJ (e : Entry) : Prop := e.deleg ≠ none → e.online = false

/-- the stored registry: delegators are offline, and no empty entry is stored -/
def WFReg2 (S : Reg) : Prop := ∀ a e, lookup S a = some e → EntryJ e ∧ e.isEmpty = false

/-- live objects are dirty (every live object of the model was created by a write) -/
def LiveOK (s : IdState) : Prop := ∀ a, a ∉ s.dirty → lookup s.live a = none

theorem current_write (s : IdState) (a : Nat) (f : Entry → Entry) (x : Nat) :
    (s.write a f).current x = if x = a then f (s.current a) else s.current x := by
  by_cases hx : x = a
  · subst hx; simp [IdState.write, IdState.current, lookup_store]
  · simp [IdState.write, IdState.current, lookup_store, hx]

theorem LiveOK.write {s : IdState} (h : LiveOK s) (a : Nat) (f : Entry → Entry) : LiveOK (s.write a f) := by
  intro x hx
  simp only [IdState.write, mem_setAdd, not_or] at hx
  simp only [IdState.write, lookup_store, hx.1, ↓reduceIte]
  exact h x hx.2

theorem LiveOK.applyEv {s : IdState} (h : LiveOK s) (e : Ev) : LiveOK (s.applyEv e) := by
  cases e with
  | kill a => exact (h.write a _).write a _
  | statusSwitch a isPool =>
    simp only [IdState.applyEv]
    split
    · exact h.write a _
    · split
      · exact h.write a _
      · exact h
  | offline a => exact h.write a _
  | delegate a p discr => exact ((h.write a _).write a _).write a _
  | undelegate a discr pen =>
    simp only [IdState.applyEv]
    split
    · exact ((h.write a _).write a _).write a _
    · exact (h.write a _).write a _
  | discriminate a b => exact h.write a _
  | epochValidated a ld =>
    simp only [IdState.applyEv]
    split
    · exact (h.write a _).write a _
    · exact h.write a _
  | epochNotValidated a isPool =>
    simp only [IdState.applyEv]
    split
    · exact h.write a _
    · exact (h.write a _).write a _

theorem j_applyEv {s : IdState} (hj : ∀ a, EntryJ (s.current a)) (e : Ev) (hg : e.guard s) :
    ∀ x, EntryJ ((s.applyEv e).current x) := by
  intro x
  have hx := hj x
  cases e with
  | kill a =>
    simp only [IdState.applyEv, IdState.remove, IdState.setValidated, IdState.setOnline, current_write]
    split <;> simp_all [EntryJ]
  | statusSwitch a isPool =>
    have hd : (s.current a).deleg = none := hg
    simp only [IdState.applyEv, IdState.setOnline]
    split
    · rw [current_write]; split <;> simp_all [EntryJ]
    · split
      · rw [current_write]; split <;> simp_all [EntryJ]
      · exact hx
  | offline a =>
    simp only [IdState.applyEv, IdState.setOnline, current_write]
    split <;> simp_all [EntryJ]
  | delegate a p discr =>
    simp only [IdState.applyEv, IdState.setDelegatee, IdState.setDiscriminated, IdState.setOnline, current_write]
    split <;> simp_all [EntryJ]
  | undelegate a discr pen =>
    simp only [IdState.applyEv, IdState.removeDelegatee, IdState.setDiscriminated, IdState.setOnline]
    split <;> simp only [current_write] <;> split <;> simp_all [EntryJ]
  | discriminate a b =>
    simp only [IdState.applyEv, IdState.setDiscriminated, current_write]
    split
    · rename_i e; subst e; simpa [EntryJ] using hx
    · exact hx
  | epochValidated a ld =>
    simp only [IdState.applyEv, IdState.setValidated, IdState.setDelegatee]
    cases ld with
    | none =>
      simp only [current_write]
      split
      · rename_i e; subst e; simpa [EntryJ] using hx
      · exact hx
    | some p =>
      have hoff : (s.current a).online = false := hg (by simp)
      simp only [current_write]
      split <;> simp_all [EntryJ]
  | epochNotValidated a isPool =>
    simp only [IdState.applyEv, IdState.setValidated, IdState.setOnline]
    split <;> simp only [current_write] <;> split <;> simp_all [EntryJ]

/-- the guards hold for every event of a block, each evaluated in the state it is applied to -/
def GuardsHold : IdState → List Ev → Prop
  | _, [] => True
  | s, e :: t => e.guard s ∧ GuardsHold (s.applyEv e) t

theorem j_applyEvs {s : IdState} (evs : List Ev) (hj : ∀ a, EntryJ (s.current a)) (hl : LiveOK s) (hg : GuardsHold s evs) :
    (∀ x, EntryJ ((evs.foldl IdState.applyEv s).current x)) ∧ LiveOK (evs.foldl IdState.applyEv s) := by
  induction evs generalizing s with
  | nil => exact ⟨hj, hl⟩
  | cons e t ih => exact ih (j_applyEv hj e hg.1) (hl.applyEv e) hg.2


/-- the addresses of a diff are pairwise distinct (`Precommit` walks the keys of a Go map, identity_statedb.go:186) -/
def DiffNodup (d : Diff) : Prop := (d.map (·.addr)).Nodup

theorem lookup_applyDiff_of_not_mem (d : Diff) (S : Reg) (a : Nat) (h : a ∉ d.map (·.addr)) :
    lookup (applyDiff S d) a = lookup S a := by
  induction d generalizing S with
  | nil => rfl
  | cons v t ih =>
    simp only [List.map_cons, List.mem_cons, not_or] at h
    simp only [applyDiff, List.foldl_cons]
    have := ih (applyVal S v) h.2
    simp only [applyDiff] at this
    rw [this]
    unfold applyVal
    split
    · simp [lookup_regDel, h.1]
    · simp [lookup_regSet, h.1]

theorem lookup_applyDiff_of_mem (d : Diff) (hd : DiffNodup d) (S : Reg) (v : DiffVal) (hv : v ∈ d) :
    lookup (applyDiff S d) v.addr = if v.deleted then none else some v.data := by
  induction d generalizing S with
  | nil => cases hv
  | cons w t ih =>
    have hn := List.nodup_cons.mp hd
    simp only [applyDiff, List.foldl_cons]
    rcases List.mem_cons.mp hv with e | m
    · subst e
      have := lookup_applyDiff_of_not_mem t (applyVal S v) v.addr hn.1
      simp only [applyDiff] at this
      rw [this]
      unfold applyVal
      split <;> simp_all
    · exact ih hn.2 (applyVal S w) m

theorem mem_orderedKeys (dirty : List Nat) (x : Nat) : x ∈ orderedKeys dirty ↔ x ∈ dirty := by
  simp [orderedKeys, mem_foldl_insertDesc]

theorem orderedKeys_sorted (dirty : List Nat) : (orderedKeys dirty).Pairwise (· > ·) :=
  sorted_foldl_insertDesc dirty List.Pairwise.nil

theorem nodup_of_sorted_gt {l : List Nat} (h : l.Pairwise (· > ·)) : l.Nodup :=
  h.imp (fun hab => by omega)

theorem precommitVal_of_empty {s : IdState} {a : Nat} (h : (s.current a).isEmpty = true) :
    precommitVal s a = { addr := a, deleted := true, data := Entry.zero } := by
  simp [precommitVal, h]

theorem precommitVal_of_nonempty {s : IdState} {a : Nat} (h : (s.current a).isEmpty = false) :
    precommitVal s a = { addr := a, deleted := false, data := s.current a } := by
  simp [precommitVal, h]

@[simp] theorem precommitVal_addr (s : IdState) (a : Nat) : (precommitVal s a).addr = a := by
  cases h : (s.current a).isEmpty
  · rw [precommitVal_of_nonempty h]
  · rw [precommitVal_of_empty h]

theorem precommitDiff_addrs (s : IdState) : s.precommitDiff.map (·.addr) = orderedKeys s.dirty := by
  simp [IdState.precommitDiff, List.map_map, Function.comp_def]

/-- **`Precommit` emits the dirty addresses in descending order, each once** (identity_statedb.go:186, statedb.go:1457) -/
theorem precommitDiff_nodup (s : IdState) : DiffNodup s.precommitDiff := by
  unfold DiffNodup; rw [precommitDiff_addrs]; exact nodup_of_sorted_gt (orderedKeys_sorted _)

theorem precommitDiff_descending (s : IdState) : (s.precommitDiff.map (·.addr)).Pairwise (· > ·) := by
  rw [precommitDiff_addrs]; exact orderedKeys_sorted _

/-- the tree after `Commit(true)` -/
theorem lookup_commit (s : IdState) (a : Nat) :
    lookup s.commit.1.tree a =
      if a ∈ s.dirty then (if (s.current a).isEmpty then none else some (s.current a)) else lookup s.tree a := by
  simp only [IdState.commit]
  by_cases ha : a ∈ s.dirty
  · simp only [ha, ↓reduceIte]
    have hm : precommitVal s a ∈ s.precommitDiff := by
      simp only [IdState.precommitDiff, List.mem_map]
      exact ⟨a, (mem_orderedKeys _ _).mpr ha, rfl⟩
    have := lookup_applyDiff_of_mem _ (precommitDiff_nodup s) s.tree _ hm
    rw [precommitVal_addr] at this
    rw [this]
    cases h : (s.current a).isEmpty
    · rw [precommitVal_of_nonempty h]
    · rw [precommitVal_of_empty h]; simp
  · simp only [ha, ↓reduceIte]
    apply lookup_applyDiff_of_not_mem
    rw [precommitDiff_addrs, mem_orderedKeys]; exact ha

theorem entry_validated_of_j {e : Entry} (hj : EntryJ e) (hne : e.isEmpty = false) (hd : e.deleg ≠ none) :
    e.validated = true := by
  have := hj hd
  simp only [Entry.isEmpty, this] at hne
  cases hv : e.validated <;> simp_all

/-- `Commit(true)` of a state whose entries keep delegators offline: the stored registry stays well formed and the
emitted diff is well formed -/
theorem commit_wf {s : IdState} (hj : ∀ a, EntryJ (s.current a)) (ht : WFReg2 s.tree) :
    WFReg2 s.commit.1.tree ∧ DiffWF s.commit.2 := by
  constructor
  · intro a e h
    rw [lookup_commit] at h
    split at h
    · split at h
      · cases h
      · rename_i hne; cases h; exact ⟨hj a, by simpa using hne⟩
    · exact ht a e h
  · intro v hv hdel hdg
    simp only [IdState.commit, IdState.precommitDiff, List.mem_map] at hv
    obtain ⟨a, _, rfl⟩ := hv
    cases h : (s.current a).isEmpty
    · rw [precommitVal_of_nonempty h] at hdg ⊢
      exact entry_validated_of_j (hj a) h hdg
    · rw [precommitVal_of_empty h] at hdel; cases hdel

theorem current_fresh {s : IdState} (hl : s.live = []) (a : Nat) :
    s.current a = match lookup s.tree a with | some e => e | none => Entry.zero := by
  simp only [IdState.current, hl, lookup_nil]; rfl

theorem j_of_wfReg2 {s : IdState} (hl : s.live = []) (ht : WFReg2 s.tree) : ∀ a, EntryJ (s.current a) := by
  intro a
  rw [current_fresh hl]
  cases h : lookup s.tree a with
  | none => simp [EntryJ, Entry.zero]
  | some e => exact (ht a e h).1

/-- **`wf_preserved`**: one block of registry writes (any events whose guards hold, in any order and number) followed
by `Commit(true)` keeps the stored registry well formed and emits a well-formed diff. -/
theorem wf_preserved_block {s : IdState} (hl : s.live = []) (_hd : s.dirty = []) (ht : WFReg2 s.tree)
    (evs : List Ev) (hg : GuardsHold s evs) :
    WFReg2 (s.applyBlock evs).1.tree ∧ DiffWF (s.applyBlock evs).2 ∧
    (s.applyBlock evs).1.live = [] ∧ (s.applyBlock evs).1.dirty = [] ∧
    (s.applyBlock evs).1.tree = applyDiff s.tree (s.applyBlock evs).2 := by
  have hlive : LiveOK s := by intro a _; simp [hl]
  have h := j_applyEvs evs (j_of_wfReg2 hl ht) hlive hg
  have htree : (evs.foldl IdState.applyEv s).tree = s.tree := by
    clear hg h hlive ht hl _hd
    induction evs generalizing s with
    | nil => rfl
    | cons e t ih =>
      simp only [List.foldl_cons]
      rw [ih]
      cases e <;> simp only [IdState.applyEv, IdState.remove, IdState.setValidated, IdState.setOnline,
        IdState.setDelegatee, IdState.removeDelegatee, IdState.setDiscriminated, IdState.write] <;>
        (repeat' split) <;> rfl
  have hc := commit_wf h.1 (by rw [htree]; exact ht)
  refine ⟨hc.1, hc.2, rfl, rfl, ?_⟩
  simp only [IdState.applyBlock, IdState.commit, htree]

end IdenaModel.Registry
