import IdenaModel.Model.CodecTable
/-! Conversion round trips (`conv_roundtrip` of DESIGN 5/C18) and the table lemmas. -/
namespace IdenaModel.Codec
open IdenaModel.ProtoWire

/-! ## big-endian magnitude -/

theorem beNat_append (a : Bytes) (x : Nat) : beNat (a ++ [x]) = beNat a * 256 + x := by
  simp [beNat, List.foldl_append]

theorem beNat_beBytes (n : Nat) : beNat (beBytes n) = n := by
  fun_induction beBytes n with
  | case1 => rfl
  | case2 n h ih => rw [beNat_append, ih]; omega

theorem beBytes_injective {a b : Nat} (h : beBytes a = beBytes b) : a = b := by
  have := congrArg beNat h
  simpa [beNat_beBytes] using this

theorem beBytes_eq_nil {n : Nat} : beBytes n = [] ↔ n = 0 := by
  constructor
  · intro h
    have := congrArg beNat h
    rw [beNat_beBytes] at this
    simpa [beNat] using this
  · rintro rfl; rw [beBytes]; simp

theorem beBytes_bytes (n : Nat) : ∀ b ∈ beBytes n, b < 256 := by
  fun_induction beBytes n with
  | case1 => intro b hb; simp at hb
  | case2 n h ih =>
    intro b hb
    simp only [List.mem_append, List.mem_singleton] at hb
    rcases hb with hb | rfl
    · exact ih b hb
    · omega

/-- no leading zero byte: the encoding is the *minimal* one (so equal values give equal bytes and vice versa) -/
theorem beBytes_head_ne_zero (n : Nat) : ∀ x t, beBytes n = x :: t → x ≠ 0 := by
  fun_induction beBytes n with
  | case1 => intro x t h; simp at h
  | case2 n h ih =>
    intro x t hx
    by_cases h0 : n / 256 = 0
    · have : beBytes (n / 256) = [] := beBytes_eq_nil.mpr h0
      rw [this] at hx
      simp at hx
      omega
    · cases hb : beBytes (n / 256) with
      | nil => exact absurd (beBytes_eq_nil.mp hb) h0
      | cons y u =>
        rw [hb] at hx ih
        simp at hx
        exact hx.1 ▸ ih y u rfl

/-! ## optional big integers -/

/-- **`conv_roundtrip` (big integers)**: what comes back is the magnitude; `nil ≃ 0` -/
theorem bigDec_bigEnc_abs (x : Option Int) : bigVal (bigDec (bigEnc x)) = ((bigVal x).natAbs : Int) := by
  cases x with
  | none => simp [bigEnc, bigDec, bigVal]
  | some z =>
    by_cases h0 : z.natAbs = 0
    · have : bigEnc (some z) = [] := beBytes_eq_nil.mpr h0
      rw [this]
      simp [bigDec, bigVal, h0]
    · have hne : beBytes z.natAbs ≠ [] := fun h => h0 (beBytes_eq_nil.mp h)
      have : (beBytes z.natAbs).isEmpty = false := by
        cases h : beBytes z.natAbs with
        | nil => exact absurd h hne
        | cons a b => rfl
      simp [bigEnc, bigDec, bigVal, this, beNat_beBytes]

/-- for non-negative values (the WF condition; C04 proves balances/stakes never go negative) the round trip is exact -/
theorem bigDec_bigEnc (x : Option Int) (h : 0 ≤ bigVal x) : bigVal (bigDec (bigEnc x)) = bigVal x := by
  rw [bigDec_bigEnc_abs]; omega

/-- the sign is not representable: a negative value does NOT round-trip (WF note of the design round) -/
theorem big_negative_not_roundtrip : bigVal (bigDec (bigEnc (some (-5)))) = 5 := by
  rw [bigDec_bigEnc_abs]; rfl

/-- on non-negative values the encoding determines the value (needed for `sig_binds` on amounts) -/
theorem bigEnc_injective {x y : Option Int} (hx : 0 ≤ bigVal x) (hy : 0 ≤ bigVal y)
    (h : bigEnc x = bigEnc y) : bigVal x = bigVal y := by
  rw [← bigDec_bigEnc x hx, ← bigDec_bigEnc y hy, h]

/-! ## int64 -/

theorem i64Dec_i64Enc (z : Int) (hlo : -(2 ^ 63 : Int) ≤ z) (hhi : z < (2 ^ 63 : Int)) : i64Dec (i64Enc z) = z := by
  have e63 : (2 : Int) ^ 63 = 9223372036854775808 := by decide
  have e64 : (2 : Int) ^ 64 = 18446744073709551616 := by decide
  have n63 : (2 : Nat) ^ 63 = 9223372036854775808 := by decide
  simp only [i64Dec, i64Enc, e64, n63]
  rw [e63] at hlo hhi
  split <;> omega

theorem i64Enc_lt (z : Int) : i64Enc z < 2 ^ 64 := by
  have e64 : (2 : Int) ^ 64 = 18446744073709551616 := by decide
  have n64 : (2 : Nat) ^ 64 = 18446744073709551616 := by decide
  simp only [i64Enc, e64, n64]
  omega

/-! ## fixed-size arrays, optional addresses, narrowing -/

theorem fixN_of_length {n : Nat} {b : Bytes} (h : b.length = n) : fixN n b = b := by
  simp [fixN, h]

theorem fixN_length (n : Nat) (b : Bytes) : (fixN n b).length = n := by
  simp only [fixN]
  split
  · simp; omega
  · simp; omega

theorem optDec_optEnc {n : Nat} (hn : 0 < n) (x : Option Bytes) (h : ∀ a, x = some a → a.length = n) :
    optDec n (optEnc x) = x := by
  cases x with
  | none => simp [optEnc, optDec]
  | some a =>
    have hl := h a rfl
    have : a.isEmpty = false := by
      cases a with
      | nil => simp at hl; omega
      | cons _ _ => rfl
    simp [optEnc, optDec, this, fixN_of_length hl]

theorem narrow_of_lt {bits n : Nat} (h : n < 2 ^ bits) : narrow bits n = n := Nat.mod_eq_of_lt h

/-! ## the table obligation -/

/-- **`codec_covers`**: once `TableOK` holds of the regenerated table, every field that is not on the committed
allow-list is written by the encoder to a proto field that the decoder reads it back from. -/
theorem codec_covers {t : List Row} (h : TableOK t = true) :
    ∀ r ∈ t, r.allow = none → ∃ p, p ∈ r.enc ∧ p ∈ r.dec := by
  intro r hr ha
  have hok : r.ok = true := by
    simp only [TableOK, List.all_eq_true] at h
    exact h r hr
  simp only [Row.ok, ha, Option.isSome_none, Bool.false_or, Bool.and_eq_true, Bool.not_eq_true'] at hok
  obtain ⟨hi, _⟩ := hok
  cases hl : inter r.enc r.dec with
  | nil => simp [hl] at hi
  | cons p ps =>
    have hp : p ∈ inter r.enc r.dec := by simp [hl]
    simp only [inter, List.mem_filter, List.contains_iff_mem] at hp
    exact ⟨p, hp.1, hp.2⟩

/-- **`sig_covers`**: every encoded field of a signed object is fed into the signature message, except the
fields with a committed exemption (the signature itself, the scheme selector). -/
theorem sig_covers {t : List Row} (h : TableOK t = true) :
    ∀ r ∈ t, r.allow = none → r.signed = true → r.unsigned = none → r.sig ≠ [] := by
  intro r hr ha hs hu
  have hok : r.ok = true := by
    simp only [TableOK, List.all_eq_true] at h
    exact h r hr
  simp only [Row.ok, ha, hs, hu, Option.isSome_none, Bool.false_or, Bool.and_eq_true, Bool.not_true,
    Bool.not_eq_true'] at hok
  intro hn
  simp [hn] at hok

/-- a new struct field that no encoder/decoder mentions (and nobody allow-listed) breaks the obligation -/
theorem uncovered_field_breaks (t : List Row) (r : Row) (hr : r ∈ t) (ha : r.allow = none) (he : r.enc = []) :
    TableOK t = false := by
  cases h : TableOK t with
  | false => rfl
  | true =>
    obtain ⟨p, hp, _⟩ := codec_covers h r hr ha
    simp [he] at hp

end IdenaModel.Codec
