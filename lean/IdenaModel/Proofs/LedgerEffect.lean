import IdenaModel.Proofs.Ledger
/-!
`fundsEffect`: what a transaction's `effect` does to balances, stakes and contract stakes, with all
bookkeeping steps removed; `effect_keeps`: the real `effect` differs from it only in bookkeeping fields.
-/
namespace IdenaModel.Ledger
open State

def fundsEffect (c : Cfg) (s : State) (tx : Tx) : State :=
  let snd := tx.sender
  let amt := tx.amount
  match tx.type, tx.to with
  | .send, some r => (s.addBal snd (-amt)).addBal r amt
  | .activation, some r =>
    let x := s.balance snd - calcCost s.g.headNetSize s.g.feePerGas tx
    (s.addBal snd (-x)).addBal r x
  | .invite, some r => (s.addBal snd (-amt)).addBal r amt
  | .kill, _ => (s.clearStake snd).addBal snd (stakeToBalance (s.idf snd))
  | .killInvitee, some r => if c.u12 then s.clearStake r else s
  | .killDelegator, some r =>
    if returnsStake c ((s.removeLinks r).ii r).state then (s.clearStake r).addBal snd (stakeToBalance (s.idf r)) else s.clearStake r
  | .burn, _ => s.addBal snd (-amt)
  | .replenishStake, some r => ((s.addBal snd (-amt)).addStake r amt).addReplenished r amt
  | .deploy, _ => contractWrapper c s tx tx.ext.contractAddr
  | .call, some r => contractWrapper c s tx r
  | .terminate, some r => contractWrapper c s tx r
  | _, _ => s

/-- the gas cost a contract transaction adds to the fee -/
def extraFee (s : State) (tx : Tx) : Int :=
  if tx.type.isContract then gasCost s.g.feePerGas tx.ext.vmGasUsed else 0

theorem keeps_of_fields {s s' : State} (h1 : s'.afunds = s.afunds) (h2 : s'.ameta = s.ameta)
    (h3 : s'.ifunds = s.ifunds) (h4 : s'.reg = s.reg) (h5 : s'.g.epoch = s.g.epoch) : Keeps s s' :=
  ⟨h1, h2, h3, h4, h5⟩

@[simp] theorem clearStake_afunds (s : State) (a : Nat) : (s.clearStake a).afunds = s.afunds := rfl
@[simp] theorem clearStake_ameta (s : State) (a : Nat) : (s.clearStake a).ameta = s.ameta := rfl
@[simp] theorem clearStake_reg (s : State) (a : Nat) : (s.clearStake a).reg = s.reg := rfl
@[simp] theorem clearStake_g (s : State) (a : Nat) : (s.clearStake a).g = s.g := rfl
@[simp] theorem clearStake_iinfo (s : State) (a : Nat) : (s.clearStake a).iinfo = s.iinfo := rfl

theorem applyDeltas_keeps_other (s : State) (l : List (Nat × Int)) :
    (s.applyDeltas l).ameta = s.ameta ∧ (s.applyDeltas l).ifunds = s.ifunds ∧ (s.applyDeltas l).reg = s.reg ∧
    (s.applyDeltas l).g = s.g ∧ (s.applyDeltas l).iinfo = s.iinfo := by
  unfold applyDeltas
  induction l generalizing s with
  | nil => simp
  | cons d t ih => simp only [List.foldl_cons]; have := ih (s.addBal d.1 d.2); simpa using this

@[simp] theorem applyDeltas_ameta (s : State) (l) : (s.applyDeltas l).ameta = s.ameta := (applyDeltas_keeps_other s l).1
@[simp] theorem applyDeltas_ifunds (s : State) (l) : (s.applyDeltas l).ifunds = s.ifunds := (applyDeltas_keeps_other s l).2.1
@[simp] theorem applyDeltas_reg (s : State) (l) : (s.applyDeltas l).reg = s.reg := (applyDeltas_keeps_other s l).2.2.1
@[simp] theorem applyDeltas_g (s : State) (l) : (s.applyDeltas l).g = s.g := (applyDeltas_keeps_other s l).2.2.2.1

theorem effect_keeps {c : Cfg} {s : State} {tx : Tx} {s1 : State} {e : Int}
    (h : effect c s tx = some (s1, e)) : Keeps (fundsEffect c s tx) s1 ∧ e = extraFee s tx := by
  cases ht : tx.type <;> cases hto : tx.to <;>
    simp only [effect, fundsEffect, extraFee, ht, hto, TxType.isContract] at h ⊢ <;>
    (try (simp at h; done)) <;>
    (try (
      repeat' split at h
      all_goals (try (simp at h; done))
      all_goals (
        simp only [Option.some.injEq, Prod.mk.injEq] at h
        obtain ⟨rfl, rfl⟩ := h
        refine ⟨keeps_of_fields ?_ ?_ ?_ ?_ ?_, ?_⟩ <;> simp [State.idf, State.balance, State.af, clearStake, *]))) <;>
    (try (
      simp at h
      obtain ⟨rfl, rfl⟩ := h
      exact ⟨Keeps.rfl' _, by simp⟩))
end IdenaModel.Ledger
