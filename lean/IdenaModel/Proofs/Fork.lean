import IdenaModel.Model.Fork
/-! Helper lemmas for C08 (M-Fork). -/
namespace IdenaModel.Fork

variable {σ : Type}

/-! ## the validation loop -/

/-- every block valid on its predecessor (threading the check state), every identity-update block certified, every
non-empty certificate acceptable for the validators of the state its block was built on -/
inductive ChainValid (E : Env σ) : Block → σ → List Bundle → Prop
  | nil (p : Block) (s : σ) : ChainValid E p s []
  | cons (p : Block) (s : σ) (b : Bundle) (s' : σ) (rest : List Bundle) :
      validateBlock E p s b.block = some s' →
      (b.block.idUpdate = true → certEmpty b.cert = false) →
      (∀ c, b.cert = some c → c.sigs ≠ [] → E.certOk p s b.block c = true) →
      ChainValid E b.block s' rest → ChainValid E p s (b :: rest)

/-- block and state reached by validating a chain -/
def runChain (E : Env σ) : Block → σ → List Bundle → Option (Block × σ)
  | p, s, [] => some (p, s)
  | p, s, b :: rest =>
    match validateBlock E p s b.block with
    | none => none
    | some s' => runChain E b.block s' rest

theorem certEmpty_false_iff (c : Option Cert) : certEmpty c = false ↔ ∃ d, c = some d ∧ d.sigs ≠ [] := by
  cases c with
  | none => simp [certEmpty]
  | some d => simp [certEmpty]

theorem certAccepted_iff (E : Env σ) (p : Block) (s : σ) (b : Bundle) :
    certAccepted E p s b = true ↔ ∀ c, b.cert = some c → c.sigs ≠ [] → E.certOk p s b.block c = true := by
  unfold certAccepted
  cases hb : b.cert with
  | none => simp
  | some d =>
    simp only [Bool.or_eq_true, List.isEmpty_iff, Option.some.injEq, ne_eq, forall_eq']
    constructor
    · intro h hs; rcases h with h | h
      · exact absurd h hs
      · exact h
    · intro h; by_cases hs : d.sigs = []
      · exact Or.inl hs
      · exact Or.inr (h hs)

theorem vscLoop_iff (E : Env σ) (p : Block) (s : σ) (bs : List Bundle) :
    vscLoop E p s bs = true ↔ ChainValid E p s bs := by
  induction bs generalizing p s with
  | nil => simp [vscLoop]; exact ChainValid.nil p s
  | cons b rest ih =>
    unfold vscLoop
    cases hv : validateBlock E p s b.block with
    | none =>
      simp only [Bool.false_eq_true, false_iff]
      intro h; cases h with
      | cons _ _ _ s' _ hv' _ _ _ => rw [hv] at hv'; cases hv'
    | some s' =>
      simp only
      by_cases h1 : (b.block.idUpdate && certEmpty b.cert) = true
      · rw [if_pos h1]; simp only [Bool.false_eq_true, false_iff]
        intro h; cases h with
        | cons _ _ _ _ _ _ hid _ _ =>
          simp only [Bool.and_eq_true] at h1
          have := hid h1.1; rw [h1.2] at this; cases this
      · rw [if_neg h1]
        by_cases h2 : certAccepted E p s b = true
        · rw [if_neg (by simp [h2])]
          constructor
          · intro h
            refine ChainValid.cons p s b s' rest hv ?_ ((certAccepted_iff E p s b).1 h2) ((ih _ _).1 h)
            intro hi
            cases hc : certEmpty b.cert with
            | false => rfl
            | true => exact absurd (by simp [hi, hc]) h1
          · intro h; cases h with
            | cons _ _ _ s'' _ hv' _ _ hr =>
              rw [hv] at hv'; cases hv'; exact (ih _ _).2 hr
        · have h2' : certAccepted E p s b = false := by simpa using h2
          rw [if_pos (by simp [h2'])]; simp only [Bool.false_eq_true, false_iff]
          intro h; cases h with
          | cons _ _ _ _ _ _ _ hc _ => exact h2 ((certAccepted_iff E p s b).2 hc)

/-! ## the repository maps after following a chain -/

def blocks (bs : List Bundle) : List Block := bs.map (·.block)

def canonW (bs : List Bundle) (m : Nat → Option Nat) : Nat → Option Nat :=
  bs.foldl (fun m b => upd m b.block.height (some b.block.hash)) m

def hdrW (bs : List Bundle) (m : Nat → Option Block) : Nat → Option Block :=
  bs.foldl (fun m b => upd m b.block.hash (some b.block)) m

def idxW (bs : List Bundle) (m : Nat → Option (Nat × Nat)) : Nat → Option (Nat × Nat) :=
  bs.foldl (fun m b => writeTxIdx m b.block.hash b.block.txs 0) m

/-- heights `H+1, H+2, …` -/
def Consec (H : Nat) (bs : List Bundle) : Prop :=
  ∀ i (hi : i < bs.length), (bs[i]).block.height = H + 1 + i

def lastBlock (h : Block) (bs : List Bundle) : Block :=
  match bs.getLast? with
  | some b => b.block
  | none => h

theorem lastBlock_cons (h : Block) (b : Bundle) (rest : List Bundle) :
    lastBlock h (b :: rest) = lastBlock b.block rest := by
  unfold lastBlock
  cases rest with
  | nil => simp
  | cons c r =>
    rw [List.getLast?_cons_cons]
    cases hh : (c :: r).getLast? with
    | none => simp at hh
    | some x => rfl

theorem consec_cons {H : Nat} {b : Bundle} {rest : List Bundle} (hb : b.block.height = H + 1)
    (hr : Consec (H + 1) rest) : Consec H (b :: rest) := by
  intro i hi
  cases i with
  | zero => simpa using hb
  | succ j =>
    have := hr j (by simpa using hi)
    simp only [List.getElem_cons_succ]; omega

theorem consec_tail {H : Nat} {b : Bundle} {rest : List Bundle} (h : Consec H (b :: rest)) :
    b.block.height = H + 1 ∧ Consec (H + 1) rest := by
  refine ⟨by have := h 0 (by simp); simp only [List.getElem_cons_zero] at this; omega, ?_⟩
  intro i hi
  have := h (i + 1) (by simpa using hi)
  simp only [List.getElem_cons_succ] at this; omega

theorem consec_mem {H : Nat} {bs : List Bundle} (h : Consec H bs) {b : Bundle} (hb : b ∈ bs) :
    H < b.block.height ∧ b.block.height ≤ H + bs.length := by
  obtain ⟨i, hi, rfl⟩ := List.getElem_of_mem hb
  have := h i hi; omega

theorem canonW_low (bs : List Bundle) (m : Nat → Option Nat) (H x : Nat) (hc : Consec H bs) (hx : x ≤ H) :
    canonW bs m x = m x := by
  induction bs generalizing m H with
  | nil => rfl
  | cons b rest ih =>
    obtain ⟨hb, hr⟩ := consec_tail hc
    show canonW rest (upd m b.block.height (some b.block.hash)) x = m x
    rw [ih _ (H + 1) hr (by omega)]
    simp [upd]; omega

theorem canonW_high (bs : List Bundle) (m : Nat → Option Nat) (H x : Nat) (hc : Consec H bs) (hx : H + bs.length < x) :
    canonW bs m x = m x := by
  induction bs generalizing m H with
  | nil => rfl
  | cons b rest ih =>
    obtain ⟨hb, hr⟩ := consec_tail hc
    show canonW rest (upd m b.block.height (some b.block.hash)) x = m x
    rw [ih _ (H + 1) hr (by simp at hx; omega)]
    simp [upd]; simp at hx; omega

theorem canonW_at (bs : List Bundle) (m : Nat → Option Nat) (H : Nat) (hc : Consec H bs) (i : Nat) (hi : i < bs.length) :
    canonW bs m (H + 1 + i) = some (bs[i]).block.hash := by
  induction bs generalizing m H i with
  | nil => simp at hi
  | cons b rest ih =>
    obtain ⟨hb, hr⟩ := consec_tail hc
    show canonW rest (upd m b.block.height (some b.block.hash)) (H + 1 + i) = _
    cases i with
    | zero =>
      rw [canonW_low rest _ (H + 1) _ hr (by omega)]
      simp [upd, hb]
    | succ j =>
      have := ih (upd m b.block.height (some b.block.hash)) (H + 1) hr j (by simpa using hi)
      simp only [List.getElem_cons_succ]
      rw [← this]; congr 1; omega

theorem hdrW_notin (bs : List Bundle) (m : Nat → Option Block) (y : Nat) (hy : ∀ b ∈ bs, b.block.hash ≠ y) :
    hdrW bs m y = m y := by
  induction bs generalizing m with
  | nil => rfl
  | cons b rest ih =>
    show hdrW rest (upd m b.block.hash (some b.block)) y = m y
    rw [ih _ (fun c hc => hy c (List.mem_cons_of_mem _ hc))]
    have := hy b (List.mem_cons_self ..)
    simp [upd]; intro h; exact absurd h.symm this

theorem hdrW_some (bs : List Bundle) (m : Nat → Option Block) (y : Nat) (c : Block) (h : hdrW bs m y = some c) :
    (∃ b ∈ bs, b.block = c ∧ c.hash = y) ∨ m y = some c := by
  induction bs generalizing m with
  | nil => exact Or.inr h
  | cons b rest ih =>
    have := ih (upd m b.block.hash (some b.block)) h
    rcases this with ⟨d, hd, h1, h2⟩ | h'
    · exact Or.inl ⟨d, List.mem_cons_of_mem _ hd, h1, h2⟩
    · simp only [upd] at h'
      split at h'
      next heq => injection h' with h'; exact Or.inl ⟨b, List.mem_cons_self .., h', by rw [← h', heq]⟩
      next => exact Or.inr h'

theorem hdrW_mem (bs : List Bundle) (m : Nat → Option Block)
    (hinj : ∀ b ∈ bs, ∀ b' ∈ bs, b.block.hash = b'.block.hash → b.block = b'.block) (b : Bundle) (hb : b ∈ bs) :
    hdrW bs m b.block.hash = some b.block := by
  induction bs generalizing m b with
  | nil => simp at hb
  | cons c rest ih =>
    show hdrW rest (upd m c.block.hash (some c.block)) b.block.hash = some b.block
    by_cases hin : ∃ d ∈ rest, d.block.hash = b.block.hash
    · obtain ⟨d, hd, hdh⟩ := hin
      have hdb : d.block = b.block := hinj d (List.mem_cons_of_mem _ hd) b hb hdh
      have := ih (upd m c.block.hash (some c.block))
        (fun x hx y hy => hinj x (List.mem_cons_of_mem _ hx) y (List.mem_cons_of_mem _ hy)) d hd
      rw [hdb] at this; exact this
    · rw [hdrW_notin rest _ _ (fun d hd hh => hin ⟨d, hd, hh⟩)]
      rcases List.mem_cons.1 hb with rfl | hb'
      · simp [upd]
      · exact absurd ⟨b, hb', rfl⟩ hin

/-! ## the transaction index -/

theorem writeTxIdx_notin (m : Nat → Option (Nat × Nat)) (bh : Nat) (ts : List Nat) (i t : Nat) (ht : t ∉ ts) :
    writeTxIdx m bh ts i t = m t := by
  induction ts generalizing m i with
  | nil => rfl
  | cons u us ih =>
    show writeTxIdx (upd m u (some (bh, i))) bh us (i + 1) t = m t
    rw [ih _ _ (fun h => ht (List.mem_cons_of_mem _ h))]
    have : t ≠ u := fun h => ht (h ▸ List.mem_cons_self ..)
    simp [upd, this]

theorem writeTxIdx_mem (m m' : Nat → Option (Nat × Nat)) (bh : Nat) (ts : List Nat) (i t : Nat) (ht : t ∈ ts) :
    writeTxIdx m bh ts i t = writeTxIdx m' bh ts i t ∧ ∃ j, writeTxIdx m bh ts i t = some (bh, j) := by
  induction ts generalizing m m' i with
  | nil => simp at ht
  | cons u us ih =>
    show writeTxIdx (upd m u (some (bh, i))) bh us (i + 1) t = writeTxIdx (upd m' u (some (bh, i))) bh us (i + 1) t ∧
      ∃ j, writeTxIdx (upd m u (some (bh, i))) bh us (i + 1) t = some (bh, j)
    by_cases hu : t ∈ us
    · exact ih _ _ _ hu
    · have htu : t = u := by rcases List.mem_cons.1 ht with h | h; exact h; exact absurd h hu
      rw [writeTxIdx_notin _ _ _ _ _ hu, writeTxIdx_notin _ _ _ _ _ hu]
      simp [upd, htu]

theorem idxW_notin (bs : List Bundle) (m : Nat → Option (Nat × Nat)) (t : Nat) (ht : ∀ b ∈ bs, t ∉ b.block.txs) :
    idxW bs m t = m t := by
  induction bs generalizing m with
  | nil => rfl
  | cons b rest ih =>
    show idxW rest (writeTxIdx m b.block.hash b.block.txs 0) t = m t
    rw [ih _ (fun c hc => ht c (List.mem_cons_of_mem _ hc)), writeTxIdx_notin _ _ _ _ _ (ht b (List.mem_cons_self ..))]

theorem idxW_mem (bs : List Bundle) (m m' : Nat → Option (Nat × Nat)) (t : Nat) (ht : ∃ b ∈ bs, t ∈ b.block.txs) :
    idxW bs m t = idxW bs m' t ∧ ∃ b ∈ bs, t ∈ b.block.txs ∧ ∃ j, idxW bs m t = some (b.block.hash, j) := by
  induction bs generalizing m m' with
  | nil => obtain ⟨b, hb, _⟩ := ht; simp at hb
  | cons b rest ih =>
    show idxW rest (writeTxIdx m b.block.hash b.block.txs 0) t = idxW rest (writeTxIdx m' b.block.hash b.block.txs 0) t ∧
      ∃ c ∈ b :: rest, t ∈ c.block.txs ∧ ∃ j, idxW rest (writeTxIdx m b.block.hash b.block.txs 0) t = some (c.block.hash, j)
    by_cases hr : ∃ c ∈ rest, t ∈ c.block.txs
    · obtain ⟨h1, c, hc, htc, j, hj⟩ := ih (writeTxIdx m b.block.hash b.block.txs 0) (writeTxIdx m' b.block.hash b.block.txs 0) hr
      exact ⟨h1, c, List.mem_cons_of_mem _ hc, htc, j, hj⟩
    · have hr' : ∀ c ∈ rest, t ∉ c.block.txs := fun c hc h => hr ⟨c, hc, h⟩
      have hb : t ∈ b.block.txs := by
        obtain ⟨c, hc, htc⟩ := ht
        rcases List.mem_cons.1 hc with rfl | hc'
        · exact htc
        · exact absurd htc (hr' c hc')
      rw [idxW_notin _ _ _ hr', idxW_notin _ _ _ hr']
      obtain ⟨h1, j, hj⟩ := writeTxIdx_mem m m' b.block.hash b.block.txs 0 t hb
      exact ⟨h1, b, List.mem_cons_self .., hb, j, hj⟩

/-! ## the loop of ResetTo -/

theorem dropRange_canon (canon : Nat → Option Nat) (hdr : Nat → Option Block) (h k x : Nat) :
    (dropRange canon hdr h k).1 x = if h ≤ x ∧ x < h + k then none else canon x := by
  induction k generalizing canon hdr h with
  | zero => simp [dropRange]; omega
  | succ k ih =>
    unfold dropRange
    cases hc : canon h with
    | none =>
      simp only
      rw [ih]
      by_cases hx : x = h
      · subst hx; simp [hc]
      · congr 1; apply propext; constructor <;> intro hh <;> omega
    | some hh =>
      simp only
      rw [ih]
      by_cases hx : x = h
      · subst hx; simp [upd]
      · have : (upd canon h none) x = canon x := by simp [upd, hx]
        rw [this]; congr 1; apply propext; constructor <;> intro hh <;> omega

theorem dropRange_hdr_removed (canon : Nat → Option Nat) (hdr : Nat → Option Block) (h k y : Nat)
    (hy : ∃ x, h ≤ x ∧ x < h + k ∧ canon x = some y) : (dropRange canon hdr h k).2.1 y = none := by
  induction k generalizing canon hdr h with
  | zero => obtain ⟨x, h1, h2, _⟩ := hy; omega
  | succ k ih =>
    obtain ⟨x, h1, h2, h3⟩ := hy
    unfold dropRange
    cases hc : canon h with
    | none =>
      simp only
      apply ih
      have : x ≠ h := fun e => by subst e; rw [hc] at h3; cases h3
      exact ⟨x, by omega, by omega, h3⟩
    | some hh =>
      simp only
      by_cases hx : x = h
      · subst hx
        rw [hc] at h3; injection h3 with h3; subst h3
        by_cases hy' : ∃ x', x + 1 ≤ x' ∧ x' < x + 1 + k ∧ (upd canon x none) x' = some hh
        · exact ih _ _ _ hy'
        · -- not removed again later: the entry written by this step stays none
          have : ∀ (c : Nat → Option Nat) (d : Nat → Option Block) (h' k' : Nat), d hh = none →
              (dropRange c d h' k').2.1 hh = none := by
            intro c d h' k'
            induction k' generalizing c d h' with
            | zero => intro hd; simpa [dropRange] using hd
            | succ k' ih' =>
              intro hd
              unfold dropRange
              cases c h' with
              | none => exact ih' _ _ _ hd
              | some z => simp only; apply ih'; simp [upd, hd]
          apply this; simp [upd]
      · apply ih
        exact ⟨x, by omega, by omega, by simp [upd, hx, h3]⟩

theorem dropRange_hdr_kept (canon : Nat → Option Nat) (hdr : Nat → Option Block) (h k y : Nat)
    (hy : ∀ x, h ≤ x → x < h + k → canon x ≠ some y) : (dropRange canon hdr h k).2.1 y = hdr y := by
  induction k generalizing canon hdr h with
  | zero => simp [dropRange]
  | succ k ih =>
    unfold dropRange
    cases hc : canon h with
    | none =>
      simp only
      exact ih _ _ _ (fun x h1 h2 => hy x (by omega) (by omega))
    | some hh =>
      simp only
      rw [ih]
      · have : hh ≠ y := fun e => hy h (by omega) (by omega) (by rw [hc, e])
        simp [upd]; intro e; exact absurd e.symm this
      · intro x h1 h2
        have : x ≠ h := by omega
        simp only [upd, this, if_false]
        exact hy x (by omega) (by omega)

theorem dropRange_rev (canon : Nat → Option Nat) (hdr : Nat → Option Block) (h : Nat) (own : List Block)
    (hc : ∀ i (hi : i < own.length), canon (h + i) = some (own[i]).hash ∧ hdr (own[i]).hash = some own[i])
    (hne : ∀ i j (hi : i < own.length) (hj : j < own.length), i ≠ j → (own[i]).hash ≠ (own[j]).hash) :
    (dropRange canon hdr h own.length).2.2 = own.flatMap (·.txs) := by
  induction own generalizing canon hdr h with
  | nil => simp [dropRange]
  | cons b rest ih =>
    have h0 := hc 0 (by simp)
    simp only [List.getElem_cons_zero, Nat.add_zero] at h0
    simp only [List.length_cons]
    unfold dropRange
    simp only [h0.1, h0.2, List.flatMap_cons]
    congr 1
    apply ih
    · intro i hi
      have := hc (i + 1) (by simpa using hi)
      simp only [List.getElem_cons_succ] at this
      have hne' : h + 1 + i ≠ h := by omega
      have hh : (rest[i]).hash ≠ b.hash := by
        have := hne (i + 1) 0 (by simpa using hi) (by simp) (by omega)
        simpa using this
      constructor
      · simp only [upd, hne', if_false]; rw [← this.1]; congr 1; omega
      · simp only [upd, hh, if_false]; exact this.2
    · intro i j hi hj hij
      have := hne (i + 1) (j + 1) (by simpa using hi) (by simpa using hj) (by omega)
      simpa using this

/-! ## following a chain -/

theorem validateBlock_link {E : Env σ} {p : Block} {s s' : σ} {b : Block} (h : validateBlock E p s b = some s') :
    b.height = p.height + 1 ∧ b.parent = p.hash := by
  unfold validateBlock at h
  split at h
  next hc => exact ⟨hc.1.symm, hc.2.symm⟩
  next => cases h

theorem addBlock_some {E : Env σ} {n n1 : Node σ} {b : Block} (h : addBlock E n b = some n1) :
    ∃ s', validateBlock E n.head n.cur b = some s' ∧
      n1 = { head := b, cur := s', canon := upd n.canon b.height (some b.hash), hdr := upd n.hdr b.hash (some b),
             txIdx := writeTxIdx n.txIdx b.hash b.txs 0, certs := n.certs, vers := saveVersion n.vers b.height s' } := by
  unfold addBlock at h
  split at h
  · cases h
  next s' hv => injection h with h; exact ⟨s', hv, h.symm⟩

theorem writeCert_fixed {n n2 : Node σ} {b : Bundle} (h : writeCert fixed n b = some n2) :
    n2.head = n.head ∧ n2.cur = n.cur ∧ n2.canon = n.canon ∧ n2.hdr = n.hdr ∧ n2.txIdx = n.txIdx ∧ n2.vers = n.vers := by
  unfold writeCert at h
  simp only [fixed, Bool.false_eq_true, if_false] at h
  split at h <;> (injection h with h; subst h; simp)

theorem writeCert_fixed_isSome (n : Node σ) (b : Bundle) : ∃ n2, writeCert fixed n b = some n2 := by
  unfold writeCert
  simp only [fixed, Bool.false_eq_true, if_false]
  split <;> exact ⟨_, rfl⟩

theorem syncFrom_append (E : Env σ) (a : Node σ) (l1 l2 : List Bundle) :
    syncFrom E a (l1 ++ l2) = (syncFrom E a l1).bind (fun m => syncFrom E m l2) := by
  induction l1 generalizing a with
  | nil => simp [syncFrom]
  | cons b rest ih =>
    simp only [List.cons_append, syncFrom]
    cases addBlock E a b.block with
    | none => rfl
    | some n1 =>
      simp only
      cases writeCert fixed n1 b with
      | none => rfl
      | some n2 => exact ih n2

structure SyncSpec (a a' : Node σ) (bs : List Bundle) : Prop where
  canon : a'.canon = canonW bs a.canon
  hdr : a'.hdr = hdrW bs a.hdr
  txIdx : a'.txIdx = idxW bs a.txIdx
  consec : Consec a.head.height bs
  head : a'.head = lastBlock a.head bs
  height : a'.head.height = a.head.height + bs.length
  versHead : a.vers a.head.height = some a.cur → a'.vers a'.head.height = some a'.cur
  versLow : ∀ x s, x ≤ a.head.height → a'.vers x = some s → a.vers x = some s

theorem syncFrom_spec (E : Env σ) (bs : List Bundle) (a a' : Node σ) (h : syncFrom E a bs = some a') :
    SyncSpec a a' bs := by
  induction bs generalizing a with
  | nil =>
    simp only [syncFrom, Option.some.injEq] at h; subst h
    exact ⟨rfl, rfl, rfl, fun i hi => by simp at hi, rfl, by simp, id, fun _ _ _ h => h⟩
  | cons b rest ih =>
    simp only [syncFrom] at h
    cases h1 : addBlock E a b.block with
    | none => rw [h1] at h; cases h
    | some n1 =>
      rw [h1] at h; simp only at h
      cases h2 : writeCert fixed n1 b with
      | none => rw [h2] at h; cases h
      | some n2 =>
        rw [h2] at h; simp only at h
        obtain ⟨s', hv, hn1⟩ := addBlock_some h1
        obtain ⟨hh, hcur, hcan, hhdr, hidx, hvers⟩ := writeCert_fixed h2
        obtain ⟨hbh, _⟩ := validateBlock_link hv
        have sp := ih n2 h
        have hn2head : n2.head = b.block := by rw [hh, hn1]
        have hn2h : n2.head.height = a.head.height + 1 := by rw [hn2head, hbh]
        refine ⟨?_, ?_, ?_, ?_, ?_, ?_, ?_, ?_⟩
        · rw [sp.canon, hcan, hn1]; rfl
        · rw [sp.hdr, hhdr, hn1]; rfl
        · rw [sp.txIdx, hidx, hn1]; rfl
        · exact consec_cons hbh (hn2h ▸ sp.consec)
        · rw [sp.head, lastBlock_cons, hn2head]
        · rw [sp.height, hn2h]; simp; omega
        · intro _
          apply sp.versHead
          rw [hvers, hcur, hn1, hn2head]; simp [saveVersion]
        · intro x s hx hs
          have := sp.versLow x s (by omega) hs
          rw [hvers, hn1] at this
          simp only [saveVersion] at this
          split at this
          · omega
          · split at this
            · cases this
            · exact this

/-- the loop of `applyFork` under the fixed certificate rule is the sync path -/
theorem applyBlocks_fixed (E : Env σ) (bs : List Bundle) (a a' : Node σ) (h : syncFrom E a bs = some a') :
    applyBlocks E fixed a bs = (a', .ok) := by
  induction bs generalizing a with
  | nil => simp only [syncFrom, Option.some.injEq] at h; subst h; rfl
  | cons b rest ih =>
    simp only [syncFrom] at h
    unfold applyBlocks
    cases h1 : addBlock E a b.block with
    | none => rw [h1] at h; cases h
    | some n1 =>
      rw [h1] at h; simp only at h ⊢
      cases h2 : writeCert fixed n1 b with
      | none => rw [h2] at h; cases h
      | some n2 => rw [h2] at h; simp only at h ⊢; exact ih n2 h

/-- nodes with the same head, state, canonical map and header store follow a validated chain alike -/
theorem syncFrom_core (E : Env σ) (bs : List Bundle) (a c : Node σ)
    (hh : a.head = c.head) (hc : a.cur = c.cur) (hcan : a.canon = c.canon) (hhd : a.hdr = c.hdr)
    (hv : vscLoop E c.head c.cur bs = true) :
    ∃ a' c', syncFrom E a bs = some a' ∧ syncFrom E c bs = some c' ∧
      a'.head = c'.head ∧ a'.cur = c'.cur ∧ a'.canon = c'.canon ∧ a'.hdr = c'.hdr := by
  induction bs generalizing a c with
  | nil => exact ⟨a, c, rfl, rfl, hh, hc, hcan, hhd⟩
  | cons b rest ih =>
    have hcv := (vscLoop_iff E _ _ _).1 hv
    cases hcv with
    | cons _ _ _ s' _ hvb _ _ hr =>
      obtain ⟨a2, ha2⟩ := writeCert_fixed_isSome
        ({ head := b.block, cur := s', canon := upd a.canon b.block.height (some b.block.hash),
           hdr := upd a.hdr b.block.hash (some b.block), txIdx := writeTxIdx a.txIdx b.block.hash b.block.txs 0,
           certs := a.certs, vers := saveVersion a.vers b.block.height s' } : Node σ) b
      obtain ⟨c2, hc2⟩ := writeCert_fixed_isSome
        ({ head := b.block, cur := s', canon := upd c.canon b.block.height (some b.block.hash),
           hdr := upd c.hdr b.block.hash (some b.block), txIdx := writeTxIdx c.txIdx b.block.hash b.block.txs 0,
           certs := c.certs, vers := saveVersion c.vers b.block.height s' } : Node σ) b
      obtain ⟨ah, ac, acan, ahd, _, _⟩ := writeCert_fixed ha2
      obtain ⟨ch, cc, ccan, chd, _, _⟩ := writeCert_fixed hc2
      have := ih a2 c2 (by rw [ah, ch]) (by rw [ac, cc]) (by rw [acan, ccan, hcan]) (by rw [ahd, chd, hhd])
        (by rw [ch, cc]; exact (vscLoop_iff E _ _ _).2 hr)
      obtain ⟨a', c', h1, h2, h3⟩ := this
      refine ⟨a', c', ?_, ?_, h3⟩
      · simp only [syncFrom, addBlock, hh, hc, hvb, ha2]; exact h1
      · simp only [syncFrom, addBlock, hvb, hc2]; exact h2

/-! ## invariants of a node that followed a chain from genesis -/

structure Good (P : Block → Prop) (a : Node σ) : Prop where
  canonHigh : ∀ x, a.head.height < x → a.canon x = none
  hdrOk : ∀ y b, a.hdr y = some b → P b ∧ b.hash = y ∧ b.height ≤ a.head.height
  ownHead : ownBlock a a.head.height = some a.head

theorem good_genesis (P : Block → Prop) (g : Block) (s0 : σ) (hg : P g) : Good P (genesisNode g s0) := by
  refine ⟨?_, ?_, ?_⟩
  · intro x hx
    simp only [genesisNode, upd] at hx ⊢
    split
    · omega
    · rfl
  · intro y b hb
    simp only [genesisNode, upd] at hb ⊢
    split at hb
    next h => injection hb with hb; subst hb; exact ⟨hg, h.symm, Nat.le_refl _⟩
    next => cases hb
  · simp [ownBlock, genesisNode, upd]

theorem good_sync (E : Env σ) (P : Block → Prop) (bs : List Bundle) (a a' : Node σ) (ha : Good P a)
    (hP : ∀ b ∈ bs, P b.block) (h : syncFrom E a bs = some a') : Good P a' := by
  induction bs generalizing a with
  | nil => simp only [syncFrom, Option.some.injEq] at h; subst h; exact ha
  | cons b rest ih =>
    simp only [syncFrom] at h
    cases h1 : addBlock E a b.block with
    | none => rw [h1] at h; cases h
    | some n1 =>
      rw [h1] at h; simp only at h
      cases h2 : writeCert fixed n1 b with
      | none => rw [h2] at h; cases h
      | some n2 =>
        rw [h2] at h; simp only at h
        obtain ⟨s', hv, hn1⟩ := addBlock_some h1
        obtain ⟨hh, _, hcan, hhdr, _, _⟩ := writeCert_fixed h2
        obtain ⟨hbh, _⟩ := validateBlock_link hv
        apply ih n2 _ (fun c hc => hP c (List.mem_cons_of_mem _ hc)) h
        have hhead : n2.head = b.block := by rw [hh, hn1]
        refine ⟨?_, ?_, ?_⟩
        · intro x hx
          rw [hhead] at hx
          rw [hcan, hn1]; simp only [upd]
          split
          · omega
          · exact ha.canonHigh x (by omega)
        · intro y c hc
          rw [hhdr, hn1] at hc; simp only [upd] at hc
          rw [hhead]
          split at hc
          next he => injection hc with hc; subst hc; exact ⟨hP b (List.mem_cons_self ..), he.symm, Nat.le_refl _⟩
          next => obtain ⟨p1, p2, p3⟩ := ha.hdrOk y c hc; exact ⟨p1, p2, by omega⟩
        · rw [hhead]; simp [ownBlock, hcan, hhdr, hn1, upd]

theorem lastBlock_mem (h : Block) (bs : List Bundle) : lastBlock h bs = h ∨ ∃ b ∈ bs, b.block = lastBlock h bs := by
  unfold lastBlock
  cases hl : bs.getLast? with
  | none => exact Or.inl rfl
  | some b => exact Or.inr ⟨b, List.mem_of_getLast? hl, rfl⟩

end IdenaModel.Fork
