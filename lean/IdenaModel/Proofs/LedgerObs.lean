import IdenaModel.Proofs.LedgerApply
/-! Observation-level lemmas: balances and stakes after the funds steps, totals, the invariant. -/
namespace IdenaModel.Ledger
open State

section
variable (s : State) (a b : Nat) (x : Int)

@[simp] theorem af_addBal : (s.addBal a x).af b = if b = a then { s.af a with balance := (s.af a).balance + x } else s.af b := by
  simp [State.af]
@[simp] theorem idf_addBal : (s.addBal a x).idf b = s.idf b := rfl
@[simp] theorem am_addBal : (s.addBal a x).am b = s.am b := rfl
@[simp] theorem balance_addBal : (s.addBal a x).balance b = if b = a then s.balance b + x else s.balance b := by
  simp only [State.balance, af_addBal]; split
  · rename_i h; subst h; rfl
  · rfl
@[simp] theorem cstake_addBal : (s.addBal a x).cstake b = s.cstake b := by
  by_cases h : b = a
  · subst h; simp [State.cstake]
  · simp [State.cstake, h]
@[simp] theorem stake_addBal : (s.addBal a x).stake b = s.stake b := rfl

@[simp] theorem af_addStake : (s.addStake a x).af b = s.af b := rfl
@[simp] theorem balance_addStake : (s.addStake a x).balance b = s.balance b := rfl
@[simp] theorem cstake_addStake : (s.addStake a x).cstake b = s.cstake b := rfl
@[simp] theorem idf_addStake :
    (s.addStake a x).idf b = if b = a then { s.idf a with stake := (s.idf a).stake + x } else s.idf b := by
  simp [State.idf]
@[simp] theorem stake_addStake : (s.addStake a x).stake b = if b = a then s.stake b + x else s.stake b := by
  simp only [State.stake, idf_addStake]; split
  · rename_i h; subst h; rfl
  · rfl

@[simp] theorem af_addReplenished : (s.addReplenished a x).af b = s.af b := rfl
@[simp] theorem balance_addReplenished : (s.addReplenished a x).balance b = s.balance b := rfl
@[simp] theorem cstake_addReplenished : (s.addReplenished a x).cstake b = s.cstake b := rfl
@[simp] theorem idf_addReplenished :
    (s.addReplenished a x).idf b =
      if b = a then { s.idf a with replenished := (s.idf a).replenished + x } else s.idf b := by
  simp [State.idf]
@[simp] theorem stake_addReplenished : (s.addReplenished a x).stake b = s.stake b := by
  simp only [State.stake, idf_addReplenished]; split
  · rename_i h; subst h; rfl
  · rfl

@[simp] theorem af_clearStake : (s.clearStake a).af b = s.af b := rfl
@[simp] theorem balance_clearStake : (s.clearStake a).balance b = s.balance b := rfl
@[simp] theorem cstake_clearStake : (s.clearStake a).cstake b = s.cstake b := rfl
@[simp] theorem idf_clearStake :
    (s.clearStake a).idf b = if b = a then { stake := 0, locked := 0, replenished := 0 } else s.idf b := by
  by_cases h : b = a
  · subst h; simp [State.idf, clearStake, addStake, addLocked, addReplenished, modIF]
    exact ⟨by omega, by omega, by omega⟩
  · simp [State.idf, clearStake, addStake, addLocked, addReplenished, modIF, h]
@[simp] theorem stake_clearStake : (s.clearStake a).stake b = if b = a then 0 else s.stake b := by
  simp only [State.stake, idf_clearStake]; split <;> rfl

end

/-! ### through `Keeps` and `finish` -/
theorem State.Keeps.af {s s' : State} (h : Keeps s s') (a : Nat) : s'.af a = s.af a := by simp [State.af, h.afunds]
theorem State.Keeps.am {s s' : State} (h : Keeps s s') (a : Nat) : s'.am a = s.am a := by simp [State.am, h.ameta]
theorem State.Keeps.idf {s s' : State} (h : Keeps s s') (a : Nat) : s'.idf a = s.idf a := by simp [State.idf, h.ifunds]
theorem State.Keeps.balance {s s' : State} (h : Keeps s s') (a : Nat) : s'.balance a = s.balance a := by
  simp [State.balance, h.af]
theorem State.Keeps.cstake {s s' : State} (h : Keeps s s') (a : Nat) : s'.cstake a = s.cstake a := by
  simp [State.cstake, h.af]
theorem State.Keeps.stake {s s' : State} (h : Keeps s s') (a : Nat) : s'.stake a = s.stake a := by
  simp [State.stake, h.idf]

theorem finish_af (tx : Tx) (s1 : State) (fee : Int) (a : Nat) :
    (finish tx s1 fee).af a = ((s1.addBal tx.sender (-fee)).addBal tx.sender (-tx.tips)).af a := by
  simp only [State.af, finish_afunds]
theorem finish_balance (tx : Tx) (s1 : State) (fee : Int) (a : Nat) :
    (finish tx s1 fee).balance a = if a = tx.sender then s1.balance a - fee - tx.tips else s1.balance a := by
  simp only [State.balance, finish_af]
  have := balance_addBal (s1.addBal tx.sender (-fee)) tx.sender a (-tx.tips)
  simp only [State.balance] at this
  rw [this]
  have h2 := balance_addBal s1 tx.sender a (-fee)
  simp only [State.balance] at h2
  rw [h2]
  split <;> omega
theorem finish_cstake (tx : Tx) (s1 : State) (fee : Int) (a : Nat) : (finish tx s1 fee).cstake a = s1.cstake a := by
  have : (finish tx s1 fee).cstake a = ((s1.addBal tx.sender (-fee)).addBal tx.sender (-tx.tips)).cstake a := by
    simp only [State.cstake, finish_af]
  rw [this]; simp
theorem finish_idf (tx : Tx) (s1 : State) (fee : Int) (a : Nat) : (finish tx s1 fee).idf a = s1.idf a := by
  simp [State.idf]
theorem finish_stake (tx : Tx) (s1 : State) (fee : Int) (a : Nat) : (finish tx s1 fee).stake a = s1.stake a := by
  simp [State.stake, finish_idf]

end IdenaModel.Ledger
